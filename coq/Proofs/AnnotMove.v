(* Proofs.AnnotMove — POST move keeps every view (target free, partners listed, no self reference). *)
From DV Require Import Base.Prelude Model.Annot Gen.Consts Proofs.AnnotBase Proofs.AnnotStore Proofs.AnnotViews Proofs.AnnotDelete.
From Coq Require Import Permutation.
Local Open Scope Z_scope.

Definition phi (f t : pos) (e : elem) : elem := mv_rel f t (repos f t e).

Lemma g_move_map f t G : g_move f t G = map (phi f t) G.
Proof. unfold g_move, phi. now rewrite map_map. Qed.
Lemma phi_pos f t e : e_pos (phi f t e) = e_pos (repos f t e). Proof. reflexivity. Qed.
Lemma repos_pos f t e : e_pos (repos f t e) = if pos_eqb f (e_pos e) then t else e_pos e.
Proof. unfold repos, has_pos. destruct (pos_eqb f (e_pos e)); reflexivity. Qed.
Lemma phi_kind f t e : e_kind (phi f t e) = e_kind e.
Proof. unfold phi, repos. destruct (has_pos f e); reflexivity. Qed.
Lemma phi_tags f t e : e_tags (phi f t e) = e_tags e.
Proof. unfold phi, repos. destruct (has_pos f e); reflexivity. Qed.
Lemma repos_kind f t e : e_kind (repos f t e) = e_kind e.
Proof. unfold repos. destruct (has_pos f e); reflexivity. Qed.
Lemma nr_phi f t e : nr (phi f t e) = repos f t (nr e).
Proof. unfold phi. rewrite nr_mv_rel. apply nr_repos. Qed.
Lemma repos_refs f t p e : refs p (repos f t e) = refs p e.
Proof. unfold repos. destruct (has_pos f e); reflexivity. Qed.
Lemma repos_repos f t e : f <> t -> repos f t (repos f t e) = repos f t e.
Proof.
  intro Hne. destruct (has_pos f e) eqn:E.
  - rewrite (repos_at f t e) by (now apply has_pos_true). apply repos_other. cbn. congruence.
  - apply has_pos_false in E. rewrite (repos_other f t e E). now apply repos_other.
Qed.
Lemma phi_repos f t e : f <> t -> phi f t (repos f t e) = phi f t e.
Proof. intro H. unfold phi. now rewrite repos_repos. Qed.

Lemma uniq_map_same_in (g : elem -> elem) l : (forall e, In e l -> e_pos (g e) = e_pos e) -> uniq l -> uniq (map g l).
Proof.
  intros Hg. unfold uniq, posl. rewrite map_map.
  replace (map (fun x => e_pos (g x)) l) with (map e_pos l); [auto|]. apply map_ext_in. intros a Ha. symmetry. now apply Hg.
Qed.

(* renaming one position to a fresh one keeps positions distinct *)
Lemma uniq_map_rename (g : elem -> elem) f t l :
  (forall e, e_pos (g e) = if pos_eqb f (e_pos e) then t else e_pos e) -> uniq l -> ~ In t (posl l) -> uniq (map g l).
Proof.
  intros Hg. unfold uniq. induction l as [|a l IH]; cbn; intros U Hn; [constructor|].
  apply NoDup_cons_iff in U as [Ha U]. apply NoDup_cons_iff. split; [|apply IH; tauto].
  intro Hi. apply posl_in in Hi as [y [Hy Ey]]. apply in_map_iff in Hy as [y0 [<- Hy0]].
  rewrite !Hg in Ey. destruct (pos_eqb f (e_pos y0)) eqn:E1, (pos_eqb f (e_pos a)) eqn:E2.
  - apply pos_eqb_eq in E1, E2. apply Ha. rewrite <- E2, E1. now apply in_posl.
  - apply Hn. left. congruence.
  - apply Hn. right. rewrite <- Ey. now apply in_posl.
  - apply Ha. rewrite <- Ey. now apply in_posl.
Qed.

Lemma g_move_spec f t G : uniq G -> ~ In t (posl G) ->
  uniq (g_move f t G) /\ forall x, In x (g_move f t G) <-> exists y, In y G /\ x = phi f t y.
Proof.
  intros U Hn. rewrite g_move_map. split.
  - apply (uniq_map_rename (phi f t) f t); auto. intro e. rewrite phi_pos. apply repos_pos.
  - intro x. rewrite in_map_iff. split; intros [y H]; exists y; intuition.
Qed.

Lemma map_phi_id f t l : existsb (has_pos f) l = false -> existsb (refs f) l = false ->
  map (mv_rel f t) (map (repos f t) l) = l.
Proof.
  intros H1 H2. rewrite (map_norefs (repos f t) (has_pos f)); [|intros e He; unfold repos; now rewrite He | exact H1].
  apply (map_norefs (mv_rel f t) (refs f)); [apply mv_rel_norefs | exact H2].
Qed.
Lemma map_repos_id f t l : ~ In f (posl l) -> map (repos f t) l = l.
Proof.
  intro H. apply (map_norefs (repos f t) (has_pos f)); [intros e He; unfold repos; now rewrite He|].
  apply not_true_is_false. intro E. apply existsb_has_pos in E. contradiction.
Qed.

Lemma el_add_fresh l e : ~ In (e_pos e) (posl l) -> el_add l [e] = l ++ [e].
Proof. intro H. unfold el_add. cbn. apply (last_idx_none _ _ 0%nat) in H. now rewrite H. Qed.

Lemma count_idx_single i e : count_idx i [e] = if idx_match i (e_kind e) then 1 else 0.
Proof. unfold count_idx. cbn. destruct (idx_match i (e_kind e)); reflexivity. Qed.

Lemma nview_move (P P' : elem -> Prop) f t G L : uniq G -> ~ In t (posl G) -> is_nview P G L ->
  (forall e, In e G -> (P' (phi f t e) <-> P e)) ->
  is_nview P' (g_move f t G) (map (repos f t) L).
Proof.
  intros UG Hn [UL HL] HP. destruct (g_move_spec f t G UG Hn) as [_ HG]. split.
  - apply (uniq_map_rename (repos f t) f t); [apply repos_pos | exact UL|].
    intro Hi. apply posl_in in Hi as [x [Hx Ex]]. apply HL in Hx as [e [He [-> _]]]. apply Hn. cbn in Ex. rewrite <- Ex. now apply in_posl.
  - intro x. rewrite in_map_iff. split.
    + intros [x0 [<- Hx0]]. apply HL in Hx0 as [e [He [-> Pe]]]. exists (phi f t e).
      split; [apply HG; eauto|]. split; [symmetry; apply nr_phi | now apply HP].
    + intros [e' [He' [-> Pe']]]. apply HG in He' as [e [He ->]]. exists (nr e). split; [symmetry; apply nr_phi|].
      apply HL. exists e. split; [exact He|]. split; [reflexivity | now apply HP].
Qed.

Section Move.
  Variables (bs : pos) (G : list elem) (s : state) (f t : pos) (m : elem).
  Hypothesis V : ViewsI bs G s.
  Hypothesis Ht : ~ In t (posl G).
  Hypothesis Hlisted : refs_listed bs G f.
  Hypothesis Hm : In m G.
  Hypothesis Hmp : e_pos m = f.
  Hypothesis Hself : refs f m = false.

  Let fb := blockOf bs f.
  Let tb := blockOf bs t.
  Let UG := vi_uniq _ _ _ V.

  Lemma mv_ft : f <> t.
  Proof. intro E. apply Ht. rewrite <- E, <- Hmp. now apply in_posl. Qed.
  Lemma at_f_is_m y : In y G -> e_pos y = f -> y = m.
  Proof. intros Hy Ey. apply (uniq_inj G y m UG Hy Hm). congruence. Qed.
  Lemma phi_m : phi f t m = set_pos m t.
  Proof.
    unfold phi. rewrite (repos_at f t m Hmp). apply mv_rel_norefs. exact Hself.
  Qed.
  Lemma repos_m : repos f t m = set_pos m t. Proof. apply repos_at. exact Hmp. Qed.
  Lemma repos_not_m y : In y G -> y <> m -> repos f t y = y.
  Proof. intros Hy Hne. apply repos_other. intro E. apply Hne. now apply at_f_is_m. Qed.
  Lemma block_m : blockOf bs (e_pos m) = fb. Proof. unfold fb. now rewrite Hmp. Qed.

  Let cur := bget (blk s) fb.
  Let del := negb (pos_eqb fb tb).

  (* the first batch *)
  Definition bk2_of (fl : list elem) : amap pos :=
    let bk1 := aput fb fl (blk s) in
    if del then aput tb (el_add (bget (blk s) tb) [set_pos m t]) bk1 else bk1.

  Lemma el_move_result :
    exists fl, el_move f t del cur = (Some (set_pos m t), fl)
      /\ uniq fl
      /\ forall x, In x fl <-> exists y, In y G /\ blockOf bs (e_pos (repos f t y)) = fb /\ x = phi f t y.
  Proof.
    destruct (vi_block _ _ _ V fb) as [Ub Hb]. fold cur in Ub, Hb.
    assert (Hmc : In m cur) by (apply Hb; split; [exact Hm | apply block_m]).
    unfold el_move. destruct del eqn:Ed.
    - (* across blocks *)
      pose proof (remove_first_uniq f cur Ub) as Hrf. destruct (remove_first f cur) as [[d|] r].
      2:{ destruct Hrf as [_ Hn]. exfalso. apply Hn. rewrite <- Hmp. now apply in_posl. }
      destruct Hrf as [Hd [Hpd [Hr Ur]]]. assert (d = m) by (apply at_f_is_m; [apply Hb in Hd; tauto | exact Hpd]). subst d.
      eexists. split; [reflexivity|]. split; [apply uniq_map_same; [intro; reflexivity | exact Ur]|].
      intro x. rewrite in_map_iff. unfold del in Ed. apply negb_true_iff, pos_eqb_neq in Ed. split.
      + intros [y [<- Hy]]. apply Hr in Hy as [Hy Hyp]. apply Hb in Hy as [Hy Hyb]. exists y.
        rewrite (repos_other f t y Hyp). split; [exact Hy|]. split; [exact Hyb|]. unfold phi. now rewrite (repos_other f t y Hyp).
      + intros [y [Hy [Hyb ->]]]. destruct (pos_dec (e_pos y) f) as [E|E].
        * assert (y = m) by now apply at_f_is_m. subst y. rewrite repos_m in Hyb. cbn in Hyb. fold tb in Hyb. congruence.
        * rewrite (repos_other f t y E) in Hyb. exists y. split; [unfold phi; now rewrite (repos_other f t y E)|].
          apply Hr. split; [apply Hb; tauto | exact E].
    - (* within the block *)
      unfold del in Ed. apply negb_false_iff, pos_eqb_eq in Ed.
      rewrite (last_at_uniq f cur m Ub Hmc Hmp). eexists. split; [reflexivity|]. split.
      + rewrite map_map. apply (uniq_map_rename _ f t); [intro e; apply repos_pos | exact Ub|].
        intro Hi. apply Ht. apply posl_in in Hi as [y [Hy Ey]]. apply Hb in Hy as [Hy _]. rewrite <- Ey. now apply in_posl.
      + intro x. rewrite map_map, in_map_iff. split.
        * intros [y [<- Hy]]. apply Hb in Hy as [Hy Hyb]. exists y. split; [exact Hy|]. split; [|reflexivity].
          rewrite repos_pos. destruct (pos_eqb f (e_pos y)) eqn:E; [fold tb; congruence | exact Hyb].
        * intros [y [Hy [Hyb ->]]]. exists y. split; [reflexivity|]. apply Hb. split; [exact Hy|].
          rewrite repos_pos in Hyb. destruct (pos_eqb f (e_pos y)) eqn:E; [|exact Hyb].
          apply pos_eqb_eq in E. rewrite <- E. reflexivity.
  Qed.

  Lemma bk2_view fl : uniq fl ->
    (forall x, In x fl <-> exists y, In y G /\ blockOf bs (e_pos (repos f t y)) = fb /\ x = phi f t y) ->
    forall b', uniq (bget (bk2_of fl) b')
      /\ forall x, In x (bget (bk2_of fl) b') <->
           exists y, In y G /\ blockOf bs (e_pos (repos f t y)) = b' /\ x = if pos_eqb b' fb then phi f t y else repos f t y.
  Proof.
    intros Ufl Hfl b'. unfold bk2_of. destruct del eqn:Ed.
    - unfold del in Ed. apply negb_true_iff, pos_eqb_neq in Ed.
      rewrite !bget_aput. destruct (pos_eqb tb b') eqn:Et.
      + apply pos_eqb_eq in Et. subst b'. assert (Efb : pos_eqb tb fb = false) by (apply pos_eqb_neq; congruence). rewrite Efb.
        destruct (vi_block _ _ _ V tb) as [Utb Htb].
        assert (Hfresh : ~ In (e_pos (set_pos m t)) (posl (bget (blk s) tb))).
        { cbn. intro Hi. apply Ht. apply posl_in in Hi as [y [Hy Ey]]. apply Htb in Hy as [Hy _]. rewrite <- Ey. now apply in_posl. }
        rewrite (el_add_fresh _ _ Hfresh). split.
        * apply uniq_app; [exact Utb | unfold uniq; cbn; constructor; [tauto | constructor]|].
          intros p Hp [Hq|[]]. cbn in Hq. subst p. exact (Hfresh Hp).
        * intro x. rewrite in_app_iff. cbn [In]. rewrite Htb. split.
          -- intros [[Hx Hxb]|[<-|[]]].
             ++ exists x. assert (x <> m) by (intro Exm; subst x; rewrite block_m in Hxb; congruence).
                rewrite (repos_not_m x Hx H). auto.
             ++ exists m. rewrite repos_m. cbn. auto.
          -- intros [y [Hy [Hyb ->]]]. destruct (pos_dec (e_pos y) f) as [E|E].
             ++ assert (y = m) by now apply at_f_is_m. subst y. right. left. symmetry. apply repos_m.
             ++ rewrite (repos_other f t y E) in *. left. auto.
      + rewrite (pos_eqb_sym fb b'). destruct (pos_eqb b' fb) eqn:Ef.
        * apply pos_eqb_eq in Ef. subst b'. split; [exact Ufl | exact Hfl].
        * destruct (vi_block _ _ _ V b') as [Ub' Hb']. split; [exact Ub'|]. intro x. rewrite Hb'. split.
          -- intros [Hx Hxb]. exists x. assert (x <> m) by (intro Exm; subst x; rewrite block_m in Hxb; apply pos_eqb_neq in Ef; congruence).
             rewrite (repos_not_m x Hx H). auto.
          -- intros [y [Hy [Hyb ->]]]. destruct (pos_dec (e_pos y) f) as [E|E].
             ++ assert (y = m) by now apply at_f_is_m. subst y. rewrite repos_m in Hyb. cbn in Hyb. fold tb in Hyb.
                apply pos_eqb_neq in Et. congruence.
             ++ rewrite (repos_other f t y E) in *. auto.
    - unfold del in Ed. apply negb_false_iff, pos_eqb_eq in Ed.
      rewrite bget_aput, (pos_eqb_sym fb b'). destruct (pos_eqb b' fb) eqn:Ef.
      + apply pos_eqb_eq in Ef. subst b'. split; [exact Ufl | exact Hfl].
      + destruct (vi_block _ _ _ V b') as [Ub' Hb']. split; [exact Ub'|]. intro x. rewrite Hb'. split.
        * intros [Hx Hxb]. exists x. assert (x <> m) by (intro Exm; subst x; rewrite block_m in Hxb; apply pos_eqb_neq in Ef; congruence).
          rewrite (repos_not_m x Hx H). auto.
        * intros [y [Hy [Hyb ->]]]. destruct (pos_dec (e_pos y) f) as [E|E].
          -- assert (y = m) by now apply at_f_is_m. subst y. rewrite repos_m in Hyb. cbn in Hyb. fold tb in Hyb.
             apply pos_eqb_neq in Ef. congruence.
          -- rewrite (repos_other f t y E) in *. auto.
  Qed.

  Lemma move_block_view fl b' : uniq fl ->
    (forall x, In x fl <-> exists y, In y G /\ blockOf bs (e_pos (repos f t y)) = fb /\ x = phi f t y) ->
    is_bview bs (g_move f t G) b' (bget (move_in_rels bs (bk2_of fl) f t (e_rels m)) b').
  Proof.
    intros Ufl Hfl. pose proof (bk2_view fl Ufl Hfl) as H2. set (bk2 := bk2_of fl) in *.
    destruct (g_move_spec f t G UG Ht) as [_ HG].
    unfold move_in_rels. fold fb.
    set (c := fun b => negb (pos_eqb b fb) && (existsb (has_pos f) (bget bk2 b) || existsb (refs f) (bget bk2 b))).
    set (g := fun b => map (mv_rel f t) (map (repos f t) (bget bk2 b))).
    rewrite (fold_left_ext _ (fun acc b => if c b then aput b (g b) acc else acc))
      by (intros a b0; unfold c, g; destruct (pos_eqb b0 fb); cbn [negb andb]; reflexivity).
    unfold bget at 1. rewrite (fold_put_get_id pos_eqb pos_eqb_eq c g). fold (bget bk2 b').
    destruct (H2 b') as [U2 H2b]. destruct (pos_eqb b' fb) eqn:Ef.
    - (* the from block is not touched again *)
      assert (Hc : c b' = false) by (unfold c; now rewrite Ef). rewrite Hc, andb_false_r. split; [exact U2|].
      intro x. rewrite H2b, HG. split.
      + intros [y [Hy [Hyb ->]]]. split; [eauto | now rewrite phi_pos].
      + intros [[y [Hy ->]] Hxb]. exists y. rewrite phi_pos in Hxb. auto.
    - (* every other block ends up with phi applied *)
      assert (Hno_f : forall x, In x (bget bk2 b') -> e_pos x <> f).
      { intros x Hx. apply H2b in Hx as [y [Hy [_ ->]]]. rewrite repos_pos. destruct (pos_eqb f (e_pos y)) eqn:E.
        - intro E'. apply mv_ft. congruence.
        - apply pos_eqb_neq in E. congruence. }
      assert (Huni : (if existsb (fun k => pos_eqb k b') (nodupb pos_eqb (map (fun r => blockOf bs (snd r)) (e_rels m))) && c b'
                      then g b' else bget bk2 b') = map (phi f t) (bget bk2 b')).
      { unfold g. rewrite map_map. fold (phi f t). change (fun x => mv_rel f t (repos f t x)) with (phi f t).
        destruct (c b') eqn:Ec.
        - destruct (existsb (fun k => pos_eqb k b') (nodupb pos_eqb (map (fun r => blockOf bs (snd r)) (e_rels m)))) eqn:Ee; [reflexivity|].
          exfalso. unfold c in Ec. rewrite Ef in Ec. cbn [negb andb] in Ec. apply orb_true_iff in Ec as [Ec|Ec].
          + apply existsb_has_pos in Ec. apply posl_in in Ec as [x [Hx Ex]]. exact (Hno_f x Hx Ex).
          + apply existsb_exists in Ec as [x [Hx Hxr]]. apply H2b in Hx as [y [Hy [Hyb ->]]]. rewrite repos_refs in Hxr.
            assert (Hym : y <> m) by (intro Eym; subst y; congruence).
            rewrite (repos_not_m y Hy Hym) in Hyb.
            destruct (Hlisted m y Hm (proj2 (has_pos_true f m) Hmp) Hy Hxr) as [Hb|Hr].
            * fold fb in Hb. apply pos_eqb_neq in Ef. congruence.
            * apply refs_true in Hr as [r [Hr1 Hr2]].
              assert (Hin : In b' (nodupb pos_eqb (map (fun r => blockOf bs (snd r)) (e_rels m)))).
              { apply (nodupb_In pos_eqb pos_eqb_eq). apply in_map_iff. exists r. split; [now rewrite Hr2 | exact Hr1]. }
              apply (existsb_eqb_In pos_eqb pos_eqb_eq) in Hin. congruence.
        - rewrite andb_false_r. unfold c in Ec. rewrite Ef in Ec. cbn [negb andb] in Ec. apply orb_false_iff in Ec as [E1 E2].
          symmetry. unfold phi. rewrite <- map_map. now apply map_phi_id. }
      rewrite Huni. split.
      + apply uniq_map_same_in; [|exact U2]. intros e He. rewrite phi_pos. apply f_equal. apply repos_other. now apply Hno_f.
      + intro x. rewrite in_map_iff, HG. split.
        * intros [x0 [<- Hx0]]. apply H2b in Hx0 as [y [Hy [Hyb ->]]]. rewrite (phi_repos f t y mv_ft).
          split; [eauto | now rewrite phi_pos].
        * intros [[y [Hy ->]] Hxb]. exists (repos f t y). split; [apply (phi_repos f t y mv_ft)|].
          apply H2b. exists y. rewrite phi_pos in Hxb. auto.
  Qed.

  Lemma move_tag_view t' :
    is_nview (fun e => In t' (e_tags e)) (g_move f t G) (nget (move_in_tags (tgs s) f t (e_tags m)) t').
  Proof.
    unfold move_in_tags.
    pose proof (fold_put_get_id N.eqb N_eqb_ok (fun t0 => existsb (has_pos f) (nget (tgs s) t0))
                  (fun t0 => map (repos f t) (nget (tgs s) t0)) (e_tags m) (tgs s) t') as Hf.
    unfold nget at 1. rewrite Hf. clear Hf. fold (nget (tgs s) t').
    pose proof (vi_tag _ _ _ V t') as Vt.
    assert (Huni : (if existsb (fun k => (k =? t')%N) (e_tags m) && existsb (has_pos f) (nget (tgs s) t')
                    then map (repos f t) (nget (tgs s) t') else nget (tgs s) t') = map (repos f t) (nget (tgs s) t')).
    { destruct (existsb (fun k => (k =? t')%N) (e_tags m) && existsb (has_pos f) (nget (tgs s) t')) eqn:E; [reflexivity|].
      symmetry. apply map_repos_id. intro Hi. destruct (nview_pos _ _ _ _ Vt Hi) as [e [He [Ep Hte]]].
      assert (e = m) by now apply at_f_is_m. subst e. apply (existsb_eqb_In N.eqb N_eqb_ok) in Hte. apply existsb_has_pos in Hi.
      rewrite Hte, Hi in E. discriminate. }
    rewrite Huni. apply (nview_move (fun e => In t' (e_tags e)) (fun e => In t' (e_tags e)) f t G (nget (tgs s) t') UG Ht Vt).
    intros e He. now rewrite phi_tags.
  Qed.

  Lemma nr_m_in_label : body s f <> 0%N -> In (nr m) (nget (lbl s) (body s f)).
  Proof. intro H. apply (vi_label _ _ _ V _ H). exists m. rewrite Hmp. auto. Qed.

  Lemma label_no_f l : l <> 0%N -> l <> body s f -> ~ In f (posl (nget (lbl s) l)).
  Proof.
    intros Hl Hne Hi. destruct (nview_pos _ _ _ _ (vi_label _ _ _ V l Hl) Hi) as [e [He [Ep Hb]]]. rewrite Ep in Hb. congruence.
  Qed.

  Lemma filter_f_label : body s f <> 0%N -> filter (has_pos f) (nget (lbl s) (body s f)) = [nr m] \/ True.
  Proof. tauto. Qed.

  Lemma count_idx_nr_delete i : body s f <> 0%N ->
    count_idx i (nr_delete f (nget (lbl s) (body s f))) = count_idx i (nget (lbl s) (body s f)) - (if idx_match i (e_kind m) then 1 else 0).
  Proof.
    intro H. destruct (vi_label _ _ _ V _ H) as [Ul Hl]. unfold nr_delete.
    pose proof (remove_first_uniq f _ Ul) as Hrf. pose proof (nr_m_in_label H) as Hin.
    destruct (remove_first f (nget (lbl s) (body s f))) as [[d|] r] eqn:E.
    2:{ destruct Hrf as [_ Hn]. exfalso. apply Hn. apply in_posl in Hin. cbn in Hin. rewrite Hmp in Hin. exact Hin. }
    destruct Hrf as [Hd [Hpd [Hr Ur]]]. cbn [snd].
    assert (d = nr m) by (apply (uniq_inj _ d (nr m) Ul Hd Hin); cbn; congruence). subst d.
    assert (P : Permutation (nget (lbl s) (body s f)) (nr m :: r)).
    { apply uniq_perm; [exact Ul | | ].
      - unfold uniq. cbn [posl map]. apply NoDup_cons_iff. split; [|exact Ur]. intro Hi. apply posl_in in Hi as [y [Hy Ey]].
        apply Hr in Hy as [_ Hy]. apply Hy. rewrite Ey. cbn. exact Hmp.
      - intro x. cbn. rewrite Hr. split.
        + intro Hx. destruct (pos_dec (e_pos x) f) as [Ex|Ex]; [left; symmetry; apply (uniq_inj _ x (nr m) Ul Hx Hin); cbn; congruence | tauto].
        + intros [<-|[Hx _]]; auto. }
    rewrite (count_idx_perm i _ _ P). change (nr m :: r) with ([nr m] ++ r). rewrite count_idx_app, count_idx_single. cbn. lia.
  Qed.

  Lemma move_label_view_and_counts bk lbl' d :
    move_in_labels true (mkS bk (tgs s) (lbl s) (cnt s) (body s)) f t (set_pos m t) = (lbl', d) ->
    (forall l, l <> 0%N -> is_nview (fun e => body s (e_pos e) = l) (g_move f t G) (nget lbl' l))
    /\ nget lbl' 0%N = []
    /\ (forall i l, l <> 0%N -> count_idx i (nget lbl' l) = count_idx i (nget (lbl s) l) + dcount i l (fst d) - dcount i l (snd d)).
  Proof.
    unfold move_in_labels. cbn [lbl body e_kind set_pos]. set (ol := body s f). set (nl := body s t).
    pose proof mv_ft as Hft.
    destruct (ol =? nl)%N eqn:Eon.
    - (* same body: the position in that body's list follows the move *)
      apply N.eqb_eq in Eon. cbn [andb].
      intro E. inversion E; subst lbl' d. clear E.
      assert (Huni : forall l, nget (if negb (ol =? 0)%N && existsb (has_pos f) (nget (lbl s) ol)
                                      then aput ol (map (repos f t) (nget (lbl s) ol)) (lbl s) else lbl s) l
                               = map (repos f t) (nget (lbl s) l)).
      { intro l. destruct (negb (ol =? 0)%N && existsb (has_pos f) (nget (lbl s) ol)) eqn:Ec.
        - rewrite nget_aput. destruct (ol =? l)%N eqn:El; [apply N.eqb_eq in El; now subst|].
          symmetry. apply map_repos_id. destruct (N.eq_dec l 0) as [->|Hl0]; [rewrite (vi_label0 _ _ _ V); tauto|].
          apply label_no_f; [exact Hl0|]. apply N.eqb_neq in El. fold ol. congruence.
        - symmetry. apply map_repos_id. destruct (N.eq_dec l 0) as [->|Hl0]; [rewrite (vi_label0 _ _ _ V); tauto|].
          destruct (N.eq_dec l ol) as [->|Hne]; [|apply label_no_f; auto].
          apply andb_false_iff in Ec as [Ec|Ec].
          + apply negb_false_iff, N.eqb_eq in Ec. congruence.
          + intro Hi. apply existsb_has_pos in Hi. congruence. }
      split; [|split].
      + intros l Hl. rewrite Huni.
        apply (nview_move (fun e => body s (e_pos e) = l) (fun e => body s (e_pos e) = l) f t G (nget (lbl s) l) UG Ht (vi_label _ _ _ V l Hl)).
        intros e He. rewrite phi_pos, repos_pos. destruct (pos_eqb f (e_pos e)) eqn:Ee; [|reflexivity].
        apply pos_eqb_eq in Ee. rewrite <- Ee. fold ol nl. rewrite Eon. reflexivity.
      + rewrite Huni, (vi_label0 _ _ _ V). reflexivity.
      + intros i l Hl. rewrite Huni. unfold d0. cbn [fst snd]. rewrite !dcount_nil.
        rewrite (count_idx_map_kind i (repos f t)) by apply repos_kind. lia.
    - (* different bodies *)
      apply N.eqb_neq in Eon.
      assert (Hol : ol <> 0%N -> existsb (has_pos f) (nget (lbl s) ol) = true).
      { intro H. apply existsb_has_pos. pose proof (nr_m_in_label H) as Hin. apply in_posl in Hin. cbn in Hin. rewrite Hmp in Hin. exact Hin. }
      assert (Hfresh : forall l, ~ In (e_pos (nr (set_pos m t))) (posl (nget (lbl s) l))).
      { intros l Hi. cbn in Hi. destruct (N.eq_dec l 0) as [->|Hl0]; [rewrite (vi_label0 _ _ _ V) in Hi; exact Hi|].
        destruct (nview_pos _ _ _ _ (vi_label _ _ _ V l Hl0) Hi) as [e [He [Ep _]]]. apply Ht. rewrite <- Ep. now apply in_posl. }
      destruct (g_move_spec f t G UG Ht) as [_ HG].
      (* what the two updates do to each list *)
      set (lb1 := if (ol =? 0)%N then lbl s else aput ol (nr_delete f (nget (lbl s) ol)) (lbl s)).
      set (d1 := if (ol =? 0)%N then d0 else d_del d0 (ol, e_kind m)).
      assert (E1 : (if (ol =? 0)%N then (lbl s, d0)
                    else if existsb (has_pos f) (nget (lbl s) ol)
                         then (aput ol (nr_delete f (nget (lbl s) ol)) (lbl s), d_del d0 (ol, e_kind m)) else (lbl s, d0)) = (lb1, d1)).
      { unfold lb1, d1. destruct (ol =? 0)%N eqn:E0; [reflexivity|]. apply N.eqb_neq in E0. now rewrite (Hol E0). }
      rewrite E1. clear E1.
      intro E. assert (Elbl : lbl' = if (nl =? 0)%N then lb1 else aput nl (el_add (nget (lbl s) nl) [nr (set_pos m t)]) lb1)
        by (destruct (nl =? 0)%N; inversion E; reflexivity).
      assert (Ed : d = if (nl =? 0)%N then d1 else d_add d1 (nl, e_kind m))
        by (destruct (nl =? 0)%N; inversion E; reflexivity).
      clear E.
      assert (Hget : forall l, nget lbl' l =
                 if (nl =? l)%N && negb (nl =? 0)%N then nget (lbl s) l ++ [nr (set_pos m t)]
                 else if (ol =? l)%N && negb (ol =? 0)%N then nr_delete f (nget (lbl s) l) else nget (lbl s) l).
      { intro l. rewrite Elbl. unfold lb1. destruct (nl =? 0)%N eqn:En0; cbn [negb]; rewrite ?andb_false_r, ?andb_true_r.
        - destruct (ol =? 0)%N eqn:Eo0; cbn [negb]; rewrite ?andb_false_r, ?andb_true_r; [reflexivity|].
          rewrite nget_aput. destruct (ol =? l)%N eqn:El; [apply N.eqb_eq in El; now subst|reflexivity].
        - rewrite nget_aput. destruct (nl =? l)%N eqn:El.
          + apply N.eqb_eq in El. subst l. now rewrite el_add_fresh by apply Hfresh.
          + destruct (ol =? 0)%N eqn:Eo0; cbn [negb]; rewrite ?andb_false_r, ?andb_true_r; [reflexivity|].
            rewrite nget_aput. destruct (ol =? l)%N eqn:El2; [apply N.eqb_eq in El2; now subst|reflexivity]. }
      split; [|split].
      + intros l Hl. rewrite Hget. destruct (vi_label _ _ _ V l Hl) as [Ul HlV].
        destruct ((nl =? l)%N && negb (nl =? 0)%N) eqn:Ea.
        * (* the list of the target body gains the element *)
          apply andb_true_iff in Ea as [Ea _]. apply N.eqb_eq in Ea. subst l. split.
          -- apply uniq_app; [exact Ul | unfold uniq; cbn; constructor; [tauto | constructor]|].
             intros p Hp [Hq|[]]. subst p. exact (Hfresh nl Hp).
          -- intro x. rewrite in_app_iff. cbn [In]. rewrite HlV. split.
             ++ intros [[e [He [-> Hb]]]|[<-|[]]].
                ** assert (Hem : e <> m) by (intro Eem; subst e; rewrite Hmp in Hb; fold ol in Hb; congruence).
                   exists (phi f t e). split; [apply HG; eauto|]. rewrite nr_phi, phi_pos, (repos_not_m e He Hem).
                   split; [|exact Hb]. symmetry. apply repos_other. cbn. intro E. apply Hem. now apply at_f_is_m.
                ** exists (phi f t m). split; [apply HG; eauto|]. rewrite phi_m. cbn. auto.
             ++ intros [e' [He' [-> Hb]]]. apply HG in He' as [e [He ->]]. destruct (pos_dec (e_pos e) f) as [E|E].
                ** assert (e = m) by now apply at_f_is_m. subst e. right. left. now rewrite phi_m.
                ** left. exists e. rewrite phi_pos, (repos_other f t e E) in Hb. split; [exact He|]. split; [|exact Hb].
                   rewrite nr_phi. apply repos_other. exact E.
        * destruct ((ol =? l)%N && negb (ol =? 0)%N) eqn:Eb.
          -- (* the list of the source body loses it *)
             apply andb_true_iff in Eb as [Eb _]. apply N.eqb_eq in Eb. subst l.
             unfold nr_delete. pose proof (remove_first_uniq f _ Ul) as Hrf.
             destruct (remove_first f (nget (lbl s) ol)) as [[d'|] r] eqn:Er.
             2:{ destruct Hrf as [_ Hn]. exfalso. apply Hn. apply existsb_has_pos. now apply Hol. }
             destruct Hrf as [_ [_ [Hr Ur]]]. cbn [snd]. split; [exact Ur|]. intro x. rewrite Hr, HlV. split.
             ++ intros [[e [He [-> Hb]]] Hp]. cbn in Hp. exists (phi f t e). split; [apply HG; eauto|].
                rewrite nr_phi, phi_pos, (repos_other f t e Hp). split; [|exact Hb]. symmetry. now apply repos_other.
             ++ intros [e' [He' [-> Hb]]]. apply HG in He' as [e [He ->]]. destruct (pos_dec (e_pos e) f) as [E|E].
                ** assert (e = m) by now apply at_f_is_m. subst e. rewrite phi_m in Hb. cbn in Hb. fold nl in Hb. congruence.
                ** rewrite phi_pos, (repos_other f t e E) in Hb. rewrite nr_phi, (repos_other f t (nr e)) by exact E. split; [eauto | exact E].
          -- (* untouched lists *)
             assert (Hlo : l <> ol).
             { intro; subst l. rewrite N.eqb_refl in Eb. cbn in Eb. apply negb_false_iff, N.eqb_eq in Eb. congruence. }
             assert (Hln : l <> nl).
             { intro; subst l. rewrite N.eqb_refl in Ea. cbn in Ea. apply negb_false_iff, N.eqb_eq in Ea. congruence. }
             split; [exact Ul|]. intro x. rewrite HlV. split.
             ++ intros [e [He [-> Hb]]].
                assert (Hem : e_pos e <> f) by (intro E; rewrite E in Hb; fold ol in Hb; congruence).
                exists (phi f t e). split; [apply HG; eauto|]. rewrite nr_phi, phi_pos, (repos_other f t e Hem).
                split; [|exact Hb]. symmetry. now apply repos_other.
             ++ intros [e' [He' [-> Hb]]]. apply HG in He' as [e [He ->]]. destruct (pos_dec (e_pos e) f) as [E|E].
                ** assert (e = m) by now apply at_f_is_m. subst e. rewrite phi_m in Hb. cbn in Hb. fold nl in Hb. congruence.
                ** rewrite phi_pos, (repos_other f t e E) in Hb. rewrite nr_phi, (repos_other f t (nr e)) by exact E. eauto.
      + rewrite Hget. rewrite (N.eqb_sym nl 0), (N.eqb_sym ol 0).
        destruct (0 =? nl)%N, (0 =? ol)%N; cbn [negb andb]; apply (vi_label0 _ _ _ V).
      + intros i l Hl. rewrite Hget, Ed. unfold d1.
        assert (Hnd : body s f <> 0%N -> count_idx i (nr_delete f (nget (lbl s) ol))
                      = count_idx i (nget (lbl s) ol) - (if idx_match i (e_kind m) then 1 else 0))
          by (intro H0; apply (count_idx_nr_delete i H0)).
        fold ol in Hnd.
        destruct (nl =? 0)%N eqn:En0; [apply N.eqb_eq in En0 | apply N.eqb_neq in En0];
          (destruct (ol =? 0)%N eqn:Eo0; [apply N.eqb_eq in Eo0 | apply N.eqb_neq in Eo0]);
          cbn [negb]; rewrite ?andb_false_r, ?andb_true_r;
          rewrite ?dcount_d_add, ?d_add_snd, ?dcount_d_del, ?d_del_fst; unfold d0; cbn [fst snd]; rewrite ?dcount_nil;
          (destruct (nl =? l)%N eqn:E1; [apply N.eqb_eq in E1 | apply N.eqb_neq in E1]);
          (destruct (ol =? l)%N eqn:E2; [apply N.eqb_eq in E2 | apply N.eqb_neq in E2]);
          cbn [andb]; try congruence; try (subst l);
          rewrite ?count_idx_app, ?count_idx_single; cbn [e_kind set_pos nr];
          try (rewrite (Hnd Eo0));
          unfold nget in *; destruct (idx_match i (e_kind m)); lia.
  Qed.
End Move.

Lemma el_move_none f t del l : ~ In f (posl l) -> fst (el_move f t del l) = None.
Proof.
  intro H. unfold el_move. destruct del.
  - apply remove_first_none in H. destruct (remove_first f l) as [d r]. cbn in *. now rewrite H.
  - apply last_at_none in H. now rewrite H.
Qed.

(* the move proper (after the checks of C13-8-fix), under what those checks establish *)
Lemma move_core_views bs G s f t m :
  ViewsI bs G s -> ~ In t (posl G) -> refs_listed bs G f -> In m G -> e_pos m = f -> refs f m = false ->
  exists s', move_element_core fixed bs f t s = Ok s' /\ body s' = body s /\ ViewsI bs (g_move f t G) s'.
Proof.
  intros V Ht Hlisted Hm Hmp Hsm. pose proof (vi_uniq _ _ _ V) as UG.
  destruct (el_move_result bs G s f t m V Ht Hm Hmp) as [fl [Hel [Ufl Hfl]]].
  unfold move_element_core. rewrite Hel. cbn [fx_movelbl fixed].
  change (if negb (pos_eqb (blockOf bs f) (blockOf bs t))
          then aput (blockOf bs t) (el_add (bget (blk s) (blockOf bs t)) [set_pos m t]) (aput (blockOf bs f) fl (blk s))
          else aput (blockOf bs f) fl (blk s)) with (bk2_of bs s f t m fl).
  destruct (move_in_labels true (mkS (bk2_of bs s f t m fl) (tgs s) (lbl s) (cnt s) (body s)) f t (set_pos m t)) as [lbl' d] eqn:El.
  destruct (move_label_view_and_counts bs G s f t m V Ht Hlisted Hm Hmp Hsm _ _ _ El) as [Hlv [Hl0 Hcnt]].
  eexists. split; [reflexivity|]. split; [reflexivity|].
  destruct (g_move_spec f t G UG Ht) as [UG' HG'].
  constructor; cbn [blk tgs lbl cnt body e_rels e_tags set_pos].
  - exact UG'.
  - intros e He. apply HG' in He as [y [Hy ->]]. rewrite phi_tags. now apply (vi_tags _ _ _ V).
  - intro b'. now apply (move_block_view bs G s f t m V Ht Hlisted Hm Hmp Hsm fl b').
  - intro t'. now apply (move_tag_view bs G s f t m V Ht Hm Hmp t').
  - exact Hlv.
  - exact Hl0.
  - apply count_step with (lb := lbl s); [apply (vi_count _ _ _ V) | exact Hcnt].
Qed.

(* the checks read the two blocks; on a state whose blocks are views of G they decide like the
   same checks on G itself *)
Lemma move_check_views bs G s f t : ViewsI bs G s ->
  move_check f t (bget (blk s) (blockOf bs f)) (bget (blk s) (blockOf bs t)) = move_check f t G G.
Proof.
  intro V. pose proof (vi_uniq _ _ _ V) as UG. unfold move_check.
  destruct (vi_block _ _ _ V (blockOf bs f)) as [Uf Hf]. destruct (vi_block _ _ _ V (blockOf bs t)) as [Ut Htb].
  destruct (find (has_pos f) G) as [m|] eqn:EG.
  - apply find_some in EG as [Hm Hmp]. apply has_pos_true in Hmp.
    rewrite (find_has_pos_uniq f _ m Uf); [|apply Hf; split; [exact Hm | now rewrite Hmp] | exact Hmp].
    destruct (pos_eqb f t); [reflexivity|]. destruct (refs f m || refs t m); [reflexivity|].
    replace (existsb (has_pos t) (bget (blk s) (blockOf bs t))) with (existsb (has_pos t) G); [reflexivity|].
    destruct (existsb (has_pos t) G) eqn:E1; symmetry.
    + apply existsb_has_pos in E1. apply posl_in in E1 as [y [Hy Ey]].
      assert (Hyl : In y (bget (blk s) (blockOf bs t))) by (apply Htb; split; [exact Hy | now rewrite Ey]).
      apply existsb_has_pos. apply in_posl in Hyl. now rewrite Ey in Hyl.
    + apply not_true_is_false. intro E2. apply existsb_has_pos in E2. apply posl_in in E2 as [y [Hy Ey]]. apply Htb in Hy as [Hy _].
      assert (existsb (has_pos t) G = true) by (apply existsb_has_pos; rewrite <- Ey; now apply in_posl). congruence.
  - apply find_has_pos_none in EG.
    assert (En : find (has_pos f) (bget (blk s) (blockOf bs f)) = None).
    { apply find_has_pos_none. intro Hi. apply EG. apply posl_in in Hi as [y [Hy Ey]]. apply Hf in Hy as [Hy _]. rewrite <- Ey. now apply in_posl. }
    now rewrite En.
Qed.

Theorem move_views bs G s f t :
  ViewsI bs G s -> refs_listed bs G f ->
  ViewsI bs (gstep bs (OMove f t) G) (step_or_stay fixed bs (OMove f t) s)
  /\ body (step_or_stay fixed bs (OMove f t) s) = body s
  /\ step fixed bs (OMove f t) s <> Panic.
Proof.
  intros V Hlisted. unfold step_or_stay. cbn [step gstep]. unfold move_element. cbn [fx_valid fixed].
  rewrite (move_check_views bs G s f t V). unfold move_check.
  destruct (find (has_pos f) G) as [m|] eqn:EG.
  2:{ split; [exact V | split; [reflexivity | discriminate]]. }
  apply find_some in EG as [Hm Hmp]. apply has_pos_true in Hmp.
  destruct (pos_eqb f t); [split; [exact V | split; [reflexivity | discriminate]]|].
  destruct (refs f m || refs t m) eqn:Er; [split; [exact V | split; [reflexivity | discriminate]]|].
  apply orb_false_iff in Er as [Er _].
  destruct (existsb (has_pos t) G) eqn:Et; [split; [exact V | split; [reflexivity | discriminate]]|].
  assert (Ht : ~ In t (posl G)) by (intro Hi; apply existsb_has_pos in Hi; congruence).
  destruct (move_core_views bs G s f t m V Ht Hlisted Hm Hmp Er) as [s' [E [Eb V']]]. rewrite E.
  split; [exact V' | split; [exact Eb | discriminate]].
Qed.
