(* Proofs.BlockOps: operations on compressed label blocks equal the voxel-wise reference, for
   every well-formed block — fresh from the encoder or the output of earlier operations
   (duplicate and zeroed table slots allowed): the invariant is [block_wf], built on [Sem]. *)
From DV Require Import Base.Prelude Base.Int Base.BitPack Model.Block Model.BlockViews Model.BlockOps
     Proofs.BitPack Proofs.Block Proofs.BlockMarshal Proofs.BlockViews Gen.Consts.
From Coq Require Import ZifyN ZifyNat ZifyBool.
Ltac Zify.zify_post_hook ::= Z.div_mod_to_equations.
Local Open Scope N_scope.

(* TableWF: the block denotes the sub-block list [voxs] *)
Definition block_wf (b : block) (voxs : list (list N)) : Prop :=
  length voxs = N.to_nat (b_gx b * b_gy b * b_gz b) /\
  ((exists l, b_labels b = [l] /\ b_nsb b = [] /\ b_idx b = [] /\ b_vals b = [] /\
              voxs = repeat (repeat l 512%nat) (N.to_nat (b_gx b * b_gy b * b_gz b)))
   \/ ((2 <= length (b_labels b))%nat /\ Sem (b_labels b) (b_nsb b) (b_idx b) (b_vals b) voxs)).

(* ---------------- decoding a well-formed block ---------------- *)

Lemma assemble_repeat l gx gy gz :
  assemble (repeat (repeat l 512%nat) (N.to_nat (gx * gy * gz))) gx gy gz
  = Ok (repeat l (N.to_nat (8 * gx * (8 * gy) * (8 * gz)))).
Proof.
  unfold assemble. apply mapR_nseq_build; [rewrite repeat_length; lia|].
  intros i v Hi. cbv zeta.
  assert (Hlt : (i < N.to_nat (8 * gx * (8 * gy) * (8 * gz)))%nat).
  { rewrite <- (repeat_length l (N.to_nat (8 * gx * (8 * gy) * (8 * gz)))). apply nth_error_Some. congruence. }
  rewrite nth_error_repeat' in Hi by exact Hlt. inversion Hi; subst v.
  set (p := N.of_nat i).
  assert (Hp : p < 8 * gx * (8 * gy) * (8 * gz)) by (unfold p; lia).
  destruct (pos_coords _ _ _ _ Hp) as [Hx [Hy [Hz _]]].
  pose proof (sb_of_lt gx gy gz _ _ _ Hx Hy Hz) as SL.
  destruct (loc_of_spec (p mod (8 * gx)) ((p / (8 * gx)) mod (8 * gy)) (p / (8 * gx * (8 * gy)))) as [_ [_ [_ L4]]].
  unfold nth_N. rewrite nth_error_repeat' by lia. rewrite nth_error_repeat' by lia. reflexivity.
Qed.

Theorem decode_wf b voxs : block_wf b voxs -> decode b = assemble voxs (b_gx b) (b_gy b) (b_gz b).
Proof.
  intros [L [[l [El [_ [_ [_ Ev]]]]] | [HL S]]].
  - unfold decode. rewrite El, Ev. symmetry. apply assemble_repeat.
  - unfold decode. destruct (b_labels b) as [|l1 [|l2 ls]] eqn:EL; [simpl in HL; lia|simpl in HL; lia|].
    unfold block_sbs. pose proof (Sem_length _ _ _ _ _ S) as SL.
    replace (N.of_nat (length (b_nsb b)) <? b_gx b * b_gy b * b_gz b) with false by (symmetry; apply N.ltb_ge; lia).
    rewrite firstn_all2 by lia. rewrite <- EL in S.
    pose proof (dec_sbs_sem b _ _ _ _ S [] [] (repeat 0 512%nat) eq_refl eq_refl (repeat_length _ _)) as D.
    change (N.of_nat (length (@nil N))) with 0 in D. change (8 * 0) with 0 in D.
    unfold dstate0. rewrite D. reflexivity.
Qed.

(* re-labelling every voxel commutes with the assembly into ZYX order *)
Lemma mapR_map_out {A B C} (f : A -> res B) (g : B -> C) l r :
  mapR f l = Ok r -> mapR (fun a => match f a with Ok b => Ok (g b) | Err => Err | Panic => Panic end) l = Ok (map g r).
Proof.
  revert r. induction l as [|a l IH]; intros r H; simpl in *.
  - apply Ok_inj in H. now subst.
  - destruct (f a) as [b| |]; try discriminate. destruct (mapR f l) as [bs| |]; try discriminate.
    apply Ok_inj in H. subst r. rewrite (IH bs eq_refl). reflexivity.
Qed.

Lemma assemble_map voxs gx gy gz a (f : N -> N) :
  assemble voxs gx gy gz = Ok a -> assemble (map (map f) voxs) gx gy gz = Ok (map f a).
Proof.
  intro A. unfold assemble in *. rewrite <- (mapR_map_out _ f _ _ A).
  apply mapR_ext_in. intros p _. cbv zeta.
  unfold nth_N. rewrite nth_error_map.
  destruct (nth_error voxs _) as [vox|]; [|reflexivity]. simpl.
  rewrite nth_error_map. destruct (nth_error vox _); reflexivity.
Qed.

Lemma map_repeat {A B} (g : A -> B) a n : map g (repeat a n) = repeat (g a) n.
Proof. induction n; simpl; congruence. Qed.

Lemma all_eq_repeat_gen {A} (a : list A) l n :
  length a = n -> (forall v, In v a -> v = l) -> a = repeat l n.
Proof.
  intros L H. apply list_eq_nth; [now rewrite repeat_length|].
  intros i v Hi. rewrite (H v (nth_error_In _ _ Hi)). apply nth_error_repeat'.
  rewrite <- L. apply nth_error_Some. congruence.
Qed.

(* the encoder's output is well-formed *)
Lemma encode_at_wf tbl vol wx wy wz ox oy oz gx gy gz sbs b :
  gather vol wx wy ox oy oz gx gy gz = Ok sbs -> covers tbl sbs ->
  encode_at tbl vol wx wy wz ox oy oz gx gy gz = Ok b -> block_wf b sbs.
Proof.
  intros G C E.
  destruct (encode_at_sem _ _ _ _ _ _ _ _ _ _ _ _ _ G E) as [Ex [Ey [Ez [El Cases]]]].
  destruct (gather_lengths _ _ _ _ _ _ _ _ _ _ G) as [GL HF].
  split; [rewrite Ex, Ey, Ez; exact GL|].
  destruct Cases as [[l [Et Eb]] | [Hne S]].
  - left. exists l. subst b tbl. unfold solid_block. cbn [b_labels b_nsb b_idx b_vals b_gx b_gy b_gz].
    split; [reflexivity|]. split; [reflexivity|]. split; [reflexivity|]. split; [reflexivity|].
    apply all_eq_repeat_gen; [exact GL|]. intros vox Hv.
    rewrite Forall_forall in HF. apply all_eq_repeat; [now apply HF|].
    intros v Hvv. assert (In v (concat sbs)) by (apply in_concat; eauto).
    specialize (C v H). destruct C as [C|[]]. now symmetry.
  - right. rewrite El. split; [|exact S].
    destruct tbl as [|l1 [|l2 t]]; simpl; try lia.
    + exfalso. assert (0 < gx * gy * gz).
      { unfold encode_at, encode_gen in E. destruct (size_checks wx wy wz ox oy oz gx gy gz) eqn:SC; [|discriminate].
        unfold size_checks in SC. rewrite !andb_true_iff, !negb_true_iff, !orb_false_iff in SC.
        destruct SC as [[[_ [[A B] D]] _] _]. apply N.ltb_ge in A, B, D. nia. }
      destruct (sbs_nonempty gx gy gz sbs GL HF H) as [l Hl]. exact (C l Hl).
    + exfalso. exact (Hne l1 eq_refl).
Qed.

(* ---------------- table edits preserve the meaning, voxel for voxel ---------------- *)

(* a new table and a renumbering of the slots that send the label of every slot to its image *)
Lemma Sem_relabel labels labels' (ixmap : N -> N) (f : N -> N) ns idx vals voxs :
  Sem labels ns idx vals voxs ->
  (forall ix v, nth_N labels ix = Some v -> nth_N labels' (ixmap ix) = Some (f v)) ->
  Sem labels' ns (map ixmap idx) vals (map (map f) voxs).
Proof.
  intros S H. induction S as [|ixs vs vox ns idx vals voxs Hsb _ IH]; [constructor|].
  cbn [map]. rewrite map_app.
  replace (length ixs) with (length (map ixmap ixs)) by apply map_length.
  constructor; [|exact IH].
  destruct Hsb as [Hn [Hix [Hvox [Hvs Hf]]]].
  unfold sb_sem. rewrite !map_length. repeat split; try assumption; try lia.
  - apply Forall_forall. intros ix' Hin. apply in_map_iff in Hin as [ix [E Hin]]. subst ix'.
    rewrite Forall_forall in Hix. specialize (Hix ix Hin).
    destruct (nth_N_lt_Some labels ix ltac:(lia)) as [v Hv].
    apply H in Hv. apply nth_N_Some_lt in Hv. lia.
  - intros j v' Hj. rewrite nth_error_map in Hj.
    destruct (nth_error vox j) as [v|] eqn:Ej; [|discriminate]. simpl in Hj. inversion Hj; subst v'.
    destruct (Hf j v Ej) as [f0 [ix [F1 [F2 F3]]]].
    exists f0, (ixmap ix). split; [exact F1|]. split.
    + rewrite nth_N_map, F2. reflexivity.
    + now apply H.
Qed.

(* every voxel of a well-formed multi-label block carries the label of some table slot *)
Lemma Sem_voxel_slot labels ns idx vals voxs vox v :
  Sem labels ns idx vals voxs -> In vox voxs -> In v vox -> exists ix, nth_N labels ix = Some v.
Proof.
  intros S Hvox Hv. induction S as [|ixs vs vox0 ns idx vals voxs Hsb _ IH]; [contradiction|].
  destruct Hvox as [E|Hvox]; [subst vox0|now apply IH].
  apply In_nth_error in Hv as [j Hj]. destruct Hsb as [_ [_ [_ [_ Hf]]]].
  destruct (Hf j v Hj) as [_ [ix [_ [_ F3]]]]. eauto.
Qed.

Lemma map_map_id (voxs : list (list N)) (f : N -> N) :
  (forall vox v, In vox voxs -> In v vox -> f v = v) -> map (map f) voxs = voxs.
Proof.
  intro H. rewrite <- (map_id voxs) at 2. apply map_ext_in. intros vox Hvox.
  rewrite <- (map_id vox) at 2. apply map_ext_in. intros v Hv. now apply (H vox).
Qed.

Lemma last_index_of_spec x l : forall i cur,
  match last_index_of x l i cur with
  | Some j => cur = Some j \/ (i <= j /\ nth_N l (j - i) = Some x)
  | None => cur = None /\ ~ In x l
  end.
Proof.
  induction l as [|y l IH]; intros i cur; simpl.
  - destruct cur; [now left | split; [reflexivity | intros []]].
  - specialize (IH (i + 1) (if x =? y then Some i else cur)).
    destruct (last_index_of x l (i + 1) (if x =? y then Some i else cur)) as [j|].
    + destruct IH as [IH|[Hle Hn]].
      * destruct (x =? y) eqn:E; [|now left]. apply N.eqb_eq in E. inversion IH; subst. right.
        split; [lia|]. replace (j - j) with 0 by lia. reflexivity.
      * right. split; [lia|]. unfold nth_N in *. replace (N.to_nat (j - i)) with (S (N.to_nat (j - (i + 1)))) by lia.
        exact Hn.
    + destruct IH as [IH Hn]. destruct (x =? y) eqn:E; [discriminate|]. apply N.eqb_neq in E.
      split; [exact IH|]. intros [H|H]; [congruence | contradiction].
Qed.

Lemma last_index_of_0 x l :
  match last_index_of x l 0 None with
  | Some j => nth_N l j = Some x
  | None => ~ In x l
  end.
Proof.
  pose proof (last_index_of_spec x l 0 None) as H.
  destruct (last_index_of x l 0 None) as [j|].
  - destruct H as [H|[_ H]]; [discriminate|]. now rewrite N.sub_0_r in H.
  - exact (proj2 H).
Qed.

(* labels2 of merge_labels: slot [choice] overwritten *)
Lemma nth_N_overwrite (labels1 : list N) choice target i :
  nth_N (map (fun p : N * N => if fst p =? choice then target else snd p)
             (combine (nseq (N.of_nat (length labels1))) labels1)) i
  = option_map (fun l => if i =? choice then target else l) (nth_N labels1 i).
Proof.
  rewrite nseq_eq, Nat2N.id. unfold nth_N. rewrite nth_error_map.
  destruct (nth_error labels1 (N.to_nat i)) as [l|] eqn:E.
  - rewrite (combine_seq_nth labels1 0%nat (N.to_nat i) l E). simpl. rewrite N2Nat.id. reflexivity.
  - apply nth_error_None in E.
    assert (nth_error (combine (map N.of_nat (seq 0 (length labels1))) labels1) (N.to_nat i) = None) as ->.
    { apply nth_error_None. rewrite combine_length, map_length, seq_length. lia. }
    reflexivity.
Qed.

Definition merge_ref (target : N) (merged : list N) (l : N) : N := if mem l merged then target else l.

(* MergeLabels: any well-formed block, target not among the merged labels, any choice the code
   may make when the target is absent *)
Theorem merge_labels_wf b voxs target merged choice :
  block_wf b voxs -> mem target merged = false ->
  (~ In target (b_labels b) -> merged_indices (b_labels b) merged <> [] ->
   mem choice (merged_indices (b_labels b) merged) = true) ->
  exists b', merge_labels b target merged choice = Ok b' /\
             block_wf b' (map (map (merge_ref target merged)) voxs).
Proof.
  intros [L W] Ht Hc. unfold merge_labels.
  remember (merged_indices (b_labels b) merged) as mi eqn:Emi0.
  set (f := merge_ref target merged).
  (* slots whose label is merged are exactly the merged indices *)
  assert (Hmi : forall ix v, nth_N (b_labels b) ix = Some v -> mem ix mi = mem v merged)
    by (intros; subst mi; now apply label_indices_spec).
  destruct mi as [|m0 mi'].
  - (* nothing to merge: the block is returned as it is, and no voxel changes *)
    exists b. split; [reflexivity|]. split; [rewrite map_length; exact L|].
    assert (Hid : forall v ix, nth_N (b_labels b) ix = Some v -> f v = v).
    { intros v ix Hv. unfold f, merge_ref. rewrite <- (Hmi ix v Hv). reflexivity. }
    destruct W as [[l [El [A [B [C D]]]]] | [HL S]].
    + left. exists l. repeat split; try assumption.
      rewrite D, map_repeat, map_repeat. f_equal. f_equal. apply (Hid l 0). now rewrite El.
    + right. split; [exact HL|]. rewrite map_map_id; [exact S|].
      intros vox v Hvox Hv. destruct (Sem_voxel_slot _ _ _ _ _ vox v S Hvox Hv) as [ix Hix].
      now apply (Hid v ix).
  - set (mi := m0 :: mi') in *.
    set (labels1 := map (fun l => if mem l merged then 0 else l) (b_labels b)).
    assert (H1 : forall ix v, nth_N (b_labels b) ix = Some v ->
                              nth_N labels1 ix = Some (if mem v merged then 0 else v)).
    { intros ix v Hv. unfold labels1. now rewrite nth_N_map, Hv. }
    pose proof (last_index_of_0 target (b_labels b)) as LI.
    destruct (last_index_of target (b_labels b) 0 None) as [ti|].
    + (* the target has a slot *)
      eexists. split; [reflexivity|]. split; [rewrite map_length; exact L|]. cbn [b_labels b_nsb b_idx b_vals b_gx b_gy b_gz].
      assert (Key : forall ix v, nth_N (b_labels b) ix = Some v ->
                nth_N labels1 (if mem ix mi then ti else ix) = Some (f v)).
      { intros ix v Hv. rewrite (Hmi ix v Hv). unfold f, merge_ref.
        destruct (mem v merged) eqn:Mv.
        - rewrite (H1 ti target LI), Ht. reflexivity.
        - rewrite (H1 ix v Hv), Mv. reflexivity. }
      destruct W as [[l [El [A [B [C D]]]]] | [HL S]].
      * left. exists (f l). unfold labels1. rewrite El, A, B, C. cbn [map].
        assert (Ef : (if mem l merged then 0 else l) = f l).
        { (* the single slot holds the target (which is not merged), so it is not merged *)
          rewrite El in LI. unfold nth_N in LI. destruct (N.to_nat ti); simpl in LI; [|destruct n; discriminate].
          inversion LI; subst l. unfold f, merge_ref. now rewrite Ht. }
        rewrite Ef. repeat split. rewrite D, map_repeat, map_repeat. reflexivity.
      * right. split; [unfold labels1; rewrite map_length; exact HL|].
        now apply (Sem_relabel (b_labels b) labels1 (fun ix => if mem ix mi then ti else ix) f).
    + (* the target is absent: a merged slot takes it *)
      assert (Hch : mem choice mi = true).
      { apply Hc; [exact LI|]. unfold mi. discriminate. }
      rewrite Hch. cbn [negb].
      eexists. split; [reflexivity|]. split; [rewrite map_length; exact L|]. cbn [b_labels b_nsb b_idx b_vals b_gx b_gy b_gz].
      set (labels2 := map (fun p : N * N => if fst p =? choice then target else snd p)
                          (combine (nseq (N.of_nat (length labels1))) labels1)).
      assert (Key : forall ix v, nth_N (b_labels b) ix = Some v ->
                nth_N labels2 (if mem ix mi then choice else ix) = Some (f v)).
      { intros ix v Hv. rewrite (Hmi ix v Hv). unfold f, merge_ref, labels2.
        rewrite nth_N_overwrite.
        destruct (mem v merged) eqn:Mv.
        - rewrite N.eqb_refl.
          (* the chosen slot exists *)
          apply mem_In in Hch. fold mi in Emi0. rewrite Emi0 in Hch. unfold merged_indices, label_indices in Hch.
          apply in_map_iff in Hch as [[c lc] [Ec Hin]]. simpl in Ec. subst c.
          apply filter_In in Hin as [Hin _]. apply In_nth_error in Hin as [k Hk].
          rewrite nseq_eq, Nat2N.id in Hk. apply combine_nth_seq in Hk as [E1 E2]. simpl in E1.
          assert (nth_N (b_labels b) choice = Some lc) as Hlc by (unfold nth_N; rewrite E1, Nat2N.id; exact E2).
          rewrite (H1 choice lc Hlc). reflexivity.
        - rewrite (H1 ix v Hv), Mv. simpl.
          destruct (ix =? choice) eqn:E; [|reflexivity].
          apply N.eqb_eq in E. subst ix. rewrite (Hmi choice v Hv) in Hch. congruence. }
      destruct W as [[l [El [A [B [C D]]]]] | [HL S]].
      * left. exists (f l).
        assert (El2 : labels2 = [f l]).
        { assert (Hl : nth_N (b_labels b) 0 = Some l) by now rewrite El.
          pose proof (Key 0 l Hl) as K0.
          (* the only slot is merged (the merged indices are not empty), so the choice is slot 0 *)
          unfold labels2, labels1 in *. rewrite El in *. cbn [map length N.of_nat Pos.of_succ_nat] in *.
          change (nseq 1) with [0] in *. cbn [combine map fst snd] in *.
          destruct (mem 0 mi) eqn:M0.
          - unfold nth_N in K0. destruct (N.to_nat choice) eqn:Ec; simpl in K0.
            + inversion K0. reflexivity.
            + destruct n; discriminate.
          - unfold nth_N in K0. simpl in K0. inversion K0. reflexivity. }
        rewrite El2, A, B, C. repeat split. rewrite D, map_repeat, map_repeat. reflexivity.
      * right. split.
        -- unfold labels2. rewrite map_length, combine_length, nseq_length, Nat2N.id. unfold labels1.
           rewrite map_length. lia.
        -- now apply (Sem_relabel (b_labels b) labels2 (fun ix => if mem ix mi then choice else ix) f).
Qed.

(* ---------------- ReplaceLabels / ReplaceLabel: the returned block ---------------- *)

Lemma relabel_table_wf b voxs (g : N -> N) :
  block_wf b voxs ->
  block_wf (mkBlock (b_gx b) (b_gy b) (b_gz b) (map g (b_labels b)) (b_nsb b) (b_idx b) (b_vals b))
           (map (map g) voxs).
Proof.
  intros [L W]. split; [rewrite map_length; exact L|]. cbn [b_labels b_nsb b_idx b_vals b_gx b_gy b_gz].
  destruct W as [[l [El [A [B [C D]]]]] | [HL S]].
  - left. exists (g l). rewrite El, A, B, C, D, map_repeat, map_repeat. repeat split.
  - right. split; [rewrite map_length; exact HL|].
    rewrite <- (map_id (b_idx b)).
    apply (Sem_relabel (b_labels b) (map g (b_labels b)) (fun ix => ix) g); [exact S|].
    intros ix v Hv. now rewrite nth_N_map, Hv.
Qed.

Theorem replace_labels_wf b voxs m :
  block_wf b voxs ->
  block_wf (fst (replace_labels b m))
           (map (map (fun l => match assoc m l with Some v => v | None => l end)) voxs).
Proof. intro W. unfold replace_labels. cbn [fst]. now apply relabel_table_wf. Qed.

(* ---------------- getNumVoxels (repaired) on a well-formed block ---------------- *)

(* is voxel j of the sub-block stored under a slot pointing to table index li? *)
Definition slot_hit (li : N) (ixs : list N) (vs : bytes) (j : N) : bool :=
  match field vs (bits_for (N.of_nat (length ixs))) j with
  | Ok f => match nth_N ixs f with Some ix => ix =? li | None => false end
  | _ => false
  end.
Definition sb_hits (li : N) (ixs : list N) (vs : bytes) : N :=
  N.of_nat (length (filter (fun h : bool => h) (map (slot_hit li ixs vs) (nseq 512)))).

Lemma mapR_pure' {A B} (h : A -> B) (f : A -> res B) l :
  (forall a, In a l -> f a = Ok (h a)) -> mapR f l = Ok (map h l).
Proof. intro H. rewrite (mapR_ext_in f (fun a => Ok (h a)) l H). apply mapR_pure. Qed.

Lemma filter_const_len (c : bool) (l : list N) :
  length (filter (fun h : bool => h) (map (fun _ => c) l)) = if c then length l else 0%nat.
Proof. induction l as [|x l IH]; simpl; destruct c; simpl; try rewrite IH; auto. Qed.

Lemma nv_sb_sem b li ixs vs vox pre_i post_i pre_v post_v acc :
  sb_sem (b_labels b) ixs vs vox ->
  b_idx b = pre_i ++ ixs ++ post_i -> b_vals b = pre_v ++ vs ++ post_v ->
  nv_sb true b li (N.of_nat (length pre_i), 8 * N.of_nat (length pre_v), acc) (N.of_nat (length ixs))
  = Ok (N.of_nat (length (pre_i ++ ixs)), 8 * N.of_nat (length (pre_v ++ vs)), acc + sb_hits li ixs vs).
Proof.
  intros [Hn [Hix [Hvox [Hvs Hf]]]] Ei Ev.
  set (n := N.of_nat (length ixs)) in *. set (k := bits_for n) in *.
  unfold nv_sb. fold k.
  replace (n =? 0) with false by (symmetry; apply N.eqb_neq; lia).
  assert (Epos : N.of_nat (length pre_i) + n = N.of_nat (length (pre_i ++ ixs))) by (rewrite app_length; unfold n; lia).
  (* every voxel position has a field *)
  assert (Hfield : forall j, j < 512 -> exists f ix, field vs k j = Ok f /\ nth_N ixs f = Some ix).
  { intros j Hj. destruct (nth_N_lt_Some vox j ltac:(lia)) as [v Hv].
    destruct (Hf (N.to_nat j) v Hv) as [f [ix [F1 [F2 _]]]]. rewrite N2Nat.id in F1. eauto. }
  destruct (n =? 1) eqn:N1.
  - apply N.eqb_eq in N1.
    assert (K0 : k = 0) by (unfold k; rewrite N1; reflexivity).
    destruct ixs as [|ix0 [|ix1 ixs']]; [simpl in n; lia| |unfold n in N1; simpl length in N1; lia].
    assert (Hx : nth_N (b_idx b) (N.of_nat (length pre_i)) = Some ix0).
    { rewrite Ei. rewrite <- (N.add_0_r (N.of_nat (length pre_i))). rewrite nth_N_app_r. reflexivity. }
    rewrite Hx. rewrite K0 in Hvs.
    replace (8 * N.of_nat (length (pre_v ++ vs))) with (8 * N.of_nat (length pre_v)) by (rewrite app_length; lia).
    replace (N.of_nat (length pre_i) + 1) with (N.of_nat (length (pre_i ++ [ix0]))) by (rewrite app_length; simpl; lia).
    do 3 f_equal.
    unfold sb_hits.
    rewrite (map_ext_in (slot_hit li [ix0] vs) (fun _ => ix0 =? li)).
    2:{ intros j Hj. unfold slot_hit. cbn [length]. change (bits_for (N.of_nat 1)) with 0.
        unfold field. cbn [N.eqb]. reflexivity. }
    rewrite filter_const_len, nseq_length. destruct (ix0 =? li); [|change (N.of_nat 0) with 0; lia].
    rewrite N2Nat.id. reflexivity.
  - apply N.eqb_neq in N1.
    assert (Hk : 1 <= k <= 9) by (apply bits_for_range; lia).
    assert (M : mapR (fun j => opt_res (nth_N (b_idx b) (N.of_nat (length pre_i) + j))) (nseq n) = Ok ixs).
    { apply mapR_nseq_build; [reflexivity|]. intros i v Hi.
      rewrite Ei, nth_N_app_r, nth_N_of_nat. rewrite nth_error_app1 by (apply nth_error_Some; congruence).
      now rewrite Hi. }
    rewrite M.
    rewrite (mapR_pure' (slot_hit li ixs vs)).
    2:{ intros j Hj. apply In_nseq in Hj. destruct (Hfield j Hj) as [f [ix [F1 F2]]].
        unfold slot_hit. fold n. fold k. rewrite F1, F2.
        unfold field in F1. replace (k =? 0) with false in F1 by (symmetry; apply N.eqb_neq; lia).
        rewrite Ev, get_packed_shift, (get_packed_mono _ _ _ _ _ F1), F2. reflexivity. }
    rewrite Epos.
    replace (8 * N.of_nat (length (pre_v ++ vs))) with (8 * N.of_nat (length pre_v) + 512 * k) by (rewrite app_length; lia).
    unfold sb_hits. reflexivity.
Qed.

Fixpoint sem_hits (li : N) (ns : list N) (idx : list N) (vals : bytes) : N :=
  match ns with
  | [] => 0
  | n :: r =>
    let ixs := firstn (N.to_nat n) idx in
    let nb := N.to_nat (64 * bits_for n) in
    sb_hits li ixs (firstn nb vals) + sem_hits li r (skipn (N.to_nat n) idx) (skipn nb vals)
  end.

Lemma nv_sbs_sem b li ns idx vals voxs :
  Sem (b_labels b) ns idx vals voxs ->
  forall pre_i pre_v acc, b_idx b = pre_i ++ idx -> b_vals b = pre_v ++ vals ->
  exists ip bp, nv_sbs true b li (N.of_nat (length pre_i), 8 * N.of_nat (length pre_v), acc) ns
                = Ok (ip, bp, acc + sem_hits li ns idx vals).
Proof.
  induction 1 as [|ixs vs vox ns idx vals voxs Hsb _ IH]; intros pre_i pre_v acc Ei Ev.
  - simpl. rewrite N.add_0_r. eauto.
  - cbn [nv_sbs sem_hits].
    rewrite (nv_sb_sem b li ixs vs vox pre_i idx pre_v vals acc Hsb Ei Ev).
    destruct (IH (pre_i ++ ixs) (pre_v ++ vs) (acc + sb_hits li ixs vs)) as [ip [bp E]].
    { rewrite Ei. now rewrite app_assoc. } { rewrite Ev. now rewrite app_assoc. }
    rewrite E. exists ip, bp. f_equal. f_equal.
    destruct Hsb as [_ [_ [_ [Hvs _]]]].
    rewrite Nat2N.id.
    destruct (take_app ixs idx (length ixs) eq_refl) as [F1 S1].
    destruct (take_app vs vals (N.to_nat (64 * bits_for (N.of_nat (length ixs))))) as [F2 S2]; [lia|].
    rewrite F1, S1, F2, S2. lia.
Qed.

(* ---------------- counting: sum over the slots of a label = voxels with that label ---------------- *)

Definition cnt {A} (p : A -> bool) (l : list A) : N := N.of_nat (length (filter p l)).

Lemma cnt_or {A} (p q : A -> bool) l :
  (forall a, In a l -> p a = true -> q a = false) ->
  cnt (fun a => p a || q a) l = cnt p l + cnt q l.
Proof.
  intro H. unfold cnt. rewrite <- Nat2N.inj_add. f_equal.
  induction l as [|a l IH]; [reflexivity|].
  assert (IH' := IH (fun x Hx => H x (or_intror Hx))).
  cbn [filter]. destruct (p a) eqn:Pa.
  - rewrite (H a (or_introl eq_refl) Pa). cbn [orb length]. rewrite IH'. reflexivity.
  - cbn [orb]. destruct (q a); cbn [length]; rewrite IH'; lia.
Qed.

Lemma cnt_ext {A} (p q : A -> bool) l : (forall a, In a l -> p a = q a) -> cnt p l = cnt q l.
Proof.
  unfold cnt. intro H. f_equal. f_equal. induction l as [|a l IH]; [reflexivity|]. simpl.
  rewrite (H a (or_introl eq_refl)), IH; [reflexivity|]. intros; apply H; now right.
Qed.

Lemma cnt_map {A B} (p : B -> bool) (g : A -> B) l : cnt p (map g l) = cnt (fun a => p (g a)) l.
Proof. unfold cnt. f_equal. induction l as [|a l IH]; simpl; [reflexivity|]. destruct (p (g a)); simpl; now rewrite IH. Qed.

(* sum over a duplicate-free index list of the per-index counts = count of membership *)
Lemma sum_cnt_slots {A} (s : A -> N) (J : list A) (I : list N) :
  NoDup I -> sum_N (map (fun i => cnt (fun j => s j =? i) J) I) = cnt (fun j => mem (s j) I) J.
Proof.
  induction 1 as [|i I Hi _ IH].
  - simpl. unfold sum_N, cnt. simpl. induction J; simpl; auto.
  - cbn [map]. rewrite sum_N_cons, IH.
    rewrite <- cnt_or.
    + apply cnt_ext. intros j _. unfold mem. simpl. rewrite (N.eqb_sym (s j) i). reflexivity.
    + intros j _ E. apply N.eqb_eq in E. apply not_true_is_false. intro M. apply mem_In in M. now subst.
Qed.

Lemma map_fst_combine {A B} (l1 : list A) (l2 : list B) :
  length l1 = length l2 -> map fst (combine l1 l2) = l1.
Proof.
  revert l2. induction l1 as [|a l1 IH]; destruct l2; simpl; intro H; try discriminate; [reflexivity|].
  f_equal. apply IH. lia.
Qed.

Lemma NoDup_map_filter {A B} (g : A -> B) (p : A -> bool) l : NoDup (map g l) -> NoDup (map g (filter p l)).
Proof.
  induction l as [|a l IH]; simpl; intro H; [constructor|].
  inversion H; subst. destruct (p a); simpl; [|now apply IH].
  constructor; [|now apply IH]. intro Hin. apply H2. apply in_map_iff in Hin as [x [E Hx]].
  apply filter_In in Hx as [Hx _]. apply in_map_iff. eauto.
Qed.

Lemma NoDup_nseq n : NoDup (nseq n).
Proof.
  rewrite nseq_eq. generalize (seq_NoDup (N.to_nat n) 0). generalize (seq 0 (N.to_nat n)).
  induction l as [|a l IH]; intro H; simpl; [constructor|]. inversion H; subst.
  constructor; [|now apply IH]. intro Hin. apply in_map_iff in Hin as [x [E Hx]].
  assert (x = a) by lia. now subst.
Qed.

Lemma label_indices_NoDup labels lbls : NoDup (label_indices labels lbls).
Proof.
  unfold label_indices. apply NoDup_map_filter.
  rewrite map_fst_combine; [apply NoDup_nseq|]. rewrite nseq_length. lia.
Qed.

Lemma sum_N_map_add {A} (f g : A -> N) l :
  sum_N (map (fun a => f a + g a) l) = sum_N (map f l) + sum_N (map g l).
Proof. induction l as [|a l IH]; [reflexivity|]. cbn [map]. rewrite !sum_N_cons, IH. lia. Qed.

(* per sub-block: the slots of the target label together hold exactly the voxels labelled target *)
Lemma sb_hits_sum labels ixs vs vox target :
  sb_sem labels ixs vs vox ->
  sum_N (map (fun i => sb_hits i ixs vs) (label_indices labels [target])) = count_eq vox target.
Proof.
  intros [Hn [Hix [Hvox [Hvs Hf]]]].
  set (k := bits_for (N.of_nat (length ixs))) in *.
  (* the table index under which voxel j is stored *)
  set (slot := fun j : N => match field vs k j with
                            | Ok f => match nth_N ixs f with Some ix => ix | None => 0 end
                            | _ => 0 end).
  assert (Hslot : forall j v, nth_N vox j = Some v -> j < 512 ->
            (forall i, slot_hit i ixs vs j = (slot j =? i)) /\ nth_N labels (slot j) = Some v).
  { intros j v Hv Hj. destruct (Hf (N.to_nat j) v Hv) as [f [ix [F1 [F2 F3]]]]. rewrite N2Nat.id in F1.
    unfold slot_hit, slot. fold k. rewrite F1, F2. split; [reflexivity | exact F3]. }
  assert (E1 : forall i, sb_hits i ixs vs = cnt (fun j => slot j =? i) (nseq 512)).
  { intro i. unfold sb_hits, cnt. f_equal. f_equal.
    rewrite <- (map_id (filter (fun j => slot j =? i) (nseq 512))).
    assert (G : forall l : list N, (forall j, In j l -> j < 512) ->
                filter (fun h : bool => h) (map (slot_hit i ixs vs) l) = map (fun _ => true) (filter (fun j => slot j =? i) l)).
    { induction l as [|j l IH]; intro Hl; [reflexivity|]. simpl.
      destruct (nth_N_lt_Some vox j) as [v Hv]; [specialize (Hl j (or_introl eq_refl)); lia|].
      destruct (Hslot j v Hv (Hl j (or_introl eq_refl))) as [S1 _]. rewrite S1.
      destruct (slot j =? i); simpl; rewrite IH; auto; intros; apply Hl; now right. }
    rewrite G by (intros j Hj; now apply In_nseq in Hj). now rewrite !map_length. }
  rewrite (map_ext _ _ E1).
  rewrite sum_cnt_slots by apply label_indices_NoDup.
  (* membership in the target's slots = the voxel is labelled target *)
  assert (E2 : cnt (fun j => mem (slot j) (label_indices labels [target])) (nseq 512)
               = cnt (fun j => match nth_N vox j with Some v => target =? v | None => false end) (nseq 512)).
  { apply cnt_ext. intros j Hj. apply In_nseq in Hj.
    destruct (nth_N_lt_Some vox j ltac:(lia)) as [v Hv]. rewrite Hv.
    destruct (Hslot j v Hv Hj) as [_ S2].
    rewrite (label_indices_spec labels [target] (slot j) v S2). unfold mem. simpl.
    rewrite orb_false_r. apply N.eqb_sym. }
  rewrite E2. unfold count_eq.
  (* vox = map (nth vox) (nseq 512) *)
  assert (E3 : vox = map (fun j => match nth_N vox j with Some v => v | None => 0 end) (nseq 512)).
  { apply list_eq_nth; [rewrite map_length, nseq_length; lia|].
    intros i a Hi. assert (i < 512)%nat by (rewrite <- Hvox; apply nth_error_Some; congruence).
    rewrite nth_error_map, nth_error_nseq by lia. simpl. now rewrite nth_N_of_nat, Hi. }
  transitivity (cnt (N.eqb target) (map (fun j => match nth_N vox j with Some v => v | None => 0 end) (nseq 512))).
  2:{ rewrite <- E3. reflexivity. }
  rewrite cnt_map. apply cnt_ext. intros j Hj. apply In_nseq in Hj.
  destruct (nth_N_lt_Some vox j ltac:(lia)) as [v Hv]. now rewrite Hv.
Qed.

Lemma sem_hits_sum labels ns idx vals voxs target :
  Sem labels ns idx vals voxs ->
  sum_N (map (fun i => sem_hits i ns idx vals) (label_indices labels [target])) = count_eq (concat voxs) target.
Proof.
  induction 1 as [|ixs vs vox ns idx vals voxs Hsb _ IH].
  - simpl. unfold count_eq. simpl. induction (label_indices labels [target]); [reflexivity|].
    cbn [map]. now rewrite sum_N_cons, IHl.
  - cbn [sem_hits concat].
    pose proof Hsb as [Hn [Hix [Hvox [Hvs Hf]]]].
    rewrite (map_ext _ (fun i => sb_hits i ixs vs + sem_hits i ns idx vals)).
    2:{ intro i. rewrite Nat2N.id.
        destruct (take_app ixs idx (length ixs) eq_refl) as [F1 S1].
        destruct (take_app vs vals (N.to_nat (64 * bits_for (N.of_nat (length ixs))))) as [F2 S2]; [lia|].
        now rewrite F1, S1, F2, S2. }
    rewrite sum_N_map_add, IH, (sb_hits_sum labels ixs vs vox target Hsb).
    unfold count_eq. rewrite filter_app, app_length. lia.
Qed.

Lemma count_eq_repeat l n target : count_eq (repeat l n) target = if target =? l then N.of_nat n else 0.
Proof.
  unfold count_eq. induction n as [|n IH]; simpl; [now destruct (target =? l)|].
  destruct (target =? l) eqn:E; simpl; rewrite ?IH; simpl; lia.
Qed.

Lemma concat_repeat {A} (x : list A) n : length (concat (repeat x n)) = (n * length x)%nat.
Proof. induction n; simpl; [reflexivity|]. rewrite app_length, IHn. lia. Qed.

Lemma count_concat_repeat (r : list N) target c n :
  length (filter (N.eqb target) r) = c ->
  length (filter (N.eqb target) (concat (repeat r n))) = (n * c)%nat.
Proof.
  intro H. induction n as [|n IHn]; cbn [repeat concat]; [reflexivity|].
  rewrite filter_app, app_length, IHn, H. lia.
Qed.

Lemma filter_all_eq (r : list N) l target :
  (forall v, In v r -> v = l) ->
  length (filter (N.eqb target) r) = if target =? l then length r else 0%nat.
Proof.
  induction r as [|a r IH]; intro H; [now destruct (target =? l)|].
  cbn [filter length]. rewrite (H a (or_introl eq_refl)).
  assert (IH' := IH (fun v Hv => H v (or_intror Hv))).
  destruct (target =? l); cbn [length]; now rewrite IH'.
Qed.

Lemma count_solid_sbs (r : list N) l target n :
  (forall v, In v r -> v = l) ->
  count_eq (concat (repeat r n)) target = if target =? l then N.of_nat n * N.of_nat (length r) else 0.
Proof.
  intro H. unfold count_eq.
  rewrite (count_concat_repeat r target _ n (filter_all_eq r l target H)).
  destruct (target =? l); lia.
Qed.

(* ReplaceLabel with the repaired getNumVoxels: the block is the voxel-wise replacement and the
   reported size is the number of voxels that carried the target label *)
Theorem replace_label_wf b voxs target newLabel :
  block_wf b voxs ->
  exists b' size, replace_label true b target newLabel = Ok (b', size) /\
    block_wf b' (map (map (fun l => if l =? target then newLabel else l)) voxs) /\
    size = count_eq (concat voxs) target.
Proof.
  intros W. pose proof W as [L [[l [El [_ [_ [_ Ev]]]]] | [HL S]]].
  - (* one label *)
    unfold replace_label.
    assert (EI : label_indices (b_labels b) [target] = if mem l [target] then [0] else []).
    { rewrite El. unfold label_indices. change (nseq (N.of_nat (length [l]))) with [0]. cbn [combine filter snd].
      destruct (mem l [target]); reflexivity. }
    assert (G : get_num_voxels true b 0 = Ok (8 * b_gx b * (8 * b_gy b) * (8 * b_gz b)))
      by (unfold get_num_voxels; rewrite El; reflexivity).
    assert (Hcount : count_eq (concat voxs) target
                     = if target =? l then 8 * b_gx b * (8 * b_gy b) * (8 * b_gz b) else 0).
    { rewrite Ev, (count_solid_sbs _ l) by (intros v Hv; now apply repeat_spec in Hv).
      rewrite repeat_length. change (N.of_nat 512) with 512. destruct (target =? l); lia. }
    rewrite EI, Hcount. unfold mem. cbn [existsb]. rewrite orb_false_r. rewrite (N.eqb_sym l target).
    destruct (target =? l).
    + cbn [mapR]. rewrite G. eexists. eexists. split; [reflexivity|].
      split; [apply relabel_table_wf; exact W|]. cbn [fold_left]. lia.
    + cbn [mapR]. eexists. eexists. split; [reflexivity|].
      split; [apply relabel_table_wf; exact W | reflexivity].
  - (* several labels *)
    unfold replace_label.
    assert (Sizes : mapR (get_num_voxels true b) (label_indices (b_labels b) [target])
                    = Ok (map (fun i => sem_hits i (b_nsb b) (b_idx b) (b_vals b)) (label_indices (b_labels b) [target]))).
    { apply mapR_pure'. intros i _. unfold get_num_voxels.
      destruct (b_labels b) as [|l1 [|l2 ls]] eqn:EL; [simpl in HL; lia|simpl in HL; lia|].
      pose proof (Sem_length _ _ _ _ _ S) as SL.
      replace (N.of_nat (length (b_nsb b)) <? b_gx b * b_gy b * b_gz b) with false by (symmetry; apply N.ltb_ge; lia).
      rewrite firstn_all2 by lia. rewrite <- EL in S.
      destruct (nv_sbs_sem b i _ _ _ _ S [] [] 0 eq_refl eq_refl) as [ip [bp E]].
      change (N.of_nat (length (@nil N))) with 0 in E. change (8 * 0) with 0 in E.
      rewrite E. now rewrite N.add_0_l. }
    rewrite Sizes. eexists. eexists. split; [reflexivity|].
    split; [apply relabel_table_wf; exact W|].
    change (fold_left N.add ?l 0) with (sum_N l). apply sem_hits_sum. exact S.
Qed.

(* ---------------- the split family: expand, edit the array, re-encode ---------------- *)

Lemma decode_length b a : decode b = Ok a -> length a = N.to_nat (8 * b_gx b * (8 * b_gy b) * (8 * b_gz b)).
Proof.
  unfold decode. destruct (b_labels b) as [|l1 [|l2 ls]].
  - intro H. apply Ok_inj in H. subst. apply repeat_length.
  - intro H. apply Ok_inj in H. subst. apply repeat_length.
  - destruct (block_sbs b) as [sbs| |]; try discriminate. unfold assemble. intro H.
    rewrite (mapR_length _ _ _ H). apply nseq_length.
Qed.

Lemma upd_range_length a i len hit f a' c : upd_range a i len hit f = Ok (a', c) -> length a' = length a.
Proof.
  unfold upd_range. destruct (len <=? 0)%Z; [intro H; apply Ok_inj in H; now inversion H|].
  destruct ((i <? 0)%Z || (Z.of_nat (length a) <? i + len)%Z) eqn:E; [discriminate|].
  intro H. apply Ok_inj in H. inversion H; subst. clear H.
  apply orb_false_iff in E as [E1 E2]. apply Z.ltb_ge in E1, E2.
  rewrite !app_length, map_length, !firstn_length, !skipn_length. lia.
Qed.

Lemma upd_runs_length rs : forall a hit f cnt0 a' c,
  upd_runs a rs hit f cnt0 = Ok (a', c) -> length a' = length a.
Proof.
  induction rs as [|[i len] rs IH]; intros a hit f cnt0 a' c H; simpl in H.
  - apply Ok_inj in H. now inversion H.
  - destruct (upd_range a i len hit f) as [[a1 c1]| |] eqn:E; try discriminate.
    rewrite (IH _ _ _ _ _ _ H). eapply upd_range_length; eauto.
Qed.

(* re-encoding an array of the block's size with any table that contains its labels *)
Lemma reencode tbl a gx gy gz b :
  length a = N.to_nat (8 * gx * (8 * gy) * (8 * gz)) -> (forall l, In l a -> In l tbl) ->
  encode tbl a gx gy gz = Ok b -> decode b = Ok a.
Proof. apply decode_encode. Qed.

Definition tbl_ok (tbl : list N -> list N) : Prop := forall a l, In l a -> In l (tbl a).

(* Split (splitSlow): the result decodes to the array edited under the run lengths; the sizes are
   the number of target voxels relabelled and the number left *)
Theorem split_slow_decodes tbl b bx by_ bz target newLabel rles ob kept split :
  tbl_ok tbl ->
  split_slow tbl b bx by_ bz target newLabel rles = Ok (ob, kept, split) ->
  exists a, decode b = Ok a /\
    ((count_eq a target = 0 /\ ob = None /\ kept = 0 /\ split = 0) \/
     (count_eq a target <> 0 /\ exists a' b',
        ob = Some b' /\
        upd_runs a (map (run_range (8 * b_gx b) (8 * b_gy b)
                                   (bx * Z.of_N (8 * b_gx b)) (by_ * Z.of_N (8 * b_gy b)) (bz * Z.of_N (8 * b_gz b))) rles)
                 (N.eqb target) (fun _ => newLabel) 0 = Ok (a', split) /\
        decode b' = Ok a' /\ kept = count_eq a target - split)).
Proof.
  intros T H. unfold split_slow in H.
  destruct (decode b) as [a| |] eqn:D; try discriminate. exists a. split; [reflexivity|].
  destruct (count_eq a target =? 0) eqn:C.
  - apply N.eqb_eq in C. apply Ok_inj in H. inversion H; subst. left. repeat split. exact C.
  - apply N.eqb_neq in C. right. split; [exact C|].
    unfold block_off in H.
    destruct (upd_runs a _ (N.eqb target) (fun _ => newLabel) 0) as [[a' s]| |] eqn:U; try discriminate.
    destruct (encode (tbl a') a' (b_gx b) (b_gy b) (b_gz b)) as [b'| |] eqn:E; try discriminate.
    apply Ok_inj in H. inversion H; subst. exists a', b'. repeat split; try assumption.
    apply (reencode (tbl a') a' (b_gx b) (b_gy b) (b_gz b) b'); [|apply T|exact E].
    rewrite (upd_runs_length _ _ _ _ _ _ _ U). now apply decode_length.
Qed.

Theorem split_supervoxel_decodes tbl b bx by_ bz sv splitSV remainSV rles b' kept split :
  tbl_ok tbl ->
  split_supervoxel tbl b bx by_ bz sv splitSV remainSV rles = Ok (b', kept, split) ->
  exists a a1, decode b = Ok a /\
    upd_runs a (map (run_range (8 * b_gx b) (8 * b_gy b)
                               (bx * Z.of_N (8 * b_gx b)) (by_ * Z.of_N (8 * b_gy b)) (bz * Z.of_N (8 * b_gz b))) rles)
             (N.eqb sv) (fun _ => splitSV) 0 = Ok (a1, split) /\
    kept = count_eq a1 sv /\
    decode b' = Ok (map (fun l => if l =? sv then remainSV else l) a1).
Proof.
  intros T H. unfold split_supervoxel, block_off in H.
  destruct (decode b) as [a| |] eqn:D; try discriminate.
  destruct (upd_runs a _ (N.eqb sv) (fun _ => splitSV) 0) as [[a1 s]| |] eqn:U; try discriminate.
  destruct (encode _ _ (b_gx b) (b_gy b) (b_gz b)) as [b2| |] eqn:E; try discriminate.
  apply Ok_inj in H. inversion H; subst. exists a, a1. repeat split; try assumption.
  eapply (reencode _ _ (b_gx b) (b_gy b) (b_gz b) b'); [| |exact E]; [|apply T].
  rewrite map_length, (upd_runs_length _ _ _ _ _ _ _ U). now apply decode_length.
Qed.

Theorem split_supervoxels_decodes tbl b bx by_ bz rles sv b' :
  tbl_ok tbl ->
  split_supervoxels tbl b bx by_ bz rles sv = Ok b' ->
  exists a a1 c, decode b = Ok a /\
    upd_runs a (map (run_range (8 * b_gx b) (8 * b_gy b)
                               (bx * Z.of_N (8 * b_gx b)) (by_ * Z.of_N (8 * b_gy b)) (bz * Z.of_N (8 * b_gz b))) rles)
             (fun l => match assoc2 sv l with Some _ => true | None => false end)
             (fun l => match assoc2 sv l with Some (s, _) => s | None => l end) 0 = Ok (a1, c) /\
    decode b' = Ok (map (fun l => match assoc2 sv l with Some (_, r) => r | None => l end) a1).
Proof.
  intros T H. unfold split_supervoxels, block_off in H.
  destruct (decode b) as [a| |] eqn:D; try discriminate.
  destruct (upd_runs a _ _ _ 0) as [[a1 c]| |] eqn:U; try discriminate.
  exists a, a1, c. repeat split; try assumption.
  eapply (reencode _ _ (b_gx b) (b_gy b) (b_gz b) b'); [| |exact H]; [|apply T].
  rewrite map_length, (upd_runs_length _ _ _ _ _ _ _ U). now apply decode_length.
Qed.

(* ---------------- the count defect of the code as found ---------------- *)

(* a 16x16x16 block of label 1 whose first sub-block cycles labels 1,2,3 *)
Definition c10_witness_array : list N :=
  map (fun p => let x := p mod 16 in let y := (p / 16) mod 16 in let z := p / 256 in
                if (x <? 8) && (y <? 8) && (z <? 8) then 1 + (z * 64 + y * 8 + x) mod 3 else 1) (nseq 4096).
Definition c10_witness_block : block :=
  Eval vm_compute in
    match encode_canon c10_witness_array 16 16 16 0 0 0 2 2 2 with Ok b => b | _ => solid_block 0 0 0 0 end.
Definition c10_witness_merged : block :=
  Eval vm_compute in
    match merge_labels c10_witness_block 1 [2] 0 with Ok b => b | _ => solid_block 0 0 0 0 end.

(* MergeLabels(2 -> 1) then ReplaceLabel(1, 9): the code as found reports 3755 voxels, 3926 voxels
   carry label 1 and are replaced; the repaired getNumVoxels reports 3926 *)
Lemma replace_count_refuted :
  merge_labels c10_witness_block 1 [2] 0 = Ok c10_witness_merged /\
  (exists a, decode c10_witness_merged = Ok a /\ count_eq a 1 = 3926) /\
  (exists b', replace_label false c10_witness_merged 1 9 = Ok (b', 3755)) /\
  (exists b', replace_label true c10_witness_merged 1 9 = Ok (b', 3926)).
Proof.
  split; [vm_compute; reflexivity|]. split; [|split].
  - eexists. split; [vm_compute; reflexivity|]. vm_compute. reflexivity.
  - eexists. vm_compute. reflexivity.
  - eexists. vm_compute. reflexivity.
Qed.

(* without any merge: sub-block 0 cycles labels 5,6, sub-block 1 cycles 1,2,3, the rest is 4;
   the label-1 count of the code as found is read at a stale bit position *)
Definition c10_witness2_array : list N :=
  map (fun p => let x := p mod 16 in let y := (p / 16) mod 16 in let z := p / 256 in
                if (y <? 8) && (z <? 8) then
                  (if x <? 8 then 5 + (z * 64 + y * 8 + x) mod 2 else 1 + (z * 64 + y * 8 + (x - 8)) mod 3)
                else 4) (nseq 4096).
Definition c10_witness2_block : block :=
  Eval vm_compute in
    match encode_canon c10_witness2_array 16 16 16 0 0 0 2 2 2 with Ok b => b | _ => solid_block 0 0 0 0 end.

Lemma replace_count_refuted_no_alias :
  encode_canon c10_witness2_array 16 16 16 0 0 0 2 2 2 = Ok c10_witness2_block /\
  count_eq c10_witness2_array 1 = 171 /\
  (exists b', replace_label false c10_witness2_block 1 9 = Ok (b', 86)) /\
  (exists b', replace_label true c10_witness2_block 1 9 = Ok (b', 171)).
Proof.
  split; [vm_compute; reflexivity|]. split; [vm_compute; reflexivity|]. split.
  - eexists. vm_compute. reflexivity.
  - eexists. vm_compute. reflexivity.
Qed.

(* ---------------- outside the invariant: client-made blocks with uninitialised sub-blocks ---------------- *)

(* a 16x16x16 block whose first sub-block alternates labels 1,2 and whose seven other sub-blocks are
   uninitialised (NumSBLabels = 0): their 3584 voxels read 0 without any table slot, so a table
   edit of label 0 (ReplaceLabel(0, 7)) leaves them 0 and reports 0 voxels.  [block_wf] excludes
   such blocks (every sub-block has at least one slot). *)
Definition c10_sparse_block : block :=
  Eval vm_compute in
    mkBlock 2 2 2 [1; 2] [2; 0; 0; 0; 0; 0; 0; 0] [0; 1] (pack 1 (map (fun i => i mod 2) (nseq 512))).

Lemma replace_zero_sparse_refuted :
  exists a, decode c10_sparse_block = Ok a /\ count_eq a 0 = 3584 /\
  exists b', replace_label true c10_sparse_block 0 7 = Ok (b', 0) /\ decode b' = Ok a.
Proof.
  eexists. split; [vm_compute; reflexivity|]. split; [vm_compute; reflexivity|].
  eexists. split; vm_compute; reflexivity.
Qed.
