(* Proofs.NJUpdate: the field merge rules of updateJSON. *)
From DV Require Import Base.Prelude Model.NJ Proofs.NJBase.
Local Open Scope N_scope.

Lemma beq_eq : forall a b : bytes, bytes_eqb a b = true <-> a = b.
Proof. exact bytes_eqb_eq. Qed.
Lemma beq_refl a : bytes_eqb a a = true.
Proof. now apply bytes_eqb_eq. Qed.
Lemma beq_neq a b : a <> b -> bytes_eqb a b = false.
Proof. intro H. destruct (bytes_eqb a b) eqn:E; [apply bytes_eqb_eq in E; contradiction | reflexivity]. Qed.
Lemma beq_false a b : bytes_eqb a b = false -> a <> b.
Proof. intros E H. subst. now rewrite beq_refl in E. Qed.

Lemma oget_oset_same k v m : oget k (oset k v m) = Some v.
Proof. apply (aget_aset_same bytes_eqb beq_eq). Qed.
Lemma oget_oset_other k k' v m : k <> k' -> oget k (oset k' v m) = oget k m.
Proof. apply (aget_aset_other bytes_eqb beq_eq). Qed.
Lemma oget_odel_same k m : oget k (odel k m) = None.
Proof. apply (aget_adel_same bytes_eqb). Qed.
Lemma oget_odel_other k k' m : k <> k' -> oget k (odel k' m) = oget k m.
Proof. apply (aget_adel_other bytes_eqb beq_eq). Qed.
Lemma omem_oget k m : omem k m = match oget k m with Some _ => true | None => false end.
Proof. reflexivity. Qed.
Lemma oget_in k v m : oget k m = Some v -> In k (dom m).
Proof. intro H. apply (aget_Some_in bytes_eqb beq_eq) in H. now apply (in_map fst) in H. Qed.
Lemma oget_notin k m : ~ In k (dom m) -> oget k m = None.
Proof. apply (aget_None_notin bytes_eqb beq_eq). Qed.
Lemma oget_none_notin k m : oget k m = None -> ~ In k (dom m).
Proof. apply (aget_None_notin bytes_eqb beq_eq). Qed.

Lemma smem_in x l : smem x l = true <-> In x l.
Proof.
  unfold smem. rewrite existsb_exists. split.
  - intros (y & Hy & E). apply bytes_eqb_eq in E. now subst.
  - intro H. exists x. split; [exact H | apply beq_refl].
Qed.
Lemma smem_notin x l : smem x l = false <-> ~ In x l.
Proof. rewrite <- smem_in. destruct (smem x l); split; congruence. Qed.

(* ---------- field names and their stamps ---------- *)
Lemma has_suffix_app suf f : has_suffix suf (f ++ suf) = true.
Proof.
  unfold has_suffix. rewrite app_length. apply andb_true_intro. split; [apply Nat.leb_le; lia|].
  replace (length f + length suf - length suf)%nat with (length f) by lia.
  rewrite skipn_app_len. apply beq_refl.
Qed.
Lemma is_meta_fuser f : is_meta (fuser f) = true.
Proof. unfold is_meta, is_userf, fuser. now rewrite has_suffix_app. Qed.
Lemma is_meta_ftime f : is_meta (ftime f) = true.
Proof. unfold is_meta, is_timef, ftime. rewrite has_suffix_app. apply orb_true_r. Qed.
Lemma fuser_inj f g : fuser f = fuser g -> f = g.
Proof. apply app_inv_tail. Qed.
Lemma ftime_inj f g : ftime f = ftime g -> f = g.
Proof. apply app_inv_tail. Qed.
Lemma fuser_ne_ftime f g : fuser f <> ftime g.
Proof.
  unfold fuser, ftime. intro H. apply (f_equal (@rev N)) in H. rewrite !rev_app_distr in H.
  simpl in H. discriminate.
Qed.
Lemma nonmeta_ne_stamp f g : is_meta f = false -> f <> fuser g /\ f <> ftime g.
Proof. intro H. split; intro E; subst; [rewrite is_meta_fuser in H | rewrite is_meta_ftime in H]; discriminate. Qed.
Lemma strip5_fuser f : strip5 (fuser f) = f.
Proof.
  unfold strip5, fuser. rewrite app_length. simpl.
  replace (length f + 5 - 5)%nat with (length f) by lia. apply firstn_app_len.
Qed.

Section Upd.
Variables (user : bytes) (conds : list bytes) (replace : bool) (t : bytes).

(* ---------- steps that leave a key alone ---------- *)
Lemma null_step_other new0 acc d k : k <> d -> k <> fuser d -> k <> ftime d ->
  oget k (null_step user t new0 acc d) = oget k acc.
Proof.
  intros H1 H2 H3. unfold null_step. destruct (is_meta d); [now apply oget_odel_other|].
  repeat match goal with |- context [if ?c then _ else _] => destruct c end;
    rewrite ?oget_oset_other by assumption; now apply oget_odel_other.
Qed.
Lemma null_fold_other new0 ds k : (forall d, In d ds -> k <> d /\ k <> fuser d /\ k <> ftime d) ->
  forall acc, oget k (fold_left (null_step user t new0) ds acc) = oget k acc.
Proof.
  induction ds as [|d r IH]; intros H acc; simpl; [reflexivity|].
  rewrite IH by (intros; apply H; now right).
  destruct (H d (or_introl eq_refl)) as (A & B & C). now apply null_step_other.
Qed.
Lemma null_step_self new0 acc d : is_meta d = false -> oget d (null_step user t new0 acc d) = None.
Proof.
  intro M. destruct (nonmeta_ne_stamp d d M) as [A B]. unfold null_step. rewrite M.
  repeat match goal with |- context [if ?c then _ else _] => destruct c end;
    rewrite ?oget_oset_other by assumption; apply oget_odel_same.
Qed.
Lemma null_fold_removed new0 ds f : is_meta f = false -> In f ds ->
  forall acc, oget f (fold_left (null_step user t new0) ds acc) = None.
Proof.
  intros M. induction ds as [|d r IH]; intros Hin acc; [contradiction|]. simpl.
  destruct (smem f r) eqn:E.
  - apply IH. now apply smem_in.
  - apply smem_notin in E. rewrite null_fold_other.
    + destruct Hin as [-> | Hin]; [now apply null_step_self | contradiction].
    + intros d' Hd. destruct (nonmeta_ne_stamp f d' M). repeat split; try assumption. intro; subst; contradiction.
Qed.

Lemma odel_fold_other ds k : ~ In k ds -> forall o, oget k (fold_left (fun acc d => odel d acc) ds o) = oget k o.
Proof.
  induction ds as [|d r IH]; intros H o; simpl; [reflexivity|].
  rewrite IH by (intro; apply H; now right). apply oget_odel_other. intro; subst; apply H; now left.
Qed.
Lemma odel_fold_removed ds k : In k ds -> forall o, oget k (fold_left (fun acc d => odel d acc) ds o) = None.
Proof.
  induction ds as [|d r IH]; intros H o; [contradiction|]. simpl.
  destruct (smem k r) eqn:E; [apply IH; now apply smem_in|].
  apply smem_notin in E. rewrite odel_fold_other by exact E.
  destruct H as [-> | H]; [apply oget_odel_same | contradiction].
Qed.
Lemma odel_fold_nodup ds : forall o, NoDup (dom o) -> NoDup (dom (fold_left (fun acc d => odel d acc) ds o)).
Proof. induction ds as [|d r IH]; intros o H; simpl; [exact H|]. apply IH. now apply (nodup_adel bytes_eqb). Qed.

Lemma stamp_step_other del ns acc g k : (is_meta g = false -> k <> fuser g /\ k <> ftime g) ->
  oget k (stamp_step user t del ns acc g) = oget k acc.
Proof.
  intro H. unfold stamp_step.
  destruct (bytes_eqb g s_bodyid || bytes_eqb g s_userf); [reflexivity|].
  destruct (smem g del); [reflexivity|]. destruct (is_meta g) eqn:M; [reflexivity|].
  destruct (H eq_refl) as [A B].
  repeat match goal with |- context [if ?c then _ else _] => destruct c end;
    rewrite ?oget_oset_other by assumption; reflexivity.
Qed.
Lemma stamp_fold_other del ns L k : (forall g, In g L -> is_meta g = false -> k <> fuser g /\ k <> ftime g) ->
  forall acc, oget k (fold_left (stamp_step user t del ns) L acc) = oget k acc.
Proof.
  induction L as [|g r IH]; intros H acc; simpl; [reflexivity|].
  rewrite IH by (intros; apply H; [now right | assumption]).
  apply stamp_step_other. apply H. now left.
Qed.

Lemma keep_step_other del o1 acc g k : k <> fuser g -> k <> ftime g ->
  oget k (keep_step user t del o1 acc g) = oget k acc.
Proof.
  intros A B. unfold keep_step. destruct (bytes_eqb g s_bodyid); [reflexivity|]. destruct (smem g del); [reflexivity|].
  repeat match goal with |- context [if ?c then _ else _] => destruct c end;
    rewrite ?oget_oset_other by assumption; reflexivity.
Qed.
Lemma keep_fold_other del o1 L k : (forall g, In g L -> k <> fuser g /\ k <> ftime g) ->
  forall acc, oget k (fold_left (keep_step user t del o1) L acc) = oget k acc.
Proof.
  induction L as [|g r IH]; intros H acc; simpl; [reflexivity|].
  rewrite IH by (intros; apply H; now right).
  destruct (H g (or_introl eq_refl)). now apply keep_step_other.
Qed.

(* ---------- carrying the stored fields forward ---------- *)
Lemma carry_fold_get new1 l k : NoDup (map fst l) -> omem k new1 = false ->
  forall acc ns, oget k (fst (fold_left (carry_step conds new1) l (acc, ns))) =
                 match oget k l with Some ov => Some ov | None => oget k acc end.
Proof.
  intros ND Hk. induction l as [|[g ov] r IH]; intros acc ns; [reflexivity|].
  inversion ND as [|? ? Hg ND']; subst. cbn [fold_left]. unfold carry_step at 2.
  unfold oget at 2. cbn [aget]. fold (oget k r).
  destruct (bytes_eqb k g) eqn:E.
  - apply bytes_eqb_eq in E; subst g. rewrite Hk. cbn [negb].
    rewrite IH by exact ND'. rewrite oget_notin by exact Hg. apply oget_oset_same.
  - apply beq_false in E.
    destruct (negb (omem g new1)); [|destruct (smem g conds)]; rewrite IH by exact ND';
      destruct (oget k r); rewrite ?oget_oset_other by exact E; reflexivity.
Qed.
Lemma carry_fold_ns_sub new1 l : forall acc ns g,
  In g (snd (fold_left (carry_step conds new1) l (acc, ns))) -> In g ns.
Proof.
  induction l as [|[k ov] r IH]; intros acc ns g; [simpl; auto|]. cbn [fold_left]. unfold carry_step at 2.
  destruct (negb (omem k new1)); [apply IH|]. destruct (smem k conds); [|apply IH].
  intro H. apply IH in H. unfold sdel in H. now apply filter_In in H.
Qed.
Lemma carry_fold_ns_keep new1 l f : smem f conds = false -> forall acc ns,
  In f ns -> In f (snd (fold_left (carry_step conds new1) l (acc, ns))).
Proof.
  intro C. induction l as [|[k ov] r IH]; intros acc ns H; [exact H|]. cbn [fold_left]. unfold carry_step at 2.
  destruct (negb (omem k new1)); [now apply IH|]. destruct (smem k conds) eqn:Ek; [|now apply IH].
  apply IH. unfold sdel. apply filter_In. split; [exact H|].
  destruct (bytes_eqb k f) eqn:E; [apply bytes_eqb_eq in E; subst; congruence | reflexivity].
Qed.

Lemma carry_fold_absent new1 l f : ~ In f (map fst l) ->
  forall acc ns, oget f (fst (fold_left (carry_step conds new1) l (acc, ns))) = oget f acc.
Proof.
  induction l as [|[g ov] r IH]; intros Hl acc ns; [reflexivity|]. cbn [fold_left]. unfold carry_step at 2.
  simpl in Hl. assert (f <> g) by (intro; subst; apply Hl; now left).
  destruct (negb (omem g new1)); [|destruct (smem g conds)]; rewrite IH by tauto;
    rewrite ?oget_oset_other by assumption; reflexivity.
Qed.

(* keys of the request after the null loop: request keys, or stamps *)
Lemma null_step_keys new0 acc d g : In g (dom (null_step user t new0 acc d)) -> In g (dom acc) \/ is_meta g = true.
Proof.
  unfold null_step, dom. intro H. destruct (is_meta d).
  - left. eapply in_keys_adel; eauto.
  - repeat match type of H with context [if ?c then _ else _] => destruct c end;
      repeat (apply (in_keys_aset bytes_eqb beq_eq) in H; destruct H as [-> | H];
              [right; first [apply is_meta_fuser | apply is_meta_ftime]|]);
      left; eapply in_keys_adel; eauto.
Qed.
Lemma null_fold_keys new0 ds g : forall acc,
  In g (dom (fold_left (null_step user t new0) ds acc)) -> In g (dom acc) \/ is_meta g = true.
Proof.
  induction ds as [|d r IH]; intros acc H; simpl in H; [now left|].
  apply IH in H. destruct H as [H|H]; [|now right]. eapply null_step_keys; eauto.
Qed.

Lemma deleted_in new0 f : In (f, JNull) new0 -> In f (deleted_fields new0).
Proof.
  intro H. unfold deleted_fields. apply (in_map fst (filter (fun p => is_null (snd p)) new0) (f, JNull)).
  apply filter_In. split; [exact H | reflexivity].
Qed.
Lemma deleted_sub new0 f : In f (deleted_fields new0) -> In f (dom new0).
Proof.
  unfold deleted_fields, dom. intro H. apply in_map_iff in H as (p & <- & Hp).
  apply filter_In in Hp. apply in_map. tauto.
Qed.
Lemma deleted_null new0 f : NoDup (dom new0) -> In f (deleted_fields new0) -> oget f new0 = Some JNull.
Proof.
  intros ND H. unfold deleted_fields in H. apply in_map_iff in H as ([k v] & <- & Hp).
  apply filter_In in Hp as [Hin Hn]. simpl in *. destruct v; try discriminate.
  now apply (in_aget_nodup bytes_eqb beq_eq).
Qed.

(* ---------- a null removes an ordinary field ---------- *)
Theorem null_removes orig new0 f :
  In (f, JNull) new0 -> is_meta f = false ->
  oget f (snd (updateJSON user conds replace t orig new0)) = None.
Proof.
  intros Hin M. unfold updateJSON.
  set (del := deleted_fields new0). set (new1 := fold_left (null_step user t new0) del new0).
  assert (Hd : In f del) by now apply deleted_in.
  assert (H1 : oget f new1 = None) by now apply null_fold_removed.
  assert (St : forall L ns acc, oget f (fold_left (stamp_step user t del ns) L acc) = oget f acc).
  { intros. apply stamp_fold_other. intros g _ _. now apply nonmeta_ne_stamp. }
  destruct orig as [o|]; cbn [option_map snd].
  - set (o1 := fold_left (fun acc d => odel d acc) del o).
    assert (Ho : oget f o1 = None) by now apply odel_fold_removed.
    assert (K : forall L acc, oget f (fold_left (keep_step user t del o1) L acc) = oget f acc).
    { intros. apply keep_fold_other. intros g _. now apply nonmeta_ne_stamp. }
    destruct replace.
    + cbn [snd]. now rewrite K, St.
    + match goal with |- context [fold_left (carry_step conds new1) o1 (new1, ?n)] => set (ns0 := n) end.
      destruct (fold_left (carry_step conds new1) o1 (new1, ns0)) as [new2 ns] eqn:E. cbn [snd].
      assert (E1 : new2 = fst (fold_left (carry_step conds new1) o1 (new1, ns0))) by now rewrite E.
      rewrite St, E1, carry_fold_absent; [exact H1 | now apply oget_none_notin].
  - cbn [snd]. now rewrite St.
Qed.

(* ---------- a partial update keeps the fields it does not mention ---------- *)
Theorem merge_keeps o new0 f v :
  NoDup (dom o) -> oget f o = Some v -> omem f new0 = false ->
  (forall g, In g (dom new0) -> f <> fuser g /\ f <> ftime g) ->
  oget f (snd (updateJSON user conds false t (Some o) new0)) = Some v.
Proof.
  intros ND Ho Hn Hst. unfold updateJSON.
  set (del := deleted_fields new0). set (new1 := fold_left (null_step user t new0) del new0).
  cbn [option_map]. set (o1 := fold_left (fun acc d => odel d acc) del o).
  assert (Hnot : ~ In f (dom new0)).
  { rewrite omem_oget in Hn. destruct (oget f new0) eqn:E; [discriminate|]. now apply oget_none_notin. }
  assert (Hdel : ~ In f del) by (intro H; apply Hnot; now apply deleted_sub).
  assert (H1 : oget f new1 = None).
  { unfold new1. rewrite null_fold_other; [now apply oget_notin|].
    intros d Hd. split; [intro; subst; contradiction|]. apply Hst. now apply deleted_sub. }
  assert (Ho1 : oget f o1 = Some v) by (unfold o1; now rewrite odel_fold_other).
  assert (ND1 : NoDup (dom o1)) by now apply odel_fold_nodup.
  match goal with |- context [fold_left (carry_step conds new1) o1 (new1, ?n)] => set (ns0 := n) end.
  destruct (fold_left (carry_step conds new1) o1 (new1, ns0)) as [new2 ns] eqn:E. cbn [snd].
  assert (E1 : new2 = fst (fold_left (carry_step conds new1) o1 (new1, ns0))) by now rewrite E.
  assert (E2 : ns = snd (fold_left (carry_step conds new1) o1 (new1, ns0))) by now rewrite E.
  assert (H2 : oget f new2 = Some v).
  { rewrite E1, carry_fold_get; [now rewrite Ho1 | exact ND1 | now rewrite omem_oget, H1]. }
  rewrite stamp_fold_other; [exact H2|].
  intros g Hg Mg. apply Hst.
  assert (In g (dom new1)).
  { rewrite E2 in Hg. apply carry_fold_ns_sub in Hg. unfold ns0 in Hg. now apply filter_In in Hg. }
  apply null_fold_keys in H. destruct H as [H|H]; [exact H | congruence].
Qed.

(* ---------- a conditional field that is already set is not overwritten ---------- *)
Lemma carry_fold_protected new1 l k : NoDup (map fst l) -> omem k new1 = true -> smem k conds = true ->
  forall acc ns, oget k (fst (fold_left (carry_step conds new1) l (acc, ns))) =
                 match oget k l with Some ov => Some ov | None => oget k acc end.
Proof.
  intros ND Hk Hc. induction l as [|[g ov] r IH]; intros acc ns; [reflexivity|].
  inversion ND as [|? ? Hg ND']; subst. cbn [fold_left]. unfold carry_step at 2.
  unfold oget at 2. cbn [aget]. fold (oget k r).
  destruct (bytes_eqb k g) eqn:E.
  - apply bytes_eqb_eq in E; subst g. rewrite Hk, Hc. cbn [negb].
    rewrite IH by exact ND'. rewrite oget_notin by exact Hg. apply oget_oset_same.
  - apply beq_false in E.
    destruct (negb (omem g new1)); [|destruct (smem g conds)]; rewrite IH by exact ND';
      destruct (oget k r); rewrite ?oget_oset_other by exact E; reflexivity.
Qed.

Theorem conditional_keeps o new0 f v ov :
  NoDup (dom o) -> NoDup (dom new0) ->
  oget f o = Some ov -> oget f new0 = Some v -> is_null v = false -> is_meta f = false ->
  smem f conds = true ->
  oget f (snd (updateJSON user conds false t (Some o) new0)) = Some ov.
Proof.
  intros NDo NDn Ho Hf Hv M C. unfold updateJSON.
  set (del := deleted_fields new0). set (new1 := fold_left (null_step user t new0) del new0).
  cbn [option_map]. set (o1 := fold_left (fun acc d => odel d acc) del o).
  assert (D : ~ In f del).
  { intro H. apply (deleted_null new0 f NDn) in H. rewrite Hf in H. inversion H; subst. discriminate. }
  assert (F1 : oget f new1 = Some v).
  { unfold new1. rewrite null_fold_other; [exact Hf|]. intros d Hd. destruct (nonmeta_ne_stamp f d M).
    repeat split; try assumption. intro; subst; contradiction. }
  assert (Fo : oget f o1 = Some ov) by (unfold o1; now rewrite odel_fold_other).
  assert (ND1 : NoDup (dom o1)) by now apply odel_fold_nodup.
  match goal with |- context [fold_left (carry_step conds new1) o1 (new1, ?n)] => set (ns0 := n) end.
  destruct (fold_left (carry_step conds new1) o1 (new1, ns0)) as [new2 ns] eqn:E. cbn [snd].
  assert (E1 : new2 = fst (fold_left (carry_step conds new1) o1 (new1, ns0))) by now rewrite E.
  rewrite stamp_fold_other by (intros g _ _; now apply nonmeta_ne_stamp).
  rewrite E1, carry_fold_protected; [now rewrite Fo | exact ND1 | now rewrite omem_oget, F1 | exact C].
Qed.

(* ---------- stamps move exactly when the value does ---------- *)
Lemma stamp_step_user del ns acc g f :
  nonempty user = true -> f <> s_bodyid -> f <> s_userf -> ~ In f del -> is_meta f = false -> ~ In (fuser f) ns ->
  oget (fuser f) (stamp_step user t del ns acc g) = if bytes_eqb f g then Some (JStr user) else oget (fuser f) acc.
Proof.
  intros U B1 B2 D M N1. destruct (bytes_eqb f g) eqn:E.
  - apply bytes_eqb_eq in E; subst g. unfold stamp_step.
    rewrite (beq_neq _ _ B1), (beq_neq _ _ B2), (proj2 (smem_notin f del) D), M, (proj2 (smem_notin _ ns) N1), U.
    cbn [orb negb andb]. destruct (negb (smem (ftime f) ns)); rewrite ?oget_oset_other by apply fuser_ne_ftime; apply oget_oset_same.
  - apply beq_false in E. apply stamp_step_other. intros _. split; [intro H; apply fuser_inj in H; contradiction | apply fuser_ne_ftime].
Qed.
Lemma stamp_step_time del ns acc g f :
  f <> s_bodyid -> f <> s_userf -> ~ In f del -> is_meta f = false -> ~ In (ftime f) ns ->
  oget (ftime f) (stamp_step user t del ns acc g) = if bytes_eqb f g then Some (JStr t) else oget (ftime f) acc.
Proof.
  intros B1 B2 D M N1. destruct (bytes_eqb f g) eqn:E.
  - apply bytes_eqb_eq in E; subst g. unfold stamp_step.
    rewrite (beq_neq _ _ B1), (beq_neq _ _ B2), (proj2 (smem_notin f del) D), M, (proj2 (smem_notin _ ns) N1).
    cbn [orb negb andb]. apply oget_oset_same.
  - apply beq_false in E. apply stamp_step_other. intros _.
    split; [intro H; symmetry in H; now apply fuser_ne_ftime in H | intro H; apply ftime_inj in H; contradiction].
Qed.
Lemma fold_step_target {A} (step : obj -> bytes -> obj) (k : bytes) (f : bytes) (val : A -> option json) (x : A)
      (Hstep : forall acc g, oget k (step acc g) = if bytes_eqb f g then val x else oget k acc) :
  forall L acc, oget k (fold_left step L acc) = if smem f L then val x else oget k acc.
Proof.
  induction L as [|g r IH]; intro acc; simpl; [reflexivity|].
  rewrite IH, Hstep. destruct (bytes_eqb f g), (smem f r); reflexivity.
Qed.

Lemma keep_step_user del o1 acc g f : f <> s_bodyid -> ~ In f del ->
  oget (fuser f) (keep_step user t del o1 acc g) =
  if bytes_eqb f g then match oget (fuser f) acc with
                        | Some x => Some x
                        | None => Some (match oget (fuser f) o1 with Some v => v | None => JStr user end) end
  else oget (fuser f) acc.
Proof.
  intros B D. destruct (bytes_eqb f g) eqn:E.
  - apply bytes_eqb_eq in E; subst g. unfold keep_step. rewrite (beq_neq _ _ B), (proj2 (smem_notin f del) D).
    rewrite (omem_oget (fuser f) acc). destruct (oget (fuser f) acc) eqn:G.
    + destruct (omem (ftime f) acc); rewrite ?oget_oset_other by apply fuser_ne_ftime; exact G.
    + match goal with |- context [if ?c then _ else _] => destruct c end;
        rewrite ?oget_oset_other by apply fuser_ne_ftime; apply oget_oset_same.
  - apply beq_false in E. apply keep_step_other; [intro H; apply fuser_inj in H; contradiction | apply fuser_ne_ftime].
Qed.
Lemma keep_step_time del o1 acc g f : f <> s_bodyid -> ~ In f del ->
  oget (ftime f) (keep_step user t del o1 acc g) =
  if bytes_eqb f g then match oget (ftime f) acc with
                        | Some x => Some x
                        | None => Some (match oget (ftime f) o1 with Some v => v | None => JStr t end) end
  else oget (ftime f) acc.
Proof.
  intros B D. assert (NE : ftime f <> fuser f) by (intro H; symmetry in H; now apply fuser_ne_ftime in H).
  destruct (bytes_eqb f g) eqn:E.
  - apply bytes_eqb_eq in E; subst g. unfold keep_step. rewrite (beq_neq _ _ B), (proj2 (smem_notin f del) D).
    destruct (omem (fuser f) acc).
    + rewrite (omem_oget (ftime f) acc). destruct (oget (ftime f) acc) eqn:G; [exact G | apply oget_oset_same].
    + rewrite (omem_oget (ftime f) (oset _ _ _)), oget_oset_other by exact NE.
      destruct (oget (ftime f) acc) eqn:G; [now rewrite oget_oset_other by exact NE | apply oget_oset_same].
  - apply beq_false in E. apply keep_step_other; [intro H; symmetry in H; now apply fuser_ne_ftime in H | intro H; apply ftime_inj in H; contradiction].
Qed.
Lemma keep_fold_target del o1 k f (dflt : json)
      (Hstep : forall acc g, oget k (keep_step user t del o1 acc g) =
                 if bytes_eqb f g then match oget k acc with Some x => Some x | None => Some dflt end else oget k acc) :
  forall L acc, oget k (fold_left (keep_step user t del o1) L acc) =
                match oget k acc with Some x => Some x | None => if smem f L then Some dflt else None end.
Proof.
  induction L as [|g r IH]; intro acc; simpl; [now destruct (oget k acc)|].
  rewrite IH, Hstep. destruct (bytes_eqb f g), (oget k acc), (smem f r); reflexivity.
Qed.

(* the value [v] the request gives to [f] differs from the stored one *)
Definition changed (o : obj) (f : bytes) (v : json) : bool :=
  match oget f o with Some ov => negb (json_eqb v ov) | None => true end.

Theorem stamps_rule o new0 f v :
  NoDup (dom o) -> NoDup (dom new0) ->
  oget f new0 = Some v -> is_null v = false ->
  is_meta f = false -> f <> s_bodyid -> f <> s_userf ->
  omem (fuser f) new0 = false -> omem (ftime f) new0 = false ->      (* stamps not set by hand *)
  (replace = true \/ smem f conds = false) ->                         (* not protected as a conditional *)
  nonempty user = true ->
  let new' := snd (updateJSON user conds replace t (Some o) new0) in
  if changed o f v
  then oget (fuser f) new' = Some (JStr user) /\ oget (ftime f) new' = Some (JStr t)
  else if replace
       then (forall u, oget (fuser f) o = Some u -> oget (fuser f) new' = Some u)
            /\ (forall u, oget (ftime f) o = Some u -> oget (ftime f) new' = Some u)
       else oget (fuser f) new' = oget (fuser f) o /\ oget (ftime f) new' = oget (ftime f) o.
Proof.
  intros NDo NDn Hf Hv M B1 B2 HU HT HC U. unfold updateJSON.
  set (del := deleted_fields new0). set (new1 := fold_left (null_step user t new0) del new0).
  cbn [option_map]. set (o1 := fold_left (fun acc d => odel d acc) del o).
  assert (NU : ~ In (fuser f) (dom new0)) by (rewrite omem_oget in HU; destruct (oget (fuser f) new0) eqn:E; [discriminate | now apply oget_none_notin]).
  assert (NT : ~ In (ftime f) (dom new0)) by (rewrite omem_oget in HT; destruct (oget (ftime f) new0) eqn:E; [discriminate | now apply oget_none_notin]).
  assert (D : ~ In f del).
  { intro H. apply (deleted_null new0 f NDn) in H. rewrite Hf in H. inversion H; subst. discriminate. }
  assert (DU : ~ In (fuser f) del) by (intro H; apply NU; now apply deleted_sub).
  assert (DT : ~ In (ftime f) del) by (intro H; apply NT; now apply deleted_sub).
  assert (F1 : oget f new1 = Some v).
  { unfold new1. rewrite null_fold_other; [exact Hf|]. intros d Hd. destruct (nonmeta_ne_stamp f d M).
    repeat split; try assumption. intro; subst; contradiction. }
  assert (U1 : oget (fuser f) new1 = None).
  { unfold new1. rewrite null_fold_other; [now apply oget_notin|]. intros d Hd. repeat split.
    - intro; subst; contradiction.
    - intro H; apply fuser_inj in H; subst; contradiction.
    - apply fuser_ne_ftime. }
  assert (T1 : oget (ftime f) new1 = None).
  { unfold new1. rewrite null_fold_other; [now apply oget_notin|]. intros d Hd. repeat split.
    - intro; subst; contradiction.
    - intro H; symmetry in H; now apply fuser_ne_ftime in H.
    - intro H; apply ftime_inj in H; subst; contradiction. }
  assert (Fo : oget f o1 = oget f o) by (unfold o1; now rewrite odel_fold_other).
  assert (Uo : oget (fuser f) o1 = oget (fuser f) o) by (unfold o1; now rewrite odel_fold_other).
  assert (To : oget (ftime f) o1 = oget (ftime f) o) by (unfold o1; now rewrite odel_fold_other).
  assert (ND1 : NoDup (dom o1)) by now apply odel_fold_nodup.
  set (P := fun f0 => negb (omem f0 o1) || is_meta f0 || negb match oget f0 new1 with
          | Some a => match oget f0 o1 with Some b => json_eqb a b | None => false end | None => false end).
  set (ns0 := filter P (dom new1)).
  assert (Pf : P f = changed o f v).
  { unfold P, changed. rewrite omem_oget, M, F1, Fo. destruct (oget f o); simpl; reflexivity. }
  assert (In0 : In f ns0 <-> changed o f v = true).
  { unfold ns0. rewrite filter_In, Pf. split; [tauto|]. intro; split; [|assumption]. eapply oget_in; eauto. }
  assert (NU0 : ~ In (fuser f) ns0) by (unfold ns0; rewrite filter_In; intros [H _]; now apply oget_none_notin in U1).
  assert (NT0 : ~ In (ftime f) ns0) by (unfold ns0; rewrite filter_In; intros [H _]; now apply oget_none_notin in T1).
  destruct replace.
  - (* replace = true *)
    cbn [snd].
    set (nf := filter (fun f0 => negb (is_meta f0)) (dom new1)).
    assert (Fnf : smem f nf = true).
    { apply smem_in. unfold nf. apply filter_In. split; [eapply oget_in; eauto | now rewrite M]. }
    rewrite (keep_fold_target del o1 (fuser f) f _ (fun acc g => keep_step_user del o1 acc g f B1 D)).
    rewrite (keep_fold_target del o1 (ftime f) f _ (fun acc g => keep_step_time del o1 acc g f B1 D)).
    rewrite (fold_step_target _ (fuser f) f (fun _ : unit => Some (JStr user)) tt
               (fun acc g => stamp_step_user del ns0 acc g f U B1 B2 D M NU0)).
    rewrite (fold_step_target _ (ftime f) f (fun _ : unit => Some (JStr t)) tt
               (fun acc g => stamp_step_time del ns0 acc g f B1 B2 D M NT0)).
    rewrite U1, T1, Fnf, Uo, To.
    destruct (changed o f v) eqn:C.
    + rewrite (proj2 (smem_in f ns0) (proj2 In0 eq_refl)). split; reflexivity.
    + assert (smem f ns0 = false) by (apply smem_notin; rewrite In0; congruence). rewrite H.
      split; intros u Hu; now rewrite Hu.
  - (* replace = false *)
    destruct HC as [HC|HC]; [discriminate|].
    destruct (fold_left (carry_step conds new1) o1 (new1, ns0)) as [new2 ns] eqn:E. cbn [snd].
    assert (E1 : new2 = fst (fold_left (carry_step conds new1) o1 (new1, ns0))) by now rewrite E.
    assert (E2 : ns = snd (fold_left (carry_step conds new1) o1 (new1, ns0))) by now rewrite E.
    assert (U2 : oget (fuser f) new2 = oget (fuser f) o).
    { rewrite E1, carry_fold_get by (try exact ND1; now rewrite omem_oget, U1). rewrite Uo, U1. now destruct (oget (fuser f) o). }
    assert (T2 : oget (ftime f) new2 = oget (ftime f) o).
    { rewrite E1, carry_fold_get by (try exact ND1; now rewrite omem_oget, T1). rewrite To, T1. now destruct (oget (ftime f) o). }
    assert (NUn : ~ In (fuser f) ns) by (rewrite E2; intro H; now apply carry_fold_ns_sub in H).
    assert (NTn : ~ In (ftime f) ns) by (rewrite E2; intro H; now apply carry_fold_ns_sub in H).
    assert (Inn : In f ns <-> changed o f v = true).
    { rewrite <- In0, E2. split; [apply carry_fold_ns_sub | now apply carry_fold_ns_keep]. }
    rewrite (fold_step_target _ (fuser f) f (fun _ : unit => Some (JStr user)) tt
               (fun acc g => stamp_step_user del ns acc g f U B1 B2 D M NUn)).
    rewrite (fold_step_target _ (ftime f) f (fun _ : unit => Some (JStr t)) tt
               (fun acc g => stamp_step_time del ns acc g f B1 B2 D M NTn)).
    destruct (changed o f v) eqn:C.
    + rewrite (proj2 (smem_in f ns) (proj2 Inn eq_refl)). split; reflexivity.
    + assert (smem f ns = false) by (apply smem_notin; rewrite Inn; congruence). rewrite H. now split.
Qed.
End Upd.

(* ---------- json_eqb decides equality of values ---------- *)
Section JsonInd.
Variable P : json -> Prop.
Hypotheses (Hn : P JNull) (Hb : forall b, P (JBool b)) (Hz : forall z, P (JNum z))
           (Hf : forall x, P (JFlt x)) (Hs : forall s, P (JStr s))
           (Ha : forall l, Forall P l -> P (JArr l))
           (Ho : forall kv, Forall (fun p => P (snd p)) kv -> P (JObj kv)).
Fixpoint json_ind' (j : json) : P j :=
  match j with
  | JNull => Hn
  | JBool b => Hb b
  | JNum z => Hz z
  | JFlt x => Hf x
  | JStr s => Hs s
  | JArr l => Ha l ((fix go (l : list json) : Forall P l :=
                       match l with
                       | [] => Forall_nil _
                       | x :: r => Forall_cons x (json_ind' x) (go r)
                       end) l)
  | JObj kv => Ho kv ((fix go (kv : list (bytes * json)) : Forall (fun p => P (snd p)) kv :=
                         match kv with
                         | [] => Forall_nil _
                         | (k, v) :: r => Forall_cons (k, v) (json_ind' v) (go r)
                         end) kv)
  end.
End JsonInd.

Lemma json_eqb_eq : forall a b, json_eqb a b = true <-> a = b.
Proof.
  induction a using json_ind'; intro c; destruct c; simpl; try (split; [discriminate | intro X; inversion X]); try tauto.
  - rewrite Bool.eqb_true_iff. split; [congruence | intro X; now inversion X].
  - rewrite Z.eqb_eq. split; [congruence | intro X; now inversion X].
  - rewrite N.eqb_eq. split; [congruence | intro X; now inversion X].
  - rewrite bytes_eqb_eq. split; [congruence | intro X; now inversion X].
  - revert l0. induction H as [|x r Hx _ IH]; intros [|y l0]; try (split; [discriminate | intro X; inversion X]); try tauto.
    rewrite andb_true_iff, Hx, IH. split; [intros [-> X]; now inversion X | intro X; inversion X; auto].
  - revert kv0. induction H as [|[k x] r Hx _ IH]; intros [|[k' y] kv0]; try (split; [discriminate | intro X; inversion X]); try tauto.
    simpl in Hx. rewrite !andb_true_iff, bytes_eqb_eq, Hx, IH.
    split; [intros [[-> ->] X]; now inversion X | intro X; inversion X; auto].
Qed.
