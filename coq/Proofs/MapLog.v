(* Proofs.MapLog: replaying the mutation log rebuilds the live mapping; the split record list is
   rebuilt exactly iff each supervoxel split is logged once. *)
From DV Require Import Base.Prelude Model.Persist Model.MapLog Proofs.Persist.
Local Open Scope N_scope.

Definition map_eq (a b : mapst) : Prop := forall k, aget k (mp_map a) = aget k (mp_map b).

Lemma set_map_get s sv l k : aget k (mp_map (set_map s sv l)) = if k =? sv then Some l else aget k (mp_map s).
Proof.
  cbn. destruct (k =? sv) eqn:E.
  - apply N.eqb_eq in E; subst. apply aget_aset_eq.
  - apply N.eqb_neq in E. now apply aget_aset_neq.
Qed.

Lemma set_map_splits s sv l : mp_splits (set_map s sv l) = mp_splits s.
Proof. reflexivity. Qed.

Lemma set_maps_get svs : forall s l k,
  aget k (mp_map (set_maps s svs l)) = if existsb (N.eqb k) svs then Some l else aget k (mp_map s).
Proof.
  induction svs as [|x r IH]; intros s l k; [reflexivity|].
  unfold set_maps in *. cbn [fold_left existsb]. rewrite IH. rewrite set_map_get.
  destruct (existsb (N.eqb k) r); [now rewrite orb_true_r|]. rewrite orb_false_r. reflexivity.
Qed.

Lemma set_maps_splits svs : forall s l, mp_splits (set_maps s svs l) = mp_splits s.
Proof. induction svs as [|x r IH]; intros s l; [reflexivity|]. unfold set_maps in *. cbn [fold_left]. now rewrite IH. Qed.

Lemma mapped_eq a b sv : map_eq a b -> mapped a sv = mapped b sv.
Proof. intro H. unfold mapped. now rewrite H. Qed.

(* congruence of replay with respect to the lookup function *)
Lemma replay1_cong a b r : map_eq a b -> mp_splits a = mp_splits b ->
  map_eq (replay1 a r) (replay1 b r) /\ mp_splits (replay1 a r) = mp_splits (replay1 b r).
Proof.
  intros Hm Hs. destruct r; cbn [replay1].
  - split; [intro k; rewrite !set_maps_get, Hm; reflexivity | now rewrite !set_maps_splits].
  - split; [intro k; rewrite !set_map_get; cbn; now rewrite Hm | cbn; now rewrite Hs].
  - revert a b Hm Hs. induction svsplits as [|[[sv rm] sp] rest IH]; intros a b Hm Hs; [auto|].
    cbn [fold_left]. apply IH.
    + intro k. rewrite !set_map_get. cbn. now rewrite Hm.
    + cbn. now rewrite Hs.
  - split; [intro k; rewrite !set_map_get; now rewrite Hm | cbn; exact Hs].
  - auto.
Qed.

Lemma replay_cong rs : forall a b, map_eq a b -> mp_splits a = mp_splits b ->
  map_eq (replay a rs) (replay b rs) /\ mp_splits (replay a rs) = mp_splits (replay b rs).
Proof.
  induction rs as [|r rs IH]; intros a b Hm Hs; [auto|].
  unfold replay in *. cbn [fold_left]. destruct (replay1_cong a b r Hm Hs). now apply IH.
Qed.

Lemma replay_app a r1 r2 : replay a (r1 ++ r2) = replay (replay a r1) r2.
Proof. unfold replay. apply fold_left_app. Qed.

(* one operation: replaying its records on an equivalent state gives its live effect *)
Lemma replay_records twice t s o : map_eq t s -> op_ok o = true ->
  map_eq (replay t (records twice s o)) (live s o) /\
  (mp_splits t = mp_splits s -> twice = false -> mp_splits (replay t (records twice s o)) = mp_splits (live s o)).
Proof.
  intros Hm Hok. destruct o; cbn [op_ok] in Hok; try discriminate.
  - (* merge *)
    cbn [records live]. destruct svs as [|x r].
    + cbn. split; [exact Hm|auto].
    + unfold replay. cbn [fold_left replay1]. split.
      * intro k. rewrite !set_maps_get, Hm. reflexivity.
      * intros Hs _. now rewrite !set_maps_splits.
  - (* cleave *)
    cbn [records live]. destruct svs as [|x r].
    + discriminate.
    + unfold replay. cbn [fold_left replay1]. split.
      * intro k. rewrite !set_map_get, !set_maps_get, Hm. reflexivity.
      * intros Hs _. rewrite !set_map_splits, !set_maps_splits. exact Hs.
  - (* supervoxel split *)
    apply andb_true_iff in Hok as [H1 H2]. apply negb_true_iff in H1, H2. apply N.eqb_neq in H1, H2.
    cbn [records live]. rewrite replay_app. unfold replay at 2. cbn [fold_left replay1].
    split.
    + assert (Hbase : map_eq (set_maps (set_maps (set_map (add_split t (mutid, sv, remain, split)) sv 0) [sv] 0) [split; remain] (mapped s sv))
                             (add_split (set_map (set_map (set_map s split (mapped s sv)) remain (mapped s sv)) sv 0) (mutid, sv, remain, split))).
      { intro k. rewrite !set_maps_get. cbn [existsb add_split mp_map]. rewrite !set_map_get. cbn [add_split mp_map].
        rewrite Hm.
        destruct (k =? split) eqn:E1; destruct (k =? remain) eqn:E2; destruct (k =? sv) eqn:E3; cbn; try reflexivity;
          try apply N.eqb_eq in E1; try apply N.eqb_eq in E2; try apply N.eqb_eq in E3; subst; congruence. }
      destruct twice; cbn [replay fold_left replay1 app].
      * intro k. unfold replay. cbn [fold_left replay1]. rewrite set_map_get. cbn [add_split mp_map].
        rewrite Hbase. cbn [add_split mp_map]. rewrite set_map_get.
        destruct (k =? sv); reflexivity.
      * exact Hbase.
    + intros Hs Htw. subst twice. cbn [replay fold_left replay1 app].
      rewrite !set_maps_splits. cbn. now rewrite Hs.
Qed.

Lemma run_replay twice ops : forall s t, map_eq t s -> forallb op_ok ops = true ->
  map_eq (replay t (snd (run_ops twice s ops))) (fst (run_ops twice s ops)) /\
  (mp_splits t = mp_splits s -> twice = false ->
   mp_splits (replay t (snd (run_ops twice s ops))) = mp_splits (fst (run_ops twice s ops))).
Proof.
  induction ops as [|o r IH]; intros s t Hm Hok; [cbn; auto|].
  cbn [forallb] in Hok. apply andb_true_iff in Hok as [Ho Hr].
  cbn [run_ops]. destruct (run_ops twice (live s o) r) as [s' lg] eqn:Er. cbn [fst snd].
  rewrite replay_app.
  destruct (replay_records twice t s o Hm Ho) as [Hm1 Hs1].
  specialize (IH (live s o) (replay t (records twice s o)) Hm1 Hr). rewrite Er in IH. cbn [fst snd] in IH.
  destruct IH as [IHm IHs]. split; [exact IHm|].
  intros Hs Htw. apply IHs; auto.
Qed.

(* restart_refines for the label mapping of a version, logger that records each split once *)
Lemma maplog_replay_fixed ops : forallb op_ok ops = true ->
  map_eq (replay mp_empty (snd (run_ops false mp_empty ops))) (fst (run_ops false mp_empty ops)) /\
  mp_splits (replay mp_empty (snd (run_ops false mp_empty ops))) = mp_splits (fst (run_ops false mp_empty ops)).
Proof.
  intro H. destruct (run_replay false ops mp_empty mp_empty (fun k => eq_refl) H) as [A B]. split; auto.
Qed.

(* as the code stands: the mapping function is rebuilt, the split record list is not *)
Lemma maplog_replay_mapping ops : forallb op_ok ops = true ->
  map_eq (replay mp_empty (snd (run_ops true mp_empty ops))) (fst (run_ops true mp_empty ops)).
Proof. intro H. now destruct (run_replay true ops mp_empty mp_empty (fun k => eq_refl) H). Qed.

Lemma maplog_replay_refuted :
  let ops := [OMerge 5 10 [11; 12]; OSvSplit 7 11 21 22] in
  forallb op_ok ops = true /\
  mp_splits (fst (run_ops true mp_empty ops)) = [(7, 11, 21, 22)] /\
  mp_splits (replay mp_empty (snd (run_ops true mp_empty ops))) = [(7, 11, 21, 22); (7, 11, 21, 22)].
Proof. vm_compute. repeat split. Qed.
