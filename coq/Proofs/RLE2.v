(* Proofs.RLE2: RLEs.Within / Offset / Stats at the level of voxel sets (C18, round 4). *)
From DV Require Import Base.Prelude Base.Int Base.WrapZ Model.Geometry Model.RLE Model.RLE2.
From DV Require Import Proofs.Geometry Proofs.RLE.
From Coq Require Import ZifyBool ZifyN ZifyNat Sorting.Sorted Sorting.Permutation FinFun.
Ltac Zify.zify_post_hook ::= Z.div_mod_to_equations.
Local Open Scope Z_scope.

(* ---- Within ---- *)
Lemma rle_within_inr r p : run_ok r -> rle_within r p = inr p r.
Proof.
  intros H. unfold rle_within, inr. destruct r as [x0 y0 z0 n0]; destruct p as [[a b] c].
  unfold run_ok in H; unfold px, py, pz; cbn [rx ry rz rlen fst snd] in *.
  unw.
  destruct (c =? z0) eqn:E1, (b =? y0) eqn:E2, (a <? x0) eqn:E3, (x0 + n0 <=? a) eqn:E4,
           (x0 <=? a) eqn:E5, (a <? x0 + n0) eqn:E6; cbn; try reflexivity; lia.
Qed.

Lemma within_any l p : Forall run_ok l -> existsb (fun r => rle_within r p) l = inrs p l.
Proof.
  induction 1 as [|r t Hr Ht IH]; [reflexivity|].
  cbn [existsb]. rewrite inrs_cons, IH, rle_within_inr by assumption. reflexivity.
Qed.

Lemma within_from_ge l pts : forall i k, In k (within_from i l pts) -> (i <= k)%nat.
Proof.
  induction pts as [|p t IH]; intros i k H; cbn [within_from] in H; [contradiction|].
  destruct (existsb _ l).
  - destruct H as [<-|H]; [lia|]. apply IH in H. lia.
  - apply IH in H. lia.
Qed.

Lemma within_from_spec l pts : Forall run_ok l -> forall i k,
  In k (within_from i l pts) <->
  (i <= k)%nat /\ exists p, nth_error pts (k - i) = Some p /\ inrs p l = true.
Proof.
  intros Hl. induction pts as [|p t IH]; intros i k; cbn [within_from].
  - split; [contradiction|]. intros [_ [q [H _]]]. destruct (k - i)%nat; discriminate.
  - assert (Step : In k (within_from (S i) l t) <->
                   (S i <= k)%nat /\ exists q, nth_error (p :: t) (k - i) = Some q /\ inrs q l = true).
    { rewrite IH. split; intros [Hk [q [Hn Hq]]]; (split; [exact Hk|]); exists q; (split; [|exact Hq]).
      - replace (k - i)%nat with (S (k - S i)) by lia. exact Hn.
      - replace (k - i)%nat with (S (k - S i)) in Hn by lia. exact Hn. }
    rewrite within_any by assumption. destruct (inrs p l) eqn:Hp.
    + cbn [In]. rewrite Step. split.
      * intros [<-|[Hk H]]; [|split; [lia|exact H]].
        split; [lia|]. exists p. rewrite Nat.sub_diag. split; [reflexivity|exact Hp].
      * intros [Hk [q [Hn Hq]]]. destruct (Nat.eq_dec i k) as [->|Ne]; [left; reflexivity|].
        right. split; [lia|]. exists q. split; assumption.
    + rewrite Step. split.
      * intros [Hk H]. split; [lia|exact H].
      * intros [Hk [q [Hn Hq]]]. destruct (Nat.eq_dec i k) as [->|Ne].
        { rewrite Nat.sub_diag in Hn. cbn in Hn. injection Hn as <-. congruence. }
        split; [lia|]. exists q. split; assumption.
Qed.

Lemma within_from_nodup l pts : forall i, NoDup (within_from i l pts).
Proof.
  induction pts as [|p t IH]; intros i; cbn [within_from]; [constructor|].
  destruct (existsb _ l); [|apply IH].
  constructor; [|apply IH]. intro H. apply within_from_ge in H. lia.
Qed.

(* the indices returned are exactly the positions of the points that lie in the voxel set *)
Lemma within_ok l pts : Forall run_ok l ->
  NoDup (within l pts) /\
  forall k, In k (within l pts) <-> exists p, nth_error pts k = Some p /\ inrs p l = true.
Proof.
  intros Hl. split; [apply within_from_nodup|]. intro k. unfold within.
  rewrite within_from_spec by assumption. rewrite Nat.sub_0_r. split.
  - intros [_ H]; exact H.
  - intro H. split; [lia|exact H].
Qed.

(* ---- Offset ---- *)
Lemma offset_run_inr d r p : run_ok r -> pt_safe d -> inr p (offset_run d r) = inr (padd3 p d) r.
Proof.
  intros H Hd. unfold offset_run, inr, padd3. destruct r as [x0 y0 z0 n0]; destruct p as [[a b] c]; destruct d as [[da db] dc].
  unfold run_ok in H; unfold pt_safe, px, py, pz in *; cbn [rx ry rz rlen fst snd] in *.
  unw. cbn [rx ry rz rlen]. lia.
Qed.

Lemma offset_ok l d p : Forall run_ok l -> pt_safe d -> inrs p (offset l d) = inrs (padd3 p d) l.
Proof.
  intros Hl Hd. induction Hl as [|r t Hr Ht IH]; [reflexivity|].
  unfold offset in *. cbn [map]. rewrite !inrs_cons, IH, offset_run_inr by assumption. reflexivity.
Qed.

Lemma offset_shape l d : length (offset l d) = length l /\ map rlen (offset l d) = map rlen l.
Proof.
  unfold offset. split; [apply map_length|]. rewrite map_map. reflexivity.
Qed.

(* ---- Stats ---- *)
Lemma num_voxels_bound l : Forall run_ok l -> 0 <= num_voxels l <= 1073741824 * Z.of_nat (length l).
Proof.
  induction 1 as [|r t Hr Ht IH]; [cbn; lia|].
  rewrite num_voxels_cons. cbn [length]. unfold run_ok in Hr. lia.
Qed.

Lemma stats_fold l : Forall run_ok l -> forall acc, 0 <= acc -> acc + num_voxels l < 18446744073709551616 ->
  fold_left (fun acc r => wU 64 (acc + wU 64 (rlen r))) l acc = acc + num_voxels l.
Proof.
  induction 1 as [|r t Hr Ht IH]; intros acc Ha Hb; [cbn; lia|].
  cbn [fold_left]. rewrite num_voxels_cons in *. pose proof (num_voxels_bound t Ht) as Hn.
  unfold run_ok in Hr.
  assert (E : wU 64 (acc + wU 64 (rlen r)) = acc + rlen r).
  { rewrite !wU64_eq. rewrite (Z.mod_small (rlen r)) by lia. apply Z.mod_small. lia. }
  rewrite E. rewrite IH by lia. lia.
Qed.

Lemma stats_ok l : Forall run_ok l -> Z.of_nat (length l) < 2147483648 ->
  stats l = (num_voxels l, Z.of_nat (length l)).
Proof.
  intros Hl Hlen. destruct l as [|r t]; [reflexivity|].
  unfold stats. pose proof (num_voxels_bound _ Hl) as Hn.
  rewrite stats_fold by (try assumption; lia).
  rewrite w32_id by (unfold is32; change (2 ^ 31) with 2147483648; lia). reflexivity.
Qed.

(* the voxel set written out: num_voxels is its cardinality when the runs are pairwise disjoint *)
Lemma in_run_voxels r p : 0 <= rlen r -> (In p (run_voxels r) <-> inr p r = true).
Proof.
  intros Hn. unfold run_voxels. rewrite in_map_iff. unfold inr. destruct r as [x0 y0 z0 n0]; destruct p as [[a b] c].
  unfold px, py, pz; cbn [rx ry rz rlen fst snd] in *. split.
  - intros [i [E Hi]]. apply in_seq in Hi. injection E as <- <- <-. lia.
  - intros H. exists (Z.to_nat (a - x0)). split; [|apply in_seq; lia].
    f_equal; [f_equal|]; lia.
Qed.

Lemma in_voxels_of l p : Forall run_ok l -> (In p (voxels_of l) <-> inrs p l = true).
Proof.
  intros Hl. unfold voxels_of. rewrite in_flat_map. split.
  - intros [r [Hr Hp]]. rewrite Forall_forall in Hl. apply in_run_voxels in Hp; [|specialize (Hl r Hr); unfold run_ok in Hl; lia].
    unfold inrs. apply existsb_exists. exists r. split; assumption.
  - intros H. apply inrs_true in H. destruct H as [r [Hr Hp]]. exists r. split; [exact Hr|].
    rewrite Forall_forall in Hl. apply in_run_voxels; [specialize (Hl r Hr); unfold run_ok in Hl; lia|exact Hp].
Qed.

Lemma nodup_app {A} (a b : list A) : NoDup a -> NoDup b -> (forall x, In x a -> ~ In x b) -> NoDup (a ++ b).
Proof.
  induction 1 as [|x a Hx Ha IH]; intros Hb Hd; [exact Hb|].
  cbn. constructor.
  - rewrite in_app_iff. intros [H|H]; [contradiction|]. apply (Hd x); [left; reflexivity|exact H].
  - apply IH; [exact Hb|]. intros y Hy. apply Hd. right. exact Hy.
Qed.

Lemma run_voxels_nodup r : NoDup (run_voxels r).
Proof.
  unfold run_voxels. apply Injective_map_NoDup; [|apply seq_NoDup].
  intros i j E. injection E as E. lia.
Qed.

Lemma voxels_of_nodup l : Forall run_ok l -> pairwise_disjoint l -> NoDup (voxels_of l).
Proof.
  intros Hl Hd. induction Hd as [|r t Hr Ht IH]; [constructor|].
  inversion Hl as [|? ? Hr0 Ht0]; subst.
  unfold voxels_of. cbn [flat_map]. apply nodup_app; [apply run_voxels_nodup|apply IH; assumption|].
  intros p Hp Hq. apply in_run_voxels in Hp; [|unfold run_ok in Hr0; lia].
  change (In p (voxels_of t)) in Hq. apply in_voxels_of in Hq; [|assumption].
  apply inrs_true in Hq. destruct Hq as [s [Hs Hps]].
  rewrite Forall_forall in Hr. exact (Hr s Hs p Hp Hps).
Qed.

Lemma voxels_of_length l : Forall run_ok l -> Z.of_nat (length (voxels_of l)) = num_voxels l.
Proof.
  induction 1 as [|r t Hr Ht IH]; [reflexivity|].
  unfold voxels_of in *. cbn [flat_map]. rewrite app_length, num_voxels_cons, Nat2Z.inj_add, IH.
  unfold run_voxels. rewrite map_length, seq_length. unfold run_ok in Hr. lia.
Qed.

(* Stats: number of voxels of the set, number of runs *)
Lemma stats_voxels l : Forall run_ok l -> pairwise_disjoint l -> Z.of_nat (length l) < 2147483648 ->
  exists vs, NoDup vs /\ (forall p, In p vs <-> inrs p l = true)
             /\ stats l = (Z.of_nat (length vs), Z.of_nat (length l)).
Proof.
  intros Hl Hd Hn. exists (voxels_of l). split; [apply voxels_of_nodup; assumption|].
  split; [intro p; apply in_voxels_of; assumption|].
  rewrite voxels_of_length by assumption. apply stats_ok; assumption.
Qed.

