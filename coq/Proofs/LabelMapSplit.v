(* Proofs.LabelMapSplit: the body split step (Model.LabelMap.f_split: mutate.go SplitLabels,
   labelidx.go splitIndex, compressed.go SplitStats / relabelling).
   Scan lemmas: what relabel_split does to the per-supervoxel voxel counts of a block, that
   block_splits / under_mask list exactly the masked counts, the pointwise reading of split_index,
   voxel conservation of the split, and Inv-preservation of the step under [split_guard]. *)
From DV Require Import Base.Prelude Model.Index Model.LabelMap Proofs.Index Proofs.LabelMapCore.
From Coq Require Import ZifyN ZifyNat ZifyBool.
Local Open Scope N_scope.

(* ---------- sums over the split map ---------- *)
Definition smsum (sm : list (N * (N * N))) (g : N -> N -> N -> N) : N :=
  fold_right (fun e acc => g (fst e) (fst (snd e)) (snd (snd e)) + acc) 0 sm.

Lemma smsum_ext sm g g' :
  (forall s sp re, In (s, (sp, re)) sm -> g s sp re = g' s sp re) -> smsum sm g = smsum sm g'.
Proof.
  induction sm as [|[s [sp re]] r IH]; intro H; simpl; [reflexivity|].
  rewrite (H s sp re) by now left. rewrite IH; [reflexivity|]. intros; apply H; now right.
Qed.

Lemma smsum_add sm g g' :
  smsum sm (fun s sp re => g s sp re + g' s sp re) = smsum sm g + smsum sm g'.
Proof. induction sm as [|[s [sp re]] r IH]; simpl; [reflexivity|]. rewrite IH. lia. Qed.

Lemma smsum_zero sm g : (forall s sp re, In (s, (sp, re)) sm -> g s sp re = 0) -> smsum sm g = 0.
Proof.
  induction sm as [|[s [sp re]] r IH]; intro H; simpl; [reflexivity|].
  rewrite (H s sp re) by now left. rewrite IH; [reflexivity|]. intros; apply H; now right.
Qed.

Lemma aget_none_notin {V} l (m : list (N * V)) : aget N.eqb l m = None -> forall v, ~ In (l, v) m.
Proof.
  induction m as [|[k v'] r IH]; simpl; intros H v; [tauto|].
  destruct (l =? k) eqn:E; [discriminate|]. intros [X|X].
  - inversion X; subst. now rewrite N.eqb_refl in E.
  - now apply (IH H v).
Qed.

(* only the entry of [l] contributes *)
Lemma smsum_single sm l g : NoDup (map fst sm) ->
  smsum sm (fun s sp re => if l =? s then g s sp re else 0) =
  match aget N.eqb l sm with Some (sp, re) => g l sp re | None => 0 end.
Proof.
  induction sm as [|[s [sp re]] r IH]; intro ND; simpl; [reflexivity|].
  inversion ND as [|? ? Hn ND']; subst. destruct (l =? s) eqn:E.
  - apply N.eqb_eq in E; subst s. rewrite smsum_zero; [lia|].
    intros s' sp' re' Hin. destruct (l =? s') eqn:E'; [|reflexivity].
    apply N.eqb_eq in E'; subst s'. exfalso. apply Hn. apply in_map_iff. now exists (l, (sp', re')).
  - rewrite (IH ND'). lia.
Qed.

Lemma aget_in_nodup {V} l (v : V) (m : list (N * V)) : NoDup (map fst m) -> In (l, v) m -> aget N.eqb l m = Some v.
Proof.
  induction m as [|[k v'] r IH]; simpl; intros ND H; [tauto|].
  inversion ND as [|? ? Hn ND']; subst. destruct H as [H|H].
  - inversion H; subst. now rewrite N.eqb_refl.
  - destruct (l =? k) eqn:E; [|now apply IH].
    apply N.eqb_eq in E; subst k. exfalso. apply Hn. apply in_map_iff. now exists (l, v).
Qed.

Lemma aget_some_in {V} l (v : V) (m : list (N * V)) : aget N.eqb l m = Some v -> In (l, v) m.
Proof.
  induction m as [|[k v'] r IH]; simpl; [discriminate|].
  destruct (l =? k) eqn:E; intro H.
  - apply N.eqb_eq in E; subst. inversion H; subst. now left.
  - right. now apply IH.
Qed.

(* ---------- (b) the relabelled block: voxel counts per label ---------- *)
Definition b2n (b : bool) : N := if b then 1 else 0.

Lemma occ_cons' l r s : occ (l :: r) s = b2n (l =? s) + occ r s.
Proof. rewrite occ_cons. unfold b2n. destruct (l =? s); lia. Qed.

Definition mhd (mask : list bool) : bool := match mask with b :: _ => b | [] => false end.
Definition mtl (mask : list bool) : list bool := match mask with _ :: t => t | [] => [] end.

Lemma cm_cons l r mask s :
  count_masked (l :: r) mask s = b2n ((l =? s) && mhd mask) + count_masked r (mtl mask) s.
Proof. reflexivity. Qed.

Lemma cm_nil_mask arr : forall s, count_masked arr [] s = 0.
Proof. induction arr as [|l r IH]; intro s; cbn [count_masked]; [reflexivity|]. rewrite IH, andb_false_r. reflexivity. Qed.

(* per label x: voxels that keep x (x is not split) + for every split supervoxel s, its voxels
   under the mask if x is s's split label, its voxels outside the mask if x is its remain label *)
Definition relabel_count (sm : list (N * (N * N))) (arr : list N) (mask : list bool) (x : N) : N :=
  (if ahas N.eqb x sm then 0 else occ arr x) +
  smsum sm (fun s sp re => (if x =? sp then count_masked arr mask s else 0) +
                           (if x =? re then occ arr s - count_masked arr mask s else 0)).

Definition rsum (sm : list (N * (N * N))) (arr : list N) (mask : list bool) (x : N) : N :=
  smsum sm (fun s sp re => (if x =? sp then count_masked arr mask s else 0) +
                           (if x =? re then occ arr s - count_masked arr mask s else 0)).

Lemma rsum_cons sm l r mask x : NoDup (map fst sm) ->
  rsum sm (l :: r) mask x =
  rsum sm r (mtl mask) x +
  match aget N.eqb l sm with Some (sp, re) => if mhd mask then b2n (x =? sp) else b2n (x =? re) | None => 0 end.
Proof.
  intro ND. unfold rsum.
  set (h := fun (s sp re : N) => if mhd mask then b2n (x =? sp) else b2n (x =? re)).
  pose proof (smsum_single sm l h ND) as Hs. unfold h in Hs. cbv beta in Hs.
  rewrite <- Hs, <- smsum_add. apply smsum_ext.
  intros s sp re _. rewrite cm_cons, occ_cons'.
  pose proof (count_masked_le r (mtl mask) s).
  destruct (l =? s); cbn [andb b2n]; destruct (mhd mask); cbn [b2n];
    destruct (x =? sp); destruct (x =? re); cbn [b2n]; lia.
Qed.

Theorem occ_relabel_split sm : NoDup (map fst sm) -> forall arr mask x,
  occ (relabel_split arr mask sm) x = relabel_count sm arr mask x.
Proof.
  intros ND. induction arr as [|l r IH]; intros mask x.
  - unfold relabel_count. cbn [relabel_split count_masked]. rewrite !occ_nil.
    rewrite smsum_zero; [now destruct (ahas N.eqb x sm)|]. intros s sp re _. rewrite occ_nil.
    now destruct (x =? sp), (x =? re).
  - cbn [relabel_split]. fold (mhd mask) (mtl mask). rewrite occ_cons', (IH (mtl mask) x).
    unfold relabel_count. fold (rsum sm r (mtl mask) x) (rsum sm (l :: r) mask x).
    rewrite (rsum_cons sm l r mask x ND), occ_cons'.
    destruct (aget N.eqb l sm) as [[sp re]|] eqn:A.
    + assert (forall y, (if ahas N.eqb x sm then 0 else b2n (l =? x) + y) = if ahas N.eqb x sm then 0 else y) as Hb.
      { intro y. destruct (ahas N.eqb x sm) eqn:Hx; [reflexivity|]. destruct (l =? x) eqn:E; [|reflexivity].
        apply N.eqb_eq in E; subst x. unfold ahas in Hx. rewrite A in Hx. discriminate. }
      rewrite Hb. rewrite (N.eqb_sym x sp), (N.eqb_sym x re). destruct (mhd mask); lia.
    + destruct (ahas N.eqb x sm) eqn:Hx.
      * destruct (l =? x) eqn:E; [|cbn [b2n]; lia]. apply N.eqb_eq in E; subst x. unfold ahas in Hx. rewrite A in Hx. discriminate.
      * lia.
Qed.

(* a block that holds no split supervoxel is left as it is *)
Lemma relabel_split_id sm arr : forall mask,
  (forall l, In l arr -> aget N.eqb l sm = None) -> relabel_split arr mask sm = arr.
Proof.
  induction arr as [|l r IH]; intros mask H; cbn [relabel_split]; [reflexivity|].
  rewrite (H l) by now left. f_equal. apply IH. intros; apply H; now right.
Qed.

(* ---------- SplitStats: under_mask lists exactly the masked counts ---------- *)
Definition cmz (arr : list N) (mask : list bool) (s : N) : N := if s =? 0 then 0 else count_masked arr mask s.

Lemma under_mask_spec arr : forall mask acc s,
  aget N.eqb s (under_mask arr mask acc) =
  match aget N.eqb s acc with
  | Some z => Some (z + Z.of_N (cmz arr mask s))%Z
  | None => if cmz arr mask s =? 0 then None else Some (Z.of_N (cmz arr mask s))
  end.
Proof.
  induction arr as [|l r IH]; intros mask acc s.
  - unfold cmz. cbn [under_mask count_masked]. destruct (s =? 0); destruct (aget N.eqb s acc); try reflexivity; f_equal; lia.
  - destruct mask as [|m t].
    + cbn [under_mask]. unfold cmz. rewrite cm_nil_mask. destruct (s =? 0); destruct (aget N.eqb s acc); try reflexivity; f_equal; lia.
    + cbn [under_mask]. rewrite IH. unfold cmz. cbn [count_masked].
      destruct (m && negb (l =? 0)) eqn:Em.
      * apply andb_true_iff in Em as [-> Hl]. apply negb_true_iff in Hl. rewrite aget_aset_N.
        destruct (s =? l) eqn:E.
        -- apply N.eqb_eq in E; subst l. rewrite Hl, N.eqb_refl. cbn [andb]. unfold zget.
           destruct (aget N.eqb s acc); [f_equal; lia|].
           destruct (1 + count_masked r t s =? 0) eqn:Z; [apply N.eqb_eq in Z; lia|].
           apply f_equal. rewrite N2Z.inj_add. change (Z.of_N 1) with 1%Z. lia.
        -- rewrite (N.eqb_sym l s), E. cbn [andb]. destruct (s =? 0); reflexivity.
      * destruct (s =? 0) eqn:E0; [reflexivity|].
        assert ((l =? s) && m = false) as ->.
        { destruct m; [|apply andb_false_r]. cbn [andb] in Em. apply negb_false_iff, N.eqb_eq in Em. subst l.
          rewrite N.eqb_sym, E0. reflexivity. }
        reflexivity.
Qed.

Lemma aget_key_app {V} k (l1 l2 : list (key * V)) :
  aget key_eqb k (l1 ++ l2) = match aget key_eqb k l1 with Some v => Some v | None => aget key_eqb k l2 end.
Proof. induction l1 as [|[k' v] r IH]; simpl; [reflexivity|]. destruct (key_eqb k k'); [reflexivity | apply IH]. Qed.

Lemma aget_key_map_block {V} b0 (f : N -> Z -> V) (l : list (N * Z)) b s :
  aget key_eqb (b, s) (map (fun sz => ((b0, fst sz), f (fst sz) (snd sz))) l) =
  if b =? b0 then match aget N.eqb s l with Some z => Some (f s z) | None => None end else None.
Proof.
  destruct (b =? b0) eqn:Eb.
  - induction l as [|[s' z] r IH]; simpl; [reflexivity|].
    unfold key_eqb at 1; simpl. rewrite Eb. cbn [andb].
    destruct (s =? s') eqn:Es; [apply N.eqb_eq in Es; now subst | exact IH].
  - induction l as [|[s' z] r IH]; simpl; [reflexivity|].
    unfold key_eqb at 1; simpl. rewrite Eb. cbn [andb]. exact IH.
Qed.

Definition spl_of (sm : list (N * (N * N))) (s : N) : N := match aget N.eqb s sm with Some p => fst p | None => 0 end.

(* blockSplits: (block, supervoxel) -> (split label, voxels of the supervoxel under the block's mask) *)
Definition nsplit (bs : list (key * (N * N))) (b s : N) : N :=
  match aget key_eqb (b, s) bs with Some (_, n) => n | None => 0 end.

Lemma block_splits_fold vx sm : forall masks acc bs,
  NoDup (map fst masks) ->
  fold_left (fun acc bm =>
     match acc, aget N.eqb (fst bm) vx with
     | Some l, Some arr =>
       Some (l ++ map (fun sz => ((fst bm, fst sz),
                                  (match aget N.eqb (fst sz) sm with Some p => fst p | None => 0 end,
                                   Z.to_N (snd sz)))) (under_mask arr (snd bm) []))
     | _, _ => None
     end) masks acc = Some bs ->
  exists acc0, acc = Some acc0 /\
  (forall b m, In (b, m) masks -> exists arr, aget N.eqb b vx = Some arr) /\
  forall b s, aget key_eqb (b, s) bs =
    match aget key_eqb (b, s) acc0 with
    | Some v => Some v
    | None => match aget N.eqb b masks, aget N.eqb b vx with
              | Some m, Some arr => if cmz arr m s =? 0 then None else Some (spl_of sm s, cmz arr m s)
              | _, _ => None
              end
    end.
Proof.
  induction masks as [|[b0 m0] r IH]; intros acc bs ND H; cbn [fold_left] in H.
  - exists bs. split; [exact H|]. split; [intros b m []|]. intros b s. cbn [aget]. now destruct (aget key_eqb (b, s) bs).
  - inversion ND as [|? ? Hn ND']; subst.
    destruct (IH _ _ ND' H) as (acc1 & E1 & Hex & Hget). cbn [fst snd] in E1.
    destruct acc as [acc0|]; [|discriminate]. destruct (aget N.eqb b0 vx) as [arr0|] eqn:A0; [|discriminate].
    inversion E1; subst acc1. clear E1. exists acc0. split; [reflexivity|]. split.
    + intros b m [X|X]; [inversion X; subst; now exists arr0 | now apply (Hex b m)].
    + intros b s. rewrite Hget, aget_key_app. destruct (aget key_eqb (b, s) acc0); [reflexivity|].
      rewrite (aget_key_map_block b0 (fun s z => (match aget N.eqb s sm with Some p => fst p | None => 0 end, Z.to_N z))).
      cbn [aget]. destruct (b =? b0) eqn:Eb; [|reflexivity].
      apply N.eqb_eq in Eb; subst b. rewrite A0, under_mask_spec. cbn [aget].
      destruct (cmz arr0 m0 s =? 0) eqn:Z.
      * destruct (aget N.eqb b0 r) as [m1|] eqn:A1; [|reflexivity].
        exfalso. apply Hn. apply in_map_iff. exists (b0, m1). split; [reflexivity | now apply aget_some_in].
      * unfold spl_of. now rewrite N2Z.id.
Qed.

(* ---------- (a) the pointwise reading of split_index ---------- *)
Lemma cnt_cons k c (r : index) b x : cnt ((k, c) :: r) b x = if key_eqb (b, x) k then c else cnt r b x.
Proof. unfold cnt. simpl. now destruct (key_eqb (b, x) k). Qed.

Lemma wf_cons_inv (e : key * N) r : Wf (e :: r) -> Wf r /\ cnt r (kblock e) (ksv e) = 0 /\ 0 < snd e.
Proof.
  intros [ND P]. unfold keys_of in ND. simpl in ND. inversion ND as [|? ? Hn ND']; subst.
  inversion P as [|? ? Hp P']; subst. split; [now split|]. split; [|exact Hp].
  unfold cnt. destruct e as [[b s] c]. unfold kblock, ksv; simpl.
  now rewrite (proj2 (aget_None_notin key_eqb key_eqb_eq (b, s) r) Hn).
Qed.

Lemma wf_cons_intro k c (r : index) : Wf r -> 0 < c -> cnt r (fst k) (snd k) = 0 -> Wf ((k, c) :: r).
Proof.
  intros [ND P] Hc Hz. split; [|constructor; assumption].
  unfold keys_of; simpl. constructor; [|exact ND]. intro Hin.
  apply in_map_iff in Hin as [[k' c'] [Hk Hin]]. simpl in Hk; subst k'.
  rewrite Forall_forall in P. pose proof (P _ Hin) as Hp. simpl in Hp.
  unfold cnt in Hz. destruct k as [b s]. simpl in Hz.
  rewrite (in_aget_nodup key_eqb key_eqb_eq (b, s) c' r ND Hin) in Hz. lia.
Qed.

Lemma sv_in_cons_false (e : key * N) r x : sv_in (e :: r) x = false -> ksv e <> x /\ sv_in r x = false.
Proof. unfold sv_in; simpl. intro H. apply orb_false_iff in H as [H1 H2]. apply N.eqb_neq in H1. auto. Qed.

Definition rem_formula (sm : list (N * (N * N))) (bs : list (key * (N * N))) (idx : index) (b x : N) : N :=
  (if ahas N.eqb x sm then 0 else cnt idx b x) +
  smsum sm (fun s sp re => if x =? re then cnt idx b s - nsplit bs b s else 0).
Definition spl_formula (sm : list (N * (N * N))) (bs : list (key * (N * N))) (idx : index) (b x : N) : N :=
  smsum sm (fun s sp re => if x =? sp then (if 0 <? cnt idx b s then nsplit bs b s else 0) else 0).

Section SplitIndex.
  Variable sm : list (N * (N * N)).
  Variable bs : list (key * (N * N)).
  Hypothesis NDk : NoDup (map fst sm).
  Hypothesis NDs : NoDup (map (fun e => fst (snd e)) sm).
  Hypothesis NDr : NoDup (map (fun e => snd (snd e)) sm).
  Hypothesis BsOk : forall b s sp n, aget key_eqb (b, s) bs = Some (sp, n) ->
                                     0 < n /\ exists re, aget N.eqb s sm = Some (sp, re).

  Lemma nodup_map_inj {A B} (f : A -> B) (l : list A) x y : NoDup (map f l) -> In x l -> In y l -> f x = f y -> x = y.
  Proof.
    induction l as [|a r IH]; simpl; intros ND Hx Hy E; [tauto|].
    inversion ND as [|? ? Hn ND']; subst. destruct Hx as [<-|Hx], Hy as [<-|Hy]; auto.
    - exfalso. apply Hn. rewrite E. now apply in_map.
    - exfalso. apply Hn. rewrite <- E. now apply in_map.
  Qed.

  Lemma rem_unique s sp re s' sp' : In (s, (sp, re)) sm -> In (s', (sp', re)) sm -> s' = s.
  Proof.
    intros H1 H2. pose proof (nodup_map_inj (fun e => snd (snd e)) sm _ _ NDr H1 H2 eq_refl) as E. now inversion E.
  Qed.
  Lemma spl_unique s sp re s' re' : In (s, (sp, re)) sm -> In (s', (sp, re')) sm -> s' = s.
  Proof.
    intros H1 H2. pose proof (nodup_map_inj (fun e => fst (snd e)) sm _ _ NDs H1 H2 eq_refl) as E. now inversion E.
  Qed.

  Theorem split_index_spec : forall idx ridx sidx,
    Wf idx ->
    (forall s sp re, In (s, (sp, re)) sm -> sv_in idx re = false) ->
    split_index idx bs sm = Ok (ridx, sidx) ->
    Wf ridx /\ Wf sidx /\
    (forall b x, cnt ridx b x = rem_formula sm bs idx b x) /\
    (forall b x, cnt sidx b x = spl_formula sm bs idx b x).
  Proof.
    induction idx as [|e r IH]; intros ridx sidx W Fr H; cbn [split_index] in H.
    - apply Ok_inj in H. inversion H; subst. split; [apply Wf_nil|]. split; [apply Wf_nil|].
      split; intros b x; unfold rem_formula, spl_formula, cnt; simpl.
      + rewrite smsum_zero; [now destruct (ahas N.eqb x sm)|]. intros; now destruct (x =? re).
      + rewrite smsum_zero; [reflexivity|]. intros; now destruct (x =? sp).
    - destruct (wf_cons_inv e r W) as (Wr & Hz & Hpos).
      assert (forall s sp re, In (s, (sp, re)) sm -> sv_in r re = false /\ ksv e <> re) as Fr'.
      { intros s sp re Hin. destruct (sv_in_cons_false e r re (Fr s sp re Hin)). auto. }
      destruct (split_entry bs sm e) as [[r1 s1]| |] eqn:E1; cbn [res_bind] in H; try discriminate.
      destruct (split_index r bs sm) as [[r2 s2]| |] eqn:E2; cbn [res_bind] in H; try discriminate.
      apply Ok_inj in H. inversion H; subst ridx sidx. clear H. cbn [fst snd].
      destruct (IH r2 s2 Wr (fun s sp re Hin => proj1 (Fr' s sp re Hin)) eq_refl) as (W2 & Ws2 & Hr & Hs).
      destruct e as [[b0 s0] orig]. unfold kblock, ksv in *; cbn [fst snd] in *.
      unfold split_entry in E1. unfold kblock, ksv in E1; cbn [fst snd] in E1.
      (* how the formulas move when the head entry is added *)
      assert (forall b s, cnt (((b0, s0), orig) :: r) b s = (if key_eqb (b, s) (b0, s0) then orig else 0) + cnt r b s) as Hc.
      { intros b s. rewrite cnt_cons. destruct (key_eqb (b, s) (b0, s0)) eqn:K; [|lia].
        apply key_eqb_eq in K. inversion K; subst. lia. }
      destruct (aget N.eqb s0 sm) as [[sp0 re0]|] eqn:A0.
      + (* a split supervoxel *)
        pose proof (aget_some_in _ _ _ A0) as In0.
        assert (forall b x, rem_formula sm bs (((b0, s0), orig) :: r) b x =
                            (if key_eqb (b, x) (b0, re0) then orig - nsplit bs b0 s0 else 0) + rem_formula sm bs r b x) as Rf.
        { intros b x. unfold rem_formula.
          assert ((if ahas N.eqb x sm then 0 else cnt (((b0, s0), orig) :: r) b x) = (if ahas N.eqb x sm then 0 else cnt r b x)) as ->.
          { destruct (ahas N.eqb x sm) eqn:Hx; [reflexivity|]. rewrite Hc.
            destruct (key_eqb (b, x) (b0, s0)) eqn:K; [|lia]. apply key_eqb_eq in K. inversion K; subst.
            unfold ahas in Hx. rewrite A0 in Hx. discriminate. }
          set (h := fun (s sp re : N) => if key_eqb (b, x) (b0, re) then orig - nsplit bs b0 s else 0).
          pose proof (smsum_single sm s0 h NDk) as Hs1. rewrite A0 in Hs1. unfold h in Hs1. cbv beta in Hs1.
          match goal with |- ?A + ?S1 = ?K + (?A + ?S2) => enough (S1 = K + S2) as -> by lia end.
          rewrite <- Hs1, <- smsum_add. apply smsum_ext.
          intros s sp re Hin. rewrite Hc. unfold key_eqb; cbn [fst snd].
          destruct (s0 =? s) eqn:Es.
          - apply N.eqb_eq in Es; subst s. pose proof (aget_in_nodup _ _ _ NDk Hin) as A1. rewrite A0 in A1. inversion A1; subst.
            rewrite N.eqb_refl, andb_true_r. destruct (x =? re); [|now rewrite andb_false_r].
            rewrite andb_true_r. destruct (b =? b0) eqn:Eb; [apply N.eqb_eq in Eb; subst b; rewrite Hz; lia | lia].
          - rewrite (N.eqb_sym s s0), Es, andb_false_r. cbv iota. destruct (x =? re); lia. }
        assert (forall b x, spl_formula sm bs (((b0, s0), orig) :: r) b x =
                            (if key_eqb (b, x) (b0, sp0) then nsplit bs b0 s0 else 0) + spl_formula sm bs r b x) as Sf.
        { intros b x. unfold spl_formula.
          set (h := fun (s sp re : N) => if key_eqb (b, x) (b0, sp) then nsplit bs b0 s else 0).
          pose proof (smsum_single sm s0 h NDk) as Hs1. rewrite A0 in Hs1. unfold h in Hs1. cbv beta in Hs1.
          rewrite <- Hs1, <- smsum_add. apply smsum_ext.
          intros s sp re Hin. rewrite Hc. unfold key_eqb; cbn [fst snd].
          destruct (s0 =? s) eqn:Es.
          - apply N.eqb_eq in Es; subst s. pose proof (aget_in_nodup _ _ _ NDk Hin) as A1. rewrite A0 in A1. inversion A1; subst.
            rewrite N.eqb_refl, andb_true_r. destruct (x =? sp); [|now rewrite andb_false_r].
            rewrite andb_true_r. destruct (b =? b0) eqn:Eb.
            + apply N.eqb_eq in Eb; subst b. rewrite Hz.
              assert ((0 <? orig + 0) = true) as -> by (apply N.ltb_lt; lia). cbn. lia.
            + cbn. lia.
          - rewrite (N.eqb_sym s s0), Es, andb_false_r. cbv iota. rewrite N.add_0_l. destruct (x =? sp); lia. }
        (* the new keys are not in the rest *)
        assert (cnt r2 b0 re0 = 0) as Zr.
        { rewrite Hr. unfold rem_formula.
          destruct (Fr' s0 sp0 re0 In0) as [Fre _].
          rewrite (sv_in_false_cnt r b0 re0 Fre).
          rewrite smsum_zero; [now destruct (ahas N.eqb re0 sm)|].
          intros s sp re Hin. destruct (re0 =? re) eqn:E; [|reflexivity]. apply N.eqb_eq in E; subst re.
          rewrite (rem_unique s0 sp0 re0 s sp In0 Hin), Hz. reflexivity. }
        assert (cnt s2 b0 sp0 = 0) as Zs.
        { rewrite Hs. unfold spl_formula. apply smsum_zero.
          intros s sp re Hin. destruct (sp0 =? sp) eqn:E; [|reflexivity]. apply N.eqb_eq in E; subst sp.
          rewrite (spl_unique s0 sp0 re0 s re In0 Hin), Hz. reflexivity. }
        destruct (aget key_eqb (b0, s0) bs) as [[sp' n]|] eqn:B0.
        * destruct (BsOk b0 s0 sp' n B0) as [Hn [re' A1]]. rewrite A0 in A1. inversion A1; subst sp' re'. clear A1.
          assert (nsplit bs b0 s0 = n) as Ns by (unfold nsplit; now rewrite B0).
          destruct (orig <? n) eqn:L1; [discriminate|]. apply N.ltb_ge in L1.
          apply Ok_inj in E1. inversion E1; subst r1 s1. clear E1.
          assert (Wf (((b0, sp0), n) :: s2)) as Wsn by (apply wf_cons_intro; assumption).
          destruct (n <? orig) eqn:L2.
          -- apply N.ltb_lt in L2. cbn [app]. split; [apply wf_cons_intro; [assumption | lia | assumption]|].
             split; [exact Wsn|]. split; intros b x; rewrite cnt_cons.
             ++ rewrite Rf, Ns, <- Hr. destruct (key_eqb (b, x) (b0, re0)) eqn:K; [|lia].
                apply key_eqb_eq in K. inversion K; subst. lia.
             ++ rewrite Sf, Ns, <- Hs. destruct (key_eqb (b, x) (b0, sp0)) eqn:K; [|lia].
                apply key_eqb_eq in K. inversion K; subst. lia.
          -- apply N.ltb_ge in L2. cbn [app]. split; [exact W2|]. split; [exact Wsn|]. split; intros b x.
             ++ rewrite Rf, Ns, <- Hr. replace (orig - n) with 0 by lia. now destruct (key_eqb (b, x) (b0, re0)).
             ++ rewrite cnt_cons, Sf, Ns, <- Hs. destruct (key_eqb (b, x) (b0, sp0)) eqn:K; [|lia].
                apply key_eqb_eq in K. inversion K; subst. lia.
        * assert (nsplit bs b0 s0 = 0) as Ns by (unfold nsplit; now rewrite B0).
          apply Ok_inj in E1. inversion E1; subst r1 s1. clear E1. cbn [app].
          split; [apply wf_cons_intro; assumption|]. split; [exact Ws2|]. split; intros b x.
          -- rewrite cnt_cons, Rf, Ns, <- Hr, N.sub_0_r. destruct (key_eqb (b, x) (b0, re0)) eqn:K; [|lia].
             apply key_eqb_eq in K. inversion K; subst. lia.
          -- rewrite Sf, Ns, <- Hs. now destruct (key_eqb (b, x) (b0, sp0)).
      + (* not split: the entry stays *)
        apply Ok_inj in E1. inversion E1; subst r1 s1. clear E1. cbn [app].
        pose proof (aget_none_notin _ _ A0) as Nin.
        assert (forall s sp re, In (s, (sp, re)) sm -> s <> s0) as Ne by (intros s sp re Hin ->; apply (Nin _ Hin)).
        assert (cnt r2 b0 s0 = 0) as Zr.
        { rewrite Hr. unfold rem_formula. rewrite Hz.
          rewrite smsum_zero; [now destruct (ahas N.eqb s0 sm)|].
          intros s sp re Hin. destruct (s0 =? re) eqn:E; [|reflexivity]. apply N.eqb_eq in E.
          destruct (Fr' s sp re Hin) as [_ X]. congruence. }
        split; [apply wf_cons_intro; assumption|]. split; [exact Ws2|]. split; intros b x.
        * rewrite cnt_cons, Hr. unfold rem_formula. rewrite Hc.
          match goal with |- _ = _ + ?S =>
            assert (S = smsum sm (fun s _ re => if x =? re then cnt r b s - nsplit bs b s else 0)) as -> end.
          { apply smsum_ext. intros s sp re Hin. rewrite Hc.
            assert (key_eqb (b, s) (b0, s0) = false) as ->; [|reflexivity].
            unfold key_eqb; cbn [fst snd]. rewrite (N_eqb_neq s s0 (Ne s sp re Hin)). apply andb_false_r. }
          destruct (key_eqb (b, x) (b0, s0)) eqn:K; [|destruct (ahas N.eqb x sm); lia].
          apply key_eqb_eq in K. inversion K; subst. unfold ahas. rewrite A0, Hz.
          rewrite smsum_zero; [lia|]. intros s sp re Hin. destruct (s0 =? re) eqn:E; [|reflexivity].
          apply N.eqb_eq in E. destruct (Fr' s sp re Hin) as [_ X]. congruence.
        * rewrite Hs. unfold spl_formula. apply smsum_ext. intros s sp re Hin. rewrite Hc.
          assert (key_eqb (b, s) (b0, s0) = false) as ->; [|reflexivity].
          unfold key_eqb; cbn [fst snd]. rewrite (N_eqb_neq s s0 (Ne s sp re Hin)). apply andb_false_r.
  Qed.
End SplitIndex.

(* ---------- the split map: ids, mapping after the split ---------- *)
Definition ids (sm : list (N * (N * N))) : list N :=
  flat_map (fun e => [fst e; fst (snd e); snd (snd e)]) sm.

Lemma in_ids sm s sp re : In (s, (sp, re)) sm -> In s (ids sm) /\ In sp (ids sm) /\ In re (ids sm).
Proof.
  intro H. unfold ids. repeat split; apply in_flat_map; exists (s, (sp, re)); (split; [exact H|]); simpl; auto.
Qed.

Lemma ids_nodup_parts sm : NoDup (ids sm) ->
  NoDup (map fst sm) /\ NoDup (map (fun e => fst (snd e)) sm) /\ NoDup (map (fun e => snd (snd e)) sm).
Proof.
  induction sm as [|[s [sp re]] r IH]; intro ND; simpl; [repeat split; constructor|].
  change (ids ((s, (sp, re)) :: r)) with (s :: sp :: re :: ids r) in ND.
  inversion ND as [|? ? N1 ND1]; subst. inversion ND1 as [|? ? N2 ND2]; subst. inversion ND2 as [|? ? N3 ND3]; subst.
  destruct (IH ND3) as (I1 & I2 & I3).
  repeat split; constructor; try assumption; intro Hin; apply in_map_iff in Hin as [[s' [sp' re']] [E Hin]];
    simpl in E; subst; destruct (in_ids r _ _ _ Hin) as (J1 & J2 & J3).
  - apply N1. now do 2 right.
  - apply N2. now right.
  - now apply N3.
Qed.

Definition split_map (body newl : N) (sm : list (N * (N * N))) (m : list (N * N)) : list (N * N) :=
  fold_left (fun m e => aset N.eqb (fst e) 0 (aset N.eqb (snd (snd e)) body (aset N.eqb (fst (snd e)) newl m))) sm m.

Lemma mapped_split_map body newl sm : forall m, NoDup (ids sm) ->
  (forall s sp re, In (s, (sp, re)) sm ->
     mapped (split_map body newl sm m) s = 0 /\ mapped (split_map body newl sm m) sp = newl /\
     mapped (split_map body newl sm m) re = body) /\
  (forall x, ~ In x (ids sm) -> mapped (split_map body newl sm m) x = mapped m x).
Proof.
  induction sm as [|[s [sp re]] r IH]; intros m ND; [split; [intros ? ? ? []|reflexivity]|].
  change (ids ((s, (sp, re)) :: r)) with (s :: sp :: re :: ids r) in *.
  inversion ND as [|? ? N1 ND1]; subst. inversion ND1 as [|? ? N2 ND2]; subst. inversion ND2 as [|? ? N3 ND3]; subst.
  unfold split_map; cbn [fold_left fst snd].
  set (m1 := aset N.eqb s 0 (aset N.eqb re body (aset N.eqb sp newl m))).
  fold (split_map body newl r m1). destruct (IH m1 ND3) as [P1 P2].
  assert (forall x, mapped m1 x = if x =? s then 0 else if x =? re then body else if x =? sp then newl else mapped m x) as M1
      by (intro x; unfold m1; now rewrite !mapped_aset).
  split.
  - intros s' sp' re' [E|Hin].
    + inversion E; subst s' sp' re'.
      rewrite !P2, !M1 by (intro X; first [apply N1; now do 2 right | apply N2; now right | now apply N3]).
      rewrite N.eqb_refl.
      rewrite (N_eqb_neq sp s) by (intro; subst; apply N1; now left).
      rewrite (N_eqb_neq sp re) by (intro; subst; apply N2; now left).
      rewrite (N_eqb_neq re s) by (intro; subst; apply N1; right; now left).
      rewrite !N.eqb_refl. auto.
    + now apply P1.
  - intros x Hx. rewrite P2 by (intro; apply Hx; now do 3 right). rewrite M1.
    rewrite (N_eqb_neq x s) by (intro; subst; apply Hx; now left).
    rewrite (N_eqb_neq x re) by (intro; subst; apply Hx; do 2 right; now left).
    rewrite (N_eqb_neq x sp) by (intro; subst; apply Hx; right; now left). reflexivity.
Qed.

(* collapsing the sums *)
Lemma smsum_spl sm x s re g : NoDup (map (fun e => fst (snd e)) sm) -> In (s, (x, re)) sm ->
  smsum sm (fun s' sp' re' => if x =? sp' then g s' sp' re' else 0) = g s x re.
Proof.
  induction sm as [|[s0 [sp0 re0]] r IH]; intros ND Hin; [destruct Hin|]. simpl in ND. inversion ND as [|? ? Hn ND']; subst.
  simpl. destruct Hin as [E|Hin].
  - inversion E; subst. rewrite N.eqb_refl. rewrite smsum_zero; [lia|]. intros s' sp' re' Hin'.
    destruct (x =? sp') eqn:E'; [|reflexivity]. apply N.eqb_eq in E'; subst. exfalso. apply Hn.
    apply in_map_iff. now exists (s', (sp', re')).
  - rewrite (IH ND' Hin). destruct (x =? sp0) eqn:E'; [|lia]. apply N.eqb_eq in E'; subst. exfalso. apply Hn.
    apply in_map_iff. now exists (s, (sp0, re)).
Qed.

Lemma smsum_rem sm x s sp g : NoDup (map (fun e => snd (snd e)) sm) -> In (s, (sp, x)) sm ->
  smsum sm (fun s' sp' re' => if x =? re' then g s' sp' re' else 0) = g s sp x.
Proof.
  induction sm as [|[s0 [sp0 re0]] r IH]; intros ND Hin; [destruct Hin|]. simpl in ND. inversion ND as [|? ? Hn ND']; subst.
  simpl. destruct Hin as [E|Hin].
  - inversion E; subst. rewrite N.eqb_refl. rewrite smsum_zero; [lia|]. intros s' sp' re' Hin'.
    destruct (x =? re') eqn:E'; [|reflexivity]. apply N.eqb_eq in E'; subst. exfalso. apply Hn.
    apply in_map_iff. now exists (s', (sp', re')).
  - rewrite (IH ND' Hin). destruct (x =? re0) eqn:E'; [|lia]. apply N.eqb_eq in E'; subst. exfalso. apply Hn.
    apply in_map_iff. now exists (s, (sp, re0)).
Qed.

Lemma smsum_no_spl sm x g : (forall s sp re, In (s, (sp, re)) sm -> x <> sp) ->
  smsum sm (fun s' sp' re' => if x =? sp' then g s' sp' re' else 0) = 0.
Proof. intro H. apply smsum_zero. intros s sp re Hin. now rewrite (N_eqb_neq x sp (H s sp re Hin)). Qed.
Lemma smsum_no_rem sm x g : (forall s sp re, In (s, (sp, re)) sm -> x <> re) ->
  smsum sm (fun s' sp' re' => if x =? re' then g s' sp' re' else 0) = 0.
Proof. intro H. apply smsum_zero. intros s sp re Hin. now rewrite (N_eqb_neq x re (H s sp re Hin)). Qed.
Lemma smsum_no_both sm x g g' :
  (forall s sp re, In (s, (sp, re)) sm -> x <> sp) -> (forall s sp re, In (s, (sp, re)) sm -> x <> re) ->
  smsum sm (fun s' sp' re' => (if x =? sp' then g s' sp' re' else 0) + (if x =? re' then g' s' sp' re' else 0)) = 0.
Proof. intros H1 H2. rewrite smsum_add, smsum_no_spl, smsum_no_rem; auto. Qed.

(* ---------- the relabelled blocks ---------- *)
Definition relabel_blocks (masks : list (N * list bool)) (sm : list (N * (N * N))) (L : list N) (vx : list (N * list N)) :=
  fold_left (fun vx b =>
               match aget N.eqb b vx with
               | Some arr => aset N.eqb b (relabel_split arr (match aget N.eqb b masks with Some m => m | None => [] end) sm) vx
               | None => vx
               end) L vx.

Lemma aget_relabel_blocks masks sm : forall L vx b, NoDup L ->
  aget N.eqb b (relabel_blocks masks sm L vx) =
  if memN b L then match aget N.eqb b vx with Some arr => Some (relabel_split arr (mask_of masks b) sm) | None => None end
  else aget N.eqb b vx.
Proof.
  induction L as [|b0 r IH]; intros vx b ND; [reflexivity|]. inversion ND as [|? ? Hn ND']; subst.
  unfold relabel_blocks; cbn [fold_left]. fold (mask_of masks b0).
  cbn [memN existsb]. fold (memN b r).
  destruct (aget N.eqb b0 vx) as [arr0|] eqn:A0.
  - fold (relabel_blocks masks sm r (aset N.eqb b0 (relabel_split arr0 (mask_of masks b0) sm) vx)).
    rewrite (IH _ b ND'), aget_aset_N. destruct (b =? b0) eqn:E.
    + apply N.eqb_eq in E; subst b. rewrite A0. cbn [orb].
      destruct (memN b0 r) eqn:M; [apply memN_In in M; contradiction | reflexivity].
    + reflexivity.
  - fold (relabel_blocks masks sm r vx). rewrite (IH _ b ND').
    destruct (b =? b0) eqn:E; [|reflexivity]. apply N.eqb_eq in E; subst b. rewrite A0. cbn [orb]. now destruct (memN b0 r).
Qed.

Lemma in_occ_pos arr l : In l arr -> 0 < occ arr l.
Proof.
  induction arr as [|a r IH]; intro H; [destruct H|]. rewrite occ_cons. destruct H as [<-|H].
  - rewrite N.eqb_refl. lia.
  - destruct (a =? l); [lia | auto].
Qed.

(* voxels of s in block b under the block's mask *)
Definition vcm (st : fstate) (masks : list (N * list bool)) (b s : N) : N :=
  match aget N.eqb b (f_vox st) with Some arr => count_masked arr (mask_of masks b) s | None => 0 end.

(* ---------- the guard of a body split ---------- *)
Definition fresh_sv (st : fstate) (x : N) : Prop := x <> 0 /\ forall b, vcount st b x = 0.

Definition split_guard (st : fstate) (body newl : N) (masks : list (N * list bool)) (sm : list (N * (N * N))) : Prop :=
  newl <> 0 /\ get_idx st newl = None /\
  NoDup (map fst masks) /\ NoDup (ids sm) /\
  (forall s sp re, In (s, (sp, re)) sm ->
     s <> 0 /\ mapped (f_map st) s = body /\ fresh_sv st sp /\ fresh_sv st re) /\
  (exists b s sp re, In (s, (sp, re)) sm /\ 0 < vcm st masks b s).

Lemma ids_in_inv sm x : In x (ids sm) -> exists s sp re, In (s, (sp, re)) sm /\ (x = s \/ x = sp \/ x = re).
Proof.
  unfold ids. intro H. apply in_flat_map in H as [[s [sp re]] [Hin Hx]]. exists s, sp, re. split; [exact Hin|].
  simpl in Hx. intuition.
Qed.

Lemma ids_distinct sm : NoDup (ids sm) -> forall s sp re s' sp' re',
  In (s, (sp, re)) sm -> In (s', (sp', re')) sm -> s <> sp' /\ s <> re' /\ sp <> re'.
Proof.
  induction sm as [|[s0 [sp0 re0]] r IH]; intros ND s sp re s' sp' re' H1 H2; [destruct H1|].
  change (ids ((s0, (sp0, re0)) :: r)) with (s0 :: sp0 :: re0 :: ids r) in ND.
  inversion ND as [|? ? N1 ND1]; subst. inversion ND1 as [|? ? N2 ND2]; subst. inversion ND2 as [|? ? N3 ND3]; subst.
  destruct H1 as [E1|H1], H2 as [E2|H2].
  - inversion E1; inversion E2; subst. repeat split; intro; subst.
    + apply N1; now left.
    + apply N1; right; now left.
    + apply N2; now left.
  - inversion E1; subst. destruct (in_ids r _ _ _ H2) as (J1 & J2 & J3). repeat split; intro; subst.
    + apply N1; now do 2 right.
    + apply N1; now do 2 right.
    + apply N2; now right.
  - inversion E2; subst. destruct (in_ids r _ _ _ H1) as (J1 & J2 & J3). repeat split; intro; subst.
    + apply N2; now right.
    + now apply N3.
    + now apply N3.
  - apply (IH ND3 _ _ _ _ _ _ H1 H2).
Qed.

Theorem consistent_split st body newl masks sm st' :
  Consistent st -> split_guard st body newl masks sm ->
  f_split st body newl masks sm = Ok st' -> Consistent st'.
Proof.
  intros C (Hn0 & Hnone & NDm & NDi & Hsm & Hex). unfold f_split.
  destruct (get_idx st body) as [idx|] eqn:Hi; [|discriminate].
  match goal with |- (if ?c then _ else _) = _ -> _ => destruct c end; [discriminate|].
  destruct (block_splits (f_vox st) masks sm) as [bs|] eqn:Eb; [|discriminate].
  match goal with |- (if negb ?c then _ else _) = _ -> _ => destruct c eqn:Chk end; [|discriminate]. cbn [negb].
  destruct (split_index idx bs sm) as [[ridx sidx]| |] eqn:Es; try discriminate.
  intro E. apply Ok_inj in E.
  set (affected := nodupN (map kblock (filter (fun e => ahas N.eqb (ksv e) sm) idx))) in *.
  assert (Ev : f_vox st' = relabel_blocks masks sm affected (f_vox st)) by (rewrite <- E; reflexivity).
  assert (Em : f_map st' = split_map body newl sm (f_map st)) by (rewrite <- E; reflexivity).
  assert (Ei : f_idx st' = put_idx (put_idx (f_idx st) body (match ridx with [] => None | _ => Some ridx end)) newl (Some sidx))
    by (rewrite <- E; reflexivity).
  clear E.
  assert (body <> 0) as Hb0 by (intro X; rewrite X, (c_zero st C) in Hi; discriminate).
  assert (newl <> body) as Hnb by (intro X; rewrite X, Hi in Hnone; discriminate).
  destruct (c_wf st C body idx Hi) as [W Hne].
  assert (Ci : forall b s, cnt idx b s = if negb (s =? 0) && (mapped (f_map st) s =? body) then vcount st b s else 0)
    by (intros; now apply consistent_cnt).
  destruct (ids_nodup_parts sm NDi) as (NDk & NDs & NDr).
  assert (Ck : forall s sp re, In (s, (sp, re)) sm -> forall b, cnt idx b s = vcount st b s).
  { intros s sp re Hin b. destruct (Hsm s sp re Hin) as (H0 & Hm & _).
    rewrite Ci, Hm, N.eqb_refl, (N_eqb_neq s 0 H0). reflexivity. }
  assert (Fresh : forall x, fresh_sv st x -> sv_in idx x = false).
  { intros x [_ Hx]. destruct (sv_in idx x) eqn:S; [|reflexivity].
    destruct (sv_in_pos idx x W S) as [b Hb]. rewrite Ci, (Hx b) in Hb.
    destruct (negb (x =? 0) && (mapped (f_map st) x =? body)); lia. }
  destruct (block_splits_fold (f_vox st) sm masks (Some []) bs NDm Eb) as (acc0 & Ea & Hmex & Hbs).
  inversion Ea; subst acc0. clear Ea.
  assert (Ns : forall b s, s <> 0 -> nsplit bs b s = vcm st masks b s).
  { intros b s Hs. unfold nsplit, vcm, mask_of. rewrite Hbs. cbn [aget].
    destruct (aget N.eqb b masks) as [m|] eqn:Am.
    - destruct (Hmex b m (aget_some_in _ _ _ Am)) as [arr Ar]. rewrite Ar. unfold cmz. rewrite (N_eqb_neq s 0 Hs).
      destruct (count_masked arr m s =? 0) eqn:Z; [apply N.eqb_eq in Z; now rewrite Z | reflexivity].
    - destruct (aget N.eqb b (f_vox st)); [now rewrite cm_nil_mask | reflexivity]. }
  assert (BsOk : forall b s sp n, aget key_eqb (b, s) bs = Some (sp, n) -> 0 < n /\ exists re, aget N.eqb s sm = Some (sp, re)).
  { intros b s sp n A. pose proof (aget_Some_in key_eqb key_eqb_eq _ _ _ A) as Hin.
    rewrite forallb_forall in Chk. pose proof (Chk _ Hin) as Hc. cbn [fst snd] in Hc.
    apply andb_true_iff in Hc as [_ Hh]. unfold ahas in Hh.
    rewrite Hbs in A. cbn [aget] in A.
    destruct (aget N.eqb b masks) as [m|]; [|discriminate]. destruct (aget N.eqb b (f_vox st)) as [arr|]; [|discriminate].
    destruct (cmz arr m s =? 0) eqn:Z; [discriminate|]. inversion A; subst. apply N.eqb_neq in Z. split; [lia|].
    unfold spl_of. destruct (aget N.eqb s sm) as [[sp re]|]; [|discriminate]. now exists re. }
  destruct (split_index_spec sm bs NDk NDs NDr BsOk idx ridx sidx W
              (fun s sp re Hin => Fresh re (proj2 (proj2 (proj2 (Hsm s sp re Hin))))) Es) as (Wr & Ws & Hr & Hs).
  assert (Gv : forall b, aget N.eqb b (f_vox st') =
                match aget N.eqb b (f_vox st) with Some arr => Some (relabel_split arr (mask_of masks b) sm) | None => None end).
  { intro b. rewrite Ev, aget_relabel_blocks by apply nodupN_NoDup.
    destruct (memN b affected) eqn:M; [reflexivity|].
    destruct (aget N.eqb b (f_vox st)) as [arr|] eqn:A; [|reflexivity]. f_equal. symmetry. apply relabel_split_id.
    intros l Hl. destruct (aget N.eqb l sm) as [[sp re]|] eqn:Al; [|reflexivity]. exfalso.
    pose proof (aget_some_in _ _ _ Al) as Hin. pose proof (Ck l sp re Hin b) as Hc. unfold vcount in Hc. rewrite A in Hc.
    change (countN arr l) with (occ arr l) in Hc. pose proof (in_occ_pos arr l Hl) as Hp.
    unfold cnt in Hc. destruct (aget key_eqb (b, l) idx) as [c|] eqn:Ak; [|lia].
    apply (aget_Some_in key_eqb key_eqb_eq) in Ak.
    assert (memN b affected = true); [|congruence]. apply memN_In. unfold affected. apply nodupN_In.
    apply in_map_iff. exists ((b, l), c). split; [reflexivity|]. apply filter_In. split; [exact Ak|].
    unfold ksv, ahas; cbn [fst snd]. now rewrite Al. }
  assert (Vn : forall b x, vcount st' b x =
            (if ahas N.eqb x sm then 0 else vcount st b x) +
            smsum sm (fun s sp re => (if x =? sp then vcm st masks b s else 0) +
                                     (if x =? re then vcount st b s - vcm st masks b s else 0))).
  { intros b x. unfold vcount, vcm. rewrite Gv. destruct (aget N.eqb b (f_vox st)) as [arr|].
    - change (countN (relabel_split arr (mask_of masks b) sm) x) with (occ (relabel_split arr (mask_of masks b) sm) x).
      rewrite (occ_relabel_split sm NDk). reflexivity.
    - rewrite smsum_zero; [now destruct (ahas N.eqb x sm)|]. intros. now destruct (x =? sp), (x =? re). }
  assert (Vle : forall b s, vcm st masks b s <= vcount st b s).
  { intros b s. unfold vcm, vcount. destruct (aget N.eqb b (f_vox st)); [apply count_masked_le | lia]. }
  destruct (mapped_split_map body newl sm (f_map st) NDi) as [Mi Mo]. rewrite <- Em in Mi, Mo.
  assert (Gi : forall l, get_idx st' l = if l =? newl then Some sidx
                                          else if l =? body then (match ridx with [] => None | _ => Some ridx end)
                                               else get_idx st l).
  { intro l. unfold get_idx. rewrite Ei, !aget_put_idx. reflexivity. }
  assert (Ic : forall l b x, icnt st' l b x = if l =? newl then cnt sidx b x else if l =? body then cnt ridx b x else icnt st l b x).
  { intros. unfold icnt. rewrite Gi. destruct (l =? newl); [reflexivity|]. destruct (l =? body); [|reflexivity]. now destruct ridx. }
  (* the split index at a split label *)
  assert (Ssp : forall s sp re b, In (s, (sp, re)) sm -> cnt sidx b sp = vcm st masks b s).
  { intros s sp re b He. destruct (Hsm s sp re He) as (H0 & _). rewrite Hs. unfold spl_formula.
    rewrite (smsum_spl sm sp s re (fun s' _ _ => if 0 <? cnt idx b s' then nsplit bs b s' else 0) NDs He).
    rewrite (Ck s sp re He b), (Ns b s H0). pose proof (Vle b s).
    destruct (0 <? vcount st b s) eqn:P; [reflexivity|]. apply N.ltb_ge in P. lia. }
  split.
  - intros l b x. rewrite Ic, Vn. pose proof (c_cnt st C l b x) as Cl.
    destruct (in_dec N.eq_dec x (ids sm)) as [Hin|Hout].
    + destruct (ids_in_inv sm x Hin) as (s & sp & re & He & [X|[X|X]]); subst x;
        destruct (Hsm s sp re He) as (H0 & Hm & [Hsp0 Vsp] & [Hre0 Vre]).
      * (* a split supervoxel: gone *)
        destruct (Mi s sp re He) as (Ms & _ & _). rewrite Ms.
        assert (forall s' sp' re', In (s', (sp', re')) sm -> s <> sp') as D1
            by (intros s' sp' re' H'; apply (ids_distinct sm NDi s sp re s' sp' re' He H')).
        assert (forall s' sp' re', In (s', (sp', re')) sm -> s <> re') as D2
            by (intros s' sp' re' H'; apply (ids_distinct sm NDi s sp re s' sp' re' He H')).
        assert (ahas N.eqb s sm = true) as Ah by (unfold ahas; now rewrite (aget_in_nodup _ _ _ NDk He)).
        rewrite Ah, (smsum_no_both sm s _ _ D1 D2). rewrite Hs, Hr. unfold spl_formula, rem_formula.
        rewrite Ah, (smsum_no_spl sm s _ D1), (smsum_no_rem sm s _ D2).
        destruct (l =? newl); [now destruct (negb (s =? 0) && (0 =? l))|].
        destruct (l =? body) eqn:Elb; [now destruct (negb (s =? 0) && (0 =? l))|].
        rewrite Cl, Hm, (N.eqb_sym body l), Elb, andb_false_r. now destruct (negb (s =? 0) && (0 =? l)).
      * (* a split label *)
        destruct (Mi s sp re He) as (_ & Msp & _). rewrite Msp.
        assert (forall s' sp' re', In (s', (sp', re')) sm -> sp <> re') as D2
            by (intros s' sp' re' H'; apply (ids_distinct sm NDi s sp re s' sp' re' He H')).
        assert (ahas N.eqb sp sm = false) as Ah.
        { unfold ahas. destruct (aget N.eqb sp sm) as [[sp' re']|] eqn:A; [|reflexivity]. exfalso.
          apply aget_some_in in A. destruct (ids_distinct sm NDi sp sp' re' s sp re A He) as (Q & _ & _). now apply Q. }
        rewrite Ah, (Vsp b), smsum_add, (smsum_no_rem sm sp _ D2).
        rewrite (smsum_spl sm sp s re (fun s' _ _ => vcm st masks b s') NDs He).
        rewrite (N_eqb_neq sp 0 Hsp0). cbn [negb andb]. rewrite (N.eqb_sym newl l).
        destruct (l =? newl) eqn:El; [rewrite (Ssp s sp re b He); lia|].
        destruct (l =? body) eqn:Elb.
        -- rewrite Hr. unfold rem_formula. rewrite Ah, (smsum_no_rem sm sp _ D2), Ci, (Vsp b). now ifs.
        -- rewrite Cl, (Vsp b). now ifs.
      * (* a remain label *)
        destruct (Mi s sp re He) as (_ & _ & Mre). rewrite Mre.
        assert (forall s' sp' re', In (s', (sp', re')) sm -> re <> sp') as D1
            by (intros s' sp' re' H' X; subst; destruct (ids_distinct sm NDi s' sp' re' s sp sp' H' He) as (_ & _ & Q); now apply Q).
        assert (ahas N.eqb re sm = false) as Ah.
        { unfold ahas. destruct (aget N.eqb re sm) as [[sp' re']|] eqn:A; [|reflexivity]. exfalso.
          apply aget_some_in in A. destruct (ids_distinct sm NDi re sp' re' s sp re A He) as (_ & Q & _). now apply Q. }
        rewrite Ah, (Vre b), smsum_add, (smsum_no_spl sm re _ D1).
        rewrite (smsum_rem sm re s sp (fun s' _ _ => vcount st b s' - vcm st masks b s') NDr He).
        rewrite (N_eqb_neq re 0 Hre0). cbn [negb andb]. rewrite (N.eqb_sym body l).
        destruct (l =? newl) eqn:El.
        -- apply N.eqb_eq in El; subst l. rewrite (N_eqb_neq newl body Hnb).
           rewrite Hs. unfold spl_formula. apply (smsum_no_spl sm re _ D1).
        -- destruct (l =? body) eqn:Elb.
           ++ rewrite Hr. unfold rem_formula. rewrite Ah, Ci, (Vre b).
              rewrite (smsum_rem sm re s sp (fun s' _ _ => cnt idx b s' - nsplit bs b s') NDr He).
              rewrite (Ck s sp re He b), (Ns b s H0). now ifs.
           ++ rewrite Cl, (Vre b). now ifs.
    + (* untouched label *)
      assert (forall s' sp' re', In (s', (sp', re')) sm -> x <> sp') as D1
          by (intros s' sp' re' H' X; subst; apply Hout; apply (in_ids sm s' sp' re' H')).
      assert (forall s' sp' re', In (s', (sp', re')) sm -> x <> re') as D2
          by (intros s' sp' re' H' X; subst; apply Hout; apply (in_ids sm s' sp' re' H')).
      assert (ahas N.eqb x sm = false) as Ah.
      { unfold ahas. destruct (aget N.eqb x sm) as [[sp' re']|] eqn:A; [|reflexivity]. exfalso.
        apply aget_some_in in A. apply Hout. apply (in_ids sm x sp' re' A). }
      rewrite (Mo x Hout), Ah, (smsum_no_both sm x _ _ D1 D2), N.add_0_r, <- Cl.
      destruct (l =? newl) eqn:El.
      * apply N.eqb_eq in El; subst l. rewrite Hs. unfold spl_formula, icnt. rewrite Hnone. apply (smsum_no_spl sm x _ D1).
      * destruct (l =? body) eqn:Elb; [|reflexivity]. apply N.eqb_eq in Elb; subst l.
        rewrite Hr. unfold rem_formula, icnt. rewrite Ah, Hi, (smsum_no_rem sm x _ D2). lia.
  - rewrite Gi, (N_eqb_neq 0 newl), (N_eqb_neq 0 body) by congruence. apply (c_zero st C).
  - intros l i. rewrite Gi. destruct (l =? newl).
    + intro X; inversion X; subst i. split; [exact Ws|]. intro Hnil.
      destruct Hex as (b & s & sp & re & He & Hp). pose proof (Ssp s sp re b He) as Q. rewrite Hnil in Q.
      unfold cnt in Q; simpl in Q. lia.
    + destruct (l =? body); [|apply (c_wf st C)]. destruct ridx as [|e r]; [discriminate|].
      intro X; inversion X; subst i. split; [exact Wr | discriminate].
Qed.

(* ---------- block arrays keep their length ---------- *)
Lemma sizedv_relabel_blocks n masks sm : forall L vx, SizedV n vx -> SizedV n (relabel_blocks masks sm L vx).
Proof.
  induction L as [|b r IH]; intros vx S; [exact S|]. unfold relabel_blocks; cbn [fold_left].
  destruct (aget N.eqb b vx) as [arr|] eqn:A.
  - apply IH. apply sizedv_aset; [exact S|]. rewrite length_relabel_split. apply (S b arr A).
  - apply IH, S.
Qed.

Lemma sized_split n st body newl masks sm st' :
  Sized n st -> f_split st body newl masks sm = Ok st' -> Sized n st'.
Proof.
  intros S. unfold f_split.
  destruct (get_idx st body) as [idx|]; [|discriminate].
  match goal with |- (if ?c then _ else _) = _ -> _ => destruct c end; [discriminate|].
  destruct (block_splits (f_vox st) masks sm) as [bs|]; [|discriminate].
  match goal with |- (if ?c then _ else _) = _ -> _ => destruct c end; [discriminate|].
  destruct (split_index idx bs sm) as [[ridx sidx]| |]; try discriminate.
  intro E. apply Ok_inj in E. subst st'. unfold Sized; cbn [f_vox].
  apply (sizedv_relabel_blocks n masks sm _ (f_vox st) S).
Qed.

(* ---------- voxel conservation of the split ---------- *)
(* the two bodies together hold what the body held; every other body keeps its index *)
Theorem split_sizes st body newl masks sm st' :
  newl <> body -> get_idx st newl = None ->
  f_split st body newl masks sm = Ok st' ->
  o_size st' body + o_size st' newl = o_size st body /\
  (forall l, l <> body -> l <> newl -> get_idx st' l = get_idx st l).
Proof.
  intros Hnb Hnone. unfold f_split, o_size.
  destruct (get_idx st body) as [idx|] eqn:Hi; [|discriminate].
  match goal with |- (if ?c then _ else _) = _ -> _ => destruct c end; [discriminate|].
  destruct (block_splits (f_vox st) masks sm) as [bs|]; [|discriminate].
  match goal with |- (if ?c then _ else _) = _ -> _ => destruct c end; [discriminate|].
  destruct (split_index idx bs sm) as [[ridx sidx]| |] eqn:Es; try discriminate.
  intro E. apply Ok_inj in E. subst st'. unfold get_idx; cbn [f_idx]. split.
  - rewrite !aget_put_idx, N.eqb_refl, (N_eqb_neq body newl) by congruence. rewrite N.eqb_refl.
    pose proof (split_index_conserves idx bs sm ridx sidx Es) as Hc. destruct ridx; [cbn in Hc |]; lia.
  - intros l H1 H2. now rewrite !aget_put_idx, (N_eqb_neq l newl H2), (N_eqb_neq l body H1).
Qed.

(* no supervoxel is listed by two bodies of a consistent state *)
Lemma consistent_disjoint st l1 l2 x :
  Consistent st -> l1 <> l2 -> In x (o_supervoxels st l1) -> In x (o_supervoxels st l2) -> False.
Proof.
  intros C Hne H1 H2. unfold o_supervoxels in *.
  destruct (get_idx st l1) as [i1|] eqn:G1; [|destruct H1]. destruct (get_idx st l2) as [i2|] eqn:G2; [|destruct H2].
  apply memN_In in H1, H2. rewrite sv_in_supervoxels in H1, H2.
  destruct (consistent_sv_in st l1 i1 x C G1 H1) as [_ M1]. destruct (consistent_sv_in st l2 i2 x C G2 H2) as [_ M2]. congruence.
Qed.

Theorem split_voxel_conservation st body newl masks sm st' :
  Consistent st -> split_guard st body newl masks sm ->
  f_split st body newl masks sm = Ok st' ->
  o_size st' body + o_size st' newl = o_size st body /\
  (forall x, ~ (In x (o_supervoxels st' body) /\ In x (o_supervoxels st' newl))) /\
  (forall l, l <> body -> l <> newl -> o_index st' l = o_index st l).
Proof.
  intros C G H. pose proof (consistent_split st body newl masks sm st' C G H) as C'.
  destruct G as (Hn0 & Hnone & _).
  assert (newl <> body) as Hnb.
  { intro X. unfold f_split in H. rewrite <- X, Hnone in H. discriminate. }
  destruct (split_sizes st body newl masks sm st' Hnb Hnone H) as [S1 S2].
  split; [exact S1|]. split; [|exact S2].
  intros x [H1 H2]. apply (consistent_disjoint st' body newl x C'); auto.
Qed.

(* ---------- the boolean guard evaluated on the driver's cases implies split_guard ---------- *)
Lemma nodupb_sound l : nodupb l = true -> NoDup l.
Proof.
  induction l as [|x r IH]; simpl; intro H; [constructor|]. apply andb_true_iff in H as [H1 H2].
  constructor; [|auto]. intro Hin. apply memN_In in Hin. rewrite Hin in H1. discriminate.
Qed.

Lemma fresh_b_sound st x : fresh_b st x = true -> fresh_sv st x.
Proof.
  unfold fresh_b. intro H. apply andb_true_iff in H as [H1 H2]. apply negb_true_iff, N.eqb_neq in H1.
  split; [exact H1|]. intro b. unfold vcount. destruct (aget N.eqb b (f_vox st)) as [arr|] eqn:A; [|reflexivity].
  rewrite forallb_forall in H2. apply aget_some_in in A. apply N.eqb_eq. apply (H2 _ A).
Qed.

Theorem split_guard_b_sound st body newl masks sm :
  split_guard_b st body newl masks sm = true -> split_guard st body newl masks sm.
Proof.
  unfold split_guard_b. intro H.
  apply andb_true_iff in H as [H H6]. apply andb_true_iff in H as [H H5]. apply andb_true_iff in H as [H H4].
  apply andb_true_iff in H as [H H3]. apply andb_true_iff in H as [H1 H2].
  split; [now apply N.eqb_neq, negb_true_iff|]. split; [now destruct (get_idx st newl)|].
  split; [now apply nodupb_sound|]. split; [now apply nodupb_sound|]. split.
  - intros s sp re Hin. rewrite forallb_forall in H5. pose proof (H5 _ Hin) as Q. cbn [fst snd] in Q.
    apply andb_true_iff in Q as [Q Q4]. apply andb_true_iff in Q as [Q Q3]. apply andb_true_iff in Q as [Q1 Q2].
    split; [now apply N.eqb_neq, negb_true_iff|]. split; [now apply N.eqb_eq|].
    split; now apply fresh_b_sound.
  - apply existsb_exists in H6 as [[s [sp re]] [Hin Q]]. apply existsb_exists in Q as [b [_ Q]]. cbn [fst] in Q.
    exists b, s, sp, re. split; [exact Hin|]. apply N.ltb_lt in Q. exact Q.
Qed.
