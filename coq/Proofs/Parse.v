(* Proofs.Parse: lemmas about Model.Parse (C20). *)
From DV Require Import Base.Prelude Base.Int Gen.Consts Gen.Throttle Model.Parse.
From Coq Require Import ZifyN ZifyNat ZifyBool.
Ltac Zify.zify_post_hook ::= Z.div_mod_to_equations.
Local Open Scope N_scope.

(* ---- constants the proofs rely on (regenerated from the Go source) ---- *)
Lemma pow2_eq k : pow2 k = 2 ^ k.
Proof. unfold pow2. destruct k as [|p]; [reflexivity|]. do 4 (destruct p as [p|p|]; try reflexivity). Qed.
Lemma SB3_512 : SB3 = 512. Proof. reflexivity. Qed.
Lemma SB3n_512 : SB3n = 512%nat. Proof. reflexivity. Qed.
Lemma max_sub_128 : n_P_MaxSubBlockSize = 128. Proof. reflexivity. Qed.
Lemma max_labels_val : max_labels = 2 ^ 30. Proof. reflexivity. Qed.
(* b & leftBitMask[k] = b mod 2^(8-k) for a byte b: the mask is 2^(8-k) - 1 *)
Lemma left_mask_table : t_P_leftBitMask = map (fun k => 2 ^ (8 - k) - 1) [0;1;2;3;4;5;6;7].
Proof. reflexivity. Qed.

(* ---- lists ---- *)
Lemma len_nil {A} : len (@nil A) = 0. Proof. reflexivity. Qed.
Lemma len_cons {A} (x : A) l : len (x :: l) = 1 + len l.
Proof. unfold len. cbn [length]. lia. Qed.
Lemma len_app {A} (a b : list A) : len (a ++ b) = len a + len b.
Proof. unfold len. rewrite app_length. lia. Qed.
Lemma len_repeat {A} (x : A) n : len (repeat x n) = N.of_nat n.
Proof. unfold len. now rewrite repeat_length. Qed.
Lemma len_skipn {A} (l : list A) n : len (skipn n l) = len l - N.of_nat n.
Proof. unfold len. rewrite skipn_length. lia. Qed.
Lemma len_firstn {A} (l : list A) n : len (firstn n l) = N.min (N.of_nat n) (len l).
Proof. unfold len. rewrite firstn_length. lia. Qed.
Lemma len_sub {A} (l : list A) i n : i + n <= len l -> len (sub l i n) = n.
Proof. intro H. unfold sub. rewrite len_firstn, len_skipn. lia. Qed.
Lemma len_zero_nil {A} (l : list A) : len l = 0 -> l = [].
Proof. destruct l; [reflexivity|]. rewrite len_cons. lia. Qed.
Lemma len_map {A B} (f : A -> B) l : len (map f l) = len l.
Proof. unfold len. now rewrite map_length. Qed.

Lemma Some_inj {A} (a b : A) : Some a = Some b -> a = b.
Proof. intro H. inversion H. reflexivity. Qed.

Lemma nthN_big_eq {A} (l : list A) : forall i, nthN_big l i = nth_error l (N.to_nat i).
Proof.
  induction l as [|a l IH]; intro i; cbn [nthN_big].
  - now destruct (N.to_nat i).
  - destruct (i =? 0) eqn:E.
    + apply N.eqb_eq in E. subst i. reflexivity.
    + apply N.eqb_neq in E. rewrite IH. replace (N.to_nat i) with (S (N.to_nat (i - 1))) by lia. reflexivity.
Qed.
Lemma nthN_eq {A} (l : list A) i : nthN l i = nth_error l (N.to_nat i).
Proof. unfold nthN. destruct (i <? 65536); [reflexivity|apply nthN_big_eq]. Qed.

Lemma nth_error_some {A} (l : list A) (i : N) : i < len l -> exists x, nthN l i = Some x.
Proof.
  intro H. rewrite nthN_eq. destruct (nth_error l (N.to_nat i)) eqn:E; [eauto|].
  apply nth_error_None in E. unfold len in H. lia.
Qed.

Lemma Forall_nth_error {A} (P : A -> Prop) l i x : Forall P l -> nthN l i = Some x -> P x.
Proof. intros H E. rewrite nthN_eq in E. apply nth_error_In in E. rewrite Forall_forall in H. auto. Qed.

Lemma existsb_false_Forall {A} (f : A -> bool) l : existsb f l = false -> Forall (fun x => f x = false) l.
Proof.
  induction l as [|x l IH]; cbn [existsb]; intro H; constructor.
  - apply orb_false_iff in H. tauto.
  - apply IH. apply orb_false_iff in H. tauto.
Qed.

(* ---- Go slices ---- *)
Lemma cap8_ge n : n <= cap8 n. Proof. unfold cap8. lia. Qed.
Lemma len_padded data : len (padded data) = cap8 (len data).
Proof. unfold padded. rewrite len_app, len_repeat. pose proof (cap8_ge (len data)). lia. Qed.

Lemma gslice_ok buf i j : i <= j -> j <= len buf -> gslice buf i j = Ok (sub buf i (j - i)).
Proof.
  intros H1 H2. unfold gslice.
  replace (i <=? j) with true by (symmetry; apply N.leb_le; lia).
  replace (j <=? len buf) with true by (symmetry; apply N.leb_le; lia). reflexivity.
Qed.

Lemma gslice_inv buf i j s : gslice buf i j = Ok s -> i <= j /\ j <= len buf /\ s = sub buf i (j - i).
Proof.
  unfold gslice. destruct (i <=? j) eqn:E1; destruct (j <=? len buf) eqn:E2; cbn; intro H; try discriminate.
  apply Ok_inj in H. apply N.leb_le in E1, E2. auto.
Qed.

Lemma words_length w n s : length (words w n s) = n.
Proof. revert s; induction n as [|n IH]; intro s; cbn [words length]; [reflexivity | now rewrite IH]. Qed.

Lemma alias_not_panic w off s : s <> [] -> alias w off s <> Panic.
Proof. destruct s; [congruence|]. intros _. unfold alias. destruct (_ && _); discriminate. Qed.

Lemma alias_inv w off s l : alias w off s = Ok l -> len l = len s / w /\ s <> [].
Proof.
  unfold alias. destruct s as [|x s]; [discriminate|].
  destruct (_ && _); [|discriminate]. intro H. apply Ok_inj in H. subst l. split; [|discriminate].
  unfold len at 1. rewrite words_length. lia.
Qed.

(* ---- bitsFor ---- *)
Lemma bits_for_pos n : 2 <= n -> 1 <= bits_for n.
Proof.
  intro H. unfold bits_for. replace (n <? 2) with false by (symmetry; apply N.ltb_ge; lia).
  cbn [bits_loop]. replace (n - 1 =? 0) with false by (symmetry; apply N.eqb_neq; lia). lia.
Qed.
Lemma bits_for_small n : n < 2 -> bits_for n = 0.
Proof. intro H. unfold bits_for. replace (n <? 2) with true by (symmetry; apply N.ltb_lt; lia). reflexivity. Qed.
Lemma value_bytes_eq n : 8 * value_bytes n = SB3 * bits_for n.
Proof. unfold value_bytes. rewrite SB3_512. lia. Qed.
Definition wf_block (L : N) (b : block) : Prop :=
  len (b_vals b) <= L /\ num_subblocks b <> 0 /\
  (len (b_labels b) <= 1 \/
  (len (b_nsb b) = num_subblocks b /\
   Forall (fun n => n <= SB3) (b_nsb b) /\
   sumN (b_nsb b) = len (b_idx b) /\
   Forall (fun i => i < len (b_labels b)) (b_idx b) /\
   sumN (map value_bytes (b_nsb b)) <= len (b_vals b))).

Lemma sub_nonempty {A} (l : list A) i n : 0 < n -> i + n <= len l -> sub l i n <> [].
Proof.
  intros Hn H E. pose proof (len_sub l i n H) as L. rewrite E in L. rewrite len_nil in L. lia.
Qed.

Lemma parse_block_fixed_spec data :
  parse_block_fixed data <> Panic /\
  forall b, parse_block_fixed data = Ok b -> wf_block (len data) b.
Proof.
  unfold parse_block_fixed.
  destruct (len data <? 24) eqn:E24; [split; [discriminate|intros; discriminate]|].
  set (gx := le_dec (sub data 0 4)). set (gy := le_dec (sub data 4 4)). set (gz := le_dec (sub data 8 4)).
  set (nl := le_dec (sub data 12 4)).
  destruct (nl =? 0) eqn:Enl; [split; [discriminate|intros; discriminate]|].
  destruct (_ || _ || _) eqn:Edim; [split; [discriminate|intros; discriminate]|].
  destruct (max_labels <? nl) eqn:Emax; [split; [discriminate|intros; discriminate]|].
  set (nsub := u32 (gx * gy * gz)).
  destruct (nsub =? 0) eqn:Ensub; [split; [discriminate|intros; discriminate]|].
  apply N.eqb_neq in Ensub.
  assert (Hnsub : nsub = gx * gy * gz).
  { unfold nsub, u32. apply N.mod_small.
    apply orb_false_iff in Edim as [Edim Ez]. apply orb_false_iff in Edim as [Ex Ey].
    apply N.ltb_ge in Ex, Ey, Ez. rewrite max_sub_128 in *.
    assert (gx * gy <= 128 * 128) by (apply N.mul_le_mono; lia).
    assert (gx * gy * gz <= 128 * 128 * 128) by (apply N.mul_le_mono; lia).
    change (2 ^ 32) with 4294967296. lia. }
  destruct (len data <? 16 + nl * 8) eqn:EL1; [split; [discriminate|intros; discriminate]|].
  apply N.ltb_ge in E24, EL1, Emax. apply N.eqb_neq in Enl.
  pose proof (len_padded data) as Hpad. pose proof (cap8_ge (len data)) as Hcap.
  rewrite (gslice_ok (padded data) 16 (16 + nl * 8)) by lia. cbn [res_bind].
  replace (16 + nl * 8 - 16) with (nl * 8) by lia.
  set (s1 := sub (padded data) 16 (nl * 8)).
  assert (Hs1 : len s1 = nl * 8) by (apply len_sub; lia).
  assert (Hs1ne : s1 <> []) by (apply sub_nonempty; lia).
  destruct (alias 8 16 s1) as [labels| |] eqn:Ea1; cbn [res_bind];
    [|split; [discriminate|intros; discriminate] | exfalso; eapply alias_not_panic; eauto].
  apply alias_inv in Ea1 as [Hlab _]. rewrite Hs1 in Hlab.
  replace (nl * 8 / 8) with nl in Hlab by lia.
  destruct (len labels <=? 1) eqn:Esolid.
  { split; [discriminate|]. intros b Hb. apply Ok_inj in Hb. subst b. split; [cbn; lia|]. split; [unfold num_subblocks; cbn [solid b_gx b_gy b_gz]; lia|]. left. cbn [b_labels solid]. apply N.leb_le in Esolid. exact Esolid. }
  destruct (len data <? 16 + nl * 8 + nsub * 2) eqn:EL2; [split; [discriminate|intros; discriminate]|].
  apply N.ltb_ge in EL2.
  rewrite (gslice_ok (padded data) (16 + nl * 8) (16 + nl * 8 + nsub * 2)) by lia. cbn [res_bind].
  replace (16 + nl * 8 + nsub * 2 - (16 + nl * 8)) with (nsub * 2) by lia.
  set (s2 := sub (padded data) (16 + nl * 8) (nsub * 2)).
  assert (Hs2 : len s2 = nsub * 2) by (apply len_sub; lia).
  assert (Hs2ne : s2 <> []) by (apply sub_nonempty; lia).
  destruct (alias 2 (16 + nl * 8) s2) as [nsb| |] eqn:Ea2; cbn [res_bind];
    [|split; [discriminate|intros; discriminate] | exfalso; eapply alias_not_panic; eauto].
  apply alias_inv in Ea2 as [Hnsb _]. rewrite Hs2 in Hnsb. replace (nsub * 2 / 2) with nsub in Hnsb by lia.
  destruct (existsb (fun n => SB3 <? n) nsb) eqn:Ebig; [split; [discriminate|intros; discriminate]|].
  destruct (sumN nsb =? 0) eqn:Eidx0; [split; [discriminate|intros; discriminate]|].
  apply N.eqb_neq in Eidx0.
  set (pos2 := 16 + nl * 8 + nsub * 2).
  destruct (len data <? pos2 + sumN nsb * 4) eqn:EL3; [split; [discriminate|intros; discriminate]|].
  apply N.ltb_ge in EL3.
  rewrite (gslice_ok (padded data) pos2 (pos2 + sumN nsb * 4)) by lia. cbn [res_bind].
  replace (pos2 + sumN nsb * 4 - pos2) with (sumN nsb * 4) by lia.
  set (s3 := sub (padded data) pos2 (sumN nsb * 4)).
  assert (Hs3 : len s3 = sumN nsb * 4) by (apply len_sub; lia).
  assert (Hs3ne : s3 <> []) by (apply sub_nonempty; lia).
  destruct (alias 4 pos2 s3) as [idx| |] eqn:Ea3; cbn [res_bind];
    [|split; [discriminate|intros; discriminate] | exfalso; eapply alias_not_panic; eauto].
  apply alias_inv in Ea3 as [Hidx _]. rewrite Hs3 in Hidx. replace (sumN nsb * 4 / 4) with (sumN nsb) in Hidx by lia.
  destruct (existsb (fun i => nl <=? i) idx) eqn:Eout; [split; [discriminate|intros; discriminate]|].
  destruct (len data <? pos2 + sumN nsb * 4 + sumN (map value_bytes nsb)) eqn:EL4; [split; [discriminate|intros; discriminate]|].
  apply N.ltb_ge in EL4.
  split; [discriminate|]. intros b Hb. apply Ok_inj in Hb. subst b. split; [cbn [b_vals]; rewrite len_skipn; lia|]. unfold num_subblocks. cbn [b_gx b_gy b_gz b_labels b_nsb b_idx b_vals].
  split; [lia|]. right.
  repeat split.
  - lia.
  - apply existsb_false_Forall in Ebig. eapply Forall_impl; [|exact Ebig]. cbv beta. intros n Hn. apply N.ltb_ge in Hn. exact Hn.
  - symmetry. exact Hidx.
  - apply existsb_false_Forall in Eout. eapply Forall_impl; [|exact Eout]. cbv beta. intros i Hi. apply N.leb_gt in Hi. lia.
  - rewrite len_skipn. lia.
Qed.
Lemma get_packed_some vals bp bits :
  1 <= bits -> bp + bits <= 8 * len vals -> exists v, get_packed vals bp bits = Some v.
Proof.
  intros Hb H. unfold get_packed.
  destruct (bp mod 8 + bits <=? 8) eqn:E.
  - destruct (nth_error_some vals (bp / 8)) as [x Hx]; [lia|]. rewrite Hx. eauto.
  - apply N.leb_gt in E.
    destruct (nth_error_some vals (bp / 8)) as [x Hx]; [lia|].
    destruct (nth_error_some vals (bp / 8 + 1)) as [y Hy]; [lia|].
    rewrite Hx, Hy. eauto.
Qed.

Lemma u32_small x : x < 2 ^ 32 -> u32 x = x.
Proof. intro H. unfold u32. now apply N.mod_small. Qed.

Lemma packed_loop_total ok fail vals bits r bp :
  fail <> Panic -> 1 <= bits ->
  bp + N.of_nat r * bits <= 8 * len vals -> 8 * len vals < 2 ^ 32 ->
  packed_loop ok fail vals bits r bp <> Panic.
Proof.
  intros Hf Hb. revert bp. induction r as [|r IH]; intros bp H HL; cbn [packed_loop]; [discriminate|].
  rewrite Nat2N.inj_succ, N.mul_succ_l in H.
  destruct (get_packed_some vals bp bits) as [v Hv]; [lia|lia|]. rewrite Hv.
  destruct (ok v); [|exact Hf].
  rewrite u32_small by lia. apply IH; lia.
Qed.

Lemma packed_loop_result ok fail vals bits r bp bp' :
  (forall x, fail <> Ok x) ->
  bp + N.of_nat r * bits < 2 ^ 32 ->
  packed_loop ok fail vals bits r bp = Ok bp' ->
  bp' = bp + N.of_nat r * bits /\
  forall o, o < N.of_nat r -> exists v, get_packed vals (bp + o * bits) bits = Some v /\ ok v = true.
Proof.
  intros Hf. revert bp. induction r as [|r IH]; intros bp H E; cbn [packed_loop] in E.
  - apply Ok_inj in E. split; [lia|]. intros o Ho. lia.
  - rewrite Nat2N.inj_succ, N.mul_succ_l in H.
    destruct (get_packed vals bp bits) as [v|] eqn:Hv; [|discriminate].
    destruct (ok v) eqn:Hok; [|exfalso; eapply Hf; eauto].
    rewrite u32_small in E by lia.
    apply IH in E as [E1 E2]; [|lia].
    split; [rewrite Nat2N.inj_succ, N.mul_succ_l; lia|].
    intros o Ho. destruct (N.eq_dec o 0) as [->|Hne].
    + exists v. rewrite N.mul_0_l, N.add_0_r. auto.
    + destruct (E2 (o - 1)) as [w [Hw1 Hw2]]; [lia|]. exists w. split; [|exact Hw2].
      replace (bp + o * bits) with (bp + bits + (o - 1) * bits); [exact Hw1|].
      replace o with (N.succ (o - 1)) at 2 by lia. rewrite N.mul_succ_l. lia.
Qed.

Lemma packed_loop_mono (ok ok' : N -> bool) fail fail' vals bits r bp bp' :
  (forall v, ok v = true -> ok' v = true) -> (forall x, fail <> Ok x) ->
  packed_loop ok fail vals bits r bp = Ok bp' -> packed_loop ok' fail' vals bits r bp = Ok bp'.
Proof.
  intros Hm Hf. revert bp. induction r as [|r IH]; intros bp E; cbn [packed_loop] in *; [exact E|].
  destruct (get_packed vals bp bits) as [v|]; [|discriminate].
  destruct (ok v) eqn:Hok; [|exfalso; eapply Hf; eauto].
  rewrite (Hm v Hok). apply IH. exact E.
Qed.

Lemma u32_mod8 x : x mod 8 = 0 -> u32 x mod 8 = 0.
Proof. unfold u32. change (2 ^ 32) with 4294967296. intro H. lia. Qed.

Lemma round8_mod x : round8 x mod 8 = 0.
Proof.
  unfold round8. destruct (x mod 8 =? 0) eqn:E; [apply N.eqb_eq in E; exact E|].
  apply u32_mod8. apply N.eqb_neq in E. lia.
Qed.
Lemma round8_id x : x mod 8 = 0 -> round8 x = x.
Proof. intro H. unfold round8. now replace (x mod 8 =? 0) with true by (symmetry; apply N.eqb_eq; exact H). Qed.

Lemma sb3_bits_mod8 bp b : bp mod 8 = 0 -> (bp + N.of_nat SB3n * b) mod 8 = 0.
Proof. rewrite SB3n_512. change (N.of_nat 512) with 512. intro H. lia. Qed.

(* Validate never panics on a block whose packed values are long enough *)
Lemma validate_go_total vals nsb bp :
  bp mod 8 = 0 ->
  bp + 8 * sumN (map value_bytes nsb) <= 8 * len vals -> 8 * len vals < 2 ^ 32 ->
  validate_go vals nsb bp <> Panic.
Proof.
  revert bp. induction nsb as [|n rest IH]; intros bp Hm H HL; cbn [validate_go]; [discriminate|].
  cbn [map sumN] in H.
  destruct (n <? 2) eqn:En.
  - apply IH; [exact Hm| |exact HL]. lia.
  - apply N.ltb_ge in En. pose proof (value_bytes_eq n) as Hv. rewrite SB3_512 in Hv.
    pose proof (bits_for_pos n En) as Hb.
    assert (Hr : bp + N.of_nat SB3n * bits_for n <= 8 * len vals).
    { rewrite SB3n_512. change (N.of_nat 512) with 512. lia. }
    destruct (packed_loop (fun ix => ix <? n) Err vals (bits_for n) SB3n bp) as [bp'| |] eqn:E; cbn [res_bind].
    + apply packed_loop_result in E as [E _]; [|discriminate|lia]. subst bp'.
      rewrite round8_id by (apply sb3_bits_mod8; exact Hm).
      apply IH; [apply sb3_bits_mod8; exact Hm| |exact HL].
      rewrite SB3n_512. change (N.of_nat 512) with 512. lia.
    + discriminate.
    + exfalso. eapply (packed_loop_total (fun ix => ix <? n) Err); eauto. discriminate.
Qed.

Lemma load_loop_ok labels idx n i ipos :
  i + N.of_nat n <= SB3 -> ipos + N.of_nat n <= len idx ->
  Forall (fun x => x < len labels) idx ->
  load_loop labels idx n i ipos = Ok (ipos + N.of_nat n).
Proof.
  intros H1 H2 HF. revert i ipos H1 H2. induction n as [|n IH]; intros i ipos H1 H2; cbn [load_loop].
  - f_equal. lia.
  - rewrite Nat2N.inj_succ in *.
    destruct (nth_error_some idx ipos) as [ix Hix]; [lia|]. rewrite Hix.
    pose proof (Forall_nth_error _ _ _ _ HF Hix) as Hlt. cbv beta in Hlt.
    destruct (nth_error_some labels ix) as [l Hl]; [exact Hlt|]. rewrite Hl.
    replace (i <? SB3) with true by (symmetry; apply N.ltb_lt; lia).
    rewrite IH by lia. f_equal. lia.
Qed.

(* a block that passed Validate can be expanded: MakeLabelVolume / calcNumLabels do not panic *)
Lemma volume_after_validate labels idx vals nsb ipos bp :
  bp mod 8 = 0 ->
  ipos + sumN nsb <= len idx ->
  Forall (fun n => n <= SB3) nsb -> Forall (fun x => x < len labels) idx ->
  validate_go vals nsb bp = Ok tt ->
  volume_go labels idx vals nsb ipos bp = Ok tt.
Proof.
  intros Hm Hi Hn HF. revert ipos bp Hm Hi. induction nsb as [|n rest IH]; intros ipos bp Hm Hi E; cbn [volume_go]; [reflexivity|].
  cbn [sumN] in Hi. inversion Hn as [|? ? Hn1 Hn2]; subst.
  rewrite (load_loop_ok labels idx (N.to_nat n) 0 ipos) by (rewrite ?N2Nat.id; lia || exact HF).
  cbn [res_bind]. rewrite N2Nat.id. cbn [validate_go] in E.
  destruct (n <? 2) eqn:En.
  - rewrite round8_id by exact Hm. apply IH; [exact Hn2|exact Hm|lia|exact E].
  - destruct (packed_loop (fun ix => ix <? n) Err vals (bits_for n) SB3n bp) as [bp'| |] eqn:EP; cbn [res_bind] in E; try discriminate.
    assert (EP' : packed_loop (fun ix => ix <? SB3) Panic vals (bits_for n) SB3n bp = Ok bp').
    { eapply packed_loop_mono; [| |exact EP].
      - intros v Hv. apply N.ltb_lt in Hv. apply N.ltb_lt. lia.
      - discriminate. }
    rewrite EP'. cbn [res_bind]. apply IH; [exact Hn2|apply round8_mod|lia|exact E].
Qed.

Lemma value_bytes_small n : n < 2 -> value_bytes n = 0.
Proof. intro H. unfold value_bytes. rewrite bits_for_small by exact H. reflexivity. Qed.

(* ... and looked up: GetPointLabels does not panic *)
Lemma point_after_validate labels idx vals nsb k o c ipos bp :
  o < SB3 -> bp mod 8 = 0 ->
  bp + 8 * sumN (map value_bytes nsb) <= 8 * len vals -> 8 * len vals < 2 ^ 32 ->
  ipos + sumN nsb <= len idx ->
  Forall (fun x => x < len labels) idx ->
  validate_go vals nsb bp = Ok tt ->
  point_go labels idx vals nsb k o c ipos bp = Ok tt.
Proof.
  intros Ho Hm H HL Hi HF. revert c ipos bp Hm H Hi.
  induction nsb as [|n rest IH]; intros c ipos bp Hm H Hi E; cbn [point_go]; [reflexivity|].
  cbn [sumN map] in H, Hi. cbn [validate_go] in E.
  destruct (n =? 0) eqn:E0.
  { apply N.eqb_eq in E0. subst n. cbn in E. rewrite value_bytes_small in H by lia.
    apply IH; [exact Hm|lia|lia|exact E]. }
  destruct (n =? 1) eqn:E1.
  { apply N.eqb_eq in E1. subst n. cbn in E. rewrite value_bytes_small in H by lia.
    destruct (nth_error_some idx ipos) as [ix Hix]; [lia|]. rewrite Hix.
    pose proof (Forall_nth_error _ _ _ _ HF Hix) as Hlt. cbv beta in Hlt.
    destruct (nth_error_some labels ix) as [l Hl]; [exact Hlt|]. rewrite Hl.
    apply IH; [exact Hm|lia|lia|exact E]. }
  apply N.eqb_neq in E0, E1.
  replace (n <? 2) with false in E by (symmetry; apply N.ltb_ge; lia).
  assert (En : 2 <= n) by lia.
  pose proof (value_bytes_eq n) as Hv. rewrite SB3_512 in Hv. rewrite SB3_512 in Ho.
  pose proof (bits_for_pos n En) as Hb.
  destruct (packed_loop (fun ix => ix <? n) Err vals (bits_for n) SB3n bp) as [bp'| |] eqn:EP; cbn [res_bind] in E; try discriminate.
  apply packed_loop_result in EP as [EP1 EP2]; [|discriminate|rewrite SB3n_512; change (N.of_nat 512) with 512; lia].
  rewrite SB3n_512 in EP1, EP2. change (N.of_nat 512) with 512 in EP1, EP2.
  assert (Hhere : (if c =? k
                   then match get_packed vals (bp + o * bits_for n) (bits_for n) with
                        | None => Panic
                        | Some v => match nthN idx (ipos + v) with
                                    | None => Panic
                                    | Some ix => match nthN labels ix with
                                                 | None => Panic
                                                 | Some _ => Ok tt
                                                 end
                                    end
                        end
                   else Ok tt) = Ok tt).
  { destruct (c =? k); [|reflexivity].
    destruct (EP2 o Ho) as [v [Hv1 Hv2]]. rewrite Hv1. apply N.ltb_lt in Hv2.
    destruct (nth_error_some idx (ipos + v)) as [ix Hix]; [lia|]. rewrite Hix.
    pose proof (Forall_nth_error _ _ _ _ HF Hix) as Hlt. cbv beta in Hlt.
    destruct (nth_error_some labels ix) as [l Hl]; [exact Hlt|]. rewrite Hl. reflexivity. }
  rewrite Hhere. cbn [res_bind]. rewrite SB3_512.
  assert (Hm' : (bp + 512 * bits_for n) mod 8 = 0) by lia.
  replace ((bp + 512 * bits_for n) mod 8 =? 0) with true by (symmetry; apply N.eqb_eq; exact Hm').
  subst bp'. rewrite round8_id in E by exact Hm'.
  apply IH; [exact Hm'|lia|lia|exact E].
Qed.
Definition block_limit : N := 2 ^ 29.

Lemma firstn_len_all {A} (l : list A) n : len l = n -> sub l 0 n = l.
Proof. intro H. unfold sub. cbn [skipn N.to_nat]. subst n. unfold len. rewrite Nat2N.id. apply firstn_all. Qed.

Theorem ingest_block_no_panic data : len data < block_limit -> ingest_block true data <> Panic.
Proof.
  intro HL. unfold ingest_block, parse_block. destruct (parse_block_fixed_spec data) as [Hnp Hwf].
  destruct (parse_block_fixed data) as [b| |] eqn:E; cbn [res_bind]; [|discriminate|congruence].
  destruct (Hwf b eq_refl) as [Hv [_ Hw]]. unfold validate.
  destruct (len (b_labels b) <=? 1) eqn:E1; cbn [res_bind]; [discriminate|].
  destruct Hw as [Hw|Hw]; [apply N.leb_gt in E1; lia|]. destruct Hw as (_ & _ & _ & _ & Hvals).
  destruct (validate_go (b_vals b) (b_nsb b) 0) eqn:EV; cbn [res_bind]; try discriminate.
  exfalso. eapply validate_go_total; [| | |exact EV]; [reflexivity|lia|].
  unfold block_limit in HL. change (2 ^ 32) with (8 * 2 ^ 29). lia.
Qed.

Theorem ingest_block_safe data b :
  len data < block_limit -> ingest_block true data = Ok b ->
  view_volume b = Ok tt /\ view_calc b = Ok tt /\ forall k o, o < SB3 -> view_point b k o = Ok tt.
Proof.
  intros HL E. unfold ingest_block, parse_block in E. destruct (parse_block_fixed_spec data) as [_ Hwf].
  destruct (parse_block_fixed data) as [b0| |] eqn:EP; cbn [res_bind] in E; try discriminate.
  destruct (validate b0) as [[]| |] eqn:EV; cbn [res_bind] in E; try discriminate.
  apply Ok_inj in E. subst b0. destruct (Hwf b eq_refl) as [Hv [Hnz Hw]].
  unfold view_volume. replace (num_subblocks b =? 0) with false by (symmetry; apply N.eqb_neq; exact Hnz).
  cut (view_calc b = Ok tt /\ forall k o, o < SB3 -> view_point b k o = Ok tt); [tauto|].
  unfold view_calc, view_point, validate in *.
  destruct (len (b_labels b) <? 2) eqn:E2; [split; [reflexivity|intros; reflexivity]|].
  apply N.ltb_ge in E2. replace (len (b_labels b) <=? 1) with false in EV by (symmetry; apply N.leb_gt; lia).
  destruct Hw as [Hw|Hw]; [lia|]. destruct Hw as (Hn & Hsb & Hsum & Hidx & Hvals).
  replace (len (b_nsb b) <? num_subblocks b) with false by (symmetry; apply N.ltb_ge; lia).
  rewrite (firstn_len_all (b_nsb b) (num_subblocks b) Hn).
  assert (H32 : 8 * len (b_vals b) < 2 ^ 32).
  { unfold block_limit in HL. change (2 ^ 32) with (8 * 2 ^ 29). lia. }
  split.
  - apply volume_after_validate; [reflexivity|lia|exact Hsb|exact Hidx|exact EV].
  - intros k o Ho. destruct (num_subblocks b <=? k); [reflexivity|].
    apply point_after_validate; [exact Ho|reflexivity|lia|exact H32|lia|exact Hidx|exact EV].
Qed.

(* ---- store ---- *)
Lemma key_eqb_eq a b : key_eqb a b = true <-> a = b.
Proof. apply list_eqb_eq. intros; apply N.eqb_eq. Qed.

Lemma sget_sput_other st k k' v : k <> k' -> sget (sput st k v) k' = sget st k'.
Proof.
  intro H. unfold sget, sput. cbn [find fst].
  destruct (key_eqb k k') eqn:E; [apply key_eqb_eq in E; contradiction|reflexivity].
Qed.
Lemma sget_sdel_other st k k' : k <> k' -> sget (sdel st k) k' = sget st k'.
Proof.
  intro H. unfold sget, sdel. cbn [find fst].
  destruct (key_eqb k k') eqn:E; [apply key_eqb_eq in E; contradiction|reflexivity].
Qed.

Definition harmless (o : outcome) : Prop := o = Done \/ o = Rejected.

Section BlocksProofs.
Variable gunzip : bytes -> res bytes.
Hypothesis gunzip_total : forall c, gunzip c <> Panic.
Hypothesis gunzip_bounded : forall c raw, gunzip c = Ok raw -> len raw < block_limit.

Lemma store_blocks_harmless bsz fuel : forall s st, harmless (snd (store_blocks gunzip true bsz fuel s st)).
Proof.
  induction fuel as [|f IH]; intros s st; cbn [store_blocks]; [right; reflexivity|].
  destruct (read_frame s) as [| |coord comp rest]; [left; reflexivity|right; reflexivity|].
  destruct (gunzip comp) as [raw| |] eqn:EG; [|right; reflexivity|exfalso; eapply gunzip_total; eauto].
  pose proof (ingest_block_no_panic raw (gunzip_bounded _ _ EG)) as Hnp.
  destruct (ingest_block true raw) as [b| |] eqn:EI; [|right; reflexivity|congruence].
  cbn [andb]. destruct (negb (dims_ok bsz b)); [right; reflexivity|].
  destruct (ingest_block_safe raw b (gunzip_bounded _ _ EG) EI) as [_ [Hv _]]. rewrite Hv. apply IH.
Qed.

Lemma store_blocks_frame fx bsz fuel : forall s st st' o k,
  store_blocks gunzip fx bsz fuel s st = (st', o) -> ~ In k (frame_coords fuel s) -> sget st' k = sget st k.
Proof.
  induction fuel as [|f IH]; intros s st st' o k E Hk; cbn [store_blocks frame_coords] in *.
  - inversion E; reflexivity.
  - destruct (read_frame s) as [| |coord comp rest]; try (inversion E; reflexivity).
    cbn [In] in Hk. assert (Hne : coord <> k) by tauto. assert (Hk' : ~ In k (frame_coords f rest)) by tauto.
    destruct (gunzip comp) as [raw| |]; try (inversion E; reflexivity).
    destruct (ingest_block fx raw) as [b| |]; try (inversion E; reflexivity).
    destruct (fx && negb (dims_ok bsz b)); [inversion E; reflexivity|].
    destruct (view_calc b).
    + rewrite (IH _ _ _ _ _ E Hk'). apply sget_sput_other. exact Hne.
    + rewrite (IH _ _ _ _ _ E Hk'). apply sget_sput_other. exact Hne.
    + inversion E; subst. apply sget_sput_other. exact Hne.
Qed.
End BlocksProofs.

(* ---- allocation bounds ---- *)
Lemma frame_alloc_bounded s : frame_alloc true s <= len s.
Proof. unfold frame_alloc. destruct (len s <? 16); lia. Qed.
Lemma rles_alloc_bounded s : rles_alloc true s <= 65536.
Proof. unfold rles_alloc. destruct (len s <? 12); lia. Qed.

Lemma read_spans_total n : forall s, read_spans n s <> Panic.
Proof.
  induction n as [|n IH]; intro s; cbn [read_spans]; [discriminate|].
  destruct (len s <? 16); [discriminate|].
  specialize (IH (skipn 16 s)). destruct (read_spans n (skipn 16 s)); cbn [res_bind]; congruence.
Qed.
Lemma read_rles_total s : read_rles s <> Panic.
Proof.
  unfold read_rles. destruct (len s <? 8); [discriminate|]. destruct s as [|h t]; [discriminate|].
  destruct (negb _); [discriminate|]. destruct (_ <? 12); [discriminate|].
  destruct (_ <? _); [discriminate|]. apply read_spans_total.
Qed.

(* ---- tag deltas ---- *)
Lemma erase_tag_total m p t : erase_tag true m p t <> Panic.
Proof. unfold erase_tag. destruct (tm_get m t) as [d|]; [destruct (td_erase d)|]; discriminate. Qed.
Lemma erase_tags_total ts : forall m p, erase_tags true m p ts <> Panic.
Proof.
  induction ts as [|t r IH]; intros m p; cbn [erase_tags]; [discriminate|].
  pose proof (erase_tag_total m p t). destruct (erase_tag true m p t); cbn [res_bind]; [apply IH|discriminate|congruence].
Qed.
Lemma cur_loop_total cur : forall newE m, cur_loop true newE cur m <> Panic.
Proof.
  induction cur as [|c r IH]; intros newE m; cbn [cur_loop]; [discriminate|].
  destruct (find _ newE); [|apply IH].
  match goal with |- res_bind ?x _ <> _ => pose proof (erase_tags_total (filter (fun t => negb (mem t (a_tags a))) (a_tags c)) m (a_pos c)) as H; destruct x end;
    cbn [res_bind]; [apply IH|discriminate|congruence].
Qed.
Lemma add_tag_delta_total newE cur m : add_tag_delta true newE cur m <> Panic.
Proof. unfold add_tag_delta. destruct newE; [discriminate|apply cur_loop_total]. Qed.
Lemma store_elements_total blocks : forall m, store_elements true blocks m <> Panic.
Proof.
  induction blocks as [|[n c] r IH]; intro m; cbn [store_elements]; [discriminate|].
  pose proof (add_tag_delta_total n c m). destruct (add_tag_delta true n c m); cbn [res_bind]; [apply IH|discriminate|congruence].
Qed.
Lemma post_elements_total blocks : post_elements true blocks <> Panic.
Proof. unfold post_elements. destruct (_ && _); [discriminate|apply store_elements_total]. Qed.
(* a post with two elements at one position, or an element repeating a tag, is rejected *)
Lemma post_elements_invalid blocks :
  elements_valid (List.concat (map fst blocks)) = false -> post_elements true blocks = Err.
Proof. intro H. unfold post_elements. rewrite H. reflexivity. Qed.

(* ---- indices ---- *)
Lemma put_index_other st i k : k <> [pi_label i] -> sget (put_index st i) k = sget st k.
Proof.
  intro H. unfold put_index. destruct (pi_blocks i); [apply sget_sdel_other|apply sget_sput_other]; congruence.
Qed.
Lemma put_indices_frame l : forall st st' o k,
  put_indices l st = (st', o) -> ~ In k (map (fun i => [pi_label i]) l) -> sget st' k = sget st k.
Proof.
  induction l as [|i r IH]; intros st st' o k E Hk; cbn [put_indices map In] in *.
  - inversion E; reflexivity.
  - destruct (pi_label i =? 0); [inversion E; reflexivity|].
    rewrite (IH _ _ _ _ E) by tauto. apply put_index_other. intro; subst; tauto.
Qed.
Lemma put_indices_harmless l : forall st, harmless (snd (put_indices l st)).
Proof.
  induction l as [|i r IH]; intro st; cbn [put_indices]; [left; reflexivity|].
  destruct (_ =? 0); [right; reflexivity|apply IH].
Qed.

Lemma put_mappings_frame ops : forall st k,
  ~ In k (concat (map (fun op : mapop => map (fun o => [o]) (snd op)) ops)) ->
  sget (put_mappings ops st) k = sget st k.
Proof.
  unfold put_mappings. induction ops as [|op r IH]; intros st k Hk; cbn [fold_left map concat] in *; [reflexivity|].
  rewrite in_app_iff in Hk. rewrite IH by tauto.
  assert (H1 : ~ In k (map (fun o => [o]) (snd op))) by tauto. clear Hk IH.
  generalize dependent st. induction (snd op) as [|o os IHo]; intro st; cbn [fold_left map In] in *; [reflexivity|].
  rewrite IHo by tauto. apply sget_sput_other. intro; subst; tauto.
Qed.

From Coq Require Import String.
Section Requests.
Variable gunzip : bytes -> res bytes.
Hypothesis gunzip_total : forall c, gunzip c <> Panic.
Hypothesis gunzip_bounded : forall c raw, gunzip c = Ok raw -> len raw < block_limit.

(* no request is answered by a recovered panic or ends the process *)
Theorem handle_harmless r st : harmless (snd (handle gunzip true r st)).
Proof.
  destruct r; cbn [handle].
  - apply store_blocks_harmless; assumption.
  - pose proof (read_rles_total body). destruct (read_rles body); cbn; [left|right|]; congruence.
  - unfold handle_index. destruct dec as [i ok]. destruct ok; cbn.
    + destruct (negb _); [right|left]; reflexivity.
    + right; reflexivity.
  - unfold handle_indices. destruct dec; [apply put_indices_harmless|right; reflexivity].
  - unfold handle_mappings. destruct dec as [ops ok]. destruct ok; cbn; [left|right]; reflexivity.
  - pose proof (post_elements_total blocks). destruct (post_elements true blocks); cbn; [left|right|]; congruence.
  - unfold handle_roi, put_spans. destruct dec; [|right; reflexivity]. destruct (forallb _ _); cbn; [left|right]; reflexivity.
  - left; reflexivity.
  - unfold handle_nj. destruct key_is_number; cbn; [|right; reflexivity]. destruct dec; [left|right]; reflexivity.
Qed.

(* whatever the answer, and in both versions of the code, keys the request does not name
   read back as before *)
Theorem handle_frame fx r st st' o k :
  handle gunzip fx r st = (st', o) -> ~ In k (named r) -> sget st' k = sget st k.
Proof.
  destruct r; cbn [handle named]; intros E Hk.
  - eapply store_blocks_frame; eauto.
  - unfold of_res in E. destruct (read_rles body); inversion E; reflexivity.
  - unfold handle_index in E. destruct dec as [i ok].
    destruct (negb ok && fx); [inversion E; reflexivity|].
    destruct (negb (pi_label i =? url_label)) eqn:EL; [inversion E; reflexivity|].
    apply negb_false_iff, N.eqb_eq in EL. inversion E; subst. apply put_index_other. cbn in Hk. intro; subst; tauto.
  - unfold handle_indices in E. destruct dec as [l|]; [|inversion E; reflexivity]. eapply put_indices_frame; eauto.
  - unfold handle_mappings in E. destruct dec as [ops ok].
    destruct (negb ok && fx); [inversion E; reflexivity|]. inversion E; subst. apply put_mappings_frame. exact Hk.
  - unfold of_res in E. destruct (post_elements fx blocks); inversion E; reflexivity.
  - unfold handle_roi, put_spans in E. destruct dec as [spans|]; [|inversion E; reflexivity].
    cbn in Hk. assert (roi_key <> k) by tauto.
    destruct (forallb span_ok spans); [inversion E; subst; now apply sget_sput_other|].
    destruct fx; inversion E; subst; [reflexivity|now apply sget_sdel_other].
  - unfold handle_kv in E. inversion E; subst. apply sget_sput_other. cbn in Hk. tauto.
  - unfold handle_nj in E. destruct (negb key_is_number); [inversion E; reflexivity|].
    destruct dec; inversion E; subst; [|reflexivity]. apply sget_sput_other. cbn in Hk. tauto.
Qed.

(* a request that is decoded and checked as a whole and then rejected writes nothing *)
Theorem handle_rejected_unchanged r st st' :
  single_shot r = true -> handle gunzip true r st = (st', Rejected) -> st' = st.
Proof.
  destruct r; cbn [single_shot handle]; intros HS E; try discriminate.
  - unfold of_res in E. destruct (read_rles body); inversion E; reflexivity.
  - unfold handle_index in E. destruct dec as [i ok]. destruct ok; cbn in E.
    + destruct (negb _); inversion E; reflexivity.
    + inversion E; reflexivity.
  - unfold handle_mappings in E. destruct dec as [ops ok]. destruct ok; cbn in E; inversion E; reflexivity.
  - unfold of_res in E. destruct (post_elements true blocks); inversion E; reflexivity.
  - unfold handle_roi, put_spans in E. destruct dec; [|inversion E; reflexivity].
    destruct (forallb _ _); inversion E; reflexivity.
  - unfold handle_nj in E. destruct (negb key_is_number); [inversion E; reflexivity|]. destruct dec; inversion E; reflexivity.
Qed.
End Requests.

(* ---- the code as it stands: concrete witnesses (each reproduced on the real code by the driver) ---- *)
Local Open Scope string_scope.
(* header 1x1x1 sub-blocks, numLabels = 2, but only one label follows *)
Definition w_inflated_labels : bytes := hx "010000000100000001000000020000000500000000000000".
(* two labels but a zero sub-block dimension *)
Definition w_zero_dim : bytes := hx "0000000001000000010000000200000005000000000000000600000000000000".
(* 2x1x1 sub-blocks, labels {5,6}, one label per sub-block, the second index is 77 *)
Definition w_index_outside : bytes :=
  hx "020000000100000001000000020000000500000000000000060000000000000001000100000000004d000000".
(* 2x1x1 sub-blocks, the first has two labels, but no packed values follow *)
Definition w_no_values : bytes :=
  hx "020000000100000001000000020000000500000000000000060000000000000002000100000000000100000000000000".
(* 2x1x1 sub-blocks, labels {5,6,7}; the second sub-block has 3 labels (2 bits per voxel) and
   every packed value is 3 *)
Definition w_packed_value : bytes :=
  (hx "020000000100000001000000030000000500000000000000060000000000000007000000000000000100030000000000000000000100000002000000"
  ++ repeat 255%N 128)%list.
(* 2x1x1 sub-blocks, labels {5,6}; the first sub-block declares 513 labels, with all the
   (zero) indices and 10-bit packed values that would go with them *)
Definition w_many_labels : bytes :=
  (hx "020000000100000001000000020000000500000000000000060000000000000001020100" ++ repeat 0%N (514 * 4 + 640))%list.
(* one label, zero sub-blocks in x *)
Definition w_zero_dim_solid : bytes := hx "000000000100000001000000010000000500000000000000".
Local Close Scope string_scope.

Lemma impl_many_labels_accepted :
  exists b, parse_block_impl w_many_labels = Ok b /\ view_calc b = Panic.
Proof. eexists. split; [vm_compute; reflexivity|]. vm_compute. reflexivity. Qed.
Lemma impl_zero_dim_solid_accepted :
  exists b, parse_block_impl w_zero_dim_solid = Ok b /\ view_volume b = Panic /\ view_calc b = Ok tt.
Proof. eexists. split; [vm_compute; reflexivity|]. split; vm_compute; reflexivity. Qed.

Lemma impl_inflated_labels_panics : parse_block_impl w_inflated_labels = Panic.
Proof. vm_compute. reflexivity. Qed.
Lemma impl_zero_dim_panics : parse_block_impl w_zero_dim = Panic.
Proof. vm_compute. reflexivity. Qed.
Lemma impl_index_outside_accepted :
  exists b, parse_block_impl w_index_outside = Ok b /\ view_volume b = Panic.
Proof. eexists. split; [vm_compute; reflexivity|]. vm_compute. reflexivity. Qed.
Lemma impl_no_values_accepted :
  exists b, parse_block_impl w_no_values = Ok b /\ view_volume b = Panic.
Proof. eexists. split; [vm_compute; reflexivity|]. vm_compute. reflexivity. Qed.
(* the structural checks of the repaired UnmarshalBinary alone do not protect point lookups:
   Validate is needed at ingestion *)
Lemma packed_value_needs_validate :
  exists b, parse_block_impl w_packed_value = Ok b /\ parse_block_fixed w_packed_value = Ok b /\
            view_volume b = Ok tt /\ view_point b 1 0 = Panic /\ validate b = Err.
Proof.
  eexists. split; [vm_compute; reflexivity|]. split; [vm_compute; reflexivity|].
  split; [vm_compute; reflexivity|]. split; vm_compute; reflexivity.
Qed.
Lemma fixed_rejects_witnesses :
  ingest_block true w_inflated_labels = Err /\ ingest_block true w_zero_dim = Err /\
  ingest_block true w_index_outside = Err /\ ingest_block true w_no_values = Err /\
  ingest_block true w_packed_value = Err /\ ingest_block true w_many_labels = Err /\
  ingest_block true w_zero_dim_solid = Err.
Proof. repeat split; vm_compute; reflexivity. Qed.

(* request level, with the identity as the gzip oracle *)
Definition id_gunzip (c : bytes) : res bytes := Ok c.
Definition one_frame (raw : bytes) : bytes := le_enc 4 3 ++ le_enc 4 0 ++ le_enc 4 0 ++ le_enc 4 (len raw) ++ raw.

Lemma impl_blocks_crash : snd (handle id_gunzip false (RBlocks (2, 1, 1) (one_frame w_index_outside)) []) = Crashed.
Proof. vm_compute. reflexivity. Qed.
Lemma impl_blocks_recovered : snd (handle id_gunzip false (RBlocks (1, 1, 1) (one_frame w_inflated_labels)) []) = Recovered.
Proof. vm_compute. reflexivity. Qed.
Lemma fixed_blocks_rejected :
  handle id_gunzip true (RBlocks (2, 1, 1) (one_frame w_index_outside)) [] = ([], Rejected) /\
  handle id_gunzip true (RBlocks (1, 1, 1) (one_frame w_inflated_labels)) [] = ([], Rejected).
Proof. split; vm_compute; reflexivity. Qed.

(* POST index/20 whose body fails to decode after the label field: answered 400, index deleted *)
Lemma impl_index_rejected_but_deleted :
  let st := [([20], Some [20; 1])] in
  let r := RIndex 20 ({| pi_label := 20; pi_blocks := [] |}, false) in
  snd (handle id_gunzip false r st) = Rejected /\
  sget st [20] = Some [20; 1] /\ sget (fst (handle id_gunzip false r st)) [20] = None.
Proof. repeat split; vm_compute; reflexivity. Qed.
Lemma impl_mappings_rejected_but_applied :
  let r := RMappings ([(60, [61])], false) in
  snd (handle id_gunzip false r []) = Rejected /\ sget (fst (handle id_gunzip false r [])) [61] = Some [60].
Proof. repeat split; vm_compute; reflexivity. Qed.
Lemma impl_roi_rejected_but_deleted :
  let st := [(roi_key, Some [1; 1])] in
  let r := RRoi (Some [(2, 1, 1%Z, 3%Z); (1, 2, 5%Z, 3%Z)]) in
  snd (handle id_gunzip false r st) = Rejected /\
  sget st roi_key = Some [1; 1] /\ sget (fst (handle id_gunzip false r st)) roi_key = None.
Proof. repeat split; vm_compute; reflexivity. Qed.

(* POST elements: stored element at position 1 carries tag 7; the post drops it there and adds
   tag 7 to the element at position 2 of the same block *)
Definition w_elements : list (list aelem * list aelem) :=
  [([{| a_pos := 1; a_tags := [] |}; {| a_pos := 2; a_tags := [7] |}], [{| a_pos := 1; a_tags := [7] |}])].
Lemma impl_elements_recovered : snd (handle id_gunzip false (RElements w_elements) []) = Recovered.
Proof. vm_compute. reflexivity. Qed.
Lemma fixed_elements_done : snd (handle id_gunzip true (RElements w_elements) []) = Done.
Proof. vm_compute. reflexivity. Qed.

(* counts handed to make() before any of the announced data has arrived *)
Lemma impl_frame_alloc_unbounded :
  frame_alloc false (le_enc 4 0 ++ le_enc 4 0 ++ le_enc 4 0 ++ [255; 255; 255; 255]) = 4294967295.
Proof. vm_compute. reflexivity. Qed.
Lemma impl_rles_alloc_unbounded :
  rles_alloc false ([0; 3; 0; 0; 0; 0; 0; 0] ++ [255; 255; 255; 255]) = 4294967295.
Proof. vm_compute. reflexivity. Qed.

(* an index whose blocks carry no supervoxel counts is accepted; GET supervoxel-sizes on it *)
Lemma impl_svsizes_panics : view_svsizes false {| pi_label := 21; pi_blocks := [(0, [])] |} = Panic.
Proof. reflexivity. Qed.
Lemma fixed_svsizes_ok i : view_svsizes true i = Ok tt.
Proof. unfold view_svsizes. destruct (List.concat _); reflexivity. Qed.

(* ---- the throttle slot (Gen/Throttle.v, regenerated from the source on every run) ---- *)
(* every handler that takes the server-wide throttle slot hands it back with a defer placed
   immediately after taking it, i.e. on every path out of the handler, panics included *)
Lemma throttle_sites_deferred : forallb (fun s : String.string * bool => snd s) throttle_sites = true.
Proof. reflexivity. Qed.
Lemma throttle_sites_nonempty : throttle_sites <> [].
Proof. discriminate. Qed.

(* ---- label ids chosen by the driver's labelmap histories ---- *)
(* ids that differ by a multiple of shard_stride (harness/drivers/c20: shardStride) fall into the
   same shard of the label-index locks: the shard count read from the source divides it *)
Definition shard_stride : N := 720720 * 65536.
Lemma shard_stride_covers_source : shard_stride mod n_P_numIndexShards = 0 /\ n_P_numIndexShards <> 0.
Proof. split; [reflexivity|discriminate]. Qed.
