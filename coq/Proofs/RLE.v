(* Proofs.RLE: the run-length algebra of dvid/volumes.go keeps voxel sets (C18). *)
From DV Require Import Base.Prelude Base.Int Base.WrapZ Model.Geometry Model.RLE Gen.Consts.
From DV Require Import Proofs.Geometry.
From Coq Require Import ZifyBool ZifyN ZifyNat Sorting.Sorted Sorting.Permutation.
Ltac Zify.zify_post_hook ::= Z.div_mod_to_equations.
Local Open Scope Z_scope.

(* the no-overflow range: non-empty runs with x extent inside [-2^29, 2^29] and y, z inside [-2^30, 2^30) *)
Definition run_ok (r : rle) : Prop :=
  - 536870912 <= rx r /\ 1 <= rlen r /\ rx r + rlen r <= 536870912
  /\ - 1073741824 <= ry r < 1073741824 /\ - 1073741824 <= rz r < 1073741824.

Lemma add32_id a b : - 2147483648 <= a + b < 2147483648 -> add32 a b = a + b.
Proof. intro H. unfold add32. apply w32_id. unfold is32. change (2^31) with 2147483648. lia. Qed.
Lemma sub32_id a b : - 2147483648 <= a - b < 2147483648 -> sub32 a b = a - b.
Proof. intro H. unfold sub32. apply w32_id. unfold is32. change (2^31) with 2147483648. lia. Qed.

Ltac unw :=
  repeat match goal with
         | |- context [add32 ?a ?b] => rewrite (add32_id a b) by lia
         | |- context [sub32 ?a ?b] => rewrite (sub32_id a b) by lia
         | H : context [add32 ?a ?b] |- _ => rewrite (add32_id a b) in H by lia
         | H : context [sub32 ?a ?b] |- _ => rewrite (sub32_id a b) in H by lia
         end.

Ltac rdestr := repeat match goal with r : rle |- _ => destruct r end; cbn [rx ry rz rlen] in *.
Ltac pdestr := repeat match goal with p : pt |- _ => destruct p as [[? ?] ?] end;
               unfold px, py, pz in *; cbn [fst snd] in *.

(* ---- membership basics ---- *)
Lemma inrs_cons p r l : inrs p (r :: l) = inr p r || inrs p l.
Proof. reflexivity. Qed.
Lemma inrs_nil p : inrs p [] = false.
Proof. reflexivity. Qed.
Lemma inrs_app p a b : inrs p (a ++ b) = inrs p a || inrs p b.
Proof. apply existsb_app. Qed.

Lemma inrs_perm p a b : Permutation a b -> inrs p a = inrs p b.
Proof.
  induction 1 as [|x l l' HP IH|x y l|l l' l'' H1 IH1 H2 IH2]; rewrite ?inrs_cons; try congruence.
  destruct (inr p x), (inr p y); reflexivity.
Qed.

Lemma rle_insert_perm r l : Permutation (r :: l) (rle_insert r l).
Proof.
  induction l as [|h t IH]; cbn; [constructor; constructor|].
  destruct (rle_less r h); [apply Permutation_refl|].
  eapply perm_trans; [apply perm_swap|]. now constructor.
Qed.
Lemma rle_sort_perm l : Permutation l (rle_sort l).
Proof.
  induction l as [|h t IH]; cbn; [constructor|].
  eapply perm_trans; [|apply rle_insert_perm]. now constructor.
Qed.

(* ---- Normalize keeps the voxel set ---- *)
Definition grow_ok (r : rle) : Prop :=
  - 536870912 <= rx r /\ 0 <= rlen r /\ rx r + rlen r <= 536870912.

Lemma merge_loop_voxels p rest : forall old, grow_ok old -> Forall grow_ok rest ->
  inrs p (merge_loop old rest) = inr p old || inrs p rest.
Proof.
  induction rest as [|r rest IH]; intros old Ho Hr; cbn [merge_loop]; rewrite ?inrs_cons, ?inrs_nil.
  - reflexivity.
  - inversion Hr as [|? ? Hr1 Hr2]; subst.
    destruct (negb (ry r =? ry old) || negb (rz r =? rz old) || negb (rx r =? add32 (rx old) (rlen old))) eqn:C.
    + rewrite inrs_cons. now rewrite IH.
    + rewrite IH; [| |assumption].
      * rewrite orb_assoc. f_equal. unfold grow_ok in *. unfold inr. rdestr. pdestr. unw. lia.
      * unfold grow_ok in *. rdestr. unw. lia.
Qed.

Lemma run_ok_grow r : run_ok r -> grow_ok r.
Proof. unfold run_ok, grow_ok. lia. Qed.

Lemma normalize_voxels_l l p : Forall run_ok l -> inrs p (normalize l) = inrs p l.
Proof.
  intro H. unfold normalize. pose proof (rle_sort_perm l) as P.
  rewrite (inrs_perm p _ _ P).
  assert (F : Forall grow_ok (rle_sort l)).
  { eapply Permutation_Forall; [exact P|]. eapply Forall_impl; [|exact H]. apply run_ok_grow. }
  destruct (rle_sort l) as [|h t]; [reflexivity|].
  inversion F; subst. now rewrite merge_loop_voxels.
Qed.

(* ---- order facts ---- *)
Definition row_lt (a b : rle) : Prop := rz a < rz b \/ (rz a = rz b /\ ry a < ry b).
Definition same_row (a b : rle) : Prop := rz a = rz b /\ ry a = ry b.
(* a lies entirely before b in (z, y, x) order *)
Definition run_lt (a b : rle) : Prop := row_lt a b \/ (same_row a b /\ rx a + rlen a <= rx b).
(* ... and they are not adjacent *)
Definition run_gap (a b : rle) : Prop := row_lt a b \/ (same_row a b /\ rx a + rlen a < rx b).
Definition le_start (a b : rle) : Prop := rle_less b a = false.
Definition disjoint_runs (a b : rle) : Prop := forall p, inr p a = true -> inr p b = true -> False.
Definition pairwise_disjoint (l : list rle) : Prop := ForallOrdPairs disjoint_runs l.

Ltac unf := unfold run_gap, run_lt, run_ok in *; unfold row_lt, same_row in *.

Lemma rle_less_spec a b : rle_less a b = true <->
  (rz a < rz b \/ (rz a = rz b /\ (ry a < ry b \/ (ry a = ry b /\ rx a < rx b)))).
Proof.
  unfold rle_less.
  destruct (Z.ltb_spec (rz a) (rz b)); [lia|]. destruct (Z.ltb_spec (rz b) (rz a)); [lia|].
  destruct (Z.ltb_spec (ry a) (ry b)); [lia|]. destruct (Z.ltb_spec (ry b) (ry a)); [lia|]. lia.
Qed.

Lemma le_start_spec a b : le_start a b <->
  (rz a < rz b \/ (rz a = rz b /\ (ry a < ry b \/ (ry a = ry b /\ rx a <= rx b)))).
Proof.
  unfold le_start. pose proof (rle_less_spec b a) as S.
  destruct (rle_less b a); split; intro H; try reflexivity; try discriminate.
  - destruct S as [S _]. specialize (S eq_refl). lia.
  - destruct S as [_ S]. assert (N : ~ (rz b < rz a \/ rz b = rz a /\ (ry b < ry a \/ ry b = ry a /\ rx b < rx a))).
    { intro X. specialize (S X). discriminate. } lia.
Qed.

Lemma le_start_trans a b c : le_start a b -> le_start b c -> le_start a c.
Proof. rewrite !le_start_spec. lia. Qed.

Lemma insert_sorted r l : StronglySorted le_start l -> StronglySorted le_start (rle_insert r l).
Proof.
  induction 1 as [|h t Ht IH Hh]; cbn [rle_insert]; [constructor; constructor|].
  destruct (rle_less r h) eqn:E.
  - constructor; [constructor; assumption|].
    assert (L : le_start r h).
    { apply le_start_spec. apply rle_less_spec in E. lia. }
    constructor; [exact L|]. eapply Forall_impl; [|exact Hh]. intros e He. eapply le_start_trans; eassumption.
  - constructor; [exact IH|].
    eapply Permutation_Forall; [apply rle_insert_perm|]. constructor; [exact E|exact Hh].
Qed.

Lemma sort_sorted l : StronglySorted le_start (rle_sort l).
Proof. induction l; cbn; [constructor|now apply insert_sorted]. Qed.

Lemma disjoint_runs_sym a b : disjoint_runs a b -> disjoint_runs b a.
Proof. intros H p Hb Ha. exact (H p Ha Hb). Qed.

Lemma FOP_perm (R : rle -> rle -> Prop) (Rsym : forall a b, R a b -> R b a) l l' :
  Permutation l l' -> ForallOrdPairs R l -> ForallOrdPairs R l'.
Proof.
  induction 1 as [|x l l' HP IH|x y l|l l' l'' H1 IH1 H2 IH2]; intro F.
  - exact F.
  - inversion F; subst. constructor; [eapply Permutation_Forall; eassumption|auto].
  - inversion F as [|? ? Fy F2]; subst. inversion F2 as [|? ? Fx F3]; subst.
    inversion Fy; subst. constructor; [constructor; [apply Rsym; assumption|assumption]|].
    constructor; assumption.
  - auto.
Qed.

(* non-empty disjoint runs, the first starting no later: the first ends before the second starts *)
Lemma disjoint_le_start_lt a b : run_ok a -> run_ok b -> disjoint_runs a b -> le_start a b -> run_lt a b.
Proof.
  intros Ha Hb D L. apply le_start_spec in L. unfold run_lt, row_lt, same_row.
  destruct (Z_lt_le_dec (rz a) (rz b)); [lia|]. destruct (Z_lt_le_dec (ry a) (ry b)); [lia|].
  right. split; [lia|].
  destruct (Z_le_gt_dec (rx a + rlen a) (rx b)); [assumption|]. exfalso.
  apply (D (rx b, ry b, rz b)); unfold inr, run_ok in *; pdestr; lia.
Qed.

Lemma sorted_disjoint_lt l : Forall run_ok l -> StronglySorted le_start l -> pairwise_disjoint l ->
  StronglySorted run_lt l.
Proof.
  intros Hok Hs. revert Hok. induction Hs as [|h t Ht IH Hh]; intros Hok D; [constructor|].
  inversion Hok; subst. inversion D; subst. constructor; [auto|].
  rewrite Forall_forall in *. intros e He. apply disjoint_le_start_lt; auto.
Qed.

Lemma merge_loop_heads (P : rle -> Prop)
  (Hext : forall a b, rx a = rx b -> ry a = ry b -> rz a = rz b -> P a -> P b) rest :
  forall old, Forall P (old :: rest) -> Forall P (merge_loop old rest).
Proof.
  induction rest as [|r rest IH]; intros old F; cbn [merge_loop]; [assumption|].
  inversion F as [|? ? Fo Fr]; subst.
  destruct (_ || _).
  - constructor; [assumption|]. apply IH; assumption.
  - apply IH. inversion Fr; subst. constructor; [|assumption]. eapply Hext; [..|exact Fo]; reflexivity.
Qed.

Lemma merge_loop_ok rest : forall old, Forall run_ok (old :: rest) -> Forall run_ok (merge_loop old rest).
Proof.
  induction rest as [|r rest IH]; intros old F; cbn [merge_loop]; [assumption|].
  inversion F as [|? ? Fo Fr]; subst. inversion Fr as [|? ? Fr1 Fr2]; subst.
  destruct (_ || _) eqn:C.
  - constructor; [assumption|]. apply IH; assumption.
  - apply IH. constructor; [|assumption]. unfold run_ok in *. rdestr. unw. lia.
Qed.

Lemma merge_loop_canon rest : forall old, Forall run_ok (old :: rest) ->
  StronglySorted run_lt (old :: rest) -> StronglySorted run_gap (merge_loop old rest).
Proof.
  induction rest as [|r rest IH]; intros old F S; cbn [merge_loop]; [repeat constructor|].
  inversion F as [|? ? Fo Fr]; subst. inversion Fr as [|? ? Fr1 Fr2]; subst.
  inversion S as [|? ? S1 So]; subst. inversion S1 as [|? ? S2 Sr]; subst.
  inversion So as [|? ? Sor Sot]; subst.
  destruct (_ || _) eqn:C.
  - constructor; [apply IH; assumption|].
    apply merge_loop_heads.
    { unfold run_gap, row_lt, same_row. intros a b E1 E2 E3. rewrite E1, E2, E3. auto. }
    constructor.
    + unf. rdestr. unw. lia.
    + rewrite Forall_forall in *. intros e He. specialize (Sot e He). specialize (Sr e He). specialize (Fr2 e He).
      unf. rdestr. lia.
  - apply IH.
    + constructor; [|assumption]. unfold run_ok in *. rdestr. unw. lia.
    + constructor; [assumption|]. rewrite Forall_forall in *. intros e He. specialize (Sr e He).
      unf. rdestr. unw. lia.
Qed.

Definition canon (l : list rle) : Prop := StronglySorted run_gap l /\ Forall run_ok l.

Lemma normalize_canon l : Forall run_ok l -> pairwise_disjoint l -> canon (normalize l).
Proof.
  intros Hok D. unfold normalize, canon.
  pose proof (rle_sort_perm l) as P. pose proof (sort_sorted l) as S.
  assert (Hok' : Forall run_ok (rle_sort l)) by (eapply Permutation_Forall; eassumption).
  assert (D' : pairwise_disjoint (rle_sort l)).
  { eapply FOP_perm; [apply disjoint_runs_sym|exact P|exact D]. }
  pose proof (sorted_disjoint_lt _ Hok' S D') as L.
  destruct (rle_sort l) as [|h t]; [split; constructor|].
  split; [apply merge_loop_canon; assumption|apply merge_loop_ok; assumption].
Qed.

(* ---- Excise and Split ---- *)
Definition contains (r s : rle) : Prop :=
  same_row r s /\ rx r <= rx s /\ rx s + rlen s <= rx r + rlen r.

Ltac unf ::= unfold contains, run_gap, run_lt, run_ok in *; unfold row_lt, same_row in *.

Definition excise_frags (r s : rle) : list rle :=
  (if rx r <? rx s then [R (rx r) (ry r) (rz r) (rx s - rx r)] else [])
  ++ (if rx s + rlen s <? rx r + rlen r then [R (rx s + rlen s) (ry r) (rz r) (rx r + rlen r - (rx s + rlen s))] else []).

Lemma excise_contains r s : run_ok r -> run_ok s -> contains r s -> excise r s = Some (excise_frags r s).
Proof.
  unfold run_ok, contains, same_row, excise, excise_frags. intros Hr Hs C. rdestr. unw.
  replace (negb (rz0 =? rz) || negb (ry0 =? ry)) with false by lia.
  replace ((rx + rlen - 1 <? rx0) || (rx0 + rlen0 - 1 <? rx)) with false by lia.
  replace (rx + rlen - 1 <? rx0 + rlen0 - 1) with (rx + rlen <? rx0 + rlen0) by lia.
  do 2 f_equal.
  destruct (rx + rlen <? rx0 + rlen0); [|reflexivity]. do 2 f_equal; lia.
Qed.

Lemma excise_before r s c : run_ok r -> run_ok s -> run_ok c -> run_lt r c -> contains c s -> excise r s = None.
Proof.
  unfold run_ok, contains, same_row, run_lt, row_lt, excise. intros Hr Hs Hc L C. rdestr. unw.
  destruct (negb (rz1 =? rz0) || negb (ry1 =? ry0)) eqn:E; [reflexivity|].
  replace ((rx0 + rlen0 - 1 <? rx1) || (rx1 + rlen1 - 1 <? rx0)) with true by lia. reflexivity.
Qed.

Lemma excise_frags_voxels r s p : run_ok r -> run_ok s -> contains r s ->
  inrs p (excise_frags r s) = inr p r && negb (inr p s).
Proof.
  unfold run_ok, contains, same_row, excise_frags. intros Hr Hs C. rdestr. pdestr.
  destruct (Z.ltb_spec rx0 rx); destruct (Z.ltb_spec (rx + rlen) (rx0 + rlen0));
    cbn [app inrs existsb]; unfold inr, px, py, pz; cbn [RLE.rx RLE.ry RLE.rz RLE.rlen fst snd]; lia.
Qed.

Lemma run_lt_disjoint a b p : run_lt a b -> inr p a = true -> inr p b = false.
Proof. unfold run_lt, row_lt, same_row, inr. rdestr. pdestr. lia. Qed.
Lemma run_lt_disjoint' a b p : run_lt a b -> inr p b = true -> inr p a = false.
Proof. unfold run_lt, row_lt, same_row, inr. rdestr. pdestr. lia. Qed.

Lemma SS_app (Rel : rle -> rle -> Prop) a b :
  StronglySorted Rel (a ++ b) <->
  (StronglySorted Rel a /\ StronglySorted Rel b /\ forall x y, In x a -> In y b -> Rel x y).
Proof.
  induction a as [|h t IH]; cbn [app].
  - split; [intro H; repeat split; [constructor|exact H|intros ? ? []]|intros (_ & H & _); exact H].
  - split.
    + intro H. inversion H as [|? ? H1 H2]; subst. apply IH in H1 as (A & B & C).
      rewrite Forall_app in H2. destruct H2 as [F1 F2].
      repeat split; [constructor; assumption|assumption|].
      intros x y [<-|Hx] Hy; [rewrite Forall_forall in F2; auto|auto].
    + intros (A & B & C). inversion A; subst. constructor.
      * apply IH. repeat split; auto. intros x y Hx Hy. apply C; [right|]; assumption.
      * rewrite Forall_app. split; [assumption|]. rewrite Forall_forall. intros y Hy. apply C; [left; reflexivity|assumption].
Qed.

Lemma inrs_false_forall p l : (forall e, In e l -> inr p e = false) -> inrs p l = false.
Proof.
  induction l as [|h t IH]; intro H; [reflexivity|]. rewrite inrs_cons, (H h (or_introl eq_refl)), IH; [reflexivity|].
  intros e He. apply H. now right.
Qed.

(* replacing a run o of a sorted disjoint list by sub-runs that make up o minus s *)
Lemma replace_run pre o post frags s :
  StronglySorted run_lt (pre ++ o :: post) -> Forall run_ok (pre ++ o :: post) -> run_ok s -> contains o s ->
  (forall p, inrs p frags = inr p o && negb (inr p s)) ->
  StronglySorted run_lt frags -> Forall run_ok frags -> Forall (contains o) frags ->
  (forall p, inrs p (pre ++ frags ++ post) = inrs p (pre ++ o :: post) && negb (inr p s))
  /\ StronglySorted run_lt (pre ++ frags ++ post) /\ Forall run_ok (pre ++ frags ++ post).
Proof.
  intros S Hok Hs C V Sf Okf Cf.
  apply SS_app in S as (Spre & So & Cross). inversion So as [|? ? Spost Fo]; subst.
  rewrite Forall_app in Hok. destruct Hok as [Okpre Oko]. inversion Oko as [|? ? Oko1 Okpost]; subst.
  rewrite Forall_forall in Fo, Cf, Okf, Okpre, Okpost.
  repeat split.
  - intro p. rewrite !inrs_app, inrs_cons, V.
    destruct (inr p s) eqn:Es; [|now rewrite !andb_true_r].
    assert (Eo : inr p o = true).
    { unfold contains, same_row, inr in *. rdestr. pdestr. lia. }
    rewrite (inrs_false_forall p pre).
    2:{ intros e He. eapply run_lt_disjoint'; [|exact Eo]. apply Cross; [assumption|left; reflexivity]. }
    rewrite (inrs_false_forall p post).
    2:{ intros e He. eapply run_lt_disjoint; [|exact Eo]. apply Fo; assumption. }
    now rewrite !andb_false_r.
  - apply SS_app. repeat split; [assumption| |].
    + apply SS_app. repeat split; [assumption|assumption|].
      intros f e Hf He. specialize (Cf f Hf). specialize (Fo e He). specialize (Okf f Hf).
      unf. rdestr. lia.
    + intros e y He Hy. apply in_app_or in Hy as [Hy|Hy].
      * specialize (Cf y Hy). specialize (Cross e o He (or_introl eq_refl)). specialize (Okf y Hy).
        unf. rdestr. lia.
      * apply Cross; [assumption|right; assumption].
  - rewrite !Forall_app. repeat split; rewrite Forall_forall; assumption.
Qed.

Lemma excise_frags_props r s : run_ok r -> run_ok s -> contains r s ->
  StronglySorted run_lt (excise_frags r s) /\ Forall run_ok (excise_frags r s) /\ Forall (contains r) (excise_frags r s).
Proof.
  unfold run_ok, contains, same_row, excise_frags. intros Hr Hs C. rdestr.
  destruct (Z.ltb_spec rx0 rx); destruct (Z.ltb_spec (rx + rlen) (rx0 + rlen0)); cbn [app];
    repeat split; repeat constructor; unfold run_lt, row_lt, same_row; cbn [RLE.rx RLE.ry RLE.rz RLE.rlen]; lia.
Qed.

Lemma split_one_spec s : run_ok s -> forall after before,
  Forall run_ok (rev before ++ after) -> StronglySorted run_lt (rev before ++ after) ->
  (exists r, In r after /\ contains r s) ->
  exists b' a', split_one s before after = Some (b', a')
    /\ (forall p, inrs p (rev b' ++ a') = inrs p (rev before ++ after) && negb (inr p s))
    /\ Forall run_ok (rev b' ++ a') /\ StronglySorted run_lt (rev b' ++ a')
    /\ (forall s', run_ok s' -> run_lt s s' -> (exists r, In r after /\ contains r s') ->
                   exists r, In r a' /\ contains r s').
Proof.
  intros Hs. induction after as [|o tl IH]; intros before Hok S (r & Hin & C); [destruct Hin|].
  assert (Oko : run_ok o).
  { rewrite Forall_app in Hok. destruct Hok as [_ H]. inversion H; assumption. }
  assert (Fo : forall e, In e tl -> run_lt o e /\ run_ok e).
  { apply SS_app in S as (_ & So & _). inversion So as [|? ? _ F]; subst.
    rewrite Forall_app in Hok. destruct Hok as [_ H]. inversion H as [|? ? _ H2]; subst.
    rewrite Forall_forall in F, H2. intros e He. split; auto. }
  destruct Hin as [<-|Hin].
  - (* o is the run that contains s *)
    cbn [split_one]. rewrite (excise_contains o s Oko Hs C).
    destruct (excise_frags_props o s Oko Hs C) as (Sf & Okf & Cf).
    destruct (replace_run (rev before) o tl (excise_frags o s) s S Hok Hs C
                (fun p => excise_frags_voxels o s p Oko Hs C) Sf Okf Cf) as (V & S' & Ok').
    assert (Tail : forall s', run_ok s' -> run_lt s s' -> (exists r, In r (o :: tl) /\ contains r s') ->
                   forall a', (forall e, In e tl -> In e a') ->
                   (rx s + rlen s < rx o + rlen o ->
                    In (R (rx s + rlen s) (ry o) (rz o) (rx o + rlen o - (rx s + rlen s))) a') ->
                   exists r, In r a' /\ contains r s').
    { intros s' Hs' L (r & [<-|Hr] & Cr) a' Htl Hright.
      - eexists. split; [apply Hright|];
          unfold contains, same_row, run_lt, row_lt, run_ok in *; rdestr; lia.
      - exists r. split; [apply Htl; assumption|assumption]. }
    unfold excise_frags in *.
    destruct (Z.ltb_spec (rx o) (rx s)); destruct (Z.ltb_spec (rx s + rlen s) (rx o + rlen o)); cbn [app] in *.
    + eexists _, _. split; [reflexivity|]. cbn [rev]. rewrite <- app_assoc. cbn [app].
      repeat split; try assumption.
      intros s' Hs' L Ex. apply (Tail s' Hs' L Ex); [intros e He; right; assumption|intros _; left; reflexivity].
    + eexists _, _. split; [reflexivity|]. repeat split; try assumption.
      intros s' Hs' L Ex. apply (Tail s' Hs' L Ex); [intros e He; right; assumption|lia].
    + eexists _, _. split; [reflexivity|]. repeat split; try assumption.
      intros s' Hs' L Ex. apply (Tail s' Hs' L Ex); [intros e He; right; assumption|intros _; left; reflexivity].
    + eexists _, _. split; [reflexivity|]. repeat split; try assumption.
      intros s' Hs' L Ex. apply (Tail s' Hs' L Ex); [intros e He; assumption|lia].
  - (* the container is further on: o does not intersect s *)
    destruct (Fo r Hin) as (Lor & Okr).
    cbn [split_one]. rewrite (excise_before o s r Oko Hs Okr Lor C).
    assert (E : rev (o :: before) ++ tl = rev before ++ o :: tl).
    { cbn [rev]. rewrite <- app_assoc. reflexivity. }
    destruct (IH (o :: before)) as (b' & a' & E1 & V & Ok' & S' & T).
    { rewrite E. assumption. } { rewrite E. assumption. } { exists r. split; assumption. }
    exists b', a'. split; [exact E1|]. rewrite E in V. repeat split; try assumption.
    intros s' Hs' L (r' & [<-|Hr'] & Cr').
    + exfalso. unf. rdestr. lia.
    + apply T; [assumption|assumption|]. exists r'. split; assumption.
Qed.

Lemma split_all_spec ss : forall before after,
  Forall run_ok ss -> StronglySorted run_lt ss ->
  Forall run_ok (rev before ++ after) -> StronglySorted run_lt (rev before ++ after) ->
  Forall (fun s => exists r, In r after /\ contains r s) ss ->
  exists out, split_all ss before after = Some out
    /\ forall p, inrs p out = inrs p (rev before ++ after) && negb (inrs p ss).
Proof.
  induction ss as [|s ss IH]; intros before after Okss Sss Ok S Cont; cbn [split_all].
  - eexists. split; [reflexivity|]. intro p. now rewrite inrs_nil, andb_true_r.
  - inversion Okss as [|? ? Oks Okss']; subst. inversion Sss as [|? ? Sss' Fs]; subst.
    inversion Cont as [|? ? Cs Cont']; subst.
    destruct (split_one_spec s Oks after before Ok S Cs) as (b' & a' & E & V & Ok' & S' & T).
    rewrite E.
    destruct (IH b' a' Okss' Sss' Ok' S') as (out & Eo & Vo).
    { rewrite Forall_forall in *. intros s' Hs'. apply T; auto. }
    exists out. split; [exact Eo|]. intro p. rewrite Vo, V, inrs_cons.
    destruct (inrs p (rev before ++ after)), (inr p s), (inrs p ss); reflexivity.
Qed.

Lemma SS_pairs (Rel : rle -> rle -> Prop) l a b :
  StronglySorted Rel l -> In a l -> In b l -> a = b \/ Rel a b \/ Rel b a.
Proof.
  induction 1 as [|h t Ht IH Hh]; intros Ha Hb; [destruct Ha|].
  rewrite Forall_forall in Hh.
  destruct Ha as [<-|Ha], Hb as [<-|Hb]; auto.
Qed.

Lemma SS_weaken (R1 R2 : rle -> rle -> Prop) l :
  (forall a b, R1 a b -> R2 a b) -> StronglySorted R1 l -> StronglySorted R2 l.
Proof.
  intros W. induction 1 as [|h t Ht IH Hh]; constructor; [assumption|].
  eapply Forall_impl; [|exact Hh]. intros; auto.
Qed.

Lemma inrs_true p l : inrs p l = true -> exists r, In r l /\ inr p r = true.
Proof. intro H. apply existsb_exists in H. exact H. Qed.

(* a run inside the voxel set of a canonical (sorted, gap-separated) list lies in ONE of its runs *)
Lemma canon_contains l s : canon l -> run_ok s ->
  (forall p, inr p s = true -> inrs p l = true) -> exists r, In r l /\ contains r s.
Proof.
  intros (S & Ok) Hs Sub. rewrite Forall_forall in Ok.
  destruct (inrs_true (rx s, ry s, rz s) l) as (r & Hr & Ir).
  { apply Sub. unfold inr, run_ok in *. rdestr. unfold px, py, pz; cbn [fst snd]. lia. }
  exists r. split; [assumption|]. pose proof (Ok r Hr) as Okr.
  destruct (Z_le_gt_dec (rx s + rlen s) (rx r + rlen r)) as [L|G].
  { unf. unfold inr, px, py, pz in Ir; cbn [fst snd] in Ir. rdestr. lia. }
  exfalso.
  destruct (inrs_true (rx r + rlen r, ry s, rz s) l) as (r' & Hr' & Ir').
  { apply Sub. unfold inr, run_ok in *. unfold px, py, pz in *; cbn [fst snd] in *. rdestr. lia. }
  pose proof (Ok r' Hr') as Okr'.
  destruct (SS_pairs run_gap l r r' S Hr Hr') as [<-|[Gp|Gp]];
    unf; unfold inr, px, py, pz in *; cbn [fst snd] in *; rdestr; lia.
Qed.

Lemma split_ok rles splits :
  Forall run_ok rles -> pairwise_disjoint rles -> Forall run_ok splits -> pairwise_disjoint splits ->
  (forall p, inrs p splits = true -> inrs p rles = true) ->
  exists out, split rles splits = Ok out
    /\ forall p, inrs p out = inrs p rles && negb (inrs p splits).
Proof.
  intros Okr Dr Oks Ds Sub. unfold split.
  destruct splits as [|s0 splits'].
  { exists rles. split; [reflexivity|]. intro p. now rewrite inrs_nil, andb_true_r. }
  set (splits := s0 :: splits') in *.
  destruct (normalize_canon rles Okr Dr) as (So & Oko).
  destruct (normalize_canon splits Oks Ds) as (Ss & Okss).
  assert (W : forall a b, run_gap a b -> run_lt a b) by (intros a b; unf; lia).
  destruct (split_all_spec (normalize splits) [] (normalize rles)) as (out & E & V).
  - assumption.
  - eapply SS_weaken; [exact W|exact Ss].
  - exact Oko.
  - eapply SS_weaken; [exact W|exact So].
  - rewrite Forall_forall. intros s Hs. apply canon_contains; [split; assumption| |].
    + rewrite Forall_forall in Okss. auto.
    + intros p Hp. rewrite normalize_voxels_l by assumption. apply Sub.
      rewrite <- (normalize_voxels_l splits p Oks). apply existsb_exists. exists s. split; assumption.
  - rewrite E. exists out. split; [reflexivity|]. intro p. rewrite V. cbn [rev app].
    now rewrite !normalize_voxels_l by assumption.
Qed.

(* ---- Partition ---- *)
Definition size_ok (s : pt) : Prop :=
  1 <= px s <= 1073741824 /\ 1 <= py s <= 1073741824 /\ 1 <= pz s <= 1073741824.

Definition piece_ok (sx by_ bz y z : Z) (q : bpiece) : Prop :=
  py (fst q) = by_ /\ pz (fst q) = bz /\ ry (snd q) = y /\ rz (snd q) = z /\ 1 <= rlen (snd q)
  /\ px (fst q) * sx <= rx (snd q) /\ rx (snd q) + rlen (snd q) <= (px (fst q) + 1) * sx
  /\ - 536870912 <= rx (snd q) /\ rx (snd q) + rlen (snd q) <= 536870912.

Lemma part_loop_done fuel bx by_ bz bBegX x y z remain sx :
  remain < 1 -> part_loop fuel bx by_ bz bBegX x y z remain sx = Ok [].
Proof. intro H. destruct fuel; cbn [part_loop]; replace (remain <? 1) with true by lia; reflexivity. Qed.

Lemma num_voxels_cons r l : num_voxels (r :: l) = rlen r + num_voxels l.
Proof. reflexivity. Qed.

Lemma part_loop_spec sx by_ bz y z : 1 <= sx <= 1073741824 ->
  forall fuel bx bBegX x remain,
  remain <= Z.of_nat fuel -> bBegX = bx * sx -> bBegX <= x < bBegX + sx ->
  - 536870912 <= x -> x + remain <= 536870912 ->
  exists ps, part_loop fuel bx by_ bz bBegX x y z remain sx = Ok ps
    /\ (forall p, inrs p (map snd ps) = inr p (R x y z remain))
    /\ Forall (piece_ok sx by_ bz y z) ps
    /\ num_voxels (map snd ps) = Z.max remain 0.
Proof.
  intros Hsx. induction fuel as [|f IH]; intros bx bBegX x remain Hf Hb Hx Hlo Hhi.
  - exists []. split; [apply part_loop_done; lia|]. repeat split; [|constructor|cbn; lia].
    intro p. cbn. unfold inr. pdestr. cbn [rx ry rz rlen]. lia.
  - destruct (Z_lt_le_dec remain 1) as [L|G].
    { exists []. split; [apply part_loop_done; lia|]. repeat split; [|constructor|cbn; lia].
      intro p. cbn. unfold inr. pdestr. cbn [rx ry rz rlen]. lia. }
    cbn [part_loop]. replace (remain <? 1) with false by lia.
    assert (Bx : - 536870912 <= bx + 1 /\ bx < 536870912) by nia.
    unw.
    set (dx := bBegX + sx - x). assert (Hdx : 1 <= dx <= sx) by (unfold dx; lia).
    destruct (Z_lt_le_dec (remain - dx) 1) as [Last|More].
    + rewrite part_loop_done by lia.
      eexists. split; [reflexivity|]. repeat split.
      * intro p. cbn [map snd]. rewrite inrs_cons, inrs_nil. unfold inr. pdestr. cbn [rx ry rz rlen].
        destruct (Z.ltb_spec remain dx); lia.
      * constructor; [|constructor]. unfold piece_ok, px, py, pz; cbn [fst snd rx ry rz rlen].
        destruct (Z.ltb_spec remain dx); repeat split; try lia; nia.
      * cbn [map snd]. rewrite num_voxels_cons. cbn [rlen num_voxels fold_right].
        destruct (Z.ltb_spec remain dx); lia.
    + destruct (IH (bx + 1) (bBegX + sx) (x + dx) (remain - dx)) as (ps & E & V & F & N);
        try (unfold dx; lia); try nia.
      rewrite E. eexists. split; [reflexivity|]. repeat split.
      * intro p. cbn [map snd]. rewrite inrs_cons, V. unfold inr. pdestr. cbn [rx ry rz rlen].
        destruct (Z.ltb_spec remain dx); lia.
      * constructor; [|exact F]. unfold piece_ok, px, py, pz; cbn [fst snd rx ry rz rlen].
        destruct (Z.ltb_spec remain dx); repeat split; try lia; nia.
      * cbn [map snd]. rewrite num_voxels_cons, N. cbn [rlen].
        destruct (Z.ltb_spec remain dx); lia.
Qed.


(* the run of a piece lies inside the block the piece is filed under *)
Definition piece_in_block (size : pt) (q : bpiece) : Prop :=
  forall p, inr p (snd q) = true -> block_of size p = fst q.

Lemma num_voxels_app a b : num_voxels (a ++ b) = num_voxels a + num_voxels b.
Proof. induction a as [|h t IH]; [reflexivity|]. cbn [app]. rewrite !num_voxels_cons, IH. lia. Qed.

Lemma run_pieces_spec size r : size_ok size -> run_ok r ->
  exists ps, run_pieces size r = Ok ps
    /\ (forall p, inrs p (map snd ps) = inr p r)
    /\ Forall (piece_in_block size) ps
    /\ Forall run_ok (map snd ps)
    /\ num_voxels (map snd ps) = rlen r.
Proof.
  intros Hs Hr. unfold run_pieces. rewrite chunk_gen_eq.
  destruct size as [[sx sy] sz]. unfold size_ok, px, py, pz in *; cbn [fst snd] in *.
  replace ((sx =? 0) || (sy =? 0) || (sz =? 0)) with false by lia.
  unfold run_ok in Hr. destruct r as [x y z n]. cbn [rx ry rz rlen] in *.
  rewrite !chunk1_floor by (unfold is32; change (2^31) with 2147483648; lia).
  cbn [fst snd].
  assert (Bx : x / sx * sx <= x < x / sx * sx + sx).
  { pose proof (Z.div_mod x sx ltac:(lia)). pose proof (Z.mod_pos_bound x sx ltac:(lia)). nia. }
  rewrite w32_id by (unfold is32; change (2^31) with 2147483648; lia).
  assert (Hsx : 1 <= sx <= 1073741824) by lia.
  pose proof (part_loop_spec sx (y / sy) (z / sz) y z Hsx (Z.to_nat n) (x / sx) (x / sx * sx) x n) as P.
  destruct P as (ps & E & V & F & N); try lia.
  exists ps. split; [exact E|]. repeat split.
  - exact V.
  - rewrite Forall_forall in *. intros q Hq. specialize (F q Hq). destruct q as [[[bx by_] bz] q].
    unfold piece_ok, piece_in_block, block_of, inr, px, py, pz in *; cbn [fst snd] in *.
    intros [[vx vy] vz]; cbn [fst snd]. intro Hp. destruct q as [qx qy qz qn]; cbn [rx ry rz rlen] in *.
    assert (vy = y /\ vz = z /\ bx * sx <= vx < (bx + 1) * sx) as (-> & -> & Hv) by lia.
    destruct F as (-> & -> & _). replace (vx / sx) with bx; [reflexivity|].
    apply Z.div_unique with (r := vx - bx * sx); lia.
  - rewrite Forall_forall in *. intros q Hq. apply in_map_iff in Hq as (q' & <- & Hq').
    specialize (F q' Hq'). unfold piece_ok, run_ok in *. lia.
  - lia.
Qed.

Lemma all_pieces_spec size l : size_ok size -> Forall run_ok l ->
  exists ps, all_pieces size l = Ok ps
    /\ (forall p, inrs p (map snd ps) = inrs p l)
    /\ Forall (piece_in_block size) ps
    /\ Forall run_ok (map snd ps)
    /\ num_voxels (map snd ps) = num_voxels l.
Proof.
  intros Hs. induction 1 as [|r t Hr Ht IH]; cbn [all_pieces].
  - exists []. repeat split; constructor.
  - destruct (run_pieces_spec size r Hs Hr) as (a & Ea & Va & Fa & Oa & Na).
    destruct IH as (b & Eb & Vb & Fb & Ob & Nb). rewrite Ea, Eb.
    exists (a ++ b). split; [reflexivity|]. rewrite map_app. repeat split.
    + intro p. now rewrite inrs_app, inrs_cons, Va, Vb.
    + apply Forall_app; split; assumption.
    + apply Forall_app; split; assumption.
    + rewrite num_voxels_cons, <- Na, <- Nb. apply num_voxels_app.
Qed.

Definition flatten (m : bmap) : list bpiece := concat (map (fun e => map (pair (fst e)) (snd e)) m).
Definition bmap_voxels (m : bmap) : Z := fold_right (fun e a => num_voxels (snd e) + a) 0 m.

Lemma pt_eqb_eq p q : pt_eqb p q = true <-> p = q.
Proof.
  destruct p as [[a b] c], q as [[a' b'] c']. unfold pt_eqb, px, py, pz; cbn [fst snd].
  split; [intro H; repeat f_equal; lia|intro H; inversion H; subst; lia].
Qed.

Lemma append_block_perm m b r : Permutation (flatten (append_block m b r)) ((b, r) :: flatten m).
Proof.
  induction m as [|[k rs] t IH]; cbn [append_block].
  - cbn. apply Permutation_refl.
  - destruct (pt_eqb k b) eqn:E.
    + apply pt_eqb_eq in E. subst k. unfold flatten. cbn [map concat fst snd].
      rewrite map_app. cbn [map]. rewrite <- app_assoc. cbn [app].
      apply Permutation_sym, Permutation_middle.
    + unfold flatten in *. cbn [map concat fst snd].
      eapply perm_trans; [apply Permutation_app_head; exact IH|].
      apply Permutation_sym, Permutation_middle.
Qed.

Lemma group_perm ps : forall m, Permutation (flatten (fold_left (fun m (q : bpiece) => append_block m (fst q) (snd q)) ps m)) (flatten m ++ ps).
Proof.
  induction ps as [|[b r] ps IH]; intro m; cbn [fold_left].
  - rewrite app_nil_r. apply Permutation_refl.
  - eapply perm_trans; [apply IH|]. cbn [fst snd].
    eapply perm_trans; [apply Permutation_app_tail; apply append_block_perm|].
    cbn [app]. apply Permutation_middle.
Qed.

Lemma append_block_keys m b r : NoDup (map fst m) ->
  NoDup (map fst (append_block m b r)) /\ (forall k, In k (map fst (append_block m b r)) -> In k (map fst m) \/ k = b).
Proof.
  induction m as [|[k rs] t IH]; cbn [append_block map fst]; intro N.
  - split; [constructor; [intros []|constructor]|]. intros k [<-|[]]. now right.
  - inversion N as [|? ? Nk Nt]; subst. destruct (pt_eqb k b) eqn:E; cbn [map fst].
    + split; [exact N|]. intros k' H. now left.
    + destruct (IH Nt) as (N' & K'). split.
      * constructor; [|exact N']. intro H. apply K' in H as [H| ->]; [contradiction|].
        assert (pt_eqb b b = true) by (apply pt_eqb_eq; reflexivity). congruence.
      * intros k' [<-|H]; [left; now left|]. apply K' in H as [H|H]; [left; now right|now right].
Qed.

Lemma group_keys ps : forall m, NoDup (map fst m) ->
  NoDup (map fst (fold_left (fun m (q : bpiece) => append_block m (fst q) (snd q)) ps m)).
Proof.
  induction ps as [|q ps IH]; intros m N; cbn [fold_left]; [exact N|].
  apply IH. apply append_block_keys. exact N.
Qed.

Lemma inrs_flatten p m : existsb (fun e => inrs p (snd e)) m = inrs p (map snd (flatten m)).
Proof.
  induction m as [|[k rs] t IH]; [reflexivity|]. unfold flatten in *. cbn [existsb map concat fst snd].
  rewrite map_app, inrs_app, IH. f_equal. rewrite map_map. cbn [snd]. now rewrite map_id.
Qed.

Lemma voxels_flatten m : bmap_voxels m = num_voxels (map snd (flatten m)).
Proof.
  induction m as [|[k rs] t IH]; [reflexivity|]. unfold flatten in *. cbn [bmap_voxels fold_right map concat fst snd].
  rewrite map_app, num_voxels_app. fold (bmap_voxels t). rewrite IH. f_equal.
  rewrite map_map. cbn [snd]. now rewrite map_id.
Qed.

Lemma num_voxels_perm a b : Permutation a b -> num_voxels a = num_voxels b.
Proof. induction 1; rewrite ?num_voxels_cons; lia. Qed.

Lemma in_flatten m b rs r : In (b, rs) m -> In r rs -> In (b, r) (flatten m).
Proof.
  intros Hm Hr. unfold flatten. apply in_concat. exists (map (pair b) rs). split.
  - apply in_map_iff. exists (b, rs). split; [reflexivity|assumption].
  - apply in_map. assumption.
Qed.

(* Partition = disjoint union over blocks *)
Lemma partition_ok rles size : size_ok size -> Forall run_ok rles ->
  exists m, partition rles size = Ok m
    /\ NoDup (map fst m)
    /\ (forall p, existsb (fun e => inrs p (snd e)) m = inrs p rles)
    /\ (forall b rs r, In (b, rs) m -> In r rs -> run_ok r /\ forall p, inr p r = true -> block_of size p = b)
    /\ bmap_voxels m = num_voxels rles.
Proof.
  intros Hs Hr. destruct (all_pieces_spec size rles Hs Hr) as (ps & E & V & F & O & N).
  unfold partition. rewrite E. eexists. split; [reflexivity|].
  pose proof (group_perm ps []) as P. cbn [flatten map concat app] in P. fold (group_pieces ps) in P.
  split; [|split; [|split; [|]]].
  - apply group_keys. constructor.
  - intro p. rewrite inrs_flatten, <- V. apply inrs_perm. apply Permutation_map. exact P.
  - intros b rs r H H0. pose proof (in_flatten _ _ _ _ H H0) as I. eapply Permutation_in in I; [|exact P]. split.
    + rewrite Forall_forall in O. apply O. apply in_map_iff. exists (b, r). split; [reflexivity|exact I].
    + rewrite Forall_forall in F. exact (F (b, r) I).
  - rewrite voxels_flatten, <- N. apply num_voxels_perm. apply Permutation_map. exact P.
Qed.

(* ---- FitToBounds ---- *)
Lemma fit_run_spec ob r : run_ok r ->
  match fit_run ob r with
  | Some r' => run_ok r' /\ forall p, inr p r' = inr p r && inside ob p
  | None => forall p, inr p r && inside ob p = false
  end.
Proof.
  intro Hr. destruct ob as [mnx mxx mny mxy mnz mxz]. destruct r as [x y z n].
  unfold run_ok in Hr. cbn [rx ry rz rlen] in Hr.
  unfold fit_run, inside, ltb_opt, gtb_opt. cbn [minx maxx miny maxy minz maxz rx ry rz rlen].
  destruct mnz as [mnz|]; [destruct (Z.ltb_spec z mnz); [intros [[? ?] ?]; unfold inr, px, py, pz; cbn [fst snd rx ry rz rlen]; lia|]|];
  (destruct mxz as [mxz|]; [destruct (Z.ltb_spec mxz z); [intros [[? ?] ?]; unfold inr, px, py, pz; cbn [fst snd rx ry rz rlen]; lia|]|]);
  (destruct mny as [mny|]; [destruct (Z.ltb_spec y mny); [intros [[? ?] ?]; unfold inr, px, py, pz; cbn [fst snd rx ry rz rlen]; lia|]|]);
  (destruct mxy as [mxy|]; [destruct (Z.ltb_spec mxy y); [intros [[? ?] ?]; unfold inr, px, py, pz; cbn [fst snd rx ry rz rlen]; lia|]|]).
  all: destruct mnx as [mnx|]; [unw; destruct (Z.ltb_spec (x + n - 1) mnx);
        [intros [[? ?] ?]; unfold inr, px, py, pz; cbn [fst snd rx ry rz rlen]; lia|
         destruct (Z.ltb_spec x mnx); unw]|].
  all: cbn [rx ry rz rlen]; (destruct mxx as [mxx|];
        [match goal with |- context [mxx <? ?a] => destruct (Z.ltb_spec mxx a) end;
         [intros [[? ?] ?]; unfold inr, px, py, pz; cbn [fst snd rx ry rz rlen]; lia|
          unw; match goal with |- context [mxx <? ?a] => destruct (Z.ltb_spec mxx a) end; unw]|]).
  all: (split; [unfold run_ok; cbn [rx ry rz rlen]; lia|
               intros [[? ?] ?]; unfold inr, px, py, pz; cbn [fst snd rx ry rz rlen]; lia]).
Qed.

Lemma fit_ok rles ob : Forall run_ok rles ->
  Forall run_ok (fit_to_bounds rles ob) /\ forall p, inrs p (fit_to_bounds rles ob) = inrs p rles && inside_opt ob p.
Proof.
  intro H. destruct ob as [ob|]; cbn [fit_to_bounds inside_opt].
  2:{ split; [assumption|]. intro p. now rewrite andb_true_r. }
  induction H as [|r t Hr Ht IH]; cbn [filter_map].
  - split; [constructor|reflexivity].
  - destruct IH as (IH1 & IH2). pose proof (fit_run_spec ob r Hr) as S.
    destruct (fit_run ob r) as [r'|].
    + destruct S as (S1 & S2). split; [constructor; assumption|].
      intro p. rewrite !inrs_cons, S2, IH2. destruct (inr p r), (inside ob p), (inrs p t); reflexivity.
    + split; [assumption|]. intro p. rewrite inrs_cons, IH2. specialize (S p).
      destruct (inr p r), (inside ob p), (inrs p t); try reflexivity; discriminate.
Qed.

(* the code as it stands loses every run when the bounds are nil *)
Lemma fit_orig_refuted :
  exists rles p, Forall run_ok rles /\
    inrs p (fit_to_bounds_orig rles None) <> inrs p rles && inside_opt None p.
Proof.
  exists [R 0 0 0 1], (0, 0, 0). split; [repeat constructor; cbn; lia|]. vm_compute. discriminate.
Qed.
Lemma fit_orig_some rles ob : fit_to_bounds_orig rles (Some ob) = fit_to_bounds rles (Some ob).
Proof. reflexivity. Qed.

(* ---- Add ---- *)
Lemma add_scan_spec r2 : run_ok r2 -> forall l, Forall run_ok l ->
  match add_scan l r2 with
  | Some (l', n) => Forall run_ok l' /\ forall p, inrs p l' = inrs p l || inr p r2
  | None => True
  end.
Proof.
  intros H2. induction 1 as [|r t Hr Ht IH]; cbn [add_scan]; [exact I|].
  assert (Cont : match match add_scan t r2 with Some (tl', n) => Some (r :: tl', n) | None => None end with
                 | Some (l', _) => Forall run_ok l' /\ forall p, inrs p l' = inrs p (r :: t) || inr p r2
                 | None => True end).
  { destruct (add_scan t r2) as [[tl' n]|]; [|exact I]. destruct IH as (I1 & I2).
    split; [constructor; assumption|]. intro p. rewrite !inrs_cons, I2. now rewrite orb_assoc. }
  destruct ((ry r =? ry r2) && (rz r =? rz r2)) eqn:Row; [|exact Cont].
  unfold run_ok in Hr, H2. destruct r as [x y z n], r2 as [x2 y2 z2 n2]. cbn [rx ry rz rlen] in *. unw.
  destruct (Z.ltb_spec (x + n - 1) x2); [exact Cont|].
  destruct (Z.ltb_spec (x2 + n2 - 1) x); [exact Cont|].
  destruct (Z.ltb_spec x2 x); destruct (Z.ltb_spec (x + n - 1) (x2 + n2 - 1)); unw.
  all: split; [constructor; [unfold run_ok; cbn [rx ry rz rlen]; lia|assumption]|].
  all: intros [[? ?] ?]; rewrite !inrs_cons; unfold inr, px, py, pz; cbn [fst snd rx ry rz rlen];
       destruct (inrs _ t); lia.
Qed.

Lemma add_runs_spec rles2 : Forall run_ok rles2 -> forall l added, Forall run_ok l ->
  Forall run_ok (fst (add_runs l rles2 added))
  /\ forall p, inrs p (fst (add_runs l rles2 added)) = inrs p l || inrs p rles2.
Proof.
  induction 1 as [|r2 t H2 Ht IH]; intros l added Hl; cbn [add_runs].
  - split; [assumption|]. intro p. now rewrite orb_false_r.
  - pose proof (add_scan_spec r2 H2 l Hl) as S. destruct (add_scan l r2) as [[l' n]|].
    + destruct S as (S1 & S2). destruct (IH l' (added + num_voxels (uncovered l r2)) S1) as (I1 & I2).
      split; [assumption|]. intro p. rewrite I2, S2, inrs_cons. now rewrite orb_assoc.
    + destruct (IH (l ++ [r2]) (added + num_voxels (uncovered l r2))) as (I1 & I2).
      { apply Forall_app. split; [assumption|constructor; [assumption|constructor]]. }
      split; [assumption|]. intro p. rewrite I2, inrs_app, !inrs_cons, inrs_nil, orb_false_r. now rewrite orb_assoc.
Qed.

(* the documented meaning of the count (voxels not already present) fails when a run bridges two *)
Lemma add_count_refuted :
  exists l l2, Forall run_ok l /\ Forall run_ok l2 /\ pairwise_disjoint l /\
    snd (add_orig l l2) = 3 /\
    let count l := Z.of_nat (length (filter (fun x => inrs (Z.of_nat x, 0, 0) l) (seq 0 20))) in
    (forall p, inrs p (fst (add_orig l l2)) = true -> py p = 0 /\ pz p = 0 /\ 0 <= px p < 20) /\
    count (fst (add_orig l l2)) - count l = 1.
Proof.
  exists [R 0 0 0 4; R 5 0 0 4], [R 2 0 0 5].
  split; [repeat constructor; cbn; lia|]. split; [repeat constructor; cbn; lia|].
  split; [repeat constructor; intros [[x y] z]; unfold inr, px, py, pz; cbn [fst snd rx ry rz rlen]; lia|].
  split; [vm_compute; reflexivity|]. split; [|vm_compute; reflexivity].
  intros [[x y] z]. vm_compute fst. rewrite !inrs_cons, inrs_nil. unfold inr, px, py, pz; cbn [fst snd rx ry rz rlen]. lia.
Qed.

(* ---- binary encoding ---- *)
Definition run32 (r : rle) : Prop := is32 (rx r) /\ is32 (ry r) /\ is32 (rz r) /\ is32 (rlen r).

Lemma le32_length v : length (le32 v) = 4%nat.
Proof. apply le_enc_length. Qed.

Lemma rd32_le32 v : is32 v -> rd32 (le32 v) = v.
Proof.
  intro H. unfold rd32, le32. rewrite le_dec_enc.
  - rewrite Z2N.id by apply u32_range. apply w32_u32. exact H.
  - pose proof (u32_range v). change (2^32) with 4294967296 in *. change (256 ^ N.of_nat 4)%N with 4294967296%N. lia.
Qed.

Lemma firstn_exact {A} (a b : list A) n : length a = n -> firstn n (a ++ b) = a.
Proof. intros <-. rewrite firstn_app, Nat.sub_diag, firstn_all. cbn. apply app_nil_r. Qed.
Lemma skipn_exact {A} (a b : list A) n : length a = n -> skipn n (a ++ b) = b.
Proof. intros <-. rewrite skipn_app, Nat.sub_diag, skipn_all. reflexivity. Qed.

Lemma skipn_add {A} (l : list A) a b : skipn (a + b) l = skipn b (skipn a l).
Proof. revert l. induction a as [|a IH]; intro l; [reflexivity|]. destruct l; [now rewrite !skipn_nil|]. cbn. apply IH. Qed.

Lemma marshal_run_length r : length (marshal_run r) = 16%nat.
Proof. unfold marshal_run. rewrite !app_length, !le32_length. reflexivity. Qed.

Lemma unmarshal_marshal_run r : run32 r -> unmarshal_run (marshal_run r) = Ok r.
Proof.
  intros (Hx & Hy & Hz & Hn). unfold unmarshal_run. rewrite marshal_run_length. cbn [Nat.eqb negb].
  unfold marshal_run.
  rewrite (firstn_exact (le32 (rx r))) by apply le32_length.
  change 12%nat with (4 + (4 + 4))%nat. change 8%nat with (4 + 4)%nat. rewrite !skipn_add.
  rewrite !(skipn_exact (le32 (rx r))) by apply le32_length.
  rewrite (firstn_exact (le32 (ry r))) by apply le32_length.
  rewrite !(skipn_exact (le32 (ry r))) by apply le32_length.
  rewrite (firstn_exact (le32 (rz r))) by apply le32_length.
  rewrite !(skipn_exact (le32 (rz r))) by apply le32_length.
  rewrite <- (app_nil_r (le32 (rlen r))).
  rewrite (firstn_exact (le32 (rlen r))) by apply le32_length.
  rewrite !rd32_le32 by assumption. destruct r; reflexivity.
Qed.

Lemma read_runs_marshal l : Forall run32 l -> forall extra,
  read_runs (length l) (marshal l ++ extra) = Ok l.
Proof.
  induction 1 as [|r t Hr Ht IH]; intro extra; [reflexivity|].
  cbn [length read_runs marshal map concat]. fold (marshal t). rewrite <- app_assoc.
  replace (Nat.ltb (length (marshal_run r ++ marshal t ++ extra)) 16) with false.
  2:{ symmetry. apply Nat.ltb_ge. rewrite app_length, marshal_run_length. lia. }
  rewrite (firstn_exact (marshal_run r)) by apply marshal_run_length.
  rewrite (skipn_exact (marshal_run r)) by apply marshal_run_length.
  rewrite unmarshal_marshal_run by assumption. now rewrite IH.
Qed.

Lemma marshal_length l : length (marshal l) = (16 * length l)%nat.
Proof.
  induction l as [|r t IH]; [reflexivity|]. cbn [marshal map concat length]. fold (marshal t).
  rewrite app_length, marshal_run_length, IH. lia.
Qed.

Lemma unmarshal_marshal l : Forall run32 l -> unmarshal (marshal l) = Ok l.
Proof.
  intro H. unfold unmarshal. rewrite marshal_length.
  replace (Nat.modulo (16 * length l) 16) with 0%nat by (rewrite Nat.mul_comm; symmetry; apply Nat.mod_mul; lia).
  cbn [Nat.eqb negb]. replace (Nat.div (16 * length l) 16) with (length l) by (rewrite Nat.mul_comm, Nat.div_mul; lia).
  rewrite <- (app_nil_r (marshal l)). now apply read_runs_marshal.
Qed.

(* the stream ReadRLEs consumes: 8 header bytes starting with EncodingBinary, the little-endian
   run count, the runs, then anything *)
Lemma read_rles_ok hdr l extra : Forall run32 l -> length hdr = 7%nat -> (N.of_nat (length l) < 2 ^ 32)%N ->
  read_rles ((n_EncodingBinary :: hdr) ++ le_enc 4 (N.of_nat (length l)) ++ marshal l ++ extra) = Ok l.
Proof.
  intros H Hh Hl. unfold read_rles.
  replace (Nat.ltb (length ((n_EncodingBinary :: hdr) ++ le_enc 4 (N.of_nat (length l)) ++ marshal l ++ extra)) 8) with false.
  2:{ symmetry. apply Nat.ltb_ge. rewrite app_length. cbn [length]. lia. }
  cbn [app]. rewrite N.eqb_refl. cbn [negb].
  change (n_EncodingBinary :: hdr ++ le_enc 4 (N.of_nat (length l)) ++ marshal l ++ extra)
    with ((n_EncodingBinary :: hdr) ++ le_enc 4 (N.of_nat (length l)) ++ marshal l ++ extra).
  rewrite (skipn_exact (n_EncodingBinary :: hdr)) by (cbn [length]; lia).
  replace (Nat.ltb (length (le_enc 4 (N.of_nat (length l)) ++ marshal l ++ extra)) 4) with false.
  2:{ symmetry. apply Nat.ltb_ge. rewrite app_length, le_enc_length. lia. }
  rewrite (firstn_exact (le_enc 4 (N.of_nat (length l)))) by apply le_enc_length.
  rewrite (skipn_exact (le_enc 4 (N.of_nat (length l)))) by apply le_enc_length.
  rewrite le_dec_enc by (change (256 ^ N.of_nat 4)%N with (2 ^ 32)%N; exact Hl).
  replace (N.of_nat (length (marshal l ++ extra)) <? 16 * N.of_nat (length l))%N with false.
  2:{ symmetry. apply N.ltb_ge. rewrite app_length, marshal_length. lia. }
  rewrite Nat2N.id. now apply read_runs_marshal.
Qed.

Lemma excise_l r s p : run_ok r -> run_ok s -> contains r s ->
  excise r s = Some (excise_frags r s) /\ inrs p (excise_frags r s) = inr p r && negb (inr p s).
Proof. intros Hr Hs C. split; [now apply excise_contains|now apply excise_frags_voxels]. Qed.

Lemma add_union_l l l2 : Forall run_ok l -> Forall run_ok l2 ->
  Forall run_ok (fst (add l l2)) /\ forall p, inrs p (fst (add l l2)) = inrs p l || inrs p l2.
Proof. intros H H2. exact (add_runs_spec l2 H2 l 0 H). Qed.

(* ---- the repaired count of Add ---- *)
Lemma add_orig_same_runs l2 : forall l a b, fst (add_runs_orig l l2 a) = fst (add_runs l l2 b).
Proof.
  induction l2 as [|r2 t IH]; intros l a b; cbn [add_runs_orig add_runs]; [reflexivity|].
  destruct (add_scan l r2) as [[l' n]|]; apply IH.
Qed.

(* Excise for any two runs: nil iff they share no voxel, else the (at most two) fragments of r
   outside s, in order *)
Lemma excise_general r s : run_ok r -> run_ok s ->
  match excise r s with
  | None => forall p, inr p r && inr p s = false
  | Some fr => (forall p, inrs p fr = inr p r && negb (inr p s)) /\ Forall run_ok fr
               /\ StronglySorted run_lt fr /\ Forall (contains r) fr
  end.
Proof.
  unfold run_ok, excise. intros Hr Hs. destruct r as [x y z n], s as [x' y' z' n']. cbn [rx ry rz rlen] in *. unw.
  destruct (negb (z =? z') || negb (y =? y')) eqn:Row.
  { intros [[? ?] ?]. unfold inr, px, py, pz; cbn [fst snd rx ry rz rlen]. lia. }
  destruct ((x' + n' - 1 <? x) || (x + n - 1 <? x')) eqn:Ov.
  { intros [[? ?] ?]. unfold inr, px, py, pz; cbn [fst snd rx ry rz rlen]. lia. }
  destruct (Z.ltb_spec x x'); destruct (Z.ltb_spec (x' + n' - 1) (x + n - 1)); unw; cbn [app].
  all: split; [intros [[? ?] ?]; rewrite ?inrs_cons, ?inrs_nil; unfold inr, px, py, pz; cbn [fst snd rx ry rz rlen]; lia|].
  all: split; [repeat constructor; cbn [rx ry rz rlen]; lia|].
  all: split; repeat constructor; unfold run_lt, row_lt, same_row, contains; cbn [rx ry rz rlen]; lia.
Qed.

Definition parts_of (r2 : rle) (fr : list rle) : Prop :=
  StronglySorted run_lt fr /\ Forall run_ok fr /\ Forall (contains r2) fr.

Lemma cut_frags_spec r2 r : run_ok r -> forall fr, parts_of r2 fr ->
  parts_of r2 (cut_frags fr r) /\ forall p, inrs p (cut_frags fr r) = inrs p fr && negb (inr p r).
Proof.
  intros Hr. induction fr as [|f t IH]; intros (S & Ok & C); unfold cut_frags; cbn [flat_map].
  - split; [repeat split; constructor|reflexivity].
  - inversion S as [|? ? St Ft]; subst. inversion Ok as [|? ? Okf Okt]; subst. inversion C as [|? ? Cf Ct]; subst.
    destruct (IH (conj St (conj Okt Ct))) as ((S' & Ok' & C') & V'). fold (cut_frags t r) in *.
    pose proof (excise_general f r Okf Hr) as E.
    assert (Tail : forall g, contains f g -> run_ok g -> Forall (run_lt g) (cut_frags t r)).
    { intros g Cg Okg. rewrite Forall_forall in *. intros e He.
      assert (exists t0, In t0 t /\ contains t0 e) as (t0 & Ht0 & Ce).
      { unfold cut_frags in He. apply in_flat_map in He as (t0 & Ht0 & He). exists t0. split; [assumption|].
        pose proof (excise_general t0 r (Okt t0 Ht0) Hr) as E0.
        destruct (excise t0 r) as [cut|].
        - destruct E0 as (_ & _ & _ & C0). rewrite Forall_forall in C0. auto.
        - destruct He as [<-|[]]. specialize (Okt t0 Ht0). unf. lia. }
      specialize (Ft t0 Ht0). specialize (Ok' e He). specialize (Okt t0 Ht0). unf. rdestr. lia. }
    destruct (excise f r) as [cut|].
    + destruct E as (V & Okc & Sc & Cc). split.
      * repeat split.
        -- apply SS_app. repeat split; [assumption|assumption|].
           intros a b Ha Hb. rewrite Forall_forall in Cc, Okc. specialize (Tail a (Cc a Ha) (Okc a Ha)).
           rewrite Forall_forall in Tail. auto.
        -- apply Forall_app; split; assumption.
        -- apply Forall_app; split; [|assumption]. rewrite Forall_forall in *. intros a Ha. specialize (Cc a Ha). unf. rdestr. lia.
      * intro p. rewrite inrs_app, V, V', inrs_cons. destruct (inr p f), (inr p r), (inrs p t); reflexivity.
    + split.
      * repeat split.
        -- cbn [app]. constructor; [assumption|]. apply Tail; [unf; lia|assumption].
        -- cbn [app]. constructor; assumption.
        -- cbn [app]. constructor; assumption.
      * intro p. cbn [app]. rewrite !inrs_cons, V'. specialize (E p).
        destruct (inr p f), (inr p r), (inrs p t); try reflexivity; discriminate.
Qed.

(* what is left of the new run after cutting every run of the receiver out: ordered, pairwise
   separate pieces of r2 holding exactly the voxels of r2 that no run of l holds *)
Lemma uncovered_spec r2 : run_ok r2 -> forall l, Forall run_ok l ->
  parts_of r2 (uncovered l r2) /\ forall p, inrs p (uncovered l r2) = inr p r2 && negb (inrs p l).
Proof.
  intros H2 l Hl. unfold uncovered.
  assert (G : forall fr, parts_of r2 fr ->
            parts_of r2 (fold_left cut_frags l fr) /\ forall p, inrs p (fold_left cut_frags l fr) = inrs p fr && negb (inrs p l)).
  { induction Hl as [|r t Hr Ht IH]; intros fr P; cbn [fold_left].
    - split; [assumption|]. intro p. now rewrite inrs_nil, andb_true_r.
    - destruct (cut_frags_spec r2 r Hr fr P) as (P1 & V1). destruct (IH _ P1) as (P2 & V2).
      split; [assumption|]. intro p. rewrite V2, V1, inrs_cons. destruct (inrs p fr), (inr p r), (inrs p t); reflexivity. }
  destruct (G [r2]) as (P & V).
  { split; [constructor; constructor|]. split; [constructor; [assumption|constructor]|].
    constructor; [unfold run_ok in H2; unf; lia|constructor]. }
  split; [assumption|]. intro p. rewrite V, inrs_cons, inrs_nil, orb_false_r. reflexivity.
Qed.

(* the voxels each run of l2 adds, run by run: [news] lists, for every run of l2 in turn, ordered
   separate pieces holding exactly its voxels that neither l nor the earlier runs of l2 hold *)
Fixpoint new_parts (l l2 : list rle) (news : list (list rle)) : Prop :=
  match l2, news with
  | [], [] => True
  | r2 :: t, fr :: ft => parts_of r2 fr /\ (forall p, inrs p fr = inr p r2 && negb (inrs p l)) /\ new_parts (l ++ [r2]) t ft
  | _, _ => False
  end.

Lemma new_parts_ext l2 : forall l l' news, (forall p, inrs p l = inrs p l') -> new_parts l l2 news -> new_parts l' l2 news.
Proof.
  induction l2 as [|r2 t IH]; intros l l' [|fr ft] E H; cbn [new_parts] in *; try assumption.
  destruct H as (P & V & N). split; [assumption|]. split; [intro p; now rewrite V, E|].
  eapply IH; [|exact N]. intro p. now rewrite !inrs_app, E.
Qed.

Lemma add_count_ok l2 : Forall run_ok l2 -> forall l a, Forall run_ok l ->
  exists news, new_parts l l2 news
    /\ snd (add_runs l l2 a) = a + fold_right (fun fr s => num_voxels fr + s) 0 news.
Proof.
  induction 1 as [|r2 t H2 Ht IH]; intros l a Hl; cbn [add_runs].
  - exists []. split; [exact I|]. cbn. lia.
  - destruct (uncovered_spec r2 H2 l Hl) as (P & V).
    pose proof (add_scan_spec r2 H2 l Hl) as S. destruct (add_scan l r2) as [[l' n]|].
    + destruct S as (S1 & S2). destruct (IH l' (a + num_voxels (uncovered l r2)) S1) as (news & N & E).
      exists (uncovered l r2 :: news). split.
      * cbn [new_parts]. split; [assumption|]. split; [assumption|].
        eapply new_parts_ext; [|exact N]. intro p. rewrite S2, inrs_app, inrs_cons, inrs_nil, orb_false_r. reflexivity.
      * rewrite E. cbn [fold_right]. lia.
    + destruct (IH (l ++ [r2]) (a + num_voxels (uncovered l r2))) as (news & N & E).
      { apply Forall_app. split; [assumption|constructor; [assumption|constructor]]. }
      exists (uncovered l r2 :: news). split; [cbn [new_parts]; auto|]. rewrite E. cbn [fold_right]. lia.
Qed.

Lemma add_count_l l l2 : Forall run_ok l -> Forall run_ok l2 ->
  exists news, new_parts l l2 news /\ snd (add l l2) = fold_right (fun fr s => num_voxels fr + s) 0 news.
Proof. intros Hl H2. destruct (add_count_ok l2 H2 l 0 Hl) as (news & N & E). exists news. split; [exact N|]. unfold add. rewrite E. lia. Qed.

(* ---- Split when the splits share no voxel with the runs: the error return ---- *)
Lemma split_one_none s : forall after before, (forall o, In o after -> excise o s = None) -> split_one s before after = None.
Proof.
  induction after as [|o tl IH]; intros before H; cbn [split_one]; [reflexivity|].
  rewrite (H o (or_introl eq_refl)). apply IH. intros; apply H; now right.
Qed.

Lemma excise_none_of_disjoint r s : run_ok r -> run_ok s -> (forall p, inr p r && inr p s = false) -> excise r s = None.
Proof.
  unfold run_ok, excise. intros Hr Hs D. destruct r as [x y z n], s as [x' y' z' n']. cbn [rx ry rz rlen] in *. unw.
  specialize (D (Z.max x x', y, z)). unfold inr, px, py, pz in D; cbn [fst snd rx ry rz rlen] in D.
  destruct (negb (z =? z') || negb (y =? y')) eqn:A; [reflexivity|].
  destruct ((x' + n' - 1 <? x) || (x + n - 1 <? x')) eqn:B; [reflexivity|]. exfalso. lia.
Qed.

Lemma split_disjoint_err rles splits : Forall run_ok rles -> Forall run_ok splits -> splits <> [] ->
  pairwise_disjoint rles -> pairwise_disjoint splits ->
  (forall p, inrs p splits = true -> inrs p rles = false) -> split rles splits = Err.
Proof.
  intros Hr Hs Ne Dr Ds Dis. unfold split. destruct splits as [|s0 t]; [congruence|].
  set (splits := s0 :: t) in *.
  destruct (normalize_canon rles Hr Dr) as (_ & Okr). destruct (normalize_canon splits Hs Ds) as (_ & Oks).
  assert (Nn : normalize splits <> []).
  { intro E. assert (X : inrs (rx s0, ry s0, rz s0) (normalize splits) = true).
    { rewrite normalize_voxels_l by assumption. unfold splits. rewrite inrs_cons. apply orb_true_iff. left.
      inversion Hs; subst. unfold inr, run_ok, px, py, pz in *; cbn [fst snd]. lia. }
    rewrite E in X. discriminate. }
  destruct (normalize splits) as [|s ss] eqn:En; [congruence|]. cbn [split_all].
  rewrite split_one_none; [reflexivity|].
  intros o Ho. rewrite Forall_forall in Okr, Oks. apply excise_none_of_disjoint; [auto|apply Oks; now left|].
  intro p. destruct (inr p o) eqn:Io; [|reflexivity]. destruct (inr p s) eqn:Is; [|reflexivity]. exfalso.
  assert (A : inrs p (normalize rles) = true) by (apply existsb_exists; exists o; auto).
  assert (B : inrs p (s :: ss) = true) by (rewrite inrs_cons, Is; reflexivity).
  rewrite normalize_voxels_l in A by assumption. rewrite <- En, normalize_voxels_l in B by assumption.
  rewrite (Dis p B) in A. discriminate.
Qed.
