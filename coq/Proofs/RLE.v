(* Proofs.RLE: the run-length algebra of dvid/volumes.go keeps voxel sets (C18). *)
From DV Require Import Base.Prelude Base.Int Base.WrapZ Model.Geometry Model.RLE Gen.Consts.
From Coq Require Import ZifyBool Sorting.Sorted Sorting.Permutation.
Ltac Zify.zify_post_hook ::= Z.div_mod_to_equations.
Local Open Scope Z_scope.

(* the no-overflow range: non-empty runs with x extent inside [-2^29, 2^29] and y, z inside [-2^30, 2^30) *)
Definition run_ok (r : rle) : Prop :=
  - 536870912 <= rx r /\ 1 <= rlen r /\ rx r + rlen r <= 536870912
  /\ - 1073741824 <= ry r < 1073741824 /\ - 1073741824 <= rz r < 1073741824.

Lemma add32_id a b : - 2147483648 <= a + b < 2147483648 -> add32 a b = a + b.
Proof. intro H. unfold add32. apply w32_id. unfold is32. change (2^31) with 2147483648. lia. Qed.
Lemma sub32_id a b : - 2147483648 <= a - b < 2147483648 -> sub32 a b = a - b.
Proof. intro H. unfold sub32. apply w32_id. unfold is32. change (2^31) with 2147483648. lia. Qed.

Ltac unw :=
  repeat match goal with
         | |- context [add32 ?a ?b] => rewrite (add32_id a b) by lia
         | |- context [sub32 ?a ?b] => rewrite (sub32_id a b) by lia
         | H : context [add32 ?a ?b] |- _ => rewrite (add32_id a b) in H by lia
         | H : context [sub32 ?a ?b] |- _ => rewrite (sub32_id a b) in H by lia
         end.

Ltac rdestr := repeat match goal with r : rle |- _ => destruct r end; cbn [rx ry rz rlen] in *.
Ltac pdestr := repeat match goal with p : pt |- _ => destruct p as [[? ?] ?] end;
               unfold px, py, pz in *; cbn [fst snd] in *.

(* ---- membership basics ---- *)
Lemma inrs_cons p r l : inrs p (r :: l) = inr p r || inrs p l.
Proof. reflexivity. Qed.
Lemma inrs_nil p : inrs p [] = false.
Proof. reflexivity. Qed.
Lemma inrs_app p a b : inrs p (a ++ b) = inrs p a || inrs p b.
Proof. apply existsb_app. Qed.

Lemma inrs_perm p a b : Permutation a b -> inrs p a = inrs p b.
Proof.
  induction 1 as [|x l l' HP IH|x y l|l l' l'' H1 IH1 H2 IH2]; rewrite ?inrs_cons; try congruence.
  destruct (inr p x), (inr p y); reflexivity.
Qed.

Lemma rle_insert_perm r l : Permutation (r :: l) (rle_insert r l).
Proof.
  induction l as [|h t IH]; cbn; [constructor; constructor|].
  destruct (rle_less r h); [apply Permutation_refl|].
  eapply perm_trans; [apply perm_swap|]. now constructor.
Qed.
Lemma rle_sort_perm l : Permutation l (rle_sort l).
Proof.
  induction l as [|h t IH]; cbn; [constructor|].
  eapply perm_trans; [|apply rle_insert_perm]. now constructor.
Qed.

(* ---- Normalize keeps the voxel set ---- *)
Definition grow_ok (r : rle) : Prop :=
  - 536870912 <= rx r /\ 0 <= rlen r /\ rx r + rlen r <= 536870912.

Lemma merge_loop_voxels p rest : forall old, grow_ok old -> Forall grow_ok rest ->
  inrs p (merge_loop old rest) = inr p old || inrs p rest.
Proof.
  induction rest as [|r rest IH]; intros old Ho Hr; cbn [merge_loop]; rewrite ?inrs_cons, ?inrs_nil.
  - reflexivity.
  - inversion Hr as [|? ? Hr1 Hr2]; subst.
    destruct (negb (ry r =? ry old) || negb (rz r =? rz old) || negb (rx r =? add32 (rx old) (rlen old))) eqn:C.
    + rewrite inrs_cons. now rewrite IH.
    + rewrite IH; [| |assumption].
      * rewrite orb_assoc. f_equal. unfold grow_ok in *. unfold inr. rdestr. pdestr. unw. lia.
      * unfold grow_ok in *. rdestr. unw. lia.
Qed.

Lemma run_ok_grow r : run_ok r -> grow_ok r.
Proof. unfold run_ok, grow_ok. lia. Qed.

Lemma normalize_voxels_l l p : Forall run_ok l -> inrs p (normalize l) = inrs p l.
Proof.
  intro H. unfold normalize. pose proof (rle_sort_perm l) as P.
  rewrite (inrs_perm p _ _ P).
  assert (F : Forall grow_ok (rle_sort l)).
  { eapply Permutation_Forall; [exact P|]. eapply Forall_impl; [|exact H]. apply run_ok_grow. }
  destruct (rle_sort l) as [|h t]; [reflexivity|].
  inversion F; subst. now rewrite merge_loop_voxels.
Qed.

(* ---- order facts ---- *)
Definition row_lt (a b : rle) : Prop := rz a < rz b \/ (rz a = rz b /\ ry a < ry b).
Definition same_row (a b : rle) : Prop := rz a = rz b /\ ry a = ry b.
(* a lies entirely before b in (z, y, x) order *)
Definition run_lt (a b : rle) : Prop := row_lt a b \/ (same_row a b /\ rx a + rlen a <= rx b).
(* ... and they are not adjacent *)
Definition run_gap (a b : rle) : Prop := row_lt a b \/ (same_row a b /\ rx a + rlen a < rx b).
Definition le_start (a b : rle) : Prop := rle_less b a = false.
Definition disjoint_runs (a b : rle) : Prop := forall p, inr p a = true -> inr p b = true -> False.
Definition pairwise_disjoint (l : list rle) : Prop := ForallOrdPairs disjoint_runs l.

Ltac unf := unfold run_gap, run_lt, run_ok in *; unfold row_lt, same_row in *.

Lemma rle_less_spec a b : rle_less a b = true <->
  (rz a < rz b \/ (rz a = rz b /\ (ry a < ry b \/ (ry a = ry b /\ rx a < rx b)))).
Proof.
  unfold rle_less.
  destruct (Z.ltb_spec (rz a) (rz b)); [lia|]. destruct (Z.ltb_spec (rz b) (rz a)); [lia|].
  destruct (Z.ltb_spec (ry a) (ry b)); [lia|]. destruct (Z.ltb_spec (ry b) (ry a)); [lia|]. lia.
Qed.

Lemma le_start_spec a b : le_start a b <->
  (rz a < rz b \/ (rz a = rz b /\ (ry a < ry b \/ (ry a = ry b /\ rx a <= rx b)))).
Proof.
  unfold le_start. pose proof (rle_less_spec b a) as S.
  destruct (rle_less b a); split; intro H; try reflexivity; try discriminate.
  - destruct S as [S _]. specialize (S eq_refl). lia.
  - destruct S as [_ S]. assert (N : ~ (rz b < rz a \/ rz b = rz a /\ (ry b < ry a \/ ry b = ry a /\ rx b < rx a))).
    { intro X. specialize (S X). discriminate. } lia.
Qed.

Lemma le_start_trans a b c : le_start a b -> le_start b c -> le_start a c.
Proof. rewrite !le_start_spec. lia. Qed.

Lemma insert_sorted r l : StronglySorted le_start l -> StronglySorted le_start (rle_insert r l).
Proof.
  induction 1 as [|h t Ht IH Hh]; cbn [rle_insert]; [constructor; constructor|].
  destruct (rle_less r h) eqn:E.
  - constructor; [constructor; assumption|].
    assert (L : le_start r h).
    { apply le_start_spec. apply rle_less_spec in E. lia. }
    constructor; [exact L|]. eapply Forall_impl; [|exact Hh]. intros e He. eapply le_start_trans; eassumption.
  - constructor; [exact IH|].
    eapply Permutation_Forall; [apply rle_insert_perm|]. constructor; [exact E|exact Hh].
Qed.

Lemma sort_sorted l : StronglySorted le_start (rle_sort l).
Proof. induction l; cbn; [constructor|now apply insert_sorted]. Qed.

Lemma disjoint_runs_sym a b : disjoint_runs a b -> disjoint_runs b a.
Proof. intros H p Hb Ha. exact (H p Ha Hb). Qed.

Lemma FOP_perm (R : rle -> rle -> Prop) (Rsym : forall a b, R a b -> R b a) l l' :
  Permutation l l' -> ForallOrdPairs R l -> ForallOrdPairs R l'.
Proof.
  induction 1 as [|x l l' HP IH|x y l|l l' l'' H1 IH1 H2 IH2]; intro F.
  - exact F.
  - inversion F; subst. constructor; [eapply Permutation_Forall; eassumption|auto].
  - inversion F as [|? ? Fy F2]; subst. inversion F2 as [|? ? Fx F3]; subst.
    inversion Fy; subst. constructor; [constructor; [apply Rsym; assumption|assumption]|].
    constructor; assumption.
  - auto.
Qed.

(* non-empty disjoint runs, the first starting no later: the first ends before the second starts *)
Lemma disjoint_le_start_lt a b : run_ok a -> run_ok b -> disjoint_runs a b -> le_start a b -> run_lt a b.
Proof.
  intros Ha Hb D L. apply le_start_spec in L. unfold run_lt, row_lt, same_row.
  destruct (Z_lt_le_dec (rz a) (rz b)); [lia|]. destruct (Z_lt_le_dec (ry a) (ry b)); [lia|].
  right. split; [lia|].
  destruct (Z_le_gt_dec (rx a + rlen a) (rx b)); [assumption|]. exfalso.
  apply (D (rx b, ry b, rz b)); unfold inr, run_ok in *; pdestr; lia.
Qed.

Lemma sorted_disjoint_lt l : Forall run_ok l -> StronglySorted le_start l -> pairwise_disjoint l ->
  StronglySorted run_lt l.
Proof.
  intros Hok Hs. revert Hok. induction Hs as [|h t Ht IH Hh]; intros Hok D; [constructor|].
  inversion Hok; subst. inversion D; subst. constructor; [auto|].
  rewrite Forall_forall in *. intros e He. apply disjoint_le_start_lt; auto.
Qed.

Lemma merge_loop_heads (P : rle -> Prop)
  (Hext : forall a b, rx a = rx b -> ry a = ry b -> rz a = rz b -> P a -> P b) rest :
  forall old, Forall P (old :: rest) -> Forall P (merge_loop old rest).
Proof.
  induction rest as [|r rest IH]; intros old F; cbn [merge_loop]; [assumption|].
  inversion F as [|? ? Fo Fr]; subst.
  destruct (_ || _).
  - constructor; [assumption|]. apply IH; assumption.
  - apply IH. inversion Fr; subst. constructor; [|assumption]. eapply Hext; [..|exact Fo]; reflexivity.
Qed.

Lemma merge_loop_ok rest : forall old, Forall run_ok (old :: rest) -> Forall run_ok (merge_loop old rest).
Proof.
  induction rest as [|r rest IH]; intros old F; cbn [merge_loop]; [assumption|].
  inversion F as [|? ? Fo Fr]; subst. inversion Fr as [|? ? Fr1 Fr2]; subst.
  destruct (_ || _) eqn:C.
  - constructor; [assumption|]. apply IH; assumption.
  - apply IH. constructor; [|assumption]. unfold run_ok in *. rdestr. unw. lia.
Qed.

Lemma merge_loop_canon rest : forall old, Forall run_ok (old :: rest) ->
  StronglySorted run_lt (old :: rest) -> StronglySorted run_gap (merge_loop old rest).
Proof.
  induction rest as [|r rest IH]; intros old F S; cbn [merge_loop]; [repeat constructor|].
  inversion F as [|? ? Fo Fr]; subst. inversion Fr as [|? ? Fr1 Fr2]; subst.
  inversion S as [|? ? S1 So]; subst. inversion S1 as [|? ? S2 Sr]; subst.
  inversion So as [|? ? Sor Sot]; subst.
  destruct (_ || _) eqn:C.
  - constructor; [apply IH; assumption|].
    apply merge_loop_heads.
    { unfold run_gap, row_lt, same_row. intros a b E1 E2 E3. rewrite E1, E2, E3. auto. }
    constructor.
    + unf. rdestr. unw. lia.
    + rewrite Forall_forall in *. intros e He. specialize (Sot e He). specialize (Sr e He). specialize (Fr2 e He).
      unf. rdestr. lia.
  - apply IH.
    + constructor; [|assumption]. unfold run_ok in *. rdestr. unw. lia.
    + constructor; [assumption|]. rewrite Forall_forall in *. intros e He. specialize (Sr e He).
      unf. rdestr. unw. lia.
Qed.

Definition canon (l : list rle) : Prop := StronglySorted run_gap l /\ Forall run_ok l.

Lemma normalize_canon l : Forall run_ok l -> pairwise_disjoint l -> canon (normalize l).
Proof.
  intros Hok D. unfold normalize, canon.
  pose proof (rle_sort_perm l) as P. pose proof (sort_sorted l) as S.
  assert (Hok' : Forall run_ok (rle_sort l)) by (eapply Permutation_Forall; eassumption).
  assert (D' : pairwise_disjoint (rle_sort l)).
  { eapply FOP_perm; [apply disjoint_runs_sym|exact P|exact D]. }
  pose proof (sorted_disjoint_lt _ Hok' S D') as L.
  destruct (rle_sort l) as [|h t]; [split; constructor|].
  split; [apply merge_loop_canon; assumption|apply merge_loop_ok; assumption].
Qed.

(* ---- Excise and Split ---- *)
Definition contains (r s : rle) : Prop :=
  same_row r s /\ rx r <= rx s /\ rx s + rlen s <= rx r + rlen r.

Ltac unf ::= unfold contains, run_gap, run_lt, run_ok in *; unfold row_lt, same_row in *.

Definition excise_frags (r s : rle) : list rle :=
  (if rx r <? rx s then [R (rx r) (ry r) (rz r) (rx s - rx r)] else [])
  ++ (if rx s + rlen s <? rx r + rlen r then [R (rx s + rlen s) (ry r) (rz r) (rx r + rlen r - (rx s + rlen s))] else []).

Lemma excise_contains r s : run_ok r -> run_ok s -> contains r s -> excise r s = Some (excise_frags r s).
Proof.
  unfold run_ok, contains, same_row, excise, excise_frags. intros Hr Hs C. rdestr. unw.
  replace (negb (rz0 =? rz) || negb (ry0 =? ry)) with false by lia.
  replace ((rx + rlen - 1 <? rx0) || (rx0 + rlen0 - 1 <? rx)) with false by lia.
  replace (rx + rlen - 1 <? rx0 + rlen0 - 1) with (rx + rlen <? rx0 + rlen0) by lia.
  do 2 f_equal.
  destruct (rx + rlen <? rx0 + rlen0); [|reflexivity]. do 2 f_equal; lia.
Qed.

Lemma excise_before r s c : run_ok r -> run_ok s -> run_ok c -> run_lt r c -> contains c s -> excise r s = None.
Proof.
  unfold run_ok, contains, same_row, run_lt, row_lt, excise. intros Hr Hs Hc L C. rdestr. unw.
  destruct (negb (rz1 =? rz0) || negb (ry1 =? ry0)) eqn:E; [reflexivity|].
  replace ((rx0 + rlen0 - 1 <? rx1) || (rx1 + rlen1 - 1 <? rx0)) with true by lia. reflexivity.
Qed.

Lemma excise_frags_voxels r s p : run_ok r -> run_ok s -> contains r s ->
  inrs p (excise_frags r s) = inr p r && negb (inr p s).
Proof.
  unfold run_ok, contains, same_row, excise_frags. intros Hr Hs C. rdestr. pdestr.
  destruct (Z.ltb_spec rx0 rx); destruct (Z.ltb_spec (rx + rlen) (rx0 + rlen0));
    cbn [app inrs existsb]; unfold inr, px, py, pz; cbn [RLE.rx RLE.ry RLE.rz RLE.rlen fst snd]; lia.
Qed.

Lemma run_lt_disjoint a b p : run_lt a b -> inr p a = true -> inr p b = false.
Proof. unfold run_lt, row_lt, same_row, inr. rdestr. pdestr. lia. Qed.
Lemma run_lt_disjoint' a b p : run_lt a b -> inr p b = true -> inr p a = false.
Proof. unfold run_lt, row_lt, same_row, inr. rdestr. pdestr. lia. Qed.

Lemma SS_app (Rel : rle -> rle -> Prop) a b :
  StronglySorted Rel (a ++ b) <->
  (StronglySorted Rel a /\ StronglySorted Rel b /\ forall x y, In x a -> In y b -> Rel x y).
Proof.
  induction a as [|h t IH]; cbn [app].
  - split; [intro H; repeat split; [constructor|exact H|intros ? ? []]|intros (_ & H & _); exact H].
  - split.
    + intro H. inversion H as [|? ? H1 H2]; subst. apply IH in H1 as (A & B & C).
      rewrite Forall_app in H2. destruct H2 as [F1 F2].
      repeat split; [constructor; assumption|assumption|].
      intros x y [<-|Hx] Hy; [rewrite Forall_forall in F2; auto|auto].
    + intros (A & B & C). inversion A; subst. constructor.
      * apply IH. repeat split; auto. intros x y Hx Hy. apply C; [right|]; assumption.
      * rewrite Forall_app. split; [assumption|]. rewrite Forall_forall. intros y Hy. apply C; [left; reflexivity|assumption].
Qed.

Lemma inrs_false_forall p l : (forall e, In e l -> inr p e = false) -> inrs p l = false.
Proof.
  induction l as [|h t IH]; intro H; [reflexivity|]. rewrite inrs_cons, (H h (or_introl eq_refl)), IH; [reflexivity|].
  intros e He. apply H. now right.
Qed.

(* replacing a run o of a sorted disjoint list by sub-runs that make up o minus s *)
Lemma replace_run pre o post frags s :
  StronglySorted run_lt (pre ++ o :: post) -> Forall run_ok (pre ++ o :: post) -> run_ok s -> contains o s ->
  (forall p, inrs p frags = inr p o && negb (inr p s)) ->
  StronglySorted run_lt frags -> Forall run_ok frags -> Forall (contains o) frags ->
  (forall p, inrs p (pre ++ frags ++ post) = inrs p (pre ++ o :: post) && negb (inr p s))
  /\ StronglySorted run_lt (pre ++ frags ++ post) /\ Forall run_ok (pre ++ frags ++ post).
Proof.
  intros S Hok Hs C V Sf Okf Cf.
  apply SS_app in S as (Spre & So & Cross). inversion So as [|? ? Spost Fo]; subst.
  rewrite Forall_app in Hok. destruct Hok as [Okpre Oko]. inversion Oko as [|? ? Oko1 Okpost]; subst.
  rewrite Forall_forall in Fo, Cf, Okf, Okpre, Okpost.
  repeat split.
  - intro p. rewrite !inrs_app, inrs_cons, V.
    destruct (inr p s) eqn:Es; [|now rewrite !andb_true_r].
    assert (Eo : inr p o = true).
    { unfold contains, same_row, inr in *. rdestr. pdestr. lia. }
    rewrite (inrs_false_forall p pre).
    2:{ intros e He. eapply run_lt_disjoint'; [|exact Eo]. apply Cross; [assumption|left; reflexivity]. }
    rewrite (inrs_false_forall p post).
    2:{ intros e He. eapply run_lt_disjoint; [|exact Eo]. apply Fo; assumption. }
    now rewrite !andb_false_r.
  - apply SS_app. repeat split; [assumption| |].
    + apply SS_app. repeat split; [assumption|assumption|].
      intros f e Hf He. specialize (Cf f Hf). specialize (Fo e He). specialize (Okf f Hf).
      unf. rdestr. lia.
    + intros e y He Hy. apply in_app_or in Hy as [Hy|Hy].
      * specialize (Cf y Hy). specialize (Cross e o He (or_introl eq_refl)). specialize (Okf y Hy).
        unf. rdestr. lia.
      * apply Cross; [assumption|right; assumption].
  - rewrite !Forall_app. repeat split; rewrite Forall_forall; assumption.
Qed.

Lemma excise_frags_props r s : run_ok r -> run_ok s -> contains r s ->
  StronglySorted run_lt (excise_frags r s) /\ Forall run_ok (excise_frags r s) /\ Forall (contains r) (excise_frags r s).
Proof.
  unfold run_ok, contains, same_row, excise_frags. intros Hr Hs C. rdestr.
  destruct (Z.ltb_spec rx0 rx); destruct (Z.ltb_spec (rx + rlen) (rx0 + rlen0)); cbn [app];
    repeat split; repeat constructor; unfold run_lt, row_lt, same_row; cbn [RLE.rx RLE.ry RLE.rz RLE.rlen]; lia.
Qed.

Lemma split_one_spec s : run_ok s -> forall after before,
  Forall run_ok (rev before ++ after) -> StronglySorted run_lt (rev before ++ after) ->
  (exists r, In r after /\ contains r s) ->
  exists b' a', split_one s before after = Some (b', a')
    /\ (forall p, inrs p (rev b' ++ a') = inrs p (rev before ++ after) && negb (inr p s))
    /\ Forall run_ok (rev b' ++ a') /\ StronglySorted run_lt (rev b' ++ a')
    /\ (forall s', run_ok s' -> run_lt s s' -> (exists r, In r after /\ contains r s') ->
                   exists r, In r a' /\ contains r s').
Proof.
  intros Hs. induction after as [|o tl IH]; intros before Hok S (r & Hin & C); [destruct Hin|].
  assert (Oko : run_ok o).
  { rewrite Forall_app in Hok. destruct Hok as [_ H]. inversion H; assumption. }
  assert (Fo : forall e, In e tl -> run_lt o e /\ run_ok e).
  { apply SS_app in S as (_ & So & _). inversion So as [|? ? _ F]; subst.
    rewrite Forall_app in Hok. destruct Hok as [_ H]. inversion H as [|? ? _ H2]; subst.
    rewrite Forall_forall in F, H2. intros e He. split; auto. }
  destruct Hin as [<-|Hin].
  - (* o is the run that contains s *)
    cbn [split_one]. rewrite (excise_contains o s Oko Hs C).
    destruct (excise_frags_props o s Oko Hs C) as (Sf & Okf & Cf).
    destruct (replace_run (rev before) o tl (excise_frags o s) s S Hok Hs C
                (fun p => excise_frags_voxels o s p Oko Hs C) Sf Okf Cf) as (V & S' & Ok').
    assert (Tail : forall s', run_ok s' -> run_lt s s' -> (exists r, In r (o :: tl) /\ contains r s') ->
                   forall a', (forall e, In e tl -> In e a') ->
                   (rx s + rlen s < rx o + rlen o ->
                    In (R (rx s + rlen s) (ry o) (rz o) (rx o + rlen o - (rx s + rlen s))) a') ->
                   exists r, In r a' /\ contains r s').
    { intros s' Hs' L (r & [<-|Hr] & Cr) a' Htl Hright.
      - eexists. split; [apply Hright|];
          unfold contains, same_row, run_lt, row_lt, run_ok in *; rdestr; lia.
      - exists r. split; [apply Htl; assumption|assumption]. }
    unfold excise_frags in *.
    destruct (Z.ltb_spec (rx o) (rx s)); destruct (Z.ltb_spec (rx s + rlen s) (rx o + rlen o)); cbn [app] in *.
    + eexists _, _. split; [reflexivity|]. cbn [rev]. rewrite <- app_assoc. cbn [app].
      repeat split; try assumption.
      intros s' Hs' L Ex. apply (Tail s' Hs' L Ex); [intros e He; right; assumption|intros _; left; reflexivity].
    + eexists _, _. split; [reflexivity|]. repeat split; try assumption.
      intros s' Hs' L Ex. apply (Tail s' Hs' L Ex); [intros e He; right; assumption|lia].
    + eexists _, _. split; [reflexivity|]. repeat split; try assumption.
      intros s' Hs' L Ex. apply (Tail s' Hs' L Ex); [intros e He; right; assumption|intros _; left; reflexivity].
    + eexists _, _. split; [reflexivity|]. repeat split; try assumption.
      intros s' Hs' L Ex. apply (Tail s' Hs' L Ex); [intros e He; assumption|lia].
  - (* the container is further on: o does not intersect s *)
    destruct (Fo r Hin) as (Lor & Okr).
    cbn [split_one]. rewrite (excise_before o s r Oko Hs Okr Lor C).
    assert (E : rev (o :: before) ++ tl = rev before ++ o :: tl).
    { cbn [rev]. rewrite <- app_assoc. reflexivity. }
    destruct (IH (o :: before)) as (b' & a' & E1 & V & Ok' & S' & T).
    { rewrite E. assumption. } { rewrite E. assumption. } { exists r. split; assumption. }
    exists b', a'. split; [exact E1|]. rewrite E in V. repeat split; try assumption.
    intros s' Hs' L (r' & [<-|Hr'] & Cr').
    + exfalso. unf. rdestr. lia.
    + apply T; [assumption|assumption|]. exists r'. split; assumption.
Qed.

Lemma split_all_spec ss : forall before after,
  Forall run_ok ss -> StronglySorted run_lt ss ->
  Forall run_ok (rev before ++ after) -> StronglySorted run_lt (rev before ++ after) ->
  Forall (fun s => exists r, In r after /\ contains r s) ss ->
  exists out, split_all ss before after = Some out
    /\ forall p, inrs p out = inrs p (rev before ++ after) && negb (inrs p ss).
Proof.
  induction ss as [|s ss IH]; intros before after Okss Sss Ok S Cont; cbn [split_all].
  - eexists. split; [reflexivity|]. intro p. now rewrite inrs_nil, andb_true_r.
  - inversion Okss as [|? ? Oks Okss']; subst. inversion Sss as [|? ? Sss' Fs]; subst.
    inversion Cont as [|? ? Cs Cont']; subst.
    destruct (split_one_spec s Oks after before Ok S Cs) as (b' & a' & E & V & Ok' & S' & T).
    rewrite E.
    destruct (IH b' a' Okss' Sss' Ok' S') as (out & Eo & Vo).
    { rewrite Forall_forall in *. intros s' Hs'. apply T; auto. }
    exists out. split; [exact Eo|]. intro p. rewrite Vo, V, inrs_cons.
    destruct (inrs p (rev before ++ after)), (inr p s), (inrs p ss); reflexivity.
Qed.

Lemma SS_pairs (Rel : rle -> rle -> Prop) l a b :
  StronglySorted Rel l -> In a l -> In b l -> a = b \/ Rel a b \/ Rel b a.
Proof.
  induction 1 as [|h t Ht IH Hh]; intros Ha Hb; [destruct Ha|].
  rewrite Forall_forall in Hh.
  destruct Ha as [<-|Ha], Hb as [<-|Hb]; auto.
Qed.

Lemma SS_weaken (R1 R2 : rle -> rle -> Prop) l :
  (forall a b, R1 a b -> R2 a b) -> StronglySorted R1 l -> StronglySorted R2 l.
Proof.
  intros W. induction 1 as [|h t Ht IH Hh]; constructor; [assumption|].
  eapply Forall_impl; [|exact Hh]. intros; auto.
Qed.

Lemma inrs_true p l : inrs p l = true -> exists r, In r l /\ inr p r = true.
Proof. intro H. apply existsb_exists in H. exact H. Qed.

(* a run inside the voxel set of a canonical (sorted, gap-separated) list lies in ONE of its runs *)
Lemma canon_contains l s : canon l -> run_ok s ->
  (forall p, inr p s = true -> inrs p l = true) -> exists r, In r l /\ contains r s.
Proof.
  intros (S & Ok) Hs Sub. rewrite Forall_forall in Ok.
  destruct (inrs_true (rx s, ry s, rz s) l) as (r & Hr & Ir).
  { apply Sub. unfold inr, run_ok in *. rdestr. unfold px, py, pz; cbn [fst snd]. lia. }
  exists r. split; [assumption|]. pose proof (Ok r Hr) as Okr.
  destruct (Z_le_gt_dec (rx s + rlen s) (rx r + rlen r)) as [L|G].
  { unf. unfold inr, px, py, pz in Ir; cbn [fst snd] in Ir. rdestr. lia. }
  exfalso.
  destruct (inrs_true (rx r + rlen r, ry s, rz s) l) as (r' & Hr' & Ir').
  { apply Sub. unfold inr, run_ok in *. unfold px, py, pz in *; cbn [fst snd] in *. rdestr. lia. }
  pose proof (Ok r' Hr') as Okr'.
  destruct (SS_pairs run_gap l r r' S Hr Hr') as [<-|[Gp|Gp]];
    unf; unfold inr, px, py, pz in *; cbn [fst snd] in *; rdestr; lia.
Qed.

Lemma split_ok rles splits :
  Forall run_ok rles -> pairwise_disjoint rles -> Forall run_ok splits -> pairwise_disjoint splits ->
  (forall p, inrs p splits = true -> inrs p rles = true) ->
  exists out, split rles splits = Ok out
    /\ forall p, inrs p out = inrs p rles && negb (inrs p splits).
Proof.
  intros Okr Dr Oks Ds Sub. unfold split.
  destruct splits as [|s0 splits'].
  { exists rles. split; [reflexivity|]. intro p. now rewrite inrs_nil, andb_true_r. }
  set (splits := s0 :: splits') in *.
  destruct (normalize_canon rles Okr Dr) as (So & Oko).
  destruct (normalize_canon splits Oks Ds) as (Ss & Okss).
  assert (W : forall a b, run_gap a b -> run_lt a b) by (intros a b; unf; lia).
  destruct (split_all_spec (normalize splits) [] (normalize rles)) as (out & E & V).
  - assumption.
  - eapply SS_weaken; [exact W|exact Ss].
  - exact Oko.
  - eapply SS_weaken; [exact W|exact So].
  - rewrite Forall_forall. intros s Hs. apply canon_contains; [split; assumption| |].
    + rewrite Forall_forall in Okss. auto.
    + intros p Hp. rewrite normalize_voxels_l by assumption. apply Sub.
      rewrite <- (normalize_voxels_l splits p Oks). apply existsb_exists. exists s. split; assumption.
  - rewrite E. exists out. split; [reflexivity|]. intro p. rewrite V. cbn [rev app].
    now rewrite !normalize_voxels_l by assumption.
Qed.
