(* Proofs.Conc: a common exclusive mutex around every access makes every accepted
   interleaving equal to the sequential run in mutex-acquisition order.
   Induction over the schedule; no bound on the number of requests or their length. *)
From DV Require Import Base.Prelude Model.Conc.
From Coq Require Import String Permutation.
Import List ListNotations.

Section ConcProofs.
Variable value : Type.
Notation action := (action value).
Notation request := (request value).
Notation thread := (thread value).
Notation state := (state value).
Notation store := (store value).

(* ---------- lists ---------- *)
Lemma set_nth_length {A} (l : list A) i x : length (set_nth l i x) = length l.
Proof. revert i; induction l as [|y l IH]; intros [|i]; simpl; auto. Qed.

Lemma nth_error_set_nth_eq {A} (l : list A) i x y :
  nth_error l i = Some y -> nth_error (set_nth l i x) i = Some x.
Proof.
  revert i; induction l as [|z l IH]; intros [|i]; simpl; intro H; try discriminate; auto.
Qed.

Lemma nth_error_set_nth_neq {A} (l : list A) i j x :
  i <> j -> nth_error (set_nth l i x) j = nth_error l j.
Proof.
  revert i j; induction l as [|z l IH]; intros [|i] [|j] H; simpl; auto.
  - contradiction.
Qed.

Lemma existsb_nat_In i l : existsb (Nat.eqb i) l = true <-> In i l.
Proof.
  rewrite existsb_exists. split.
  - intros [x [Hx E]]. apply Nat.eqb_eq in E. subst. exact Hx.
  - intro H. exists i. split; [exact H | apply Nat.eqb_refl].
Qed.

Lemma existsb_nat_notIn i l : existsb (Nat.eqb i) l = false <-> ~ In i l.
Proof.
  rewrite <- existsb_nat_In. destruct (existsb (Nat.eqb i) l); split; intro H; try discriminate; auto.
  exfalso; apply H; reflexivity.
Qed.

Lemma NoDup_snoc {A} (l : list A) x : NoDup l -> ~ In x l -> NoDup (l ++ [x]).
Proof.
  intros H1 H2. apply (Permutation_NoDup (Permutation_cons_append l x)). constructor; assumption.
Qed.

(* ---------- sequential semantics ---------- *)
Lemma run_sequential_snoc (rs : list request) r (s : store) :
  run_sequential (rs ++ [r]) s = exec r [] (run_sequential rs s).
Proof. unfold run_sequential. rewrite fold_left_app. reflexivity. Qed.

Lemma cov_cons mu ph (a : action) r :
  cov mu ph (a :: r) = true -> exists ph', cov_step mu ph a = Some ph' /\ cov mu ph' r = true.
Proof. simpl. destruct (cov_step mu ph a) as [ph'|]; intro H; [eauto | discriminate]. Qed.

Lemma cov_after_exec mu (l : list action) : cov mu After l = true ->
  forall regs (s : store), exec l regs s = s.
Proof.
  induction l as [|a l IH]; intros H regs s; [reflexivity|].
  apply cov_cons in H as [ph' [H1 H2]].
  destruct a; simpl in H1; try discriminate;
    try (destruct (String.eqb m mu); try discriminate);
    injection H1 as <-; simpl; apply IH; exact H2.
Qed.

(* ---------- mutex bookkeeping ---------- *)
Definition mu_entries (mu : mutex) (h : list hold) : list hold := filter (on_mutex mu) h.

Lemma holds_any_false mu h : holds_any mu h = false -> mu_entries mu h = [].
Proof.
  unfold holds_any, mu_entries. induction h as [|x h IH]; simpl; [reflexivity|].
  destruct (on_mutex mu x); simpl; [discriminate | exact IH].
Qed.

Lemma hold_eqb_on_mutex mu x e : hold_eqb x e = true -> on_mutex mu x = on_mutex mu e.
Proof.
  unfold hold_eqb, on_mutex. intro H.
  apply andb_true_iff in H as [H _]. apply andb_true_iff in H as [H _].
  apply String.eqb_eq in H. rewrite H. reflexivity.
Qed.

Lemma release_other mu e h h' :
  release e h = Some h' -> on_mutex mu e = false -> mu_entries mu h' = mu_entries mu h.
Proof.
  revert h'. induction h as [|x h IH]; simpl; intros h' H He; [discriminate|].
  destruct (hold_eqb x e) eqn:Ex.
  - injection H as <-. rewrite (hold_eqb_on_mutex mu _ _ Ex), He. reflexivity.
  - destruct (release e h) as [r'|]; [|discriminate]. injection H as <-.
    simpl. rewrite (IH r' eq_refl He). reflexivity.
Qed.

Lemma release_same_nonempty mu e h h' :
  release e h = Some h' -> on_mutex mu e = true -> mu_entries mu h <> [].
Proof.
  revert h'. induction h as [|x h IH]; simpl; intros h' H He; [discriminate|].
  destruct (hold_eqb x e) eqn:Ex.
  - rewrite (hold_eqb_on_mutex mu _ _ Ex), He. discriminate.
  - destruct (release e h) as [r'|]; [|discriminate].
    destruct (on_mutex mu x); [discriminate|]. exact (IH r' eq_refl He).
Qed.

Lemma release_same_single mu e h h' x0 :
  release e h = Some h' -> on_mutex mu e = true -> mu_entries mu h = [x0] -> mu_entries mu h' = [].
Proof.
  revert h'. induction h as [|x h IH]; simpl; intros h' H He Hs; [discriminate|].
  destruct (hold_eqb x e) eqn:Ex.
  - injection H as <-. rewrite (hold_eqb_on_mutex mu _ _ Ex), He in Hs.
    injection Hs as _ Hs. exact Hs.
  - destruct (release e h) as [r'|] eqn:Er; [|discriminate]. injection H as <-.
    simpl. destruct (on_mutex mu x).
    + injection Hs as _ Hs. exfalso. exact (release_same_nonempty mu e h r' Er He Hs).
    + exact (IH r' eq_refl He Hs).
Qed.

(* ---------- what one step does ---------- *)
Definition effect (s s' : state) (i : nat) (t : thread) (a : action) (regs' : list value) (ack' : bool) : Prop :=
  match a with
  | Read l => st s' = st s /\ held s' = held s /\ regs' = t_regs t ++ [st s l] /\ ack' = t_acked t
  | Write l f => st s' = set_store (st s) l (f (t_regs t)) /\ held s' = held s /\ regs' = t_regs t /\ ack' = t_acked t
  | Lock m => holds_any m (held s) = false /\ st s' = st s /\ held s' = (m, i, true) :: held s /\ regs' = t_regs t /\ ack' = t_acked t
  | RLock m => st s' = st s /\ held s' = (m, i, false) :: held s /\ regs' = t_regs t /\ ack' = t_acked t
  | Unlock m => release (m, i, true) (held s) = Some (held s') /\ st s' = st s /\ regs' = t_regs t /\ ack' = t_acked t
  | RUnlock m => release (m, i, false) (held s) = Some (held s') /\ st s' = st s /\ regs' = t_regs t /\ ack' = t_acked t
  | Ack => st s' = st s /\ held s' = held s /\ regs' = t_regs t /\ ack' = true
  end.

Lemma step_some (s : state) i s' : step s i = Some s' ->
  exists t a r regs' ack',
    nth_error (thr s) i = Some t /\ t_rem t = a :: r /\
    log s' = (i, a) :: log s /\
    thr s' = set_nth (thr s) i (mkThread r regs' ack') /\
    effect s s' i t a regs' ack'.
Proof.
  unfold step. destruct (nth_error (thr s) i) as [t|] eqn:Et; [|discriminate].
  destruct (t_rem t) as [|a r] eqn:Er; [discriminate|].
  intro H. exists t, a, r.
  destruct a; simpl in H.
  - injection H as <-. exists (t_regs t ++ [st s l]), (t_acked t). simpl. repeat split; auto.
  - injection H as <-. exists (t_regs t), (t_acked t). simpl. repeat split; auto.
  - destruct (holds_any m (held s)) eqn:Eh; [discriminate|].
    injection H as <-. exists (t_regs t), (t_acked t). simpl. repeat split; auto.
  - destruct (release (m, i, true) (held s)) as [h'|] eqn:Eh; [|discriminate].
    injection H as <-. exists (t_regs t), (t_acked t). simpl. repeat split; auto.
  - destruct (holds_excl m (held s)) eqn:Eh; [discriminate|].
    injection H as <-. exists (t_regs t), (t_acked t). simpl. repeat split; auto.
  - destruct (release (m, i, false) (held s)) as [h'|] eqn:Eh; [|discriminate].
    injection H as <-. exists (t_regs t), (t_acked t). simpl. repeat split; auto.
  - injection H as <-. exists (t_regs t), true. simpl. repeat split; auto.
Qed.

Lemma acq_order_step mu (s s' : state) i (a : action) :
  log s' = (i, a) :: log s ->
  acq_order mu s' = acq_order mu s ++ (if is_lock_of mu a then [i] else []).
Proof.
  intro H. unfold acq_order. rewrite H. simpl.
  destruct (is_lock_of mu a); simpl; [reflexivity | rewrite app_nil_r; reflexivity].
Qed.

(* ---------- the invariant ---------- *)
Definition opt_list (c : option nat) : list nat := match c with Some x => [x] | None => [] end.

Definition phase_of (done : list nat) (cur : option nat) (i : nat) : phase :=
  if existsb (Nat.eqb i) done then After
  else match cur with Some c => if Nat.eqb i c then Inside else Before | None => Before end.

Definition thread_ok (mu : mutex) (ph : phase) (r : request) (t : thread) : Prop :=
  cov mu ph (t_rem t) = true /\
  match ph with
  | Before => t_acked t = false /\ forall s : store, exec r [] s = exec (t_rem t) (t_regs t) s
  | Inside => t_acked t = false
  | After => True
  end.

Definition store_ok (reqs : list request) (s0 : store) (s : state) (done : list nat) (cur : option nat) : Prop :=
  exists rs, Forall2 (fun i r => nth_error reqs i = Some r) done rs /\
    match cur with
    | None => st s = run_sequential rs s0
    | Some c => exists r t, nth_error reqs c = Some r /\ nth_error (thr s) c = Some t /\
                  exec r [] (run_sequential rs s0) = exec (t_rem t) (t_regs t) (st s)
    end.

Definition Inv (mu : mutex) (reqs : list request) (s0 : store) (s : state) (done : list nat) (cur : option nat) : Prop :=
  length (thr s) = length reqs /\
  acq_order mu s = done ++ opt_list cur /\
  NoDup (done ++ opt_list cur) /\
  mu_entries mu (held s) = match cur with Some c => [(mu, c, true)] | None => [] end /\
  (forall i r t, nth_error reqs i = Some r -> nth_error (thr s) i = Some t ->
                 thread_ok mu (phase_of done cur i) r t) /\
  store_ok reqs s0 s done cur.

Lemma Inv_intro mu reqs s0 (s : state) done cur :
  length (thr s) = length reqs ->
  acq_order mu s = done ++ opt_list cur ->
  NoDup (done ++ opt_list cur) ->
  mu_entries mu (held s) = match cur with Some c => [(mu, c, true)] | None => [] end ->
  (forall i r t, nth_error reqs i = Some r -> nth_error (thr s) i = Some t ->
                 thread_ok mu (phase_of done cur i) r t) ->
  store_ok reqs s0 s done cur ->
  Inv mu reqs s0 s done cur.
Proof. intros. unfold Inv. tauto. Qed.

Lemma phase_of_other_lock done i j : j <> i -> phase_of done (Some i) j = phase_of done None j.
Proof.
  intro H. unfold phase_of. destruct (existsb (Nat.eqb j) done); [reflexivity|].
  apply Nat.eqb_neq in H. rewrite H. reflexivity.
Qed.

Lemma phase_of_other_unlock done i j : j <> i -> phase_of (done ++ [i]) None j = phase_of done (Some i) j.
Proof.
  intro H. unfold phase_of. rewrite existsb_app. simpl.
  apply Nat.eqb_neq in H. rewrite H. simpl. rewrite orb_false_r.
  destruct (existsb (Nat.eqb j) done); reflexivity.
Qed.

Lemma phase_of_inside_cur done cur i : phase_of done cur i = Inside -> cur = Some i /\ ~ In i done.
Proof.
  unfold phase_of. destruct (existsb (Nat.eqb i) done) eqn:E; [discriminate|].
  apply existsb_nat_notIn in E. destruct cur as [c|]; [|discriminate].
  destruct (Nat.eqb i c) eqn:Ec; [|discriminate]. apply Nat.eqb_eq in Ec. subst. auto.
Qed.

Lemma phase_of_not_inside_cur done cur i :
  NoDup (done ++ opt_list cur) -> phase_of done cur i <> Inside -> cur <> Some i.
Proof.
  intros Hnd Hph Hc. subst cur. apply Hph. unfold phase_of.
  destruct (existsb (Nat.eqb i) done) eqn:E.
  - exfalso. apply existsb_nat_In in E. simpl in Hnd.
    apply NoDup_remove_2 in Hnd. apply Hnd. rewrite app_nil_r. exact E.
  - rewrite Nat.eqb_refl. reflexivity.
Qed.

Lemma phase_of_before_notin done cur i : phase_of done cur i = Before -> ~ In i done.
Proof.
  unfold phase_of. destruct (existsb (Nat.eqb i) done) eqn:E; [discriminate|].
  intros _. apply existsb_nat_notIn. exact E.
Qed.

Lemma Inv_init mu (reqs : list request) (s0 : store) :
  forallb (covered mu) reqs = true -> Inv mu reqs s0 (init reqs s0) [] None.
Proof.
  intro Hc. apply Inv_intro; unfold init; simpl.
  - apply map_length.
  - reflexivity.
  - constructor.
  - reflexivity.
  - intros i r t Hr Ht. rewrite nth_error_map in Ht. unfold Conc.request in Hr.
    rewrite Hr in Ht. simpl in Ht. injection Ht as <-.
    unfold phase_of; simpl. unfold thread_ok; simpl. repeat split.
    rewrite forallb_forall in Hc. apply Hc. eapply nth_error_In; eauto.
  - exists []. split; [constructor | reflexivity].
Qed.

(* a step that changes neither the phase of its thread nor the ownership of mu *)
Lemma Inv_stay mu reqs s0 (s s' : state) done cur i t (a : action) r t' req :
  Inv mu reqs s0 s done cur ->
  nth_error (thr s) i = Some t -> t_rem t = a :: r ->
  nth_error reqs i = Some req ->
  log s' = (i, a) :: log s ->
  thr s' = set_nth (thr s) i t' ->
  is_lock_of mu a = false ->
  mu_entries mu (held s') = mu_entries mu (held s) ->
  thread_ok mu (phase_of done cur i) req t' ->
  (cur = Some i -> exec (t_rem t) (t_regs t) (st s) = exec (t_rem t') (t_regs t') (st s')) ->
  (cur <> Some i -> st s' = st s) ->
  Inv mu reqs s0 s' done cur.
Proof.
  intros (Hlen & Hacq & Hnd & Hmu & Hthr & rs & Hrs & Hst) Ht Hrem Hreq Hlog Hthr' Hnl Hmu' Hok Hcur Hncur.
  apply Inv_intro.
  - rewrite Hthr', set_nth_length. exact Hlen.
  - rewrite (acq_order_step mu s s' i a Hlog), Hnl, app_nil_r. exact Hacq.
  - exact Hnd.
  - rewrite Hmu'. exact Hmu.
  - intros j rj tj Hrj Htj. rewrite Hthr' in Htj.
    destruct (Nat.eq_dec i j) as [<-|Hij].
    + rewrite (nth_error_set_nth_eq _ _ _ _ Ht) in Htj. injection Htj as <-.
      rewrite Hreq in Hrj. injection Hrj as <-. exact Hok.
    + rewrite (nth_error_set_nth_neq _ _ _ _ Hij) in Htj. exact (Hthr j rj tj Hrj Htj).
  - exists rs. split; [exact Hrs|].
    destruct cur as [c|].
    + destruct Hst as (rc & tc & Hrc & Htc & He).
      destruct (Nat.eq_dec i c) as [<-|Hic].
      * exists rc, t'. rewrite Hthr'. repeat split; [exact Hrc | exact (nth_error_set_nth_eq _ _ _ _ Ht) |].
        rewrite Ht in Htc. injection Htc as <-. rewrite He. apply Hcur. reflexivity.
      * exists rc, tc. rewrite Hthr'. repeat split; [exact Hrc | rewrite (nth_error_set_nth_neq _ _ _ _ Hic); exact Htc |].
        rewrite Hncur; [exact He | congruence].
    + rewrite Hncur; [exact Hst | discriminate].
Qed.

Lemma Inv_step mu reqs s0 (s s' : state) done cur i :
  Inv mu reqs s0 s done cur -> step s i = Some s' ->
  exists done' cur', Inv mu reqs s0 s' done' cur'.
Proof.
  intros HI Hs.
  destruct (step_some s i s' Hs) as (t & a & r & regs' & ack' & Ht & Hrem & Hlog & Hthr' & Heff).
  pose proof HI as (Hlen & Hacq & Hnd & Hmu & Hthr & Hsto).
  assert (Hreq : exists req, nth_error reqs i = Some req).
  { destruct (nth_error reqs i) as [req|] eqn:E; [eauto|].
    apply nth_error_None in E. assert (i < length (thr s)) by (apply nth_error_Some; congruence). lia. }
  destruct Hreq as [req Hreq].
  pose proof (Hthr i req t Hreq Ht) as [Hcov Hph].
  rewrite Hrem in Hcov. apply cov_cons in Hcov as (ph' & Hcs & Hcov').
  destruct (phase_of done cur i) eqn:Eph.
  - (* Before *)
    destruct Hph as [Hack Hex].
    assert (Hnc : cur <> Some i).
    { apply (phase_of_not_inside_cur done); [exact Hnd | rewrite Eph; discriminate]. }
    destruct a; simpl in Hcs; try discriminate.
    + (* Lock *)
      destruct Heff as (Hfree & Hst & Hheld & -> & ->).
      destruct (String.eqb_spec m mu) as [->|Hm]; injection Hcs as <-.
      * (* acquires mu *)
        apply holds_any_false in Hfree. rewrite Hfree in Hmu.
        destruct cur as [c|]; [discriminate|].
        pose proof (phase_of_before_notin _ _ _ Eph) as Hnin.
        simpl in Hnd, Hacq. rewrite app_nil_r in Hnd, Hacq.
        exists done, (Some i). apply Inv_intro.
        -- rewrite Hthr', set_nth_length. exact Hlen.
        -- rewrite (acq_order_step mu s s' i _ Hlog). simpl. rewrite String.eqb_refl, Hacq. reflexivity.
        -- simpl. apply NoDup_snoc; assumption.
        -- rewrite Hheld. simpl. unfold on_mutex at 1; simpl. rewrite String.eqb_refl, Hfree. reflexivity.
        -- intros j rj tj Hrj Htj. rewrite Hthr' in Htj.
           destruct (Nat.eq_dec i j) as [<-|Hij].
           ++ rewrite (nth_error_set_nth_eq _ _ _ _ Ht) in Htj. injection Htj as <-.
              unfold phase_of. apply existsb_nat_notIn in Hnin. rewrite Hnin, Nat.eqb_refl.
              split; [exact Hcov' | exact Hack].
           ++ rewrite (nth_error_set_nth_neq _ _ _ _ Hij) in Htj.
              rewrite phase_of_other_lock by congruence. exact (Hthr j rj tj Hrj Htj).
        -- destruct Hsto as (rs & Hrs & Hst0). exists rs. split; [exact Hrs|].
           exists req, (mkThread r (t_regs t) (t_acked t)). rewrite Hthr'. repeat split;
             [exact Hreq | exact (nth_error_set_nth_eq _ _ _ _ Ht) |].
           simpl. rewrite Hst, Hst0, Hex, Hrem. reflexivity.
      * exists done, cur.
        eapply Inv_stay; try eassumption.
        -- simpl. apply String.eqb_neq. exact Hm.
        -- rewrite Hheld. simpl. unfold on_mutex at 1; simpl.
           apply String.eqb_neq in Hm. rewrite Hm. reflexivity.
        -- rewrite Eph. split; [exact Hcov'|]. split; [exact Hack|].
           intro s1. rewrite Hex, Hrem. reflexivity.
        -- intro Hc. contradiction.
        -- intros _. exact Hst.
    + (* Unlock other *)
      destruct Heff as (Hrel & Hst & -> & ->).
      destruct (String.eqb_spec m mu) as [->|Hm]; [discriminate|]. injection Hcs as <-.
      exists done, cur. eapply Inv_stay; try eassumption.
      * reflexivity.
      * eapply release_other; [exact Hrel|]. unfold on_mutex; simpl. apply String.eqb_neq. exact Hm.
      * rewrite Eph. split; [exact Hcov'|]. split; [exact Hack|].
        intro s1. rewrite Hex, Hrem. reflexivity.
      * intro Hc. contradiction.
      * intros _. exact Hst.
    + (* RLock other *)
      destruct Heff as (Hst & Hheld & -> & ->).
      destruct (String.eqb_spec m mu) as [->|Hm]; [discriminate|]. injection Hcs as <-.
      exists done, cur. eapply Inv_stay; try eassumption.
      * reflexivity.
      * rewrite Hheld. simpl. unfold on_mutex at 1; simpl.
        apply String.eqb_neq in Hm. rewrite Hm. reflexivity.
      * rewrite Eph. split; [exact Hcov'|]. split; [exact Hack|].
        intro s1. rewrite Hex, Hrem. reflexivity.
      * intro Hc. contradiction.
      * intros _. exact Hst.
    + (* RUnlock other *)
      destruct Heff as (Hrel & Hst & -> & ->).
      destruct (String.eqb_spec m mu) as [->|Hm]; [discriminate|]. injection Hcs as <-.
      exists done, cur. eapply Inv_stay; try eassumption.
      * reflexivity.
      * eapply release_other; [exact Hrel|]. unfold on_mutex; simpl. apply String.eqb_neq. exact Hm.
      * rewrite Eph. split; [exact Hcov'|]. split; [exact Hack|].
        intro s1. rewrite Hex, Hrem. reflexivity.
      * intro Hc. contradiction.
      * intros _. exact Hst.
  - (* Inside *)
    destruct (phase_of_inside_cur _ _ _ Eph) as [Hc Hnin]. subst cur.
    destruct a; simpl in Hcs; try discriminate.
    + (* Read *)
      injection Hcs as <-. destruct Heff as (Hst & Hheld & -> & ->).
      exists done, (Some i). eapply Inv_stay; try eassumption.
      * reflexivity.
      * rewrite Hheld. reflexivity.
      * rewrite Eph. split; [exact Hcov' | exact Hph].
      * intros _. rewrite Hrem, Hst. reflexivity.
      * intro Hc. exfalso; apply Hc; reflexivity.
    + (* Write *)
      injection Hcs as <-. destruct Heff as (Hst & Hheld & -> & ->).
      exists done, (Some i). eapply Inv_stay; try eassumption.
      * reflexivity.
      * rewrite Hheld. reflexivity.
      * rewrite Eph. split; [exact Hcov' | exact Hph].
      * intros _. rewrite Hrem, Hst. reflexivity.
      * intro Hc. exfalso; apply Hc; reflexivity.
    + (* Lock other *)
      destruct Heff as (Hfree & Hst & Hheld & -> & ->).
      destruct (String.eqb_spec m mu) as [->|Hm]; [discriminate|]. injection Hcs as <-.
      exists done, (Some i). eapply Inv_stay; try eassumption.
      * simpl. apply String.eqb_neq. exact Hm.
      * rewrite Hheld. simpl. unfold on_mutex at 1; simpl.
        apply String.eqb_neq in Hm. rewrite Hm. reflexivity.
      * rewrite Eph. split; [exact Hcov' | exact Hph].
      * intros _. rewrite Hrem, Hst. reflexivity.
      * intro Hc. exfalso; apply Hc; reflexivity.
    + (* Unlock *)
      destruct Heff as (Hrel & Hst & -> & ->).
      destruct (String.eqb_spec m mu) as [->|Hm]; injection Hcs as <-.
      * (* releases mu *)
        exists (done ++ [i]), None. simpl in Hacq, Hnd.
        apply Inv_intro.
        -- rewrite Hthr', set_nth_length. exact Hlen.
        -- rewrite (acq_order_step mu s s' i _ Hlog). simpl. rewrite !app_nil_r. exact Hacq.
        -- simpl. rewrite app_nil_r. exact Hnd.
        -- eapply release_same_single; [exact Hrel | | exact Hmu].
           unfold on_mutex; simpl. apply String.eqb_refl.
        -- intros j rj tj Hrj Htj. rewrite Hthr' in Htj.
           destruct (Nat.eq_dec i j) as [<-|Hij].
           ++ rewrite (nth_error_set_nth_eq _ _ _ _ Ht) in Htj. injection Htj as <-.
              unfold phase_of. rewrite existsb_app. simpl. rewrite Nat.eqb_refl. simpl. rewrite orb_true_r.
              split; [exact Hcov' | exact I].
           ++ rewrite (nth_error_set_nth_neq _ _ _ _ Hij) in Htj.
              rewrite phase_of_other_unlock by congruence. exact (Hthr j rj tj Hrj Htj).
        -- destruct Hsto as (rs & Hrs & rc & tc & Hrc & Htc & He).
           rewrite Hreq in Hrc. injection Hrc as <-. rewrite Ht in Htc. injection Htc as <-.
           exists (rs ++ [req]). split.
           ++ apply Forall2_app; [exact Hrs | constructor; [exact Hreq | constructor]].
           ++ rewrite run_sequential_snoc, He, Hrem. simpl.
              rewrite (cov_after_exec mu r Hcov'). exact Hst.
      * exists done, (Some i). eapply Inv_stay; try eassumption.
        -- reflexivity.
        -- eapply release_other; [exact Hrel|]. unfold on_mutex; simpl. apply String.eqb_neq. exact Hm.
        -- rewrite Eph. split; [exact Hcov' | exact Hph].
        -- intros _. rewrite Hrem, Hst. reflexivity.
        -- intro Hc. exfalso; apply Hc; reflexivity.
    + (* RLock other *)
      destruct Heff as (Hst & Hheld & -> & ->).
      destruct (String.eqb_spec m mu) as [->|Hm]; [discriminate|]. injection Hcs as <-.
      exists done, (Some i). eapply Inv_stay; try eassumption.
      * reflexivity.
      * rewrite Hheld. simpl. unfold on_mutex at 1; simpl.
        apply String.eqb_neq in Hm. rewrite Hm. reflexivity.
      * rewrite Eph. split; [exact Hcov' | exact Hph].
      * intros _. rewrite Hrem, Hst. reflexivity.
      * intro Hc. exfalso; apply Hc; reflexivity.
    + (* RUnlock other *)
      destruct Heff as (Hrel & Hst & -> & ->).
      destruct (String.eqb_spec m mu) as [->|Hm]; [discriminate|]. injection Hcs as <-.
      exists done, (Some i). eapply Inv_stay; try eassumption.
      * reflexivity.
      * eapply release_other; [exact Hrel|]. unfold on_mutex; simpl. apply String.eqb_neq. exact Hm.
      * rewrite Eph. split; [exact Hcov' | exact Hph].
      * intros _. rewrite Hrem, Hst. reflexivity.
      * intro Hc. exfalso; apply Hc; reflexivity.
  - (* After *)
    assert (Hnc : cur <> Some i).
    { apply (phase_of_not_inside_cur done); [exact Hnd | rewrite Eph; discriminate]. }
    destruct a; simpl in Hcs; try discriminate.
    + destruct Heff as (Hfree & Hst & Hheld & -> & ->).
      destruct (String.eqb_spec m mu) as [->|Hm]; [discriminate|]. injection Hcs as <-.
      exists done, cur. eapply Inv_stay; try eassumption.
      * simpl. apply String.eqb_neq. exact Hm.
      * rewrite Hheld. simpl. unfold on_mutex at 1; simpl.
        apply String.eqb_neq in Hm. rewrite Hm. reflexivity.
      * rewrite Eph. split; [exact Hcov' | exact I].
      * intro Hc. contradiction.
      * intros _. exact Hst.
    + destruct Heff as (Hrel & Hst & -> & ->).
      destruct (String.eqb_spec m mu) as [->|Hm]; [discriminate|]. injection Hcs as <-.
      exists done, cur. eapply Inv_stay; try eassumption.
      * reflexivity.
      * eapply release_other; [exact Hrel|]. unfold on_mutex; simpl. apply String.eqb_neq. exact Hm.
      * rewrite Eph. split; [exact Hcov' | exact I].
      * intro Hc. contradiction.
      * intros _. exact Hst.
    + destruct Heff as (Hst & Hheld & -> & ->).
      destruct (String.eqb_spec m mu) as [->|Hm]; [discriminate|]. injection Hcs as <-.
      exists done, cur. eapply Inv_stay; try eassumption.
      * reflexivity.
      * rewrite Hheld. simpl. unfold on_mutex at 1; simpl.
        apply String.eqb_neq in Hm. rewrite Hm. reflexivity.
      * rewrite Eph. split; [exact Hcov' | exact I].
      * intro Hc. contradiction.
      * intros _. exact Hst.
    + destruct Heff as (Hrel & Hst & -> & ->).
      destruct (String.eqb_spec m mu) as [->|Hm]; [discriminate|]. injection Hcs as <-.
      exists done, cur. eapply Inv_stay; try eassumption.
      * reflexivity.
      * eapply release_other; [exact Hrel|]. unfold on_mutex; simpl. apply String.eqb_neq. exact Hm.
      * rewrite Eph. split; [exact Hcov' | exact I].
      * intro Hc. contradiction.
      * intros _. exact Hst.
    + injection Hcs as <-. destruct Heff as (Hst & Hheld & -> & ->).
      exists done, cur. eapply Inv_stay; try eassumption.
      * reflexivity.
      * rewrite Hheld. reflexivity.
      * rewrite Eph. split; [exact Hcov' | exact I].
      * intro Hc. contradiction.
      * intros _. exact Hst.
Qed.

Lemma Inv_run mu reqs s0 sched : forall (s s' : state) done cur,
  Inv mu reqs s0 s done cur -> run_schedule sched s = Some s' ->
  exists done' cur', Inv mu reqs s0 s' done' cur'.
Proof.
  induction sched as [|i sched IH]; intros s s' done cur HI Hr; simpl in Hr.
  - injection Hr as <-. eauto.
  - destruct (step s i) as [s1|] eqn:Es; [|discriminate].
    destruct (Inv_step _ _ _ _ _ _ _ _ HI Es) as (d1 & c1 & HI1).
    exact (IH s1 s' d1 c1 HI1 Hr).
Qed.

Lemma Forall2_nth_lt (reqs : list request) done rs :
  Forall2 (fun i r => nth_error reqs i = Some r) done rs -> forall i, In i done -> i < length reqs.
Proof.
  induction 1 as [|i r done rs H _ IH]; intros j Hj; [contradiction|].
  destruct Hj as [<-|Hj]; [|exact (IH j Hj)].
  apply nth_error_Some. congruence.
Qed.

(* ---- main theorem: complete schedules ---- *)
Lemma serializable_if_covered_lemma :
  forall (mu : mutex) (reqs : list request) (s0 : store) (sched : list nat) (s : state),
    forallb (covered mu) reqs = true ->
    run_schedule sched (init reqs s0) = Some s ->
    all_done s = true ->
    exists rs,
      Forall2 (fun i r => nth_error reqs i = Some r) (acq_order mu s) rs /\
      Permutation (acq_order mu s) (seq 0 (length reqs)) /\
      st s = run_sequential rs s0.
Proof.
  intros mu reqs s0 sched s Hc Hr Hd.
  destruct (Inv_run mu reqs s0 sched _ _ _ _ (Inv_init mu reqs s0 Hc) Hr)
    as (done & cur & Hlen & Hacq & Hnd & Hmu & Hthr & rs & Hrs & Hst).
  unfold all_done in Hd. rewrite forallb_forall in Hd.
  assert (Hfin : forall i r t, nth_error reqs i = Some r -> nth_error (thr s) i = Some t ->
                               phase_of done cur i = After).
  { intros i r t Hi Ht. destruct (Hthr i r t Hi Ht) as [Hcov _].
    pose proof (Hd t (nth_error_In _ _ Ht)) as Hf. unfold finished in Hf.
    destruct (t_rem t); [|discriminate]. simpl in Hcov.
    destruct (phase_of done cur i); try discriminate. reflexivity. }
  assert (Hcur : cur = None).
  { destruct cur as [c|]; [|reflexivity]. exfalso.
    destruct Hst as (rc & tc & Hrc & Htc & _).
    pose proof (Hfin c rc tc Hrc Htc) as Hph. unfold phase_of in Hph.
    destruct (existsb (Nat.eqb c) done) eqn:E.
    - apply existsb_nat_In in E. simpl in Hnd. apply NoDup_remove_2 in Hnd.
      apply Hnd. rewrite app_nil_r. exact E.
    - rewrite Nat.eqb_refl in Hph. discriminate. }
  subst cur. simpl in Hacq, Hnd. rewrite app_nil_r in Hacq, Hnd.
  exists rs. rewrite Hacq. repeat split; [exact Hrs | | exact Hst].
  apply NoDup_Permutation; [exact Hnd | apply seq_NoDup |].
  intro i. rewrite in_seq. split.
  - intro Hi. split; [lia|]. simpl. exact (Forall2_nth_lt reqs done rs Hrs i Hi).
  - intros [_ Hi]. simpl in Hi.
    destruct (nth_error reqs i) as [r|] eqn:Er; [|apply nth_error_None in Er; lia].
    destruct (nth_error (thr s) i) as [t|] eqn:Et; [|apply nth_error_None in Et; lia].
    pose proof (Hfin i r t Er Et) as Hph. unfold phase_of in Hph.
    destruct (existsb (Nat.eqb i) done) eqn:E; [apply existsb_nat_In; exact E | discriminate].
Qed.

(* ---- every prefix: whenever mu is free, the store is the sequential run of the requests that
   have been through their critical section, and every acknowledged request is among them ---- *)
Lemma acked_writes_present_lemma :
  forall (mu : mutex) (reqs : list request) (s0 : store) (sched : list nat) (s : state),
    forallb (covered mu) reqs = true ->
    run_schedule sched (init reqs s0) = Some s ->
    (forall i t, nth_error (thr s) i = Some t -> t_acked t = true -> In i (acq_order mu s)) /\
    (holds_any mu (held s) = false ->
     exists rs, Forall2 (fun i r => nth_error reqs i = Some r) (acq_order mu s) rs /\
                st s = run_sequential rs s0).
Proof.
  intros mu reqs s0 sched s Hc Hr.
  destruct (Inv_run mu reqs s0 sched _ _ _ _ (Inv_init mu reqs s0 Hc) Hr)
    as (done & cur & Hlen & Hacq & Hnd & Hmu & Hthr & rs & Hrs & Hst).
  split.
  - intros i t Ht Ha.
    destruct (nth_error reqs i) as [r|] eqn:Er.
    2:{ apply nth_error_None in Er. assert (i < length (thr s)) by (apply nth_error_Some; congruence). lia. }
    destruct (Hthr i r t Er Ht) as [_ Hph]. rewrite Hacq. apply in_or_app. left.
    unfold phase_of in Hph. destruct (existsb (Nat.eqb i) done) eqn:E.
    + apply existsb_nat_In. exact E.
    + destruct cur as [c|].
      * destruct (Nat.eqb i c); [congruence | destruct Hph; congruence].
      * destruct Hph; congruence.
  - intro Hfree. apply holds_any_false in Hfree. rewrite Hfree in Hmu.
    destruct cur as [c|]; [discriminate|]. simpl in Hacq. rewrite app_nil_r in Hacq.
    exists rs. rewrite Hacq. split; assumption.
Qed.

End ConcProofs.
