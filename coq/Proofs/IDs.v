(* Proofs.IDs: issued mutation ids and labels strictly increase over any interleaving of
   allocations, crashes and restarts; settled labelmaps hand out fresh labels. *)
From DV Require Import Base.Prelude Model.Persist Model.IDs Proofs.Persist.
From Coq Require Import ZifyN ZifyNat ZifyBool.
Local Open Scope N_scope.

(* ================= mutation ids ================= *)
Definition m_bound (s : mstate) : N := match ms_pers s with Some p => p | None => 0 end.
Definition m_limit (s : mstate) : N := if ms_up s then ms_cur s else m_bound s.
Definition m_inv (s : mstate) : Prop :=
  ms_up s = true -> ms_cur s < ms_saved s /\ ms_pers s = Some (ms_saved s).

Lemma m_load_spec stride s start w : 0 < stride ->
  let s' := m_load stride s start w in
  ms_up s' = true /\ m_bound s <= ms_cur s' /\ ms_cur s' < ms_saved s' /\
  ms_saved s' = ms_cur s' + stride /\
  ms_pers s' = (if w then Some (ms_saved s') else ms_pers s).
Proof.
  intro Hst. unfold m_load, m_bound. cbn [ms_up ms_cur ms_saved ms_pers].
  set (c0 := match ms_pers s with Some p => p | None => 0 end).
  destruct (c0 <? start) eqn:E; [apply N.ltb_lt in E|apply N.ltb_ge in E]; repeat split; try lia.
Qed.

Lemma mstep_spec stride s e : 0 < stride -> m_inv s ->
  let '(s1, o) := mstep stride s e in
  m_inv s1 /\ m_limit s <= m_limit s1 /\
  match o with Some i => m_limit s <= i /\ i < m_limit s1 | None => True end.
Proof.
  intros Hst Hinv. unfold m_inv in Hinv.
  destruct s as [cur saved pers up]. cbn [ms_up ms_cur ms_saved ms_pers] in Hinv.
  destruct up.
  - destruct (Hinv eq_refl) as [H1 H2]. subst pers. clear Hinv.
    destruct e; cbn [mstep ms_up ms_cur ms_saved ms_pers].
    + destruct (saved <=? cur + 1) eqn:E; [apply N.leb_le in E|apply N.leb_gt in E];
        unfold m_inv, m_limit, m_bound; cbn; repeat split; intros; try lia; try reflexivity.
    + destruct ((saved <=? cur + 1) && after);
        unfold m_inv, m_limit, m_down, m_bound; cbn; repeat split; intros; try lia; try discriminate.
    + unfold m_inv, m_limit, m_down, m_bound; cbn; repeat split; intros; try lia; try discriminate.
    + unfold m_inv, m_limit, m_bound; cbn; repeat split; intros; try lia; try reflexivity.
    + unfold m_inv, m_limit, m_bound; cbn; repeat split; intros; try lia; try reflexivity.
  - clear Hinv. destruct e; cbn [mstep ms_up ms_cur ms_saved ms_pers].
    + unfold m_inv, m_limit, m_bound; cbn; repeat split; intros; try lia; try discriminate.
    + unfold m_inv, m_limit, m_bound; cbn; repeat split; intros; try lia; try discriminate.
    + unfold m_inv, m_limit, m_down, m_bound; cbn; repeat split; intros; try lia; try discriminate.
    + pose proof (m_load_spec stride {| ms_cur := cur; ms_saved := saved; ms_pers := pers; ms_up := false |} start true Hst) as L.
      cbn zeta in L. destruct L as (L1 & L2 & L3 & L4 & L5).
      unfold m_inv, m_limit. rewrite L1. cbn [ms_up]. repeat split; intros; try lia; try exact L5.
    + pose proof (m_load_spec stride {| ms_cur := cur; ms_saved := saved; ms_pers := pers; ms_up := false |} start after Hst) as L.
      cbn zeta in L. destruct L as (L1 & L2 & L3 & L4 & L5).
      unfold m_inv, m_limit, m_down. cbn [ms_up ms_pers]. unfold m_bound at 2. cbn [ms_pers]. rewrite L5.
      repeat split; intros; try discriminate. destruct after; [lia|]. unfold m_bound. cbn [ms_pers]. lia.
Qed.

Lemma mrun_spec stride : 0 < stride -> forall evs s, m_inv s ->
  let '(s', ids) := mrun stride s evs in
  m_inv s' /\ m_limit s <= m_limit s' /\ increasing ids /\ Forall (fun i => m_limit s <= i /\ i < m_limit s') ids.
Proof.
  intro Hst. induction evs as [|e evs IH]; intros s Hinv; cbn [mrun].
  - split; [exact Hinv|]. split; [apply N.le_refl|]. split; [exact I|constructor].
  - pose proof (mstep_spec stride s e Hst Hinv) as Hs. destruct (mstep stride s e) as [s1 o].
    destruct Hs as (Hinv1 & Hle1 & Ho).
    specialize (IH s1 Hinv1). destruct (mrun stride s1 evs) as [s2 ids].
    destruct IH as (Hinv2 & Hle2 & Hincr & Hall).
    destruct o as [i|].
    + destruct Ho as [Hi1 Hi2].
      split; [exact Hinv2|]. split; [lia|]. split.
      * cbn [increasing]. split; [|exact Hincr]. destruct ids as [|b r]; [exact I|]. inversion Hall; subst. lia.
      * constructor; [lia|]. revert Hall. apply Forall_impl. intros a [A B]. lia.
    + split; [exact Hinv2|]. split; [lia|]. split; [exact Hincr|].
      revert Hall. apply Forall_impl. intros a [A B]. lia.
Qed.

Lemma m_fresh_inv start stride : 0 < stride -> m_inv (m_fresh start stride).
Proof. intros H _. cbn. split; [lia|reflexivity]. Qed.

(* mutid_unique_monotone *)
Lemma mutid_increasing start stride evs : 0 < stride ->
  increasing (snd (mrun stride (m_fresh start stride) evs)).
Proof.
  intro H. pose proof (mrun_spec stride H evs _ (m_fresh_inv start stride H)) as Hs.
  destruct (mrun stride (m_fresh start stride) evs). cbn. tauto.
Qed.

Lemma increasing_NoDup l : increasing l -> NoDup l.
Proof.
  assert (G : forall l, increasing l -> forall a, (match l with [] => True | b :: _ => a < b end) -> Forall (fun x => a < x) l).
  { induction l0 as [|b r IH]; intros Hi a Ha; [constructor|]. destruct Hi as [H1 H2].
    constructor; [exact Ha|]. specialize (IH H2 b H1). revert IH. apply Forall_impl. intros; lia. }
  induction l as [|a r IH]; intro Hi; [constructor|]. destruct Hi as [H1 H2].
  constructor; [|now apply IH].
  intro Hin. pose proof (G r H2 a H1) as Hall. rewrite Forall_forall in Hall. specialize (Hall _ Hin). lia.
Qed.

(* ================= labels ================= *)
Definition l_pr (s : lstate) : N := match l_pmaxrepo s with Some p => p | None => 0 end.

(* the part of the invariant needed for uniqueness / monotonicity *)
Record l_inv (s : lstate) (last : N) : Prop := {
  li_next : l_next s = 0 /\ l_pnext s = None;
  li_last : last <= l_pr s;
  li_up : l_up s = true -> l_pr s <= l_maxrepo s
}.

Lemma l_load_ge s : l_pr s <= l_maxrepo (l_load s).
Proof.
  unfold l_load, l_pr. cbn. destruct (l_pmaxrepo s) as [p|]; [|lia].
  destruct (p <? _) eqn:E; [apply N.ltb_lt in E|]; lia.
Qed.

Lemma lstep_inv s e last : l_inv s last -> (match e with LSetNext _ => False | _ => True end) ->
  let '(s1, o) := lstep s e in
  match o with
  | Some (b, en) => last < b /\ b <= en /\ l_inv s1 en
  | None => l_inv s1 last
  end.
Proof.
  intros [[Hn Hpn] Hl Hu] Hne. unfold lstep.
  destruct (l_up s) eqn:Eup; cbn [negb].
  2:{ destruct e; try (constructor; auto; rewrite Eup; discriminate).
      constructor; cbn; auto.
      - now rewrite Hpn.
      - intros _. apply l_load_ge. }
  specialize (Hu eq_refl).
  destruct e; try contradiction.
  - (* LAlloc *)
    destruct (n =? 0) eqn:En; [constructor; auto|]. apply N.eqb_neq in En.
    destruct (alloc_refused s n); [constructor; auto|].
    unfold l_alloc. rewrite Hn. cbn [N.eqb negb add_present].
    repeat split; cbn; auto; try lia.
  - (* LAllocCrash *)
    destruct (n =? 0) eqn:En; [constructor; cbn; auto; discriminate|]. apply N.eqb_neq in En.
    cbn [orb]. destruct (alloc_refused s n); [constructor; cbn; auto; discriminate|].
    unfold l_alloc. rewrite Hn. cbn [N.eqb negb fst l_down].
    constructor; cbn; auto; try discriminate.
    unfold l_pr in *. destruct k as [|[|k]]; cbn; try lia.
  - (* LIngest *) constructor; cbn; auto.
  - (* LBgRead *) constructor; cbn; auto.
  - (* LBgWrite *)
    destruct (nth_remove i (l_pending s)) as [[[[v bm] [c|]] rest]|]; try (constructor; auto; fail).
    destruct (c <? bm); [|constructor; cbn; auto].
    unfold l_raise. constructor; cbn; auto.
    + unfold l_pr in *. cbn. destruct (l_maxrepo s <? bm) eqn:E; [apply N.ltb_lt in E|]; cbn; lia.
    + intros _. unfold l_pr in *. cbn. destruct (l_maxrepo s <? bm) eqn:E; [apply N.ltb_lt in E|]; cbn; lia.
  - (* LSetMax *)
    assert (R : l_inv (l_raise (add_present s [l]) v l (l_pending (add_present s [l]))) last).
    { unfold l_raise. constructor; cbn; auto.
      + unfold l_pr in *. cbn. destruct (l_maxrepo s <? l) eqn:E; [apply N.ltb_lt in E|]; cbn; lia.
      + intros _. unfold l_pr in *. cbn. destruct (l_maxrepo s <? l) eqn:E; [apply N.ltb_lt in E|]; cbn; lia. }
    destruct (vget v (l_maxv s) <? l); [exact R|].
    destruct (aget v (l_maxv s)); [constructor; cbn; auto|exact R].
  - (* LCrash *) constructor; cbn; auto; discriminate.
  - (* LRestart when up *) constructor; auto.
Qed.

Lemma lrun_increasing evs : forall s last, l_inv s last -> no_reposition evs = true ->
  ranges_increasing last (snd (lrun s evs)).
Proof.
  induction evs as [|e evs IH]; intros s last Hinv Hnr; cbn [lrun]; [exact I|].
  cbn [no_reposition forallb] in Hnr. apply andb_true_iff in Hnr as [He Hnr].
  assert (Hne : match e with LSetNext _ => False | _ => True end) by (destruct e; auto; discriminate).
  pose proof (lstep_inv s e last Hinv Hne) as Hs. destruct (lstep s e) as [s1 o].
  specialize (IH s1). destruct (lrun s1 evs) as [s2 out] eqn:Er. cbn [snd] in *.
  destruct o as [[b en]|].
  - destruct Hs as (H1 & H2 & H3). cbn [ranges_increasing]. repeat split; auto.
  - apply IH; auto.
Qed.

Lemma l_fresh_inv : l_inv l_fresh 0.
Proof. constructor; cbn; auto; lia. Qed.

(* label_unique_monotone *)
Lemma label_ranges_increasing evs : no_reposition evs = true ->
  ranges_increasing 0 (snd (lrun l_fresh evs)).
Proof. apply lrun_increasing. exact l_fresh_inv. Qed.

(* ---- freshness within one process lifetime ---- *)
Record f_inv (s : lstate) : Prop := {
  fi_up : l_up s = true;
  fi_next : l_next s = 0;
  fi_maxv : forall v x, In (v, x) (l_maxv s) -> x <= l_maxrepo s;
  fi_read : forall v bm c, In (v, bm, Some c) (l_pending s) -> c <= l_maxrepo s;
  fi_cov : forall l, In l (l_present s) ->
           l <= l_maxrepo s \/ exists v bm c, In (v, bm, c) (l_pending s) /\ l <= bm
}.

Lemma vget_le s v : (forall v x, In (v, x) (l_maxv s) -> x <= l_maxrepo s) -> vget v (l_maxv s) <= l_maxrepo s.
Proof.
  intro H. unfold vget. destruct (aget v (l_maxv s)) as [x|] eqn:E; [|lia].
  apply aget_In in E. eauto.
Qed.

Lemma seqN_In b n l : In l (seqN b n) -> b <= l /\ l < b + N.of_nat n.
Proof.
  revert b; induction n as [|n IH]; intros b H; [destruct H|].
  cbn [seqN] in H. destruct H as [->|H]; [lia|]. apply IH in H. lia.
Qed.

Lemma nth_update_In {A} (f : A -> A) i (l : list A) y :
  In y (nth_update i f l) -> In y l \/ exists x, In x l /\ y = f x.
Proof.
  revert i; induction l as [|a r IH]; intros i H; [destruct i; destruct H|].
  destruct i as [|i]; cbn [nth_update] in H.
  - destruct H as [<-|H]; [right; exists a; split; [now left|reflexivity]|left; now right].
  - destruct H as [<-|H]; [left; now left|]. destruct (IH _ H) as [H1|[x [H1 H2]]].
    + left; now right.
    + right. exists x. split; [now right|exact H2].
Qed.

Lemma nth_update_keeps {A} (f : A -> A) i (l : list A) x :
  In x l -> In x (nth_update i f l) \/ In (f x) (nth_update i f l).
Proof.
  revert i; induction l as [|a r IH]; intros i H; [destruct H|].
  destruct i as [|i]; cbn [nth_update].
  - destruct H as [->|H]; [right; now left|left; now right].
  - destruct H as [->|H]; [left; now left|]. destruct (IH i H); [left|right]; now right.
Qed.

Lemma nth_remove_In {A} i (l : list A) x rest : nth_remove i l = Some (x, rest) ->
  forall y, In y l <-> y = x \/ In y rest.
Proof.
  revert i x rest; induction l as [|a r IH]; intros i x rest H y; [destruct i; discriminate|].
  destruct i as [|i]; cbn [nth_remove] in H.
  - inversion H; subst. cbn. intuition.
  - destruct (nth_remove i r) as [[z r']|] eqn:E; [|discriminate]. inversion H; subst.
    specialize (IH i x r' E y). cbn. intuition.
Qed.

Lemma lstep_f s e : f_inv s -> live_event e = true -> f_inv (fst (lstep s e)) /\ l_maxrepo s <= l_maxrepo (fst (lstep s e)).
Proof.
  intros [Hup Hn Hmv Hrd Hcov] Hlive. unfold lstep. rewrite Hup. cbn [negb].
  destruct e; try discriminate.
  - (* LAlloc *)
    destruct (n =? 0) eqn:En; [cbn; split; [constructor; auto|lia]|]. apply N.eqb_neq in En.
    destruct (alloc_refused s n); [cbn; split; [constructor; auto|lia]|].
    unfold l_alloc. rewrite Hn. cbn [N.eqb negb fst add_present].
    split; [|cbn; lia]. constructor; cbn; auto.
    + intros v0 x Hin. apply In_aset in Hin as [E|Hin]; [inversion E; lia|]. specialize (Hmv _ _ Hin). lia.
    + intros v0 bm c Hin. specialize (Hrd _ _ _ Hin). lia.
    + intros l Hin. apply in_app_or in Hin as [Hin|Hin].
      * apply seqN_In in Hin. left. lia.
      * destruct (Hcov _ Hin) as [H|H]; [left; lia|right; exact H].
  - (* LIngest *)
    cbn [fst]. split; [|cbn; lia]. constructor; cbn; auto.
    + intros v0 bm c Hin. apply in_app_or in Hin as [Hin|Hin]; [eauto|].
      apply in_map_iff in Hin as [x [E _]]. inversion E.
    + intros l Hin. apply in_app_or in Hin as [Hin|Hin].
      * right. exists v, l, None. split; [|lia]. apply in_or_app. right. apply in_map_iff. eauto.
      * destruct (Hcov _ Hin) as [H|(v0 & bm & c & H1 & H2)]; [now left|].
        right. exists v0, bm, c. split; [apply in_or_app; now left|exact H2].
  - (* LBgRead *)
    cbn [fst]. split; [|cbn; lia]. constructor; cbn; auto.
    + intros v0 bm c Hin. apply nth_update_In in Hin as [Hin|[[[v1 bm1] c1] [Hin E]]]; [eauto|].
      inversion E; subst. now apply vget_le.
    + intros l Hin. destruct (Hcov _ Hin) as [H|(v0 & bm & c & H1 & H2)]; [now left|]. right.
      destruct (nth_update_keeps (fun p : N * N * option N => let '(v, bm, _) := p in (v, bm, Some (vget v (l_maxv s)))) i _ _ H1) as [H|H].
      * exists v0, bm, c. auto.
      * cbn in H. exists v0, bm, (Some (vget v0 (l_maxv s))). auto.
  - (* LBgWrite *)
    destruct (nth_remove i (l_pending s)) as [[[[v bm] [c|]] rest]|] eqn:Er;
      try (cbn [fst]; split; [constructor; auto|lia]).
    pose proof (nth_remove_In _ _ _ _ Er) as Hmem.
    assert (Hc : c <= l_maxrepo s) by (apply (Hrd v bm); apply Hmem; now left).
    destruct (c <? bm) eqn:Ecb; cbn [fst].
    + (* raise *)
      unfold l_raise. split.
      2:{ cbn. destruct (l_maxrepo s <? bm) eqn:E; [apply N.ltb_lt in E|]; lia. }
      assert (Hge : l_maxrepo s <= (if l_maxrepo s <? bm then bm else l_maxrepo s) /\ bm <= (if l_maxrepo s <? bm then bm else l_maxrepo s)).
      { destruct (l_maxrepo s <? bm) eqn:E; [apply N.ltb_lt in E|apply N.ltb_ge in E]; lia. }
      destruct Hge as [G1 G2].
      constructor; cbn; auto.
      * intros v0 x Hin. apply In_aset in Hin as [E|Hin]; [inversion E; subst; exact G2|]. specialize (Hmv _ _ Hin). lia.
      * intros v0 bm0 c0 Hin. assert (c0 <= l_maxrepo s) by (apply (Hrd v0 bm0); apply Hmem; now right). lia.
      * intros l Hin. destruct (Hcov _ Hin) as [H|(v0 & bm0 & c0 & H1 & H2)]; [left; lia|].
        apply Hmem in H1 as [E|H1]; [inversion E; subst; left; lia|]. right. eauto.
    + (* nothing to do: the block's labels are already covered *)
      apply N.ltb_ge in Ecb. split; [|cbn; lia]. constructor; cbn; auto.
      * intros v0 bm0 c0 Hin. apply (Hrd v0 bm0). apply Hmem. now right.
      * intros l Hin. destruct (Hcov _ Hin) as [H|(v0 & bm0 & c0 & H1 & H2)]; [now left|].
        apply Hmem in H1 as [E|H1]; [inversion E; subst; left; lia|]. right. eauto.
  - (* LSetMax *)
    assert (R : f_inv (l_raise (add_present s [l]) v l (l_pending (add_present s [l]))) /\
                l_maxrepo s <= l_maxrepo (l_raise (add_present s [l]) v l (l_pending (add_present s [l])))).
    { unfold l_raise. cbn [add_present l_maxrepo l_pending l_maxv l_next l_present].
      assert (Hge : l_maxrepo s <= (if l_maxrepo s <? l then l else l_maxrepo s) /\ l <= (if l_maxrepo s <? l then l else l_maxrepo s)).
      { destruct (l_maxrepo s <? l) eqn:E; [apply N.ltb_lt in E|apply N.ltb_ge in E]; lia. }
      destruct Hge as [G1 G2]. split; [|cbn; exact G1].
      constructor; cbn; auto.
      - intros v0 x Hin. apply In_aset in Hin as [E|Hin]; [inversion E; subst; exact G2|]. specialize (Hmv _ _ Hin). lia.
      - intros v0 bm c Hin. specialize (Hrd _ _ _ Hin). lia.
      - intros l0 [<-|Hin]; [left; exact G2|]. destruct (Hcov _ Hin) as [H|H]; [left; lia|right; exact H]. }
    destruct (vget v (l_maxv s) <? l) eqn:Ev; [exact R|].
    destruct (aget v (l_maxv s)) as [x|] eqn:Eg; [|exact R].
    cbn [fst]. split; [|cbn; lia]. apply N.ltb_ge in Ev.
    pose proof (vget_le s v Hmv) as Hv.
    constructor; cbn; auto.
    intros l0 [<-|Hin]; [left; lia|]. apply Hcov; exact Hin.
Qed.

Lemma lrun_f evs : forall s, f_inv s -> forallb live_event evs = true -> f_inv (fst (lrun s evs)).
Proof.
  induction evs as [|e evs IH]; intros s Hf Hl; [exact Hf|].
  cbn [forallb] in Hl. apply andb_true_iff in Hl as [He Hl].
  cbn [lrun]. destruct (lstep_f s e Hf He) as [Hf1 _].
  destruct (lstep s e) as [s1 o]. cbn [fst] in Hf1. specialize (IH s1 Hf1 Hl).
  destruct (lrun s1 evs) as [s2 out]. exact IH.
Qed.

Lemma l_fresh_f : f_inv l_fresh.
Proof. constructor; cbn; auto; intros; contradiction. Qed.

(* label_fresh: in one process lifetime, once every goroutine fired by an acknowledged ingest has
   run, the next allocation is above every label present in the volume at any version *)
Lemma label_fresh_live evs v n : forallb live_event evs = true ->
  let s := fst (lrun l_fresh evs) in
  l_pending s = [] ->
  forall b e, snd (lstep s (LAlloc v n)) = Some (b, e) ->
  b <= e /\ e <= max_label /\ forall l, In l (l_present s) -> l < b.
Proof.
  intros Hl. cbn zeta. intros Hp b e.
  pose proof (lrun_f evs l_fresh l_fresh_f Hl) as [Hup Hnx Hmv Hrd Hcov].
  set (s := fst (lrun l_fresh evs)) in *.
  unfold lstep. rewrite Hup. cbn [negb].
  destruct (n =? 0) eqn:En; [discriminate|]. apply N.eqb_neq in En.
  unfold alloc_refused. rewrite Hnx. cbn [N.eqb andb].
  destruct (max_label - l_maxrepo s <? n) eqn:Eg; [discriminate|]. apply N.ltb_ge in Eg.
  unfold l_alloc. rewrite Hnx. cbn [N.eqb negb snd]. intro H. inversion H; subst. clear H.
  split; [lia|]. split; [lia|].
  intros l Hin. destruct (Hcov _ Hin) as [H|(v0 & bm & c & H1 & _)]; [lia|]. rewrite Hp in H1. destruct H1.
Qed.

(* an allocation on the max-label path succeeds exactly when the request is non-empty and fits *)
Lemma alloc_succeeds s v n : l_up s = true -> l_next s = 0 ->
  (exists r, snd (lstep s (LAlloc v n)) = Some r) <-> n <> 0 /\ n <= max_label - l_maxrepo s.
Proof.
  intros Hup Hnx. unfold lstep. rewrite Hup. cbn [negb]. unfold alloc_refused. rewrite Hnx. cbn [N.eqb andb].
  destruct (n =? 0) eqn:En.
  - apply N.eqb_eq in En. split; [intros [r H]; discriminate|intros [H _]; contradiction].
  - apply N.eqb_neq in En. destruct (max_label - l_maxrepo s <? n) eqn:Eg.
    + apply N.ltb_lt in Eg. split; [intros [r H]; discriminate|intros [_ H]; lia].
    + apply N.ltb_ge in Eg. unfold l_alloc. rewrite Hnx. cbn. split; [intros _; split; auto|intros _; eauto].
Qed.

(* ---- refutations ---- *)
(* an allocation between the acknowledgement of an ingest and its background max-label update *)
Lemma label_fresh_refuted :
  let s := fst (lrun l_fresh [LIngest 1 [1000]]) in
  l_up s = true /\ In 1000 (l_present s) /\ snd (lstep s (LAlloc 1 1)) = Some (1, 1).
Proof. vm_compute. repeat split. now left. Qed.

(* the goroutine is lost in a crash: the ingested labels are never accounted for *)
Lemma label_fresh_crash_refuted :
  let s := fst (lrun l_fresh [LAlloc 1 5; LIngest 1 [1000]; LCrash; LRestart]) in
  l_up s = true /\ l_pending s = [] /\ l_lost s = true /\ In 1000 (l_present s) /\
  snd (lstep s (LAlloc 1 1)) = Some (6, 6).
Proof. vm_compute. repeat split. now left. Qed.

(* across restarts even a settled instance can hand out a label that is in use: an instance that
   was restarted before anything was persisted holds the 10-billion default only in memory; two racing
   goroutines leave the smaller block maximum in MaxLabel[v]; the next restart reloads that *)
Lemma label_reload_refuted :
  let evs := [LCrash; LRestart; LIngest 1 [10; 20]; LBgRead 0; LBgRead 1; LBgWrite 1; LBgWrite 0; LCrash; LRestart] in
  let s := fst (lrun l_fresh_unrepaired evs) in
  settled s = true /\ In 20 (l_present s) /\ snd (lstep s (LAlloc 1 1)) = Some (11, 11).
Proof. vm_compute. repeat split. right. now left. Qed.

(* ================= repo / version / instance ids (Model.Persist) ================= *)
Lemma safe_ids_mono ws : forall img r v i, i_ids img = Some (r, v, i) -> all_safe img ws = true ->
  exists r' v' i', i_ids (apply_ws img ws) = Some (r', v', i') /\ r <= r' /\ v <= v' /\ i <= i'.
Proof.
  induction ws as [|w ws IH]; intros img r v i Hid Hs.
  - exists r, v, i. cbn. repeat split; auto; lia.
  - cbn [all_safe] in Hs. apply andb_true_iff in Hs as [Hw Hs]. rewrite apply_ws_cons.
    destruct w; try (apply (IH _ r v i); [cbn; exact Hid|exact Hs]).
    unfold wsafe in Hw. rewrite Hid in Hw. rewrite !andb_true_iff, !N.leb_le in Hw. destruct Hw as [[A B] D].
    destruct (IH (apply_w img (WIDs r0 v0 i0)) r0 v0 i0 eq_refl Hs) as (r' & v' & i' & E & R1 & R2 & R3).
    exists r', v', i'. repeat split; auto; lia.
Qed.

Lemma chain_ids_mono C img img2 : rec_chain C img img2 -> img_ok img = true ->
  forall r v i, i_ids img = Some (r, v, i) ->
  exists r' v' i', i_ids img2 = Some (r', v', i') /\ r <= r' /\ v <= v' /\ i <= i'.
Proof.
  induction 1 as [img|img m wr j img2 Hrec Hch IH]; intros Hok r v i Hid.
  - exists r, v, i. repeat split; auto; lia.
  - destruct (recover_ok C img Hok) as (m' & w' & Hr & _ & _ & Hsafe & _).
    rewrite Hrec in Hr. apply Ok_inj in Hr. inversion Hr; subst.
    destruct (all_safe_prefix img w' Hok Hsafe j) as [Hokj Hsj].
    destruct (safe_ids_mono _ img r v i Hid Hsj) as (r1 & v1 & i1 & E1 & A1 & A2 & A3).
    destruct (IH Hokj r1 v1 i1 E1) as (r2 & v2 & i2 & E2 & B1 & B2 & B3).
    exists r2, v2, i2. repeat split; auto; lia.
Qed.

(* identifiers only move forward: across a completed operation ... *)
Lemma counters_forward_step C m img o : pinv m img = true ->
  let m' := fst (pstep C m o) in
  m_rid m <= m_rid m' /\ m_vid m <= m_vid m' /\ m_iid m <= m_iid m'.
Proof.
  intro H. apply pinv_iff in H. destruct (step_inv C m img o H) as (Hs & _ & H').
  destruct (safe_ids_mono _ img _ _ _ (pf_ids _ _ H) Hs) as (r & v & i & E & A & B & D).
  rewrite (pf_ids _ _ H') in E. inversion E; subst. cbn zeta. auto.
Qed.

(* ... and across a crash at any write of an operation followed by any number of (crashing)
   restarts: the restarted server's counters are at least those before the interrupted operation *)
Lemma counters_forward_crash C m img o k img2 mr wr : pinv m img = true ->
  rec_chain C (apply_ws img (firstn k (snd (pstep C m o)))) img2 -> recover C img2 = Ok (mr, wr) ->
  m_rid m <= m_rid mr /\ m_vid m <= m_vid mr /\ m_iid m <= m_iid mr.
Proof.
  intros H Hch Hrec. apply pinv_iff in H. destruct (step_inv C m img o H) as (Hs & _ & _).
  destruct (all_safe_prefix img _ (pf_ok _ _ H) Hs k) as [Hokk Hsk].
  destruct (safe_ids_mono _ img _ _ _ (pf_ids _ _ H) Hsk) as (r1 & v1 & i1 & E1 & A1 & A2 & A3).
  destruct (chain_ids_mono C _ _ Hch Hokk _ _ _ E1) as (r2 & v2 & i2 & E2 & B1 & B2 & B3).
  destruct (chain_ok C _ _ Hch Hokk) as [Hok2 _].
  destruct (recover_ok C img2 Hok2) as (m' & w' & Hr & _ & _ & Hsafe & _ & Hinv).
  rewrite Hrec in Hr. apply Ok_inj in Hr. inversion Hr; subst.
  destruct (safe_ids_mono _ img2 _ _ _ E2 Hsafe) as (r3 & v3 & i3 & E3 & D1 & D2 & D3).
  apply pinv_iff in Hinv. rewrite (pf_ids _ _ Hinv) in E3. inversion E3; subst. lia.
Qed.

(* what the next allocations return is not in use, in memory or on disk *)
Lemma not_In_all_lt l b : all_lt l b = true -> ~ In b l.
Proof.
  unfold all_lt. rewrite forallb_forall. intros H Hin. specialize (H _ Hin). apply N.ltb_lt in H. lia.
Qed.

Lemma ids_fresh C m img : preach C m img ->
  (forall id r, In (id, r) (m_repos m) \/ In (id, r) (i_repos img) ->
     id <> m_rid m /\ ~ In (m_vid m) (repo_versions r) /\ ~ In (m_iid m) (repo_iids r)) /\
  ~ In (m_rid m) (akeys (m_r2u m)).
Proof.
  intro Hp. apply preach_pinv in Hp. apply pinv_iff in Hp. destruct Hp as [H1 H2 H3 H4 H5 H6].
  split.
  - intros id r [Hin|Hin].
    + rewrite forallb_forall in H1. specialize (H1 _ Hin). apply andb_true_iff in H1 as [_ Hf].
      apply fresh_parts in Hf as (A & B & D). repeat split; [lia| |]; now apply not_In_all_lt.
    + unfold img_ok in H3. rewrite H4 in H3. rewrite !andb_true_iff in H3. destruct H3 as [[Hr _] _].
      rewrite forallb_forall in Hr. specialize (Hr _ Hin). apply andb_true_iff in Hr as [_ Hf].
      apply fresh_parts in Hf as (A & B & D). repeat split; [lia| |]; now apply not_In_all_lt.
  - now apply not_In_all_lt.
Qed.

(* the analysed window: a crash between putCaches and putNewIDs inside newUUID leaves a cache entry
   for the version id that the (uncorrected, "v > versionID") counter hands out again.  The entry
   names no node of any repo: the next start drops it (loadVersion0, "Found version id ... that is in
   no repo"), so the id -- never acknowledged -- is issued again and then names exactly one uuid. *)
Definition w_ops : list pop := [PNewRepo 11; PCommit 1 1].
Definition w_state : pmgr * image :=
  let C := w_conf in
  let '(m, wss) := prun C (init_mgr C) w_ops in
  (m, apply_ws (apply_ws empty_image (init_writes C)) (concat wss)).

Lemma version_id_reissued_after_crash :
  let C := w_conf in
  let '(m, img) := w_state in
  let ws := snd (pstep C m (PNewVersion 1 1 None 12)) in
  match recover C (apply_ws img (firstn 2 ws)) with
  | Ok (mr, _) =>
    aget 2 (m_v2u mr) = None /\ m_vid mr = 2 /\             (* the orphan entry for version 2 is dropped, counter still 2 *)
    (let '(m2, v, _) := new_uuid mr 13 in v = 2 /\ aget 2 (m_v2u m2) = Some 13) /\   (* handed out again, to one uuid *)
    pobserve mr = pobserve m                                   (* the orphan was in no repo *)
  | _ => False
  end.
Proof. vm_compute. repeat split. Qed.

(* ---- ingests that finish their max-label updates before the acknowledgement ---- *)
Lemma lrun_cons_fst s e r : fst (lrun s (e :: r)) = fst (lrun (fst (lstep s e)) r).
Proof. cbn [lrun]. destruct (lstep s e) as [s1 o]. cbn [fst]. destruct (lrun s1 r). reflexivity. Qed.

Lemma pop_update s v bm rest : l_up s = true -> l_pending s = (v, bm, None) :: rest ->
  let s' := fst (lrun s [LBgRead 0; LBgWrite 0]) in
  l_pending s' = rest /\ l_up s' = true.
Proof.
  intros Hup Hp. cbn zeta. rewrite !lrun_cons_fst. cbn [lrun fst].
  assert (E1 : fst (lstep s (LBgRead 0)) =
               set_pending s ((v, bm, Some (vget v (l_maxv s))) :: rest)).
  { unfold lstep. rewrite Hup. cbn [negb fst]. rewrite Hp. reflexivity. }
  rewrite E1. set (s1 := set_pending s _).
  assert (Hup1 : l_up s1 = true) by exact Hup.
  unfold lstep. rewrite Hup1. cbn [negb]. cbn [s1 set_pending l_pending nth_remove].
  destruct (vget v (l_maxv s) <? bm); cbn; auto.
Qed.

Lemma run_app s a b : fst (lrun s (a ++ b)) = fst (lrun (fst (lrun s a)) b).
Proof.
  revert s; induction a as [|e a IH]; intro s; [reflexivity|].
  cbn [app lrun]. destruct (lstep s e) as [s1 o]. specialize (IH s1).
  destruct (lrun s1 (a ++ b)) as [s2 out] eqn:E1. destruct (lrun s1 a) as [s3 out3] eqn:E2. cbn [fst] in *.
  exact IH.
Qed.

Lemma updates_drain bms : forall s v rest0, l_up s = true ->
  l_pending s = map (fun bm => (v, bm, None)) bms ++ rest0 ->
  let s' := fst (lrun s (concat (map (fun _ : N => [LBgRead 0; LBgWrite 0]) bms))) in
  l_pending s' = rest0 /\ l_up s' = true.
Proof.
  induction bms as [|bm bms IH]; intros s v rest0 Hup Hp; [cbn; auto|].
  cbn [map concat]. rewrite run_app. cbn [map app] in Hp.
  destruct (pop_update s v bm _ Hup Hp) as [H1 H2]. cbn zeta in H1, H2.
  apply (IH _ v rest0 H2 H1).
Qed.

Lemma req_no_pending q s : l_up s = true -> l_pending s = [] ->
  let s' := fst (lrun s (expand_req q)) in l_pending s' = [] /\ l_up s' = true.
Proof.
  intros Hup Hp. destruct q as [v n|v bms|v l]; cbn [expand_req].
  - cbn [lrun]. unfold lstep. rewrite Hup. cbn [negb]. destruct (n =? 0); [cbn; auto|].
    destruct (alloc_refused s n); [cbn; auto|].
    unfold l_alloc. destruct (negb (l_next s =? 0)); cbn; auto.
  - change (LIngest v bms :: ?x) with ([LIngest v bms] ++ x). rewrite run_app.
    set (s1 := fst (lrun s [LIngest v bms])).
    assert (H1 : l_up s1 = true /\ l_pending s1 = map (fun bm => (v, bm, None)) bms ++ []).
    { unfold s1. cbn [lrun]. unfold lstep. rewrite Hup. cbn. rewrite Hp. cbn. rewrite app_nil_r. auto. }
    destruct H1 as [A B]. apply (updates_drain bms s1 v [] A B).
  - cbn [lrun]. unfold lstep. rewrite Hup. cbn [negb].
    destruct (vget v (l_maxv s) <? l); [cbn; auto|]. destruct (aget v (l_maxv s)); cbn; auto.
Qed.

Lemma reqs_no_pending qs : forall s, l_up s = true -> l_pending s = [] ->
  let s' := fst (lrun s (expand_reqs qs)) in l_pending s' = [] /\ l_up s' = true.
Proof.
  induction qs as [|q qs IH]; intros s Hup Hp; [cbn; auto|].
  unfold expand_reqs. cbn [map concat]. rewrite run_app.
  destruct (req_no_pending q s Hup Hp) as [A B]. cbn zeta in A, B. apply (IH _ B A).
Qed.

Lemma expand_live qs : forallb live_event (expand_reqs qs) = true.
Proof.
  induction qs as [|q qs IH]; [reflexivity|]. unfold expand_reqs in *. cbn [map concat]. rewrite forallb_app, IH, andb_true_r.
  destruct q as [v n|v bms|v l]; cbn [expand_req forallb live_event]; auto.
  induction bms as [|b r IHb]; [reflexivity|]. cbn [map concat app forallb live_event andb]. cbn in IHb. exact IHb.
Qed.

(* label_fresh without proviso, for acknowledged requests of the repaired code *)
Lemma label_fresh_acked qs v n :
  let s := fst (lrun l_fresh (expand_reqs qs)) in
  forall b e, snd (lstep s (LAlloc v n)) = Some (b, e) ->
  b <= e /\ e <= max_label /\ forall l, In l (l_present s) -> l < b.
Proof.
  apply label_fresh_live; [apply expand_live|].
  now destruct (reqs_no_pending qs l_fresh eq_refl eq_refl).
Qed.
