(* Proofs.ConcRun: the general theorem instantiated on the generated lock table, and the
   decision "every site of the table is covered by one exclusive mutex or has a concrete
   lost-update schedule", both recomputed from Gen/Locks.v on every run. *)
From DV Require Import Base.Prelude Model.Conc Gen.Locks Model.ConcRun Proofs.Conc.
From Coq Require Import String Permutation.
Import List ListNotations.
Local Open Scope string_scope.
Local Open Scope list_scope.

(* coverage depends only on the shape of the request, not on ids or write functions *)
Lemma cov_to_actions_shape mu evs : forall ph g me n last g' me' n' last',
  cov mu ph (to_actions g me evs n last) = cov mu ph (to_actions g' me' evs n' last').
Proof.
  induction evs as [|e evs IH]; intros; simpl; [reflexivity|].
  destruct e; simpl.
  - destruct (cov_step mu ph (Lock m)); [apply IH | reflexivity].
  - destruct (cov_step mu ph (Unlock m)); [apply IH | reflexivity].
  - destruct (cov_step mu ph (RLock m)); [apply IH | reflexivity].
  - destruct (cov_step mu ph (RUnlock m)); [apply IH | reflexivity].
  - destruct (cov_step mu ph (Read l)); [apply IH | reflexivity].
  - destruct ph; simpl; try reflexivity. apply IH.
  - apply IH.
Qed.

Lemma site_cover_covered s mu : site_cover s = Some mu -> forall id, covered mu (site_request id s) = true.
Proof.
  unfold site_cover. intros H id. apply find_some in H as [_ H].
  unfold covered, site_request in *. rewrite <- H. apply cov_to_actions_shape.
Qed.

(* the requests of any number of clients at sites that the table shows covered by the same mutex *)
Definition site_requests (ids : list N) (sites : list gsite) : list (request val) :=
  map (fun p => site_request (fst p) (snd p)) (combine ids sites).

Lemma covered_sites_serializable_lemma :
  forall (mu : string) (ids : list N) (sites : list gsite) (s0 : store val) (sched : list nat) (s : state val),
    Forall (fun x => site_cover x = Some mu) sites ->
    run_schedule sched (init (site_requests ids sites) s0) = Some s ->
    all_done s = true ->
    exists rs,
      Forall2 (fun i r => nth_error (site_requests ids sites) i = Some r) (acq_order mu s) rs /\
      Permutation (acq_order mu s) (seq 0 (List.length (site_requests ids sites))) /\
      st s = run_sequential rs s0.
Proof.
  intros mu ids sites s0 sched s Hs Hr Hd.
  apply (serializable_if_covered_lemma val mu (site_requests ids sites) s0 sched s); try assumption.
  apply forallb_forall. intros r Hin. unfold site_requests in Hin.
  apply in_map_iff in Hin as [[id x] [<- Hp]]. simpl.
  apply in_combine_r in Hp. rewrite Forall_forall in Hs. apply site_cover_covered. apply Hs. exact Hp.
Qed.

(* ---- decision over the generated table ---- *)
Definition decided (s : gsite) : bool :=
  site_covered s || match find_witness s with Some _ => true | None => false end.

Lemma table_decided : forallb decided lock_table = true.
Proof. vm_compute. reflexivity. Qed.

Lemma table_verdicts_agree : forallb verdicts_agree lock_table = true.
Proof. vm_compute. reflexivity. Qed.

(* covered in the source as it stands with the repairs repo_patches/C11-2-fix (m.versionMu around
   newVersion and merge), C11-3-fix (d.updateMu around storeAndUpdate and DeleteData) and
   C11-4-fix (d.mutateMu around StoreElements, DeleteElement, MoveElement) *)
Definition expected_covered : list string :=
  ["keyvalue.PutData"; "keyvalue.DeleteData"; "labelmap.CleaveLabel"; "labelmap.ChangeLabelIndex";
   "neuronjson.storeAndUpdate"; "datastore.newVersion";
   "annotation.StoreElements"; "annotation.DeleteElement"; "annotation.MoveElement"; "datastore.merge";
   "neuronjson.DeleteData"; "labelmap.setMapping"].

Definition named_site_covered (name : string) : bool :=
  match find_site name with Some s => site_covered s | None => false end.

Lemma expected_covered_hold : forallb named_site_covered expected_covered = true.
Proof. vm_compute. reflexivity. Qed.

Lemma lost_update_refuted_lemma :
  forall s, In s lock_table -> site_cover s = None ->
    exists k fin,
      run_schedule (canon k (site_request 1 s) (site_request 2 s))
                   (init [site_request 1 s; site_request 2 s] empty_store) = Some fin /\
      all_done fin = true /\
      same_on (site_locs s) (st fin) (run_sequential [site_request 1 s; site_request 2 s] empty_store) = false /\
      same_on (site_locs s) (st fin) (run_sequential [site_request 2 s; site_request 1 s] empty_store) = false.
Proof.
  intros s Hin Hc.
  pose proof table_decided as H. rewrite forallb_forall in H. specialize (H s Hin).
  unfold decided, site_covered in H. rewrite Hc in H. simpl in H.
  destruct (find_witness s) as [k|] eqn:Ek; [|discriminate].
  unfold find_witness in Ek. apply find_some in Ek as [_ Hl].
  unfold lost_at in Hl.
  destruct (run_schedule (canon k (site_request 1 s) (site_request 2 s))
              (init [site_request 1 s; site_request 2 s] empty_store)) as [fin|] eqn:Er; [|discriminate].
  apply andb_true_iff in Hl as [Hl H3]. apply andb_true_iff in Hl as [H1 H2].
  apply negb_true_iff in H2, H3.
  exists k, fin. repeat split; assumption.
Qed.

Lemma generated_shard_keys_agree : shard_keys_agree shard_keys = true.
Proof. vm_compute. reflexivity. Qed.

Lemma generated_single_txn : single_txn badger_txns = true.
Proof. vm_compute. reflexivity. Qed.

Lemma generated_write_order_ok : write_order_ok write_order = true.
Proof. vm_compute. reflexivity. Qed.

Lemma generated_checks_ok : checks_ok site_checks = true.
Proof. vm_compute. reflexivity. Qed.

(* ---- hand-written sites for the non-vacuity examples (independent of the generated table) ---- *)
Definition ex_locked : gsite :=
  mkSite "example.locked" "" [GLock "mu"; GRead "x"; GWrite "x"; GUnlock "mu"] "mu".
Definition ex_unlocked : gsite :=
  mkSite "example.unlocked" "" [GRLock "mu"; GRead "x"; GRUnlock "mu"; GLock "mu"; GWrite "x"; GUnlock "mu"] "".
