(* Proofs.Geometry: key codec round trip and order, packed block index, Chunk = floor division.
   The functions are the generated ones of Gen/Arith.v: these proofs are re-checked against the
   current Go source on every run. *)
From DV Require Import Base.Prelude Base.WrapZ Gen.Arith Model.Geometry.
From Coq Require Import ZifyBool.
Ltac Zify.zify_post_hook ::= Z.div_mod_to_equations.
Local Open Scope Z_scope.

(* ---- key codec ---- *)


Definition off32 (v : Z) : Z := v + 2147483648.

Lemma to_zyx_eq x y z : is32 x -> is32 y -> is32 z ->
  to_zyx (x, y, z) = Ok (be32_bytes (off32 z) ++ be32_bytes (off32 y) ++ be32_bytes (off32 x)).
Proof.
  unfold is32; change (2^31) with 2147483648. intros Hx Hy Hz.
  unfold to_zyx, r_Point3d_ToZYXBytes, px, py, pz, fst, snd.
  assert (E : forall v, -2147483648 <= v < 2147483648 -> wU 32 (wS 64 (wS 64 v - -2147483648)) = off32 v).
  { intros v Hv. unfold wU, wS, off32. 
    change (2 ^ 32) with 4294967296. change (2 ^ (64 - 1)) with 9223372036854775808.
    change (2 ^ 64) with 18446744073709551616. lia. }
  rewrite !E by assumption.
  reflexivity.
Qed.

Lemma be32_bytes_range u : Forall (fun b => 0 <= b < 256) (be32_bytes u).
Proof. unfold be32_bytes. repeat constructor; lia. Qed.


Lemma be32_join u : 0 <= u < 4294967296 ->
  ((u / 16777216 mod 256 * 256 + u / 65536 mod 256) * 256 + u / 256 mod 256) * 256 + u mod 256 = u.
Proof.
  intro H.
  replace (u / 65536) with (u / 256 / 256) by (rewrite Z.div_div by lia; reflexivity).
  replace (u / 16777216) with (u / 256 / 256 / 256) by (rewrite !Z.div_div by lia; reflexivity).
  set (q1 := u / 256). set (q2 := q1 / 256). set (q3 := q2 / 256).
  pose proof (Z.div_mod u 256 ltac:(lia)). pose proof (Z.div_mod q1 256 ltac:(lia)).
  pose proof (Z.div_mod q2 256 ltac:(lia)).
  assert (q3 mod 256 = q3).
  { apply Z.mod_small. unfold q3, q2, q1. rewrite !Z.div_div by lia. 
    split; [apply Z.div_pos; lia | apply Z.div_lt_upper_bound; lia]. }
  fold q1 in H0. fold q2 in H1. fold q3 in H2. 
  pose proof (Z.div_mod q2 256 ltac:(lia)). fold q3 in H4. nia.
Qed.

Lemma bget_be32_app3 a b c :
  0 <= a < 4294967296 -> 0 <= b < 4294967296 -> 0 <= c < 4294967296 ->
  let l := be32_bytes a ++ be32_bytes b ++ be32_bytes c in
  bget_be32 l 0 4 = Some a /\ bget_be32 l 4 8 = Some b /\ bget_be32 l 8 12 = Some c.
Proof.
  intros Ha Hb Hc l. unfold l, bget_be32, be32_bytes.
  repeat split.
  - change (Some (((a / 16777216 mod 256 * 256 + a / 65536 mod 256) * 256 + a / 256 mod 256) * 256 + a mod 256) = Some a).
    now rewrite be32_join.
  - change (Some (((b / 16777216 mod 256 * 256 + b / 65536 mod 256) * 256 + b / 256 mod 256) * 256 + b mod 256) = Some b).
    now rewrite be32_join.
  - change (Some (((c / 16777216 mod 256 * 256 + c / 65536 mod 256) * 256 + c / 256 mod 256) * 256 + c mod 256) = Some c).
    now rewrite be32_join.
Qed.

Lemma be32_cmp a b r1 r2 : 0 <= a < 4294967296 -> 0 <= b < 4294967296 ->
  bytes_cmp (be32_bytes a ++ r1) (be32_bytes b ++ r2)
  = match a ?= b with Eq => bytes_cmp r1 r2 | c => c end.
Proof.
  intros Ha Hb. pose proof (be32_join a Ha) as Ea. pose proof (be32_join b Hb) as Eb.
  unfold be32_bytes. cbn [app bytes_cmp].
  pose proof (Z.mod_pos_bound (a / 16777216) 256 ltac:(lia)).
  pose proof (Z.mod_pos_bound (a / 65536) 256 ltac:(lia)).
  pose proof (Z.mod_pos_bound (a / 256) 256 ltac:(lia)).
  pose proof (Z.mod_pos_bound a 256 ltac:(lia)).
  pose proof (Z.mod_pos_bound (b / 16777216) 256 ltac:(lia)).
  pose proof (Z.mod_pos_bound (b / 65536) 256 ltac:(lia)).
  pose proof (Z.mod_pos_bound (b / 256) 256 ltac:(lia)).
  pose proof (Z.mod_pos_bound b 256 ltac:(lia)).
  set (a3 := a / 16777216 mod 256) in *. set (a2 := a / 65536 mod 256) in *.
  set (a1 := a / 256 mod 256) in *. set (a0 := a mod 256) in *.
  set (b3 := b / 16777216 mod 256) in *. set (b2 := b / 65536 mod 256) in *.
  set (b1 := b / 256 mod 256) in *. set (b0 := b mod 256) in *.
  clearbody a3 a2 a1 a0 b3 b2 b1 b0. subst a b.
  destruct (Z.compare_spec a3 b3) as [E3|L3|G3];
    [destruct (Z.compare_spec a2 b2) as [E2|L2|G2];
      [destruct (Z.compare_spec a1 b1) as [E1|L1|G1];
        [destruct (Z.compare_spec a0 b0) as [E0|L0|G0]|..]|..]|..].
  all: match goal with
       | |- bytes_cmp _ _ = _ => subst; now rewrite Z.compare_refl
       | |- Lt = match ?x ?= ?y with _ => _ end => replace (x ?= y) with Lt by (symmetry; apply Z.compare_lt_iff; lia); reflexivity
       | |- Gt = match ?x ?= ?y with _ => _ end => replace (x ?= y) with Gt by (symmetry; apply Z.compare_gt_iff; lia); reflexivity
       end.
Qed.

Lemma off32_range v : is32 v -> 0 <= off32 v < 4294967296.
Proof. unfold is32, off32. change (2^31) with 2147483648. lia. Qed.

Lemma zyx_roundtrip_l p : pt_is32 p ->
  exists b, to_zyx p = Ok b /\ length b = 12%nat /\ Forall (fun x => 0 <= x < 256) b /\ from_zyx b = Ok p.
Proof.
  destruct p as [[x y] z]. unfold pt_is32, px, py, pz; cbn [fst snd]. intros (Hx & Hy & Hz).
  eexists. split; [apply to_zyx_eq; assumption|].
  split; [reflexivity|]. split.
  { repeat (apply Forall_app; split); apply be32_bytes_range. }
  unfold from_zyx, r_Point3d_FromZYXBytes.
  destruct (bget_be32_app3 (off32 z) (off32 y) (off32 x)) as (E1 & E2 & E3); try (apply off32_range; assumption).
  cbv zeta in E1, E2, E3. rewrite E1, E2, E3.
  change (negb (Z.of_nat (length (be32_bytes (off32 z) ++ be32_bytes (off32 y) ++ be32_bytes (off32 x))) =? 12)) with false.
  cbv iota.
  assert (E : forall v, is32 v -> wS 32 (wS 64 (wS 64 (off32 v) + -2147483648)) = v).
  { intros v Hv. unfold is32 in Hv. change (2^31) with 2147483648 in Hv. unfold wS, off32.
    change (2 ^ (32 - 1)) with 2147483648. change (2 ^ 32) with 4294967296.
    change (2 ^ (64 - 1)) with 9223372036854775808.
    change (2 ^ 64) with 18446744073709551616. lia. }
  rewrite !E by assumption. reflexivity.
Qed.

Lemma zyx_order_l p q bp bq : pt_is32 p -> pt_is32 q -> to_zyx p = Ok bp -> to_zyx q = Ok bq ->
  bytes_cmp bp bq = zyx_cmp p q.
Proof.
  destruct p as [[x y] z], q as [[x' y'] z']. unfold pt_is32, px, py, pz, zyx_cmp; cbn [fst snd].
  intros (Hx & Hy & Hz) (Hx' & Hy' & Hz').
  rewrite !to_zyx_eq by assumption. intros E1 E2. apply Ok_inj in E1. apply Ok_inj in E2. subst.
  rewrite be32_cmp by (apply off32_range; assumption).
  rewrite be32_cmp by (apply off32_range; assumption).
  rewrite <- (app_nil_r (be32_bytes (off32 x))), <- (app_nil_r (be32_bytes (off32 x'))).
  rewrite be32_cmp by (apply off32_range; assumption).
  cbn [bytes_cmp]. unfold off32.
  assert (C : forall a b, (a + 2147483648 ?= b + 2147483648) = (a ?= b)).
  { intros a b. rewrite !(Z.add_comm _ 2147483648). apply Zcompare_plus_compat. }
  rewrite !C. unfold px, py, pz; cbn [fst snd].
  destruct (z ?= z'); try reflexivity. destruct (y ?= y'); try reflexivity. destruct (x ?= x'); reflexivity.
Qed.

(* ---- packed block index ---- *)


Lemma land_mask20 v : Z.land v 1048575 = v mod 1048576.
Proof. change 1048575 with (Z.ones 20). rewrite Z.land_ones by lia. reflexivity. Qed.

Lemma land_bit a k : 0 <= k -> Z.land a (2 ^ k) = (a / 2 ^ k mod 2) * 2 ^ k.
Proof.
  intro Hk. rewrite <- (Z.testbit_spec' a k Hk).
  apply Z.bits_inj'. intros n Hn. rewrite Z.land_spec, Z.pow2_bits_eqb by lia.
  destruct (Z.testbit a k) eqn:E; cbn [Z.b2z].
  - rewrite Z.mul_1_l, Z.pow2_bits_eqb by lia.
    destruct (Z.eqb_spec k n); [subst; now rewrite E | now rewrite andb_false_r].
  - rewrite Z.mul_0_l, Z.bits_0. destruct (Z.eqb_spec k n); [subst; now rewrite E | now rewrite andb_false_r].
Qed.

Lemma land_bit20 a : Z.land a 1048576 = (a / 1048576 mod 2) * 1048576.
Proof. exact (land_bit a 20 ltac:(lia)). Qed.

Lemma lor_add a m k : 0 <= k -> 0 <= m < 2 ^ k -> a mod 2 ^ k = 0 -> Z.lor a m = a + m.
Proof.
  intros Hk Hm Ha.
  assert (L : Z.land a m = 0).
  { apply Z.bits_inj'. intros n Hn. rewrite Z.land_spec, Z.bits_0.
    destruct (Z_lt_le_dec n k).
    - replace (Z.testbit a n) with false; [reflexivity|].
      symmetry. rewrite <- (Z.mod_pow2_bits_low a k n) by lia. rewrite Ha. apply Z.bits_0.
    - replace (Z.testbit m n) with false; [apply andb_false_r|].
      symmetry. destruct (Z.eq_dec m 0) as [->|]; [apply Z.bits_0|].
      apply Z.bits_above_log2; [lia|]. apply Z.lt_le_trans with k; [|lia].
      apply Z.log2_lt_pow2; lia. }
  rewrite (Z.add_nocarry_lxor a m L).
  apply Z.bits_inj'. intros n Hn. rewrite Z.lor_spec, Z.lxor_spec.
  assert (B : Z.testbit (Z.land a m) n = false) by (rewrite L; apply Z.bits_0).
  rewrite Z.land_spec in B. destruct (Z.testbit a n), (Z.testbit m n); try reflexivity; discriminate.
Qed.

Lemma lor_add20 a m : 0 <= m < 1048576 -> a mod 1048576 = 0 -> Z.lor a m = a + m.
Proof. exact (lor_add a m 20 ltac:(lia)). Qed.
Lemma lor_add21 a m : 0 <= m < 2097152 -> a mod 2097152 = 0 -> Z.lor a m = a + m.
Proof. exact (lor_add a m 21 ltac:(lia)). Qed.

Definition fld (c : Z) : Z := if c <? 0 then 1048576 + (- c) mod 1048576 else c mod 1048576.
Definition unfld (f : Z) : Z := if 1048576 <=? f then wS 32 (- (f mod 1048576)) else f mod 1048576.

Lemma fld_range c : 0 <= fld c < 2097152.
Proof. unfold fld. destruct (c <? 0); lia. Qed.


Lemma enc_neg acc c : is32 c -> c < 0 -> 0 <= acc -> acc mod 2097152 = 0 ->
  Z.lor (Z.lor acc 1048576) (wU 64 (Z.land (wS 32 (- c)) 1048575)) = acc + fld c.
Proof.
  unfold is32. change (2^31) with 2147483648. intros Hc Hn Hacc Hm. unfold fld.
  replace (c <? 0) with true by lia.
  rewrite land_mask20. rewrite (lor_add21 acc 1048576) by lia.
  assert (E2 : wS 32 (- c) mod 1048576 = (- c) mod 1048576).
  { unfold wS. change (2 ^ (32 - 1)) with 2147483648. change (2 ^ 32) with 4294967296. lia. }
  rewrite E2. unfold wU. change (2^64) with 18446744073709551616.
  rewrite (Z.mod_small (_ mod _)) by lia.
  rewrite lor_add20; lia.
Qed.

Lemma enc_pos acc c : is32 c -> 0 <= c -> 0 <= acc -> acc mod 2097152 = 0 ->
  Z.lor acc (wU 64 (Z.land c 1048575)) = acc + fld c.
Proof.
  unfold is32. change (2^31) with 2147483648. intros Hc Hn Hacc Hm. unfold fld.
  replace (c <? 0) with false by lia.
  rewrite land_mask20. unfold wU. change (2^64) with 18446744073709551616.
  rewrite (Z.mod_small (_ mod _)) by lia.
  rewrite lor_add20; lia.
Qed.

Lemma enc_shift v : 0 <= v < 4398046511104 -> wU 64 (Z.shiftl v 21) = v * 2097152.
Proof.
  intro H. rewrite Z.shiftl_mul_pow2 by lia. change (2^21) with 2097152.
  unfold wU. change (2^64) with 18446744073709551616. apply Z.mod_small. lia.
Qed.

Lemma encode_eq x y z : is32 x -> is32 y -> is32 z ->
  r_EncodeBlockIndex x y z = (fld z * 2097152 + fld y) * 2097152 + fld x.
Proof.
  intros Hx Hy Hz. pose proof (fld_range x). pose proof (fld_range y). pose proof (fld_range z).
  cbv beta iota zeta delta [r_EncodeBlockIndex].
  destruct (Z.ltb_spec z 0) as [Nz|Pz]; cbv beta iota zeta.
  1: rewrite (enc_neg 0 z) by (assumption || lia || reflexivity).
  2: rewrite (enc_pos 0 z) by (assumption || lia || reflexivity).
  all: rewrite (enc_shift (0 + fld z)) by lia.
  all: destruct (Z.ltb_spec y 0) as [Ny|Py]; cbv beta iota zeta.
  1,3: rewrite (enc_neg _ y) by (assumption || lia).
  3,4: rewrite (enc_pos _ y) by (assumption || lia).
  all: rewrite (enc_shift ((0 + fld z) * 2097152 + fld y)) by lia.
  all: destruct (Z.ltb_spec x 0) as [Nx|Px]; cbv beta iota zeta.
  1,3,5,7: rewrite (enc_neg _ x) by (assumption || lia).
  5,6,7,8: rewrite (enc_pos _ x) by (assumption || lia).
  all: lia.
Qed.

Lemma dec_field w' c : 0 <= w' -> 0 <= c < 2097152 ->
  let w := w' * 2097152 + c in
  wS 32 (Z.land w 1048575) = c mod 1048576
  /\ negb (Z.land w 1048576 =? 0) = (1048576 <=? c)
  /\ Z.shiftr w 21 = w'.
Proof.
  intros Hw Hc w. unfold w. rewrite land_mask20, land_bit20, Z.shiftr_div_pow2 by lia.
  change (2^21) with 2097152. repeat split.
  - unfold wS. change (2 ^ (32 - 1)) with 2147483648. change (2 ^ 32) with 4294967296. lia.
  - lia.
  - lia.
Qed.

Lemma decode_eq a b c : 0 <= a < 2097152 -> 0 <= b < 2097152 -> 0 <= c < 2097152 ->
  r_DecodeBlockIndex ((a * 2097152 + b) * 2097152 + c) = (unfld c, unfld b, unfld a).
Proof.
  intros Ha Hb Hc. cbv beta iota zeta delta [r_DecodeBlockIndex].
  destruct (dec_field (a * 2097152 + b) c ltac:(lia) Hc) as (E1 & E2 & E3). cbv zeta in E1, E2, E3.
  rewrite E1, E2, E3.
  destruct (dec_field a b ltac:(lia) Hb) as (F1 & F2 & F3). cbv zeta in F1, F2, F3.
  rewrite F1, F2, F3.
  destruct (dec_field 0 a ltac:(lia) Ha) as (G1 & G2 & G3). cbv zeta in G1, G2, G3.
  rewrite Z.mul_0_l, Z.add_0_l in G1, G2. rewrite G1, G2.
  unfold unfld. reflexivity.
Qed.

Lemma izyx_decode_same w : r_BlockIndexToIZYXString w = r_DecodeBlockIndex w.
Proof. reflexivity. Qed.

Lemma unfld_fld c : is32 c -> (unfld (fld c) = c <-> in_blockindex_range c).
Proof.
  unfold is32, in_blockindex_range, unfld, fld. change (2^31) with 2147483648. change (2^20) with 1048576.
  intro H. destruct (Z.ltb_spec c 0).
  - replace (1048576 <=? 1048576 + - c mod 1048576) with true by lia.
    replace ((1048576 + - c mod 1048576) mod 1048576) with (- c mod 1048576) by lia.
    unfold wS. change (2 ^ (32 - 1)) with 2147483648. change (2 ^ 32) with 4294967296. lia.
  - replace (1048576 <=? c mod 1048576) with false by lia. lia.
Qed.

Lemma blockindex_roundtrip_iff p : pt_is32 p ->
  (decode_block_index (encode_block_index p) = p
   <-> in_blockindex_range (px p) /\ in_blockindex_range (py p) /\ in_blockindex_range (pz p)).
Proof.
  destruct p as [[x y] z]. unfold pt_is32, decode_block_index, encode_block_index, px, py, pz; cbn [fst snd].
  intros (Hx & Hy & Hz). rewrite encode_eq by assumption.
  rewrite decode_eq by apply fld_range.
  rewrite <- (unfld_fld x Hx), <- (unfld_fld y Hy), <- (unfld_fld z Hz).
  split.
  - intro E. inversion E as [[E1 E2 E3]]. rewrite E1, E2, E3. auto.
  - intros (E1 & E2 & E3). now rewrite E1, E2, E3.
Qed.

(* ---- Chunk ---- *)


Lemma chunk_gen_eq p s : chunk_pt p s =
  if (px s =? 0) || (py s =? 0) || (pz s =? 0) then Panic
  else Ok (chunk1 (px p) (px s), chunk1 (py p) (py s), chunk1 (pz p) (pz s)).
Proof. reflexivity. Qed.

(* no-wrap range of Chunk: the point is an int32, the block size positive, p - size representable *)
Lemma chunk1_floor p s : is32 p -> 1 <= s -> - 2 ^ 31 <= p - s -> chunk1 p s = p / s.
Proof.
  unfold is32. change (2^31) with 2147483648. intros Hp Hs Hps. unfold chunk1.
  assert (W : forall v, -2147483648 <= v < 2147483648 -> wS 32 v = v).
  { intros v Hv. apply w32_id. unfold is32. change (2^31) with 2147483648. lia. }
  destruct (Z.ltb_spec p 0) as [N|P].
  - rewrite (W (p - s)) by lia. rewrite (W (p - s + 1)) by lia.
    replace (p - s + 1) with (- (s - 1 - p)) by lia.
    rewrite Z.quot_opp_l by lia. rewrite Z.quot_div_nonneg by lia.
    assert (E : (s - 1 - p) / s = - (p / s)).
    { symmetry. apply Z.div_unique with (r := s - 1 - p mod s).
      - left. pose proof (Z.mod_pos_bound p s ltac:(lia)). lia.
      - pose proof (Z.div_mod p s ltac:(lia)). nia. }
    rewrite E, Z.opp_involutive.
    apply W. pose proof (Z.div_mod p s ltac:(lia)). pose proof (Z.mod_pos_bound p s ltac:(lia)). nia.
  - rewrite Z.quot_div_nonneg by lia. apply W.
    split; [pose proof (Z.div_pos p s ltac:(lia) ltac:(lia)); lia|].
    apply Z.le_lt_trans with p; [|lia]. apply Z.div_le_upper_bound; nia.
Qed.

(* the block a voxel lies in: floor division, also for negative coordinates *)
Definition block_of (size p : pt) : pt := (px p / px size, py p / py size, pz p / pz size).
Definition pt_safe (p : pt) : Prop :=
  - 1073741824 <= px p < 1073741824 /\ - 1073741824 <= py p < 1073741824 /\ - 1073741824 <= pz p < 1073741824.
Definition bsize_ok (s : pt) : Prop :=
  1 <= px s <= 1073741824 /\ 1 <= py s <= 1073741824 /\ 1 <= pz s <= 1073741824.

Lemma chunk_pt_floor p size : pt_safe p -> bsize_ok size -> chunk_pt p size = Ok (block_of size p).
Proof.
  destruct p as [[x y] z], size as [[sx sy] sz]. unfold pt_safe, bsize_ok, block_of, px, py, pz; cbn [fst snd].
  intros Hp Hs. rewrite chunk_gen_eq. unfold px, py, pz; cbn [fst snd].
  replace ((sx =? 0) || (sy =? 0) || (sz =? 0)) with false by lia.
  rewrite !chunk1_floor by (unfold is32; change (2^31) with 2147483648; lia). reflexivity.
Qed.

(* the exact boundary and the non-canonical "-0" code *)
Lemma blockindex_boundary_examples :
  decode_block_index (encode_block_index (1048576, 0, 0)) = (0, 0, 0)
  /\ decode_block_index (encode_block_index (-1048576, 0, 0)) = (0, 0, 0)
  /\ decode_block_index (encode_block_index (1048575, -1048575, 0)) = (1048575, -1048575, 0)
  /\ encode_block_index (decode_block_index 1048576) = 0.
Proof. vm_compute. repeat split. Qed.

Lemma fld_unfld f : 0 <= f < 2097152 -> f <> 1048576 -> is32 (unfld f) /\ fld (unfld f) = f.
Proof.
  intros Hf Hn. unfold unfld, fld, is32. change (2^31) with 2147483648.
  destruct (Z.leb_spec 1048576 f).
  - assert (E : wS 32 (- (f mod 1048576)) = - (f mod 1048576)).
    { apply w32_id. unfold is32. change (2^31) with 2147483648. lia. }
    rewrite E. replace (- (f mod 1048576) <? 0) with true by lia. lia.
  - replace (f mod 1048576 <? 0) with false by lia. lia.
Qed.

(* every code below 2^63 whose three 21-bit fields avoid "-0" is the code of its decoding *)
Lemma blockindex_code_roundtrip_l w : 0 <= w < 2 ^ 63 ->
  w mod 2097152 <> 1048576 -> (w / 2097152) mod 2097152 <> 1048576 -> w / 4398046511104 <> 1048576 ->
  encode_block_index (decode_block_index w) = w.
Proof.
  change (2^63) with 9223372036854775808. intros Hw H1 H2 H3.
  set (c := w mod 2097152) in *. set (b := (w / 2097152) mod 2097152) in *. set (a := w / 4398046511104) in *.
  assert (Ew : w = (a * 2097152 + b) * 2097152 + c).
  { unfold a, b, c. replace 4398046511104 with (2097152 * 2097152) by reflexivity.
    rewrite <- Z.div_div by lia. lia. }
  assert (Ha : 0 <= a < 2097152) by (unfold a; lia).
  assert (Hb : 0 <= b < 2097152) by (unfold b; lia).
  assert (Hc : 0 <= c < 2097152) by (unfold c; lia).
  clearbody a b c. subst w. unfold decode_block_index, encode_block_index.
  rewrite decode_eq by assumption. unfold px, py, pz; cbn [fst snd].
  destruct (fld_unfld a Ha H3) as (Ia & Fa). destruct (fld_unfld b Hb H2) as (Ib & Fb).
  destruct (fld_unfld c Hc H1) as (Ic & Fc).
  rewrite encode_eq by assumption. now rewrite Fa, Fb, Fc.
Qed.

Lemma blockindex_roundtrip_l p : pt_is32 p ->
  in_blockindex_range (px p) -> in_blockindex_range (py p) -> in_blockindex_range (pz p) ->
  decode_block_index (encode_block_index p) = p.
Proof. intros H Hx Hy Hz. apply (proj2 (blockindex_roundtrip_iff p H)). auto. Qed.

Lemma blockindex_to_izyx_l w :
  block_index_to_izyx w = to_zyx (decode_block_index w) /\ block_index_to_izyx_via_ok = true.
Proof. split; reflexivity. Qed.

(* ---- the tie to the Go source: the functions generated from it on this run are the ones the
   model uses (any edit of a mask, shift, sign test, offset or callee breaks this) ---- *)
Lemma source_tie :
  g_EncodeBlockIndex = r_EncodeBlockIndex /\ g_DecodeBlockIndex = r_DecodeBlockIndex
  /\ g_BlockIndexToIZYXString = r_BlockIndexToIZYXString
  /\ g_BlockIndexToIZYXString_via = r_BlockIndexToIZYXString_via
  /\ g_Point3d_ToZYXBytes = r_Point3d_ToZYXBytes /\ g_Point3d_FromZYXBytes = r_Point3d_FromZYXBytes
  /\ g_Point3d_Chunk = r_Point3d_Chunk.
Proof. repeat split; reflexivity. Qed.
