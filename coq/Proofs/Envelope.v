(* Proofs.Envelope: round trip, corruption detection and totality of the serialization envelope. *)
From DV Require Import Base.Prelude Base.Int Model.CRC Model.Envelope Gen.Consts Proofs.CRC.
From Coq Require Import ZifyN ZifyNat ZifyBool.
Local Open Scope N_scope.

(* --- format byte --- *)
Definition small_pairs : list (N * N) :=
  flat_map (fun c => map (fun k => (c, k)) [0;1;2;3]) [0;1;2;3;4;5;6;7].

Lemma format_byte_sweep :
  forallb (fun '(c, k) => (dec_comp (enc_format c k) =? c) && (dec_cks (enc_format c k) =? k)
                          && (enc_format c k <? 256)) small_pairs = true.
Proof. vm_compute. reflexivity. Qed.

Lemma format_byte_roundtrip c k : c < 8 -> k < 4 ->
  dec_comp (enc_format c k) = c /\ dec_cks (enc_format c k) = k /\ enc_format c k < 256.
Proof.
  intros Hc Hk.
  assert (I : In (c, k) small_pairs).
  { unfold small_pairs. apply in_flat_map. exists c. split.
    - assert (c = 0 \/ c = 1 \/ c = 2 \/ c = 3 \/ c = 4 \/ c = 5 \/ c = 6 \/ c = 7) by lia.
      simpl. intuition.
    - apply in_map. assert (k = 0 \/ k = 1 \/ k = 2 \/ k = 3) by lia. simpl. intuition. }
  pose proof (proj1 (forallb_forall _ _) format_byte_sweep _ I) as H. cbn beta iota in H.
  apply andb_true_iff in H as [H H3]. apply andb_true_iff in H as [H1 H2].
  apply N.eqb_eq in H1, H2. apply N.ltb_lt in H3. auto.
Qed.

(* --- laws assumed of the third-party codecs (trusted base; validated differentially) --- *)
Definition declared_size (comp : N) (data : bytes) : N :=
  if comp =? n_LZ4 then N.of_nat (length data) mod 2^32 else 0.

Record codec_law (C : codecs) : Prop := {
  law_roundtrip : forall comp lvl d c,
      c_compress C comp lvl d = Ok c -> c_decompress C comp (declared_size comp d) c = Ok d;
  law_nonempty : forall comp lvl d c,
      d <> [] -> comp <> n_LZ4 -> c_compress C comp lvl d = Ok c -> c <> [];
  law_bytes : forall comp lvl d c,
      bytes_ok d -> c_compress C comp lvl d = Ok c -> bytes_ok c;
}.

Definition no_codec_panic (C : codecs) : Prop :=
  forall comp n c, c_decompress C comp n c <> Panic.

Definition lossless (comp : N) : Prop :=
  comp = n_Uncompressed \/ comp = n_Snappy \/ comp = n_Gzip \/ comp = n_LZ4.
Definition checksum_ok (cks : N) : Prop := cks = n_NoChecksum \/ cks = n_CRC32.

Lemma firstn_app_exact {A} (a b : list A) n : length a = n -> firstn n (a ++ b) = a.
Proof. intro H. subst n. rewrite firstn_app, Nat.sub_diag, firstn_all. simpl. apply app_nil_r. Qed.
Lemma skipn_app_exact {A} (a b : list A) n : length a = n -> skipn n (a ++ b) = b.
Proof. intro H. subst n. rewrite skipn_app, Nat.sub_diag, skipn_all. reflexivity. Qed.

(* deserializing an envelope produced by serialize_pre gives back the stored payload *)
Lemma deserialize_pre C g p comp cks s :
  p <> [] -> bytes_ok p -> comp < 8 -> checksum_ok cks ->
  serialize_pre p comp cks = Ok s ->
  exists f, s = f :: (if (if comp =? n_Gzip then n_NoChecksum else cks) =? n_CRC32
                      then le_enc 4 (crc32 p) else []) ++ p
            /\ dec_comp f = comp
            /\ dec_cks f = (if comp =? n_Gzip then n_NoChecksum else cks)
            /\ deserialize_gen C g s false = Ok (p, comp).
Proof.
  intros Hne Hok Hc Hk Hs. unfold serialize_pre in Hs.
  destruct p as [|b p']; [congruence|]. set (p := b :: p') in *.
  set (k := if comp =? n_Gzip then n_NoChecksum else cks) in *.
  assert (Hk' : k = n_NoChecksum \/ k = n_CRC32).
  { unfold k. destruct (comp =? n_Gzip); [left; reflexivity|exact Hk]. }
  assert (Hk4 : k < 4) by (destruct Hk' as [-> | ->]; reflexivity).
  destruct (format_byte_roundtrip comp k Hc Hk4) as (D1 & D2 & D3).
  exists (enc_format comp k). destruct Hk' as [E|E]; rewrite E in *.
  - change (n_NoChecksum =? n_NoChecksum) with true in Hs. apply Ok_inj in Hs; subst s.
    change (n_NoChecksum =? n_CRC32) with false. cbn [app].
    repeat split; try assumption.
    unfold deserialize_gen. rewrite D1, D2.
    change (n_NoChecksum =? n_NoChecksum) with true. cbn [res_bind negb orb]. reflexivity.
  - change (n_CRC32 =? n_NoChecksum) with false in Hs.
    change (n_CRC32 =? n_CRC32) with true in Hs. apply Ok_inj in Hs; subst s.
    change (n_CRC32 =? n_CRC32) with true.
    repeat split; try assumption.
    unfold deserialize_gen. rewrite D1, D2.
    change (n_CRC32 =? n_NoChecksum) with false. change (n_CRC32 =? n_CRC32) with true.
    assert (L : length (le_enc 4 (crc32 p)) = 4%nat) by apply le_enc_length.
    replace (Nat.ltb (length (le_enc 4 (crc32 p) ++ p)) 4) with false.
    2:{ symmetry. apply Nat.ltb_ge. rewrite app_length, L. lia. }
    rewrite firstn_app_exact by exact L. rewrite skipn_app_exact by exact L.
    rewrite le_dec_enc by (apply crc32_w32; exact Hok).
    rewrite N.eqb_refl. cbn [res_bind negb orb]. reflexivity.
Qed.

Theorem precompressed_roundtrip C g p comp cks s :
  p <> [] -> bytes_ok p -> comp < 8 -> checksum_ok cks ->
  serialize_pre p comp cks = Ok s -> deserialize_gen C g s false = Ok (p, comp).
Proof.
  intros H1 H2 H3 H4 H5. destruct (deserialize_pre C g p comp cks s H1 H2 H3 H4 H5) as (f & _ & _ & _ & D).
  exact D.
Qed.

(* the part of deserialize after the checksum stage, exposed for reuse *)
Definition after_envelope (C : codecs) (g : bool) (comp : N) (cdata : bytes) (u : bool) : res (bytes * N) :=
  if negb u || (comp =? n_Uncompressed) then Ok (cdata, comp)
  else if comp =? n_Snappy then res_bind (c_decompress C comp 0 cdata) (fun d => Ok (d, comp))
  else if comp =? n_LZ4 then
    if Nat.ltb (length cdata) 4 then (if g then Err else Panic)
    else let orig := le_dec (firstn 4 cdata) in
         if orig =? 0 then Ok (skipn 4 cdata, comp)
         else res_bind (c_decompress C comp orig (skipn 4 cdata)) (fun d => Ok (d, comp))
  else if comp =? n_JPEG then res_bind (c_decompress C comp 0 cdata) (fun d => Ok (d, comp))
  else if comp =? n_Gzip then res_bind (c_decompress C comp 0 cdata) (fun d => Ok (d, comp))
  else Err.

Lemma deserialize_split C g f rest u p comp :
  dec_comp f = comp ->
  deserialize_gen C g (f :: rest) false = Ok (p, comp) ->
  deserialize_gen C g (f :: rest) u = after_envelope C g comp p u.
Proof.
  intros <-. unfold deserialize_gen, after_envelope. intro H.
  destruct (dec_cks f =? n_NoChecksum).
  - cbn [res_bind negb orb] in H. inversion H; subst. reflexivity.
  - destruct (dec_cks f =? n_CRC32); [|discriminate].
    destruct (Nat.ltb (length rest) 4); [discriminate|].
    destruct (crc32 (skipn 4 rest) =? le_dec (firstn 4 rest)); [|discriminate].
    cbn [res_bind negb orb] in H. inversion H; subst. reflexivity.
Qed.

Theorem roundtrip_gen C g data comp lvl cks s :
  codec_law C -> bytes_ok data -> N.of_nat (length data) < 2^32 ->
  lossless comp -> checksum_ok cks ->
  serialize C data comp lvl cks = Ok s ->
  deserialize_gen C g s true = Ok (data, match data with [] => n_Uncompressed | _ => comp end).
Proof.
  intros L Hok Hlen Hc Hk Hs.
  destruct data as [|b0 d0]; [unfold serialize in Hs; inversion Hs; reflexivity|].
  set (data := b0 :: d0) in *.
  assert (Hne : data <> []) by discriminate.
  assert (Hc8 : comp < 8) by (destruct Hc as [->|[->|[->| ->]]]; reflexivity).
  unfold serialize in Hs. fold data in Hs. cbv iota in Hs.
  destruct Hc as [E|[E|[E|E]]]; subst comp.
  - (* uncompressed *)
    change (n_Uncompressed =? n_Uncompressed) with true in Hs.
    destruct (deserialize_pre C g data _ _ _ Hne Hok Hc8 Hk Hs) as (f & -> & D1 & _ & D).
    rewrite (deserialize_split _ _ _ _ true _ _ D1 D). reflexivity.
  - (* snappy *)
    change (n_Snappy =? n_Uncompressed) with false in Hs.
    change (n_Snappy =? n_Snappy) with true in Hs.
    destruct (c_compress C n_Snappy lvl data) as [c| |] eqn:Ec; try discriminate.
    cbn [res_bind] in Hs.
    assert (Hcne : c <> []) by (eapply (law_nonempty C L); eauto; discriminate).
    assert (Hcok : bytes_ok c) by (eapply (law_bytes C L); eauto).
    destruct (deserialize_pre C g c _ _ _ Hcne Hcok Hc8 Hk Hs) as (f & -> & D1 & _ & D).
    rewrite (deserialize_split _ _ _ _ true _ _ D1 D).
    unfold after_envelope. cbn [negb orb].
    change (n_Snappy =? n_Uncompressed) with false. change (n_Snappy =? n_Snappy) with true.
    pose proof (law_roundtrip C L _ _ _ _ Ec) as R. unfold declared_size in R.
    change (n_Snappy =? n_LZ4) with false in R. rewrite R. reflexivity.
  - (* gzip *)
    change (n_Gzip =? n_Uncompressed) with false in Hs.
    change (n_Gzip =? n_Snappy) with false in Hs.
    change (n_Gzip =? n_LZ4) with false in Hs.
    change (n_Gzip =? n_Gzip) with true in Hs.
    destruct (c_compress C n_Gzip lvl data) as [c| |] eqn:Ec; try discriminate.
    cbn [res_bind] in Hs.
    assert (Hcne : c <> []) by (eapply (law_nonempty C L); eauto; discriminate).
    assert (Hcok : bytes_ok c) by (eapply (law_bytes C L); eauto).
    destruct (deserialize_pre C g c _ _ _ Hcne Hcok Hc8 Hk Hs) as (f & -> & D1 & _ & D).
    rewrite (deserialize_split _ _ _ _ true _ _ D1 D).
    unfold after_envelope. cbn [negb orb].
    change (n_Gzip =? n_Uncompressed) with false. change (n_Gzip =? n_Snappy) with false.
    change (n_Gzip =? n_LZ4) with false. change (n_Gzip =? n_JPEG) with false.
    change (n_Gzip =? n_Gzip) with true.
    pose proof (law_roundtrip C L _ _ _ _ Ec) as R. unfold declared_size in R.
    change (n_Gzip =? n_LZ4) with false in R. rewrite R. reflexivity.
  - (* lz4 *)
    change (n_LZ4 =? n_Uncompressed) with false in Hs.
    change (n_LZ4 =? n_Snappy) with false in Hs.
    change (n_LZ4 =? n_LZ4) with true in Hs.
    destruct (c_compress C n_LZ4 lvl data) as [c| |] eqn:Ec; try discriminate.
    cbn [res_bind] in Hs.
    set (n := N.of_nat (length data) mod 2^32) in *.
    assert (Hn : n = N.of_nat (length data)) by (unfold n; apply N.mod_small; exact Hlen).
    set (p := le_enc 4 n ++ c) in *.
    assert (Hpne : p <> []).
    { unfold p. intro X. apply (f_equal (@length N)) in X. rewrite app_length, le_enc_length in X. simpl in X. lia. }
    assert (Hpok : bytes_ok p).
    { unfold p, bytes_ok. apply Forall_app. split; [apply le_enc_ok|eapply (law_bytes C L); eauto]. }
    destruct (deserialize_pre C g p _ _ _ Hpne Hpok Hc8 Hk Hs) as (f & -> & D1 & _ & D).
    rewrite (deserialize_split _ _ _ _ true _ _ D1 D).
    unfold after_envelope. cbn [negb orb].
    change (n_LZ4 =? n_Uncompressed) with false. change (n_LZ4 =? n_Snappy) with false.
    change (n_LZ4 =? n_LZ4) with true.
    assert (L4 : length (le_enc 4 n) = 4%nat) by apply le_enc_length.
    replace (Nat.ltb (length p) 4) with false.
    2:{ symmetry. apply Nat.ltb_ge. unfold p. rewrite app_length, L4. lia. }
    unfold p. rewrite firstn_app_exact by exact L4. rewrite skipn_app_exact by exact L4.
    rewrite le_dec_enc by (rewrite Hn; exact Hlen).
    replace (n =? 0) with false.
    2:{ symmetry. apply N.eqb_neq. rewrite Hn. unfold data. simpl length. lia. }
    pose proof (law_roundtrip C L _ _ _ _ Ec) as R. unfold declared_size in R.
    change (n_LZ4 =? n_LZ4) with true in R. fold n in R. rewrite R. reflexivity.
Qed.

(* --- corruption detection --- *)

(* an envelope carrying a CRC whose payload differs from the checksummed one in one byte position *)
Theorem corrupt_payload_byte_detected C g f l1 b b' l2 u :
  dec_cks f = n_CRC32 -> bytes_ok (l1 ++ b :: l2) -> byte_ok b' -> b <> b' ->
  deserialize_gen C g (f :: le_enc 4 (crc32 (l1 ++ b :: l2)) ++ l1 ++ b' :: l2) u = Err.
Proof.
  intros Hk Hok Hb' Hne. unfold deserialize_gen. rewrite Hk.
  change (n_CRC32 =? n_NoChecksum) with false. change (n_CRC32 =? n_CRC32) with true.
  assert (L : length (le_enc 4 (crc32 (l1 ++ b :: l2))) = 4%nat) by apply le_enc_length.
  replace (Nat.ltb (length (le_enc 4 (crc32 (l1 ++ b :: l2)) ++ l1 ++ b' :: l2)) 4) with false.
  2:{ symmetry. apply Nat.ltb_ge. rewrite app_length, L. lia. }
  rewrite firstn_app_exact by exact L. rewrite skipn_app_exact by exact L.
  rewrite le_dec_enc by (apply crc32_w32; exact Hok).
  assert (Hb : byte_ok b).
  { unfold bytes_ok in Hok. rewrite Forall_app in Hok. destruct Hok as [_ H]. now inversion H. }
  replace (crc32 (l1 ++ b' :: l2) =? crc32 (l1 ++ b :: l2)) with false; [reflexivity|].
  symmetry. apply N.eqb_neq. apply crc32_single_byte; auto.
Qed.

(* an envelope whose stored checksum field was altered in any way *)
Theorem corrupt_checksum_detected C g f k p u :
  dec_cks f = n_CRC32 -> bytes_ok p -> bytes_ok k -> length k = 4%nat ->
  k <> le_enc 4 (crc32 p) ->
  deserialize_gen C g (f :: k ++ p) u = Err.
Proof.
  intros Hk Hok Hkok Hl Hne. unfold deserialize_gen. rewrite Hk.
  change (n_CRC32 =? n_NoChecksum) with false. change (n_CRC32 =? n_CRC32) with true.
  replace (Nat.ltb (length (k ++ p)) 4) with false.
  2:{ symmetry. apply Nat.ltb_ge. rewrite app_length, Hl. lia. }
  rewrite firstn_app_exact by exact Hl. rewrite skipn_app_exact by exact Hl.
  replace (crc32 p =? le_dec k) with false; [reflexivity|].
  symmetry. apply N.eqb_neq. intro E. apply Hne.
  rewrite E. rewrite <- Hl. symmetry. apply le_enc_dec. exact Hkok.
Qed.

(* truncating a checksummed envelope inside its checksum field is an error, not a panic *)
Theorem truncated_header_detected C g f rest u :
  dec_cks f = n_CRC32 -> (length rest < 4)%nat ->
  deserialize_gen C g (f :: rest) u = Err.
Proof.
  intros Hk Hl. unfold deserialize_gen. rewrite Hk.
  change (n_CRC32 =? n_NoChecksum) with false. change (n_CRC32 =? n_CRC32) with true.
  replace (Nat.ltb (length rest) 4) with true; [reflexivity|].
  symmetry. apply Nat.ltb_lt. exact Hl.
Qed.

(* --- totality --- *)
Theorem deserialize_total C s u : no_codec_panic C -> deserialize C s u <> Panic.
Proof.
  intros NP. unfold deserialize, deserialize_gen.
  destruct s as [|f rest]; [discriminate|].
  assert (B : forall comp n c, res_bind (c_decompress C comp n c) (fun d => Ok (d, comp)) <> @Panic (bytes * N)).
  { intros comp n c. specialize (NP comp n c). destruct (c_decompress C comp n c); simpl; congruence. }
  destruct (dec_cks f =? n_NoChecksum);
    [|destruct (dec_cks f =? n_CRC32);
      [destruct (Nat.ltb (length rest) 4); [discriminate|];
       destruct (crc32 (skipn 4 rest) =? le_dec (firstn 4 rest)); [|discriminate]|discriminate]];
    cbn [res_bind];
    (destruct (negb u || (dec_comp f =? n_Uncompressed)); [discriminate|]);
    (destruct (dec_comp f =? n_Snappy); [apply B|]);
    (destruct (dec_comp f =? n_LZ4);
      [match goal with |- context [Nat.ltb ?a 4] => destruct (Nat.ltb a 4) end; [discriminate|];
       match goal with |- context [?x =? 0] => destruct (x =? 0) end; [discriminate|apply B]|]);
    (destruct (dec_comp f =? n_JPEG); [apply B|]);
    (destruct (dec_comp f =? n_Gzip); [apply B|discriminate]).
Qed.

(* the code before the repair: an LZ4-tagged value with fewer than four payload bytes panics *)
Theorem deserialize_unguarded_panics C : deserialize_unguarded C [128] true = Panic.
Proof. reflexivity. Qed.
