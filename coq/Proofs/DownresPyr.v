(* Proofs.DownresPyr: the block-level pyramid update (Model/DownresPyr.v: getHiresChanges with the
   generated parent / octant arithmetic, downresOctant, StoreDownres, Mutation.Execute) computes,
   level by level, exactly the voxel-wise update [exec] of Proofs/Downres.v — hence restores Pyr. *)
From DV Require Import Base.Prelude Base.Int Base.BitPack Base.WrapZ Model.Block Model.Downres Model.DownresPyr
     Proofs.BitPack Proofs.Block Proofs.Downres Gen.DownresArith.
From Coq Require Import ZifyN ZifyNat ZifyBool Permutation.
Ltac Zify.zify_post_hook ::= Z.div_mod_to_equations.
Local Open Scope Z_scope.

(* ---------------- the generated arithmetic of getHiresChanges ---------------- *)

Lemma g_parent_eq x y z : g_hires_parent x y z = (parent_coord x, parent_coord y, parent_coord z).
Proof. reflexivity. Qed.

Lemma wS32_small v : 0 <= v < 8 -> wS 32 v = v.
Proof. intro H. apply (w32_id v). unfold is32. change (2 ^ 31) with 2147483648. lia. Qed.

Lemma g_octidx_form x y z : g_hires_octidx x y z = 4 * (z mod 2) + 2 * (y mod 2) + x mod 2.
Proof.
  unfold g_hires_octidx. rewrite !land1, !Z.shiftl_mul_pow2 by lia.
  change (2 ^ 2) with 4. change (2 ^ 1) with 2.
  pose proof (Z.mod_pos_bound x 2 ltac:(lia)). pose proof (Z.mod_pos_bound y 2 ltac:(lia)).
  pose proof (Z.mod_pos_bound z 2 ltac:(lia)).
  rewrite (wS32_small (z mod 2 * 4)) by lia. rewrite (wS32_small (y mod 2 * 2)) by lia.
  rewrite (wS32_small (z mod 2 * 4 + y mod 2 * 2)) by lia.
  rewrite wS32_small by lia. lia.
Qed.

(* the generated expressions are the model's repaired octant index (Model/Downres.v) *)
Lemma g_octidx_eq x y z : g_hires_octidx x y z = octant_index true x y z.
Proof.
  rewrite g_octidx_form. unfold octant_index, bit_of. rewrite !land1, !Z.shiftl_mul_pow2 by lia.
  change (2 ^ 2) with 4. change (2 ^ 1) with 2. lia.
Qed.

Lemma g_octidx_range x y z : 0 <= g_hires_octidx x y z < 8.
Proof. rewrite g_octidx_form. lia. Qed.

Lemma g_stored_below_8 : g_downres_stored_below = 8.
Proof. reflexivity. Qed.

(* ---------------- block coordinates ---------------- *)

Lemma coord_eqb_eq a b : coord_eqb a b = true <-> a = b.
Proof.
  destruct a as [[x y] z], b as [[x' y'] z']. unfold coord_eqb.
  rewrite !andb_true_iff, !Z.eqb_eq. split; [intros [[? ?] ?]; subst; reflexivity | intro H; inversion H; auto].
Qed.

Lemma coord_eqb_refl a : coord_eqb a a = true.
Proof. now apply coord_eqb_eq. Qed.

Lemma coord_eqb_neq a b : coord_eqb a b = false <-> a <> b.
Proof.
  split.
  - intros H E. apply coord_eqb_eq in E. congruence.
  - intro H. destruct (coord_eqb a b) eqn:E; [apply coord_eqb_eq in E; contradiction | reflexivity].
Qed.

Definition cpar (c : coord) : coord := let '(x, y, z) := c in g_hires_parent x y z.
Definition cidx (c : coord) : N := let '(x, y, z) := c in Z.to_N (g_hires_octidx x y z).
(* the child block of p in octant slot o *)
Definition child (p : coord) (o : Z) : coord :=
  let '(px, py, pz) := p in (2 * px + o mod 2, 2 * py + (o / 2) mod 2, 2 * pz + o / 4).

Lemma child_of_par c : c = child (cpar c) (Z.of_N (cidx c)) /\ (cidx c < 8)%N.
Proof.
  destruct c as [[x y] z]. unfold cpar, cidx, child. rewrite g_parent_eq, !shiftr1.
  pose proof (g_octidx_range x y z) as R. rewrite Z2N.id by lia. rewrite g_octidx_form in *.
  split; [|lia]. f_equal; [f_equal|]; lia.
Qed.

Lemma par_of_child p o : 0 <= o < 8 -> cpar (child p o) = p /\ cidx (child p o) = Z.to_N o.
Proof.
  destruct p as [[px py] pz]. intro H. unfold cpar, cidx, child. rewrite g_parent_eq, !shiftr1, g_octidx_form.
  split; [f_equal; [f_equal|]; lia | f_equal; lia].
Qed.

(* ---------------- association lists keyed by block coordinate ---------------- *)

Definition okey {V} (m : list (coord * V)) (p : coord) : bool := existsb (fun e => coord_eqb p (fst e)) m.

Lemma okey_In {V} (m : list (coord * V)) p : okey m p = true <-> In p (map fst m).
Proof.
  unfold okey. rewrite existsb_exists, in_map_iff. split.
  - intros [e [H1 H2]]. apply coord_eqb_eq in H2. exists e. now split.
  - intros [e [H1 H2]]. exists e. split; [exact H2 | apply coord_eqb_eq; now symmetry].
Qed.

Lemma find_nodup {V} (m : list (coord * V)) p v :
  NoDup (map fst m) -> In (p, v) m -> find (fun e => coord_eqb p (fst e)) m = Some (p, v).
Proof.
  induction m as [|[k w] m IH]; simpl; [intros _ []|]. intros ND [H|H].
  - inversion H; subst. now rewrite coord_eqb_refl.
  - inversion ND; subst. destruct (coord_eqb p k) eqn:E.
    + apply coord_eqb_eq in E. subst k. exfalso. apply H2. apply in_map_iff. exists (p, v). now split.
    + now apply IH.
Qed.

Lemma find_none_okey {V} (m : list (coord * V)) p : okey m p = false -> find (fun e => coord_eqb p (fst e)) m = None.
Proof.
  unfold okey. induction m as [|e m IH]; simpl; [reflexivity|].
  destruct (coord_eqb p (fst e)); simpl; [discriminate | exact IH].
Qed.

(* ---------------- oct_set: oct[i] = block under the parent's key ---------------- *)

Lemma oget_oct_set k i a m p j :
  oget (oct_set k i a m) p j = if coord_eqb p k && (j =? i)%N then Some a else oget m p j.
Proof.
  induction m as [|[k' o] m IH].
  - unfold oget. simpl. destruct (coord_eqb p k); simpl; [|reflexivity].
    unfold oct_put, no_octs. destruct (j =? i)%N; reflexivity.
  - simpl. destruct (coord_eqb k k') eqn:E.
    + apply coord_eqb_eq in E. subst k'. unfold oget. simpl.
      destruct (coord_eqb p k); simpl; [|reflexivity]. unfold oct_put. destruct (j =? i)%N; reflexivity.
    + unfold oget in *. simpl. destruct (coord_eqb p k') eqn:E2.
      * apply coord_eqb_eq in E2. subst k'.
        replace (coord_eqb p k) with false; [reflexivity|]. symmetry. apply coord_eqb_neq.
        intro H. subst. rewrite coord_eqb_refl in E. discriminate.
      * exact IH.
Qed.

Lemma okey_oct_set k i a m p : okey (oct_set k i a m) p = coord_eqb p k || okey m p.
Proof.
  unfold okey. induction m as [|[k' o] m IH]; simpl.
  - reflexivity.
  - destruct (coord_eqb k k') eqn:E; simpl.
    + apply coord_eqb_eq in E. subst k'. destruct (coord_eqb p k); reflexivity.
    + rewrite IH. destruct (coord_eqb p k'), (coord_eqb p k); reflexivity.
Qed.

Lemma keys_oct_set k i a m :
  map fst (oct_set k i a m) = if okey m k then map fst m else map fst m ++ [k].
Proof.
  unfold okey. induction m as [|[k' o] m IH]; simpl; [reflexivity|].
  destruct (coord_eqb k k') eqn:E; simpl; [reflexivity|].
  rewrite IH. destruct (existsb _ m); reflexivity.
Qed.

Lemma nodup_oct_set k i a m : NoDup (map fst m) -> NoDup (map fst (oct_set k i a m)).
Proof.
  intro ND. rewrite keys_oct_set. destruct (okey m k) eqn:E; [exact ND|].
  eapply Permutation_NoDup; [apply Permutation_cons_append|]. constructor; [|exact ND].
  intro H. apply okey_In in H. congruence.
Qed.

(* ---------------- getHiresChanges ---------------- *)

Definition parent_hit (p : coord) (e : coord * arr) : bool := coord_eqb p (cpar (fst e)).

Lemma hires_fold chg : forall m0, NoDup (map fst m0) ->
  exists om, fold_left hires_step chg (Ok m0) = Ok om /\ NoDup (map fst om) /\
    (forall p j a, oget om p j = Some a ->
       oget m0 p j = Some a \/ exists c, In (c, a) chg /\ cpar c = p /\ cidx c = j) /\
    (forall p j, oget m0 p j <> None -> oget om p j <> None) /\
    (forall c a, In (c, a) chg -> oget om (cpar c) (cidx c) <> None) /\
    (forall p, okey om p = okey m0 p || existsb (parent_hit p) chg).
Proof.
  induction chg as [|[c a] chg IH]; intros m0 ND.
  - exists m0. cbn [fold_left]. split; [reflexivity|]. split; [exact ND|]. split; [intros; now left|].
    split; [auto|]. split; [intros c a []|]. intro p. cbn [existsb]. now rewrite orb_false_r.
  - destruct c as [[x y] z]. cbn [fold_left hires_step].
    pose proof (g_octidx_range x y z) as R.
    replace ((g_hires_octidx x y z <? 0) || (8 <=? g_hires_octidx x y z)) with false by lia.
    set (P := g_hires_parent x y z). set (I := Z.to_N (g_hires_octidx x y z)).
    destruct (IH (oct_set P I a m0) (nodup_oct_set P I a m0 ND)) as [om [F [ND' [H1 [H2 [H3 H4]]]]]].
    exists om. split; [exact F|]. split; [exact ND'|]. repeat split.
    + intros p j a' Hg. destruct (H1 p j a' Hg) as [Hm|[c [Hc1 [Hc2 Hc3]]]].
      * rewrite oget_oct_set in Hm. destruct (coord_eqb p P && (j =? I)%N) eqn:E.
        -- apply andb_true_iff in E as [E1 E2]. apply coord_eqb_eq in E1. apply N.eqb_eq in E2.
           inversion Hm; subst a'. right. exists (x, y, z). split; [now left|]. split; [now symmetry | now symmetry].
        -- now left.
      * right. exists c. split; [now right | now split].
    + intros p j Hn. apply H2. rewrite oget_oct_set. destruct (coord_eqb p P && (j =? I)%N); [discriminate | exact Hn].
    + intros c a' [Hin|Hin].
      * inversion Hin; subst. apply H2. rewrite oget_oct_set. cbn [cpar cidx]. fold P I.
        rewrite coord_eqb_refl, N.eqb_refl. discriminate.
      * now apply H3 with a'.
    + intro p. rewrite H4, okey_oct_set. cbn [existsb]. unfold parent_hit at 2. cbn [fst cpar]. fold P.
      destruct (coord_eqb p P), (okey m0 p); reflexivity.
Qed.

Lemma touched_In chg x y z : touched chg x y z = true <-> exists a, In ((x, y, z), a) chg.
Proof.
  unfold touched. rewrite existsb_exists. split.
  - intros [[c a] [H1 H2]]. apply coord_eqb_eq in H2. simpl in H2. subst c. now exists a.
  - intros [a H]. exists ((x, y, z), a). split; [exact H | apply coord_eqb_refl].
Qed.

Definition touched_c (chg : bmap) (c : coord) : bool := let '(x, y, z) := c in touched chg x y z.

(* what getHiresChanges hands to downresOctant: slot o of parent p holds the new content of the
   child block iff that child changed; p is a key iff some child changed *)
Lemma hires_changes_spec chg (Snew : bstore) :
  (forall c a, In (c, a) chg -> a = Snew c) ->
  exists om, hires_changes chg = Ok om /\ NoDup (map fst om) /\
    (forall p o, 0 <= o < 8 ->
       oget om p (Z.to_N o) = if touched_c chg (child p o) then Some (Snew (child p o)) else None) /\
    (forall p, okey om p = existsb (parent_hit p) chg).
Proof.
  intro Inv. unfold hires_changes.
  destruct (hires_fold chg [] ltac:(constructor)) as [om [F [ND [H1 [_ [H3 H4]]]]]].
  exists om. split; [exact F|]. split; [exact ND|]. split; [|exact H4].
  intros p o Ho.
  destruct (oget om p (Z.to_N o)) as [a|] eqn:E.
  - destruct (H1 _ _ _ E) as [Hm|[c [Hc1 [Hc2 Hc3]]]]; [discriminate|].
    destruct (child_of_par c) as [Ec _]. rewrite Hc2, Hc3, Z2N.id in Ec by lia. rewrite <- Ec.
    replace (touched_c chg c) with true.
    + f_equal. now apply Inv.
    + symmetry. destruct c as [[x y] z]. apply touched_In. now exists a.
  - destruct (touched_c chg (child p o)) eqn:T; [|reflexivity]. exfalso.
    destruct (child p o) as [[x y] z] eqn:Ech. apply touched_In in T as [a Ha].
    destruct (par_of_child p o Ho) as [P1 P2]. rewrite Ech in P1, P2.
    apply (H3 _ _ Ha). rewrite P1, P2. exact E.
Qed.

(* ---------------- one scale ---------------- *)

Lemma divmod_unique b q r a : 0 <= r < b -> a = b * q + r -> a / b = q /\ a mod b = r.
Proof.
  intros Hr E. split; [symmetry; apply (Z.div_unique_pos a b q r); assumption
                      | symmetry; apply (Z.mod_unique_pos a b q r); assumption].
Qed.

Section BlockLevel.
  Variable h : Z.
  Hypothesis Hh : 0 < h.
  Let B := 2 * h.
  Let nvox := Z.to_N (B * B * B).
  Definition wfa (a : arr) : Prop := length a = Z.to_nat ((2 * h) * (2 * h) * (2 * h)).

  (* what is required of Block.Downres on label arrays: the conclusion of C14_block_downres read
     through [vox] — inside the eighth of a given octant the vote of the eight octant voxels above,
     elsewhere the receiver's own voxel; sizes are kept *)
  Definition DR_spec (DR : arr -> octs -> arr) : Prop :=
    forall start o, wfa start -> (forall i a, o i = Some a -> wfa a) ->
      wfa (DR start o) /\
      forall x y z, 0 <= x < B -> 0 <= y < B -> 0 <= z < B ->
        vox B (DR start o) x y z =
        match o (Z.to_N (4 * (z / h) + 2 * (y / h) + x / h)) with
        | Some ha => vote (under (vox B ha) (x mod h) (y mod h) (z mod h))
        | None => vox B start x y z
        end.

  Variable DR : arr -> octs -> arr.
  Hypothesis DR_ok : DR_spec DR.

  (* a hi-res voxel under lo-res voxel v: its block and its offset inside the block *)
  Lemma under_block v i : 0 <= i <= 1 ->
    (2 * v + i) / B = 2 * (v / B) + (v mod B) / h /\ (2 * v + i) mod B = 2 * ((v mod B) mod h) + i.
  Proof.
    intro Hi. unfold B.
    pose proof (Z.div_mod v h ltac:(lia)) as D1. pose proof (Z.mod_pos_bound v h Hh) as M1.
    set (a := v / h) in *. set (m := v mod h) in *.
    pose proof (Z.div_mod a 2 ltac:(lia)) as D2. pose proof (Z.mod_pos_bound a 2 ltac:(lia)) as M2.
    set (q := a / 2) in *. set (b := a mod 2) in *.
    destruct (divmod_unique (2 * h) q (h * b + m) v) as [E1 E2]; [nia | nia|].
    rewrite E1, E2.
    destruct (divmod_unique h b m (h * b + m)) as [E3 E4]; [lia | lia|].
    rewrite E3, E4.
    destruct (divmod_unique (2 * h) a (2 * m + i) (2 * v + i)) as [E5 E6]; [lia | nia|].
    rewrite E5, E6. lia.
  Qed.

  Lemma oct_slot_range x y z : 0 <= x < B -> 0 <= y < B -> 0 <= z < B ->
    0 <= 4 * (z / h) + 2 * (y / h) + x / h < 8 /\
    (4 * (z / h) + 2 * (y / h) + x / h) mod 2 = x / h /\
    ((4 * (z / h) + 2 * (y / h) + x / h) / 2) mod 2 = y / h /\
    (4 * (z / h) + 2 * (y / h) + x / h) / 4 = z / h.
  Proof.
    unfold B. intros Hx Hy Hz.
    assert (Qx : 0 <= x / h < 2) by (split; [apply Z.div_pos; lia | apply Z.div_lt_upper_bound; lia]).
    assert (Qy : 0 <= y / h < 2) by (split; [apply Z.div_pos; lia | apply Z.div_lt_upper_bound; lia]).
    assert (Qz : 0 <= z / h < 2) by (split; [apply Z.div_pos; lia | apply Z.div_lt_upper_bound; lia]).
    set (qx := x / h) in *. set (qy := y / h) in *. set (qz := z / h) in *. clearbody qx qy qz. lia.
  Qed.

  Lemma filter_len_le {A} (f : A -> bool) l : (length (filter f l) <= length l)%nat.
  Proof. induction l as [|a l IH]; simpl; [lia|]. destruct (f a); simpl; lia. Qed.

  Lemma num_blocks_lt (o : octs) r : (r < 8)%N -> o r = None -> num_blocks o < 8.
  Proof.
    intros Hr E. unfold num_blocks.
    assert (L : (length (filter (fun i => match o i with Some _ => true | None => false end) (nseq 8)) < length (nseq 8))%nat).
    { assert (Hin : In r (nseq 8)) by (apply In_nseq; exact Hr).
      induction (nseq 8) as [|a l IHl]; [destruct Hin|]. cbn [filter].
      destruct Hin as [Hin|Hin].
      - subst a. rewrite E. cbn [length]. pose proof (filter_len_le (fun i => match o i with Some _ => true | None => false end) l). lia.
      - specialize (IHl Hin). destruct (o a); cbn [length]; lia. }
    rewrite nseq_length in L. lia.
  Qed.

  Lemma bfind_out (S : bstore) om p :
    bfind (map (downres_octant nvox DR S) om) p =
    if okey om p then Some (DR (lores_start nvox (S p) (oget om p)) (oget om p)) else None.
  Proof.
    unfold bfind, okey, oget. induction om as [|[k o] om IH]; simpl; [reflexivity|].
    destruct (coord_eqb p k) eqn:E; simpl.
    - apply coord_eqb_eq in E. now subst k.
    - exact IH.
  Qed.

  Lemma keys_out (S : bstore) om : map fst (map (downres_octant nvox DR S) om) = map fst om.
  Proof. rewrite map_map. apply map_ext. intros [k o]. reflexivity. Qed.

  Lemma zeros_wfa : wfa (repeat 0%N (N.to_nat nvox)).
  Proof. unfold wfa, nvox, B. rewrite repeat_length. lia. Qed.

  (* StoreDownres at block level = store_downres voxel-wise *)
  Lemma step_view chg (Snew S : bstore) :
    (forall p, wfa (S p)) -> (forall p, wfa (Snew p)) ->
    (forall c a, In (c, a) chg -> a = Snew c) ->
    exists out S', store_downres_blocks nvox DR S chg = Ok (out, S') /\
      (forall p, wfa (S' p)) /\
      (forall c a, In (c, a) out -> a = S' c) /\
      (forall px py pz, touched out px py pz = parents (touched chg) px py pz) /\
      (forall x y z, view B S' x y z = store_downres B (touched chg) (view B Snew) (view B S) x y z).
  Proof.
    intros WS WN Inv. unfold store_downres_blocks.
    destruct (hires_changes_spec chg Snew Inv) as [om [F [ND [D1 D3]]]]. rewrite F.
    set (out := map (downres_octant nvox DR S) om).
    exists out, (put_all S out). split; [reflexivity|].
    assert (WO : forall p i a, oget om p i = Some a -> wfa a).
    { intros p i a E. destruct (N.lt_ge_cases i 8) as [Hi|Hi].
      - pose proof (D1 p (Z.of_N i) ltac:(lia)) as D. rewrite N2Z.id in D. rewrite D in E.
        destruct (touched_c chg (child p (Z.of_N i))); [|discriminate]. inversion E. apply WN.
      - (* slots beyond 7 are never written: cidx < 8 *)
        exfalso. unfold hires_changes in F.
        destruct (hires_fold chg [] ltac:(constructor)) as [om' [F' [_ [H1 _]]]]. rewrite F in F'. apply Ok_inj in F'. subst om'.
        destruct (H1 _ _ _ E) as [Hm|[c [_ [_ Hc]]]]; [discriminate|].
        destruct (child_of_par c) as [_ C8]. lia. }
    assert (WL : forall p, wfa (lores_start nvox (S p) (oget om p))).
    { intro p. unfold lores_start. destruct (num_blocks (oget om p) <? g_downres_stored_below); [apply WS | apply zeros_wfa]. }
    split; [|split; [|split]].
    - intro p. unfold put_all, out. rewrite bfind_out. destruct (okey om p); [|apply WS].
      apply (DR_ok _ _ (WL p) (WO p)).
    - intros c a Hin. unfold put_all, bfind.
      rewrite (find_nodup out c a); [reflexivity | unfold out; rewrite keys_out; exact ND | exact Hin].
    - intros px py pz. unfold touched. fold (okey out (px, py, pz)).
      assert (EK : okey out (px, py, pz) = okey om (px, py, pz)).
      { apply eq_true_iff_eq. rewrite !okey_In. unfold out. now rewrite keys_out. }
      rewrite EK, D3. apply eq_true_iff_eq. unfold parents. rewrite !existsb_exists. split.
      + intros [[c a] [H1 H2]]. unfold parent_hit in H2. cbn [fst] in H2. apply coord_eqb_eq in H2.
        destruct (child_of_par c) as [Ec C8]. rewrite <- H2 in Ec. cbn [child] in Ec.
        exists (Z.of_N (cidx c)). split.
        * set (i := cidx c) in *. clearbody i.
          assert (i = 0 \/ i = 1 \/ i = 2 \/ i = 3 \/ i = 4 \/ i = 5 \/ i = 6 \/ i = 7)%N as K by lia.
          destruct K as [K|[K|[K|[K|[K|[K|[K|K]]]]]]]; subst i; simpl; tauto.
        * fold (touched chg (2 * px + Z.of_N (cidx c) mod 2) (2 * py + (Z.of_N (cidx c) / 2) mod 2) (2 * pz + Z.of_N (cidx c) / 4)).
          apply touched_In. exists a. rewrite <- Ec. exact H1.
      + intros [o [Ho Ht]].
        assert (Ho8 : 0 <= o < 8) by (simpl in Ho; lia).
        fold (touched chg (2 * px + o mod 2) (2 * py + (o / 2) mod 2) (2 * pz + o / 4)) in Ht.
        apply touched_In in Ht as [a Ha].
        exists ((2 * px + o mod 2, 2 * py + (o / 2) mod 2, 2 * pz + o / 4), a). split; [exact Ha|].
        unfold parent_hit. cbn [fst]. apply coord_eqb_eq.
        destruct (par_of_child (px, py, pz) o Ho8) as [P1 _]. cbn [child] in P1. now symmetry.
    - intros x y z. unfold view at 1.
      set (p := (x / B, y / B, z / B)).
      assert (Lx : 0 <= x mod B < B) by (apply Z.mod_pos_bound; unfold B; lia).
      assert (Ly : 0 <= y mod B < B) by (apply Z.mod_pos_bound; unfold B; lia).
      assert (Lz : 0 <= z mod B < B) by (apply Z.mod_pos_bound; unfold B; lia).
      set (lx := x mod B) in *. set (ly := y mod B) in *. set (lz := z mod B) in *.
      destruct (oct_slot_range lx ly lz Lx Ly Lz) as [R8 [Rx [Ry Rz]]].
      set (r := 4 * (lz / h) + 2 * (ly / h) + lx / h) in *.
      (* the child block in slot r is the block of the eight voxels under (x,y,z) *)
      assert (CH : child p r = (blk B (2 * x), blk B (2 * y), blk B (2 * z))).
      { unfold p, child, blk. rewrite Rx, Ry, Rz.
        destruct (under_block x 0 ltac:(lia)) as [E1 _]. destruct (under_block y 0 ltac:(lia)) as [E2 _].
        destruct (under_block z 0 ltac:(lia)) as [E3 _]. rewrite Z.add_0_r in E1, E2, E3.
        rewrite E1, E2, E3. reflexivity. }
      pose proof (D1 p r R8) as Dr. rewrite CH in Dr. cbn [touched_c] in Dr.
      unfold store_downres.
      assert (KEEP : oget om p (Z.to_N r) = None -> vox B (put_all S out p) lx ly lz = view B S x y z).
      { intro En. unfold put_all, out. rewrite bfind_out. destruct (okey om p) eqn:EK; [|reflexivity].
        destruct (DR_ok _ _ (WL p) (WO p)) as [_ V]. rewrite (V lx ly lz Lx Ly Lz). fold r. rewrite En.
        unfold lores_start. rewrite g_stored_below_8.
        pose proof (num_blocks_lt (oget om p) (Z.to_N r) ltac:(lia) En) as NB.
        replace (num_blocks (oget om p) <? 8) with true by lia. reflexivity. }
      destruct (touched chg (blk B (2 * x)) (blk B (2 * y)) (blk B (2 * z))) eqn:ET.
      + unfold put_all, out. rewrite bfind_out.
        destruct (okey om p) eqn:EK.
        * destruct (DR_ok _ _ (WL p) (WO p)) as [_ V]. rewrite (V lx ly lz Lx Ly Lz). fold r. rewrite Dr.
          f_equal. unfold under, view.
          destruct (under_block x 0 ltac:(lia)) as [X0 X0']. destruct (under_block x 1 ltac:(lia)) as [X1 X1'].
          destruct (under_block y 0 ltac:(lia)) as [Y0 Y0']. destruct (under_block y 1 ltac:(lia)) as [Y1 Y1'].
          destruct (under_block z 0 ltac:(lia)) as [Z0 Z0']. destruct (under_block z 1 ltac:(lia)) as [Z1 Z1'].
          rewrite Z.add_0_r in X0, X0', Y0, Y0', Z0, Z0'.
          unfold blk. fold lx ly lz in X0, X0', X1, X1', Y0, Y0', Y1, Y1', Z0, Z0', Z1, Z1'.
          rewrite X0, X0', X1, X1', Y0, Y0', Y1, Y1', Z0, Z0', Z1, Z1'. rewrite !Z.add_0_r. reflexivity.
        * (* p is not a key although a child changed: impossible *)
          exfalso. pose proof (find_none_okey om p EK) as FN. unfold oget in Dr. rewrite FN in Dr. discriminate.
      + apply KEEP. exact Dr.
  Qed.

  (* ---------------- Mutation.Execute ---------------- *)

  Lemma bfind_untouched chg x y z : touched chg x y z = false -> bfind chg (x, y, z) = None.
  Proof. intro H. unfold bfind. rewrite find_none_okey; [reflexivity | exact H]. Qed.

  Section Exec.
    Variable chg0 : bmap.
    Variable St : nat -> bstore.
    Hypothesis chg0_keys : NoDup (map fst chg0).          (* a Go map *)
    Hypothesis chg0_wf : forall c a, In (c, a) chg0 -> wfa a.
    Hypothesis St_wf : forall n p, wfa (St n p).

    Let T := touched chg0.
    Let L := fun n => view B (St n).
    Let l0' := view B (put_all (St O) chg0).

    Lemma bexec_view n :
      exists chg S', bexec nvox DR chg0 St n = Ok (chg, S') /\
        (forall p, wfa (S' p)) /\
        (forall c a, In (c, a) chg -> a = S' c) /\
        (forall x y z, touched chg x y z = snd (exec B T L l0' n) x y z) /\
        (forall x y z, view B S' x y z = fst (exec B T L l0' n) x y z).
    Proof.
      induction n as [|n IH].
      - exists chg0, (put_all (St O) chg0). cbn [bexec exec fst snd]. split; [reflexivity|].
        split; [|split; [|split; reflexivity]].
        + intro p. unfold put_all, bfind.
          destruct (find (fun e => coord_eqb p (fst e)) chg0) as [[c a]|] eqn:E; [|apply St_wf].
          apply find_some in E as [E _]. cbn [snd]. now apply chg0_wf with c.
        + intros c a Hin. unfold put_all, bfind. now rewrite (find_nodup chg0 c a chg0_keys Hin).
      - destruct IH as [chg [Sn [E [W [Inv [HT HV]]]]]].
        cbn [bexec]. rewrite E.
        destruct (step_view chg Sn (St (S n)) (St_wf (S n)) W Inv) as [out [S' [E' [W' [Inv' [HT' HV']]]]]].
        exists out, S'. split; [exact E'|]. split; [exact W'|]. split; [exact Inv'|].
        cbn [exec]. destruct (exec B T L l0' n) as [lo' Tn]. cbn [fst snd] in *. split.
        + intros x y z. rewrite HT'. unfold parents. cbn [existsb]. rewrite !HT. reflexivity.
        + intros x y z. rewrite HV'. unfold store_downres. rewrite HT.
          destruct (Tn (blk B (2 * x)) (blk B (2 * y)) (blk B (2 * z))); [|reflexivity].
          unfold under. rewrite !HV. reflexivity.
    Qed.

    (* the voxel levels after the block-level update *)
    Definition block_levels_are (F : nat -> bstore) (max : nat) : Prop :=
      forall n, (n <= max)%nat -> exists chg, bexec nvox DR chg0 St n = Ok (chg, F n).

    Lemma untouched_same x y z : T (blk B x) (blk B y) (blk B z) = false -> l0' x y z = L O x y z.
    Proof.
      intro H. unfold l0', L, view, put_all. unfold blk in H. now rewrite (bfind_untouched chg0 _ _ _ H).
    Qed.

    (* block-level update = voxel-wise update, at every level *)
    Theorem block_exec_is_voxel_exec max :
      exists F, block_levels_are F max /\
        forall n, (n <= max)%nat -> forall x y z, view B (F n) x y z = after B T L l0' max n x y z.
    Proof.
      exists (fun n => match bexec nvox DR chg0 St n with Ok (_, S') => S' | _ => St n end). split.
      - intros n _. destruct (bexec_view n) as [chg [S' [E _]]]. exists chg. now rewrite E.
      - intros n Hn x y z. destruct (bexec_view n) as [chg [S' [E [_ [_ [_ HV]]]]]]. rewrite E.
        unfold after. replace (n <=? max)%nat with true by (symmetry; apply Nat.leb_le; exact Hn). apply HV.
    Qed.

    (* hence every voxel of every level n+1 is the vote of the eight voxels beneath it *)
    Theorem block_exec_pyr max :
      Pyr L max ->
      exists F, block_levels_are F max /\ Pyr (fun n => view B (F n)) max.
    Proof.
      intro HP. destruct (block_exec_is_voxel_exec max) as [F [HF HV]]. exists F. split; [exact HF|].
      pose proof (pyr_execute B (ex_intro _ h (conj Hh eq_refl)) T L l0' max HP untouched_same) as PA.
      intros n Hn x y z. rewrite (HV (S n)) by lia. rewrite (PA n Hn x y z). f_equal.
      unfold under. rewrite !(HV n) by lia. reflexivity.
    Qed.
  End Exec.
End BlockLevel.

(* ---------------- the executable array-level Downres satisfies DR_spec ---------------- *)

Lemma dr_arr_ok h : 0 < h -> DR_spec h (dr_arr (2 * h)).
Proof.
  intros Hh start o _ _. set (B := 2 * h). split.
  - unfold wfa, dr_arr. rewrite map_length, nseq_length. fold B. lia.
  - intros x y z Hx Hy Hz. unfold vox at 1. unfold dr_arr.
    set (p := (z * B + y) * B + x).
    assert (Hp : 0 <= p < B * B * B) by (unfold p; nia).
    rewrite nth_error_map, nth_error_nseq by lia. cbn [option_map].
    rewrite nat_N_Z, Z2Nat.id by lia.
    assert (E1 : p mod B = x /\ p / B = z * B + y).
    { destruct (divmod_unique B (z * B + y) x p) as [A1 A2]; [lia | unfold p; lia|]. now split. }
    destruct E1 as [E1 E1'].
    assert (E2 : (p / B) mod B = y).
    { rewrite E1'. destruct (divmod_unique B z y (z * B + y)) as [_ A2]; [lia | lia|]. exact A2. }
    assert (E3 : p / (B * B) = z).
    { destruct (divmod_unique (B * B) z (y * B + x) p) as [A1 _]; [nia | unfold p; lia|]. exact A1. }
    rewrite E1, E2, E3. replace (B / 2) with h by (unfold B; lia).
    destruct (o (Z.to_N (4 * (z / h) + 2 * (y / h) + x / h))); reflexivity.
Qed.

(* ---------------- the row-indexed evaluation is the same function ---------------- *)

Lemma vox_rows_eq B a x y z : 0 <= x < B -> 0 <= y -> 0 <= z ->
  vox_rows B (rows (Z.to_N B) a) x y z = vox B a x y z.
Proof.
  intros Hx Hy Hz. unfold vox_rows, vox. rewrite vol_at_rows by lia. unfold nth_N.
  assert (H1 : 0 <= z * B) by (apply Z.mul_nonneg_nonneg; lia).
  assert (H2 : 0 <= (z * B + y) * B) by (apply Z.mul_nonneg_nonneg; lia).
  replace (N.to_nat (Z.to_N (z * B + y) * Z.to_N B + Z.to_N x)) with (Z.to_nat ((z * B + y) * B + x)); [reflexivity|].
  rewrite <- Z2N.inj_mul, <- Z2N.inj_add by lia. now rewrite Z_N_nat.
Qed.

Lemma nseq8_lookup {A} (f : N -> A) r :
  (match nth_N (map f (nseq 8)) r with Some v => v | None => f r end) = f r.
Proof.
  unfold nth_N. rewrite nth_error_map.
  destruct (nth_error (nseq 8) (N.to_nat r)) as [n|] eqn:E; cbn [option_map]; [|reflexivity].
  destruct (lt_dec (N.to_nat r) (N.to_nat 8)) as [L|L].
  - rewrite nth_error_nseq in E by exact L. inversion E. f_equal. lia.
  - exfalso. assert (N : nth_error (nseq 8) (N.to_nat r) = None) by (apply nth_error_None; rewrite nseq_length; lia).
    congruence.
Qed.

Lemma dr_arr_fast_eq B start o : 2 <= B -> dr_arr_fast B start o = dr_arr B start o.
Proof.
  intro HB. unfold dr_arr_fast, dr_arr. apply map_ext_in. intros p _.
  cbv zeta. rewrite nseq8_lookup.
  set (P := Z.of_N p). assert (HP : 0 <= P) by (unfold P; apply N2Z.is_nonneg). clearbody P.
  assert (Hx : 0 <= P mod B < B) by (apply Z.mod_pos_bound; lia).
  assert (Hy : 0 <= (P / B) mod B < B) by (apply Z.mod_pos_bound; lia).
  assert (Hz : 0 <= P / (B * B)) by (apply Z.div_pos; [exact HP | apply Z.mul_pos_pos; lia]).
  set (x := P mod B) in *. set (y := (P / B) mod B) in *. set (z := P / (B * B)) in *. clearbody x y z.
  assert (Hh : 0 < B / 2) by (apply Z.div_str_pos; lia).
  assert (Hh2 : 2 * (B / 2) <= B) by (apply Z.mul_div_le; lia).
  set (h := B / 2) in *. clearbody h.
  unfold oct_rows. destruct (o (Z.to_N (4 * (z / h) + 2 * (y / h) + x / h))) as [ha|].
  - assert (Lx : 0 <= x mod h < h) by (apply Z.mod_pos_bound; exact Hh).
    assert (Ly : 0 <= y mod h < h) by (apply Z.mod_pos_bound; exact Hh).
    assert (Lz : 0 <= z mod h < h) by (apply Z.mod_pos_bound; exact Hh).
    set (lx := x mod h) in *. set (ly := y mod h) in *. set (lz := z mod h) in *. clearbody lx ly lz.
    rewrite !vox_rows_eq by lia. reflexivity.
  - apply vox_rows_eq; lia.
Qed.

Lemma dr_arr_fast_ok h : 0 < h -> DR_spec h (dr_arr_fast (2 * h)).
Proof.
  intros Hh start o W1 W2. rewrite dr_arr_fast_eq by lia. now apply dr_arr_ok.
Qed.

(* ---------------- non-vacuity ---------------- *)

Lemma vox_zeros B n x y z : vox B (repeat 0%N n) x y z = 0%N.
Proof.
  unfold vox. destruct (nth_error (repeat 0%N n) _) as [v|] eqn:E; [|reflexivity].
  apply nth_error_In in E. now apply repeat_spec in E.
Qed.

Lemma block_pyramid_inhabited :
  let St := fun (_ : nat) (_ : coord) => repeat 0%N 512 in
  let chg0 := [((-3, -1, 0), repeat 5%N 512)] in
  DR_spec 4 (dr_arr 8) /\ NoDup (map fst chg0) /\ (forall c a, In (c, a) chg0 -> wfa 4 a) /\
  (forall n p, wfa 4 (St n p)) /\ Pyr (fun k => view 8 (St k)) 3%nat.
Proof.
  cbv zeta. split; [apply (dr_arr_ok 4); lia|]. split; [constructor; [intros []|constructor]|].
  split; [intros c a [H|[]]; inversion H; reflexivity|]. split; [intros; reflexivity|].
  intros n _ x y z. unfold view, under. rewrite !vox_zeros. reflexivity.
Qed.
