(* Proofs.AnnotBlocks — ingestBlock, mutateBlock and splitLabels keep the label view and the counts. *)
From DV Require Import Base.Prelude Model.Annot Gen.Consts Proofs.AnnotBase Proofs.AnnotStore Proofs.AnnotViews
     Proofs.AnnotDelete Proofs.AnnotMove Proofs.AnnotLabels.
From Coq Require Import Permutation.
Local Open Scope Z_scope.

Lemma el_add_fresh_all l a : (forall e, In e a -> ~ In (e_pos e) (posl l)) -> el_add l a = l ++ a.
Proof.
  intro H. unfold el_add.
  assert (Hf : forall acc, fold_left (fun acc e => match last_idx (e_pos e) l 0 with Some i => upd_nth i e acc | None => acc ++ [e] end) a acc
                           = acc ++ a).
  { induction a as [|e a IH]; intro acc; cbn [fold_left]; [now rewrite app_nil_r|].
    assert (Hn : last_idx (e_pos e) l 0 = None) by (apply last_idx_none; apply H; now left).
    rewrite Hn, IH by (intros e' He'; apply H; now right). now rewrite <- app_assoc. }
  apply Hf.
Qed.

Lemma filter_filter_and {A} (f g : A -> bool) l : filter f (filter g l) = filter (fun x => g x && f x) l.
Proof. induction l as [|a l IH]; cbn; [reflexivity|]. destruct (g a); cbn; [destruct (f a); now rewrite IH | exact IH]. Qed.

Lemma fold_delete_filter (c : elem -> bool) el a : uniq a ->
  fold_left (fun a e => if c e then nr_delete (e_pos e) a else a) el a
  = filter (fun x => negb (existsb (fun e => c e && has_pos (e_pos e) x) el)) a.
Proof.
  revert a. induction el as [|e el IH]; intros a U; cbn [fold_left existsb].
  - symmetry. apply filter_id. reflexivity.
  - destruct (c e) eqn:Ec; cbn [andb orb].
    + rewrite IH.
      * unfold nr_delete. rewrite (remove_first_eq_remove_all _ _ U). unfold nr_remove_all. rewrite filter_filter_and.
        apply filter_ext. intro x. now rewrite negb_orb.
      * unfold nr_delete. rewrite (remove_first_eq_remove_all _ _ U). now apply uniq_filter.
    + now apply IH.
Qed.

Lemma in_chunk_block bs b p q : bs_ok bs -> blockOf bs p = b -> inChunk bs p = q ->
  p = (pX b * pX bs + pX q, pY b * pY bs + pY q, pZ b * pZ bs + pZ q).
Proof.
  intros [Hx [Hy Hz]] Hb Hq. destruct p as [[x y] z]. subst b q. unfold blockOf, inChunk, pX, pY, pZ. cbn.
  destruct (chunk1_decomp x _ Hx) as [Ex _]. destruct (chunk1_decomp y _ Hy) as [Ey _]. destruct (chunk1_decomp z _ Hz) as [Ez _].
  unfold pX, pY, pZ in *. cbn in *. congruence.
Qed.

(* ---------- ingest ---------- *)
Lemma lg_keys_nodup g : NoDup (lg_keys g). Proof. apply nodupb_NoDup. exact N_eqb_ok. Qed.

Lemma dcount_flat_groups i l (g : lgroups) ks : NoDup ks ->
  dcount i l (flat_map (fun k => map (fun e => (k, e_kind e)) (lg_get g k)) ks)
  = if existsb (fun k => (k =? l)%N) ks then count_idx i (lg_get g l) else 0.
Proof.
  induction ks as [|k ks IH]; intro ND; cbn [flat_map existsb]; [reflexivity|].
  apply NoDup_cons_iff in ND as [Hn ND]. rewrite dcount_app, dcount_map, (IH ND).
  destruct (k =? l)%N eqn:E; cbn [orb].
  - apply N.eqb_eq in E. subst k.
    assert (Hf : existsb (fun k => (k =? l)%N) ks = false).
    { apply not_true_is_false. intro Hx. apply (existsb_eqb_In N.eqb N_eqb_ok) in Hx. contradiction. }
    rewrite Hf. lia.
  - lia.
Qed.

Theorem ingest_views bs G s b data :
  ViewsI bs G s -> guard bs G (body s) (LIngest b data) ->
  exists s', step fixed bs (LIngest b data) s = Ok s'
             /\ body s' = body_after bs (LIngest b data) (body s) /\ ViewsI bs G s'.
Proof.
  intros V Hg. cbn [guard] in Hg. cbn [step with_labels]. eexists. split; [reflexivity|]. split; [reflexivity|].
  unfold ingest_block.
  set (bodyf := fun p => data (inChunk bs p)).
  set (el := bget (blk s) b).
  change (fold_left (fun g e => lg_add g (data (inChunk bs (e_pos e))) (nr e)) el []) with (label_groups bodyf el).
  set (g := label_groups bodyf el).
  destruct (vi_block _ _ _ V b) as [Uel Hel]. fold el in Uel, Hel.
  assert (Hget : forall l, nget (fold_left (fun acc l => aput l (el_add (nget (lbl s) l) (lg_get g l)) acc) (lg_keys g) (lbl s)) l
                           = el_add (nget (lbl s) l) (lg_get g l)).
  { intro l. pose proof (fold_put_get_id N.eqb N_eqb_ok (fun _ => true) (fun l => el_add (nget (lbl s) l) (lg_get g l)) (lg_keys g) (lbl s) l) as Hf.
    cbn beta iota in Hf. unfold nget at 1. rewrite Hf. rewrite andb_true_r.
    destruct (existsb (fun k => (k =? l)%N) (lg_keys g)) eqn:E; [reflexivity|].
    assert (Hn : lg_get g l = []).
    { apply lg_get_nokey. intro Hi. apply lg_keys_In in Hi. apply (existsb_eqb_In N.eqb N_eqb_ok) in Hi. congruence. }
    rewrite Hn. reflexivity. }
  assert (Hfresh : forall l e, l <> 0%N -> In e (lg_get g l) -> ~ In (e_pos e) (posl (nget (lbl s) l))).
  { intros l e Hl He Hi. unfold g in He. rewrite label_groups_get in He by exact Hl. apply in_map_iff in He as [e0 [<- He0]].
    apply filter_In in He0 as [He0 _]. apply Hel in He0 as [_ Hb0].
    destruct (nview_pos _ _ _ _ (vi_label _ _ _ V l Hl) Hi) as [e1 [He1 [Ep Hb1]]]. cbn in Ep. cbn beta in Hb1.
    rewrite Ep in Hb1. rewrite (Hg _ Hb0) in Hb1. congruence. }
  apply labels_step; auto.
  - intros l Hl. rewrite Hget. rewrite (el_add_fresh_all _ _ (fun e He => Hfresh l e Hl He)).
    destruct (vi_label _ _ _ V l Hl) as [Ul HlV].
    assert (Hadds : forall x, In x (lg_get g l) <-> exists e, In e G /\ x = nr e /\ blockOf bs (e_pos e) = b /\ bodyf (e_pos e) = l).
    { intro x. unfold g. rewrite label_groups_get by exact Hl. rewrite in_map_iff. split.
      - intros [e [<- He]]. apply filter_In in He as [He Eb]. apply N.eqb_eq in Eb. apply Hel in He as [He Hb]. eauto 6.
      - intros [e [He [-> [Hb Eb]]]]. exists e. split; [reflexivity|]. apply filter_In. split; [apply Hel; auto | now apply N.eqb_eq]. }
    split.
    + apply uniq_app; [exact Ul | unfold g; rewrite label_groups_get by exact Hl; apply uniq_map_nr, uniq_filter; exact Uel|].
      intros p Hp Hq. apply posl_in in Hq as [y [Hy Ey]]. apply (Hfresh l y Hl Hy). now rewrite Ey.
    + intro x. rewrite in_app_iff, HlV, Hadds. cbn [body_after]. split.
      * intros [[e [He [-> Hb]]]|[e [He [-> [Hb Eb]]]]].
        -- exists e. split; [exact He|]. split; [reflexivity|]. destruct (pos_eqb (blockOf bs (e_pos e)) b) eqn:Eq; [|exact Hb].
           apply pos_eqb_eq in Eq. rewrite (Hg _ Eq) in Hb. congruence.
        -- exists e. split; [exact He|]. split; [reflexivity|]. apply pos_eqb_eq in Hb. rewrite Hb. exact Eb.
      * intros [e [He [-> Hb]]]. destruct (pos_eqb (blockOf bs (e_pos e)) b) eqn:Eq.
        -- right. apply pos_eqb_eq in Eq. eauto 6.
        -- left. eauto.
  - rewrite Hget. unfold g. rewrite label_groups_get0, el_add_nil_r. apply (vi_label0 _ _ _ V).
  - intros i l Hl. cbn [fst snd]. rewrite Hget. rewrite (el_add_fresh_all _ _ (fun e He => Hfresh l e Hl He)).
    rewrite count_idx_app, dcount_nil, (dcount_flat_groups i l g _ (lg_keys_nodup g)).
    destruct (existsb (fun k => (k =? l)%N) (lg_keys g)) eqn:E; [lia|].
    assert (Hn : lg_get g l = []).
    { apply lg_get_nokey. intro Hi. apply lg_keys_In in Hi. apply (existsb_eqb_In N.eqb N_eqb_ok) in Hi. congruence. }
    rewrite Hn. unfold count_idx at 2. cbn. lia.
Qed.

(* ---------- mutate ---------- *)
Theorem mutate_views bs G s b prev data :
  ViewsI bs G s -> guard bs G (body s) (LMutate b prev data) ->
  exists s', step fixed bs (LMutate b prev data) s = Ok s'
             /\ body s' = body_after bs (LMutate b prev data) (body s) /\ ViewsI bs G s'.
Proof.
  intros V Hg. cbn [guard] in Hg. cbn [step with_labels]. eexists. split; [reflexivity|]. split; [reflexivity|].
  set (el := bget (blk s) b).
  set (newl := fun e => data (inChunk bs (e_pos e))).
  set (oldl := fun e => prev (inChunk bs (e_pos e))).
  set (labels := nodupb N.eqb (filter (fun l => negb (l =? 0)%N) (flat_map (fun e => [newl e; oldl e]) el))).
  assert (Hunf : mutate_block bs b prev data s
    = (fold_left (fun acc l =>
                aput l (el_add (fold_left (fun a e => if (oldl e =? l)%N then nr_delete (e_pos e) a else a) el (nget (lbl s) l))
                               (map nr (filter (fun e => (newl e =? l)%N) el))) acc) labels (lbl s),
       (map (fun e => (newl e, e_kind e)) (filter (fun e => negb (newl e =? 0)%N) el),
        map (fun e => (oldl e, e_kind e)) (filter (fun e => negb (oldl e =? 0)%N) el)))) by reflexivity.
  rewrite Hunf. clear Hunf. cbn [fst snd].
  destruct (vi_block _ _ _ V b) as [Uel Hel]. fold el in Uel, Hel.
  assert (Hold : forall e, In e el -> oldl e = body s (e_pos e)).
  { intros e He. apply Hel in He as [_ Hb]. unfold oldl. now apply Hg. }
  set (cur1 := fun l => filter (fun x => negb (existsb (fun e => (oldl e =? l)%N && has_pos (e_pos e) x) el)) (nget (lbl s) l)).
  set (adds := fun l => map nr (filter (fun e => (newl e =? l)%N) el)).
  assert (Hget : forall l, l <> 0%N ->
     nget (fold_left (fun acc l =>
                aput l (el_add (fold_left (fun a e => if (oldl e =? l)%N then nr_delete (e_pos e) a else a) el (nget (lbl s) l))
                               (map nr (filter (fun e => (newl e =? l)%N) el))) acc) labels (lbl s)) l
     = el_add (cur1 l) (adds l)).
  { intros l Hl.
    pose proof (fold_put_get_id N.eqb N_eqb_ok (fun _ => true)
                  (fun l => el_add (fold_left (fun a e => if (oldl e =? l)%N then nr_delete (e_pos e) a else a) el (nget (lbl s) l))
                                   (map nr (filter (fun e => (newl e =? l)%N) el))) labels (lbl s) l) as Hf.
    cbn beta iota in Hf. unfold nget at 1. rewrite Hf. clear Hf. rewrite andb_true_r.
    rewrite (fold_delete_filter (fun e => (oldl e =? l)%N) el _ (proj1 (vi_label _ _ _ V l Hl))).
    fold (cur1 l) (adds l).
    destruct (existsb (fun k => (k =? l)%N) labels) eqn:E; [reflexivity|].
    assert (Hnl : ~ In l labels) by (intro Hi; apply (existsb_eqb_In N.eqb N_eqb_ok) in Hi; congruence).
    assert (Hno : forall e, In e el -> newl e <> l /\ oldl e <> l).
    { intros e He. split; intro E'; apply Hnl; unfold labels; apply (nodupb_In N.eqb N_eqb_ok); apply filter_In;
        (split; [apply in_flat_map; exists e; split; [exact He | cbn; tauto] | now apply negb_true_iff, N.eqb_neq]). }
    assert (Ha : adds l = []).
    { unfold adds. replace (filter (fun e => (newl e =? l)%N) el) with (@nil elem); [reflexivity|].
      symmetry. clear -Hno. induction el as [|a el' IH]; cbn; [reflexivity|].
      destruct (newl a =? l)%N eqn:E; [apply N.eqb_eq in E; destruct (Hno a (or_introl eq_refl)); contradiction|].
      apply IH. intros e He. apply Hno. now right. }
    assert (Hc : cur1 l = nget (lbl s) l).
    { unfold cur1. apply filter_id. intros x _. apply negb_true_iff. apply not_true_is_false. intro Hx.
      apply existsb_exists in Hx as [e [He Hx]]. apply andb_true_iff in Hx as [Hx _]. apply N.eqb_eq in Hx.
      destruct (Hno e He). contradiction. }
    rewrite Ha, Hc. reflexivity. }
  (* what survives in a list, and what is added *)
  assert (Hcur1 : forall l x, l <> 0%N -> (In x (cur1 l) <-> exists e, In e G /\ x = nr e /\ body s (e_pos e) = l /\ blockOf bs (e_pos e) <> b)).
  { intros l x Hl. unfold cur1. rewrite filter_In, negb_true_iff. destruct (vi_label _ _ _ V l Hl) as [_ HlV]. rewrite HlV. split.
    - intros [[e [He [-> Hb]]] Hx]. exists e. split; [exact He|]. split; [reflexivity|]. split; [exact Hb|]. intro Eb.
      assert (Hin : In e el) by (apply Hel; auto).
      assert (Ht : existsb (fun e0 => (oldl e0 =? l)%N && has_pos (e_pos e0) (nr e)) el = true).
      { apply existsb_exists. exists e. split; [exact Hin|]. rewrite (Hold e Hin), Hb, N.eqb_refl. cbn. apply pos_eqb_refl. }
      congruence.
    - intros [e [He [-> [Hb Hnb]]]]. split; [eauto|]. apply not_true_is_false. intro Hx.
      apply existsb_exists in Hx as [e0 [He0 Hx]]. apply andb_true_iff in Hx as [_ Hx]. apply has_pos_true in Hx. cbn in Hx.
      apply Hel in He0 as [_ Hb0]. apply Hnb. congruence. }
  assert (Hadds : forall l x, In x (adds l) <-> exists e, In e G /\ x = nr e /\ blockOf bs (e_pos e) = b /\ newl e = l).
  { intros l x. unfold adds. rewrite in_map_iff. split.
    - intros [e [<- He]]. apply filter_In in He as [He Eb]. apply N.eqb_eq in Eb. apply Hel in He as [He Hb]. eauto 6.
    - intros [e [He [-> [Hb Eb]]]]. exists e. split; [reflexivity|]. apply filter_In. split; [apply Hel; auto | now apply N.eqb_eq]. }
  assert (Hfresh : forall l e, l <> 0%N -> In e (adds l) -> ~ In (e_pos e) (posl (cur1 l))).
  { intros l e Hl He Hi. apply Hadds in He as [e0 [He0 [-> [Hb0 _]]]]. apply posl_in in Hi as [y [Hy Ey]].
    apply (Hcur1 l y Hl) in Hy as [e1 [He1 [-> [_ Hnb]]]]. cbn in Ey. apply Hnb. congruence. }
  assert (Ucur1 : forall l, l <> 0%N -> uniq (cur1 l)) by (intros l Hl; apply uniq_filter; apply (vi_label _ _ _ V l Hl)).
  apply labels_step; auto.
  - intros l Hl. rewrite (Hget l Hl). rewrite (el_add_fresh_all _ _ (fun e He => Hfresh l e Hl He)). split.
    + apply uniq_app; [now apply Ucur1 | apply uniq_map_nr, uniq_filter; exact Uel|].
      intros p Hp Hq. apply posl_in in Hq as [y [Hy Ey]]. apply (Hfresh l y Hl Hy). now rewrite Ey.
    + intro x. rewrite in_app_iff, (Hcur1 l x Hl), Hadds. cbn [body_after]. split.
      * intros [[e [He [-> [Hb Hnb]]]]|[e [He [-> [Hb Eb]]]]].
        -- exists e. split; [exact He|]. split; [reflexivity|]. apply pos_eqb_neq in Hnb. now rewrite Hnb.
        -- exists e. split; [exact He|]. split; [reflexivity|]. apply pos_eqb_eq in Hb. rewrite Hb. exact Eb.
      * intros [e [He [-> Hb]]]. destruct (pos_eqb (blockOf bs (e_pos e)) b) eqn:Eq.
        -- right. apply pos_eqb_eq in Eq. eauto 6.
        -- left. apply pos_eqb_neq in Eq. eauto 6.
  - (* label 0 is never written *)
    pose proof (fold_put_get_id N.eqb N_eqb_ok (fun _ => true)
                  (fun l => el_add (fold_left (fun a e => if (oldl e =? l)%N then nr_delete (e_pos e) a else a) el (nget (lbl s) l))
                                   (map nr (filter (fun e => (newl e =? l)%N) el))) labels (lbl s) 0%N) as Hf.
    cbn beta iota in Hf. unfold nget at 1. rewrite Hf. clear Hf.
    assert (H0 : existsb (fun k => (k =? 0)%N) labels = false).
    { apply not_true_is_false. intro Hx. apply (existsb_eqb_In N.eqb N_eqb_ok) in Hx. unfold labels in Hx.
      apply (proj1 (nodupb_In N.eqb N_eqb_ok _ _)) in Hx. apply filter_In in Hx as [_ Hx]. discriminate. }
    rewrite H0. cbn [andb]. apply (vi_label0 _ _ _ V).
  - intros i l Hl. cbn [fst snd]. rewrite (Hget l Hl). rewrite (el_add_fresh_all _ _ (fun e He => Hfresh l e Hl He)).
    rewrite count_idx_app.
    (* additions *)
    assert (HA : dcount i l (map (fun e => (newl e, e_kind e)) (filter (fun e => negb (newl e =? 0)%N) el)) = count_idx i (adds l)).
    { unfold adds. rewrite count_idx_map_nr. now apply dcount_relabel. }
    (* deletions *)
    assert (HD : dcount i l (map (fun e => (oldl e, e_kind e)) (filter (fun e => negb (oldl e =? 0)%N) el))
                 = count_idx i (nget (lbl s) l) - count_idx i (cur1 l)).
    { rewrite (count_idx_partition i (fun x => negb (existsb (fun e => (oldl e =? l)%N && has_pos (e_pos e) x) el)) (nget (lbl s) l)).
      fold (cur1 l).
      assert (HP : Permutation (filter (fun e => negb (negb (existsb (fun e0 => (oldl e0 =? l)%N && has_pos (e_pos e0) e) el))) (nget (lbl s) l))
                               (map nr (filter (fun e => (oldl e =? l)%N) el))).
      { destruct (vi_label _ _ _ V l Hl) as [Ul HlV]. apply uniq_perm; [now apply uniq_filter | apply uniq_map_nr, uniq_filter; exact Uel|].
        intro x. rewrite filter_In, negb_involutive, in_map_iff, HlV. split.
        - intros [[e [He [-> Hb]]] Hx]. apply existsb_exists in Hx as [e0 [He0 Hx]]. apply andb_true_iff in Hx as [Hx1 Hx2].
          apply has_pos_true in Hx2. cbn in Hx2. pose proof (proj1 (Hel e0) He0) as [He0G _].
          assert (e = e0) by (apply (uniq_inj G e e0 (vi_uniq _ _ _ V) He He0G); congruence). subst e0.
          exists e. split; [reflexivity|]. apply filter_In. auto.
        - intros [e [<- He]]. apply filter_In in He as [He Eo]. pose proof (proj1 (Hel e) He) as [HeG _]. split.
          + exists e. split; [exact HeG|]. split; [reflexivity|]. apply N.eqb_eq in Eo. now rewrite <- (Hold e He).
          + apply existsb_exists. exists e. split; [exact He|]. rewrite Eo. cbn. apply pos_eqb_refl. }
      rewrite (count_idx_perm i _ _ HP), count_idx_map_nr, (dcount_relabel i l oldl el Hl). lia. }
    rewrite HA, HD. lia.
Qed.

(* ---------- split ---------- *)
Lemma flat_bviews_uniq bs (G : list elem) (bk : amap pos) bls (f : elem -> bool) :
  NoDup bls -> (forall b, In b bls -> is_bview bs G b (bget bk b)) -> uniq (flat_map (fun b => filter f (bget bk b)) bls).
Proof.
  intros ND H. induction bls as [|b bls IH]; cbn [flat_map]; [constructor|].
  apply NoDup_cons_iff in ND as [Hn ND]. apply uniq_app.
  - apply uniq_filter. apply (H b). now left.
  - apply IH; [exact ND|]. intros b' Hb'. apply H. now right.
  - intros p Hp Hq. apply posl_in in Hp as [x [Hx Ex]]. apply filter_In in Hx as [Hx _].
    apply (H b (or_introl eq_refl)) in Hx as [_ Hxb].
    apply posl_in in Hq as [y [Hy Ey]]. apply in_flat_map in Hy as [b' [Hb' Hy]]. apply filter_In in Hy as [Hy _].
    apply (H b' (or_intror Hb')) in Hy as [_ Hyb]. apply Hn. assert (Ebb : b = b') by congruence. rewrite Ebb. exact Hb'.
Qed.

Lemma split_get (s : state) old new blocks inspl :
  let hit := flat_map (fun b => filter (fun e => inspl (e_pos e)) (bget (blk s) b)) blocks in
  (forall l, nget (fst (split_labels old new blocks inspl s)) l
             = if (new =? l)%N then el_add (nget (lbl s) new) (map nr hit)
               else if (old =? l)%N then filter (fun e => negb (mem_pos (e_pos e) (map e_pos hit))) (nget (lbl s) old)
               else nget (lbl s) l)
  /\ snd (split_labels old new blocks inspl s) = kinds_delta_move old new hit.
Proof.
  intro hit. unfold split_labels. fold hit. destruct hit as [|h hs] eqn:Eh.
  - split; [|reflexivity]. intro l. cbn [fst map]. rewrite el_add_nil_r.
    destruct (new =? l)%N eqn:E1; [apply N.eqb_eq in E1; now subst|].
    destruct (old =? l)%N eqn:E2; [apply N.eqb_eq in E2; subst; symmetry; apply filter_id; reflexivity | reflexivity].
  - split; [|reflexivity]. intro l. cbn [fst]. rewrite nget_aput. destruct (new =? l)%N; [reflexivity|].
    rewrite nget_aput. destruct (old =? l)%N; reflexivity.
Qed.

Theorem split_views bs G s old new blocks inspl :
  ViewsI bs G s -> guard bs G (body s) (LSplit old new blocks inspl) ->
  exists s', step fixed bs (LSplit old new blocks inspl) s = Ok s'
             /\ body s' = body_after bs (LSplit old new blocks inspl) (body s) /\ ViewsI bs G s'.
Proof.
  intros V [Ho [Hn [Hno [ND Hin]]]]. cbn [step with_labels]. eexists. split; [reflexivity|]. split; [reflexivity|].
  destruct (split_get s old new blocks inspl) as [Hget Hsnd]. cbn zeta in Hget, Hsnd.
  set (hit := flat_map (fun b => filter (fun e => inspl (e_pos e)) (bget (blk s) b)) blocks) in *.
  pose proof (vi_uniq _ _ _ V) as UG.
  assert (Hhit : forall x, In x hit <-> In x G /\ inspl (e_pos x) = true).
  { intro x. unfold hit. rewrite in_flat_map. split.
    - intros [b [Hb Hx]]. apply filter_In in Hx as [Hx Hi]. apply (vi_block _ _ _ V) in Hx as [Hx _]. auto.
    - intros [Hx Hi]. exists (blockOf bs (e_pos x)). split; [apply (Hin _ Hi)|]. apply filter_In. split; [now apply (bview_in bs G s) | exact Hi]. }
  assert (Uhit : uniq hit) by (apply (flat_bviews_uniq bs G); [exact ND | intros b _; apply (vi_block _ _ _ V)]).
  assert (Hhb : forall e, In e hit -> body s (e_pos e) = old) by (intros e He; apply Hhit in He as [_ Hi]; now apply Hin).
  assert (Hpos_hit : forall e, In e G -> (In (e_pos e) (map e_pos hit) <-> inspl (e_pos e) = true)).
  { intros e He. split.
    - intro Hi. apply in_map_iff in Hi as [h [Eh Hh]]. apply Hhit in Hh as [Hh Hhi]. now rewrite <- Eh.
    - intro Hi. apply in_map. apply Hhit. auto. }
  assert (Eno : (new =? old)%N = false) by now apply N.eqb_neq.
  assert (Hfresh : forall e, In e (map nr hit) -> ~ In (e_pos e) (posl (nget (lbl s) new))).
  { intros e He Hi. apply in_map_iff in He as [h [<- Hh]]. cbn in Hi.
    destruct (nview_pos _ _ _ _ (vi_label _ _ _ V new Hn) Hi) as [e1 [He1 [Ep Hb1]]]. cbn beta in Hb1. rewrite Ep, (Hhb h Hh) in Hb1. congruence. }
  apply labels_step; auto.
  - intros l Hl. rewrite Hget. destruct (new =? l)%N eqn:E1.
    + apply N.eqb_eq in E1. subst l. destruct (vi_label _ _ _ V new Hn) as [Ul HlV].
      rewrite (el_add_fresh_all _ _ Hfresh). split.
      * apply uniq_app; [exact Ul | now apply uniq_map_nr|]. intros p Hp Hq. apply posl_in in Hq as [y [Hy Ey]].
        apply (Hfresh y Hy). now rewrite Ey.
      * intro x. rewrite in_app_iff, HlV, in_map_iff. cbn [body_after]. split.
        -- intros [[e [He [-> Hb]]]|[h [<- Hh]]].
           ++ exists e. split; [exact He|]. split; [reflexivity|]. rewrite Hb, Eno. reflexivity.
           ++ pose proof (Hhb h Hh) as Hbh. apply Hhit in Hh as [Hh Hi]. exists h. split; [exact Hh|]. split; [reflexivity|].
              now rewrite Hbh, N.eqb_refl, Hi.
        -- intros [e [He [-> Hb]]]. destruct ((body s (e_pos e) =? old)%N && inspl (e_pos e)) eqn:Ec.
           ++ apply andb_true_iff in Ec as [_ Ec]. right. exists e. split; [reflexivity|]. apply Hhit. auto.
           ++ left. eauto.
    + destruct (old =? l)%N eqn:E2.
      * apply N.eqb_eq in E2. subst l. destruct (vi_label _ _ _ V old Ho) as [Ul HlV]. split; [now apply uniq_filter|].
        intro x. rewrite filter_In, negb_true_iff, mem_pos_nIn, HlV. cbn [body_after]. split.
        -- intros [[e [He [-> Hb]]] Hni]. cbn in Hni. exists e. split; [exact He|]. split; [reflexivity|].
           destruct (inspl (e_pos e)) eqn:Ei; [exfalso; apply Hni; now apply (Hpos_hit e He)|]. rewrite andb_false_r. exact Hb.
        -- intros [e [He [-> Hb]]]. destruct ((body s (e_pos e) =? old)%N && inspl (e_pos e)) eqn:Ec; [congruence|]. split; [eauto|].
           cbn. intro Hi. apply (Hpos_hit e He) in Hi. rewrite Hb, N.eqb_refl, Hi in Ec. discriminate.
      * apply N.eqb_neq in E1, E2. destruct (vi_label _ _ _ V l Hl) as [Ul HlV]. split; [exact Ul|]. intro x. rewrite HlV.
        cbn [body_after]. split.
        -- intros [e [He [-> Hb]]]. exists e. split; [exact He|]. split; [reflexivity|].
           destruct ((body s (e_pos e) =? old)%N && inspl (e_pos e)) eqn:Ec; [|exact Hb].
           apply andb_true_iff in Ec as [Ec _]. apply N.eqb_eq in Ec. congruence.
        -- intros [e [He [-> Hb]]]. exists e. split; [exact He|]. split; [reflexivity|].
           destruct ((body s (e_pos e) =? old)%N && inspl (e_pos e)) eqn:Ec; [congruence | exact Hb].
  - rewrite Hget. assert (E1 : (new =? 0)%N = false) by now apply N.eqb_neq. assert (E2 : (old =? 0)%N = false) by now apply N.eqb_neq.
    rewrite E1, E2. apply (vi_label0 _ _ _ V).
  - intros i l Hl. rewrite Hget, Hsnd. destruct (dcount_kinds_move i l old new hit) as [K1 K2]. rewrite K1, K2.
    destruct (new =? l)%N eqn:E1.
    + apply N.eqb_eq in E1. subst l. rewrite (N.eqb_sym old new), Eno. rewrite (el_add_fresh_all _ _ Hfresh), count_idx_app, count_idx_map_nr. lia.
    + destruct (old =? l)%N eqn:E2; [|lia]. apply N.eqb_eq in E2. subst l.
      destruct (vi_label _ _ _ V old Ho) as [Ul HlV].
      rewrite (count_idx_partition i (fun e => negb (mem_pos (e_pos e) (map e_pos hit))) (nget (lbl s) old)).
      assert (HP : Permutation (filter (fun e => negb (negb (mem_pos (e_pos e) (map e_pos hit)))) (nget (lbl s) old)) (map nr hit)).
      { apply uniq_perm; [now apply uniq_filter | now apply uniq_map_nr|].
        intro x. split.
        - intro Hx. apply filter_In in Hx as [Hx Hi]. rewrite negb_involutive in Hi. apply mem_pos_In in Hi.
          apply HlV in Hx as [e [He [-> Hb]]]. cbn in Hi. apply in_map_iff. exists e. split; [reflexivity|].
          apply Hhit. split; [exact He|]. now apply (Hpos_hit e He).
        - intro Hx. apply in_map_iff in Hx as [h [<- Hh]]. pose proof (Hhb h Hh) as Hbh. pose proof (proj1 (Hhit h) Hh) as [HhG _].
          apply filter_In. split; [apply HlV; eauto|]. rewrite negb_involutive. apply mem_pos_In. cbn. now apply in_map. }
      rewrite (count_idx_perm i _ _ HP), count_idx_map_nr. lia.
Qed.
