(* Proofs.AnnotDelete — DELETE element keeps every view (partners listed). *)
From DV Require Import Base.Prelude Model.Annot Gen.Consts Proofs.AnnotBase Proofs.AnnotStore Proofs.AnnotViews.
From Coq Require Import Permutation.
Local Open Scope Z_scope.

Lemma g_delete_spec p G : uniq G ->
  uniq (g_delete p G) /\ forall x, In x (g_delete p G) <-> exists y, In y G /\ e_pos y <> p /\ x = del_rel p y.
Proof.
  intro U. unfold g_delete. split.
  - apply uniq_map_same; [intro; reflexivity | now apply uniq_filter].
  - intro x. rewrite in_map_iff. split.
    + intros [y [<- Hy]]. apply remove_all_In in Hy. exists y. tauto.
    + intros [y [Hy [Hp ->]]]. exists y. split; [reflexivity|]. apply remove_all_In. tauto.
Qed.

Lemma refs_true p e : refs p e = true <-> exists r, In r (e_rels e) /\ snd r = p.
Proof.
  unfold refs. rewrite existsb_exists. split.
  - intros [r [Hr E]]. apply pos_eqb_eq in E. eauto.
  - intros [r [Hr E]]. exists r. split; [exact Hr|]. apply pos_eqb_eq. congruence.
Qed.

Lemma count_idx_remove_all i p l :
  count_idx i (nr_remove_all p l) = count_idx i l - count_idx i (filter (has_pos p) l).
Proof.
  unfold nr_remove_all, count_idx. induction l as [|a l IH]; cbn [filter]; [reflexivity|].
  destruct (has_pos p a); cbn [negb filter]; destruct (idx_match i (e_kind a)); cbn [length]; rewrite ?Nat2Z.inj_succ; glia.
Qed.

Lemma remove_all_id p l : ~ In p (posl l) -> nr_remove_all p l = l.
Proof.
  intro H. unfold nr_remove_all. apply filter_id. intros x Hx. apply negb_true_iff, has_pos_false.
  intro E. apply H. rewrite <- E. now apply in_posl.
Qed.
Lemma filter_has_pos_nil p l : ~ In p (posl l) -> filter (has_pos p) l = [].
Proof.
  intro H. induction l as [|a l IH]; cbn; [reflexivity|].
  destruct (has_pos p a) eqn:E.
  - apply has_pos_true in E. exfalso. apply H. left. exact E.
  - apply IH. intro Hi. apply H. now right.
Qed.
Lemma filter_has_pos_In p l : filter (has_pos p) l <> [] -> In p (posl l).
Proof.
  intro H. destruct (in_dec pos_dec p (posl l)) as [Hi|Hn]; [exact Hi|]. now rewrite filter_has_pos_nil in H.
Qed.

(* positions of a name-only view are positions of elements that satisfy the view's predicate *)
Lemma nview_pos P G l p : is_nview P G l -> In p (posl l) -> exists e, In e G /\ e_pos e = p /\ P e.
Proof.
  intros [_ H] Hp. apply posl_in in Hp as [x [Hx Ep]]. apply H in Hx as [e [He [-> Pe]]]. exists e. cbn in Ep. auto.
Qed.

Lemma nview_delete (P : elem -> Prop) G L L' p : uniq G -> is_nview P G L ->
  (forall e, P (del_rel p e) <-> P e) ->
  uniq L' -> (forall x, In x L' <-> In x L /\ e_pos x <> p) ->
  is_nview P (g_delete p G) L'.
Proof.
  intros UG [UL HL] HP UL' HL'. destruct (g_delete_spec p G UG) as [_ HG]. split; [exact UL'|].
  intro x. rewrite HL', HL. split.
  - intros [[e [He [-> Pe]]] Hp]. exists (del_rel p e). split; [apply HG; exists e; cbn in Hp; tauto|].
    split; [reflexivity | now apply HP].
  - intros [e' [He' [-> Pe']]]. apply HG in He' as [e [He [Hp ->]]]. split.
    + exists e. split; [exact He|]. split; [reflexivity | now apply HP].
    + cbn. exact Hp.
Qed.

Theorem delete_views bs G s p :
  ViewsI bs G s -> guard bs G (body s) (ODelete p) ->
  (in_posb p G = false /\ delete_element bs p s = Err) \/
  (in_posb p G = true /\ exists s', delete_element bs p s = Ok s' /\ body s' = body s /\ ViewsI bs (g_delete p G) s').
Proof.
  intros V Hg. cbn [guard] in Hg. pose proof (vi_uniq _ _ _ V) as UG.
  unfold delete_element. set (b := blockOf bs p).
  destruct (vi_block _ _ _ V b) as [Ub Hb].
  unfold el_delete. pose proof (remove_first_uniq p (bget (blk s) b) Ub) as Hrf.
  destruct (remove_first p (bget (blk s) b)) as [[d|] r] eqn:Erf.
  2:{ left. destruct Hrf as [_ Hn]. split; [|reflexivity]. apply in_posb_false. intro Hi.
      apply posl_in in Hi as [e [He Ep]]. apply Hn. rewrite <- Ep. apply in_posl. apply Hb. split; [exact He|]. unfold b. now rewrite Ep. }
  right. destruct Hrf as [Hd [Hpd [Hr Ur]]]. apply Hb in Hd as [HdG _].
  split; [apply in_posb_true; rewrite <- Hpd; now apply in_posl|].
  destruct (delete_in_label s p) as [lbl' dl] eqn:Edl.
  eexists. split; [reflexivity|]. split; [reflexivity|].
  destruct (g_delete_spec p G UG) as [UG' HG'].
  (* every element referencing p lies in p's block or in the block of a listed partner *)
  assert (Hlisted : forall q, In q G -> refs p q = true -> blockOf bs (e_pos q) = b \/ exists r, In r (e_rels d) /\ blockOf bs (snd r) = blockOf bs (e_pos q)).
  { intros q Hq Hqr. destruct (Hg d q HdG (proj2 (has_pos_true p d) Hpd) Hq Hqr) as [H|H]; [left; exact H|].
    right. apply refs_true in H as [r0 [Hr1 Hr2]]. exists r0. split; [exact Hr1 | now rewrite Hr2]. }
  constructor; cbn [blk tgs lbl cnt body].
  - exact UG'.
  - intros e He. apply HG' in He as [y [Hy [_ ->]]]. cbn. now apply (vi_tags _ _ _ V).
  - (* blocks *)
    intro b'. unfold delete_in_rels.
    set (bk1 := aput b (map (del_rel p) r) (blk s)).
    pose proof (fold_put_get pos_eqb pos_eqb_eq (fun r0 : N * pos => blockOf bs (snd r0))
                  (fun b0 => existsb (refs p) (bget bk1 b0)) (fun b0 => map (del_rel p) (bget bk1 b0)) (e_rels d) bk1 b') as Hf.
    cbn beta in Hf. unfold bget at 1. rewrite Hf. clear Hf. fold (bget bk1 b').
    assert (Hbk1 : bget bk1 b' = if pos_eqb b b' then map (del_rel p) r else bget (blk s) b') by reflexivity.
    assert (Huni : (if existsb (fun x => pos_eqb (blockOf bs (snd x)) b') (e_rels d) && existsb (refs p) (bget bk1 b')
                    then map (del_rel p) (bget bk1 b') else bget bk1 b') = map (del_rel p) (bget bk1 b')).
    { destruct (existsb (refs p) (bget bk1 b')) eqn:Ec.
      - destruct (existsb (fun x => pos_eqb (blockOf bs (snd x)) b') (e_rels d)) eqn:Ee; [reflexivity|]. exfalso.
        apply existsb_exists in Ec as [q [Hq Hqr]]. rewrite Hbk1 in Hq.
        destruct (pos_eqb b b') eqn:Ebb.
        + apply in_map_iff in Hq as [y [<- _]]. rewrite del_rel_refs in Hqr. discriminate.
        + apply (vi_block _ _ _ V) in Hq as [HqG Hqb]. destruct (Hlisted q HqG Hqr) as [H|[r0 [Hr0 Hr0b]]].
          * apply pos_eqb_neq in Ebb. congruence.
          * assert (existsb (fun x => pos_eqb (blockOf bs (snd x)) b') (e_rels d) = true).
            { apply existsb_exists. exists r0. split; [exact Hr0|]. apply pos_eqb_eq. congruence. }
            congruence.
      - rewrite andb_false_r. symmetry. apply (map_norefs (del_rel p) (refs p)); [apply del_rel_norefs | exact Ec]. }
    rewrite Huni, Hbk1. split.
    + apply uniq_map_same; [intro; reflexivity|]. destruct (pos_eqb b b'); [apply uniq_map_same; [intro; reflexivity | exact Ur] | apply (vi_block _ _ _ V)].
    + intro x. rewrite HG', in_map_iff. destruct (pos_eqb b b') eqn:Ebb.
      * apply pos_eqb_eq in Ebb. subst b'. split.
        -- intros [y [<- Hy]]. apply in_map_iff in Hy as [y0 [<- Hy0]]. apply Hr in Hy0 as [Hy0 Hp0]. apply Hb in Hy0 as [Hy0 Hyb].
           split; [|exact Hyb]. exists y0. split; [exact Hy0|]. split; [exact Hp0|].
           rewrite (del_rel_norefs p (del_rel p y0)) by apply del_rel_refs. reflexivity.
        -- intros [[y [Hy [Hp ->]]] Hxb]. exists (del_rel p y). split; [rewrite (del_rel_norefs p (del_rel p y)) by apply del_rel_refs; reflexivity|].
           apply in_map. apply Hr. split; [|exact Hp]. apply Hb. cbn in Hxb. tauto.
      * apply pos_eqb_neq in Ebb. split.
        -- intros [y [<- Hy]]. apply (vi_block _ _ _ V) in Hy as [Hy Hyb]. split; [|exact Hyb]. exists y. split; [exact Hy|].
           split; [|reflexivity]. intro E. apply Ebb. unfold b. now rewrite <- E.
        -- intros [[y [Hy [Hp ->]]] Hxb]. exists y. split; [reflexivity|]. apply (vi_block _ _ _ V). cbn in Hxb. tauto.
  - (* tags *)
    intro t. unfold delete_in_tags.
    pose proof (fold_put_get_id N.eqb N_eqb_ok (fun t0 => existsb (has_pos p) (nget (tgs s) t0))
                  (fun t0 => nr_remove_all p (nget (tgs s) t0)) (e_tags d) (tgs s) t) as Hf.
    unfold nget at 1. rewrite Hf. clear Hf. fold (nget (tgs s) t).
    pose proof (vi_tag _ _ _ V t) as Vt.
    apply (nview_delete _ G (nget (tgs s) t)); auto.
    + intro e. reflexivity.
    + destruct (existsb (fun k => (k =? t)%N) (e_tags d) && existsb (has_pos p) (nget (tgs s) t)); [apply uniq_filter|]; apply Vt.
    + intro x. destruct (existsb (fun k => (k =? t)%N) (e_tags d) && existsb (has_pos p) (nget (tgs s) t)) eqn:E.
      * apply remove_all_In.
      * split; [|tauto]. intro Hx. split; [exact Hx|]. intro Ep.
        assert (Hin : In p (posl (nget (tgs s) t))) by (rewrite <- Ep; now apply in_posl).
        destruct (nview_pos _ _ _ _ Vt Hin) as [e [He [Epe Ht]]].
        assert (e = d) by (apply (uniq_inj G e d UG He HdG); congruence). subst e.
        apply (existsb_eqb_In N.eqb N_eqb_ok) in Ht. apply existsb_has_pos in Hin. rewrite Ht, Hin in E. discriminate.
  - (* labels *)
    intros l Hl. replace lbl' with (fst (delete_in_label s p)) by now rewrite Edl.
    unfold delete_in_label. pose proof (vi_label _ _ _ V l Hl) as Vl.
    apply (nview_delete _ G (nget (lbl s) l)); auto.
    + intro e. reflexivity.
    + destruct (filter (has_pos p) (nget (lbl s) (body s p))); cbn [fst]; [apply Vl|].
      rewrite nget_aput. destruct (body s p =? l)%N eqn:E; [apply N.eqb_eq in E; rewrite E; apply uniq_filter|]; apply Vl.
    + intro x. destruct (filter (has_pos p) (nget (lbl s) (body s p))) eqn:Eh; cbn [fst].
      * split; [|tauto]. intro Hx. split; [exact Hx|]. intro Ep.
        assert (Hin : In p (posl (nget (lbl s) l))) by (rewrite <- Ep; now apply in_posl).
        destruct (nview_pos _ _ _ _ Vl Hin) as [e [He [Epe Hbd]]]. rewrite Epe in Hbd. rewrite Hbd in Eh.
        assert (Hne : filter (has_pos p) (nget (lbl s) l) <> []).
        { intro Hnil. assert (Hf : In x (filter (has_pos p) (nget (lbl s) l))) by (apply filter_In; split; [exact Hx | now apply has_pos_true]).
          rewrite Hnil in Hf. contradiction. }
        contradiction.
      * rewrite nget_aput. destruct (body s p =? l)%N eqn:E.
        -- apply N.eqb_eq in E. rewrite E. apply remove_all_In.
        -- split; [|tauto]. intro Hx. split; [exact Hx|]. intro Ep.
           assert (Hin : In p (posl (nget (lbl s) l))) by (rewrite <- Ep; now apply in_posl).
           destruct (nview_pos _ _ _ _ Vl Hin) as [e0 [He0 [Epe Hbd]]]. rewrite Epe in Hbd. apply N.eqb_neq in E. contradiction.
  - (* label 0 *)
    replace lbl' with (fst (delete_in_label s p)) by now rewrite Edl. unfold delete_in_label.
    destruct (filter (has_pos p) (nget (lbl s) (body s p))) eqn:Eh; cbn [fst]; [apply (vi_label0 _ _ _ V)|].
    rewrite nget_aput. destruct (body s p =? 0)%N eqn:E; [|apply (vi_label0 _ _ _ V)].
    apply N.eqb_eq in E. rewrite E, (vi_label0 _ _ _ V) in Eh. discriminate.
  - (* counts *)
    replace lbl' with (fst (delete_in_label s p)) by now rewrite Edl.
    replace dl with (snd (delete_in_label s p)) by now rewrite Edl.
    apply count_step with (lb := lbl s); [apply (vi_count _ _ _ V)|].
    intros i l Hl. unfold delete_in_label.
    destruct (filter (has_pos p) (nget (lbl s) (body s p))) eqn:Eh; cbn [fst snd].
    + unfold d0. cbn [fst snd]. rewrite !dcount_nil. lia.
    + rewrite nget_aput. rewrite dcount_map, dcount_nil.
      destruct (body s p =? l)%N eqn:E; cbv iota.
      * apply N.eqb_eq in E. rewrite E in *. rewrite count_idx_remove_all, Eh. lia.
      * unfold nget in *. lia.
Qed.
