(* Proofs.CRCBurst: burst-error detection of the bitwise CRC-32 of Model/CRC.v.
   Any alteration confined to at most 4 consecutive bytes, and any alteration confined to a
   window of 32 consecutive bits at arbitrary bit alignment (spanning 5 bytes), changes crc32.

   Route: one bit step [crc_bit] sets bit 31 exactly when its input is odd (crc_poly has bit 31,
   the shifted state does not), so [crc_bit y < 2^31] forces [y = 2 * crc_bit y].  Iterated:
   [bitn n y < 2^(32-n)] forces [y = 2^n * bitn n y].  The difference of two runs over byte
   strings of equal length is the run, from state 0, over the bytewise xor of the strings
   (linearity); unwinding "the difference run ends in 0" backwards bounds every intermediate
   difference state, and the first difference byte is then forced to 0. *)
From DV Require Import Base.Prelude Model.CRC Proofs.CRC.
Local Open Scope N_scope.

(* bytewise xor of two byte strings *)
Definition xors (m m' : bytes) : bytes := map (fun p => N.lxor (fst p) (snd p)) (combine m m').

(* n bit steps *)
Fixpoint bitn (n : nat) (s : N) : N :=
  match n with O => s | S n' => bitn n' (crc_bit s) end.

Lemma crc_bits8_bitn s : crc_bits8 s = bitn 8 s.
Proof. reflexivity. Qed.

Lemma bitn_add a : forall b s, bitn (a + b) s = bitn b (bitn a s).
Proof. induction a as [|a IH]; intros b s; [reflexivity|]. cbn [Nat.add bitn]. apply IH. Qed.

Lemma pow2N_S k : 2 ^ N.of_nat (S k) = 2 * 2 ^ N.of_nat k.
Proof. rewrite Nat2N.inj_succ. apply N.pow_succ_r'. Qed.

Lemma pow2N_add a b : 2 ^ N.of_nat (a + b) = 2 ^ N.of_nat a * 2 ^ N.of_nat b.
Proof. rewrite Nat2N.inj_add. apply N.pow_add_r. Qed.

Lemma pow2N_mono a b : (a <= b)%nat -> 2 ^ N.of_nat a <= 2 ^ N.of_nat b.
Proof. intro H. apply N.pow_le_mono_r; [discriminate|]. lia. Qed.

Lemma pow2N_pos a : 0 < 2 ^ N.of_nat a.
Proof. apply N.neq_0_lt_0. apply N.pow_nonzero. discriminate. Qed.

Lemma lt_pow2_bit_false r n : r < 2 ^ n -> N.testbit r n = false.
Proof.
  intro H. destruct (N.eq_dec r 0) as [->|Nr]; [apply N.bits_0|].
  apply N.bits_above_log2. apply N.log2_lt_pow2; [apply N.neq_0_lt_0; exact Nr|exact H].
Qed.

(* a bit step whose result stays below 2^31 did not xor the polynomial in: the input was even *)
Lemma crc_bit_small y : w32 y -> crc_bit y < 2 ^ 31 -> y = 2 * crc_bit y.
Proof.
  unfold w32. intros Hy Hlt. unfold crc_bit in *.
  pose proof (N.bit0_mod y) as Hb.
  destruct (N.testbit y 0) eqn:Hodd.
  - exfalso.
    assert (B : N.testbit (N.lxor (N.shiftr y 1) crc_poly) 31 = true).
    { rewrite N.lxor_spec, N.shiftr_spec by apply N.le_0_l.
      change (31 + 1) with 32. rewrite (lt_pow2_bit_false y 32 Hy). reflexivity. }
    rewrite (lt_pow2_bit_false _ 31 Hlt) in B. discriminate.
  - rewrite N.lxor_0_r. rewrite N.shiftr_div_pow2. change (2 ^ 1) with 2.
    cbn [N.b2n] in Hb. pose proof (N.div_mod y 2). lia.
Qed.

Lemma crc_bit_even h : crc_bit (2 * h) = h.
Proof.
  unfold crc_bit. rewrite N.testbit_even_0, N.lxor_0_r, N.shiftr_div_pow2.
  change (2 ^ 1) with 2. rewrite N.mul_comm. apply N.div_mul. discriminate.
Qed.

Lemma bitn_w32 n : forall s, w32 s -> w32 (bitn n s).
Proof. induction n as [|n IH]; intros s H; [exact H|]. cbn [bitn]. apply IH, crc_bit_w32, H. Qed.

(* n bit steps whose result stays below 2^(32-n): the n low bits of the input were 0 and the
   steps only shifted *)
Lemma bitn_small n : forall k y, (n + k = 32)%nat -> w32 y ->
  bitn n y < 2 ^ N.of_nat k -> y = 2 ^ N.of_nat n * bitn n y.
Proof.
  induction n as [|n IH]; intros k y Hk Hy Hlt.
  - cbn [bitn]. change (2 ^ N.of_nat 0) with 1. lia.
  - cbn [bitn] in *. set (z := bitn n (crc_bit y)) in *.
    assert (H1 : crc_bit y = 2 ^ N.of_nat n * z).
    { apply (IH (S k)); [lia|apply crc_bit_w32; exact Hy|].
      fold z. rewrite pow2N_S. pose proof (pow2N_pos k). lia. }
    assert (H2 : crc_bit y < 2 ^ 31).
    { rewrite H1. replace (2 ^ 31) with (2 ^ N.of_nat n * 2 ^ N.of_nat k).
      - apply N.mul_lt_mono_pos_l; [apply pow2N_pos|exact Hlt].
      - rewrite <- pow2N_add. replace (n + k)%nat with 31%nat by lia. reflexivity. }
    rewrite pow2N_S. rewrite (crc_bit_small y Hy H2) at 1. rewrite H1. ring.
Qed.

Lemma bitn_shift j : forall u, bitn j (2 ^ N.of_nat j * u) = u.
Proof.
  induction j as [|j IH]; intro u.
  - cbn [bitn]. change (2 ^ N.of_nat 0) with 1. lia.
  - cbn [bitn]. rewrite pow2N_S, <- N.mul_assoc, crc_bit_even. apply IH.
Qed.

Lemma crc_bits8_small y : w32 y -> crc_bits8 y < 2 ^ 24 -> y = 256 * crc_bits8 y.
Proof.
  intros Hy Hlt. rewrite crc_bits8_bitn in *.
  exact (bitn_small 8 24 y eq_refl Hy Hlt).
Qed.

(* --- the difference of two runs over strings of equal length --- *)

Lemma crc_byte_diff s s' b b' :
  crc_byte s' b' = N.lxor (crc_byte s b) (crc_byte (N.lxor s s') (N.lxor b b')).
Proof.
  unfold crc_byte. rewrite <- crc_bits8_linear. f_equal.
  apply N.bits_inj. intro k. rewrite !N.lxor_spec.
  destruct (N.testbit s k), (N.testbit s' k), (N.testbit b k), (N.testbit b' k); reflexivity.
Qed.

Lemma crc_update_diff2 m : forall m' s s', length m = length m' ->
  crc_update s' m' = N.lxor (crc_update s m) (crc_update (N.lxor s s') (xors m m')).
Proof.
  induction m as [|b m IH]; intros [|b' m'] s s' Hl; try discriminate.
  - cbn. apply N.bits_inj. intro k. rewrite !N.lxor_spec.
    destruct (N.testbit s k), (N.testbit s' k); reflexivity.
  - change (crc_update s' (b' :: m')) with (crc_update (crc_byte s' b') m').
    change (crc_update s (b :: m)) with (crc_update (crc_byte s b) m).
    change (xors (b :: m) (b' :: m')) with (N.lxor b b' :: xors m m').
    change (crc_update (N.lxor s s') (N.lxor b b' :: xors m m'))
      with (crc_update (crc_byte (N.lxor s s') (N.lxor b b')) (xors m m')).
    rewrite (IH m' (crc_byte s b) (crc_byte s' b')) by (injection Hl; auto).
    f_equal. f_equal. rewrite (crc_byte_diff s s' b b').
    rewrite <- N.lxor_assoc, N.lxor_nilpotent, N.lxor_0_l. reflexivity.
Qed.

Lemma byte_lxor a b : byte_ok a -> byte_ok b -> byte_ok (N.lxor a b).
Proof. unfold byte_ok. change 256 with (2 ^ 8). apply lxor_lt_pow2. Qed.

Lemma xors_bytes_ok m : forall m', bytes_ok m -> bytes_ok m' -> bytes_ok (xors m m').
Proof.
  induction m as [|b m IH]; intros [|b' m'] H H'; try constructor.
  - inversion H; inversion H'; subst. apply byte_lxor; assumption.
  - inversion H; inversion H'; subst. apply IH; assumption.
Qed.

Lemma xors_length m : forall m', length m = length m' -> length (xors m m') = length m.
Proof. unfold xors. intros m' H. rewrite map_length, combine_length, <- H. apply Nat.min_id. Qed.

Lemma xors_zero m : forall m', length m = length m' -> Forall (eq 0) (xors m m') -> m = m'.
Proof.
  induction m as [|b m IH]; intros [|b' m'] Hl Hz; try discriminate; [reflexivity|].
  change (xors (b :: m) (b' :: m')) with (N.lxor b b' :: xors m m') in Hz.
  inversion Hz as [|? ? Hb Hr]; subst. symmetry in Hb. apply N.lxor_eq in Hb. subst b'.
  f_equal. apply IH; [injection Hl; auto|exact Hr].
Qed.

Lemma xors_app a : forall a' b b', length a = length a' ->
  xors (a ++ b) (a' ++ b') = xors a a' ++ xors b b'.
Proof.
  induction a as [|x a IH]; intros [|x' a'] b b' Hl; try discriminate; [reflexivity|].
  cbn [app]. change (xors (x :: a ++ b) (x' :: a' ++ b')) with (N.lxor x x' :: xors (a ++ b) (a' ++ b')).
  rewrite IH by (injection Hl; auto). reflexivity.
Qed.

(* two strings that agree outside a middle part of equal length and have the same crc32:
   the difference run over the middle part returns to 0 *)
Lemma crc32_eq_diff_run l1 m m' l2 :
  bytes_ok m -> bytes_ok m' -> length m = length m' ->
  crc32 (l1 ++ m ++ l2) = crc32 (l1 ++ m' ++ l2) ->
  crc_update 0 (xors m m') = 0.
Proof.
  intros Hm Hm' Hl E. unfold crc32 in E. apply lxor_cancel_neq in E.
  unfold crc_update in E. rewrite !fold_left_app in E.
  fold (crc_update crc_mask l1) in E. set (s := crc_update crc_mask l1) in *.
  fold (crc_update s m) in E. fold (crc_update s m') in E.
  fold (crc_update (crc_update s m) l2) in E. fold (crc_update (crc_update s m') l2) in E.
  rewrite (crc_update_diff2 m m' s s Hl) in E. rewrite N.lxor_nilpotent in E.
  set (D := crc_update 0 (xors m m')) in *.
  rewrite crc_update_diff in E.
  assert (Z : zrun (length l2) D = 0).
  { apply (f_equal (N.lxor (crc_update (crc_update s m) l2))) in E.
    now rewrite <- N.lxor_assoc, !N.lxor_nilpotent, N.lxor_0_l in E. }
  destruct (N.eq_dec D 0) as [E0|NE]; [exact E0|exfalso].
  revert Z. apply zrun_nonzero; [|exact NE].
  apply crc_update_w32; [reflexivity|apply xors_bytes_ok; assumption].
Qed.

(* --- unwinding backwards --- *)

(* if the run over ds from d ends below 2^t and t + 8|ds| <= 32, every step only shifted:
   d itself is below 2^(t + 8|ds|) *)
Lemma crc_update_small_back ds : forall t d, w32 d -> bytes_ok ds ->
  (t + 8 * length ds <= 32)%nat ->
  crc_update d ds < 2 ^ N.of_nat t -> d < 2 ^ N.of_nat (t + 8 * length ds).
Proof.
  induction ds as [|x ds IH]; intros t d Hd Hok Hlen Hlt.
  - cbn [length]. replace (t + 8 * 0)%nat with t by lia. exact Hlt.
  - inversion Hok as [|? ? Hx Hds]; subst. cbn [length] in *.
    change (crc_update d (x :: ds)) with (crc_update (crc_byte d x) ds) in Hlt.
    assert (He : w32 (N.lxor d x)) by (apply lxor_lt_pow2; [exact Hd|apply byte_w32; exact Hx]).
    assert (H1 : crc_byte d x < 2 ^ N.of_nat (t + 8 * length ds)).
    { apply IH; [apply crc_byte_w32; assumption|exact Hds|lia|exact Hlt]. }
    assert (H2 : crc_byte d x < 2 ^ 24).
    { eapply N.lt_le_trans; [exact H1|]. change 24 with (N.of_nat 24). apply pow2N_mono. lia. }
    unfold crc_byte in H1, H2. pose proof (crc_bits8_small _ He H2) as H3.
    replace (t + 8 * S (length ds))%nat with ((t + 8 * length ds) + 8)%nat by lia.
    replace d with (N.lxor (N.lxor d x) x)
      by (rewrite N.lxor_assoc, N.lxor_nilpotent; apply N.lxor_0_r).
    apply lxor_lt_pow2.
    + rewrite H3, pow2N_add. change (2 ^ N.of_nat 8) with 256.
      set (P := 2 ^ N.of_nat (t + 8 * length ds)) in *. lia.
    + eapply N.lt_le_trans; [exact Hx|]. change 256 with (2 ^ N.of_nat 8).
      apply pow2N_mono. lia.
Qed.

Lemma crc_byte_0_0 : crc_byte 0 0 = 0.
Proof. reflexivity. Qed.

(* at most 4 difference bytes whose run from 0 returns to 0 are all 0 *)
Theorem burst4_zero ds : bytes_ok ds -> (length ds <= 4)%nat ->
  crc_update 0 ds = 0 -> Forall (eq 0) ds.
Proof.
  induction ds as [|x ds IH]; intros Hok Hlen E; [constructor|].
  inversion Hok as [|? ? Hx Hds]; subst. cbn [length] in Hlen.
  change (crc_update 0 (x :: ds)) with (crc_update (crc_byte 0 x) ds) in E.
  assert (H1 : crc_byte 0 x < 2 ^ N.of_nat (0 + 8 * length ds)).
  { apply crc_update_small_back; [apply crc_byte_w32; [reflexivity|exact Hx]|exact Hds|lia|].
    rewrite E. reflexivity. }
  assert (H2 : crc_byte 0 x < 2 ^ 24).
  { eapply N.lt_le_trans; [exact H1|]. change 24 with (N.of_nat 24). apply pow2N_mono. lia. }
  unfold crc_byte in H2. rewrite N.lxor_0_l in H2.
  pose proof (crc_bits8_small x (byte_w32 x Hx) H2) as H3.
  assert (x = 0) by (unfold byte_ok in Hx; lia). subst x.
  constructor; [reflexivity|]. apply IH; [exact Hds|lia|]. rewrite crc_byte_0_0 in E. exact E.
Qed.

(* a window of 32 consecutive bits at bit offset j of the first byte: the low j bits of the first
   difference byte are 0, up to three arbitrary difference bytes follow, and only the low j bits of
   the last difference byte may be set *)
Theorem burst32_zero j x1 mid x5 :
  (j <= 8)%nat -> bytes_ok (x1 :: mid ++ [x5]) -> (length mid <= 3)%nat ->
  x1 mod 2 ^ N.of_nat j = 0 -> x5 < 2 ^ N.of_nat j ->
  crc_update 0 (x1 :: mid ++ [x5]) = 0 -> Forall (eq 0) (x1 :: mid ++ [x5]).
Proof.
  intros Hj Hok Hlen Hlow Hhigh E.
  inversion Hok as [|? ? Hx1 Hrest]; subst.
  pose proof Hrest as Hrest'. unfold bytes_ok in Hrest'. rewrite Forall_app in Hrest'.
  destruct Hrest' as [Hmid Hx5']. assert (Hx5 : byte_ok x5) by (now inversion Hx5').
  assert (X1 : x1 = 0).
  { change (crc_update 0 (x1 :: mid ++ [x5])) with (crc_update (crc_byte 0 x1) (mid ++ [x5])) in E.
    unfold crc_update in E. rewrite fold_left_app in E. cbn [fold_left] in E.
    fold (crc_update (crc_byte 0 x1) mid) in E.
    set (d1 := crc_byte 0 x1) in *. set (d4 := crc_update d1 mid) in *.
    assert (Hd1 : w32 d1) by (apply crc_byte_w32; [reflexivity|exact Hx1]).
    assert (Hd4 : w32 d4) by (apply crc_update_w32; assumption).
    assert (E4 : d4 = x5).
    { apply N.lxor_eq. destruct (N.eq_dec (N.lxor d4 x5) 0) as [Z|NZ]; [exact Z|exfalso].
      revert E. unfold crc_byte. apply crc_bits8_nonzero; [|exact NZ].
      apply lxor_lt_pow2; [exact Hd4|apply byte_w32; exact Hx5]. }
    assert (B1 : d1 < 2 ^ N.of_nat (j + 8 * length mid)).
    { apply crc_update_small_back; [exact Hd1|exact Hmid|lia|]. fold d4. rewrite E4. exact Hhigh. }
    assert (B2 : d1 < 2 ^ N.of_nat (24 + j)).
    { eapply N.lt_le_trans; [exact B1|]. apply pow2N_mono. lia. }
    set (u := x1 / 2 ^ N.of_nat j).
    assert (Hu : x1 = 2 ^ N.of_nat j * u).
    { unfold u. pose proof (N.div_mod x1 (2 ^ N.of_nat j)) as DM.
      rewrite Hlow, N.add_0_r in DM. apply DM. apply N.pow_nonzero. discriminate. }
    assert (Hd1u : d1 = bitn (8 - j) u).
    { unfold d1, crc_byte. rewrite N.lxor_0_l, crc_bits8_bitn.
      replace 8%nat with (j + (8 - j))%nat at 1 by lia.
      rewrite bitn_add. rewrite Hu at 1. rewrite bitn_shift. reflexivity. }
    assert (P8 : 2 ^ N.of_nat j * 2 ^ N.of_nat (8 - j) = 256).
    { rewrite <- pow2N_add. replace (j + (8 - j))%nat with 8%nat by lia. reflexivity. }
    pose proof (pow2N_pos j) as Pj. pose proof (pow2N_pos (8 - j)) as Pj'.
    assert (Hu8 : u < 2 ^ N.of_nat (8 - j)).
    { apply (N.mul_lt_mono_pos_l (2 ^ N.of_nat j)); [exact Pj|]. rewrite <- Hu, P8. exact Hx1. }
    assert (Huw : w32 u).
    { unfold w32. eapply N.lt_le_trans; [exact Hu8|]. change 32 with (N.of_nat 32). apply pow2N_mono. lia. }
    assert (S : u = 2 ^ N.of_nat (8 - j) * bitn (8 - j) u).
    { apply (bitn_small (8 - j) (24 + j) u); [lia|exact Huw|]. rewrite <- Hd1u. exact B2. }
    rewrite <- Hd1u in S.
    assert (d1 = 0).
    { destruct (N.eq_dec d1 0) as [Z|NZ]; [exact Z|exfalso].
      assert (2 ^ N.of_nat (8 - j) * 1 <= 2 ^ N.of_nat (8 - j) * d1)
        by (apply N.mul_le_mono_l; lia).
      lia. }
    subst d1. rewrite Hu, S. replace (crc_byte 0 x1) with 0 by congruence. ring. }
  subst x1. constructor; [reflexivity|].
  change (crc_update 0 (0 :: mid ++ [x5])) with (crc_update (crc_byte 0 0) (mid ++ [x5])) in E.
  rewrite crc_byte_0_0 in E.
  apply burst4_zero; [exact Hrest| rewrite app_length; cbn [length]; lia | exact E].
Qed.

(* --- the theorems about crc32 --- *)

(* ANY alteration confined to at most 4 consecutive bytes, anywhere in a payload of any length *)
Theorem crc32_burst4 l1 m m' l2 :
  bytes_ok m -> bytes_ok m' -> length m' = length m -> (length m <= 4)%nat -> m <> m' ->
  crc32 (l1 ++ m ++ l2) <> crc32 (l1 ++ m' ++ l2).
Proof.
  intros Hm Hm' Hl H4 Hne E. apply Hne. symmetry in Hl.
  apply xors_zero; [exact Hl|].
  apply burst4_zero.
  - apply xors_bytes_ok; assumption.
  - rewrite xors_length by exact Hl. exact H4.
  - exact (crc32_eq_diff_run l1 m m' l2 Hm Hm' Hl E).
Qed.

(* ANY alteration confined to 32 consecutive bits starting at bit j of byte a (bits j..7 of the
   first byte, up to three whole bytes, bits 0..j-1 of the last byte) *)
Theorem crc32_burst32 j l1 a mid z a' mid' z' l2 :
  (j <= 8)%nat -> bytes_ok (a :: mid ++ [z]) -> bytes_ok (a' :: mid' ++ [z']) ->
  length mid' = length mid -> (length mid <= 3)%nat ->
  N.lxor a a' mod 2 ^ N.of_nat j = 0 -> N.lxor z z' < 2 ^ N.of_nat j ->
  a :: mid ++ [z] <> a' :: mid' ++ [z'] ->
  crc32 (l1 ++ (a :: mid ++ [z]) ++ l2) <> crc32 (l1 ++ (a' :: mid' ++ [z']) ++ l2).
Proof.
  intros Hj Hm Hm' Hl H3 Hlow Hhigh Hne E. apply Hne. symmetry in Hl.
  assert (Hlen : length (a :: mid ++ [z]) = length (a' :: mid' ++ [z'])).
  { cbn [length]. rewrite !app_length, Hl. reflexivity. }
  apply xors_zero; [exact Hlen|].
  pose proof (crc32_eq_diff_run l1 _ _ l2 Hm Hm' Hlen E) as R.
  pose proof (xors_bytes_ok _ _ Hm Hm') as Hx.
  change (xors (a :: mid ++ [z]) (a' :: mid' ++ [z']))
    with (N.lxor a a' :: xors (mid ++ [z]) (mid' ++ [z'])) in *.
  rewrite (xors_app mid mid' [z] [z'] Hl) in *.
  change (xors [z] [z']) with [N.lxor z z'] in *.
  apply (burst32_zero j); try assumption.
  rewrite xors_length by exact Hl. exact H3.
Qed.

(* --- tightness: 32 is the limit --- *)

(* xor with the 33-bit generator polynomial (bit 7 of one byte through bit 7 of the fifth: the
   bytes 80 20 83 B8 ED) never changes crc32, wherever it is applied *)
Lemma crc_update_app s l1 l2 : crc_update s (l1 ++ l2) = crc_update (crc_update s l1) l2.
Proof. apply fold_left_app. Qed.

Theorem crc32_burst33_undetected l1 a b c d e l2 :
  crc32 (l1 ++ [N.lxor a 128; N.lxor b 32; N.lxor c 131; N.lxor d 184; N.lxor e 237] ++ l2)
  = crc32 (l1 ++ [a; b; c; d; e] ++ l2).
Proof.
  unfold crc32. f_equal. rewrite !crc_update_app. f_equal.
  set (s := crc_update crc_mask l1).
  rewrite (crc_update_diff2 [a; b; c; d; e]
             [N.lxor a 128; N.lxor b 32; N.lxor c 131; N.lxor d 184; N.lxor e 237] s s eq_refl).
  rewrite N.lxor_nilpotent.
  assert (X : forall x g, N.lxor x (N.lxor x g) = g)
    by (intros x g; now rewrite <- N.lxor_assoc, N.lxor_nilpotent, N.lxor_0_l).
  assert (G : xors [a; b; c; d; e] [N.lxor a 128; N.lxor b 32; N.lxor c 131; N.lxor d 184; N.lxor e 237]
              = [128; 32; 131; 184; 237]).
  { unfold xors. cbn [combine map fst snd]. rewrite !X. reflexivity. }
  rewrite G.
  replace (crc_update 0 [128; 32; 131; 184; 237]) with 0 by (vm_compute; reflexivity).
  apply N.lxor_0_r.
Qed.
