(* Proofs.BitPackSweep: the finite sweeps over (bits 1..9, bit head 0..7, byte values) that tie
   the Go shift-and-mask code (with the leftBitMask table generated from the source) to the
   bit-string reading of the same bytes.  Proved by vm_compute, one width at a time. *)
From DV Require Import Base.Prelude Base.BitPack Gen.Consts.
Local Open Scope N_scope.

Lemma sweep_get1_true : sweep_get1 = true.
Proof. vm_compute. reflexivity. Qed.

(* the 4.7 million (k, h, b0, b1) cases of the straddling read, one width at a time *)
Lemma sweep_get2_1 : sweep_get2 1 = true. Proof. vm_compute. reflexivity. Qed.
Lemma sweep_get2_2 : sweep_get2 2 = true. Proof. vm_compute. reflexivity. Qed.
Lemma sweep_get2_3 : sweep_get2 3 = true. Proof. vm_compute. reflexivity. Qed.
Lemma sweep_get2_4 : sweep_get2 4 = true. Proof. vm_compute. reflexivity. Qed.
Lemma sweep_get2_5 : sweep_get2 5 = true. Proof. vm_compute. reflexivity. Qed.
Lemma sweep_get2_6 : sweep_get2 6 = true. Proof. vm_compute. reflexivity. Qed.
Lemma sweep_get2_7 : sweep_get2 7 = true. Proof. vm_compute. reflexivity. Qed.
Lemma sweep_get2_8 : sweep_get2 8 = true. Proof. vm_compute. reflexivity. Qed.
Lemma sweep_get2_9 : sweep_get2 9 = true. Proof. vm_compute. reflexivity. Qed.

Lemma sweep_put_true : forallb sweep_put [1;2;3;4;5;6;7;8;9] = true.
Proof. vm_compute. reflexivity. Qed.
