(* Proofs.Core: history-level facts about the versioned key-value core. *)
From DV Require Import Base.Prelude Model.Dag Model.Resolve Model.Core Proofs.Resolve.
From Coq Require Import ZifyN ZifyNat ZifyBool.
Local Open Scope N_scope.

Definition cpar (c : core) : V -> list V := parents_of (dag c).
Definition crank (c : core) (x : V) : nat := if x <? next c then N.to_nat x else 0%nat.

Record CoreInv (c : core) : Prop := {
  ci_nodes : forall n, In n (nodes c) -> n < next c;
  ci_locked : forall l, In l (locked c) -> In l (nodes c);
  ci_dag : forall n ps, In (n, ps) (dag c) ->
           In n (nodes c) /\ forall p, In p ps -> In p (locked c) /\ p < n;
}.

Lemma core_inv_init : CoreInv core_init.
Proof.
  constructor; simpl.
  - intros n [<-|[]]. reflexivity.
  - intros l [].
  - intros n ps [].
Qed.

Lemma cpar_spec c v p : CoreInv c -> In p (cpar c v) ->
  In v (nodes c) /\ In p (locked c) /\ p < v.
Proof.
  intros I. unfold cpar, parents_of. destruct (assoc v (dag c)) as [ps|] eqn:E; [|intros []].
  intro Hp. apply assoc_In in E. destruct (ci_dag c I v ps E) as [Hn Hps].
  destruct (Hps p Hp). auto.
Qed.

Lemma crank_par c : CoreInv c -> forall v p, In p (cpar c v) -> (crank c p < crank c v)%nat.
Proof.
  intros I v p Hp. destruct (cpar_spec c v p I Hp) as (Hn & Hl & Hlt).
  pose proof (ci_nodes c I v Hn) as Hv.
  unfold crank. destruct (N.ltb_spec v (next c)); [|lia]. destruct (N.ltb_spec p (next c)); lia.
Qed.

Lemma crank_fuel c x : (crank c x < fuel_of c)%nat.
Proof. unfold crank, fuel_of. destruct (N.ltb_spec x (next c)); lia. Qed.

Lemma mem_true_In x l : mem x l = true -> In x l.
Proof. apply mem_In. Qed.

Lemma core_inv_step c o : CoreInv c -> CoreInv (fst (step c o)).
Proof.
  intro I. destruct o as [k v x|k v|v a|ps a|k v]; simpl.
  - destruct (writable c v); [|exact I]. destruct I. constructor; assumption.
  - destruct (writable c v); [|exact I]. destruct I. constructor; assumption.
  - destruct (a && mem v (nodes c)) eqn:E; [|exact I]. simpl.
    apply andb_true_iff in E. destruct E as [_ Hv]. apply mem_true_In in Hv.
    destruct I as [In_ Il Id]. constructor; simpl.
    + exact In_.
    + intros l [<-|Hl]; [exact Hv|apply Il; exact Hl].
    + intros n ps Hd. destruct (Id n ps Hd) as [Hn Hps]. split; [exact Hn|].
      intros p Hp. destruct (Hps p Hp). split; [right|]; assumption.
  - destruct (a && negb match ps with [] => true | _ :: _ => false end
              && forallb (fun p => mem p (locked c)) ps) eqn:E; [|exact I]. simpl.
    apply andb_true_iff in E. destruct E as [_ Hall]. rewrite forallb_forall in Hall.
    destruct I as [In_ Il Id]. constructor; simpl.
    + intros n [<-|Hn]; [lia|]. specialize (In_ n Hn). lia.
    + intros l Hl. right. apply Il. exact Hl.
    + intros n qs [X|Hd].
      * inversion X; subst. split; [left; reflexivity|].
        intros p Hp. specialize (Hall p Hp). apply mem_true_In in Hall.
        split; [exact Hall|]. apply In_. apply Il. exact Hall.
      * destruct (Id n qs Hd) as [Hn Hps]. split; [right; exact Hn|exact Hps].
  - exact I.
Qed.

Lemma core_inv_run ops : forall c, CoreInv c -> CoreInv (run ops c).
Proof.
  induction ops as [|o ops IH]; intros c I; [exact I|].
  unfold run. cbn [fold_left]. apply IH. apply core_inv_step. exact I.
Qed.

(* every GET is the frontier read over the entries the history has written *)
Theorem get_spec c k v : CoreInv c -> read_spec (cpar c) (ent_of c k) v (get c k v).
Proof.
  intro I. unfold get. eapply (read_correct (cpar c) (crank c)).
  - apply crank_par. exact I.
  - intro x. apply crank_fuel.
  - apply crank_fuel.
Qed.

Lemma get_unique c k v r : CoreInv c -> read_spec (cpar c) (ent_of c k) v r -> get c k v = r.
Proof. intros I H. eapply read_spec_det; [apply get_spec; exact I|exact H]. Qed.

(* every proper ancestor of any node is committed *)
Lemma anc_locked c u v : CoreInv c -> anc (cpar c) u v -> u = v \/ In u (locked c).
Proof.
  intros I A. induction A as [v|u p v Hp A IH]; [left; reflexivity|].
  destruct (cpar_spec c v p I Hp) as (_ & Hl & _).
  destruct IH as [->|H]; right; assumption.
Qed.

Lemma locked_mono c o v : In v (locked c) -> In v (locked (fst (step c o))).
Proof.
  intro H. destruct o as [k w x|k w|w a|ps a|k w]; simpl.
  - destruct (writable c w); exact H.
  - destruct (writable c w); exact H.
  - destruct (a && mem w (nodes c)); [right|]; exact H.
  - destruct (a && negb match ps with [] => true | _ :: _ => false end
              && forallb (fun p => mem p (locked c)) ps); exact H.
  - exact H.
Qed.

Lemma writable_spec c v : writable c v = true -> In v (nodes c) /\ ~ In v (locked c).
Proof.
  unfold writable. rewrite andb_true_iff, negb_true_iff. intros [A B].
  split; [apply mem_In; exact A|apply mem_false; exact B].
Qed.

(* a step changes neither the parents nor the entries of a committed version's ancestry *)
Lemma step_agree c o k v : CoreInv c -> In v (locked c) ->
  forall u, anc (cpar c) u v ->
    cpar c u = cpar (fst (step c o)) u /\ ent_of c k u = ent_of (fst (step c o)) k u.
Proof.
  intros I Hv u A.
  assert (Hul : In u (locked c)) by (destruct (anc_locked c u v I A) as [->|H]; assumption).
  destruct o as [k' w x|k' w|w a|ps a|k' w]; simpl.
  - destruct (writable c w) eqn:W; [|split; reflexivity]. split; [reflexivity|].
    unfold ent_of. simpl. destruct ((k =? k') && (u =? w)) eqn:E; [|reflexivity].
    apply andb_true_iff in E. destruct E as [_ E]. apply N.eqb_eq in E. subst w.
    apply writable_spec in W. destruct W. contradiction.
  - destruct (writable c w) eqn:W; [|split; reflexivity]. split; [reflexivity|].
    unfold ent_of. simpl. destruct ((k =? k') && (u =? w)) eqn:E; [|reflexivity].
    apply andb_true_iff in E. destruct E as [_ E]. apply N.eqb_eq in E. subst w.
    apply writable_spec in W. destruct W. contradiction.
  - destruct (a && mem w (nodes c)); split; reflexivity.
  - destruct (a && negb match ps with [] => true | _ :: _ => false end
              && forallb (fun p => mem p (locked c)) ps); [|split; reflexivity].
    split; [|reflexivity]. unfold cpar, parents_of. simpl.
    assert (u < next c) by (apply (ci_nodes c I); apply (ci_locked c I); exact Hul).
    destruct (N.eqb_spec u (next c)); [lia|reflexivity].
  - split; reflexivity.
Qed.

(* C01 isolation / C02 stability, one step: nothing that is later done changes what a
   committed version reads *)
Theorem get_stable_step c o k v : CoreInv c -> In v (locked c) ->
  get (fst (step c o)) k v = get c k v.
Proof.
  intros I Hv. apply get_unique; [apply core_inv_step; exact I|].
  eapply read_spec_ext; [|apply get_spec; exact I].
  intros u A. apply (step_agree c o k v); assumption.
Qed.

Theorem get_stable c ops k v : CoreInv c -> In v (locked c) -> get (run ops c) k v = get c k v.
Proof.
  revert c. induction ops as [|o ops IH]; intros c I Hv; [reflexivity|].
  unfold run. cbn [fold_left]. fold (run ops (fst (step c o))).
  rewrite IH; [apply get_stable_step; assumption|apply core_inv_step; exact I|apply locked_mono; exact Hv].
Qed.

(* a write is what the same version reads next *)
Theorem put_get c k v x : CoreInv c -> writable c v = true ->
  get (fst (step c (OPut k v x))) k v = RFound v x.
Proof.
  intros I W. pose proof (core_inv_step c (OPut k v x) I) as I'.
  revert I'. simpl. rewrite W. simpl. intro I'.
  unfold get.
  change (RFound v x) with (match Val x with Val x0 => RFound v x0 | Tomb => RNone end).
  eapply (read_self (cpar _) (crank _)).
  - apply crank_par. exact I'.
  - intro y. apply crank_fuel.
  - apply crank_fuel.
  - unfold ent_of. simpl. rewrite !N.eqb_refl. reflexivity.
Qed.

Theorem del_get c k v : CoreInv c -> writable c v = true ->
  get (fst (step c (ODel k v))) k v = RNone.
Proof.
  intros I W. pose proof (core_inv_step c (ODel k v) I) as I'.
  revert I'. simpl. rewrite W. simpl. intro I'.
  unfold get.
  change RNone with (match Tomb with Val x => RFound v x | Tomb => RNone end).
  eapply (read_self (cpar _) (crank _)).
  - apply crank_par. exact I'.
  - intro y. apply crank_fuel.
  - apply crank_fuel.
  - unfold ent_of. simpl. rewrite !N.eqb_refl. reflexivity.
Qed.

(* a write at a version that is not v or one of its ancestors, or to another key, is invisible at v *)
Theorem write_invisible c k v k' w e : CoreInv c ->
  (k <> k' \/ ~ anc (cpar c) w v) ->
  let c' := {| next := next c; dag := dag c; nodes := nodes c; locked := locked c;
               store := ((k', w), e) :: store c |} in
  get c' k v = get c k v.
Proof.
  intros I H c'.
  assert (I' : CoreInv c') by (destruct I; constructor; assumption).
  apply get_unique; [exact I'|].
  eapply read_spec_ext; [|apply get_spec; exact I].
  intros u A. split; [reflexivity|].
  unfold ent_of, c'. simpl. destruct ((k =? k') && (u =? w)) eqn:E; [|reflexivity].
  apply andb_true_iff in E. destruct E as [E1 E2]. apply N.eqb_eq in E1, E2. subst.
  destruct H as [H|H]; [congruence|contradiction].
Qed.
