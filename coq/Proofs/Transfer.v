From DV Require Import Base.Prelude Model.Transfer.
From Coq Require Import Lia.

Lemma read_le_default d es t :
  read_le d es t = match read_le None es t with Some e => Some e | None => d end.
Proof.
  revert d. induction es as [|[v e] r IH]; intro d; cbn [read_le]; [reflexivity|].
  destruct (Nat.leb v t).
  - rewrite (IH (Some e)). destruct (read_le None r t); reflexivity.
  - apply IH.
Qed.

Lemma read_le_all_above d es t :
  (forall v e, In (v, e) es -> t < v) -> read_le d es t = d.
Proof.
  revert d. induction es as [|[v e] r IH]; intros d H; cbn [read_le]; [reflexivity|].
  assert (Hv : t < v) by (apply (H v e); left; reflexivity).
  destruct (Nat.leb_spec v t); [lia|]. apply IH. intros v' e' Hin. apply (H v' e'). right. exact Hin.
Qed.

Lemma read_le_in es t e : read_le None es t = Some e -> exists v, In (v, e) es.
Proof.
  induction es as [|[v x] r IH]; cbn [read_le]; intro H; [discriminate|].
  destruct (Nat.leb v t).
  - rewrite read_le_default in H. destruct (read_le None r t) as [y|] eqn:Hy.
    + inversion H; subst. destruct (IH eq_refl) as [v' Hv']. exists v'. right. exact Hv'.
    + inversion H; subst. exists v. left. reflexivity.
  - destruct (IH H) as [v' Hv']. exists v'. right. exact Hv'.
Qed.

Lemma ascending_gt lo l x : ascending lo l = true -> In x l -> lo < x.
Proof.
  revert lo. induction l as [|y r IH]; intros lo H Hin; [contradiction|].
  cbn [ascending] in H. apply andb_prop in H. destruct H as [H1 H2]. apply Nat.ltb_lt in H1.
  destruct Hin as [->|Hin]; [exact H1|]. specialize (IH y H2 Hin). lia.
Qed.

Lemma ascending_weaken lo lo' l : lo' <= lo -> ascending lo l = true -> ascending lo' l = true.
Proof.
  destruct l as [|x r]; [reflexivity|]. cbn [ascending]. intros Hle H. apply andb_prop in H. destruct H as [H1 H2].
  apply Nat.ltb_lt in H1. apply andb_true_intro. split; [apply Nat.ltb_lt; lia|exact H2].
Qed.

Lemma asc_es_gt lo es v e : asc_es lo es = true -> In (v, e) es -> lo < v.
Proof.
  intros H Hin. apply (ascending_gt lo (map fst es)); [exact H|]. change v with (fst (v, e)). apply in_map. exact Hin.
Qed.

Lemma asc_es_filter f lo es : asc_es lo es = true -> asc_es lo (filter f es) = true.
Proof.
  unfold asc_es. revert lo. induction es as [|[v e] r IH]; intros lo H; cbn [filter map ascending fst] in *; [reflexivity|].
  apply andb_prop in H. destruct H as [H1 H2]. destruct (f (v, e)); cbn [map ascending fst].
  - rewrite H1. cbn [andb]. apply IH. exact H2.
  - apply IH. apply Nat.ltb_lt in H1. apply (ascending_weaken v lo); [lia|exact H2].
Qed.

Lemma above_all lo es : (forall v e, In (v, e) es -> lo < v) -> above lo es = es.
Proof.
  unfold above. induction es as [|[v e] r IH]; intro H; cbn [filter fst]; [reflexivity|].
  assert (Hv : lo < v) by (apply (H v e); left; reflexivity).
  destruct (Nat.ltb_spec lo v); [|lia]. f_equal. apply IH. intros v' e' Hin. apply (H v' e'). right. exact Hin.
Qed.

(* reading an ascending lineage at t >= lo: the slot (lo, t] if it holds anything, else what was visible at lo *)
Lemma read_split P b lo t :
  asc_es b P = true -> lo <= t ->
  read_le None P t =
  match read_le None (above lo P) t with Some e => Some e | None => read_le None P lo end.
Proof.
  intros Hasc Hle. revert b Hasc. induction P as [|[v e] r IH]; intros b Hasc; [reflexivity|].
  unfold asc_es in Hasc. cbn [map ascending fst] in Hasc. apply andb_prop in Hasc. destruct Hasc as [Hb Hr].
  destruct (Nat.ltb_spec lo v) as [Hlt|Hge].
  - (* v and everything after it lie above lo *)
    assert (Hall : forall v' e', In (v', e') ((v, e) :: r) -> lo < v').
    { intros v' e' [Heq|Hin]; [inversion Heq; subst; exact Hlt|].
      assert (v < v') by (apply (asc_es_gt v r v' e'); [exact Hr|exact Hin]). lia. }
    rewrite (above_all lo _ Hall). rewrite (read_le_all_above None ((v, e) :: r) lo Hall).
    destruct (read_le None ((v, e) :: r) t); reflexivity.
  - unfold above. cbn [filter fst]. destruct (Nat.ltb_spec lo v) as [Hlt'|_]; [lia|]. fold (above lo r).
    cbn [read_le]. destruct (Nat.leb_spec v t) as [_|Hvt]; [|lia]. destruct (Nat.leb_spec v lo) as [_|Hvlo]; [|lia].
    rewrite (read_le_default (Some e) r t), (read_le_default (Some e) r lo). rewrite (IH v Hr).
    destruct (read_le None (above lo r) t); [reflexivity|]. destruct (read_le None r lo); reflexivity.
Qed.

Lemma emit_versions same onp es lo ts last v e :
  In (v, e) (emit same onp es lo ts last) -> In v ts.
Proof.
  revert lo last. induction ts as [|t r IH]; intros lo last H; cbn [emit] in H; [contradiction|].
  destruct (cand onp es lo t) as [c|].
  - destruct (match last with None => true | Some l => negb (same l c) end).
    + destruct H as [H|H]; [inversion H; subst; left; reflexivity|right; eapply IH; exact H].
    + right; eapply IH; exact H.
  - right; eapply IH; exact H.
Qed.

Lemma emit_above same onp es lo ts last t0 :
  ascending t0 ts = true -> forall v e, In (v, e) (emit same onp es lo ts last) -> t0 < v.
Proof. intros H v e Hin. apply (ascending_gt t0 ts); [exact H|]. eapply emit_versions. exact Hin. Qed.

Section Correct.
  Variable same : tent -> tent -> bool.
  Variable G : tent -> Prop.
  Hypothesis same_sound : forall l e, G l -> G e -> same l e = true -> view (Some l) = view (Some e).
  Variable onp : nat -> bool.
  Variable es : entries.
  Hypothesis Hasc : asc_es 0 es = true.
  Hypothesis HG : forall v e, In (v, e) es -> G e.

  Let P := on_path onp es.

  Lemma cand_G lo t e : cand onp es lo t = Some e -> G e.
  Proof.
    unfold cand. intro H. destruct (read_le_in _ _ _ H) as [v Hv].
    unfold above in Hv. apply filter_In in Hv. destruct Hv as [Hv _].
    unfold on_path in Hv. apply filter_In in Hv. destruct Hv as [Hv _]. exact (HG v e Hv).
  Qed.

  Lemma P_asc : asc_es 0 P = true.
  Proof. unfold P, on_path. apply asc_es_filter. exact Hasc. Qed.

  Lemma emit_correct ts : forall lo last,
    ascending lo ts = true ->
    match last with Some l => G l | None => True end ->
    view last = view (read_le None P lo) ->
    forall t, In t ts ->
      view (read_le last (emit same onp es lo ts last) t) = view (read_le None P t).
  Proof.
    induction ts as [|t0 r IH]; intros lo last Hts HGl HR t Hin; [contradiction|].
    cbn [ascending] in Hts. apply andb_prop in Hts. destruct Hts as [Hlo Hr]. apply Nat.ltb_lt in Hlo.
    assert (Hsplit := read_split P 0 lo t0 P_asc (Nat.lt_le_incl _ _ Hlo)).
    change (read_le None (above lo P) t0) with (cand onp es lo t0) in Hsplit.
    cbn [emit]. destruct (cand onp es lo t0) as [c|] eqn:Hc.
    - (* slot holds c: the source reads c at t0 *)
      assert (Gc : G c) by (eapply cand_G; exact Hc).
      destruct (match last with None => true | Some l => negb (same l c) end) eqn:Hd.
      + destruct Hin as [->|Hin].
        * cbn [read_le]. rewrite Nat.leb_refl.
          rewrite (read_le_all_above (Some c) _ t (emit_above same onp es t r (Some c) t Hr)).
          rewrite Hsplit. reflexivity.
        * assert (Ht : t0 < t) by (apply (ascending_gt t0 r); assumption).
          cbn [read_le]. destruct (Nat.leb_spec t0 t) as [_|Hbad]; [|lia].
          apply (IH t0 (Some c)); [exact Hr|exact Gc|rewrite Hsplit; reflexivity|exact Hin].
      + (* repeat of the entry written last: not written *)
        destruct last as [l|]; [|discriminate]. apply Bool.negb_false_iff in Hd.
        assert (Hv : view (Some l) = view (Some c)) by (apply same_sound; assumption).
        destruct Hin as [->|Hin].
        * rewrite (read_le_all_above (Some l) _ t (emit_above same onp es t r (Some l) t Hr)).
          rewrite Hsplit. exact Hv.
        * apply (IH t0 (Some l)); [exact Hr|exact HGl|rewrite Hsplit; exact Hv|exact Hin].
    - (* empty slot: the source still reads what it read at lo *)
      destruct Hin as [->|Hin].
      + rewrite (read_le_all_above last _ t (emit_above same onp es t r last t Hr)).
        rewrite Hsplit. exact HR.
      + apply (IH t0 last); [exact Hr|exact HGl|rewrite Hsplit; exact HR|exact Hin].
  Qed.

  Lemma transfer_correct ts t :
    ascending 0 ts = true -> In t ts ->
    dst_read (transfer same onp es ts) t = src_read onp es t.
  Proof.
    intros Hts Hin. unfold dst_read, src_read, transfer.
    apply (emit_correct ts 0 None Hts I); [|exact Hin].
    rewrite (read_le_all_above None P 0); [reflexivity|].
    intros v e Hv. apply (asc_es_gt 0 P v e P_asc Hv).
  Qed.
End Correct.

Lemma same_entry_sound l e : same_entry l e = true -> view (Some l) = view (Some e).
Proof.
  unfold same_entry. intro H. apply andb_prop in H. destruct H as [H1 H2].
  apply bytes_eqb_eq in H2. destruct l, e; cbn in *; try discriminate; congruence.
Qed.

Theorem transfer_reads_equal onp es ts t :
  asc_es 0 es = true -> ascending 0 ts = true -> In t ts ->
  dst_read (transfer same_entry onp es ts) t = src_read onp es t.
Proof.
  intros Hasc Hts Hin.
  apply (transfer_correct same_entry (fun _ => True)); auto.
  intros l e _ _. apply same_entry_sound.
Qed.

Definition nonempty_ent (e : tent) : Prop := match e with TVal [] => False | _ => True end.

Lemma same_bytes_sound l e : nonempty_ent l -> nonempty_ent e -> same_bytes l e = true -> view (Some l) = view (Some e).
Proof.
  unfold same_bytes. intros Hl He H. apply bytes_eqb_eq in H.
  destruct l as [[|x a]|], e as [[|y b]|]; cbn in *; try contradiction; try discriminate; congruence.
Qed.

(* the rule of the code before the repair is correct only when no stored value is empty *)
Theorem transfer_old_reads_equal_partial onp es ts t :
  asc_es 0 es = true -> nonempty_values es = true -> ascending 0 ts = true -> In t ts ->
  dst_read (transfer same_bytes onp es ts) t = src_read onp es t.
Proof.
  intros Hasc Hne Hts Hin.
  apply (transfer_correct same_bytes nonempty_ent); auto.
  - intros l e. apply same_bytes_sound.
  - intros v e Hv. unfold nonempty_values in Hne. rewrite forallb_forall in Hne. specialize (Hne (v, e) Hv).
    cbn [snd] in Hne. destruct e as [[|x a]|]; cbn; auto. discriminate.
Qed.

Theorem transfer_old_refuted :
  exists es ts t, asc_es 0 es = true /\ ascending 0 ts = true /\ In t ts /\
    dst_read (transfer same_bytes (fun _ => true) es ts) t <> src_read (fun _ => true) es t.
Proof.
  exists [(1, TVal []); (2, TTomb)], [1; 2], 2. repeat split; try reflexivity.
  - right; left; reflexivity.
  - vm_compute. discriminate.
Qed.

Theorem transfer_only_transmitted same onp es ts v e :
  In (v, e) (transfer same onp es ts) -> In v ts.
Proof. apply emit_versions. Qed.

Lemma on_path_idem onp es : on_path onp (on_path onp es) = on_path onp es.
Proof.
  unfold on_path. induction es as [|[v e] es' IHe]; cbn [filter fst]; [reflexivity|].
  destruct (onp v) eqn:Hv; cbn [filter fst]; [rewrite Hv; f_equal; exact IHe|exact IHe].
Qed.

Lemma emit_off_path same onp es ts : forall lo last,
  emit same onp es lo ts last = emit same onp (on_path onp es) lo ts last.
Proof.
  induction ts as [|t r IH]; intros lo last; cbn [emit]; [reflexivity|].
  assert (Hc : cand onp (on_path onp es) lo t = cand onp es lo t).
  { unfold cand. rewrite on_path_idem. reflexivity. }
  rewrite Hc. destruct (cand onp es lo t) as [c|]; [|apply IH].
  destruct (match last with None => true | Some l => negb (same l c) end); [f_equal|]; apply IH.
Qed.

Theorem transfer_ignores_off_path same onp es ts :
  transfer same onp es ts = transfer same onp (on_path onp es) ts.
Proof. apply emit_off_path. Qed.
