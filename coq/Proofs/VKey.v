(* Proofs.VKey: a store call that is one transaction is crash-atomic; the split Delete is not. *)
From DV Require Import Base.Prelude Model.Persist Model.VKey Gen.Locks.
From Coq Require Import String.
Import List ListNotations.
Local Open Scope N_scope.

Lemma one_txn_crash_atomic : forall s (call : list txn) k,
  length call = 1%nat -> crash_state s call k = s \/ crash_state s call k = apply_txns s call.
Proof.
  intros s call k H. destruct call as [|t [|t' rest]]; simpl in H; try discriminate.
  destruct k as [|k]; [left; reflexivity|right].
  unfold crash_state. simpl. destruct k; reflexivity.
Qed.

Lemma put_crash_atomic : forall s ver x k path,
  vread (crash_state s (put_call ver x) k) path = vread s path \/
  vread (crash_state s (put_call ver x) k) path = vread (apply_txns s (put_call ver x)) path.
Proof.
  intros. destruct (one_txn_crash_atomic s (put_call ver x) k eq_refl) as [E|E]; rewrite E; auto.
Qed.

Lemma delete_crash_atomic : forall s ver k path,
  vread (crash_state s (delete_call ver) k) path = vread s path \/
  vread (crash_state s (delete_call ver) k) path = vread (apply_txns s (delete_call ver)) path.
Proof.
  intros. destruct (one_txn_crash_atomic s (delete_call ver) k eq_refl) as [E|E]; rewrite E; auto.
Qed.

(* version 2 (child of 1) holds its own value over the ancestor's: between the two transactions of
   the split Delete the read shows the ANCESTOR's value -- neither the value before nor "absent" *)
Definition w_vkey : vkey := {| vk_val := [(1, 10); (2, 20)]; vk_tomb := [] |}.

Lemma split_delete_refuted :
  vread w_vkey [2; 1] = Some 20 /\
  vread (apply_txns w_vkey (delete_call_split 2)) [2; 1] = None /\
  vread (apply_txns w_vkey (delete_call 2)) [2; 1] = None /\
  vread (crash_state w_vkey (delete_call_split 2) 1) [2; 1] = Some 10.
Proof. vm_compute. repeat split. Qed.

(* the source: BadgerDB.Put and BadgerDB.Delete are in the table and issue one read-write transaction *)
Lemma generated_one_write_txn :
  one_write_txn badger_txns = true /\
  lists_call name_put badger_txns = true /\ lists_call name_delete badger_txns = true.
Proof. vm_compute. repeat split. Qed.
