(* Proofs.DownresLocks: the lock-shape facts generated from datatype/labelmap (Gen/DownresLocks.v):
   every function that runs downresMut.Execute() holds Data.voxelMu over its whole body. *)
From Coq Require Import List Bool.
From DV Require Import Gen.DownresLocks.
Import ListNotations.

Lemma updates_serialised :
  g_downres_execute_locked <> [] /\ forallb (fun b => b) g_downres_execute_locked = true.
Proof. split; [discriminate | reflexivity]. Qed.
