(* Proofs.Refine: the byte-level store of a data instance refines the abstract versioned core. *)
From DV Require Import Base.Prelude Base.Int Base.Lex Gen.Consts
     Model.Dag Model.Resolve Model.Core Model.Copy Model.Keys Model.KV Model.KVRange Model.Refine
     Proofs.Resolve Proofs.Core Proofs.Copy Proofs.Keys Proofs.KV Proofs.KVRange.
From Coq Require Import Sorting.Sorted.
From Coq Require Import ZifyN ZifyNat ZifyBool.
Local Open Scope N_scope.

(* ---- reading after writing, on the sorted store ---- *)
Lemma kv_get_set_same k v s : kv_get k (kv_set k v s) = Some v.
Proof.
  induction s as [|[a va] r IH]; simpl.
  - now rewrite lex_compare_refl.
  - destruct (lex_compare k a) eqn:E; simpl.
    + now rewrite lex_compare_refl.
    + now rewrite lex_compare_refl.
    + now rewrite E.
Qed.

Lemma kv_get_set_other k v k' s : k' <> k -> kv_get k' (kv_set k v s) = kv_get k' s.
Proof.
  intro NE. induction s as [|[a va] r IH]; simpl.
  - destruct (lex_compare k' k) eqn:E; try reflexivity. apply lex_compare_eq in E. contradiction.
  - destruct (lex_compare k a) eqn:E; simpl.
    + apply lex_compare_eq in E. subst a.
      destruct (lex_compare k' k) eqn:E2; try reflexivity. apply lex_compare_eq in E2. contradiction.
    + destruct (lex_compare k' k) eqn:E2.
      * apply lex_compare_eq in E2. contradiction.
      * now rewrite (lex_compare_lt_trans _ _ _ E2 E).
      * reflexivity.
    + destruct (lex_compare k' a); try reflexivity. exact IH.
Qed.

Lemma kv_get_del_same k s : sorted s -> kv_get k (kv_del k s) = None.
Proof.
  intro Hs. rewrite kv_get_find by now apply kv_del_sorted.
  rewrite kv_del_filter by assumption.
  destruct (find (fun e : bytes * bytes => bytes_eqb (fst e) k) (filter (fun e => negb (bytes_eqb (fst e) k)) s)) as [e|] eqn:F; [|reflexivity]. exfalso.
  apply find_some in F as [F1 F2]. apply filter_In in F1 as [_ F1]. rewrite F2 in F1. discriminate.
Qed.

Lemma kv_get_del_other k k' s : sorted s -> k' <> k -> kv_get k' (kv_del k s) = kv_get k' s.
Proof.
  intros Hs NE. rewrite !kv_get_find by (auto; now apply kv_del_sorted).
  rewrite kv_del_filter by assumption. f_equal. apply find_filter.
  intros x Hx. apply bytes_eqb_eq in Hx. apply negb_true_iff.
  destruct (bytes_eqb (fst x) k) eqn:B; [|reflexivity]. apply bytes_eqb_eq in B. congruence.
Qed.

Lemma kv_get_in k v s : sorted s -> kv_get k s = Some v -> In (k, v) s.
Proof.
  intros Hs H. rewrite kv_get_find in H by assumption.
  destruct (find (fun e : bytes * bytes => bytes_eqb (fst e) k) s) as [[k' v']|] eqn:F; [|discriminate]. simpl in H. inversion H; subst.
  apply find_some in F as [F1 F2]. apply bytes_eqb_eq in F2. simpl in F2. now subst.
Qed.

Lemma in_kv_get k v s : sorted s -> In (k, v) s -> kv_get k s = Some v.
Proof.
  induction 1 as [|[a va] r Hr IH Ha]; intro H0; [contradiction|]. destruct H0 as [E|H]; simpl.
  - inversion E; subst. now rewrite lex_compare_refl.
  - rewrite Forall_forall in Ha. specialize (Ha _ H). unfold key_lt, lex_lt in Ha. simpl in Ha.
    apply lex_gt_lt in Ha. rewrite Ha. now apply IH.
Qed.

Section Sim.
Variable i : N.
Variable enc : N -> bytes.
Variable venc : N -> bytes.
Hypothesis Hi : id_ok i.
Hypothesis enc_inj : forall k1 k2, enc k1 = enc k2 -> k1 = k2.

Notation dk := (dkey i enc).
Notation tk := (tkey i enc).
Notation Ref := (Refines i enc venc).

Lemma id0 : id_ok 0. Proof. unfold id_ok. reflexivity. Qed.

Lemma dkey_inj k v k' v' : id_ok v -> id_ok v' -> dk k v = dk k' v' -> k = k' /\ v = v'.
Proof.
  intros Hv Hv' E. unfold dkey, construct_data_key in E.
  destruct (data_key_inj _ _ _ _ _ _ _ _ _ _ Hi Hv id0 Hi Hv' id0 E) as (_ & E1 & E2 & _).
  split; [now apply enc_inj|exact E2].
Qed.
Lemma tkey_inj k v k' v' : id_ok v -> id_ok v' -> tk k v = tk k' v' -> k = k' /\ v = v'.
Proof.
  intros Hv Hv' E. unfold tkey, tombstone_key in E.
  destruct (data_key_inj _ _ _ _ _ _ _ _ _ _ Hi Hv id0 Hi Hv' id0 E) as (_ & E1 & E2 & _).
  split; [now apply enc_inj|exact E2].
Qed.
Lemma dkey_tkey k v k' v' : id_ok v -> id_ok v' -> dk k v <> tk k' v'.
Proof.
  intros Hv Hv' E. unfold dkey, tkey, construct_data_key, tombstone_key in E.
  destruct (data_key_inj _ _ _ _ _ _ _ _ _ _ Hi Hv id0 Hi Hv' id0 E) as (_ & _ & _ & _ & E5). discriminate.
Qed.

Lemma dkey_instance k v : of_instance i (dk k v) = true.
Proof. unfold dkey, construct_data_key. apply prefixb_is_prefix. rewrite data_key_split. now eexists. Qed.
Lemma tkey_instance k v : of_instance i (tk k v) = true.
Proof. unfold tkey, tombstone_key. apply prefixb_is_prefix. rewrite data_key_split. now eexists. Qed.

(* (2) the empty store refines the initial core *)
Lemma refines_init : Ref core_init [].
Proof.
  constructor.
  - constructor.
  - intros k v _. simpl. auto.
  - intros k v H. exfalso. apply H. reflexivity.
  - intros e [].
Qed.

(* the abstract store after a write *)
Definition with_entry (c : core) (k : N) (v : V) (e : entry) : core :=
  {| next := next c; dag := dag c; nodes := nodes c; locked := locked c;
     Core.store := ((k, v), e) :: Core.store c |}.

Lemma ent_of_with_entry c k v e k' v' :
  ent_of (with_entry c k v e) k' v' = if (k' =? k) && (v' =? v) then Some e else ent_of c k' v'.
Proof. reflexivity. Qed.

(* (3) Put under (i, v) refines OPut *)
Lemma refines_put c s k v x : id_ok v -> Ref c s ->
  Ref (with_entry c k v (Val x)) (put (rcx i v) (enc k) (venc x) s).
Proof.
  intros Hv [Rs Re Rv Rk]. unfold put, rcx. cbn [cx_instance cx_version cx_client].
  fold (dk k v). fold (tk k v).
  assert (S1 : sorted (kv_set (dk k v) (venc x) s)) by now apply kv_set_sorted.
  constructor.
  - apply kv_del_sorted. exact S1.
  - intros k' v' Hv'. rewrite ent_of_with_entry.
    destruct ((k' =? k) && (v' =? v)) eqn:B.
    + apply andb_true_iff in B as [B1 B2]. apply N.eqb_eq in B1, B2. subst k' v'. simpl. split.
      * rewrite kv_get_del_other by (auto; now apply dkey_tkey). apply kv_get_set_same.
      * now apply kv_get_del_same.
    + assert (NE : k' <> k \/ v' <> v).
      { apply andb_false_iff in B as [B|B]; apply N.eqb_neq in B; auto. }
      assert (D : dk k' v' <> dk k v) by (intro E; apply dkey_inj in E; auto; destruct E; destruct NE; contradiction).
      assert (T : tk k' v' <> tk k v) by (intro E; apply tkey_inj in E; auto; destruct E; destruct NE; contradiction).
      rewrite kv_get_del_other by (auto; now apply dkey_tkey).
      rewrite kv_get_set_other by exact D.
      rewrite kv_get_del_other by auto.
      rewrite kv_get_set_other by (intro E; symmetry in E; revert E; now apply dkey_tkey).
      now apply Re.
  - intros k' v'. rewrite ent_of_with_entry.
    destruct ((k' =? k) && (v' =? v)) eqn:B; [|apply Rv].
    apply andb_true_iff in B as [_ B2]. apply N.eqb_eq in B2. now subst.
  - intros e He O. apply kv_del_subset in He. apply kv_set_in in He as [->|He]; [|now apply Rk].
    exists k, v. split; [exact Hv|now left].
Qed.

(* Delete under (i, v) refines ODel *)
Lemma refines_delete c s k v : id_ok v -> Ref c s ->
  Ref (with_entry c k v Tomb) (delete (rcx i v) (enc k) s).
Proof.
  intros Hv [Rs Re Rv Rk]. unfold delete, rcx. cbn [cx_instance cx_version cx_client].
  fold (dk k v). fold (tk k v).
  assert (S1 : sorted (kv_del (dk k v) s)) by now apply kv_del_sorted.
  constructor.
  - apply kv_set_sorted. exact S1.
  - intros k' v' Hv'. rewrite ent_of_with_entry.
    destruct ((k' =? k) && (v' =? v)) eqn:B.
    + apply andb_true_iff in B as [B1 B2]. apply N.eqb_eq in B1, B2. subst k' v'. simpl. split.
      * rewrite kv_get_set_other by now apply dkey_tkey. now apply kv_get_del_same.
      * apply kv_get_set_same.
    + assert (NE : k' <> k \/ v' <> v).
      { apply andb_false_iff in B as [B|B]; apply N.eqb_neq in B; auto. }
      assert (D : dk k' v' <> dk k v) by (intro E; apply dkey_inj in E; auto; destruct E; destruct NE; contradiction).
      assert (T : tk k' v' <> tk k v) by (intro E; apply tkey_inj in E; auto; destruct E; destruct NE; contradiction).
      rewrite kv_get_set_other by now apply dkey_tkey.
      rewrite kv_get_del_other by auto.
      rewrite kv_get_set_other by exact T.
      rewrite kv_get_del_other by (auto; intro E; symmetry in E; revert E; now apply dkey_tkey).
      now apply Re.
  - intros k' v'. rewrite ent_of_with_entry.
    destruct ((k' =? k) && (v' =? v)) eqn:B; [|apply Rv].
    apply andb_true_iff in B as [_ B2]. apply N.eqb_eq in B2. now subst.
  - intros e He O. apply kv_set_in in He as [->|He].
    + exists k, v. split; [exact Hv|now right].
    + apply kv_del_subset in He. now apply Rk.
Qed.

(* a version the gate lets through is a node, hence below the version counter *)
Lemma writable_id_ok c v : CoreInv c -> next c <= 2 ^ 32 -> writable c v = true -> id_ok v.
Proof.
  intros I B W. apply writable_spec in W as [W _]. pose proof (ci_nodes c I v W). unfold id_ok. change (2 ^ 32) with 4294967296 in *. lia.
Qed.

(* one API-level step: data writes are simulated, DAG operations and reads leave the bytes alone *)
Lemma refines_step c s o : CoreInv c -> next c <= 2 ^ 32 -> Ref c s ->
  Ref (fst (step c o)) (bstep i enc venc c o s).
Proof.
  intros I B R. destruct o as [k v x|k v|v a|ps a|k v]; cbn [step bstep].
  - destruct (writable c v) eqn:W; [|exact R]. cbn [fst].
    apply (refines_put c s k v x); [now apply (writable_id_ok c)|exact R].
  - destruct (writable c v) eqn:W; [|exact R]. cbn [fst].
    apply (refines_delete c s k v); [now apply (writable_id_ok c)|exact R].
  - destruct (a && mem v (nodes c)); [|exact R]. destruct R as [R1 R2 R3 R4]. constructor; assumption.
  - destruct (a && negb match ps with [] => true | _ :: _ => false end && forallb (fun p => mem p (locked c)) ps);
      [|exact R]. destruct R as [R1 R2 R3 R4]. constructor; assumption.
  - exact R.
Qed.

Lemma next_mono_step c o : next c <= next (fst (step c o)).
Proof.
  destruct o as [k v x|k v|v a|ps a|k v]; simpl.
  - destruct (writable c v); simpl; lia.
  - destruct (writable c v); simpl; lia.
  - destruct (a && mem v (nodes c)); simpl; lia.
  - destruct (a && negb match ps with [] => true | _ :: _ => false end && forallb (fun p => mem p (locked c)) ps); simpl; lia.
  - lia.
Qed.

Lemma next_mono_run ops : forall c, next c <= next (run ops c).
Proof.
  induction ops as [|o ops IH]; intro c; [simpl; lia|].
  unfold run. cbn [fold_left]. fold (run ops (fst (step c o))).
  pose proof (next_mono_step c o). pose proof (IH (fst (step c o))). lia.
Qed.

Lemma brun_fst ops : forall c s, fst (brun i enc venc ops c s) = run ops c.
Proof.
  induction ops as [|o ops IH]; intros c s; [reflexivity|].
  unfold brun, run. cbn [fold_left fst snd]. apply IH.
Qed.

(* all operation sequences: as long as the version counter stays within 32 bits *)
Lemma refines_run ops : forall c s, CoreInv c -> next (run ops c) <= 2 ^ 32 -> Ref c s ->
  Ref (run ops c) (snd (brun i enc venc ops c s)).
Proof.
  induction ops as [|o ops IH]; intros c s I B R; [exact R|].
  unfold brun, run in *. cbn [fold_left fst snd] in *.
  apply IH.
  - now apply core_inv_step.
  - exact B.
  - apply refines_step; [exact I| |exact R].
    pose proof (next_mono_run ops (fst (step c o))) as H. unfold run in H.
    pose proof (next_mono_step c o) as H0. eapply N.le_trans; [exact H0|]. eapply N.le_trans; [exact H|exact B].
Qed.

End Sim.
