(* Proofs.Refine: the byte-level store of a data instance refines the abstract versioned core. *)
From DV Require Import Base.Prelude Base.Int Base.Lex Base.KeyShape Gen.Consts Gen.KeyClasses
     Model.Dag Model.Resolve Model.Core Model.Copy Model.Keys Model.KV Model.KVRange Model.Refine
     Proofs.Resolve Proofs.Core Proofs.Copy Proofs.Keys Proofs.KV Proofs.KVRange.
From Coq Require Import Sorting.Sorted.
From Coq Require Import ZifyN ZifyNat ZifyBool.
Local Open Scope N_scope.

(* ---- reading after writing, on the sorted store ---- *)
Lemma kv_get_set_same k v s : kv_get k (kv_set k v s) = Some v.
Proof.
  induction s as [|[a va] r IH]; simpl.
  - now rewrite lex_compare_refl.
  - destruct (lex_compare k a) eqn:E; simpl.
    + now rewrite lex_compare_refl.
    + now rewrite lex_compare_refl.
    + now rewrite E.
Qed.

Lemma kv_get_set_other k v k' s : k' <> k -> kv_get k' (kv_set k v s) = kv_get k' s.
Proof.
  intro NE. induction s as [|[a va] r IH]; simpl.
  - destruct (lex_compare k' k) eqn:E; try reflexivity. apply lex_compare_eq in E. contradiction.
  - destruct (lex_compare k a) eqn:E; simpl.
    + apply lex_compare_eq in E. subst a.
      destruct (lex_compare k' k) eqn:E2; try reflexivity. apply lex_compare_eq in E2. contradiction.
    + destruct (lex_compare k' k) eqn:E2.
      * apply lex_compare_eq in E2. contradiction.
      * now rewrite (lex_compare_lt_trans _ _ _ E2 E).
      * reflexivity.
    + destruct (lex_compare k' a); try reflexivity. exact IH.
Qed.

Lemma kv_get_del_same k s : sorted s -> kv_get k (kv_del k s) = None.
Proof.
  intro Hs. rewrite kv_get_find by now apply kv_del_sorted.
  rewrite kv_del_filter by assumption.
  destruct (find (fun e : bytes * bytes => bytes_eqb (fst e) k) (filter (fun e => negb (bytes_eqb (fst e) k)) s)) as [e|] eqn:F; [|reflexivity]. exfalso.
  apply find_some in F as [F1 F2]. apply filter_In in F1 as [_ F1]. rewrite F2 in F1. discriminate.
Qed.

Lemma kv_get_del_other k k' s : sorted s -> k' <> k -> kv_get k' (kv_del k s) = kv_get k' s.
Proof.
  intros Hs NE. rewrite !kv_get_find by (auto; now apply kv_del_sorted).
  rewrite kv_del_filter by assumption. f_equal. apply find_filter.
  intros x Hx. apply bytes_eqb_eq in Hx. apply negb_true_iff.
  destruct (bytes_eqb (fst x) k) eqn:B; [|reflexivity]. apply bytes_eqb_eq in B. congruence.
Qed.

Lemma kv_get_in k v s : sorted s -> kv_get k s = Some v -> In (k, v) s.
Proof.
  intros Hs H. rewrite kv_get_find in H by assumption.
  destruct (find (fun e : bytes * bytes => bytes_eqb (fst e) k) s) as [[k' v']|] eqn:F; [|discriminate]. simpl in H. inversion H; subst.
  apply find_some in F as [F1 F2]. apply bytes_eqb_eq in F2. simpl in F2. now subst.
Qed.

Lemma in_kv_get k v s : sorted s -> In (k, v) s -> kv_get k s = Some v.
Proof.
  induction 1 as [|[a va] r Hr IH Ha]; intro H0; [contradiction|]. destruct H0 as [E|H]; simpl.
  - inversion E; subst. now rewrite lex_compare_refl.
  - rewrite Forall_forall in Ha. specialize (Ha _ H). unfold key_lt, lex_lt in Ha. simpl in Ha.
    apply lex_gt_lt in Ha. rewrite Ha. now apply IH.
Qed.

Section Sim.
Variable i : N.
Variable enc : N -> bytes.
Variable venc : N -> bytes.
Hypothesis Hi : id_ok i.
Hypothesis enc_inj : forall k1 k2, enc k1 = enc k2 -> k1 = k2.

Notation dk := (dkey i enc).
Notation tk := (tkey i enc).
Notation Ref := (Refines i enc venc).

Lemma id0 : id_ok 0. Proof. unfold id_ok. reflexivity. Qed.

Lemma dkey_inj k v k' v' : id_ok v -> id_ok v' -> dk k v = dk k' v' -> k = k' /\ v = v'.
Proof.
  intros Hv Hv' E. unfold dkey, construct_data_key in E.
  destruct (data_key_inj _ _ _ _ _ _ _ _ _ _ Hi Hv id0 Hi Hv' id0 E) as (_ & E1 & E2 & _).
  split; [now apply enc_inj|exact E2].
Qed.
Lemma tkey_inj k v k' v' : id_ok v -> id_ok v' -> tk k v = tk k' v' -> k = k' /\ v = v'.
Proof.
  intros Hv Hv' E. unfold tkey, tombstone_key in E.
  destruct (data_key_inj _ _ _ _ _ _ _ _ _ _ Hi Hv id0 Hi Hv' id0 E) as (_ & E1 & E2 & _).
  split; [now apply enc_inj|exact E2].
Qed.
Lemma dkey_tkey k v k' v' : id_ok v -> id_ok v' -> dk k v <> tk k' v'.
Proof.
  intros Hv Hv' E. unfold dkey, tkey, construct_data_key, tombstone_key in E.
  destruct (data_key_inj _ _ _ _ _ _ _ _ _ _ Hi Hv id0 Hi Hv' id0 E) as (_ & _ & _ & _ & E5). discriminate.
Qed.

Lemma dkey_instance k v : of_instance i (dk k v) = true.
Proof. unfold dkey, construct_data_key. apply prefixb_is_prefix. rewrite data_key_split. now eexists. Qed.
Lemma tkey_instance k v : of_instance i (tk k v) = true.
Proof. unfold tkey, tombstone_key. apply prefixb_is_prefix. rewrite data_key_split. now eexists. Qed.

(* (2) the empty store refines the initial core *)
Lemma refines_init : Ref core_init [].
Proof.
  constructor.
  - constructor.
  - intros k v _. simpl. auto.
  - intros k v H. exfalso. apply H. reflexivity.
  - intros e [].
Qed.

(* the abstract store after a write *)
Definition with_entry (c : core) (k : N) (v : V) (e : entry) : core :=
  {| next := next c; dag := dag c; nodes := nodes c; locked := locked c;
     Core.store := ((k, v), e) :: Core.store c |}.

Lemma ent_of_with_entry c k v e k' v' :
  ent_of (with_entry c k v e) k' v' = if (k' =? k) && (v' =? v) then Some e else ent_of c k' v'.
Proof. reflexivity. Qed.

(* (3) Put under (i, v) refines OPut *)
Lemma refines_put c s k v x : id_ok v -> Ref c s ->
  Ref (with_entry c k v (Val x)) (put (rcx i v) (enc k) (venc x) s).
Proof.
  intros Hv [Rs Re Rv Rk]. unfold put, rcx. cbn [cx_instance cx_version cx_client].
  fold (dk k v). fold (tk k v).
  assert (S1 : sorted (kv_set (dk k v) (venc x) s)) by now apply kv_set_sorted.
  constructor.
  - apply kv_del_sorted. exact S1.
  - intros k' v' Hv'. rewrite ent_of_with_entry.
    destruct ((k' =? k) && (v' =? v)) eqn:B.
    + apply andb_true_iff in B as [B1 B2]. apply N.eqb_eq in B1, B2. subst k' v'. simpl. split.
      * rewrite kv_get_del_other by (auto; now apply dkey_tkey). apply kv_get_set_same.
      * now apply kv_get_del_same.
    + assert (NE : k' <> k \/ v' <> v).
      { apply andb_false_iff in B as [B|B]; apply N.eqb_neq in B; auto. }
      assert (D : dk k' v' <> dk k v) by (intro E; apply dkey_inj in E; auto; destruct E; destruct NE; contradiction).
      assert (T : tk k' v' <> tk k v) by (intro E; apply tkey_inj in E; auto; destruct E; destruct NE; contradiction).
      rewrite kv_get_del_other by (auto; now apply dkey_tkey).
      rewrite kv_get_set_other by exact D.
      rewrite kv_get_del_other by auto.
      rewrite kv_get_set_other by (intro E; symmetry in E; revert E; now apply dkey_tkey).
      now apply Re.
  - intros k' v'. rewrite ent_of_with_entry.
    destruct ((k' =? k) && (v' =? v)) eqn:B; [|apply Rv].
    apply andb_true_iff in B as [_ B2]. apply N.eqb_eq in B2. now subst.
  - intros e He O. apply kv_del_subset in He. apply kv_set_in in He as [->|He]; [|now apply Rk].
    exists k, v. split; [exact Hv|now left].
Qed.

(* Delete under (i, v) refines ODel *)
Lemma refines_delete c s k v : id_ok v -> Ref c s ->
  Ref (with_entry c k v Tomb) (delete (rcx i v) (enc k) s).
Proof.
  intros Hv [Rs Re Rv Rk]. unfold delete, rcx. cbn [cx_instance cx_version cx_client].
  fold (dk k v). fold (tk k v).
  assert (S1 : sorted (kv_del (dk k v) s)) by now apply kv_del_sorted.
  constructor.
  - apply kv_set_sorted. exact S1.
  - intros k' v' Hv'. rewrite ent_of_with_entry.
    destruct ((k' =? k) && (v' =? v)) eqn:B.
    + apply andb_true_iff in B as [B1 B2]. apply N.eqb_eq in B1, B2. subst k' v'. simpl. split.
      * rewrite kv_get_set_other by now apply dkey_tkey. now apply kv_get_del_same.
      * apply kv_get_set_same.
    + assert (NE : k' <> k \/ v' <> v).
      { apply andb_false_iff in B as [B|B]; apply N.eqb_neq in B; auto. }
      assert (D : dk k' v' <> dk k v) by (intro E; apply dkey_inj in E; auto; destruct E; destruct NE; contradiction).
      assert (T : tk k' v' <> tk k v) by (intro E; apply tkey_inj in E; auto; destruct E; destruct NE; contradiction).
      rewrite kv_get_set_other by now apply dkey_tkey.
      rewrite kv_get_del_other by auto.
      rewrite kv_get_set_other by exact T.
      rewrite kv_get_del_other by (auto; intro E; symmetry in E; revert E; now apply dkey_tkey).
      now apply Re.
  - intros k' v'. rewrite ent_of_with_entry.
    destruct ((k' =? k) && (v' =? v)) eqn:B; [|apply Rv].
    apply andb_true_iff in B as [_ B2]. apply N.eqb_eq in B2. now subst.
  - intros e He O. apply kv_set_in in He as [->|He].
    + exists k, v. split; [exact Hv|now right].
    + apply kv_del_subset in He. now apply Rk.
Qed.

(* a version the gate lets through is a node, hence below the version counter *)
Lemma writable_id_ok c v : CoreInv c -> next c <= 2 ^ 32 -> writable c v = true -> id_ok v.
Proof.
  intros I B W. apply writable_spec in W as [W _]. pose proof (ci_nodes c I v W). unfold id_ok. change (2 ^ 32) with 4294967296 in *. lia.
Qed.

(* one API-level step: data writes are simulated, DAG operations and reads leave the bytes alone *)
Lemma refines_step c s o : CoreInv c -> next c <= 2 ^ 32 -> Ref c s ->
  Ref (fst (step c o)) (bstep i enc venc c o s).
Proof.
  intros I B R. destruct o as [k v x|k v|v a|ps a|k v]; cbn [step bstep].
  - destruct (writable c v) eqn:W; [|exact R]. cbn [fst].
    apply (refines_put c s k v x); [now apply (writable_id_ok c)|exact R].
  - destruct (writable c v) eqn:W; [|exact R]. cbn [fst].
    apply (refines_delete c s k v); [now apply (writable_id_ok c)|exact R].
  - destruct (a && mem v (nodes c)); [|exact R]. destruct R as [R1 R2 R3 R4]. constructor; assumption.
  - destruct (a && negb match ps with [] => true | _ :: _ => false end && forallb (fun p => mem p (locked c)) ps);
      [|exact R]. destruct R as [R1 R2 R3 R4]. constructor; assumption.
  - exact R.
Qed.

Lemma next_mono_step c o : next c <= next (fst (step c o)).
Proof.
  destruct o as [k v x|k v|v a|ps a|k v]; simpl.
  - destruct (writable c v); simpl; lia.
  - destruct (writable c v); simpl; lia.
  - destruct (a && mem v (nodes c)); simpl; lia.
  - destruct (a && negb match ps with [] => true | _ :: _ => false end && forallb (fun p => mem p (locked c)) ps); simpl; lia.
  - lia.
Qed.

Lemma next_mono_run ops : forall c, next c <= next (run ops c).
Proof.
  induction ops as [|o ops IH]; intro c; [simpl; lia|].
  unfold run. cbn [fold_left]. fold (run ops (fst (step c o))).
  pose proof (next_mono_step c o). pose proof (IH (fst (step c o))). lia.
Qed.

Lemma brun_fst ops : forall c s, fst (brun i enc venc ops c s) = run ops c.
Proof.
  induction ops as [|o ops IH]; intros c s; [reflexivity|].
  unfold brun, run. cbn [fold_left fst snd]. apply IH.
Qed.

(* all operation sequences: as long as the version counter stays within 32 bits *)
Lemma refines_run ops : forall c s, CoreInv c -> next (run ops c) <= 2 ^ 32 -> Ref c s ->
  Ref (run ops c) (snd (brun i enc venc ops c s)).
Proof.
  induction ops as [|o ops IH]; intros c s I B R; [exact R|].
  unfold brun, run in *. cbn [fold_left fst snd] in *.
  apply IH.
  - now apply core_inv_step.
  - exact B.
  - apply refines_step; [exact I| |exact R].
    pose proof (next_mono_run ops (fst (step c o))) as H. unfold run in H.
    pose proof (next_mono_step c o) as H0. eapply N.le_trans; [exact H0|]. eapply N.le_trans; [exact H|exact B].
Qed.

End Sim.

(* ---- (4) reads ---- *)
Definition erase (e : option entry) : option entry :=
  match e with Some (Val _) => Some (Val 0) | Some Tomb => Some Tomb | None => None end.
Definition erase_r (r : rres) : rres := match r with RFound u _ => RFound u 0 | _ => r end.

(* the resolver's choice does not depend on the value ids *)
Lemma read_spec_erase par ent v r :
  read_spec par ent v r -> read_spec par (fun u => erase (ent u)) v (erase_r r).
Proof.
  set (ent' := fun u => erase (ent u)).
  assert (HP : forall u, hasP ent u <-> hasP ent' u).
  { intro u. unfold hasP, ent', erase. destruct (ent u) as [[x|]|]; split; congruence. }
  assert (IV : forall u, is_val (ent' u) = is_val (ent u)).
  { intro u. unfold ent', erase. destruct (ent u) as [[x|]|]; reflexivity. }
  assert (FR : forall u, frontier par ent v u <-> frontier par ent' v u).
  { intro u. unfold frontier. split; intros (A & H & N); (split; [exact A|split; [apply HP; exact H|]]);
      intros w Aw Hw; apply N; auto; apply HP; exact Hw. }
  assert (LV : forall u, livef par ent v u <-> livef par ent' v u).
  { intro u. unfold livef. rewrite IV. now rewrite FR. }
  destruct r as [u x| | |]; simpl; auto.
  - intros (L & E & U). split; [now apply LV|]. split; [unfold ent', erase; now rewrite E|].
    intros y Hy. apply U. now apply LV.
  - intros N y Hy. apply (N y). now apply LV.
  - intros (y & z & Hne & Ly & Lz). exists y, z. split; [exact Hne|split; now apply LV].
Qed.

Lemma sorted_keys_nodup s : sorted s -> NoDup (map fst s).
Proof.
  induction 1 as [|a s Hs IH Ha]; simpl; constructor; [|exact IH].
  intro H. apply in_map_iff in H as (e & E & He). rewrite Forall_forall in Ha. specialize (Ha e He).
  unfold key_lt, lex_lt in Ha. rewrite E, lex_compare_refl in Ha. discriminate.
Qed.

Lemma NoDup_map_in {A B} (f : A -> B) l :
  (forall x y, In x l -> In y l -> f x = f y -> x = y) -> NoDup l -> NoDup (map f l).
Proof.
  intros Inj ND. induction ND as [|a l Hn ND IH]; simpl; constructor.
  - intro H. apply in_map_iff in H as (y & E & Hy). assert (y = a) by (apply Inj; [now right|now left|exact E]).
    subst. contradiction.
  - apply IH. intros x y Hx Hy. apply Inj; now right.
Qed.

Lemma find_unique {A} (p : A -> bool) l x :
  In x l -> p x = true -> (forall y, In y l -> p y = true -> y = x) -> find p l = Some x.
Proof.
  intros I P U. induction l as [|a l IH]; [contradiction|]. simpl.
  destruct (p a) eqn:Pa.
  - f_equal. apply U; [now left|exact Pa].
  - destruct I as [->|I]; [congruence|]. apply IH; [exact I|]. intros y Hy. apply U. now right.
Qed.

Section Reads.
Variable i : N.
Variable enc : N -> bytes.
Variable venc : N -> bytes.
Hypothesis Hi : id_ok i.
Hypothesis enc_inj : forall k1 k2, enc k1 = enc k2 -> k1 = k2.

Notation dk := (dkey i enc).
Notation tk := (tkey i enc).
Notation Ref := (Refines i enc venc).

Variable c : core.
Variable s : KV.store.
Hypothesis R : Ref c s.
Hypothesis I : CoreInv c.

Let Hs : sorted s := rf_sorted i enc venc c s R.

(* the keys a point read of [enc k] looks at: the data or tombstone key of every version that
   has an entry *)
Lemma key_versions_char k key :
  In key (get_key_versions_exact i (enc k) s) <->
  exists u, id_ok u /\ ((key = dk k u /\ kv_get (dk k u) s <> None) \/ (key = tk k u /\ kv_get (tk k u) s <> None)).
Proof.
  rewrite get_key_versions_exact_spec by exact Hs. unfold entries_of. split.
  - intro H. apply in_map_iff in H as (e & <- & He). apply filter_In in He as [He P].
    apply andb_true_iff in P as [P1 P2]. apply Nat.eqb_eq in P2.
    pose proof (prefix_of_instance _ _ _ P1) as O.
    destruct (rf_keys i enc venc c s R e He O) as (k' & u & Hu & [E|E]).
    + rewrite E in P1, P2. unfold dkey, construct_data_key in P1, P2.
      destruct (exact_entry_is_own i (enc k) i (enc k') u 0 n_MarkData Hi Hi P1 P2) as [_ EK].
      apply enc_inj in EK. subst k'. exists u. split; [exact Hu|left]. split; [exact E|].
      rewrite <- E. destruct e as [a b]. simpl. rewrite (in_kv_get a b s Hs He). discriminate.
    + rewrite E in P1, P2. unfold tkey, tombstone_key in P1, P2.
      destruct (exact_entry_is_own i (enc k) i (enc k') u 0 n_MarkTombstone Hi Hi P1 P2) as [_ EK].
      apply enc_inj in EK. subst k'. exists u. split; [exact Hu|right]. split; [exact E|].
      rewrite <- E. destruct e as [a b]. simpl. rewrite (in_kv_get a b s Hs He). discriminate.
  - intros (u & Hu & [[-> H]|[-> H]]).
    + destruct (kv_get (dk k u) s) as [b|] eqn:G; [|contradiction]. apply kv_get_in in G; [|exact Hs].
      apply in_map_iff. exists (dk k u, b). split; [reflexivity|]. apply filter_In. split; [exact G|].
      cbn [fst]. unfold dkey, construct_data_key.
      destruct (own_entry_is_exact i (enc k) u 0 n_MarkData) as [Y1 Y2]. rewrite Y1. apply Nat.eqb_eq in Y2. now rewrite Y2.
    + destruct (kv_get (tk k u) s) as [b|] eqn:G; [|contradiction]. apply kv_get_in in G; [|exact Hs].
      apply in_map_iff. exists (tk k u, b). split; [reflexivity|]. apply filter_In. split; [exact G|].
      cbn [fst]. unfold tkey, tombstone_key.
      destruct (own_entry_is_exact i (enc k) u 0 n_MarkTombstone) as [Y1 Y2]. rewrite Y1. apply Nat.eqb_eq in Y2. now rewrite Y2.
Qed.

Lemma key_entry_dkey k u : id_ok u -> key_entry (dk k u) = (u, Val 0).
Proof.
  intro Hu. unfold key_entry, key_version, dkey, construct_data_key.
  rewrite version_of_data_key by exact Hu. now rewrite marker_of_data_key.
Qed.
Lemma key_entry_tkey k u : id_ok u -> key_entry (tk k u) = (u, Tomb).
Proof.
  intro Hu. unfold key_entry, key_version, tkey, tombstone_key.
  rewrite version_of_data_key by exact Hu. now rewrite marker_of_data_key.
Qed.

Lemma entry_cases k u : id_ok u ->
  match ent_of c k u with
  | Some (Val x) => kv_get (dk k u) s = Some (venc x) /\ kv_get (tk k u) s = None
  | Some Tomb => kv_get (dk k u) s = None /\ kv_get (tk k u) s = Some []
  | None => kv_get (dk k u) s = None /\ kv_get (tk k u) s = None
  end.
Proof. intro Hu. exact (rf_entries i enc venc c s R k u Hu). Qed.

(* the per-version entry map the resolver builds from those keys = the abstract entries, value
   ids erased *)
Lemma kvv_of_key_versions k u :
  kvv_of (map key_entry (get_key_versions_exact i (enc k) s)) u = erase (ent_of c k u).
Proof.
  set (L := get_key_versions_exact i (enc k) s).
  assert (NDL : NoDup L).
  { unfold L. rewrite get_key_versions_exact_spec by exact Hs. unfold entries_of.
    apply sorted_keys_nodup. apply sorted_filter. exact Hs. }
  assert (CH := key_versions_char k).
  (* the version determines the key within L *)
  assert (INJ : forall x y, In x L -> In y L -> fst (key_entry x) = fst (key_entry y) -> x = y).
  { intros x y Hx Hy E. apply CH in Hx as (u1 & H1 & Cx). apply CH in Hy as (u2 & H2 & Cy).
    assert (EU : u1 = u2).
    { destruct Cx as [[-> _]|[-> _]], Cy as [[-> _]|[-> _]];
        rewrite ?key_entry_dkey, ?key_entry_tkey in E by assumption; exact E. }
    subst u2. pose proof (entry_cases k u1 H1) as EC.
    destruct Cx as [[-> Nx]|[-> Nx]], Cy as [[-> Ny]|[-> Ny]]; try reflexivity; exfalso;
      destruct (ent_of c k u1) as [[x0|]|]; destruct EC as [E1 E2]; congruence. }
  assert (ND : NoDup (map fst (rev (map key_entry L)))).
  { rewrite map_rev, map_map. apply NoDup_rev. apply NoDup_map_in; assumption. }
  unfold kvv_of.
  destruct (ent_of c k u) as [[x|]|] eqn:EN.
  - assert (Hu : id_ok u) by (apply (rf_versions i enc venc c s R k u); congruence).
    pose proof (entry_cases k u Hu) as EC. rewrite EN in EC. destruct EC as [E1 _].
    apply assoc_nodup; [exact ND|]. apply in_rev. rewrite rev_involutive.
    rewrite <- (key_entry_dkey k u Hu). apply in_map. apply CH. exists u. split; [exact Hu|left].
    split; [reflexivity|congruence].
  - assert (Hu : id_ok u) by (apply (rf_versions i enc venc c s R k u); congruence).
    pose proof (entry_cases k u Hu) as EC. rewrite EN in EC. destruct EC as [_ E2].
    apply assoc_nodup; [exact ND|]. apply in_rev. rewrite rev_involutive.
    rewrite <- (key_entry_tkey k u Hu). apply in_map. apply CH. exists u. split; [exact Hu|right].
    split; [reflexivity|congruence].
  - simpl. destruct (Dag.assoc u (rev (map key_entry L))) as [e|] eqn:A; [|reflexivity]. exfalso.
    apply assoc_In in A. rewrite <- in_rev in A.
    apply in_map_iff in A as (key & EK & HK). apply CH in HK as (u' & Hu' & Ck).
    pose proof (entry_cases k u' Hu') as EC.
    assert (u' = u).
    { destruct Ck as [[-> _]|[-> _]]; rewrite ?key_entry_dkey, ?key_entry_tkey in EK by assumption;
        inversion EK; reflexivity. }
    subst u'. rewrite EN in EC. destruct EC as [E1 E2].
    destruct Ck as [[_ N1]|[_ N1]]; contradiction.
Qed.

(* the resolver over the stored keys answers what the abstract read answers, value id erased *)
Lemma read_over_keys k v :
  read (parents_of (dag c)) (kvv_of (map key_entry (get_key_versions_exact i (enc k) s))) (fuel_of c) (fuel_of c) v
  = erase_r (get c k v).
Proof.
  set (E := kvv_of (map key_entry (get_key_versions_exact i (enc k) s))).
  apply (read_spec_det (cpar c) E v).
  - eapply (read_correct (cpar c) (crank c)).
    + apply crank_par. exact I.
    + intro x. apply crank_fuel.
    + apply crank_fuel.
  - eapply read_spec_agree; [|apply read_spec_erase; apply get_spec; exact I].
    intros u _. unfold E. symmetry. apply kvv_of_key_versions.
Qed.

(* (4a) a point read of the byte store = the abstract GET, in the point read's conventions *)
Lemma refine_point_get k v :
  point_get (best_of_core c v) (rcx i v) (enc k) s = point_of venc (get c k v).
Proof.
  unfold point_get, point_key, best_of_core, best_core, rcx. cbn [cx_instance].
  rewrite read_over_keys.
  pose proof (get_spec c k v I) as SP.
  destruct (get c k v) as [u x| | |] eqn:G; cbn [erase_r point_of]; try reflexivity.
  destruct SP as (_ & EU & _). fold (cpar c) in EU.
  assert (Hu : id_ok u) by (apply (rf_versions i enc venc c s R k u); congruence).
  pose proof (entry_cases k u Hu) as EC. rewrite EU in EC. destruct EC as [E1 E2].
  rewrite (find_unique _ _ (dk k u)).
  - rewrite E1. reflexivity.
  - apply key_versions_char. exists u. split; [exact Hu|left]. split; [reflexivity|congruence].
  - unfold dkey, construct_data_key, key_version. rewrite version_of_data_key by exact Hu.
    rewrite marker_of_data_key, N.eqb_refl. reflexivity.
  - intros y Hy Py. apply key_versions_char in Hy as (u' & Hu' & Cy).
    apply andb_true_iff in Py as [P1 P2]. apply N.eqb_eq in P1. apply negb_true_iff in P2.
    destruct Cy as [[-> _]|[-> _]].
    + unfold key_version, dkey, construct_data_key in P1. rewrite version_of_data_key in P1 by exact Hu'. now subst.
    + unfold tkey, tombstone_key in P2. rewrite marker_of_data_key in P2. vm_compute in P2. discriminate.
Qed.

(* existence as HEAD reports it *)
Lemma refine_point_exists k v :
  point_exists (best_of_core c v) (rcx i v) (enc k) s
  = match get c k v with RFound _ _ => true | _ => false end.
Proof.
  unfold point_exists, point_key, best_of_core, best_core, rcx. cbn [cx_instance].
  rewrite read_over_keys.
  pose proof (get_spec c k v I) as SP.
  destruct (get c k v) as [u x| | |] eqn:G; cbn [erase_r]; try reflexivity.
  destruct SP as (_ & EU & _).
  assert (Hu : id_ok u) by (apply (rf_versions i enc venc c s R k u); congruence).
  pose proof (entry_cases k u Hu) as EC. rewrite EU in EC. destruct EC as [E1 E2].
  rewrite (find_unique _ _ (dk k u)); [reflexivity| | |].
  - apply key_versions_char. exists u. split; [exact Hu|left]. split; [reflexivity|congruence].
  - unfold dkey, construct_data_key, key_version. rewrite version_of_data_key by exact Hu.
    rewrite marker_of_data_key, N.eqb_refl. reflexivity.
  - intros y Hy Py. apply key_versions_char in Hy as (u' & Hu' & Cy).
    apply andb_true_iff in Py as [P1 P2]. apply N.eqb_eq in P1. apply negb_true_iff in P2.
    destruct Cy as [[-> _]|[-> _]].
    + unfold key_version, dkey, construct_data_key in P1. rewrite version_of_data_key in P1 by exact Hu'. now subst.
    + unfold tkey, tombstone_key in P2. rewrite marker_of_data_key in P2. vm_compute in P2. discriminate.
Qed.

End Reads.

(* ---- (4b) range reads ---- *)
Section Ranges.
Variable i : N.
Variable enc : N -> bytes.
Variable venc : N -> bytes.
Hypothesis Hi : id_ok i.
Hypothesis enc_inj : forall k1 k2, enc k1 = enc k2 -> k1 = k2.
Hypothesis enc_pf : forall k1 k2, prefix_free_pair (enc k1) (enc k2).

Notation dk := (dkey i enc).
Notation tk := (tkey i enc).
Notation Ref := (Refines i enc venc).

Variable c : core.
Variable s : KV.store.
Hypothesis R : Ref c s.
Hypothesis I : CoreInv c.
Variable v : V.

Let Hs : sorted s := rf_sorted i enc venc c s R.
Let cx := rcx i v.

Lemma stored_key_lab e : In e s -> of_instance i (fst e) = true ->
  exists k u m, id_ok u /\ byte_ok m /\ fst e = data_key i (enc k) u 0 m /\ lab e = enc k
                /\ (m = n_MarkData \/ m = n_MarkTombstone).
Proof.
  intros He O. destruct (rf_keys i enc venc c s R e He O) as (k & u & Hu & [E|E]).
  - exists k, u, n_MarkData. split; [exact Hu|]. split; [unfold byte_ok; reflexivity|].
    split; [exact E|]. split; [|now left].
    unfold lab. rewrite E. unfold dkey, construct_data_key. now rewrite tkey_from_data_key.
  - exists k, u, n_MarkTombstone. split; [exact Hu|]. split; [unfold byte_ok; reflexivity|].
    split; [exact E|]. split; [|now right].
    unfold lab. rewrite E. unfold tkey, tombstone_key. now rewrite tkey_from_data_key.
Qed.

(* the hypotheses of the C05 theorems hold of a refining store *)
Lemma refines_store_ok : store_ok cx s.
Proof.
  constructor.
  - exact Hs.
  - intros e He O. destruct (stored_key_lab e He O) as (k & u & m & Hu & Hm & E & _).
    exists (enc k), u, 0, m. split; [exact E|]. split; [exact Hu|]. split; [apply id0|exact Hm].
  - intros a b Ha Hb Oa Ob.
    destruct (stored_key_lab a Ha Oa) as (ka & _ & _ & _ & _ & _ & La & _).
    destruct (stored_key_lab b Hb Ob) as (kb & _ & _ & _ & _ & _ & Lb & _).
    rewrite La, Lb. apply enc_pf.
Qed.

Lemma refines_bound_ok b : (forall k, prefix_free_pair b (enc k)) -> bound_ok cx s b.
Proof.
  intros H e He O. destruct (stored_key_lab e He O) as (k & _ & _ & _ & _ & _ & L & _). rewrite L. apply H.
Qed.

(* the verdict a range scan gets for one abstract key *)
Definition verdict_of (k : N) (r : rres) : res (option kv) :=
  match r with
  | RFound u x => Ok (Some (dk k u, venc x))
  | RNone => Ok None
  | RConflict => Err
  | RFuel => Panic
  end.

Lemma refine_point_kv k :
  point_kv (best_of_core c v) cx (enc k) s = verdict_of k (get c k v).
Proof.
  unfold point_kv, versioned_key_value.
  rewrite (entries_kv_keys cx (enc k) s Hs). unfold cx, rcx. cbn [cx_instance].
  unfold best_of_core, best_core. rewrite (read_over_keys i enc venc Hi enc_inj c s R I k v).
  pose proof (get_spec c k v I) as SP.
  destruct (get c k v) as [u x| | |] eqn:G; cbn [erase_r verdict_of]; try reflexivity.
  destruct SP as (_ & EU & _).
  assert (Hu : id_ok u) by (apply (rf_versions i enc venc c s R k u); congruence).
  pose proof (entry_cases i enc venc c s R k u Hu) as EC. rewrite EU in EC. destruct EC as [E1 E2].
  assert (CH := key_versions_char i enc venc Hi enc_inj c s R k).
  assert (IN : In (dk k u) (get_key_versions_exact i (enc k) s)).
  { apply CH. exists u. split; [exact Hu|left]. split; [reflexivity|congruence]. }
  rewrite (find_unique _ _ (dk k u)); [|exact IN| |].
  - unfold entries_kv. cbn [cx_instance].
    rewrite (assoc_filter_sorted
               (fun k0 => prefixb (unversioned_prefix i (enc k)) k0
                          && Nat.eqb (length k0) (length (unversioned_prefix i (enc k)) + suffix_size))
               (dk k u) s Hs).
    + now rewrite E1.
    + rewrite (get_key_versions_exact_spec i (enc k) s Hs) in IN. exact IN.
  - unfold dkey, construct_data_key, key_version. rewrite version_of_data_key by exact Hu.
    rewrite marker_of_data_key, N.eqb_refl. reflexivity.
  - intros y Hy Py. apply CH in Hy as (u' & Hu' & Cy).
    apply andb_true_iff in Py as [P1 P2]. apply N.eqb_eq in P1. apply negb_true_iff in P2.
    destruct Cy as [[-> _]|[-> _]].
    + unfold key_version, dkey, construct_data_key in P1. rewrite version_of_data_key in P1 by exact Hu'. now subst.
    + unfold tkey, tombstone_key in P2. rewrite marker_of_data_key in P2. vm_compute in P2. discriminate.
Qed.

Lemma collect_core ks :
  collect (map (fun t => (t, point_kv (best_of_core c v) cx t s)) (map enc ks))
  = range_of_core enc venc (map (fun k => (k, get c k v)) ks).
Proof.
  induction ks as [|k ks IH]; [reflexivity|].
  cbn [map collect range_of_core]. rewrite refine_point_kv.
  destruct (get c k v) as [u x| | |]; cbn [verdict_of]; try reflexivity; now rewrite IH.
Qed.

Lemma decode_list (l : list bytes) : (forall t, In t l -> exists k, t = enc k) -> exists ks, l = map enc ks.
Proof.
  induction l as [|t l IH]; intro H; [now exists []|].
  destruct (H t ltac:(now left)) as [k ->]. destruct IH as [ks ->]; [intros t Ht; apply H; now right|].
  now exists (k :: ks).
Qed.

Lemma has_entry_stored k : (exists u, ent_of c k u <> None) <->
  exists e, In e s /\ of_instance i (fst e) = true /\ lab e = enc k.
Proof.
  split.
  - intros (u & Hne). assert (Hu : id_ok u) by now apply (rf_versions i enc venc c s R k u).
    pose proof (entry_cases i enc venc c s R k u Hu) as EC.
    destruct (ent_of c k u) as [[x|]|]; [| |contradiction]; destruct EC as [E1 E2].
    + exists (dk k u, venc x). split; [now apply kv_get_in|]. split; [apply dkey_instance|].
      unfold lab, dkey, construct_data_key. cbn [fst]. now rewrite tkey_from_data_key.
    + exists (tk k u, []). split; [now apply kv_get_in|]. split; [apply tkey_instance|].
      unfold lab, tkey, tombstone_key. cbn [fst]. now rewrite tkey_from_data_key.
  - intros (e & He & O & L). destruct (rf_keys i enc venc c s R e He O) as (k' & u & Hu & E).
    assert (k' = k).
    { apply enc_inj. rewrite <- L. unfold lab. destruct E as [E|E]; rewrite E;
        unfold dkey, tkey, construct_data_key, tombstone_key; now rewrite tkey_from_data_key. }
    subst k'. exists u. pose proof (entry_cases i enc venc c s R k u Hu) as EC.
    destruct e as [a b]. cbn [fst] in E. pose proof (in_kv_get a b s Hs He) as G.
    destruct (ent_of c k u) as [[x|]|]; try discriminate. exfalso. destruct EC as [E1 E2].
    destruct E as [E|E]; rewrite E in G; congruence.
Qed.

(* (4b) a range read over [lo, hi] of the byte store = the abstract GETs of the keys that have
   an entry and encode into the interval, in ascending order of their encodings, in the range
   read's conventions (the first unresolved conflict fails the whole read) *)
Lemma refine_get_range lo hi :
  (forall k, prefix_free_pair lo (enc k)) -> (forall k, prefix_free_pair hi (enc k)) ->
  prefix_free_pair lo hi -> lex_le lo hi ->
  exists ks,
    get_range (best_of_core c v) cx lo hi s = range_of_core enc venc (map (fun k => (k, get c k v)) ks)
    /\ StronglySorted lex_lt (map enc ks)
    /\ (forall k, In k ks <-> ((exists u, ent_of c k u <> None) /\ lex_le lo (enc k) /\ lex_le (enc k) hi)).
Proof.
  intros BLo BHi PF LE.
  pose proof refines_store_ok as SO.
  pose proof (refines_bound_ok lo BLo) as BL. pose proof (refines_bound_ok hi BHi) as BH.
  assert (Hic : id_ok (cx_instance cx)) by exact Hi.
  destruct (decode_list (range_tkeys cx lo hi s)) as [ks EK].
  { intros t Ht. destruct (range_tkeys_sound cx Hic lo hi s t SO BL BH Ht) as (_ & _ & NE).
    destruct (entries_kv cx t s) as [|e l] eqn:EE; [contradiction|].
    assert (He : In e (entries_kv cx t s)) by (rewrite EE; now left).
    unfold entries_kv in He. apply filter_In in He as [He P]. apply andb_true_iff in P as [P1 P2].
    apply Nat.eqb_eq in P2. pose proof (prefix_of_instance _ _ _ P1) as O.
    destruct (stored_key_lab e He O) as (k & u & m & Hu & Hm & E & _ & _). rewrite E in P1, P2.
    destruct (exact_entry_is_own i t i (enc k) u 0 m Hi Hi P1 P2) as [_ EQ]. exists k. now symmetry. }
  exists ks. split; [|split].
  - rewrite (get_range_points (best_of_core c v) cx Hic lo hi s SO BL BH PF LE), EK. apply collect_core.
  - rewrite <- EK. apply range_tkeys_ascending; assumption.
  - intro k. split.
    + intro Hk. assert (Ht : In (enc k) (range_tkeys cx lo hi s)) by (rewrite EK; now apply in_map).
      destruct (range_tkeys_sound cx Hic lo hi s (enc k) SO BL BH Ht) as (L1 & L2 & NE).
      split; [|split; assumption]. apply has_entry_stored.
      destruct (entries_kv cx (enc k) s) as [|e l] eqn:EE; [contradiction|].
      assert (He : In e (entries_kv cx (enc k) s)) by (rewrite EE; now left).
      unfold entries_kv in He. apply filter_In in He as [He P]. apply andb_true_iff in P as [P1 P2].
      apply Nat.eqb_eq in P2. pose proof (prefix_of_instance _ _ _ P1) as O.
      exists e. split; [exact He|]. split; [exact O|].
      destruct (stored_key_lab e He O) as (k' & u & m & Hu & Hm & E & L & _). rewrite E in P1, P2.
      destruct (exact_entry_is_own i (enc k) i (enc k') u 0 m Hi Hi P1 P2) as [_ EQ]. now rewrite L.
    + intros (HE & L1 & L2). apply has_entry_stored in HE as (e & He & O & L).
      pose proof (range_tkeys_complete cx Hic lo hi s e SO BL BH He O) as C.
      rewrite L in C. specialize (C L1 L2). rewrite EK in C.
      apply in_map_iff in C as (k' & E & Hk'). apply enc_inj in E. now subst.
Qed.

End Ranges.

(* the relation only looks at the abstract entries *)
Lemma refines_ext i enc venc c c' s :
  (forall k v, ent_of c' k v = ent_of c k v) -> Refines i enc venc c s -> Refines i enc venc c' s.
Proof.
  intros E [R1 R2 R3 R4]. constructor; auto.
  - intros k v Hv. rewrite E. now apply R2.
  - intros k v. rewrite E. apply R3.
Qed.

(* ---- (6) instance isolation at the level of the abstract core ---- *)
Lemma refines_other_instance iA iB enc venc c s ops :
  id_ok iA -> id_ok iB -> iA <> iB -> store_wf s ->
  Refines iB enc venc c s -> Refines iB enc venc c (apply_iops iA ops s).
Proof.
  intros HA HB NE W [R1 R2 R3 R4].
  destruct (apply_iops_other iA iB HA HB NE ops s (conj R1 W)) as (SL & S' & _).
  change (sel (fun k => of_instance iB k) (apply_iops iA ops s) = sel (fun k => of_instance iB k) s)
    with (instance_slice iB (apply_iops iA ops s) = instance_slice iB s) in SL.
  constructor.
  - exact S'.
  - intros k v Hv.
    rewrite (kv_get_slice iB (dkey iB enc k v) _ S') by (unfold dkey, construct_data_key; apply prefixb_is_prefix; rewrite data_key_split; now eexists).
    rewrite (kv_get_slice iB (tkey iB enc k v) _ S') by (unfold tkey, tombstone_key; apply prefixb_is_prefix; rewrite data_key_split; now eexists).
    rewrite SL.
    rewrite <- (kv_get_slice iB (dkey iB enc k v) s R1) by (unfold dkey, construct_data_key; apply prefixb_is_prefix; rewrite data_key_split; now eexists).
    rewrite <- (kv_get_slice iB (tkey iB enc k v) s R1) by (unfold tkey, tombstone_key; apply prefixb_is_prefix; rewrite data_key_split; now eexists).
    now apply R2.
  - exact R3.
  - intros e He O. apply R4; [|exact O].
    assert (In e (instance_slice iB (apply_iops iA ops s))) by (apply filter_In; auto).
    rewrite SL in H. now apply filter_In in H.
Qed.

(* ---- (5) copying an instance ---- *)
Lemma change_instance_data_key i tk v c m j :
  change_instance (data_key i tk v c m) j = Ok (data_key j tk v c m).
Proof.
  unfold change_instance. rewrite (data_key_layout i tk v c m).
  rewrite (overwrite_mid [n_dataKeyPrefix] (iid_bytes i) _ (iid_bytes j)) by now rewrite !iid_bytes_length.
  reflexivity.
Qed.

Section FoldSet.
Variable f : bytes -> bytes.
Definition set_all (l : list kv) (acc : KV.store) : KV.store :=
  fold_left (fun a e => kv_set (f (fst e)) (snd e) a) l acc.

Lemma set_all_other l : forall acc k, ~ In k (map (fun e => f (fst e)) l) ->
  kv_get k (set_all l acc) = kv_get k acc.
Proof.
  induction l as [|e l IH]; intros acc k N; [reflexivity|]. simpl in *.
  unfold set_all in *. cbn [fold_left]. rewrite IH by tauto. apply kv_get_set_other. intro E. apply N. now left.
Qed.

Lemma set_all_in l : forall acc e, NoDup (map (fun e => f (fst e)) l) -> In e l ->
  kv_get (f (fst e)) (set_all l acc) = Some (snd e).
Proof.
  induction l as [|a l IH]; intros acc e ND H; [contradiction|].
  inversion ND as [|? ? Hn ND']; subst. unfold set_all. cbn [fold_left]. fold (set_all l (kv_set (f (fst a)) (snd a) acc)).
  destruct H as [->|H].
  - rewrite set_all_other by exact Hn. apply kv_get_set_same.
  - now apply IH.
Qed.

Lemma set_all_sorted l : forall acc, sorted acc -> sorted (set_all l acc).
Proof. induction l as [|a l IH]; intros acc H; [exact H|]. apply IH. now apply kv_set_sorted. Qed.

Lemma set_all_elems l : forall acc e, In e (set_all l acc) ->
  In e acc \/ exists e0, In e0 l /\ e = (f (fst e0), snd e0).
Proof.
  induction l as [|a l IH]; intros acc e H; [now left|].
  apply IH in H as [H|(e0 & H0 & ->)].
  - apply kv_set_in in H as [->|H]; [right; exists a; split; [now left|reflexivity]|now left].
  - right. exists e0. split; [now right|reflexivity].
Qed.
End FoldSet.

Section CopySim.
Variable i j : N.
Variable enc : N -> bytes.
Variable venc : N -> bytes.
Hypothesis Hi : i < 2 ^ 32 - 1.
Hypothesis Hj : id_ok j.
Hypothesis NE : i <> j.
Hypothesis enc_inj : forall k1 k2, enc k1 = enc k2 -> k1 = k2.

Variable c : core.
Variable s : KV.store.
Hypothesis R : Refines i enc venc c s.
(* the destination instance id is fresh (C06_fresh_instance_empty) *)
Hypothesis fresh_j : instance_slice j s = [].
(* whatever the scan of KeyRange i meets is a key of instance i (C06_instance_range, for stores
   that hold well-formed keys only) *)
Hypothesis scan_own : forall e, In e s ->
  in_rangeb (fst (key_range i)) (snd (key_range i)) (fst e) = true -> of_instance i (fst e) = true.

Let Hio : id_ok i. Proof. unfold id_ok. change (2 ^ 32) with 4294967296 in *. lia. Qed.
Let Hs : sorted s := rf_sorted i enc venc c s R.

(* UpdateInstance as a function on keys: data_key i ... |-> data_key j ... *)
Definition chg (k : bytes) : bytes := match change_instance k j with Ok k' => k' | _ => k end.

Lemma chg_data_key t v cl m : chg (data_key i t v cl m) = data_key j t v cl m.
Proof. unfold chg. now rewrite change_instance_data_key. Qed.

Lemma scan_is_slice : scan (fst (key_range i)) (snd (key_range i)) s = instance_slice i s.
Proof.
  rewrite scan_filter by exact Hs. unfold instance_slice. apply filter_ext_in. intros e He.
  destruct (in_rangeb _ _ (fst e)) eqn:B.
  - symmetry. now apply scan_own.
  - destruct (of_instance i (fst e)) eqn:O; [|reflexivity].
    pose proof (key_range_fixed_own i (fst e) Hio O) as X. unfold key_range_fixed in X.
    replace (i =? n_MaxInstanceID) with false in X; [congruence|].
    symmetry. apply N.eqb_neq. unfold n_MaxInstanceID. change (2 ^ 32) with 4294967296 in *. lia.
Qed.

Lemma copy_as_set_all : copy_instance i j s = set_all chg (instance_slice i s) s.
Proof.
  unfold copy_instance, set_all. rewrite scan_is_slice.
  assert (G : forall l acc, (forall e, In e l -> In e s /\ of_instance i (fst e) = true) ->
    fold_left (fun a e => match change_instance (fst e) j with Ok k' => kv_set k' (snd e) a | _ => a end) l acc
    = fold_left (fun a e => kv_set (chg (fst e)) (snd e) a) l acc).
  { induction l as [|e l IH]; intros acc H; [reflexivity|]. cbn [fold_left].
    destruct (H e ltac:(now left)) as [He O].
    destruct (rf_keys i enc venc c s R e He O) as (k & u & _ & [E|E]); rewrite E;
      unfold dkey, tkey, construct_data_key, tombstone_key; rewrite chg_data_key, change_instance_data_key;
      apply IH; intros e' He'; apply H; now right. }
  apply G. intros e He. unfold instance_slice in He. now apply filter_In in He.
Qed.

Lemma slice_elem e : In e (instance_slice i s) ->
  exists k u m, id_ok u /\ fst e = data_key i (enc k) u 0 m /\ (m = n_MarkData \/ m = n_MarkTombstone).
Proof.
  intro He. apply filter_In in He as [He O].
  destruct (rf_keys i enc venc c s R e He O) as (k & u & Hu & [E|E]); exists k, u; eexists; split; eauto.
Qed.

Lemma images_nodup : NoDup (map (fun e => chg (fst e)) (instance_slice i s)).
Proof.
  rewrite <- (map_map fst chg). apply NoDup_map_in.
  - intros x y Hx Hy E.
    apply in_map_iff in Hx as (ex & <- & Hx). apply in_map_iff in Hy as (ey & <- & Hy).
    destruct (slice_elem ex Hx) as (k1 & u1 & m1 & H1 & E1 & _).
    destruct (slice_elem ey Hy) as (k2 & u2 & m2 & H2 & E2 & _).
    rewrite E1, E2 in *. rewrite !chg_data_key in E.
    destruct (data_key_inj _ _ _ _ _ _ _ _ _ _ Hj H1 id0 Hj H2 id0 E) as (_ & -> & -> & _ & ->). reflexivity.
  - apply sorted_keys_nodup. apply sorted_filter. exact Hs.
Qed.

Lemma not_of_j_in_s k : of_instance j k = true -> kv_get k s = None.
Proof.
  intro O. destruct (kv_get k s) as [b|] eqn:G; [|reflexivity]. exfalso.
  apply kv_get_in in G; [|exact Hs].
  assert (In (k, b) (instance_slice j s)) by (apply filter_In; auto). rewrite fresh_j in H. contradiction.
Qed.

Lemma instance_prefix a t u cl m : of_instance a (data_key a t u cl m) = true.
Proof. apply prefixb_is_prefix. rewrite data_key_split. now eexists. Qed.

(* the copied key holds what the source key holds *)
Lemma copy_get k u m : id_ok u -> (m = n_MarkData \/ m = n_MarkTombstone) ->
  kv_get (data_key j (enc k) u 0 m) (copy_instance i j s) = kv_get (data_key i (enc k) u 0 m) s.
Proof.
  intros Hu Hm. rewrite copy_as_set_all.
  destruct (kv_get (data_key i (enc k) u 0 m) s) as [b|] eqn:G.
  - apply kv_get_in in G; [|exact Hs].
    assert (In (data_key i (enc k) u 0 m, b) (instance_slice i s)).
    { apply filter_In. split; [exact G|apply instance_prefix]. }
    rewrite <- chg_data_key.
    apply (set_all_in chg _ s (data_key i (enc k) u 0 m, b) images_nodup H).
  - rewrite set_all_other; [apply not_of_j_in_s; apply instance_prefix|].
    intro H. apply in_map_iff in H as (e & E & He).
    destruct (slice_elem e He) as (k' & u' & m' & Hu' & E' & _). rewrite E', chg_data_key in E.
    destruct (data_key_inj _ _ _ _ _ _ _ _ _ _ Hj Hu' id0 Hj Hu id0 E) as (_ & EK & -> & _ & ->).
    apply enc_inj in EK. subst k'.
    apply filter_In in He as [He _]. destruct e as [a b]. cbn [fst] in E'. subst a.
    rewrite (in_kv_get _ b s Hs He) in G. discriminate.
Qed.

(* the copy refines the same abstract core under the new instance id ... *)
Lemma copy_refines_dst : Refines j enc venc c (copy_instance i j s).
Proof.
  constructor.
  - rewrite copy_as_set_all. apply set_all_sorted. exact Hs.
  - intros k u Hu. unfold dkey, tkey, construct_data_key, tombstone_key.
    rewrite !copy_get by auto. exact (rf_entries i enc venc c s R k u Hu).
  - exact (rf_versions i enc venc c s R).
  - intros e He O. rewrite copy_as_set_all in He. apply set_all_elems in He as [He|(e0 & H0 & ->)].
    + exfalso. assert (In e (instance_slice j s)) by (apply filter_In; auto). rewrite fresh_j in H. contradiction.
    + destruct (slice_elem e0 H0) as (k & u & m & Hu & E & [->| ->]); exists k, u; split; auto; cbn [fst]; rewrite E, chg_data_key; auto.
Qed.

(* ... and the source is untouched *)
Lemma copy_refines_src : Refines i enc venc c (copy_instance i j s).
Proof.
  assert (OTHER : forall k, of_instance i k = true -> kv_get k (copy_instance i j s) = kv_get k s).
  { intros k O. rewrite copy_as_set_all. apply set_all_other. intro H.
    apply in_map_iff in H as (e & E & He). destruct (slice_elem e He) as (k' & u' & m' & Hu' & E' & _).
    rewrite E', chg_data_key in E. subst k. rewrite of_instance_data_key in O by (auto). apply N.eqb_eq in O. contradiction. }
  constructor.
  - rewrite copy_as_set_all. apply set_all_sorted. exact Hs.
  - intros k u Hu. rewrite !OTHER by (unfold dkey, tkey, construct_data_key, tombstone_key; apply instance_prefix).
    exact (rf_entries i enc venc c s R k u Hu).
  - exact (rf_versions i enc venc c s R).
  - intros e He O. rewrite copy_as_set_all in He. apply set_all_elems in He as [He|(e0 & H0 & ->)].
    + now apply (rf_keys i enc venc c s R).
    + exfalso. destruct (slice_elem e0 H0) as (k & u & m & Hu & E & _). cbn [fst] in O.
      rewrite E, chg_data_key, of_instance_data_key in O by auto. apply N.eqb_eq in O. contradiction.
Qed.

(* in the terms of Model.Copy: the byte-level copy refines copy_raw with the identity renaming
   (the abstract keys are unchanged, only the instance id differs) *)
Lemma copy_raw_id_entries k v : ent_of (copy_raw (fun k => Some k) c) k v = ent_of c k v.
Proof.
  unfold ent_of, copy_raw. cbn [Core.store with_store]. rewrite lookup_app.
  rewrite (lookup_copy_items (fun k => Some k)) with (k := k); [|intros k1 k2 k' H1 H2; congruence|reflexivity].
  destruct (lookup_kv k v (Core.store c)); reflexivity.
Qed.

Lemma copy_refines_copy_raw : Refines j enc venc (copy_raw (fun k => Some k) c) (copy_instance i j s).
Proof. apply (refines_ext j enc venc c); [apply copy_raw_id_entries|apply copy_refines_dst]. Qed.

End CopySim.

(* every read of the copy equals the read of the source, at every version *)
Lemma copy_point_reads_equal i j enc venc c s k v :
  i < 2 ^ 32 - 1 -> id_ok j -> i <> j ->
  (forall k1 k2, enc k1 = enc k2 -> k1 = k2) ->
  CoreInv c -> Refines i enc venc c s -> instance_slice j s = [] ->
  (forall e, In e s -> in_rangeb (fst (key_range i)) (snd (key_range i)) (fst e) = true -> of_instance i (fst e) = true) ->
  point_get (best_of_core c v) (rcx j v) (enc k) (copy_instance i j s)
  = point_get (best_of_core c v) (rcx i v) (enc k) s.
Proof.
  intros Hi Hj NE EI I R F SO.
  assert (Hio : id_ok i) by (unfold id_ok; change (2 ^ 32) with 4294967296 in *; lia).
  rewrite (refine_point_get j enc venc Hj EI c _ (copy_refines_dst i j enc venc Hi Hj NE EI c s R F SO) I).
  now rewrite (refine_point_get i enc venc Hio EI c s R I).
Qed.

Lemma copy_raw_id_get c k v : CoreInv c -> get (copy_raw (fun k => Some k) c) k v = get c k v.
Proof.
  intro I. unfold copy_raw. apply get_ext_store; [exact I|]. intro w.
  rewrite lookup_app. rewrite (lookup_copy_items (fun k => Some k)) with (k := k);
    [|intros k1 k2 k' H1 H2; congruence|reflexivity].
  destruct (lookup_kv k w (Core.store c)); reflexivity.
Qed.

(* the scan hypothesis of the copy lemmas holds of every store made of well-formed data keys *)
Lemma scan_own_of_data_keys i (s : KV.store) : i < 2 ^ 32 - 1 ->
  (forall e, In e s -> exists i' t v c m, id_ok i' /\ fst e = data_key i' t v c m) ->
  forall e, In e s -> in_rangeb (fst (key_range i)) (snd (key_range i)) (fst e) = true -> of_instance i (fst e) = true.
Proof.
  intros Hi W e He B. destruct (W e He) as (i' & t & v & c & m & Hi' & E). rewrite E in *.
  apply in_rangeb_in_range in B. apply (instance_range i i' t v c m Hi Hi') in B. subst i'.
  apply prefixb_is_prefix. rewrite data_key_split. now eexists.
Qed.

(* ==== Round 4: keys-only listings, executable abstract answers, keyvalue endpoints, DeleteRange ==== *)

(* the keys-only store (values not loaded) refines the same core with every value read as [] *)
Lemma kv_get_strip k s : kv_get k (strip true s) = match kv_get k s with Some _ => Some [] | None => None end.
Proof.
  unfold strip. induction s as [|[a b] s IH]; [reflexivity|]. cbn [map kv_get fst].
  destruct (lex_compare k a); auto.
Qed.

Lemma refines_strip i enc venc c s :
  Refines i enc venc c s -> Refines i enc (fun _ => []) c (strip true s).
Proof.
  intros [R1 R2 R3 R4]. constructor.
  - apply (sorted_strip true s). exact R1.
  - intros k v Hv. specialize (R2 k v Hv). rewrite !kv_get_strip. unfold entry_matches in *.
    destruct (ent_of c k v) as [[x|]|]; destruct R2 as [-> ->]; split; reflexivity.
  - exact R3.
  - intros e He O. destruct (strip_in true s e He) as (e0 & H0 & E0). rewrite <- E0. apply R4; [exact H0|].
    now rewrite E0.
Qed.

Lemma keys_of_range_of_core enc l :
  res_bind (range_of_core enc (fun _ => []) l) (fun l' => Ok (map fst l')) = res_map (map enc) (keys_of_core l).
Proof.
  induction l as [|[k r] l IH]; [reflexivity|]. destruct r; cbn [range_of_core keys_of_core]; try reflexivity; [|exact IH].
  revert IH. destruct (range_of_core enc (fun _ => []) l), (keys_of_core l); simpl; intro IH; try congruence.
Qed.

Lemma vals_of_range_of_core enc venc l :
  range_of_core enc venc l = res_map (map (fun kx => (enc (fst kx), venc (snd kx)))) (vals_of_core l).
Proof.
  induction l as [|[k r] l IH]; [reflexivity|]. destruct r; cbn [range_of_core vals_of_core]; try reflexivity; [|exact IH].
  rewrite IH. destruct (vals_of_core l); reflexivity.
Qed.

(* ---- the executable enumeration of the abstract keys of an interval ---- *)
Lemma lookup_kv_in k v st : lookup_kv k v st <> None <-> In (k, v) (map fst st).
Proof.
  induction st as [|[[k' v'] e] st IH]; simpl; [tauto|].
  destruct ((k =? k') && (v =? v')) eqn:E.
  - apply andb_true_iff in E as [E1 E2]. apply N.eqb_eq in E1, E2. subst. split; [now left|discriminate].
  - rewrite IH. split; [now right|]. intros [H|H]; [|exact H]. inversion H. subst.
    rewrite !N.eqb_refl in E. discriminate.
Qed.

Lemma core_keys_spec c k : In k (core_keys c) <-> exists u, ent_of c k u <> None.
Proof.
  unfold core_keys, ent_of. rewrite nodup_In, in_map_iff. split.
  - intros ([[k' u] e] & <- & H). exists u. apply lookup_kv_in. apply in_map_iff. now exists ((k', u), e).
  - intros (u & H). apply lookup_kv_in in H. apply in_map_iff in H as ([[k' u'] e] & E & H).
    cbn [fst] in E. inversion E. subst. now exists ((k, u), e).
Qed.

Section SortBy.
Variable enc : N -> bytes.
Hypothesis enc_inj : forall k1 k2, enc k1 = enc k2 -> k1 = k2.

Lemma insert_by_in k l x : In x (insert_by enc k l) <-> x = k \/ In x l.
Proof.
  induction l as [|y l IH]; simpl; [intuition|].
  destruct (lex_compare (enc k) (enc y)) eqn:E; simpl.
  - apply lex_compare_eq in E. apply enc_inj in E. subst y. intuition.
  - intuition.
  - rewrite IH. intuition.
Qed.

Lemma insert_by_sorted k l : StronglySorted lex_lt (map enc l) -> StronglySorted lex_lt (map enc (insert_by enc k l)).
Proof.
  induction l as [|y l IH]; intro S; simpl.
  - repeat constructor.
  - inversion S as [|? ? S1 S2]. subst. destruct (lex_compare (enc k) (enc y)) eqn:E; cbn [map].
    + exact S.
    + constructor; [exact S|]. constructor; [exact E|].
      rewrite Forall_forall in *. intros z Hz. eapply lex_compare_lt_trans; [exact E|]. now apply S2.
    + constructor; [now apply IH|]. rewrite Forall_forall in *. intros z Hz.
      apply in_map_iff in Hz as (x & <- & Hx). apply insert_by_in in Hx as [->|Hx].
      * now apply lex_gt_lt.
      * apply S2. now apply in_map.
Qed.

Lemma sort_by_in l x : In x (sort_by enc l) <-> In x l.
Proof.
  induction l as [|y l IH]; simpl; [tauto|]. rewrite insert_by_in, IH. intuition.
Qed.

Lemma sort_by_sorted l : StronglySorted lex_lt (map enc (sort_by enc l)).
Proof.
  induction l as [|y l IH]; simpl; [constructor|]. now apply insert_by_sorted.
Qed.

(* two ascending lists with the same members are the same list *)
Lemma sorted_unique l1 : forall l2,
  StronglySorted lex_lt (map enc l1) -> StronglySorted lex_lt (map enc l2) ->
  (forall k, In k l1 <-> In k l2) -> l1 = l2.
Proof.
  assert (IRR : forall a, ~ lex_lt a a).
  { intros a H. unfold lex_lt in H. rewrite lex_compare_refl in H. discriminate. }
  induction l1 as [|a l1 IH]; intros [|b l2] S1 S2 M.
  - reflexivity.
  - exfalso. apply (proj2 (M b)). now left.
  - exfalso. apply (proj1 (M a)). now left.
  - cbn [map] in S1, S2. inversion S1 as [|? ? S1a S1b]. inversion S2 as [|? ? S2a S2b]. subst.
    rewrite Forall_forall in S1b, S2b.
    assert (a = b).
    { destruct (proj1 (M a) (or_introl eq_refl)) as [E|Ha]; [now symmetry|].
      destruct (proj2 (M b) (or_introl eq_refl)) as [E|Hb]; [exact E|]. exfalso.
      apply (IRR (enc a)). eapply lex_compare_lt_trans; [apply S1b; apply in_map; exact Hb|].
      apply S2b. now apply in_map. }
    subst b. f_equal. apply IH; [assumption..|]. intro k. split; intro H.
    + destruct (proj1 (M k) (or_intror H)) as [E|H']; [|exact H']. subst k. exfalso.
      apply (IRR (enc a)). apply S1b. now apply in_map.
    + destruct (proj2 (M k) (or_intror H)) as [E|H']; [|exact H']. subst k. exfalso.
      apply (IRR (enc a)). apply S2b. now apply in_map.
Qed.

Lemma interval_keys_spec c lo hi ks :
  StronglySorted lex_lt (map enc ks) ->
  (forall k, In k ks <-> ((exists u, ent_of c k u <> None) /\ lex_le lo (enc k) /\ lex_le (enc k) hi)) ->
  ks = interval_keys enc c lo hi.
Proof.
  intros S M. apply sorted_unique; [exact S|apply sort_by_sorted|].
  intro k. unfold interval_keys. rewrite sort_by_in, filter_In, core_keys_spec, andb_true_iff, !lex_leb_le. apply M.
Qed.
End SortBy.

(* ---- range and keys-only range reads of a refining store = the executable abstract answers ---- *)
Section AbsRanges.
Variable i : N.
Variable enc : N -> bytes.
Variable venc : N -> bytes.
Hypothesis Hi : id_ok i.
Hypothesis enc_inj : forall k1 k2, enc k1 = enc k2 -> k1 = k2.
Hypothesis enc_pf : forall k1 k2, prefix_free_pair (enc k1) (enc k2).
Variable c : core.
Variable s : KV.store.
Hypothesis R : Refines i enc venc c s.
Hypothesis I : CoreInv c.
Variable v : V.
Variables lo hi : bytes.
Hypothesis BLo : forall k, prefix_free_pair lo (enc k).
Hypothesis BHi : forall k, prefix_free_pair hi (enc k).
Hypothesis PF : prefix_free_pair lo hi.
Hypothesis LE : lex_le lo hi.

Lemma refine_get_range_abs :
  get_range (best_of_core c v) (rcx i v) lo hi s
  = res_map (map (fun kx => (enc (fst kx), venc (snd kx)))) (abs_get_range enc c v lo hi).
Proof.
  destruct (refine_get_range i enc venc Hi enc_inj enc_pf c s R I v lo hi BLo BHi PF LE) as (ks & E & S & M).
  rewrite E, vals_of_range_of_core. unfold abs_get_range, abs_gets.
  now rewrite (interval_keys_spec enc enc_inj c lo hi ks S M).
Qed.

Lemma refine_keys_in_range_abs :
  keys_in_range (best_of_core c v) (rcx i v) lo hi s = res_map (map enc) (abs_keys_in_range enc c v lo hi).
Proof.
  rewrite keys_in_range_as_get_range.
  destruct (refine_get_range i enc (fun _ => []) Hi enc_inj enc_pf c (strip true s) (refines_strip i enc venc c s R) I v lo hi BLo BHi PF LE)
    as (ks & E & S & M).
  rewrite E, keys_of_range_of_core. unfold abs_keys_in_range, abs_gets.
  now rewrite (interval_keys_spec enc enc_inj c lo hi ks S M).
Qed.
End AbsRanges.

(* ---- DeleteRange refines the abstract operation ---- *)
Lemma core_with_is_with_entry c k v e : core_with c k v e = with_entry c k v e.
Proof. reflexivity. Qed.

Lemma refines_delete_keys i enc venc : id_ok i -> (forall k1 k2, enc k1 = enc k2 -> k1 = k2) ->
  forall v, id_ok v -> forall ks c s, Refines i enc venc c s ->
  Refines i enc venc (core_delete_keys c v ks) (fold_left (fun acc t => delete (rcx i v) t acc) (map enc ks) s).
Proof.
  intros Hi EI v Hv ks. induction ks as [|k ks IH]; intros c s R; [exact R|].
  cbn [map fold_left core_delete_keys]. apply IH. rewrite core_with_is_with_entry. now apply refines_delete.
Qed.

Lemma refine_delete_range i enc venc : id_ok i -> (forall k1 k2, enc k1 = enc k2 -> k1 = k2) ->
  (forall k1 k2, prefix_free_pair (enc k1) (enc k2)) ->
  forall c s, Refines i enc venc c s -> CoreInv c -> forall v lo hi, id_ok v ->
  (forall k, prefix_free_pair lo (enc k)) -> (forall k, prefix_free_pair hi (enc k)) ->
  prefix_free_pair lo hi -> lex_le lo hi ->
  forall c', core_delete_range enc c v lo hi = Ok c' ->
  exists s', delete_range (best_of_core c v) (rcx i v) lo hi s = Ok s' /\ Refines i enc venc c' s'.
Proof.
  intros Hi EI EP c s R I v lo hi Hv BLo BHi PF LE c' D.
  unfold core_delete_range in D.
  pose proof (refine_keys_in_range_abs i enc venc Hi EI EP c s R I v lo hi BLo BHi PF LE) as K.
  destruct (abs_keys_in_range enc c v lo hi) as [ks| |]; try discriminate.
  cbn [res_map] in D, K. apply Ok_inj in D. subst c'.
  eexists. split; [apply delete_range_keys; exact K|].
  now apply refines_delete_keys.
Qed.

(* what the abstract operation does to the entries, and hence to every read *)
Lemma ent_of_delete_keys v ks : forall c k u,
  ent_of (core_delete_keys c v ks) k u = if existsb (N.eqb k) ks && (u =? v) then Some Tomb else ent_of c k u.
Proof.
  induction ks as [|a ks IH]; intros c k u; [reflexivity|].
  cbn [core_delete_keys fold_left existsb]. fold (core_delete_keys (core_with c a v Tomb) v ks). rewrite IH.
  destruct (existsb (N.eqb k) ks && (u =? v)) eqn:E.
  - apply andb_true_iff in E as [E1 E2]. now rewrite E1, E2, orb_true_r.
  - unfold ent_of at 1. cbn [core_with Core.store lookup_kv]. fold (ent_of c k u).
    destruct (k =? a) eqn:Ka; cbn [orb andb].
    + destruct (u =? v) eqn:Uv; [reflexivity|]. rewrite andb_false_r in *. reflexivity.
    + apply andb_false_iff in E. destruct E as [-> | ->]; [reflexivity|now rewrite andb_false_r].
Qed.

Lemma core_delete_keys_fields c v ks :
  next (core_delete_keys c v ks) = next c /\ dag (core_delete_keys c v ks) = dag c /\
  nodes (core_delete_keys c v ks) = nodes c /\ locked (core_delete_keys c v ks) = locked c.
Proof. revert c. induction ks as [|a ks IH]; intro c; [auto|]. cbn [core_delete_keys fold_left]. apply (IH (core_with c a v Tomb)). Qed.

Lemma core_delete_keys_inv c v ks : CoreInv c -> CoreInv (core_delete_keys c v ks).
Proof.
  intros [I1 I2 I3]. destruct (core_delete_keys_fields c v ks) as (E1 & E2 & E3 & E4).
  constructor; rewrite ?E1, ?E2, ?E3, ?E4; assumption.
Qed.

Section DeleteReads.
Variable c : core.
Hypothesis I : CoreInv c.
Variable v : V.
Variable ks : list N.
Let c' := core_delete_keys c v ks.
Let I' : CoreInv c' := core_delete_keys_inv c v ks I.
Let par_eq : cpar c' = cpar c.
Proof. unfold cpar, c'. destruct (core_delete_keys_fields c v ks) as (_ & -> & _). reflexivity. Qed.

(* a key of the list reads as absent at v *)
Lemma delete_keys_get_self k : In k ks -> get c' k v = RNone.
Proof.
  intro Hk. unfold get.
  change RNone with (match Tomb with Val x => RFound v x | Tomb => RNone end).
  eapply (read_self (cpar c') (crank c')).
  - apply crank_par. exact I'.
  - intro y. apply crank_fuel.
  - apply crank_fuel.
  - unfold c'. rewrite ent_of_delete_keys, N.eqb_refl, andb_true_r.
    replace (existsb (N.eqb k) ks) with true; [reflexivity|]. symmetry. apply existsb_exists. exists k. split; [exact Hk|apply N.eqb_refl].
Qed.

(* a version with a single parent and no entry of its own reads what the parent reads (any core) *)
Lemma core_get_inherit (c0 : core) k d p : CoreInv c0 -> cpar c0 d = [p] -> ent_of c0 k d = None ->
  get c0 k d = get c0 k p.
Proof.
  intros I0 P E. unfold get. eapply (read_inherit (cpar c0) (crank c0)).
  - apply crank_par. exact I0.
  - intro y. apply crank_fuel.
  - apply crank_fuel.
  - exact E.
  - exact P.
Qed.

(* ... so a child of v without its own entry no longer sees the key *)
Lemma delete_keys_get_child k d : In k ks -> cpar c d = [v] -> ent_of c k d = None -> get c' k d = RNone.
Proof.
  intros Hk P E. rewrite <- (delete_keys_get_self k Hk). apply core_get_inherit; [exact I'|now rewrite par_eq|].
  unfold c'. rewrite ent_of_delete_keys.
  assert (NE : d <> v).
  { intro H. subst d. pose proof (crank_par c I v v) as Q. rewrite P in Q. specialize (Q (or_introl eq_refl)). lia. }
  apply N.eqb_neq in NE. now rewrite NE, andb_false_r.
Qed.

(* other keys everywhere, and every key at versions that are not v or a descendant of v
   (ancestors, siblings, other branches), read what they read before *)
Lemma delete_keys_get_other k u : (~ In k ks \/ ~ anc (cpar c) v u) -> get c' k u = get c k u.
Proof.
  intro H. apply get_unique; [exact I'|]. rewrite par_eq.
  eapply read_spec_ext; [|apply get_spec; exact I].
  intros w A. split; [reflexivity|]. unfold c'. rewrite ent_of_delete_keys.
  destruct (existsb (N.eqb k) ks && (w =? v)) eqn:E; [|reflexivity]. exfalso.
  apply andb_true_iff in E as [E1 E2]. apply N.eqb_eq in E2. subst w.
  apply existsb_exists in E1 as (x & Hx & Ex). apply N.eqb_eq in Ex. subst x.
  destruct H as [H|H]; contradiction.
Qed.
End DeleteReads.

(* the keys the abstract DeleteRange removes: those of the interval that read as a value at v *)
Lemma keys_of_core_in l : forall ks, keys_of_core l = Ok ks ->
  forall k, In k ks <-> exists u x, In (k, RFound u x) l.
Proof.
  induction l as [|[a r] l IH]; intros ks E k.
  - apply Ok_inj in E. subst ks. split; [intros []|intros (u & x & [])].
  - destruct r as [u0 x0| | |]; cbn [keys_of_core] in E; try discriminate.
    + destruct (keys_of_core l) as [ks'| |] eqn:K; try discriminate. cbn [res_bind] in E. apply Ok_inj in E. subst ks.
      specialize (IH ks' eq_refl k). split.
      * intros [<-|H]; [exists u0, x0; now left|]. apply IH in H as (u & x & H). exists u, x. now right.
      * intros (u & x & [H|H]); [inversion H; now left|]. right. apply IH. now exists u, x.
    + specialize (IH ks E k). rewrite IH. split; intros (u & x & H); exists u, x; [now right|].
      destruct H as [H|H]; [discriminate|exact H].
Qed.

(* ---- keyvalue endpoints ---- *)
Section KvEndpoints.
Variable i : N.
Variable kstr : N -> bytes.
Variable venc : N -> bytes.
Hypothesis Hi : id_ok i.
Hypothesis kstr_inj : forall k1 k2, kstr k1 = kstr k2 -> k1 = k2.
Hypothesis kstr_nul : forall k, ~ In 0 (kstr k).
Hypothesis kstr_ne : forall k, kstr k <> [].
Notation enc := (kv_enc kstr).

Lemma kv_tkey_inj a b : kv_tkey a = kv_tkey b -> a = b.
Proof.
  unfold kv_tkey, tkey_of. cbn [kc_shape kc_keyvalue_NewTKey]. unfold new_tkey. intro E.
  inversion E as [H]. now apply app_inv_tail in H.
Qed.
Lemma kv_enc_inj k1 k2 : enc k1 = enc k2 -> k1 = k2.
Proof. intro E. apply kstr_inj. now apply kv_tkey_inj. Qed.
Lemma kv_tkey_pf a b : ~ In 0 a -> ~ In 0 b -> prefix_free_pair (kv_tkey a) (kv_tkey b).
Proof. intros Ha Hb. unfold kv_tkey. apply tkey_of_prefix_free; exact Ha || exact Hb. Qed.
Lemma kv_enc_pf k1 k2 : prefix_free_pair (enc k1) (enc k2).
Proof. apply kv_tkey_pf; apply kstr_nul. Qed.

Lemma kv_new_tkey_ok a : ~ In 0 a -> kv_new_tkey a = Ok (kv_tkey a).
Proof.
  intro Ha. unfold kv_new_tkey. replace (existsb (N.eqb 0) a) with false; [reflexivity|].
  symmetry. apply not_true_is_false. intro H. apply existsb_exists in H as (x & Hx & Ex).
  apply N.eqb_eq in Ex. subst x. contradiction.
Qed.

Lemma decode_all_enc ks : decode_all (map enc ks) = Ok (map kstr ks).
Proof.
  induction ks as [|k ks IH]; [reflexivity|]. cbn [map decode_all]. unfold kv_enc at 1, kv_tkey.
  rewrite (decode_term_tkey_of kc_keyvalue_NewTKey 0 (kstr k) eq_refl (kstr_ne k)). cbn [res_bind].
  now rewrite IH.
Qed.

Variable c : core.
Variable s : KV.store.
Hypothesis R : Refines i enc venc c s.
Hypothesis I : CoreInv c.
Variable v : V.

(* GET key/k *)
Lemma refine_kv_get_data k :
  kv_get_data (best_of_core c v) (rcx i v) (kstr k) s = Ok (point_of venc (get c k v)).
Proof.
  unfold kv_get_data. rewrite (kv_new_tkey_ok _ (kstr_nul k)). cbn [res_bind]. f_equal.
  exact (refine_point_get i enc venc Hi kv_enc_inj c s R I k v).
Qed.

Lemma res_map_bind {B} (f : list N -> B) (g : B -> res (list bytes)) (r : res (list N)) :
  (forall a, g (f a) = Ok (map kstr a)) -> res_bind (res_map f r) g = res_map (map kstr) r.
Proof. intro H. destruct r; simpl; auto. Qed.

(* GET keyrange/a/b *)
Lemma refine_kv_keyrange a b : ~ In 0 a -> ~ In 0 b -> lex_le a b ->
  kv_keyrange (best_of_core c v) (rcx i v) a b s
  = res_map (map kstr) (abs_keys_in_range enc c v (kv_tkey a) (kv_tkey b)).
Proof.
  intros Ha Hb LE. unfold kv_keyrange. rewrite (kv_new_tkey_ok a Ha), (kv_new_tkey_ok b Hb). cbn [res_bind].
  rewrite (refine_keys_in_range_abs i enc venc Hi kv_enc_inj kv_enc_pf c s R I v (kv_tkey a) (kv_tkey b)).
  - apply res_map_bind. exact decode_all_enc.
  - intro k. apply kv_tkey_pf; [exact Ha|apply kstr_nul].
  - intro k. apply kv_tkey_pf; [exact Hb|apply kstr_nul].
  - now apply kv_tkey_pf.
  - unfold lex_le. now rewrite kv_string_order.
Qed.

Lemma class_bound_pf m k : m <> n_tkeyStandardByte -> prefix_free_pair [177; m] (enc k).
Proof.
  intro H. unfold kv_enc, kv_tkey, tkey_of. cbn [kc_shape kc_class kc_keyvalue_NewTKey]. unfold new_tkey.
  apply prefix_free_pair_cons. now apply prefix_free_pair_head.
Qed.

(* GET keys *)
Lemma refine_kv_keys :
  kv_keys (best_of_core c v) (rcx i v) s
  = res_map (map kstr) (abs_keys_in_range enc c v (min_tkey 177) (max_tkey 177)).
Proof.
  unfold kv_keys. cbn [kc_class kc_keyvalue_NewTKey].
  rewrite (refine_keys_in_range_abs i enc venc Hi kv_enc_inj kv_enc_pf c s R I v (min_tkey 177) (max_tkey 177)).
  - apply res_map_bind. exact decode_all_enc.
  - intro k. apply class_bound_pf. vm_compute. discriminate.
  - intro k. apply class_bound_pf. vm_compute. discriminate.
  - apply prefix_free_pair_eqlen. reflexivity.
  - vm_compute. discriminate.
Qed.

(* ... and GET keys lists every abstract key: the class bounds enclose every key string *)
Lemma kv_class_encloses k : lex_leb (min_tkey 177) (enc k) && lex_leb (enc k) (max_tkey 177) = true.
Proof.
  unfold kv_enc, kv_tkey, tkey_of. cbn [kc_shape kc_class kc_keyvalue_NewTKey]. unfold new_tkey, min_tkey, max_tkey, lex_leb.
  rewrite !lex_compare_cons. reflexivity.
Qed.
Lemma kv_keys_all : interval_keys enc c (min_tkey 177) (max_tkey 177) = sort_by enc (core_keys c).
Proof.
  unfold interval_keys. f_equal. induction (core_keys c) as [|k l IH]; [reflexivity|].
  cbn [filter]. rewrite kv_class_encloses. now rewrite IH.
Qed.

(* GET keyrangevalues/a/b *)
Lemma refine_kv_keyrangevalues a b : ~ In 0 a -> ~ In 0 b -> lex_le a b ->
  kv_keyrangevalues (best_of_core c v) (rcx i v) a b s
  = res_map (map (fun kx => (kstr (fst kx), venc (snd kx)))) (abs_get_range enc c v (kv_tkey a) (kv_tkey b)).
Proof.
  intros Ha Hb LE. unfold kv_keyrangevalues. rewrite (kv_new_tkey_ok a Ha), (kv_new_tkey_ok b Hb). cbn [res_bind].
  rewrite (refine_get_range_abs i enc venc Hi kv_enc_inj kv_enc_pf c s R I v (kv_tkey a) (kv_tkey b)).
  - destruct (abs_get_range enc c v (kv_tkey a) (kv_tkey b)) as [l| |]; cbn [res_map res_bind]; try reflexivity.
    induction l as [|[k x] l IH]; [reflexivity|]. cbn [map fst snd]. unfold kv_enc at 1, kv_tkey.
    rewrite (decode_term_tkey_of kc_keyvalue_NewTKey 0 (kstr k) eq_refl (kstr_ne k)). cbn [res_bind].
    fold (kv_tkey). rewrite IH. reflexivity.
  - intro k. apply kv_tkey_pf; [exact Ha|apply kstr_nul].
  - intro k. apply kv_tkey_pf; [exact Hb|apply kstr_nul].
  - now apply kv_tkey_pf.
  - unfold lex_le. now rewrite kv_string_order.
Qed.
End KvEndpoints.

(* which keys a keys-only listing of [lo, hi] at v reports (and DeleteRange removes): exactly the
   abstract keys that encode into the interval and read as a value at v *)
Lemma abs_keys_in_range_spec enc : (forall k1 k2, enc k1 = enc k2 -> k1 = k2) ->
  forall c, CoreInv c -> forall v lo hi ks, abs_keys_in_range enc c v lo hi = Ok ks ->
  forall k, In k ks <-> (lex_le lo (enc k) /\ lex_le (enc k) hi /\ exists u x, get c k v = RFound u x).
Proof.
  intros EI c I v lo hi ks E k. unfold abs_keys_in_range in E. rewrite (keys_of_core_in _ ks E k).
  unfold abs_gets, interval_keys. split.
  - intros (u & x & H). apply in_map_iff in H as (k' & EQ & H). inversion EQ as [[E1 E2]]. subst k'.
    rewrite (sort_by_in enc EI) in H. apply filter_In in H as [_ H]. apply andb_true_iff in H as [H1 H2].
    apply lex_leb_le in H1, H2. split; [exact H1|]. split; [exact H2|]. now exists u, x.
  - intros (L1 & L2 & u & x & G). exists u, x. apply in_map_iff. exists k. split; [now rewrite G|].
    rewrite (sort_by_in enc EI). apply filter_In. split.
    + apply core_keys_spec. exists u. pose proof (get_spec c k v I) as SP. rewrite G in SP.
      destruct SP as (_ & EU & _). fold (cpar c) in EU. congruence.
    + apply andb_true_iff. split; now apply lex_leb_le.
Qed.
