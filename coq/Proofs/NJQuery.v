(* Proofs.NJQuery: POST query leaves the whole neuronjson state alone. *)
From DV Require Import Base.Prelude Model.NJ Model.NJQuery.
Local Open Scope N_scope.

Lemma post_query_state rx V s q : fst (post_query rx V s q) = s.
Proof. unfold post_query. destruct (q_body q) as [|[|a l]]; reflexivity. Qed.

(* every component named, so that nothing hides behind the record *)
Lemma post_query_components rx V s q :
  let s' := fst (post_query rx V s q) in
  st_head s' = st_head s /\ st_parents s' = st_parents s /\ st_branch s' = st_branch s
  /\ st_mem s' = st_mem s /\ st_bmem s' = st_bmem s /\ st_static s' = st_static s
  /\ m_fields (st_mem s') = m_fields (st_mem s) /\ m_ftimes (st_mem s') = m_ftimes (st_mem s)
  /\ m_ids (st_mem s') = m_ids (st_mem s)
  /\ st_mmeta s' = st_mmeta s /\ st_compiled s' = st_compiled s /\ st_locked s' = st_locked s
  /\ st_cfg s' = st_cfg s.
Proof. cbv zeta. rewrite post_query_state. repeat split. Qed.

Lemma run_reqs_erase rx V : forall h s, run_reqs rx V s h = run V s (erase_queries h).
Proof.
  induction h as [|[o|q] r IH]; intro s; cbn [run_reqs erase_queries flat_map app run]; [reflexivity| |].
  - fold (erase_queries r). destruct (step V s o) as [s' [u| |]]; try apply IH; reflexivity.
  - fold (erase_queries r). rewrite post_query_state. apply IH.
Qed.

(* a query answers what the read request answers on the state it finds: the answer of every later
   request is therefore the one it would have got had the queries not been sent *)
Lemma later_reads_unaffected rx V h s s' : run_reqs rx V s h = Ok s' ->
  run V s (erase_queries h) = Ok s' /\
  forall ref r, read_ref rx V s' ref r = match run V s (erase_queries h) with Ok t => read_ref rx V t ref r | _ => None end.
Proof. intro H. rewrite <- (run_reqs_erase rx V h s), H. split; reflexivity. Qed.

(* non-vacuity: a history with queries of every kind of body that runs, and answers something *)
Definition qh_sample : list req :=
  [ROp (OpPost 10 [(s_bodyid, JNum 10); ([97], JNum 1)] [] [117] [] false [48]);
   RPostQuery (mkQ (VM 0) (QParsed [[([97], JNum 1)]]) true [] (mkShow false false));
   RPostQuery (mkQ (VM 0) QUnparsable false [] (mkShow false false));
   RPostQuery (mkQ (VM 0) (QParsed []) false [] (mkShow false false));
   RPostQuery (mkQ (VM 3) (QParsed [[([97], JNum 1)]]) false [] (mkShow false false));
   ROp OpCommit; ROp OpNewVersion;
   RPostQuery (mkQ (VM 0) (QParsed [[([97], JNum 1)]]) true [] (mkShow false false));
   ROp (OpDelete 10);
   RPostQuery (mkQ (VM 1) (QParsed [[([97], JNum 1)]]) true [] (mkShow false false))].
Lemma qh_sample_runs :
  (exists s, run_reqs (fun _ => None) repaired init_state qh_sample = Ok s /\ m_ids (st_mem s) = [])
  /\ query_answers (fun _ => None) repaired init_state qh_sample
     = [Some (XIds [10]); Some XErr; Some XErr; None; Some (XIds [10]); Some (XIds [])].
Proof. split; [eexists; split|]; vm_compute; reflexivity. Qed.
