(* Proofs.BlockMarshal: UnmarshalBinary (MarshalBinary b) = b for every well-formed block. *)
From DV Require Import Base.Prelude Base.Int Base.BitPack Model.Block Proofs.BitPack Proofs.Block Gen.Consts.
From Coq Require Import ZifyN ZifyNat ZifyBool.
Ltac Zify.zify_post_hook ::= Z.div_mod_to_equations.
Local Open Scope N_scope.

(* ---------------- unmarshal (marshal b) = b ---------------- *)

Lemma take_app {A} (a r : list A) n :
  n = length a -> firstn n (a ++ r) = a /\ skipn n (a ++ r) = r.
Proof.
  intros ->. split.
  - rewrite firstn_app, firstn_all, Nat.sub_diag. simpl. now rewrite app_nil_r.
  - rewrite skipn_app, skipn_all, Nat.sub_diag. reflexivity.
Qed.

Lemma flat_le_length w (l : list N) : length (flat_map (le_enc w) l) = (w * length l)%nat.
Proof.
  induction l as [|x l IH]; cbn [flat_map length]; [lia|].
  rewrite app_length, le_enc_length, IH. lia.
Qed.

Lemma words_flat w (l : list N) rest :
  Forall (fun x => x < 256 ^ N.of_nat w) l ->
  words w (length l) (flat_map (le_enc w) l ++ rest) = l.
Proof.
  induction 1 as [|x l Hx _ IH]; [reflexivity|].
  cbn [length flat_map words]. rewrite <- app_assoc.
  destruct (take_app (le_enc w x) (flat_map (le_enc w) l ++ rest) w) as [F S];
    [now rewrite le_enc_length|].
  rewrite F, S, IH. f_equal. now apply le_dec_enc.
Qed.

Lemma hdr4 (a b c d rest : bytes) :
  length a = 4%nat -> length b = 4%nat -> length c = 4%nat -> length d = 4%nat ->
  firstn 4 (a ++ b ++ c ++ d ++ rest) = a /\ firstn 4 (skipn 4 (a ++ b ++ c ++ d ++ rest)) = b /\
  firstn 4 (skipn 8 (a ++ b ++ c ++ d ++ rest)) = c /\ firstn 4 (skipn 12 (a ++ b ++ c ++ d ++ rest)) = d /\
  skipn 16 (a ++ b ++ c ++ d ++ rest) = rest.
Proof.
  intros La Lb Lc Ld.
  destruct (take_app a (b ++ c ++ d ++ rest) 4 (eq_sym La)) as [F1 S1].
  destruct (take_app b (c ++ d ++ rest) 4 (eq_sym Lb)) as [F2 S2].
  destruct (take_app c (d ++ rest) 4 (eq_sym Lc)) as [F3 S3].
  destruct (take_app d rest 4 (eq_sym Ld)) as [F4 S4].
  destruct (take_app (a ++ b) (c ++ d ++ rest) 8) as [_ S8]; [rewrite app_length; lia|].
  destruct (take_app (a ++ b ++ c) (d ++ rest) 12) as [_ S12]; [rewrite !app_length; lia|].
  destruct (take_app (a ++ b ++ c ++ d) rest 16) as [_ S16]; [rewrite !app_length; lia|].
  repeat rewrite <- app_assoc in S8. repeat rewrite <- app_assoc in S12. repeat rewrite <- app_assoc in S16.
  rewrite F1, S1, F2, S8, F3, S12, F4, S16. repeat split.
Qed.

Definition marshal_wf (b : block) : Prop :=
  b_gx b <= 128 /\ b_gy b <= 128 /\ b_gz b <= 128 /\
  Forall (fun l => l < 2 ^ 64) (b_labels b) /\
  match b_labels b with
  | [] => False
  | [_] => b_nsb b = [] /\ b_idx b = [] /\ b_vals b = []
  | _ =>
    N.of_nat (length (b_nsb b)) = b_gx b * b_gy b * b_gz b /\ 0 < b_gx b * b_gy b * b_gz b /\
    Forall (fun n => n < 2 ^ 16) (b_nsb b) /\
    N.of_nat (length (b_idx b)) = sum_N (b_nsb b) /\ 0 < sum_N (b_nsb b) /\
    Forall (fun i => i < 2 ^ 32) (b_idx b) /\
    N.of_nat (length (marshal b)) < 2 ^ 32
  end.

Lemma marshal_parts b :
  marshal b = (le_enc 4 (b_gx b) ++ le_enc 4 (b_gy b) ++ le_enc 4 (b_gz b) ++
               le_enc 4 (N.of_nat (length (b_labels b)))) ++
              flat_map (le_enc 8) (b_labels b) ++
              match b_labels b with
              | [] | [_] => []
              | _ => flat_map (le_enc 2) (b_nsb b) ++ flat_map (le_enc 4) (b_idx b) ++ b_vals b
              end.
Proof. unfold marshal. now rewrite <- !app_assoc. Qed.

Theorem unmarshal_marshal b : marshal_wf b -> unmarshal (marshal b) = Ok b.
Proof.
  intros [Gx [Gy [Gz [HL W]]]].
  destruct b as [gx gy gz labels nsb idx vals]. cbn [b_gx b_gy b_gz b_labels b_nsb b_idx b_vals] in *.
  set (n := N.of_nat (length labels)) in *.
  set (hdr := le_enc 4 gx ++ le_enc 4 gy ++ le_enc 4 gz ++ le_enc 4 n).
  set (lab := flat_map (le_enc 8) labels).
  assert (Lhdr : length hdr = 16%nat) by (unfold hdr; rewrite !app_length, !le_enc_length; reflexivity).
  assert (Llab : length lab = (8 * length labels)%nat) by apply flat_le_length.
  assert (Hn1 : 1 <= n) by (destruct labels; [contradiction | unfold n; simpl length; lia]).
  (* header fields of any buffer that starts with hdr *)
  assert (Hdr : forall rest,
    le_dec (firstn 4 (hdr ++ rest)) = gx /\ le_dec (firstn 4 (skipn 4 (hdr ++ rest))) = gy /\
    le_dec (firstn 4 (skipn 8 (hdr ++ rest))) = gz /\ le_dec (firstn 4 (skipn 12 (hdr ++ rest))) = n /\
    skipn 16 (hdr ++ rest) = rest).
  { intro rest. unfold hdr. rewrite <- !app_assoc.
    assert (Bn : n < 256 ^ N.of_nat 4).
    { destruct labels as [|l1 [|l2 ls]]; [contradiction| unfold n; simpl; lia |].
      destruct W as [_ [_ [_ [_ [_ [_ W]]]]]]. rewrite marshal_parts in W.
      cbn [b_gx b_gy b_gz b_labels b_nsb b_idx b_vals] in W.
      rewrite !app_length, flat_le_length in W. fold n in W. simpl in *. lia. }
    destruct (hdr4 (le_enc 4 gx) (le_enc 4 gy) (le_enc 4 gz) (le_enc 4 n) rest) as [A1 [A2 [A3 [A4 S]]]];
      try apply le_enc_length.
    rewrite A1, A2, A3, A4, S.
    rewrite !le_dec_enc by (try exact Bn; simpl; lia). repeat split. }
  destruct labels as [|l1 [|l2 ls]]; [contradiction| |].
  - (* solid *)
    destruct W as [-> [-> ->]].
    assert (Em : marshal (mkBlock gx gy gz [l1] [] [] []) = hdr ++ lab).
    { rewrite marshal_parts. cbn [b_gx b_gy b_gz b_labels b_nsb b_idx b_vals]. rewrite app_nil_r. reflexivity. }
    rewrite Em. clear Em.
    unfold unmarshal, unmarshal_gen.
    assert (Llen : length (hdr ++ lab) = 24%nat) by (rewrite app_length, Lhdr, Llab; reflexivity).
    rewrite Llen. cbn [N.of_nat Pos.of_succ_nat Pos.succ N.ltb N.compare Pos.compare Pos.compare_cont].
    change ((24 + 7) / 8 * 8 - 24) with 0. cbn [N.to_nat repeat]. rewrite app_nil_r.
    destruct (Hdr lab) as [A1 [A2 [A3 [A4 S]]]]. rewrite A1, A2, A3, A4, S.
    unfold n. cbn [length N.of_nat Pos.of_succ_nat].
    change (1 =? 0) with false. cbn iota.
    replace ((n_MaxSubBlockSize <? gx) || (n_MaxSubBlockSize <? gy) || (n_MaxSubBlockSize <? gz)) with false
      by (symmetry; rewrite !orb_false_iff; change n_MaxSubBlockSize with 128; repeat split; apply N.ltb_ge; lia).
    change (n_MaxBlockSize * n_MaxBlockSize * n_MaxBlockSize <? 1) with false.
    change ((16 + 1 * 8) mod 2 ^ 32) with 24. change ((24 + 7) / 8 * 8) with 24.
    change ((24 <? 16) || (24 <? 24)) with false. change (24 =? 16) with false.
    change ((24 - 16) / 8) with 1. change (1 <=? 1) with true. cbn iota.
    change (N.to_nat 1) with (length [l1]). unfold lab.
    rewrite <- (app_nil_r (flat_map (le_enc 8) [l1])).
    rewrite words_flat by exact HL. reflexivity.
  - (* general *)
    destruct W as [Wn [Wpos [Wnsb [Wi [Wipos [Widx Wlen]]]]]].
    set (labels := l1 :: l2 :: ls) in *.
    set (nsbB := flat_map (le_enc 2) nsb). set (idxB := flat_map (le_enc 4) idx).
    assert (Lnsb : length nsbB = (2 * length nsb)%nat) by apply flat_le_length.
    assert (Lidx : length idxB = (4 * length idx)%nat) by apply flat_le_length.
    assert (Em : marshal (mkBlock gx gy gz labels nsb idx vals) = hdr ++ lab ++ nsbB ++ idxB ++ vals).
    { rewrite marshal_parts. reflexivity. }
    rewrite Em in *. clear Em.
    set (nsbs := gx * gy * gz) in *.
    assert (Hlen : N.of_nat (length (hdr ++ lab ++ nsbB ++ idxB ++ vals))
                   = 16 + 8 * n + 2 * nsbs + 4 * sum_N nsb + N.of_nat (length vals)).
    { rewrite !app_length, Lhdr, Llab, Lnsb, Lidx. fold n. lia. }
    assert (Hn2 : 2 <= n) by (unfold n, labels; simpl length; lia).
    unfold unmarshal, unmarshal_gen.
    set (data := hdr ++ lab ++ nsbB ++ idxB ++ vals) in *.
    set (len := N.of_nat (length data)) in *.
    replace (len <? 24) with false by (symmetry; apply N.ltb_ge; lia).
    set (cap := (len + 7) / 8 * 8).
    assert (Hcap : len <= cap) by (unfold cap; lia).
    set (zeros := repeat 0 (N.to_nat (cap - len))).
    assert (Ebuf : data ++ zeros = hdr ++ lab ++ nsbB ++ idxB ++ vals ++ zeros)
      by (unfold data; now rewrite <- !app_assoc).
    rewrite Ebuf.
    destruct (Hdr (lab ++ nsbB ++ idxB ++ vals ++ zeros)) as [A1 [A2 [A3 [A4 S]]]].
    rewrite A1, A2, A3, A4, S.
    replace (n =? 0) with false by (symmetry; apply N.eqb_neq; lia).
    replace ((n_MaxSubBlockSize <? gx) || (n_MaxSubBlockSize <? gy) || (n_MaxSubBlockSize <? gz)) with false
      by (symmetry; rewrite !orb_false_iff; change n_MaxSubBlockSize with 128; repeat split; apply N.ltb_ge; lia).
    replace (n_MaxBlockSize * n_MaxBlockSize * n_MaxBlockSize <? n) with false
      by (symmetry; apply N.ltb_ge; change (n_MaxBlockSize * n_MaxBlockSize * n_MaxBlockSize) with 1073741824; lia).
    assert (Ehi : (16 + n * 8) mod 2 ^ 32 = 16 + 8 * n) by (rewrite N.mod_small; lia).
    rewrite Ehi.
    replace ((16 + 8 * n <? 16) || (cap <? 16 + 8 * n)) with false
      by (symmetry; rewrite orb_false_iff; split; apply N.ltb_ge; lia).
    replace (16 + 8 * n =? 16) with false by (symmetry; apply N.eqb_neq; lia).
    replace ((16 + 8 * n - 16) / 8) with n by lia.
    replace (n <=? 1) with false by (symmetry; apply N.leb_gt; lia).
    assert (Elab : words 8 (N.to_nat n) (lab ++ nsbB ++ idxB ++ vals ++ zeros) = labels).
    { unfold n. rewrite Nat2N.id. unfold lab. apply words_flat. exact HL. }
    rewrite Elab.
    assert (Ensbs : (gx * gy * gz) mod 2 ^ 32 = nsbs) by (apply N.mod_small; unfold nsbs; nia).
    rewrite Ensbs.
    assert (Enb : (nsbs * 2) mod 2 ^ 32 = 2 * nsbs) by (rewrite N.mod_small; lia).
    rewrite Enb.
    assert (Ehi2 : (16 + 8 * n + 2 * nsbs) mod 2 ^ 32 = 16 + 8 * n + 2 * nsbs) by (rewrite N.mod_small; lia).
    rewrite Ehi2.
    replace ((16 + 8 * n + 2 * nsbs <? 16 + 8 * n) || (cap <? 16 + 8 * n + 2 * nsbs)) with false
      by (symmetry; rewrite orb_false_iff; split; apply N.ltb_ge; lia).
    replace (2 * nsbs =? 0) with false by (symmetry; apply N.eqb_neq; lia).
    (* skipping header and labels *)
    assert (Sk1 : skipn (N.to_nat (16 + 8 * n)) (hdr ++ lab ++ nsbB ++ idxB ++ vals ++ zeros)
                  = nsbB ++ idxB ++ vals ++ zeros).
    { rewrite app_assoc. apply take_app. rewrite app_length, Lhdr, Llab. unfold n. lia. }
    rewrite Sk1.
    assert (Ensb : words 2 (N.to_nat (2 * nsbs / 2)) (nsbB ++ idxB ++ vals ++ zeros) = nsb).
    { replace (N.to_nat (2 * nsbs / 2)) with (length nsb) by lia. unfold nsbB. apply words_flat. exact Wnsb. }
    rewrite Ensb.
    assert (Eni : sum_N nsb mod 2 ^ 32 = sum_N nsb) by (apply N.mod_small; lia).
    rewrite Eni.
    assert (Eib : (sum_N nsb * 4) mod 2 ^ 32 = 4 * sum_N nsb) by (rewrite N.mod_small; lia).
    rewrite Eib.
    assert (Ehi3 : (16 + 8 * n + 2 * nsbs + 4 * sum_N nsb) mod 2 ^ 32 = 16 + 8 * n + 2 * nsbs + 4 * sum_N nsb)
      by (rewrite N.mod_small; lia).
    rewrite Ehi3.
    replace ((16 + 8 * n + 2 * nsbs + 4 * sum_N nsb <? 16 + 8 * n + 2 * nsbs)
             || (cap <? 16 + 8 * n + 2 * nsbs + 4 * sum_N nsb)) with false
      by (symmetry; rewrite orb_false_iff; split; apply N.ltb_ge; lia).
    replace (4 * sum_N nsb =? 0) with false by (symmetry; apply N.eqb_neq; lia).
    cbn [andb].
    replace (len <? 16 + 8 * n + 2 * nsbs + 4 * sum_N nsb) with false by (symmetry; apply N.ltb_ge; lia).
    assert (Sk2 : skipn (N.to_nat (16 + 8 * n + 2 * nsbs)) (hdr ++ lab ++ nsbB ++ idxB ++ vals ++ zeros)
                  = idxB ++ vals ++ zeros).
    { rewrite (app_assoc hdr), (app_assoc (hdr ++ lab)). apply take_app.
      rewrite !app_length, Lhdr, Llab, Lnsb. unfold n. lia. }
    rewrite Sk2.
    assert (Eidx : words 4 (N.to_nat (4 * sum_N nsb / 4)) (idxB ++ vals ++ zeros) = idx).
    { replace (N.to_nat (4 * sum_N nsb / 4)) with (length idx) by lia. unfold idxB. apply words_flat. exact Widx. }
    rewrite Eidx.
    assert (Sk3 : skipn (N.to_nat (16 + 8 * n + 2 * nsbs + 4 * sum_N nsb)) data = vals).
    { unfold data. rewrite (app_assoc hdr), (app_assoc (hdr ++ lab)), (app_assoc ((hdr ++ lab) ++ nsbB)).
      apply take_app. rewrite !app_length, Lhdr, Llab, Lnsb, Lidx. unfold n. lia. }
    rewrite Sk3. reflexivity.
Qed.

(* ---------------- encoder outputs are well-formed for marshalling ---------------- *)

Lemma sum_N_acc l : forall a, fold_left N.add l a = a + sum_N l.
Proof.
  unfold sum_N. induction l as [|x l IH]; intro a; simpl; [lia|].
  rewrite IH, (IH x). lia.
Qed.

Lemma sum_N_cons x l : sum_N (x :: l) = x + sum_N l.
Proof. unfold sum_N at 1. simpl. apply sum_N_acc. Qed.

Lemma Sem_counts labels ns idx vals voxs :
  Sem labels ns idx vals voxs ->
  N.of_nat (length idx) = sum_N ns /\ Forall (fun n => 1 <= n <= 512) ns /\
  Forall (fun ix => ix < N.of_nat (length labels)) idx.
Proof.
  induction 1 as [|ixs vs vox ns idx vals voxs Hsb _ [IH1 [IH2 IH3]]].
  - repeat split; constructor.
  - destruct Hsb as [Hn [Hix _]]. split; [|split].
    + rewrite app_length, sum_N_cons. lia.
    + constructor; assumption.
    + apply Forall_app. split; assumption.
Qed.

Lemma Sem_sum_pos labels ns idx vals voxs :
  Sem labels ns idx vals voxs -> voxs <> [] -> 0 < sum_N ns /\ 0 < N.of_nat (length labels).
Proof.
  destruct 1 as [|ixs vs vox ns idx vals voxs Hsb _]; intro H; [congruence|].
  destruct Hsb as [Hn [Hix _]]. rewrite sum_N_cons. split; [lia|].
  destruct ixs as [|ix ixs']; [simpl in Hn; lia|]. inversion Hix; subst. lia.
Qed.

Theorem encode_marshal_wf tbl vol wx wy wz ox oy oz gx gy gz b :
  encode_at tbl vol wx wy wz ox oy oz gx gy gz = Ok b ->
  Forall (fun l => l < 2 ^ 64) tbl -> N.of_nat (length (marshal b)) < 2 ^ 32 ->
  marshal_wf b.
Proof.
  intros E HT HL.
  assert (exists sbs, gather vol wx wy ox oy oz gx gy gz = Ok sbs) as [sbs G].
  { unfold encode_at, encode_gen in E. destruct (negb (size_checks _ _ _ _ _ _ _ _ _)); [discriminate|].
    destruct (gather vol wx wy ox oy oz gx gy gz) as [sbs| |]; [eauto|discriminate|discriminate]. }
  assert (SC : 2 <= gx <= 128 /\ 2 <= gy <= 128 /\ 2 <= gz <= 128).
  { unfold encode_at, encode_gen in E. destruct (size_checks wx wy wz ox oy oz gx gy gz) eqn:SC; [|discriminate].
    unfold size_checks in SC. rewrite !andb_true_iff, !negb_true_iff, !orb_false_iff in SC.
    change n_MaxSubBlockSize with 128 in SC.
    destruct SC as [[[_ [[A1 A2] A3]] _] [[B1 B2] B3]].
    apply N.ltb_ge in A1, A2, A3, B1, B2, B3. lia. }
  destruct (encode_at_sem _ _ _ _ _ _ _ _ _ _ _ _ _ G E) as [Ex [Ey [Ez [El Cases]]]].
  destruct (gather_lengths _ _ _ _ _ _ _ _ _ _ G) as [GL _].
  unfold marshal_wf. rewrite Ex, Ey, Ez, El.
  split; [lia|]. split; [lia|]. split; [lia|]. split; [exact HT|].
  destruct Cases as [[l [Et Eb]] | [Hne S]].
  - subst tbl b. cbn. repeat split.
  - destruct (Sem_counts _ _ _ _ _ S) as [C1 [C2 C3]].
    pose proof (Sem_length _ _ _ _ _ S) as SL.
    assert (Hpos : 0 < gx * gy * gz) by nia.
    destruct tbl as [|l1 [|l2 t]].
    + (* an empty table cannot index any label *)
      exfalso. assert (sbs <> []) as NE by (intro; subst; simpl in GL; lia).
      destruct (Sem_sum_pos _ _ _ _ _ S NE) as [_ P]. simpl in P. lia.
    + exfalso. exact (Hne l1 eq_refl).
    + split; [lia|]. split; [exact Hpos|].
      split; [eapply Forall_impl; [|exact C2]; simpl; intros; lia|].
      split; [exact C1|]. split.
      * assert (sbs <> []) as NE by (intro; subst; simpl in GL; lia).
        exact (proj1 (Sem_sum_pos _ _ _ _ _ S NE)).
      * split; [|exact HL].
        eapply Forall_impl; [|exact C3]. simpl. intros ix Hix.
        rewrite marshal_parts, !app_length, flat_le_length, El in HL. simpl length in *. lia.
Qed.
