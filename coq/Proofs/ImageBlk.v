(* Proofs.ImageBlk: the block <-> buffer transfers of datatype/imageblk move every voxel to the
   right place, for every geometry (C17). *)
From DV Require Import Base.Prelude Base.WrapZ Model.Geometry Model.ROI Model.ImageBlk Proofs.Geometry Proofs.ROI.
From Coq Require Import ZifyBool ZifyNat Sorting.Sorted.
Local Open Scope Z_scope.

(* byte k of a buffer (0 outside) *)
Definition nthZ (l : bytes) (k : Z) : N := if k <? 0 then 0%N else nth (Z.to_nat k) l 0%N.

Lemma nthZ_app_l a b k : 0 <= k < zlen a -> nthZ (a ++ b) k = nthZ a k.
Proof. unfold nthZ, zlen. intro H. replace (k <? 0) with false by lia. apply app_nth1. lia. Qed.
Lemma nthZ_app_r a b k : zlen a <= k -> nthZ (a ++ b) k = nthZ b (k - zlen a).
Proof.
  unfold nthZ, zlen. intro H. replace (k <? 0) with false by lia. replace (k - Z.of_nat (length a) <? 0) with false by lia.
  rewrite app_nth2 by lia. f_equal. lia.
Qed.
Lemma nthZ_firstn l n k : 0 <= k < Z.of_nat n -> nthZ (firstn n l) k = nthZ l k.
Proof.
  unfold nthZ. intro H. replace (k <? 0) with false by lia.
  rewrite <- (firstn_skipn n l) at 2.
  destruct (Nat.lt_ge_cases (Z.to_nat k) (length (firstn n l))) as [L|G].
  - now rewrite app_nth1.
  - rewrite (nth_overflow (firstn n l)) by lia. rewrite firstn_length in G.
    assert (length l <= Z.to_nat k)%nat by lia. rewrite firstn_skipn. now rewrite nth_overflow.
Qed.
Lemma nthZ_skipn l n k : 0 <= k -> nthZ (skipn n l) k = nthZ l (k + Z.of_nat n).
Proof.
  unfold nthZ. intro H. replace (k <? 0) with false by lia. replace (k + Z.of_nat n <? 0) with false by lia.
  rewrite <- (firstn_skipn n l) at 2.
  destruct (Nat.le_gt_cases n (length l)) as [L|G].
  - rewrite app_nth2 by (rewrite firstn_length; lia). rewrite firstn_length. f_equal. lia.
  - rewrite skipn_all2 by lia. rewrite app_nil_r, firstn_all2 by lia.
    rewrite (nth_overflow l) by lia. destruct (Z.to_nat k); reflexivity.
Qed.

Lemma copy_seg_spec dst di src si n :
  0 <= n -> 0 <= di -> di + n <= zlen dst -> 0 <= si -> si + n <= zlen src ->
  exists d, copy_seg dst di src si n = Ok d /\ zlen d = zlen dst
    /\ (forall t, 0 <= t < n -> nthZ d (di + t) = nthZ src (si + t))
    /\ (forall k, ~ (di <= k < di + n) -> nthZ d k = nthZ dst k).
Proof.
  intros Hn Hdi Hd Hsi Hs. unfold copy_seg.
  replace ((0 <=? n) && (0 <=? di) && (di + n <=? zlen dst) && (0 <=? si) && (si + n <=? zlen src)) with true by lia.
  eexists. split; [reflexivity|]. unfold zlen in *.
  assert (L1 : length (firstn (Z.to_nat di) dst) = Z.to_nat di) by (rewrite firstn_length; lia).
  assert (L2 : length (firstn (Z.to_nat n) (skipn (Z.to_nat si) src)) = Z.to_nat n)
    by (rewrite firstn_length, skipn_length; lia).
  split; [|split].
  - rewrite !app_length, L1, L2, skipn_length. lia.
  - intros t Ht. rewrite nthZ_app_r by (unfold zlen; lia). unfold zlen. rewrite L1.
    rewrite nthZ_app_l by (unfold zlen; lia). rewrite nthZ_firstn by lia. rewrite nthZ_skipn by lia.
    f_equal. lia.
  - intros k Hk. destruct (Z_lt_le_dec k di) as [A|A].
    + destruct (Z_lt_le_dec k 0); [unfold nthZ; now replace (k <? 0) with true by lia|].
      rewrite nthZ_app_l by (unfold zlen; lia). apply nthZ_firstn. lia.
    + rewrite nthZ_app_r by (unfold zlen; lia). unfold zlen. rewrite L1.
      rewrite nthZ_app_r by (unfold zlen; lia). unfold zlen. rewrite L2.
      rewrite nthZ_skipn by lia. f_equal. lia.
Qed.

(* ---- the loops ---- *)
Lemma rows_spec src dstep sstep len : 0 <= len -> len <= dstep -> 0 <= sstep ->
  forall n dst di si,
  0 <= di -> 0 <= si ->
  ((0 < n)%nat -> di + (Z.of_nat n - 1) * dstep + len <= zlen dst) ->
  ((0 < n)%nat -> si + (Z.of_nat n - 1) * sstep + len <= zlen src) ->
  exists d, rows n dst src di si dstep sstep len = Ok d /\ zlen d = zlen dst
    /\ (forall j t, 0 <= j < Z.of_nat n -> 0 <= t < len ->
                    nthZ d (di + j * dstep + t) = nthZ src (si + j * sstep + t))
    /\ (forall k, (forall j, 0 <= j < Z.of_nat n -> ~ (di + j * dstep <= k < di + j * dstep + len)) ->
                  nthZ d k = nthZ dst k).
Proof.
  intros Hlen Hstep Hs. induction n as [|n IH]; intros dst di si Hdi Hsi Hd Hsr; cbn [rows].
  - exists dst. split; [reflexivity|]. split; [reflexivity|]. split; [intros; lia|reflexivity].
  - specialize (Hd ltac:(lia)). specialize (Hsr ltac:(lia)).
    assert (N1 : 0 <= (Z.of_nat (S n) - 1) * dstep) by nia.
    assert (N2 : 0 <= (Z.of_nat (S n) - 1) * sstep) by nia.
    destruct (copy_seg_spec dst di src si len) as (d1 & E1 & L1 & A1 & B1); try lia.
    rewrite E1.
    destruct (IH d1 (di + dstep) (si + sstep)) as (d & E & L & A & B); try lia.
    exists d. split; [exact E|]. split; [lia|]. split.
    + intros j t Hj Ht. destruct (Z.eq_dec j 0) as [->|Nj].
      * rewrite B.
        -- rewrite !Z.mul_0_l, !Z.add_0_r. apply A1. lia.
        -- intros j' Hj'. assert (0 <= j' * dstep) by nia. lia.
      * replace (di + j * dstep + t) with (di + dstep + (j - 1) * dstep + t) by ring.
        replace (si + j * sstep + t) with (si + sstep + (j - 1) * sstep + t) by ring.
        apply A; lia.
    + intros k Hk. rewrite B.
      * apply B1. specialize (Hk 0 ltac:(lia)). lia.
      * intros j Hj. specialize (Hk (j + 1) ltac:(lia)).
        replace (di + (j + 1) * dstep) with (di + dstep + j * dstep) in Hk by ring. exact Hk.
Qed.

Lemma planes_spec src dstep sstep len dstep2 sstep2 n :
  0 <= len -> len <= dstep -> 0 <= sstep -> 0 <= sstep2 -> 0 <= dstep2 ->
  ((0 < n)%nat -> (Z.of_nat n - 1) * dstep + len <= dstep2) ->
  forall m dst di si,
  0 <= di -> 0 <= si ->
  ((0 < m)%nat -> (0 < n)%nat -> di + (Z.of_nat m - 1) * dstep2 + (Z.of_nat n - 1) * dstep + len <= zlen dst) ->
  ((0 < m)%nat -> (0 < n)%nat -> si + (Z.of_nat m - 1) * sstep2 + (Z.of_nat n - 1) * sstep + len <= zlen src) ->
  exists d, planes m dst src di si dstep2 sstep2 n dstep sstep len = Ok d /\ zlen d = zlen dst
    /\ (forall i j t, 0 <= i < Z.of_nat m -> 0 <= j < Z.of_nat n -> 0 <= t < len ->
          nthZ d (di + i * dstep2 + j * dstep + t) = nthZ src (si + i * sstep2 + j * sstep + t))
    /\ (forall k, (forall i j, 0 <= i < Z.of_nat m -> 0 <= j < Z.of_nat n ->
                     ~ (di + i * dstep2 + j * dstep <= k < di + i * dstep2 + j * dstep + len)) ->
                  nthZ d k = nthZ dst k).
Proof.
  intros Hlen Hstep Hs Hs2 P3 Hrow. induction m as [|m IH]; intros dst di si Hdi Hsi Hd Hsr; cbn [planes].
  - exists dst. split; [reflexivity|]. split; [reflexivity|]. split; [intros; lia|reflexivity].
  - destruct n as [|n'].
    { (* no rows: nothing is copied *)
      cbn [rows]. destruct (IH dst (di + dstep2) (si + sstep2)) as (d & E & L & A & B); try lia.
      exists d. split; [exact E|]. split; [exact L|]. split; [intros; lia|].
      intros k _. apply B. intros; lia. }
    set (n := S n') in *.
    specialize (Hrow ltac:(lia)).
    assert (Hd0 := Hd ltac:(lia) ltac:(lia)). assert (Hsr0 := Hsr ltac:(lia) ltac:(lia)).
    assert (P1 : 0 <= (Z.of_nat n - 1) * dstep) by nia. assert (P2 : 0 <= (Z.of_nat n - 1) * sstep) by nia.
    assert (P4 : 0 <= (Z.of_nat (S m) - 1) * dstep2) by nia. assert (P5 : 0 <= (Z.of_nat (S m) - 1) * sstep2) by nia.
    destruct (rows_spec src dstep sstep len Hlen Hstep Hs n dst di si) as (d1 & E1 & L1 & A1 & B1); try lia.
    rewrite E1.
    destruct (IH d1 (di + dstep2) (si + sstep2)) as (d & E & L & A & B); try lia.
    exists d. split; [exact E|]. split; [lia|]. split.
    + intros i j t Hi Hj Ht. destruct (Z.eq_dec i 0) as [->|Ni].
      * rewrite B.
        -- rewrite !Z.mul_0_l, !Z.add_0_r. apply A1; lia.
        -- intros i' j' Hi' Hj'. assert (0 <= i' * dstep2) by nia. assert (0 <= j' * dstep) by nia.
           assert (j * dstep <= (Z.of_nat n - 1) * dstep) by nia. lia.
      * replace (di + i * dstep2 + j * dstep + t) with (di + dstep2 + (i - 1) * dstep2 + j * dstep + t) by ring.
        replace (si + i * sstep2 + j * sstep + t) with (si + sstep2 + (i - 1) * sstep2 + j * sstep + t) by ring.
        apply A; lia.
    + intros k Hk. rewrite B.
      * apply B1. intros j Hj. specialize (Hk 0 j ltac:(lia) Hj). lia.
      * intros i j Hi Hj. specialize (Hk (i + 1) j ltac:(lia) Hj).
        replace (di + (i + 1) * dstep2 + j * dstep) with (di + dstep2 + i * dstep2 + j * dstep) in Hk by ring. exact Hk.
Qed.

(* ---- one block against one geometry ---- *)
Definition cfg_ok (c : cfg) : Prop :=
  1 <= px (bsz c) <= 1024 /\ 1 <= py (bsz c) <= 1024 /\ 1 <= pz (bsz c) <= 1024 /\ 1 <= bpv c <= 8.
Definition geom_ok (g : geom) : Prop :=
  (- 536870912 <= px (goff g) <= 536870912 /\ - 536870912 <= py (goff g) <= 536870912
   /\ - 536870912 <= pz (goff g) <= 536870912)
  /\ 1 <= gw g <= 1048576 /\ 1 <= gh g <= 1048576 /\ 1 <= gd g <= 1048576.

Definition didx (c : cfg) (g : geom) (stride : Z) (r : pt) : Z :=
  match gshape g with
  | XY => py r * stride + px r * bpv c
  | XZ => pz r * stride + px r * bpv c
  | YZ => pz r * stride + py r * bpv c
  | Vol3d => pz r * (gh g * (gw g * bpv c)) + py r * (gw g * bpv c) + px r * bpv c
  end.
Definition bidx (c : cfg) (q : pt) : Z :=
  pz q * (py (bsz c) * (px (bsz c) * bpv c)) + py q * (px (bsz c) * bpv c) + px q * bpv c.

(* the part of the geometry inside block b, as absolute voxel ranges *)
Definition lo (g : geom) (bs b : pt) : pt :=
  (Z.max (px (goff g)) (px b * px bs), Z.max (py (goff g)) (py b * py bs), Z.max (pz (goff g)) (pz b * pz bs)).
Definition gend (g : geom) : pt :=
  (px (goff g) + px (g_size3 g) - 1, py (goff g) + py (g_size3 g) - 1, pz (goff g) + pz (g_size3 g) - 1).
Definition hi (g : geom) (bs b : pt) : pt :=
  (Z.min (px (gend g)) ((px b + 1) * px bs - 1), Z.min (py (gend g)) ((py b + 1) * py bs - 1),
   Z.min (pz (gend g)) ((pz b + 1) * pz bs - 1)).
Definition meets (g : geom) (bs b : pt) : Prop :=
  px (lo g bs b) <= px (hi g bs b) /\ py (lo g bs b) <= py (hi g bs b) /\ pz (lo g bs b) <= pz (hi g bs b).
Definition in_range (a b p : pt) : Prop := px a <= px p <= px b /\ py a <= py p <= py b /\ pz a <= pz p <= pz b.
Definition pminus (a b : pt) : pt := (px a - px b, py a - py b, pz a - pz b).

Lemma size3_pos g : geom_ok g -> 1 <= px (g_size3 g) <= 1048576 /\ 1 <= py (g_size3 g) <= 1048576 /\ 1 <= pz (g_size3 g) <= 1048576.
Proof. unfold geom_ok, g_size3. intros (_ & Hw & Hh & Hd). destruct (gshape g); unfold px, py, pz; cbn [fst snd]; lia. Qed.

Lemma g_end_eq g : geom_ok g -> g_end g = gend g.
Proof.
  intro H. pose proof (size3_pos g H) as S. destruct H as (Ho & _). unfold g_end, gend.
  rewrite !(w32_small (_ - 1)) by lia. rewrite !w32_small by lia. f_equal; [f_equal|]; lia.
Qed.

Lemma factor_bound b k M : 1 <= k -> 0 <= M -> - M <= b * k <= M -> - M <= b <= M.
Proof. intros. nia. Qed.

Lemma compute_transform_eq c g b : cfg_ok c -> geom_ok g -> meets g (bsz c) b ->
  compute_transform g (bsz c) b
  = (pminus (lo g (bsz c) b) (px b * px (bsz c), py b * py (bsz c), pz b * pz (bsz c)),
     pminus (lo g (bsz c) b) (goff g), pminus (hi g (bsz c) b) (goff g)).
Proof.
  intros (Hx & Hy & Hz & Hv) Hg M. pose proof (size3_pos g Hg) as S. unfold compute_transform.
  rewrite g_end_eq by assumption. destruct Hg as (Ho & _).
  unfold meets, lo, hi, gend, block_min, block_max, pmax, pmin, psub, pminus, px, py, pz in *; cbn [fst snd] in *.
  set (sx := fst (fst (g_size3 g))) in *. set (sy := snd (fst (g_size3 g))) in *. set (sz := snd (g_size3 g)) in *.
  destruct b as [[bx by_] bz]; cbn [fst snd] in *.
  destruct (bsz c) as [[kx ky] kz]; cbn [fst snd] in *.
  destruct (goff g) as [[ox oy] oz]; cbn [fst snd] in *.
  assert (Bx : - 1073741823 <= bx * kx /\ (bx + 1) * kx <= 1073741823) by lia.
  assert (By : - 1073741823 <= by_ * ky /\ (by_ + 1) * ky <= 1073741823) by lia.
  assert (Bz : - 1073741823 <= bz * kz /\ (bz + 1) * kz <= 1073741823) by lia.
  pose proof (factor_bound bx kx 1073741823 ltac:(lia) ltac:(lia) ltac:(lia)) as Cx.
  pose proof (factor_bound by_ ky 1073741823 ltac:(lia) ltac:(lia) ltac:(lia)) as Cy.
  pose proof (factor_bound bz kz 1073741823 ltac:(lia) ltac:(lia) ltac:(lia)) as Cz.
  rewrite !(w32_small (_ * _)) by lia.
  rewrite !(w32_small (_ + 1)) by lia.
  rewrite !(w32_small (_ * _)) by lia.
  rewrite !(w32_small (_ * _ - 1)) by lia.
  rewrite !w32_small by lia. reflexivity.
Qed.

Lemma seg_decomp t v n : 0 < v -> 0 <= t < n * v -> exists x ch, t = x * v + ch /\ 0 <= x < n /\ 0 <= ch < v.
Proof.
  intros Hv Ht. exists (t / v), (t mod v). pose proof (Z.div_mod t v ltac:(lia)). pose proof (Z.mod_pos_bound t v Hv).
  split; [lia|]. split; [|lia]. split; [apply Z.div_pos; lia|]. apply Z.div_lt_upper_bound; lia.
Qed.

Lemma idx3_bound z y e Z Y X : 0 <= z < Z -> 0 <= y < Y -> 0 <= e <= X -> 0 <= X ->
  0 <= z * (Y * X) + y * X + e <= Z * (Y * X).
Proof.
  intros Hz Hy He HX.
  assert (0 <= Y * X) by (apply Z.mul_nonneg_nonneg; lia).
  assert (z * (Y * X) <= (Z - 1) * (Y * X)) by (apply Z.mul_le_mono_nonneg_r; lia).
  assert (y * X <= (Y - 1) * X) by (apply Z.mul_le_mono_nonneg_r; lia).
  assert (0 <= z * (Y * X)) by (apply Z.mul_nonneg_nonneg; lia).
  assert (0 <= y * X) by (apply Z.mul_nonneg_nonneg; lia).
  lia.
Qed.

Lemma planes_one dst src di si d2 s2 n d1 s1 len :
  planes 1 dst src di si d2 s2 n d1 s1 len = rows n dst src di si d1 s1 len.
Proof. cbn [planes]. destruct (rows n dst src di si d1 s1 len); reflexivity. Qed.

(* what a transfer between a request buffer A (row-major strides a1 <= a2) and a block B does, in
   both directions; [m] planes of [n] rows of [nx] voxels of [v] bytes *)
Lemma xfer_two_level A B a0 b0 a2 b2 a1 b1 (m n : nat) nx v len : len = nx * v ->
  0 < v -> 0 <= nx -> nx * v <= a1 -> nx * v <= b1 -> 0 <= a2 -> 0 <= b2 ->
  ((0 < n)%nat -> (Z.of_nat n - 1) * a1 + nx * v <= a2) -> ((0 < n)%nat -> (Z.of_nat n - 1) * b1 + nx * v <= b2) ->
  0 <= a0 -> 0 <= b0 ->
  ((0 < m)%nat -> (0 < n)%nat -> a0 + (Z.of_nat m - 1) * a2 + (Z.of_nat n - 1) * a1 + nx * v <= zlen A) ->
  ((0 < m)%nat -> (0 < n)%nat -> b0 + (Z.of_nat m - 1) * b2 + (Z.of_nat n - 1) * b1 + nx * v <= zlen B) ->
  (exists A', planes m A B a0 b0 a2 b2 n a1 b1 len = Ok A' /\ zlen A' = zlen A
     /\ (forall i j x ch, 0 <= i < Z.of_nat m -> 0 <= j < Z.of_nat n -> 0 <= x < nx -> 0 <= ch < v ->
            nthZ A' (a0 + i * a2 + j * a1 + x * v + ch) = nthZ B (b0 + i * b2 + j * b1 + x * v + ch))
     /\ (forall k, (forall i j x ch, 0 <= i < Z.of_nat m -> 0 <= j < Z.of_nat n -> 0 <= x < nx -> 0 <= ch < v ->
                       k <> a0 + i * a2 + j * a1 + x * v + ch) -> nthZ A' k = nthZ A k))
  /\ (exists B', planes m B A b0 a0 b2 a2 n b1 a1 len = Ok B' /\ zlen B' = zlen B
     /\ (forall i j x ch, 0 <= i < Z.of_nat m -> 0 <= j < Z.of_nat n -> 0 <= x < nx -> 0 <= ch < v ->
            nthZ B' (b0 + i * b2 + j * b1 + x * v + ch) = nthZ A (a0 + i * a2 + j * a1 + x * v + ch))
     /\ (forall k, (forall i j x ch, 0 <= i < Z.of_nat m -> 0 <= j < Z.of_nat n -> 0 <= x < nx -> 0 <= ch < v ->
                       k <> b0 + i * b2 + j * b1 + x * v + ch) -> nthZ B' k = nthZ B k)).
Proof.
  intros -> Hv Hnx Ha1 Hb1 Ha2 Hb2 Ra Rb Ha0 Hb0 La Lb.
  assert (Hlen : 0 <= nx * v) by nia.
  split.
  - destruct (planes_spec B a1 b1 (nx * v) a2 b2 n Hlen Ha1 ltac:(lia) Hb2 Ha2 Ra m A a0 b0 Ha0 Hb0 La Lb)
      as (A' & E & L & P & Q).
    exists A'. split; [exact E|]. split; [exact L|]. split.
    + intros i j x ch Hi Hj Hx Hc.
      replace (a0 + i * a2 + j * a1 + x * v + ch) with (a0 + i * a2 + j * a1 + (x * v + ch)) by ring.
      replace (b0 + i * b2 + j * b1 + x * v + ch) with (b0 + i * b2 + j * b1 + (x * v + ch)) by ring.
      apply P; try assumption. nia.
    + intros k Hk. apply Q. intros i j Hi Hj Hin.
      destruct (seg_decomp (k - (a0 + i * a2 + j * a1)) v nx Hv ltac:(lia)) as (x & ch & Et & Hx & Hc).
      apply (Hk i j x ch Hi Hj Hx Hc). lia.
  - destruct (planes_spec A b1 a1 (nx * v) b2 a2 n Hlen Hb1 ltac:(lia) Ha2 Hb2 Rb m B b0 a0 Hb0 Ha0 Lb La)
      as (B' & E & L & P & Q).
    exists B'. split; [exact E|]. split; [exact L|]. split.
    + intros i j x ch Hi Hj Hx Hc.
      replace (a0 + i * a2 + j * a1 + x * v + ch) with (a0 + i * a2 + j * a1 + (x * v + ch)) by ring.
      replace (b0 + i * b2 + j * b1 + x * v + ch) with (b0 + i * b2 + j * b1 + (x * v + ch)) by ring.
      apply P; try assumption. nia.
    + intros k Hk. apply Q. intros i j Hi Hj Hin.
      destruct (seg_decomp (k - (b0 + i * b2 + j * b1)) v nx Hv ltac:(lia)) as (x & ch & Et & Hx & Hc).
      apply (Hk i j x ch Hi Hj Hx Hc). lia.
Qed.

Definition stride_ok (c : cfg) (g : geom) (stride : Z) : Prop :=
  match gshape g with
  | Vol3d => True
  | _ => gw g * bpv c <= stride <= 16777216
  end.
Definition data_len_ok (c : cfg) (g : geom) (stride : Z) (data : bytes) : Prop :=
  match gshape g with
  | Vol3d => zlen data = gw g * gh g * gd g * bpv c
  | _ => (gh g - 1) * stride + gw g * bpv c <= zlen data
  end.
Definition bmin (c : cfg) (b : pt) : pt := (px b * px (bsz c), py b * py (bsz c), pz b * pz (bsz c)).

Definition xfer_read_post (c : cfg) (g : geom) (stride : Z) (b : pt) (data blk d' : bytes) : Prop :=
  zlen d' = zlen data
  /\ (forall p ch, in_range (lo g (bsz c) b) (hi g (bsz c) b) p -> 0 <= ch < bpv c ->
        nthZ d' (didx c g stride (pminus p (goff g)) + ch) = nthZ blk (bidx c (pminus p (bmin c b)) + ch))
  /\ (forall k, (forall p ch, in_range (lo g (bsz c) b) (hi g (bsz c) b) p -> 0 <= ch < bpv c ->
                   k <> didx c g stride (pminus p (goff g)) + ch) -> nthZ d' k = nthZ data k).
Definition xfer_write_post (c : cfg) (g : geom) (stride : Z) (b : pt) (data blk b' : bytes) : Prop :=
  zlen b' = zlen blk
  /\ (forall p ch, in_range (lo g (bsz c) b) (hi g (bsz c) b) p -> 0 <= ch < bpv c ->
        nthZ b' (bidx c (pminus p (bmin c b)) + ch) = nthZ data (didx c g stride (pminus p (goff g)) + ch))
  /\ (forall k, (forall p ch, in_range (lo g (bsz c) b) (hi g (bsz c) b) p -> 0 <= ch < bpv c ->
                   k <> bidx c (pminus p (bmin c b)) + ch) -> nthZ b' k = nthZ blk k).

Lemma block_xfer c g stride b data blk :
  cfg_ok c -> geom_ok g -> meets g (bsz c) b -> stride_ok c g stride -> data_len_ok c g stride data ->
  zlen blk = block_bytes c ->
  (exists d', read_block c g stride data blk b = Ok d' /\ xfer_read_post c g stride b data blk d')
  /\ (exists b', write_block c g stride data blk b = Ok b' /\ xfer_write_post c g stride b data blk b').
Proof.
  destruct c as [[[kx ky] kz] v bg pat fx]. destruct g as [sh [[ox oy] oz] w h d]. destruct b as [[bx by_] bz].
  intros Hc Hg M Hst Hdl Hbl. pose proof (size3_pos _ Hg) as S3.
  unfold read_block, write_block, xfer_plan. rewrite (compute_transform_eq _ _ _ Hc Hg M).
  unfold xfer_read_post, xfer_write_post, in_range, bmin.
  destruct Hc as (Kx & Ky & Kz & Hv). destruct Hg as (Ho & Hw & Hh & Hd).
  unfold meets, lo, hi, gend, pminus, didx, bidx, block_bytes, block_voxels, stride_ok, data_len_ok, g_size3 in *.
  unfold px, py, pz in *; cbn [fst snd bsz bpv gshape goff gw gh gd] in *.
  set (Lx := Z.max ox (bx * kx)) in *. set (Ly := Z.max oy (by_ * ky)) in *. set (Lz := Z.max oz (bz * kz)) in *.
  destruct sh; cbn [fst snd] in *.
  - (* XY *)
    set (Hx := Z.min (ox + w - 1) ((bx + 1) * kx - 1)) in *.
    set (Hy := Z.min (oy + h - 1) ((by_ + 1) * ky - 1)) in *.
    set (Hz := Z.min (oz + 1 - 1) ((bz + 1) * kz - 1)) in *.
    assert (Fx : ox <= Lx /\ bx * kx <= Lx /\ Lx <= Hx /\ Hx <= ox + w - 1 /\ Hx <= (bx + 1) * kx - 1) by lia.
    assert (Fy : oy <= Ly /\ by_ * ky <= Ly /\ Ly <= Hy /\ Hy <= oy + h - 1 /\ Hy <= (by_ + 1) * ky - 1) by lia.
    assert (Fz : oz <= Lz /\ bz * kz <= Lz /\ Lz <= Hz /\ Hz <= oz + 1 - 1 /\ Hz <= (bz + 1) * kz - 1) by lia.
    clear M. clearbody Lx Ly Lz Hx Hy Hz.
    assert (Kxv : 0 <= kx * v) by (apply Z.mul_nonneg_nonneg; lia).
    assert (Kyxv : kx * v <= ky * (kx * v)) by (rewrite <- (Z.mul_1_l (kx * v)) at 1; apply Z.mul_le_mono_nonneg_r; lia).
    rewrite !planes_one.
    set (n := cnt (Ly - oy) (Hy - oy)). set (nx := Hx - ox - (Lx - ox) + 1).
    assert (En : Z.of_nat n = Hy - Ly + 1) by (unfold n, cnt; lia).
    pose proof (idx3_bound (Lz - bz * kz) (Hy - by_ * ky) ((Hx - bx * kx + 1) * v) kz ky (kx * v)
                  ltac:(lia) ltac:(lia)
                  ltac:(split; [apply Z.mul_nonneg_nonneg; lia|apply Z.mul_le_mono_nonneg_r; lia]) Kxv) as BB.
    assert (M1 : (Hy - oy) * stride <= (h - 1) * stride) by (apply Z.mul_le_mono_nonneg_r; lia).
    assert (M2 : (Hx - ox + 1) * v <= w * v) by (apply Z.mul_le_mono_nonneg_r; lia).
    assert (M3 : nx * v <= w * v) by (apply Z.mul_le_mono_nonneg_r; lia).
    assert (M4 : nx * v <= kx * v) by (apply Z.mul_le_mono_nonneg_r; lia).
    assert (P0 : 0 <= nx * v) by (apply Z.mul_nonneg_nonneg; lia).
    assert (P1 : 0 <= (Ly - oy) * stride) by (apply Z.mul_nonneg_nonneg; lia).
    assert (P2 : 0 <= (Lx - ox) * v) by (apply Z.mul_nonneg_nonneg; lia).
    assert (P3 : 0 <= (Lz - bz * kz) * (ky * (kx * v))) by (repeat apply Z.mul_nonneg_nonneg; lia).
    assert (P4 : 0 <= (Ly - by_ * ky) * (kx * v)) by (repeat apply Z.mul_nonneg_nonneg; lia).
    assert (P5 : 0 <= (Lx - bx * kx) * v) by (apply Z.mul_nonneg_nonneg; lia).
    assert (P6 : 0 <= (Z.of_nat n - 1) * stride) by (apply Z.mul_nonneg_nonneg; lia).
    assert (P7 : 0 <= (Z.of_nat n - 1) * (kx * v)) by (repeat apply Z.mul_nonneg_nonneg; lia).
    destruct (xfer_two_level data blk ((Ly - oy) * stride + (Lx - ox) * v) ((Lz - bz * kz) * (ky * (kx * v)) + (Ly - by_ * ky) * (kx * v) + (Lx - bx * kx) * v)
                ((Z.of_nat n - 1) * stride + nx * v) ((Z.of_nat n - 1) * (kx * v) + nx * v)
                stride (kx * v) 1 n nx v (nx * v) eq_refl ltac:(lia) ltac:(lia) ltac:(lia) ltac:(lia) ltac:(lia) ltac:(lia) ltac:(lia) ltac:(lia) ltac:(lia) ltac:(lia) ltac:(lia) ltac:(lia)) as (RD & WR).
    rewrite !planes_one in RD, WR.
    destruct RD as (d' & E & L & P & Q). destruct WR as (b' & E' & L' & P' & Q').
    split.
    + exists d'. split; [exact E|]. split; [exact L|]. split.
      * intros [[x y] z] ch; cbn [fst snd]. intros Hp Hch.
        specialize (P 0 (y - Ly) (x - Lx) ch ltac:(lia) ltac:(lia) ltac:(lia) Hch).
        assert (z = Lz) by lia. subst z.
        etransitivity; [etransitivity; [|exact P]|]; f_equal; ring.
      * intros k Hk. apply Q. intros i j x ch Hi Hj Hx' Hch.
        specialize (Hk (Lx + x, Ly + j, Lz) ch). cbn [fst snd] in Hk. specialize (Hk ltac:(lia) Hch).
        intro Ek. apply Hk. rewrite Ek. assert (i = 0) by lia. subst i. ring.
    + exists b'. split; [exact E'|]. split; [exact L'|]. split.
      * intros [[x y] z] ch; cbn [fst snd]. intros Hp Hch.
        specialize (P' 0 (y - Ly) (x - Lx) ch ltac:(lia) ltac:(lia) ltac:(lia) Hch).
        assert (z = Lz) by lia. subst z.
        etransitivity; [etransitivity; [|exact P']|]; f_equal; ring.
      * intros k Hk. apply Q'. intros i j x ch Hi Hj Hx' Hch.
        specialize (Hk (Lx + x, Ly + j, Lz) ch). cbn [fst snd] in Hk. specialize (Hk ltac:(lia) Hch).
        intro Ek. apply Hk. rewrite Ek. assert (i = 0) by lia. subst i. ring.
  - (* XZ *)
    set (Hx := Z.min (ox + w - 1) ((bx + 1) * kx - 1)) in *.
    set (Hy := Z.min (oy + 1 - 1) ((by_ + 1) * ky - 1)) in *.
    set (Hz := Z.min (oz + h - 1) ((bz + 1) * kz - 1)) in *.
    assert (Fx : ox <= Lx /\ bx * kx <= Lx /\ Lx <= Hx /\ Hx <= ox + w - 1 /\ Hx <= (bx + 1) * kx - 1) by lia.
    assert (Fy : oy <= Ly /\ by_ * ky <= Ly /\ Ly <= Hy /\ Hy <= oy + 1 - 1 /\ Hy <= (by_ + 1) * ky - 1) by lia.
    assert (Fz : oz <= Lz /\ bz * kz <= Lz /\ Lz <= Hz /\ Hz <= oz + h - 1 /\ Hz <= (bz + 1) * kz - 1) by lia.
    clear M. clearbody Lx Ly Lz Hx Hy Hz.
    assert (Kxv : 0 <= kx * v) by (apply Z.mul_nonneg_nonneg; lia).
    assert (Kyxv : kx * v <= ky * (kx * v)) by (rewrite <- (Z.mul_1_l (kx * v)) at 1; apply Z.mul_le_mono_nonneg_r; lia).
    rewrite !planes_one.
    set (n := cnt (Lz - oz) (Hz - oz)). set (nx := Hx - ox - (Lx - ox) + 1).
    assert (En : Z.of_nat n = Hz - Lz + 1) by (unfold n, cnt; lia).
    pose proof (idx3_bound (Hz - bz * kz) (Ly - by_ * ky) ((Hx - bx * kx + 1) * v) kz ky (kx * v)
                  ltac:(lia) ltac:(lia)
                  ltac:(split; [apply Z.mul_nonneg_nonneg; lia|apply Z.mul_le_mono_nonneg_r; lia]) Kxv) as BB.
    assert (M1 : (Hz - oz) * stride <= (h - 1) * stride) by (apply Z.mul_le_mono_nonneg_r; lia).
    assert (M2 : (Hx - ox + 1) * v <= w * v) by (apply Z.mul_le_mono_nonneg_r; lia).
    assert (M3 : nx * v <= w * v) by (apply Z.mul_le_mono_nonneg_r; lia).
    assert (M4 : nx * v <= kx * v) by (apply Z.mul_le_mono_nonneg_r; lia).
    assert (P0 : 0 <= nx * v) by (apply Z.mul_nonneg_nonneg; lia).
    assert (P1 : 0 <= (Lz - oz) * stride) by (apply Z.mul_nonneg_nonneg; lia).
    assert (P2 : 0 <= (Lx - ox) * v) by (apply Z.mul_nonneg_nonneg; lia).
    assert (P3 : 0 <= (Lz - bz * kz) * (ky * (kx * v))) by (repeat apply Z.mul_nonneg_nonneg; lia).
    assert (P4 : 0 <= (Ly - by_ * ky) * (kx * v)) by (repeat apply Z.mul_nonneg_nonneg; lia).
    assert (P5 : 0 <= (Lx - bx * kx) * v) by (apply Z.mul_nonneg_nonneg; lia).
    assert (P6 : 0 <= (Z.of_nat n - 1) * stride) by (apply Z.mul_nonneg_nonneg; lia).
    assert (P7 : 0 <= (Z.of_nat n - 1) * (ky * (kx * v))) by (repeat apply Z.mul_nonneg_nonneg; lia).
    destruct (xfer_two_level data blk ((Lz - oz) * stride + (Lx - ox) * v) ((Lz - bz * kz) * (ky * (kx * v)) + (Ly - by_ * ky) * (kx * v) + (Lx - bx * kx) * v)
                ((Z.of_nat n - 1) * stride + nx * v) ((Z.of_nat n - 1) * (ky * (kx * v)) + nx * v)
                stride (ky * (kx * v)) 1 n nx v (nx * v) eq_refl ltac:(lia) ltac:(lia) ltac:(lia) ltac:(lia) ltac:(lia) ltac:(lia) ltac:(lia) ltac:(lia) ltac:(lia) ltac:(lia) ltac:(lia) ltac:(lia)) as (RD & WR).
    rewrite !planes_one in RD, WR.
    destruct RD as (d' & E & L & P & Q). destruct WR as (b' & E' & L' & P' & Q').
    split.
    + exists d'. split; [exact E|]. split; [exact L|]. split.
      * intros [[x y] z] ch; cbn [fst snd]. intros Hp Hch.
        specialize (P 0 (z - Lz) (x - Lx) ch ltac:(lia) ltac:(lia) ltac:(lia) Hch).
        assert (y = Ly) by lia. subst y.
        etransitivity; [etransitivity; [|exact P]|]; f_equal; ring.
      * intros k Hk. apply Q. intros i j x ch Hi Hj Hx' Hch.
        specialize (Hk (Lx + x, Ly, Lz + j) ch). cbn [fst snd] in Hk. specialize (Hk ltac:(lia) Hch).
        intro Ek. apply Hk. rewrite Ek. assert (i = 0) by lia. subst i. ring.
    + exists b'. split; [exact E'|]. split; [exact L'|]. split.
      * intros [[x y] z] ch; cbn [fst snd]. intros Hp Hch.
        specialize (P' 0 (z - Lz) (x - Lx) ch ltac:(lia) ltac:(lia) ltac:(lia) Hch).
        assert (y = Ly) by lia. subst y.
        etransitivity; [etransitivity; [|exact P']|]; f_equal; ring.
      * intros k Hk. apply Q'. intros i j x ch Hi Hj Hx' Hch.
        specialize (Hk (Lx + x, Ly, Lz + j) ch). cbn [fst snd] in Hk. specialize (Hk ltac:(lia) Hch).
        intro Ek. apply Hk. rewrite Ek. assert (i = 0) by lia. subst i. ring.
  - (* YZ *)
    set (Hx := Z.min (ox + 1 - 1) ((bx + 1) * kx - 1)) in *.
    set (Hy := Z.min (oy + w - 1) ((by_ + 1) * ky - 1)) in *.
    set (Hz := Z.min (oz + h - 1) ((bz + 1) * kz - 1)) in *.
    assert (Fx : ox <= Lx /\ bx * kx <= Lx /\ Lx <= Hx /\ Hx <= ox + 1 - 1 /\ Hx <= (bx + 1) * kx - 1) by lia.
    assert (Fy : oy <= Ly /\ by_ * ky <= Ly /\ Ly <= Hy /\ Hy <= oy + w - 1 /\ Hy <= (by_ + 1) * ky - 1) by lia.
    assert (Fz : oz <= Lz /\ bz * kz <= Lz /\ Lz <= Hz /\ Hz <= oz + h - 1 /\ Hz <= (bz + 1) * kz - 1) by lia.
    clear M. clearbody Lx Ly Lz Hx Hy Hz.
    assert (Kxv : 0 <= kx * v) by (apply Z.mul_nonneg_nonneg; lia).
    assert (Kyxv : kx * v <= ky * (kx * v)) by (rewrite <- (Z.mul_1_l (kx * v)) at 1; apply Z.mul_le_mono_nonneg_r; lia).
    set (m := cnt (Lz - oz) (Hz - oz)). set (n := cnt (Ly - oy) (Hy - oy)).
    assert (Em : Z.of_nat m = Hz - Lz + 1) by (unfold m, cnt; lia).
    assert (En : Z.of_nat n = Hy - Ly + 1) by (unfold n, cnt; lia).
    pose proof (idx3_bound (Hz - bz * kz) (Hy - by_ * ky) ((Lx - bx * kx + 1) * v) kz ky (kx * v)
                  ltac:(lia) ltac:(lia)
                  ltac:(split; [apply Z.mul_nonneg_nonneg; lia|apply Z.mul_le_mono_nonneg_r; lia]) Kxv) as BB.
    assert (M1 : (Hz - oz) * stride <= (h - 1) * stride) by (apply Z.mul_le_mono_nonneg_r; lia).
    assert (M2 : (Hy - oy + 1) * v <= w * v) by (apply Z.mul_le_mono_nonneg_r; lia).
    assert (M3 : Z.of_nat n * v <= w * v) by (apply Z.mul_le_mono_nonneg_r; lia).
    assert (M4 : 1 * v <= kx * v) by (apply Z.mul_le_mono_nonneg_r; lia).
    assert (M5 : Z.of_nat n * (kx * v) <= ky * (kx * v)) by (apply Z.mul_le_mono_nonneg_r; lia).
    assert (P1 : 0 <= (Lz - oz) * stride) by (apply Z.mul_nonneg_nonneg; lia).
    assert (P2 : 0 <= (Ly - oy) * v) by (apply Z.mul_nonneg_nonneg; lia).
    assert (P3 : 0 <= (Lz - bz * kz) * (ky * (kx * v))) by (repeat apply Z.mul_nonneg_nonneg; lia).
    assert (P4 : 0 <= (Ly - by_ * ky) * (kx * v)) by (repeat apply Z.mul_nonneg_nonneg; lia).
    assert (P5 : 0 <= (Lx - bx * kx) * v) by (apply Z.mul_nonneg_nonneg; lia).
    assert (P6 : 0 <= (Z.of_nat m - 1) * stride) by (apply Z.mul_nonneg_nonneg; lia).
    assert (P7 : 0 <= (Z.of_nat m - 1) * (ky * (kx * v))) by (repeat apply Z.mul_nonneg_nonneg; lia).
    assert (P8 : 0 <= (Z.of_nat n - 1) * v) by (apply Z.mul_nonneg_nonneg; lia).
    assert (P9 : 0 <= (Z.of_nat n - 1) * (kx * v)) by (repeat apply Z.mul_nonneg_nonneg; lia).
    destruct (xfer_two_level data blk ((Lz - oz) * stride + (Ly - oy) * v) ((Lz - bz * kz) * (ky * (kx * v)) + (Ly - by_ * ky) * (kx * v) + (Lx - bx * kx) * v)
                stride (ky * (kx * v)) v (kx * v) m n 1 v v ltac:(lia) ltac:(lia) ltac:(lia) ltac:(lia) ltac:(lia) ltac:(lia) ltac:(lia) ltac:(lia) ltac:(lia) ltac:(lia) ltac:(lia) ltac:(lia) ltac:(lia)) as (RD & WR).
    destruct RD as (d' & E & L & P & Q). destruct WR as (b' & E' & L' & P' & Q').
    split.
    + exists d'. split; [exact E|]. split; [exact L|]. split.
      * intros [[x y] z] ch; cbn [fst snd]. intros Hp Hch.
        specialize (P (z - Lz) (y - Ly) 0 ch ltac:(lia) ltac:(lia) ltac:(lia) Hch).
        assert (x = Lx) by lia. subst x.
        etransitivity; [etransitivity; [|exact P]|]; f_equal; ring.
      * intros k Hk. apply Q. intros i j x ch Hi Hj Hx' Hch.
        specialize (Hk (Lx, Ly + j, Lz + i) ch). cbn [fst snd] in Hk. specialize (Hk ltac:(lia) Hch).
        intro Ek. apply Hk. rewrite Ek. assert (x = 0) by lia. subst x. ring.
    + exists b'. split; [exact E'|]. split; [exact L'|]. split.
      * intros [[x y] z] ch; cbn [fst snd]. intros Hp Hch.
        specialize (P' (z - Lz) (y - Ly) 0 ch ltac:(lia) ltac:(lia) ltac:(lia) Hch).
        assert (x = Lx) by lia. subst x.
        etransitivity; [etransitivity; [|exact P']|]; f_equal; ring.
      * intros k Hk. apply Q'. intros i j x ch Hi Hj Hx' Hch.
        specialize (Hk (Lx, Ly + j, Lz + i) ch). cbn [fst snd] in Hk. specialize (Hk ltac:(lia) Hch).
        intro Ek. apply Hk. rewrite Ek. assert (x = 0) by lia. subst x. ring.
  - (* Vol3d *)
    set (Hx := Z.min (ox + w - 1) ((bx + 1) * kx - 1)) in *.
    set (Hy := Z.min (oy + h - 1) ((by_ + 1) * ky - 1)) in *.
    set (Hz := Z.min (oz + d - 1) ((bz + 1) * kz - 1)) in *.
    assert (Fx : ox <= Lx /\ bx * kx <= Lx /\ Lx <= Hx /\ Hx <= ox + w - 1 /\ Hx <= (bx + 1) * kx - 1) by lia.
    assert (Fy : oy <= Ly /\ by_ * ky <= Ly /\ Ly <= Hy /\ Hy <= oy + h - 1 /\ Hy <= (by_ + 1) * ky - 1) by lia.
    assert (Fz : oz <= Lz /\ bz * kz <= Lz /\ Lz <= Hz /\ Hz <= oz + d - 1 /\ Hz <= (bz + 1) * kz - 1) by lia.
    clear M. clearbody Lx Ly Lz Hx Hy Hz.
    assert (Kxv : 0 <= kx * v) by (apply Z.mul_nonneg_nonneg; lia).
    assert (Kyxv : kx * v <= ky * (kx * v)) by (rewrite <- (Z.mul_1_l (kx * v)) at 1; apply Z.mul_le_mono_nonneg_r; lia).
    set (m := cnt (Lz - oz) (Hz - oz)). set (n := cnt (Ly - oy) (Hy - oy)). set (nx := Hx - ox - (Lx - ox) + 1).
    assert (Em : Z.of_nat m = Hz - Lz + 1) by (unfold m, cnt; lia).
    assert (En : Z.of_nat n = Hy - Ly + 1) by (unfold n, cnt; lia).
    pose proof (idx3_bound (Hz - bz * kz) (Hy - by_ * ky) ((Hx - bx * kx + 1) * v) kz ky (kx * v)
                  ltac:(lia) ltac:(lia)
                  ltac:(split; [apply Z.mul_nonneg_nonneg; lia|apply Z.mul_le_mono_nonneg_r; lia]) Kxv) as BB.
    assert (Wv : 0 <= w * v) by (apply Z.mul_nonneg_nonneg; lia).
    pose proof (idx3_bound (Hz - oz) (Hy - oy) ((Hx - ox + 1) * v) d h (w * v)
                  ltac:(lia) ltac:(lia)
                  ltac:(split; [apply Z.mul_nonneg_nonneg; lia|apply Z.mul_le_mono_nonneg_r; lia]) Wv) as DB.
    assert (M3 : nx * v <= w * v) by (apply Z.mul_le_mono_nonneg_r; lia).
    assert (M4 : nx * v <= kx * v) by (apply Z.mul_le_mono_nonneg_r; lia).
    assert (M5 : Z.of_nat n * (kx * v) <= ky * (kx * v)) by (apply Z.mul_le_mono_nonneg_r; lia).
    assert (M6 : Z.of_nat n * (w * v) <= h * (w * v)) by (apply Z.mul_le_mono_nonneg_r; lia).
    assert (P0 : 0 <= nx * v) by (apply Z.mul_nonneg_nonneg; lia).
    assert (P1 : 0 <= (Lz - oz) * (h * (w * v))) by (repeat apply Z.mul_nonneg_nonneg; lia).
    assert (P1' : 0 <= (Ly - oy) * (w * v)) by (repeat apply Z.mul_nonneg_nonneg; lia).
    assert (P2 : 0 <= (Lx - ox) * v) by (apply Z.mul_nonneg_nonneg; lia).
    assert (P3 : 0 <= (Lz - bz * kz) * (ky * (kx * v))) by (repeat apply Z.mul_nonneg_nonneg; lia).
    assert (P4 : 0 <= (Ly - by_ * ky) * (kx * v)) by (repeat apply Z.mul_nonneg_nonneg; lia).
    assert (P5 : 0 <= (Lx - bx * kx) * v) by (apply Z.mul_nonneg_nonneg; lia).
    assert (P6 : 0 <= h * (w * v)) by (repeat apply Z.mul_nonneg_nonneg; lia).
    destruct (xfer_two_level data blk ((Lz - oz) * (h * (w * v)) + (Ly - oy) * (w * v) + (Lx - ox) * v) ((Lz - bz * kz) * (ky * (kx * v)) + (Ly - by_ * ky) * (kx * v) + (Lx - bx * kx) * v)
                (h * (w * v)) (ky * (kx * v)) (w * v) (kx * v) m n nx v (nx * v) eq_refl ltac:(lia) ltac:(lia) ltac:(lia) ltac:(lia) ltac:(lia) ltac:(lia) ltac:(lia) ltac:(lia) ltac:(lia) ltac:(lia) ltac:(lia) ltac:(lia)) as (RD & WR).
    destruct RD as (d' & E & L & P & Q). destruct WR as (b' & E' & L' & P' & Q').
    split.
    + exists d'. split; [exact E|]. split; [exact L|]. split.
      * intros [[x y] z] ch; cbn [fst snd]. intros Hp Hch.
        specialize (P (z - Lz) (y - Ly) (x - Lx) ch ltac:(lia) ltac:(lia) ltac:(lia) Hch).
        
        etransitivity; [etransitivity; [|exact P]|]; f_equal; ring.
      * intros k Hk. apply Q. intros i j x ch Hi Hj Hx' Hch.
        specialize (Hk (Lx + x, Ly + j, Lz + i) ch). cbn [fst snd] in Hk. specialize (Hk ltac:(lia) Hch).
        intro Ek. apply Hk. rewrite Ek. ring.
    + exists b'. split; [exact E'|]. split; [exact L'|]. split.
      * intros [[x y] z] ch; cbn [fst snd]. intros Hp Hch.
        specialize (P' (z - Lz) (y - Ly) (x - Lx) ch ltac:(lia) ltac:(lia) ltac:(lia) Hch).
        
        etransitivity; [etransitivity; [|exact P']|]; f_equal; ring.
      * intros k Hk. apply Q'. intros i j x ch Hi Hj Hx' Hch.
        specialize (Hk (Lx + x, Ly + j, Lz + i) ch). cbn [fst snd] in Hk. specialize (Hk ltac:(lia) Hch).
        intro Ek. apply Hk. rewrite Ek. ring.
Qed.

(* divisions by the block size stay opaque to lia *)
Ltac Zify.zify_post_hook ::= idtac.

(* ---- voxels, blocks and buffer positions ---- *)
Definition in_geom (g : geom) (p : pt) : Prop := in_range (goff g) (gend g) p.

Lemma radix_unique a r a' r' M : 0 <= r < M -> 0 <= r' < M -> a * M + r = a' * M + r' -> a = a' /\ r = r'.
Proof. intros Hr Hr' E. assert (a = a') by nia. subst. lia. Qed.

Lemma chan_bound x ch w v : 0 <= x < w -> 0 <= ch < v -> 0 <= x * v + ch < w * v.
Proof. intros Hx Hc. split; [nia|]. assert (x * v + v <= w * v) by nia. lia. Qed.

(* distinct (voxel, byte) pairs of a geometry have distinct buffer positions *)
Lemma didx_inj c g stride p p' ch ch' : cfg_ok c -> geom_ok g -> stride_ok c g stride ->
  in_geom g p -> in_geom g p' -> 0 <= ch < bpv c -> 0 <= ch' < bpv c ->
  didx c g stride (pminus p (goff g)) + ch = didx c g stride (pminus p' (goff g)) + ch' -> p = p' /\ ch = ch'.
Proof.
  destruct c as [[[kx ky] kz] v bg pat fx]. destruct g as [sh [[ox oy] oz] w h d].
  destruct p as [[x y] z], p' as [[x' y'] z'].
  intros (_ & _ & _ & Hv) (Ho & Hw & Hh & Hd) Hs.
  unfold stride_ok, px, py, pz in Hv, Ho, Hw, Hh, Hd, Hs. cbn [fst snd bsz bpv gshape goff gw gh gd] in Hv, Ho, Hw, Hh, Hd, Hs.
  unfold in_geom, in_range, gend, g_size3, didx, pminus, stride_ok, px, py, pz; cbn [fst snd bsz bpv gshape goff gw gh gd].
  destruct sh; cbn [fst snd]; intros Hp Hp' Hc Hc' E.
  - pose proof (chan_bound (x - ox) ch w v ltac:(lia) Hc). pose proof (chan_bound (x' - ox) ch' w v ltac:(lia) Hc').
    destruct (radix_unique (y - oy) ((x - ox) * v + ch) (y' - oy) ((x' - ox) * v + ch') stride ltac:(lia) ltac:(lia) ltac:(lia)) as (E1 & E2).
    destruct (radix_unique (x - ox) ch (x' - ox) ch' v Hc Hc' E2) as (E3 & E4).
    split; [|assumption]. f_equal; [f_equal|]; lia.
  - pose proof (chan_bound (x - ox) ch w v ltac:(lia) Hc). pose proof (chan_bound (x' - ox) ch' w v ltac:(lia) Hc').
    destruct (radix_unique (z - oz) ((x - ox) * v + ch) (z' - oz) ((x' - ox) * v + ch') stride ltac:(lia) ltac:(lia) ltac:(lia)) as (E1 & E2).
    destruct (radix_unique (x - ox) ch (x' - ox) ch' v Hc Hc' E2) as (E3 & E4).
    split; [|assumption]. f_equal; [f_equal|]; lia.
  - pose proof (chan_bound (y - oy) ch w v ltac:(lia) Hc). pose proof (chan_bound (y' - oy) ch' w v ltac:(lia) Hc').
    destruct (radix_unique (z - oz) ((y - oy) * v + ch) (z' - oz) ((y' - oy) * v + ch') stride ltac:(lia) ltac:(lia) ltac:(lia)) as (E1 & E2).
    destruct (radix_unique (y - oy) ch (y' - oy) ch' v Hc Hc' E2) as (E3 & E4).
    split; [|assumption]. f_equal; [f_equal|]; lia.
  - pose proof (chan_bound (x - ox) ch w v ltac:(lia) Hc) as B1. pose proof (chan_bound (x' - ox) ch' w v ltac:(lia) Hc') as B2.
    pose proof (chan_bound (y - oy) ((x - ox) * v + ch) h (w * v) ltac:(lia) B1) as B3.
    pose proof (chan_bound (y' - oy) ((x' - ox) * v + ch') h (w * v) ltac:(lia) B2) as B4.
    destruct (radix_unique (z - oz) ((y - oy) * (w * v) + ((x - ox) * v + ch)) (z' - oz) ((y' - oy) * (w * v) + ((x' - ox) * v + ch')) (h * (w * v))
                ltac:(lia) ltac:(lia) ltac:(lia)) as (E1 & E2).
    destruct (radix_unique _ _ _ _ (w * v) B1 B2 E2) as (E3 & E4).
    destruct (radix_unique (x - ox) ch (x' - ox) ch' v Hc Hc' E4) as (E5 & E6).
    split; [|assumption]. f_equal; [f_equal|]; lia.
Qed.

Lemma div_block_iff k b P : 0 < k -> (b * k <= P <= (b + 1) * k - 1) <-> P / k = b.
Proof.
  intro H. pose proof (block_range_iff k b b P H) as I. split; intro X.
  - assert (b <= P / k <= b) by (apply I; lia). lia.
  - assert (b * k <= P /\ P <= (b + 1) * k - 1) by (apply I; lia). lia.
Qed.

(* the part of a geometry inside block b = the voxels of the geometry whose block is b *)
Lemma in_part_iff c g b p : cfg_ok c ->
  in_range (lo g (bsz c) b) (hi g (bsz c) b) p <-> (in_geom g p /\ block_of (bsz c) p = b).
Proof.
  destruct c as [[[kx ky] kz] v bg pat fx]. destruct b as [[bx by_] bz]. destruct p as [[x y] z].
  intros (Kx & Ky & Kz & _). unfold in_geom, in_range, lo, hi, block_of, px, py, pz in *; cbn [fst snd bsz] in *.
  pose proof (div_block_iff kx bx x ltac:(lia)) as Ix. pose proof (div_block_iff ky by_ y ltac:(lia)) as Iy.
  pose proof (div_block_iff kz bz z ltac:(lia)) as Iz.
  set (ex := fst (fst (gend g))) in *. set (ey := snd (fst (gend g))) in *. set (ez := snd (gend g)) in *.
  clearbody ex ey ez.
  destruct (goff g) as [[ox oy] oz]; cbn [fst snd].
  split.
  - intro H. split; [clear Ix Iy Iz; lia|]. f_equal; [f_equal|]; [apply Ix|apply Iy|apply Iz]; clear Ix Iy Iz; lia.
  - intros (H & E). inversion E as [[E1 E2 E3]].
    assert (bx * kx <= x <= (bx + 1) * kx - 1) by (apply Ix; assumption).
    assert (by_ * ky <= y <= (by_ + 1) * ky - 1) by (apply Iy; assumption).
    assert (bz * kz <= z <= (bz + 1) * kz - 1) by (apply Iz; assumption).
    rewrite E1, E2, E3. clear Ix Iy Iz E E1 E2 E3. lia.
Qed.

Lemma meets_of_voxel c g p : cfg_ok c -> in_geom g p -> meets g (bsz c) (block_of (bsz c) p).
Proof.
  intros Hc Hp. pose proof (proj2 (in_part_iff c g (block_of (bsz c) p) p Hc) (conj Hp eq_refl)) as R.
  unfold meets, in_range in *. lia.
Qed.

(* ---- the store ---- *)
Definition store_ok (c : cfg) (st : bstore) : Prop := forall b v, st_get st b = Some v -> zlen v = block_bytes c.

Lemma pt_eqb_true p q : pt_eqb p q = true <-> p = q.
Proof.
  destruct p as [[a b] c], q as [[a' b'] c']. unfold pt_eqb, px, py, pz; cbn [fst snd].
  split; [intro H; repeat f_equal; lia|intro H; inversion H; subst; lia].
Qed.

Lemma st_get_put st b v b' : st_get (st_put st b v) b' = if pt_eqb b b' then Some v else st_get st b'.
Proof.
  induction st as [|[k v0] t IH]; cbn [st_put st_get].
  - destruct (pt_eqb b b'); reflexivity.
  - destruct (pt_eqb k b) eqn:E; cbn [st_get].
    + apply pt_eqb_true in E. subst k. destruct (pt_eqb b b'); reflexivity.
    + destruct (pt_eqb k b') eqn:E'; [|exact IH].
      apply pt_eqb_true in E'. subst k. destruct (pt_eqb b b') eqn:E2; [|reflexivity].
      apply pt_eqb_true in E2. subst b'. assert (pt_eqb b b = true) by (apply pt_eqb_true; reflexivity). congruence.
Qed.

(* byte ch of voxel p as the store holds it *)
Definition stored_byte (c : cfg) (st : bstore) (p : pt) (ch : Z) : option N :=
  match st_get st (block_of (bsz c) p) with
  | Some blk => Some (nthZ blk (bidx c (pminus p (bmin c (block_of (bsz c) p))) + ch))
  | None => None
  end.


Definition pos (c : cfg) (g : geom) (stride : Z) (p : pt) (ch : Z) : Z := didx c g stride (pminus p (goff g)) + ch.
Definition listed (b : pt) (bl : list pt) : bool := existsb (pt_eqb b) bl.

Lemma data_len_ok_ext c g stride d d' : zlen d' = zlen d -> data_len_ok c g stride d -> data_len_ok c g stride d'.
Proof. unfold data_len_ok. intros E H. destruct (gshape g); lia. Qed.

(* ---- background buffers ---- *)
Lemma bg_voxel_len c : 0 <= bpv c -> zlen (bg_voxel c) = bpv c.
Proof. intro H. unfold bg_voxel, zlen. rewrite map_length, seq_length. lia. Qed.

Lemma nthZ_bg_voxel c ch : 0 <= ch < bpv c -> nthZ (bg_voxel c) ch = bg_at c ch.
Proof.
  intro H. unfold nthZ, bg_voxel. replace (ch <? 0) with false by lia.
  rewrite (nth_indep _ 0%N (bg_at c 0)) by (rewrite map_length, seq_length; lia).
  change (bg_at c 0) with ((fun k => bg_at c (Z.of_nat k)) 0%nat).
  rewrite map_nth, seq_nth by lia. f_equal. lia.
Qed.

Lemma bg_tile_len c n : 0 <= bpv c -> 0 <= n -> zlen (bg_tile c n) = n * bpv c.
Proof.
  intros Hv Hn. unfold bg_tile. rewrite <- (Z2Nat.id n) at 2 by lia. generalize (Z.to_nat n) as k.
  induction k as [|k IH]; [reflexivity|]. cbn [repeat concat]. unfold zlen in *. rewrite app_length.
  pose proof (bg_voxel_len c Hv) as L. unfold zlen in L. lia.
Qed.

(* byte ch of voxel number K of a buffer tiled with the background voxel *)
Lemma nthZ_bg_tile c n K ch : 0 <= K < n -> 0 <= ch < bpv c -> nthZ (bg_tile c n) (K * bpv c + ch) = bg_at c ch.
Proof.
  intros HK Hc. unfold bg_tile. assert (Hn : (Z.to_nat K < Z.to_nat n)%nat) by lia.
  rewrite <- (Z2Nat.id K) by lia. revert Hn. generalize (Z.to_nat n) as m. generalize (Z.to_nat K) as k.
  induction k as [|k IH]; intros [|m] Hm; try lia; cbn [repeat concat].
  - rewrite nthZ_app_l by (rewrite bg_voxel_len; lia). replace (Z.of_nat 0 * bpv c + ch) with ch by lia. apply nthZ_bg_voxel. exact Hc.
  - rewrite nthZ_app_r by (rewrite bg_voxel_len; nia). rewrite bg_voxel_len by lia.
    replace (Z.of_nat (Datatypes.S k) * bpv c + ch - bpv c) with (Z.of_nat k * bpv c + ch) by lia. apply IH. lia.
Qed.

Lemma background_block_len c : cfg_ok c -> zlen (background_block c) = block_bytes c.
Proof.
  intros (Kx & Ky & Kz & Hv). unfold background_block, block_bytes. apply bg_tile_len; [lia|].
  unfold block_voxels. repeat apply Z.mul_nonneg_nonneg; lia.
Qed.

Lemma scaled_block_len att v : zlen (scaled_block att v) = zlen v.
Proof. unfold scaled_block, zlen. now rewrite map_length. Qed.

(* what a read shows for byte ch of voxel p, given which blocks are flagged "inside the ROI":
   nothing if the block is not stored; the stored byte inside; outside the background, or with
   attenuation the stored byte shifted (one-byte voxels; wider ones are skipped) *)
Definition view_byte (c : cfg) (st : bstore) (f : pt -> bool) (att : Z) (p : pt) (ch : Z) : option N :=
  let b := block_of (bsz c) p in
  let k := bidx c (pminus p (bmin c b)) + ch in
  match st_get st b with
  | None => None
  | Some blk =>
    if f b then Some (nthZ blk k)
    else if att =? 0 then Some (nthZ (background_block c) k)
    else if bpv c =? 1 then Some (nthZ (scaled_block att blk) k) else None
  end.

(* GetVoxels over blocks that all meet the geometry: a voxel whose block is listed gets what
   view_byte says, every other voxel (and every voxel view_byte is silent about) keeps what the
   buffer held *)
Lemma get_blocks_into_spec c g stride st f att : cfg_ok c -> geom_ok g -> stride_ok c g stride -> store_ok c st ->
  forall bl data, data_len_ok c g stride data -> (forall b, In b bl -> meets g (bsz c) b) ->
  exists d', get_blocks_into c g stride st att data (map (fun b => (b, f b)) bl) = Ok d' /\ zlen d' = zlen data
    /\ forall p ch, in_geom g p -> 0 <= ch < bpv c ->
         nthZ d' (pos c g stride p ch)
         = match (if listed (block_of (bsz c) p) bl then view_byte c st f att p ch else None) with
           | Some v => v
           | None => nthZ data (pos c g stride p ch)
           end.
Proof.
  intros Hc Hg Hs Hst. induction bl as [|b t IH]; intros data Hd Hm; cbn [map get_blocks_into].
  - exists data. split; [reflexivity|]. split; [reflexivity|]. intros p ch Hp Hch. reflexivity.
  - assert (Hm' : forall b0, In b0 t -> meets g (bsz c) b0) by (intros; apply Hm; now right).
    assert (Skip : (forall p ch, block_of (bsz c) p = b -> view_byte c st f att p ch = None) ->
              exists d', get_blocks_into c g stride st att data (map (fun b => (b, f b)) t) = Ok d' /\ zlen d' = zlen data
                /\ forall p ch, in_geom g p -> 0 <= ch < bpv c ->
                   nthZ d' (pos c g stride p ch)
                   = match (if listed (block_of (bsz c) p) (b :: t) then view_byte c st f att p ch else None) with
                     | Some v => v | None => nthZ data (pos c g stride p ch) end).
    { intros Hnone. destruct (IH data Hd Hm') as (d' & E & L & P).
      exists d'. split; [exact E|]. split; [exact L|]. intros p ch Hp Hch. rewrite (P p ch Hp Hch).
      unfold listed. cbn [existsb]. fold (listed (block_of (bsz c) p) t).
      destruct (pt_eqb (block_of (bsz c) p) b) eqn:Ep; cbn [orb]; [|reflexivity].
      apply pt_eqb_true in Ep. rewrite (Hnone p ch Ep). destruct (listed (block_of (bsz c) p) t); reflexivity. }
    destruct (st_get st b) as [v|] eqn:Eb.
    + destruct (negb (f b) && negb (att =? 0) && negb (bpv c =? 1)) eqn:Sk.
      * apply Skip. intros p ch Ep. unfold view_byte. rewrite Ep, Eb.
        destruct (f b); [discriminate|]. destruct (att =? 0); [discriminate|]. destruct (bpv c =? 1); [discriminate|reflexivity].
      * set (blk := if f b then v else if att =? 0 then background_block c else scaled_block att v).
        assert (Lb : zlen blk = block_bytes c).
        { unfold blk. destruct (f b); [exact (Hst b v Eb)|]. destruct (att =? 0); [apply background_block_len; assumption|].
          rewrite scaled_block_len. exact (Hst b v Eb). }
        destruct (block_xfer c g stride b data blk Hc Hg (Hm b (or_introl eq_refl)) Hs Hd Lb) as ((d1 & E1 & L1 & P1 & Q1) & _).
        rewrite E1. destruct (IH d1 (data_len_ok_ext _ _ _ _ _ L1 Hd) Hm') as (d' & E & L & P).
        exists d'. split; [exact E|]. split; [lia|]. intros p ch Hp Hch. rewrite (P p ch Hp Hch).
        unfold listed. cbn [existsb]. fold (listed (block_of (bsz c) p) t).
        destruct (pt_eqb (block_of (bsz c) p) b) eqn:Ep; cbn [orb].
        -- apply pt_eqb_true in Ep.
           assert (V : view_byte c st f att p ch = Some (nthZ blk (bidx c (pminus p (bmin c b)) + ch))).
           { unfold view_byte. rewrite Ep, Eb. unfold blk. destruct (f b); [reflexivity|].
             destruct (att =? 0); [reflexivity|]. destruct (bpv c =? 1); [reflexivity|]. discriminate Sk. }
           rewrite V. destruct (listed (block_of (bsz c) p) t); [reflexivity|].
           unfold pos. apply P1; [|assumption]. apply in_part_iff; [assumption|]. split; assumption.
        -- assert (U : nthZ d1 (pos c g stride p ch) = nthZ data (pos c g stride p ch)); [|rewrite U; reflexivity].
           apply Q1. intros p' ch' Hp' Hch' E'. apply in_part_iff in Hp' as (Hg' & Hb'); [|assumption].
           destruct (didx_inj c g stride p p' ch ch' Hc Hg Hs Hp Hg' Hch Hch' E') as (-> & _).
           assert (pt_eqb (block_of (bsz c) p') b = true) by (apply pt_eqb_true; assumption). congruence.
    + apply Skip. intros p ch Ep. unfold view_byte. now rewrite Ep, Eb.
Qed.

(* ---- block iteration ---- *)
Definition blk_small (b : pt) : Prop :=
  - 1073741824 <= px b <= 1073741824 /\ - 1073741824 <= py b <= 1073741824 /\ - 1073741824 <= pz b <= 1073741824.

Lemma blk_small_is32 b : blk_small b -> pt_is32 b.
Proof. unfold blk_small, pt_is32, is32. change (2 ^ 31) with 2147483648. lia. Qed.

(* Valid() compares key bytes; by C18 (zyx_order) that is the (z, y, x) order of the blocks *)
Lemma iter_valid_eq cur endb : pt_is32 cur -> pt_is32 endb ->
  iter_valid cur endb = match zyx_cmp cur endb with Gt => false | _ => true end.
Proof.
  intros H1 H2. destruct (zyx_roundtrip_l cur H1) as (a & Ea & _). destruct (zyx_roundtrip_l endb H2) as (b & Eb & _).
  unfold iter_valid. rewrite Ea, Eb. now rewrite (zyx_order_l cur endb a b H1 H2 Ea Eb).
Qed.

Definition yz_lt (a b : Z * Z) : Prop := snd a < snd b \/ (snd a = snd b /\ fst a < fst b).

Lemma iter_spans_spec bb eb : blk_small bb -> blk_small eb -> px bb <= px eb -> py bb <= py eb -> pz bb <= pz eb ->
  forall fuel y z, py bb <= y <= py eb -> pz bb <= z <= pz eb + 1 -> (z = pz eb + 1 -> y = py bb) ->
  (pz eb - z) * (py eb - py bb + 1) + (py eb - y + 1) < Z.of_nat fuel ->
  exists l, iter_spans fuel y z bb eb = Some l
    /\ (forall y' z', In (y', z') l <->
         (py bb <= y' <= py eb /\ pz bb <= z' <= pz eb /\ (z < z' \/ (z = z' /\ y <= y'))))
    /\ StronglySorted yz_lt l.
Proof.
  intros Sb Se Hx Hy Hz. induction fuel as [|f IH]; intros y z Ry Rz Rt Rf.
  - exfalso. assert (0 <= (pz eb - z) * (py eb - py bb + 1) + (py eb - y + 1)); [|lia].
    destruct (Z.eq_dec z (pz eb + 1)) as [E|N]; [rewrite (Rt E), E; lia|].
    assert (0 <= (pz eb - z) * (py eb - py bb + 1)) by (apply Z.mul_nonneg_nonneg; lia). lia.
  - cbn [iter_spans].
    assert (V : iter_valid (px bb, y, z) eb = (z <=? pz eb)).
    { rewrite iter_valid_eq.
      - unfold zyx_cmp, px, py, pz; cbn [fst snd]. unfold px, py, pz in *.
        destruct (Z.compare_spec z (snd eb)); [|lia|lia].
        destruct (Z.compare_spec y (snd (fst eb))); [|lia|lia].
        destruct (Z.compare_spec (fst (fst bb)) (fst (fst eb))); lia.
      - unfold blk_small, pt_is32, is32, px, py, pz in *; cbn [fst snd]. change (2 ^ 31) with 2147483648. lia.
      - apply blk_small_is32. assumption. }
    rewrite V. destruct (Z.leb_spec z (pz eb)) as [Le|Gt].
    + rewrite (w32_small (y + 1)) by (unfold blk_small in *; lia).
      destruct (Z.ltb_spec (py eb) (y + 1)) as [Wrap|Next].
      * rewrite (w32_small (z + 1)) by (unfold blk_small in *; lia).
        destruct (IH (py bb) (z + 1)) as (l & E & M & SS); try lia.
        rewrite E. eexists. split; [reflexivity|]. split.
        { intros y' z'. cbn [In]. rewrite M.
          split; [intros [X|X]; [inversion X; lia|lia]|intro X].
          destruct (Z.eq_dec z z'); [left; f_equal; lia|right; lia]. }
        constructor; [exact SS|]. apply Forall_forall. intros [y' z'] Hin. apply M in Hin. unfold yz_lt; cbn [fst snd]. lia.
      * destruct (IH (y + 1) z) as (l & E & M & SS); try lia.
        rewrite E. eexists. split; [reflexivity|]. split.
        { intros y' z'. cbn [In]. rewrite M.
          split; [intros [X|X]; [inversion X; lia|lia]|intro X].
          destruct (Z.eq_dec z z'); [destruct (Z.eq_dec y y'); [left; congruence|right; lia]|right; lia]. }
        constructor; [exact SS|]. apply Forall_forall. intros [y' z'] Hin. apply M in Hin. unfold yz_lt; cbn [fst snd]. lia.
    + exists []. split; [reflexivity|]. split; [intros y' z'; cbn [In]; lia|constructor].
Qed.

Lemma span_blocks_in bx ex y z b : In b (span_blocks bx ex y z) <-> (py b = y /\ pz b = z /\ bx <= px b <= ex).
Proof.
  unfold span_blocks. rewrite in_map_iff. split.
  - intros (i & <- & Hi). apply in_seq in Hi. unfold px, py, pz; cbn [fst snd]. lia.
  - intros (E1 & E2 & R). exists (Z.to_nat (px b - bx)). split.
    + destruct b as [[x y'] z']. unfold px, py, pz in *; cbn [fst snd] in *. subst. replace (bx + Z.of_nat (Z.to_nat (x - bx))) with x by lia. reflexivity.
    + apply in_seq. lia.
Qed.

Lemma div_le_iff k b P : 0 < k -> (P / k <= b <-> P <= (b + 1) * k - 1).
Proof.
  intro H. pose proof (Z.div_mod P k ltac:(lia)). pose proof (Z.mod_pos_bound P k H).
  set (q := P / k) in *. set (r := P mod k) in *. clearbody q r. subst P. split; intro; nia.
Qed.
Lemma le_div_iff k b P : 0 < k -> (b <= P / k <-> b * k <= P).
Proof.
  intro H. pose proof (Z.div_mod P k ltac:(lia)). pose proof (Z.mod_pos_bound P k H).
  set (q := P / k) in *. set (r := P mod k) in *. clearbody q r. subst P. split; intro; nia.
Qed.
Lemma div_small P k : 1 <= k -> - 1073741824 <= P <= 1073741824 -> - 1073741824 <= P / k <= 1073741824.
Proof.
  intros Hk HP. split.
  - apply (proj2 (le_div_iff k (-1073741824) P ltac:(lia))). nia.
  - apply (proj2 (div_le_iff k 1073741824 P ltac:(lia))). nia.
Qed.

Lemma meets1_iff k b o s : 0 < k -> 1 <= s ->
  (Z.max o (b * k) <= Z.min (o + s - 1) ((b + 1) * k - 1) <-> o / k <= b <= (o + s - 1) / k).
Proof.
  intros Hk Hs. pose proof (div_le_iff k b o Hk) as A. pose proof (le_div_iff k b (o + s - 1) Hk) as B.
  set (q1 := o / k) in *. set (q2 := (o + s - 1) / k) in *. clearbody q1 q2.
  assert (b * k <= (b + 1) * k - 1) by lia. lia.
Qed.

Lemma meets_iff c g b : cfg_ok c -> geom_ok g ->
  meets g (bsz c) b <-> in_range (block_of (bsz c) (goff g)) (block_of (bsz c) (gend g)) b.
Proof.
  intros (Kx & Ky & Kz & _) Hg. pose proof (size3_pos g Hg) as S.
  unfold meets, in_range, lo, hi, block_of, gend, px, py, pz in *; cbn [fst snd].
  destruct (bsz c) as [[kx ky] kz]. destruct b as [[bx by_] bz]. destruct (goff g) as [[ox oy] oz]. cbn [fst snd] in *.
  set (sx := fst (fst (g_size3 g))) in *. set (sy := snd (fst (g_size3 g))) in *. set (sz := snd (g_size3 g)) in *.
  clearbody sx sy sz.
  rewrite (meets1_iff kx bx ox sx), (meets1_iff ky by_ oy sy), (meets1_iff kz bz oz sz) by lia. reflexivity.
Qed.

Lemma SSapp {A} (R : A -> A -> Prop) a b :
  StronglySorted R a -> StronglySorted R b -> (forall x y, In x a -> In y b -> R x y) -> StronglySorted R (a ++ b).
Proof.
  induction 1 as [|h t Ht IH Hh]; intros Sb C; cbn [app]; [exact Sb|].
  constructor; [apply IH; [exact Sb|intros; apply C; [now right|assumption]]|].
  apply Forall_app. split; [exact Hh|]. apply Forall_forall. intros y Hy. apply C; [now left|assumption].
Qed.

Lemma span_blocks_sorted bx ex sp : StronglySorted yz_lt sp ->
  StronglySorted pt_zyx_le (flat_map (fun yz => span_blocks bx ex (fst yz) (snd yz)) sp).
Proof.
  induction 1 as [|[y z] t St IH Ft]; cbn [flat_map]; [constructor|]. apply SSapp; [|exact IH|].
  - unfold span_blocks. cbn [fst snd]. generalize (Z.to_nat (ex - bx + 1)) as n. generalize 0%nat as k.
    intros k n. revert k. induction n as [|n IHn]; intro k; cbn [seq map]; [constructor|].
    constructor; [apply IHn|]. apply Forall_forall. intros q Hq. apply in_map_iff in Hq as (i & <- & Hi). apply in_seq in Hi.
    unfold pt_zyx_le, px, py, pz; cbn [fst snd]. lia.
  - intros a b Ha Hb. apply span_blocks_in in Ha. cbn [fst snd] in Ha. apply in_flat_map in Hb as ([y' z'] & Hs & Hb).
    apply span_blocks_in in Hb. cbn [fst snd] in Hb. rewrite Forall_forall in Ft. specialize (Ft _ Hs).
    unfold yz_lt in Ft; cbn [fst snd] in Ft. unfold pt_zyx_le. lia.
Qed.

(* the blocks GetVoxels / PutVoxels visit: exactly those that meet the geometry *)
Lemma geom_blocks_spec c g : cfg_ok c -> geom_ok g ->
  exists bl, geom_blocks c g = Ok bl /\ (forall b, In b bl <-> meets g (bsz c) b) /\ StronglySorted pt_zyx_le bl.
Proof.
  intros Hc Hg. pose proof (size3_pos g Hg) as S3. unfold geom_blocks. rewrite g_end_eq by assumption.
  assert (Hb : bsize_ok (bsz c)) by (destruct Hc as (A & B & C & _); unfold bsize_ok; lia).
  assert (So : pt_safe (goff g)) by (destruct Hg as (Ho & _); unfold pt_safe; lia).
  assert (Se : pt_safe (gend g)) by (destruct Hg as (Ho & _); unfold pt_safe, gend, px, py, pz in *; cbn [fst snd]; lia).
  rewrite (chunk_pt_floor _ _ So Hb), (chunk_pt_floor _ _ Se Hb).
  set (bb := block_of (bsz c) (goff g)). set (eb := block_of (bsz c) (gend g)).
  assert (Sbb : blk_small bb /\ blk_small eb /\ px bb <= px eb /\ py bb <= py eb /\ pz bb <= pz eb).
  { destruct Hc as (Kx & Ky & Kz & _). destruct Hg as (Ho & _).
    unfold bb, eb, blk_small, block_of, gend, px, py, pz in *; cbn [fst snd].
    repeat split; try (apply div_small; lia); try (apply Z.div_le_mono; lia). }
  destruct Sbb as (Sb & Se' & Hx & Hy & Hz).
  assert (N0 : 0 <= (py eb - py bb + 1) * (pz eb - pz bb + 1)) by (apply Z.mul_nonneg_nonneg; lia).
  assert (Fuel : (pz eb - pz bb) * (py eb - py bb + 1) + (py eb - py bb + 1)
                 < Z.of_nat (Datatypes.S (Z.to_nat ((py eb - py bb + 1) * (pz eb - pz bb + 1))))).
  { rewrite Nat2Z.inj_succ, Z2Nat.id by exact N0. lia. }
  destruct (iter_spans_spec bb eb Sb Se' Hx Hy Hz _ (py bb) (pz bb) ltac:(lia) ltac:(lia) ltac:(lia) Fuel) as (sp & E & M & SSp).
  rewrite E. eexists. split; [reflexivity|]. split; [|apply span_blocks_sorted; exact SSp]. intro b.
  rewrite (meets_iff c g b Hc Hg). fold bb eb. rewrite in_flat_map. split.
  - intros ([y z] & Hs & Hin). apply M in Hs. apply span_blocks_in in Hin. cbn [fst snd] in Hin.
    unfold in_range. lia.
  - intros R. exists (py b, pz b). split; [apply M; unfold in_range in R; lia|].
    apply span_blocks_in. cbn [fst snd]. unfold in_range in R. lia.
Qed.

(* ---- reading a geometry from the store ---- *)
Lemma nth_repeat_lt {A} (x d : A) n k : (k < n)%nat -> nth k (repeat x n) d = x.
Proof. revert k. induction n as [|n IH]; intros [|k] H; cbn; try lia; [reflexivity|]. apply IH. lia. Qed.
Lemma nthZ_repeat x n k : 0 <= k < Z.of_nat n -> nthZ (repeat x n) k = x.
Proof. intro H. unfold nthZ. replace (k <? 0) with false by lia. apply nth_repeat_lt. lia. Qed.

(* the buffer position of a voxel is its ordinal in the request times the voxel width *)
Lemma pos_voxel c g p ch : cfg_ok c -> geom_ok g -> in_geom g p -> 0 <= ch < bpv c ->
  exists K, 0 <= K < g_numvoxels g /\ pos c g (gw g * bpv c) p ch = K * bpv c + ch.
Proof.
  destruct c as [[[kx ky] kz] v bg pat fx]. destruct g as [sh [[ox oy] oz] w h d]. destruct p as [[x y] z].
  intros (_ & _ & _ & Hv) (Ho & Hw & Hh & Hd).
  unfold pos, in_geom, in_range, gend, g_size3, g_numvoxels, didx, pminus, px, py, pz in *; cbn [fst snd bsz bpv gshape goff gw gh gd] in *.
  destruct sh; cbn [fst snd]; intros Hp Hc.
  - exists ((y - oy) * w + (x - ox)). split; [|ring].
    pose proof (chan_bound (y - oy) (x - ox) h w ltac:(lia) ltac:(lia)). lia.
  - exists ((z - oz) * w + (x - ox)). split; [|ring].
    pose proof (chan_bound (z - oz) (x - ox) h w ltac:(lia) ltac:(lia)). lia.
  - exists ((z - oz) * w + (y - oy)). split; [|ring].
    pose proof (chan_bound (z - oz) (y - oy) h w ltac:(lia) ltac:(lia)). lia.
  - exists (((z - oz) * h + (y - oy)) * w + (x - ox)). split; [|ring].
    pose proof (chan_bound (z - oz) (y - oy) d h ltac:(lia) ltac:(lia)) as B1.
    pose proof (chan_bound ((z - oz) * h + (y - oy)) (x - ox) (d * h) w B1 ltac:(lia)). lia.
Qed.

(* what NewVoxels leaves in byte ch of every voxel: the background once the buffer is preset *)
Definition init_at (fill : bool) (c : cfg) (ch : Z) : N := if fill then bg_at c ch else 0%N.

Lemma numvoxels_pos g : geom_ok g -> 1 <= g_numvoxels g.
Proof. intros (_ & Hw & Hh & Hd). unfold g_numvoxels. destruct (gshape g); nia. Qed.

Lemma stride_ok_exact c g : cfg_ok c -> geom_ok g -> stride_ok c g (gw g * bpv c).
Proof. intros (_ & _ & _ & Hv) (_ & Hw & _). unfold stride_ok. destruct (gshape g); try exact I; nia. Qed.

Lemma new_buffer_len fill c g : cfg_ok c -> geom_ok g ->
  zlen (new_buffer fill c g) = bpv c * g_numvoxels g /\ data_len_ok c g (gw g * bpv c) (new_buffer fill c g).
Proof.
  intros Hc Hg. pose proof (numvoxels_pos g Hg). destruct Hc as (_ & _ & _ & Hv).
  assert (L : zlen (new_buffer fill c g) = bpv c * g_numvoxels g).
  { unfold new_buffer. destruct fill; [rewrite bg_tile_len by lia; lia|]. unfold zlen. rewrite repeat_length. nia. }
  split; [exact L|]. unfold data_len_ok. rewrite L. unfold g_numvoxels. destruct (gshape g); lia.
Qed.

Lemma new_buffer_at fill c g p ch : cfg_ok c -> geom_ok g -> in_geom g p -> 0 <= ch < bpv c ->
  nthZ (new_buffer fill c g) (pos c g (gw g * bpv c) p ch) = init_at fill c ch.
Proof.
  intros Hc Hg Hp Hch. destruct (pos_voxel c g p ch Hc Hg Hp Hch) as (K & HK & E). rewrite E.
  unfold new_buffer, init_at. destruct fill; [apply nthZ_bg_tile; assumption|].
  apply nthZ_repeat. destruct Hc as (_ & _ & _ & Hv). nia.
Qed.

(* the blocks visited, each flagged by f, as GetVoxels sees them for a request with flags f *)
Lemma get_flagged_ok fill c s g f att : cfg_ok c -> geom_ok g -> store_ok c (blocks s) ->
  forall bl, (forall b, In b bl <-> meets g (bsz c) b) ->
  exists buf, get_blocks_into c g (gw g * bpv c) (blocks s) att (new_buffer fill c g) (map (fun b => (b, f b)) bl) = Ok buf
    /\ zlen buf = bpv c * g_numvoxels g
    /\ forall p ch, in_geom g p -> 0 <= ch < bpv c ->
         nthZ buf (pos c g (gw g * bpv c) p ch)
         = match view_byte c (blocks s) f att p ch with Some v => v | None => init_at fill c ch end.
Proof.
  intros Hc Hg Hst bl M. destruct (new_buffer_len fill c g Hc Hg) as (L0 & D0).
  destruct (get_blocks_into_spec c g (gw g * bpv c) (blocks s) f att Hc Hg (stride_ok_exact c g Hc Hg) Hst bl
              (new_buffer fill c g) D0 (fun b Hb => proj1 (M b) Hb)) as (d' & E' & L' & P').
  exists d'. split; [exact E'|]. split; [lia|]. intros p ch Hp Hch. rewrite (P' p ch Hp Hch).
  assert (Li : listed (block_of (bsz c) p) bl = true).
  { unfold listed. apply existsb_exists. exists (block_of (bsz c) p). split.
    - apply M. apply meets_of_voxel; assumption.
    - apply pt_eqb_true. reflexivity. }
  rewrite Li. destruct (view_byte c (blocks s) f att p ch); [reflexivity|]. apply new_buffer_at; assumption.
Qed.

Lemma view_byte_all c st att p ch : view_byte c st (fun _ => true) att p ch = stored_byte c st p ch.
Proof. unfold view_byte, stored_byte. destruct (st_get st (block_of (bsz c) p)); reflexivity. Qed.

(* GET raw (any geometry, no ROI): every voxel of the request is the stored voxel, or the initial
   byte of the buffer where no block is stored *)
Lemma get_raw_ok fill c s g : cfg_ok c -> geom_ok g -> store_ok c (blocks s) ->
  exists buf, get_raw fill c s g None = Ok buf /\ zlen buf = bpv c * g_numvoxels g
    /\ forall p ch, in_geom g p -> 0 <= ch < bpv c ->
         nthZ buf (pos c g (gw g * bpv c) p ch)
         = match stored_byte c (blocks s) p ch with Some v => v | None => init_at fill c ch end.
Proof.
  intros Hc Hg Hst. unfold get_raw, get_raw_att. pose proof (numvoxels_pos g Hg) as Nv.
  replace (negb (1 <=? g_numvoxels g)) with false by lia.
  destruct (geom_blocks_spec c g Hc Hg) as (bl & E & M & _). rewrite E. cbn [roi_flags].
  destruct (get_flagged_ok fill c s g (fun _ => true) 0 Hc Hg Hst bl M) as (buf & Eb & Lb & P).
  exists buf. split; [exact Eb|]. split; [exact Lb|]. intros p ch Hp Hch. rewrite (P p ch Hp Hch). now rewrite view_byte_all.
Qed.

(* ---- the ROI sweep (roi.Iterator.InsideFast) over the visited blocks ---- *)
Definition span_wf (s : span) : Prop := sx0 s <= sx1 s.

Lemma inside_fast_seek b spans : Forall span_wf spans -> inside_fast b spans = seek_span b spans.
Proof.
  induction 1 as [|s tl Hs Ht IH]; [reflexivity|]. cbn [inside_fast seek_span].
  unfold span_wf in Hs. unfold span_less_pt, span_includes.
  destruct (Z.ltb_spec (pz b) (sz s)).
  { replace (sz s <? pz b) with false by lia. replace (sz s =? pz b) with false by lia. reflexivity. }
  destruct (Z.ltb_spec (sz s) (pz b)); [exact IH|].
  destruct (Z.ltb_spec (py b) (sy s)).
  { replace (sy s <? py b) with false by lia. replace (sy s =? py b) with false by lia. now rewrite andb_false_r. }
  destruct (Z.ltb_spec (sy s) (py b)); [exact IH|].
  destruct (Z.ltb_spec (px b) (sx0 s)).
  { replace (sx1 s <? px b) with false by lia. replace (sx0 s <=? px b) with false by lia. now rewrite andb_false_r. }
  destruct (Z.leb_spec (px b) (sx1 s)).
  { replace (sx1 s <? px b) with false by lia. f_equal. lia. }
  replace (sx1 s <? px b) with true by lia. exact IH.
Qed.

Lemma roi_filter_spec all : forall bl cur passed,
  all = passed ++ cur -> Forall span_wf cur -> spans_sorted cur -> StronglySorted pt_zyx_le bl ->
  Forall (fun b => Forall (fun s => span_less_pt s b = true) passed) bl ->
  roi_filter cur bl = map (fun b => (b, in_spans b all)) bl.
Proof.
  induction bl as [|b t IH]; intros cur passed E Wf Sc Sb Fp; cbn [roi_filter map]; [reflexivity|].
  rewrite (inside_fast_seek b cur Wf).
  destruct (seek_span_spec b cur Sc) as (sk & Ecur & Fsk & Einc & Sc').
  destruct (seek_span b cur) as [cur' inc]. cbn [fst snd] in *.
  apply StronglySorted_inv in Sb as (Sb' & Fb). pose proof (Forall_inv Fp) as Fpb. pose proof (Forall_inv_tail Fp) as Fpt.
  f_equal.
  - f_equal. rewrite Einc, E, in_spans_app, (in_spans_less b passed Fpb). reflexivity.
  - apply (IH cur' (passed ++ sk)).
    + rewrite <- app_assoc, <- Ecur. exact E.
    + rewrite Ecur, Forall_app in Wf. tauto.
    + exact Sc'.
    + exact Sb'.
    + rewrite Forall_forall in *. intros q Hq. apply Forall_app. split; [apply Fpt; assumption|].
      rewrite Forall_forall. intros s Hs. eapply less_mono; [apply (Fb q Hq)|]. auto.
Qed.

(* for sorted well-formed spans the sweep flags exactly the blocks of the span set *)
Lemma roi_flags_ok spans bl : Forall span_wf spans -> spans_sorted spans -> StronglySorted pt_zyx_le bl ->
  roi_flags (Some spans) bl = map (fun b => (b, in_spans b spans)) bl.
Proof.
  intros Wf Ss Sb. cbn [roi_flags]. apply (roi_filter_spec spans bl spans []); try assumption; [reflexivity|].
  apply Forall_forall. intros; constructor.
Qed.
Lemma roi_flags_none bl : roi_flags None bl = map (fun b => (b, true)) bl.
Proof. reflexivity. Qed.

Definition roi_test (roi : option (list span)) (b : pt) : bool :=
  match roi with None => true | Some spans => in_spans b spans end.
Definition roi_wf (roi : option (list span)) : Prop :=
  match roi with None => True | Some spans => Forall span_wf spans /\ spans_sorted spans end.

Lemma roi_flags_test roi bl : roi_wf roi -> StronglySorted pt_zyx_le bl ->
  roi_flags roi bl = map (fun b => (b, roi_test roi b)) bl.
Proof. destruct roi as [spans|]; [intros (Wf & Ss) Sb; now apply roi_flags_ok|reflexivity]. Qed.

(* GET raw with an optional ROI and attenuation: inside the ROI the stored voxel; outside the
   background, or the stored byte shifted right (one-byte voxels); where no block is stored the
   background *)
Lemma get_raw_roi_ok fill c s g roi att : cfg_ok c -> geom_ok g -> store_ok c (blocks s) -> roi_wf roi ->
  exists buf, get_raw_att fill c s g roi att = Ok buf /\ zlen buf = bpv c * g_numvoxels g
    /\ forall p ch, in_geom g p -> 0 <= ch < bpv c ->
         nthZ buf (pos c g (gw g * bpv c) p ch)
         = match view_byte c (blocks s) (roi_test roi) att p ch with Some v => v | None => init_at fill c ch end.
Proof.
  intros Hc Hg Hst Hr. unfold get_raw_att. pose proof (numvoxels_pos g Hg) as Nv.
  replace (negb (1 <=? g_numvoxels g)) with false by lia.
  destruct (geom_blocks_spec c g Hc Hg) as (bl & E & M & Sb). rewrite E.
  rewrite (roi_flags_test roi bl Hr Sb).
  exact (get_flagged_ok fill c s g (roi_test roi) att Hc Hg Hst bl M).
Qed.
