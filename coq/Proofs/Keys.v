(* Proofs.Keys: the storage key layout is injective, parseable and order preserving. *)
From DV Require Import Base.Prelude Base.Int Base.Lex Base.KeyShape Gen.Consts Gen.KeyLits Gen.KeyClasses Model.Keys.
From Coq Require Import ZifyN ZifyNat ZifyBool.
Ltac Zify.zify_post_hook ::= Z.div_mod_to_equations.
Local Open Scope N_scope.

(* ---- sizes (read from the generated constants) ---- *)
Lemma iid_size_eq : iid_size = 4%nat. Proof. reflexivity. Qed.
Lemma vid_size_eq : vid_size = 4%nat. Proof. reflexivity. Qed.
Lemma cid_size_eq : cid_size = 4%nat. Proof. reflexivity. Qed.
Lemma suffix_size_eq : suffix_size = 9%nat. Proof. reflexivity. Qed.
Lemma pow_id : 256 ^ N.of_nat 4 = 2 ^ 32. Proof. reflexivity. Qed.

Lemma iid_bytes_length i : length (iid_bytes i) = 4%nat.
Proof. unfold iid_bytes. now rewrite be_enc_length. Qed.
Lemma vid_bytes_length i : length (vid_bytes i) = 4%nat.
Proof. unfold vid_bytes. now rewrite be_enc_length. Qed.
Lemma cid_bytes_length i : length (cid_bytes i) = 4%nat.
Proof. unfold cid_bytes. now rewrite be_enc_length. Qed.

Lemma iid_dec_enc i : id_ok i -> be_dec (iid_bytes i) = i.
Proof. intro H. unfold iid_bytes. rewrite iid_size_eq. apply be_dec_enc. now rewrite pow_id. Qed.
Lemma vid_dec_enc i : id_ok i -> be_dec (vid_bytes i) = i.
Proof. intro H. unfold vid_bytes. rewrite vid_size_eq. apply be_dec_enc. now rewrite pow_id. Qed.
Lemma cid_dec_enc i : id_ok i -> be_dec (cid_bytes i) = i.
Proof. intro H. unfold cid_bytes. rewrite cid_size_eq. apply be_dec_enc. now rewrite pow_id. Qed.

Lemma iid_bytes_inj i j : id_ok i -> id_ok j -> iid_bytes i = iid_bytes j -> i = j.
Proof. intros Hi Hj E. rewrite <- (iid_dec_enc i Hi), <- (iid_dec_enc j Hj). now rewrite E. Qed.

Lemma iid_compare i j : id_ok i -> id_ok j -> lex_compare (iid_bytes i) (iid_bytes j) = (i ?= j).
Proof. intros. unfold iid_bytes. rewrite iid_size_eq. apply be_enc_compare; now rewrite pow_id. Qed.
Lemma vid_compare i j : id_ok i -> id_ok j -> lex_compare (vid_bytes i) (vid_bytes j) = (i ?= j).
Proof. intros. unfold vid_bytes. rewrite vid_size_eq. apply be_enc_compare; now rewrite pow_id. Qed.
Lemma cid_compare i j : id_ok i -> id_ok j -> lex_compare (cid_bytes i) (cid_bytes j) = (i ?= j).
Proof. intros. unfold cid_bytes. rewrite cid_size_eq. apply be_enc_compare; now rewrite pow_id. Qed.

Lemma id_okb_ok x : id_okb x = true <-> id_ok x.
Proof. unfold id_okb, id_ok. apply N.ltb_lt. Qed.

(* ---- the three segments of a data key ---- *)
Definition key_head (i : N) : bytes := n_dataKeyPrefix :: iid_bytes i.
Definition key_suffix (v c m : N) : bytes := vid_bytes v ++ cid_bytes c ++ [m].

Lemma data_key_split i tk v c m : data_key i tk v c m = key_head i ++ tk ++ key_suffix v c m.
Proof. reflexivity. Qed.

Lemma key_head_length i : length (key_head i) = 5%nat.
Proof. unfold key_head. cbn [length]. now rewrite iid_bytes_length. Qed.
Lemma key_suffix_length v c m : length (key_suffix v c m) = 9%nat.
Proof. unfold key_suffix. rewrite !app_length, vid_bytes_length, cid_bytes_length. reflexivity. Qed.

Lemma data_key_length i tk v c m : length (data_key i tk v c m) = (length tk + 14)%nat.
Proof. rewrite data_key_split, !app_length, key_head_length, key_suffix_length. lia. Qed.

Lemma min_version_key_eq i tk : min_version_key i tk = data_key i tk 0 0 0.
Proof. reflexivity. Qed.
Lemma max_version_key_eq i tk : max_version_key i tk = data_key i tk n_MaxVersionID n_MaxClientID 255.
Proof. reflexivity. Qed.
Lemma unversioned_prefix_eq i tk : unversioned_prefix i tk = key_head i ++ tk.
Proof. reflexivity. Qed.

(* ---- slicing ---- *)
Lemma slice_mid (a b c : bytes) :
  slice (a ++ b ++ c) (length a) (length a + length b) = Ok b.
Proof.
  unfold slice.
  replace (Nat.leb (length a) (length a + length b)) with true by (symmetry; apply Nat.leb_le; lia).
  replace (Nat.leb (length a + length b) (length (a ++ b ++ c))) with true
    by (symmetry; apply Nat.leb_le; rewrite !app_length; lia).
  simpl. f_equal.
  replace (length a + length b - length a)%nat with (length b) by lia.
  rewrite skipn_app, skipn_all, Nat.sub_diag. simpl.
  rewrite firstn_app, firstn_all, Nat.sub_diag. simpl. now rewrite app_nil_r.
Qed.

Lemma slice_mid' (a b c : bytes) x y :
  x = length a -> y = (length a + length b)%nat -> slice (a ++ b ++ c) x y = Ok b.
Proof. intros -> ->. apply slice_mid. Qed.

Lemma overwrite_mid (a b c b' : bytes) :
  length b' = length b -> overwrite (a ++ b ++ c) (length a) b' = Ok (a ++ b' ++ c).
Proof.
  intro L. unfold overwrite.
  replace (Nat.leb (length a + length b') (length (a ++ b ++ c))) with true
    by (symmetry; apply Nat.leb_le; rewrite !app_length; lia).
  f_equal. rewrite firstn_app, firstn_all, Nat.sub_diag. simpl. rewrite app_nil_r.
  f_equal. f_equal. rewrite skipn_app, skipn_all2 by lia.
  replace (length a + length b' - length a)%nat with (length b) by lia.
  simpl. rewrite skipn_app, skipn_all, Nat.sub_diag. reflexivity.
Qed.

Lemma suffix_start_data_key i tk v c m :
  suffix_start (data_key i tk v c m) = Z.of_nat (5 + length tk).
Proof. unfold suffix_start. rewrite data_key_length, suffix_size_eq. lia. Qed.

(* ---- parse . construct ---- *)
Lemma data_key_head_byte i tk v c m : exists rest, data_key i tk v c m = n_dataKeyPrefix :: rest.
Proof. unfold data_key. eexists. reflexivity. Qed.

Lemma tkey_from_data_key i tk v c m : tkey_from_key (Some (data_key i tk v c m)) = Ok tk.
Proof.
  destruct (data_key_head_byte i tk v c m) as [rest E].
  unfold tkey_from_key. rewrite E.
  replace (n_dataKeyPrefix =? n_metadataKeyPrefix) with false by reflexivity.
  replace (n_dataKeyPrefix =? n_dataKeyPrefix) with true by reflexivity.
  rewrite <- E. rewrite suffix_start_data_key, iid_size_eq.
  replace (Z.of_nat (5 + length tk) <? Z.of_nat (1 + 4))%Z with false by (symmetry; apply Z.ltb_ge; lia).
  rewrite Nat2Z.id. rewrite data_key_split.
  apply slice_mid'; rewrite key_head_length; reflexivity.
Qed.

Lemma tkey_from_metadata_key tk : tkey_from_key (Some (metadata_key tk)) = Ok tk.
Proof. reflexivity. Qed.

Lemma data_key_layout i tk v c m :
  data_key i tk v c m =
  [n_dataKeyPrefix] ++ iid_bytes i ++ (tk ++ vid_bytes v ++ cid_bytes c ++ [m]).
Proof. reflexivity. Qed.

Lemma data_key_layout_v i tk v c m :
  data_key i tk v c m = (key_head i ++ tk) ++ vid_bytes v ++ (cid_bytes c ++ [m]).
Proof. rewrite data_key_split. unfold key_suffix. now rewrite <- !app_assoc. Qed.

Lemma data_key_layout_c i tk v c m :
  data_key i tk v c m = (key_head i ++ tk ++ vid_bytes v) ++ cid_bytes c ++ [m].
Proof. rewrite data_key_split. unfold key_suffix. now rewrite <- !app_assoc. Qed.

Lemma local_ids_of_data_key i tk v c m :
  id_ok i -> id_ok v -> id_ok c ->
  data_key_to_local_ids (data_key i tk v c m) = Ok (i, v, c).
Proof.
  intros Hi Hv Hc.
  destruct (data_key_head_byte i tk v c m) as [rest E].
  unfold data_key_to_local_ids. rewrite E.
  replace (negb (n_dataKeyPrefix =? n_dataKeyPrefix)) with false by reflexivity.
  rewrite <- E. rewrite iid_size_eq, vid_size_eq, cid_size_eq.
  rewrite (data_key_layout i tk v c m) at 1.
  rewrite (slice_mid' [n_dataKeyPrefix] (iid_bytes i) _ 1 (1 + 4)); [|reflexivity|now rewrite iid_bytes_length].
  cbn [res_bind]. rewrite suffix_start_data_key.
  replace (Z.of_nat (5 + length tk) <? 0)%Z with false by (symmetry; apply Z.ltb_ge; lia).
  rewrite Nat2Z.id.
  rewrite (data_key_layout_v i tk v c m) at 1.
  rewrite (slice_mid' (key_head i ++ tk) (vid_bytes v) _);
    [|rewrite app_length, key_head_length; reflexivity
     |rewrite app_length, key_head_length, vid_bytes_length; reflexivity].
  cbn [res_bind].
  rewrite (data_key_layout_c i tk v c m).
  rewrite (slice_mid' (key_head i ++ tk ++ vid_bytes v) (cid_bytes c) _);
    [|rewrite !app_length, key_head_length, vid_bytes_length; lia
     |rewrite !app_length, key_head_length, vid_bytes_length, cid_bytes_length; lia].
  cbn [res_bind]. now rewrite iid_dec_enc, vid_dec_enc, cid_dec_enc.
Qed.

Lemma version_of_data_key i tk v c m :
  id_ok v -> version_from_key (Some (data_key i tk v c m)) = Ok v.
Proof.
  intros Hv. destruct (data_key_head_byte i tk v c m) as [rest E].
  unfold version_from_key. rewrite E.
  replace (negb (n_dataKeyPrefix =? n_dataKeyPrefix)) with false by reflexivity.
  rewrite <- E. rewrite iid_size_eq, vid_size_eq, cid_size_eq, data_key_length.
  replace (Nat.ltb (length tk + 14) (4 + 4 + 4 + 2)) with false by (symmetry; apply Nat.ltb_ge; lia).
  rewrite suffix_start_data_key, Nat2Z.id.
  rewrite (data_key_layout_v i tk v c m).
  rewrite (slice_mid' (key_head i ++ tk) (vid_bytes v) _);
    [|rewrite app_length, key_head_length; reflexivity
     |rewrite app_length, key_head_length, vid_bytes_length; reflexivity].
  cbn [res_bind]. now rewrite vid_dec_enc.
Qed.

Lemma client_of_data_key i tk v c m :
  id_ok c -> client_from_key (Some (data_key i tk v c m)) = Ok c.
Proof.
  intros Hc. destruct (data_key_head_byte i tk v c m) as [rest E].
  unfold client_from_key. rewrite E.
  replace (negb (n_dataKeyPrefix =? n_dataKeyPrefix)) with false by reflexivity.
  rewrite <- E. rewrite iid_size_eq, vid_size_eq, cid_size_eq, data_key_length.
  replace (Nat.ltb (length tk + 14) (4 + 4 + 4 + 2)) with false by (symmetry; apply Nat.ltb_ge; lia).
  rewrite (data_key_layout_c i tk v c m).
  rewrite (slice_mid' (key_head i ++ tk ++ vid_bytes v) (cid_bytes c) _);
    [|rewrite !app_length, key_head_length, vid_bytes_length; lia
     |rewrite !app_length, key_head_length, vid_bytes_length, cid_bytes_length; lia].
  cbn [res_bind]. now rewrite cid_dec_enc.
Qed.

Lemma marker_of_data_key i tk v c m :
  is_tombstone (data_key i tk v c m) = (m =? n_MarkTombstone).
Proof.
  unfold is_tombstone. rewrite data_key_layout_c, rev_app_distr, rev_app_distr. reflexivity.
Qed.

Lemma last_of_data_key i tk v c m : last (data_key i tk v c m) 0 = m.
Proof.
  rewrite data_key_layout_c. rewrite app_assoc. apply last_last.
Qed.

Lemma is_data_key_data_key i tk v c m : is_data_key (data_key i tk v c m) = true.
Proof.
  destruct (data_key_head_byte i tk v c m) as [rest E].
  unfold is_data_key. rewrite E at 1. rewrite data_key_length.
  apply andb_true_iff; split; [|reflexivity].
  apply negb_true_iff. apply N.ltb_ge. unfold n_IsDataKey_minlen. lia.
Qed.

Lemma update_of_data_key i tk v c m i' v' c' :
  update_data_key (data_key i tk v c m) i' v' c' = Ok (data_key i' tk v' c' m).
Proof.
  destruct (data_key_head_byte i tk v c m) as [rest E].
  unfold update_data_key. rewrite E at 1.
  replace (negb (n_dataKeyPrefix =? n_dataKeyPrefix)) with false by reflexivity.
  rewrite (data_key_layout i tk v c m) at 1.
  rewrite (overwrite_mid [n_dataKeyPrefix] (iid_bytes i) _ (iid_bytes i'))
    by now rewrite !iid_bytes_length.
  cbn [res_bind]. rewrite suffix_start_data_key.
  replace (Z.of_nat (5 + length tk) <? 0)%Z with false by (symmetry; apply Z.ltb_ge; lia).
  rewrite Nat2Z.id.
  change ([n_dataKeyPrefix] ++ iid_bytes i' ++ tk ++ vid_bytes v ++ cid_bytes c ++ [m])
    with (data_key i' tk v c m).
  rewrite (data_key_layout_v i' tk v c m).
  replace (5 + length tk)%nat with (length (key_head i' ++ tk))
    by (rewrite app_length, key_head_length; reflexivity).
  rewrite (overwrite_mid (key_head i' ++ tk) (vid_bytes v) _ (vid_bytes v'))
    by now rewrite !vid_bytes_length.
  cbn [res_bind]. rewrite vid_size_eq.
  replace ((key_head i' ++ tk) ++ vid_bytes v' ++ cid_bytes c ++ [m])
    with ((key_head i' ++ tk ++ vid_bytes v') ++ cid_bytes c ++ [m]) by now rewrite <- !app_assoc.
  replace (length (key_head i' ++ tk) + 4)%nat with (length (key_head i' ++ tk ++ vid_bytes v'))
    by (rewrite !app_length, vid_bytes_length; lia).
  rewrite (overwrite_mid (key_head i' ++ tk ++ vid_bytes v') (cid_bytes c) _ (cid_bytes c'))
    by now rewrite !cid_bytes_length.
  f_equal. now rewrite <- data_key_layout_c.
Qed.

(* ---- injectivity ---- *)
Lemma data_key_inj i tk v c m i' tk' v' c' m' :
  id_ok i -> id_ok v -> id_ok c -> id_ok i' -> id_ok v' -> id_ok c' ->
  data_key i tk v c m = data_key i' tk' v' c' m' ->
  i = i' /\ tk = tk' /\ v = v' /\ c = c' /\ m = m'.
Proof.
  intros Hi Hv Hc Hi' Hv' Hc' E.
  pose proof (local_ids_of_data_key i tk v c m Hi Hv Hc) as P.
  rewrite E, local_ids_of_data_key in P by assumption. apply Ok_inj in P.
  pose proof (tkey_from_data_key i tk v c m) as T.
  rewrite E, tkey_from_data_key in T. apply Ok_inj in T.
  pose proof (last_of_data_key i tk v c m) as L. rewrite E, last_of_data_key in L.
  inversion P; subst. repeat split; reflexivity.
Qed.

(* data, metadata and blob key spaces are disjoint *)
Lemma key_spaces_disjoint i tk v c m t b :
  data_key i tk v c m <> metadata_key t /\ data_key i tk v c m <> blob_key b /\ metadata_key t <> blob_key b.
Proof. repeat split; discriminate. Qed.

(* ---- order ---- *)
Definition tuple_compare (i : N) (tk : bytes) (v c m : N) (i' : N) (tk' : bytes) (v' c' m' : N) : comparison :=
  cmp_then (i ?= i') (cmp_then (lex_compare tk tk') (cmp_then (v ?= v') (cmp_then (c ?= c') (m ?= m')))).

Lemma suffix_compare v c m v' c' m' :
  id_ok v -> id_ok c -> id_ok v' -> id_ok c' ->
  lex_compare (key_suffix v c m) (key_suffix v' c' m') =
  cmp_then (v ?= v') (cmp_then (c ?= c') (m ?= m')).
Proof.
  intros. unfold key_suffix.
  rewrite lex_compare_app_eqlen by now rewrite !vid_bytes_length.
  rewrite vid_compare by assumption.
  rewrite lex_compare_app_eqlen by now rewrite !cid_bytes_length.
  rewrite cid_compare by assumption. simpl. now destruct (m ?= m').
Qed.

Lemma key_order i tk v c m i' tk' v' c' m' :
  id_ok i -> id_ok v -> id_ok c -> id_ok i' -> id_ok v' -> id_ok c' ->
  prefix_free_pair tk tk' ->
  lex_compare (data_key i tk v c m) (data_key i' tk' v' c' m') =
  tuple_compare i tk v c m i' tk' v' c' m'.
Proof.
  intros Hi Hv Hc Hi' Hv' Hc' PF. unfold tuple_compare.
  rewrite !data_key_split. unfold key_head.
  cbn [app]. rewrite lex_compare_cons.
  rewrite lex_compare_app_eqlen by now rewrite !iid_bytes_length.
  rewrite iid_compare by assumption.
  rewrite lex_compare_app_pfp by assumption.
  now rewrite suffix_compare.
Qed.

(* the instance id alone decides between different instances, whatever the TKeys *)
Lemma key_order_instances i tk v c m i' tk' v' c' m' :
  id_ok i -> id_ok i' -> i <> i' ->
  lex_compare (data_key i tk v c m) (data_key i' tk' v' c' m') = (i ?= i').
Proof.
  intros Hi Hi' N. rewrite !data_key_split. unfold key_head.
  cbn [app]. rewrite lex_compare_cons.
  rewrite lex_compare_app_eqlen by now rewrite !iid_bytes_length.
  rewrite iid_compare by assumption.
  destruct (i ?= i') eqn:E; try reflexivity. apply N.compare_eq in E. contradiction.
Qed.

(* ---- all versions of one TKey are contiguous ---- *)
Lemma byte_min m : (0 ?= m) <> Gt.
Proof. destruct m; simpl; discriminate. Qed.

Lemma id_max_ge v : id_ok v -> (v ?= n_MaxVersionID) <> Gt.
Proof. unfold id_ok, n_MaxVersionID. intro H. rewrite N.compare_gt_iff. lia. Qed.

Lemma versions_between i tk v c m :
  id_ok i -> id_ok v -> id_ok c -> byte_ok m ->
  in_range (min_version_key i tk) (max_version_key i tk) (data_key i tk v c m).
Proof.
  intros Hi Hv Hc Hm. unfold in_range, lex_le.
  rewrite min_version_key_eq, max_version_key_eq.
  rewrite !key_order; try assumption; try (now left); try (unfold id_ok; reflexivity).
  unfold tuple_compare. rewrite N.compare_refl, lex_compare_refl. cbn [cmp_then].
  split.
  - destruct v; [|simpl; discriminate]. destruct c; [|simpl; discriminate]. destruct m; simpl; discriminate.
  - unfold id_ok, byte_ok in *. unfold n_MaxVersionID, n_MaxClientID.
    destruct (v ?= 4294967295) eqn:E1; simpl; try discriminate.
    + destruct (c ?= 4294967295) eqn:E2; simpl; try discriminate.
      * rewrite N.compare_gt_iff. lia.
      * rewrite N.compare_gt_iff in E2. lia.
    + rewrite N.compare_gt_iff in E1. lia.
Qed.

Lemma between_versions i tk i' tk' v c m :
  id_ok i -> id_ok i' -> id_ok v -> id_ok c ->
  prefix_free_pair tk tk' ->
  in_range (min_version_key i tk) (max_version_key i tk) (data_key i' tk' v c m) ->
  i' = i /\ tk' = tk.
Proof.
  intros Hi Hi' Hv Hc PF [H1 H2]. unfold lex_le in *.
  rewrite min_version_key_eq in H1. rewrite max_version_key_eq in H2.
  rewrite key_order in H1; try assumption; try (unfold id_ok; reflexivity).
  rewrite key_order in H2; try assumption; try (unfold id_ok; reflexivity);
    [|now apply prefix_free_pair_sym].
  unfold tuple_compare in *.
  destruct (i ?= i') eqn:Ei.
  - apply N.compare_eq in Ei. subst i'. rewrite N.compare_refl in H2. cbn [cmp_then] in *.
    destruct (lex_compare tk tk') eqn:Et.
    + apply lex_compare_eq in Et. now subst.
    + exfalso. rewrite lex_compare_antisym, Et in H2. simpl in H2. congruence.
    + exfalso. simpl in H1. congruence.
  - exfalso. rewrite N.compare_antisym, Ei in H2. simpl in H2. congruence.
  - exfalso. simpl in H1. congruence.
Qed.

(* TKeys that are prefix related break contiguity: the keyvalue keys "a" and "a\000b" *)
Lemma versions_contiguous_refuted_witness :
  let tk := kv_tkey [97] in
  let tk' := kv_tkey [97; 0; 98] in
  tk <> tk' /\ in_rangeb (min_version_key 1 tk) (max_version_key 1 tk) (construct_data_key 1 1 0 tk') = true.
Proof. vm_compute. split; [discriminate|reflexivity]. Qed.

(* ---- instance ranges ---- *)
Lemma key_head_le_data_key i tk v c m : lex_le (key_head i) (data_key i tk v c m).
Proof. rewrite data_key_split. apply lex_prefix_le. Qed.

Lemma head_vs_key i j tk v c m :
  id_ok i -> id_ok j -> i <> j ->
  lex_compare (key_head i) (data_key j tk v c m) = (i ?= j).
Proof.
  intros Hi Hj N. rewrite data_key_split. unfold key_head. cbn [app]. rewrite lex_compare_cons.
  rewrite <- (app_nil_r (iid_bytes i)).
  rewrite lex_compare_app_eqlen by now rewrite !iid_bytes_length.
  rewrite iid_compare by assumption.
  destruct (i ?= j) eqn:E; try reflexivity. apply N.compare_eq in E. contradiction.
Qed.

Lemma id_succ_lt_max i : i < 2 ^ 32 - 1 -> id_succ i = i + 1.
Proof. intro H. unfold id_succ. apply N.mod_small. lia. Qed.

Lemma id_succ_max : id_succ (2 ^ 32 - 1) = 0.
Proof. reflexivity. Qed.

Lemma id_succ_ok i : id_ok (id_succ i).
Proof. unfold id_ok, id_succ. apply N.mod_lt. discriminate. Qed.

Lemma key_range_eq i : key_range i = (key_head i, key_head (id_succ i)).
Proof. reflexivity. Qed.

Lemma instance_range i i' tk v c m :
  i < 2 ^ 32 - 1 -> id_ok i' ->
  (in_range (fst (key_range i)) (snd (key_range i)) (data_key i' tk v c m) <-> i' = i).
Proof.
  intros Hi Hi'. assert (id_ok i) by (unfold id_ok; lia).
  rewrite key_range_eq. cbn [fst snd]. rewrite id_succ_lt_max by assumption.
  assert (id_ok (i + 1)) by (unfold id_ok; lia).
  unfold in_range, lex_le. split.
  - intros [H1 H2].
    destruct (N.eq_dec i' i) as [->|NE]; [reflexivity|exfalso].
    rewrite head_vs_key in H1 by (auto; congruence).
    destruct (N.eq_dec i' (i + 1)) as [->|N2].
    + apply H2. apply lex_gt_lt.
      pose proof (key_head_le_data_key (i + 1) tk v c m) as L.
      apply lex_le_cases in L. destruct L as [L|L]; [exact L|].
      apply (f_equal (@length N)) in L. rewrite key_head_length, data_key_length in L. lia.
    + rewrite lex_compare_antisym, head_vs_key in H2 by (auto; congruence).
      rewrite N.compare_gt_iff in H1.
      destruct (i + 1 ?= i') eqn:E; simpl in H2; try congruence.
      * apply N.compare_eq in E. congruence.
      * rewrite N.compare_gt_iff in E. lia.
  - intros ->. split.
    + apply key_head_le_data_key.
    + rewrite lex_compare_antisym, head_vs_key by (auto; lia).
      replace (i + 1 ?= i) with Gt by (symmetry; apply N.compare_gt_iff; lia). simpl. discriminate.
Qed.

(* at the largest id, id++ wraps to 0: max < min and the interval contains nothing *)
Lemma instance_range_max_empty k :
  ~ in_range (fst (key_range (2 ^ 32 - 1))) (snd (key_range (2 ^ 32 - 1))) k.
Proof.
  intros [H1 H2]. pose proof (lex_le_trans _ _ _ H1 H2) as H.
  apply H. vm_compute. reflexivity.
Qed.

(* ---- TKey class range and the versioned DeleteAll range ---- *)
Lemma new_tkey_head_compare cls body cls' x y :
  byte_ok cls -> byte_ok cls' ->
  lex_compare (cls' :: x) (new_tkey cls body ++ y) =
  cmp_then (cls' ?= cls) (lex_compare x (n_tkeyStandardByte :: body ++ y)).
Proof. intros. unfold new_tkey. simpl. destruct (cls' ?= cls); reflexivity. Qed.

Lemma class_range i cls i' cls' body v c m :
  id_ok i -> id_ok i' -> byte_ok cls -> byte_ok cls' ->
  (in_range (fst (tkey_class_range i cls)) (snd (tkey_class_range i cls))
            (data_key i' (new_tkey cls' body) v c m) <-> (i' = i /\ cls' = cls)).
Proof.
  intros Hi Hi' Hc Hc'. unfold tkey_class_range. cbn [fst snd].
  unfold in_range, lex_le. rewrite data_key_split.
  change (n_dataKeyPrefix :: iid_bytes i ++ cls :: t_TKeyClassRange_min_tail)
    with (key_head i ++ cls :: t_TKeyClassRange_min_tail).
  change (n_dataKeyPrefix :: iid_bytes i ++ cls :: t_TKeyClassRange_max_tail)
    with (key_head i ++ cls :: t_TKeyClassRange_max_tail).
  unfold key_head. cbn [app]. rewrite !lex_compare_cons.
  rewrite !(lex_compare_app_eqlen (iid_bytes _) (iid_bytes _)) by now rewrite !iid_bytes_length.
  rewrite !iid_compare by assumption.
  rewrite (N.compare_antisym i i').
  destruct (i ?= i') eqn:Ei; cbn [cmp_then CompOpp].
  - apply N.compare_eq in Ei. subst i'.
    unfold new_tkey. cbn [app lex_compare].
    rewrite (N.compare_antisym cls cls').
    destruct (cls ?= cls') eqn:Ec; cbn [CompOpp].
    + apply N.compare_eq in Ec. subst cls'. split; [auto|]. intros _. split; vm_compute; discriminate.
    + split; [intros [_ H]; congruence|]. intros [_ ->]. rewrite N.compare_refl in Ec. discriminate.
    + split; [intros [H _]; congruence|]. intros [_ ->]. rewrite N.compare_refl in Ec. discriminate.
  - split; [intros [_ H]; congruence|]. intros [-> _]. rewrite N.compare_refl in Ei. discriminate.
  - split; [intros [H _]; congruence|]. intros [-> _]. rewrite N.compare_refl in Ei. discriminate.
Qed.

(* BadgerDB.DeleteAll with a VersionedCtx scans [MinVersionKey(MinTKey(0)), MaxVersionKey(MaxTKey(255))]:
   exactly the keys of instance i whose TKey was made by NewTKey.  No id+1 is involved. *)
Lemma delete_all_versioned_range i i' cls body v c m :
  id_ok i -> id_ok i' -> byte_ok cls ->
  (in_range (fst (delete_all_range_versioned i)) (snd (delete_all_range_versioned i))
            (data_key i' (new_tkey cls body) v c m) <-> i' = i).
Proof.
  intros Hi Hi' Hc. unfold delete_all_range_versioned. cbn [fst snd].
  rewrite min_version_key_eq, max_version_key_eq.
  unfold in_range, lex_le. rewrite !data_key_split.
  unfold key_head. cbn [app]. rewrite !lex_compare_cons.
  rewrite !(lex_compare_app_eqlen (iid_bytes _) (iid_bytes _)) by now rewrite !iid_bytes_length.
  rewrite !iid_compare by assumption.
  rewrite (N.compare_antisym i i').
  destruct (i ?= i') eqn:Ei; cbn [cmp_then CompOpp].
  - apply N.compare_eq in Ei. subst i'. split; [auto|]. intros _.
    unfold new_tkey, min_tkey, max_tkey, n_TKeyMinClass, n_TKeyMaxClass, n_tkeyMinByte, n_tkeyMaxByte, n_tkeyStandardByte.
    cbn [app lex_compare]. unfold byte_ok in Hc. split.
    + destruct cls; simpl; discriminate.
    + destruct (cls ?= 255) eqn:E; simpl; try discriminate. rewrite N.compare_gt_iff in E. lia.
  - split; [intros [_ H]; congruence|]. intros ->. rewrite N.compare_refl in Ei. discriminate.
  - split; [intros [H _]; congruence|]. intros ->. rewrite N.compare_refl in Ei. discriminate.
Qed.

(* ---- datatype TKey classes ---- *)
Lemma fit_length n d : length (fit n d) = n.
Proof.
  unfold fit. rewrite app_length, firstn_length, repeat_length. lia.
Qed.

(* strconv.FormatUint digits are '0'..'9' *)
Lemma dec_aux_digits fuel : forall n acc x,
  In x (dec_aux fuel n acc) -> In x acc \/ (48 <= x /\ x <= 57).
Proof.
  induction fuel as [|f IH]; intros n acc x H; cbn [dec_aux] in H; [now left|].
  assert (D : 48 <= 48 + n mod 10 /\ 48 + n mod 10 <= 57).
  { pose proof (N.mod_upper_bound n 10). lia. }
  destruct (n <? 10).
  - destruct H as [<-|H]; [right; exact D|now left].
  - apply IH in H. destruct H as [[<-|H]|H]; [right; exact D|now left|now right].
Qed.

Lemma dec_digits_no_sep n sep : sep < 48 \/ 57 < sep -> ~ In sep (dec_digits n).
Proof.
  intros S H. unfold dec_digits in H. apply dec_aux_digits in H. destruct H as [[]|H]. lia.
Qed.

(* two strings free of t, each followed by t and the same tail *)
Lemma separated_prefix_free s1 : forall s2 t e,
  ~ In t s1 -> ~ In t s2 -> prefix_free_pair (s1 ++ t :: e) (s2 ++ t :: e).
Proof.
  induction s1 as [|a s1 IH]; intros s2 t e N1 N2.
  - destruct s2 as [|b s2]; [now left|]. cbn [app]. apply prefix_free_pair_head.
    intro E. apply N2. left. now symmetry.
  - destruct s2 as [|b s2].
    + cbn [app]. apply prefix_free_pair_head. intro E. apply N1. now left.
    + cbn [app]. destruct (N.eq_dec a b) as [->|NE].
      * apply prefix_free_pair_cons. apply IH; intro H; [apply N1|apply N2]; now right.
      * now apply prefix_free_pair_head.
Qed.

Lemma tkey_of_prefix_free kc d1 d2 :
  body_ok kc d1 -> body_ok kc d2 -> prefix_free_pair (tkey_of kc d1) (tkey_of kc d2).
Proof.
  unfold body_ok, tkey_of. destruct (kc_shape kc) as [n|t|n|sep ext|n]; intros H1 H2; unfold new_tkey.
  - apply prefix_free_pair_eqlen. simpl. now rewrite !fit_length.
  - apply (prefix_free_pair_app [kc_class kc; n_tkeyStandardByte]).
    now apply terminated_prefix_free.
  - apply prefix_free_pair_eqlen. simpl. congruence.
  - apply (prefix_free_pair_app [kc_class kc; n_tkeyStandardByte]).
    apply separated_prefix_free; now apply dec_digits_no_sep.
  - apply prefix_free_pair_eqlen. now rewrite !fit_length.
Qed.

(* the first byte of every constructed TKey is its class byte *)
Lemma tkey_of_head kc d : body_ok kc d -> exists r, tkey_of kc d = kc_class kc :: r.
Proof.
  unfold body_ok, tkey_of. destruct (kc_shape kc) as [n|t|n|sep ext|n]; intro H; unfold new_tkey; eauto.
  destruct H as [Hn Hd]. destruct d as [|x d]; [discriminate|]. cbn [hd_error] in Hd. injection Hd as ->.
  unfold fit. destruct (N.to_nat n) as [|k] eqn:E; [lia|]. cbn [firstn app]. eauto.
Qed.

Lemma tkey_of_other_class kc1 kc2 d1 d2 :
  body_ok kc1 d1 -> body_ok kc2 d2 ->
  kc_class kc1 <> kc_class kc2 -> prefix_free_pair (tkey_of kc1 d1) (tkey_of kc2 d2).
Proof.
  intros B1 B2 N. destruct (tkey_of_head kc1 d1 B1) as [r1 ->]. destruct (tkey_of_head kc2 d2 B2) as [r2 ->].
  now apply prefix_free_pair_head.
Qed.

(* a datatype's key space: the union of its classes *)
Definition wf_tkey (classes : list kclass) (tk : bytes) : Prop :=
  exists kc d, In kc classes /\ body_ok kc d /\ tk = tkey_of kc d.

Fixpoint class_ids_distinct (l : list kclass) : bool :=
  match l with
  | [] => true
  | kc :: r => negb (existsb (fun k => kc_class k =? kc_class kc) r) && class_ids_distinct r
  end.

Lemma class_ids_distinct_ok l : class_ids_distinct l = true ->
  forall k1 k2, In k1 l -> In k2 l -> kc_class k1 = kc_class k2 -> k1 = k2.
Proof.
  induction l as [|kc r IH]; simpl; [contradiction|].
  rewrite andb_true_iff, negb_true_iff. intros [H1 H2] k1 k2 I1 I2 E.
  assert (NE : forall k, In k r -> kc_class k <> kc_class kc).
  { intros k Ik Ek. assert (existsb (fun k => kc_class k =? kc_class kc) r = true).
    { apply existsb_exists. exists k. split; auto. now apply N.eqb_eq. }
    congruence. }
  destruct I1 as [<-|I1], I2 as [<-|I2]; auto.
  - exfalso. apply (NE k2 I2). now symmetry.
  - exfalso. now apply (NE k1 I1).
Qed.

Lemma datatype_prefix_free classes tk1 tk2 :
  class_ids_distinct classes = true ->
  wf_tkey classes tk1 -> wf_tkey classes tk2 -> prefix_free_pair tk1 tk2.
Proof.
  intros D (k1 & d1 & I1 & B1 & ->) (k2 & d2 & I2 & B2 & ->).
  destruct (N.eq_dec (kc_class k1) (kc_class k2)) as [E|N].
  - assert (k1 = k2) by (eapply class_ids_distinct_ok; eauto). subst.
    now apply tkey_of_prefix_free.
  - now apply tkey_of_other_class.
Qed.

(* different classes never produce the same TKey, nor prefix-related ones *)
Lemma datatype_classes_disjoint k1 k2 d1 d2 :
  body_ok k1 d1 -> body_ok k2 d2 -> kc_class k1 <> kc_class k2 ->
  tkey_of k1 d1 <> tkey_of k2 d2 /\ ~ is_prefix (tkey_of k1 d1) (tkey_of k2 d2).
Proof.
  intros B1 B2 N. destruct (tkey_of_head k1 d1 B1) as [r1 ->]. destruct (tkey_of_head k2 d2 B2) as [r2 ->].
  split; [congruence|]. intros [s H]. cbn [app] in H. congruence.
Qed.

Lemma keyvalue_prefix_free tk1 tk2 :
  wf_tkey keyclasses_keyvalue tk1 -> wf_tkey keyclasses_keyvalue tk2 -> prefix_free_pair tk1 tk2.
Proof. apply datatype_prefix_free. reflexivity. Qed.
Lemma neuronjson_prefix_free tk1 tk2 :
  wf_tkey keyclasses_neuronjson tk1 -> wf_tkey keyclasses_neuronjson tk2 -> prefix_free_pair tk1 tk2.
Proof. apply datatype_prefix_free. reflexivity. Qed.
Lemma annotation_prefix_free tk1 tk2 :
  wf_tkey keyclasses_annotation tk1 -> wf_tkey keyclasses_annotation tk2 -> prefix_free_pair tk1 tk2.
Proof. apply datatype_prefix_free. reflexivity. Qed.
Lemma labelmap_prefix_free tk1 tk2 :
  wf_tkey keyclasses_labelmap tk1 -> wf_tkey keyclasses_labelmap tk2 -> prefix_free_pair tk1 tk2.
Proof. apply datatype_prefix_free. reflexivity. Qed.

Lemma imageblk_prefix_free tk1 tk2 :
  wf_tkey keyclasses_imageblk tk1 -> wf_tkey keyclasses_imageblk tk2 -> prefix_free_pair tk1 tk2.
Proof. apply datatype_prefix_free. reflexivity. Qed.
Lemma imagetile_prefix_free tk1 tk2 :
  wf_tkey keyclasses_imagetile tk1 -> wf_tkey keyclasses_imagetile tk2 -> prefix_free_pair tk1 tk2.
Proof. apply datatype_prefix_free. reflexivity. Qed.
Lemma labelarray_prefix_free tk1 tk2 :
  wf_tkey keyclasses_labelarray tk1 -> wf_tkey keyclasses_labelarray tk2 -> prefix_free_pair tk1 tk2.
Proof. apply datatype_prefix_free. reflexivity. Qed.
Lemma labelblk_prefix_free tk1 tk2 :
  wf_tkey keyclasses_labelblk tk1 -> wf_tkey keyclasses_labelblk tk2 -> prefix_free_pair tk1 tk2.
Proof. apply datatype_prefix_free. reflexivity. Qed.
Lemma labelsz_prefix_free tk1 tk2 :
  wf_tkey keyclasses_labelsz tk1 -> wf_tkey keyclasses_labelsz tk2 -> prefix_free_pair tk1 tk2.
Proof. apply datatype_prefix_free. reflexivity. Qed.
Lemma labelvol_prefix_free tk1 tk2 :
  wf_tkey keyclasses_labelvol tk1 -> wf_tkey keyclasses_labelvol tk2 -> prefix_free_pair tk1 tk2.
Proof. apply datatype_prefix_free. reflexivity. Qed.
Lemma roi_prefix_free tk1 tk2 :
  wf_tkey keyclasses_roi tk1 -> wf_tkey keyclasses_roi tk2 -> prefix_free_pair tk1 tk2.
Proof. apply datatype_prefix_free. reflexivity. Qed.
(* one tarsupervoxels instance has one Extension *)
Lemma tarsupervoxels_prefix_free ext tk1 tk2 :
  wf_tkey (keyclasses_tarsupervoxels ext) tk1 -> wf_tkey (keyclasses_tarsupervoxels ext) tk2 -> prefix_free_pair tk1 tk2.
Proof. apply datatype_prefix_free. reflexivity. Qed.

(* the unchecked constructors: NewTKeyByCoord / labelvol.NewTKey given strings of different lengths *)
Lemma raw_not_prefix_free kc n : kc_shape kc = KRaw n ->
  tkey_of kc [97] <> tkey_of kc [97; 98] /\ is_prefix (tkey_of kc [97]) (tkey_of kc [97; 98]).
Proof.
  intro S. unfold tkey_of. rewrite S. split; [discriminate|]. exists [98]. reflexivity.
Qed.
(* tarsupervoxels with two extensions, one a prefix of the other (not reachable inside one instance) *)
Lemma decsep_not_prefix_free d :
  tkey_of (kc_tarsupervoxels_NewTKey [97]) d <> tkey_of (kc_tarsupervoxels_NewTKey [97; 98]) d
  /\ is_prefix (tkey_of (kc_tarsupervoxels_NewTKey [97]) d) (tkey_of (kc_tarsupervoxels_NewTKey [97; 98]) d).
Proof.
  unfold tkey_of. cbn [kc_shape kc_tarsupervoxels_NewTKey kc_class]. unfold new_tkey. split.
  - intro H. injection H as H. apply app_inv_head in H. discriminate.
  - exists [98]. cbn [app]. rewrite <- !app_assoc. reflexivity.
Qed.

(* two classes of one instance never share a storage key, whatever the versions, clients and markers *)
Lemma classes_never_collide k1 k2 d1 d2 i v c m v' c' m' :
  id_ok i -> id_ok v -> id_ok c -> id_ok v' -> id_ok c' ->
  body_ok k1 d1 -> body_ok k2 d2 -> kc_class k1 <> kc_class k2 ->
  data_key i (tkey_of k1 d1) v c m <> data_key i (tkey_of k2 d2) v' c' m'.
Proof.
  intros Hi Hv Hc Hv' Hc' B1 B2 N H.
  apply data_key_inj in H; auto. destruct H as (_ & E & _).
  destruct (datatype_classes_disjoint k1 k2 d1 d2 B1 B2 N) as [NE _]. exact (NE E).
Qed.

(* ---- TKeyClassRange over the generated classes ---- *)
(* the classes whose TKeys are made by storage.NewTKey (all but the legacy imagetile key) *)
Definition has_header (kc : kclass) : Prop :=
  match kc_shape kc with KLegacy _ => False | _ => True end.
Definition has_headerb (kc : kclass) : bool :=
  match kc_shape kc with KLegacy _ => false | _ => true end.

Lemma tkey_of_header kc d : has_header kc -> exists body, tkey_of kc d = new_tkey (kc_class kc) body.
Proof. unfold has_header, tkey_of. destruct (kc_shape kc); intro H; try contradiction; eauto. Qed.

(* TKeyClassRange(class of kc) of instance i holds exactly the keys of instance i made by a constructor of that class *)
Lemma class_range_generated kc kc' i i' d v c m :
  id_ok i -> id_ok i' -> byte_ok (kc_class kc) -> byte_ok (kc_class kc') -> has_header kc' ->
  (in_range (fst (tkey_class_range i (kc_class kc))) (snd (tkey_class_range i (kc_class kc)))
            (data_key i' (tkey_of kc' d) v c m) <-> (i' = i /\ kc_class kc' = kc_class kc)).
Proof.
  intros Hi Hi' B B' H. destruct (tkey_of_header kc' d H) as [body ->]. now apply class_range.
Qed.

(* every table the translator produced (this list is written by hand: a new datatype package adds a table to
   Gen/KeyClasses.v and must be added here) *)
Definition all_keyclasses (ext : bytes) : list kclass :=
  keyclasses_keyvalue ++ keyclasses_neuronjson ++ keyclasses_annotation ++ keyclasses_labelmap ++
  keyclasses_imageblk ++ keyclasses_imagetile ++ keyclasses_labelarray ++ keyclasses_labelblk ++
  keyclasses_labelsz ++ keyclasses_labelvol ++ keyclasses_roi ++ keyclasses_tarsupervoxels ext.

Lemma all_keyclasses_byte_ok ext kc : In kc (all_keyclasses ext) ->
  byte_ok (kc_class kc) /\ (has_header kc \/ kc_shape kc = kc_shape kc_imagetile_NewTKey).
Proof.
  intro H.
  assert (F : forallb (fun k => (kc_class k <? 256) &&
                match kc_shape k with KLegacy n => n =? 21 | _ => true end) (all_keyclasses ext) = true)
    by reflexivity.
  rewrite forallb_forall in F. specialize (F kc H). rewrite andb_true_iff in F.
  destruct F as [F1 F2]. split; [unfold byte_ok; now apply N.ltb_lt|].
  unfold has_header. destruct (kc_shape kc); auto. right. apply N.eqb_eq in F2. now subst.
Qed.

(* ---- SplitKey / MergeKey ---- *)
Lemma merge_split k u v : split_key k = Ok (u, v) -> merge_key u v = k.
Proof.
  unfold split_key, merge_key. destruct k as [|p r]; [discriminate|].
  destruct (p =? n_metadataKeyPrefix).
  - intro H. apply Ok_inj in H. injection H as <- <-. apply app_nil_r.
  - destruct (p =? n_dataKeyPrefix); [|discriminate].
    destruct (suffix_start (p :: r) <? 0)%Z; [discriminate|].
    intro H. apply Ok_inj in H. injection H as <- <-. apply firstn_skipn.
Qed.

Lemma split_data_key i tk v c m :
  split_key (data_key i tk v c m) = Ok (unversioned_prefix i tk, key_suffix v c m).
Proof.
  unfold split_key. rewrite suffix_start_data_key.
  unfold data_key at 1. rewrite N.eqb_refl.
  replace (n_dataKeyPrefix =? n_metadataKeyPrefix) with false by reflexivity.
  replace (Z.of_nat (5 + length tk) <? 0)%Z with false by (symmetry; apply Z.ltb_ge; lia).
  rewrite Nat2Z.id. f_equal.
  assert (E : data_key i tk v c m = unversioned_prefix i tk ++ key_suffix v c m).
  { unfold data_key, unversioned_prefix, key_suffix. cbn [app]. now rewrite <- !app_assoc. }
  assert (L : length (unversioned_prefix i tk) = (5 + length tk)%nat).
  { unfold unversioned_prefix. cbn [length]. rewrite app_length, iid_bytes_length. reflexivity. }
  rewrite E, <- L. f_equal.
  - rewrite firstn_app, Nat.sub_diag, firstn_all. cbn [firstn]. apply app_nil_r.
  - rewrite skipn_app, Nat.sub_diag, skipn_all. reflexivity.
Qed.

(* the two components of SplitKey carry exactly what the parsers return *)
Lemma split_components i tk v c m : id_ok i -> id_ok v -> id_ok c ->
  exists u s, split_key (data_key i tk v c m) = Ok (u, s)
    /\ u = n_dataKeyPrefix :: iid_bytes i ++ tk
    /\ s = vid_bytes v ++ cid_bytes c ++ [m]
    /\ tkey_from_key (Some (merge_key u s)) = Ok tk
    /\ data_key_to_local_ids (merge_key u s) = Ok (i, v, c)
    /\ length s = suffix_size.
Proof.
  intros Hi Hv Hc. exists (unversioned_prefix i tk), (key_suffix v c m).
  split; [apply split_data_key|]. split; [reflexivity|]. split; [reflexivity|].
  assert (E : merge_key (unversioned_prefix i tk) (key_suffix v c m) = data_key i tk v c m).
  { apply merge_split, split_data_key. }
  rewrite E. split; [apply tkey_from_data_key|]. split; [now apply local_ids_of_data_key|].
  apply key_suffix_length.
Qed.

Lemma split_metadata_key tk : split_key (metadata_key tk) = Ok (metadata_split_key tk).
Proof. unfold split_key, metadata_key. now rewrite N.eqb_refl. Qed.

Lemma split_blob_key k : split_key (blob_key k) = Err.
Proof. reflexivity. Qed.


(* the terminated classes stop being prefix free as soon as the terminator may occur inside:
   "a" and "a\000b" *)
Lemma terminated_class_refuted_witness kc :
  kc_shape kc = KTerm 0 ->
  tkey_of kc [97] <> tkey_of kc [97; 0; 98] /\ is_prefix (tkey_of kc [97]) (tkey_of kc [97; 0; 98]).
Proof.
  intro S. unfold tkey_of. rewrite S. split; [discriminate|].
  exists [98; 0]. reflexivity.
Qed.

(* decode . construct for the terminated classes *)
Lemma decode_term_tkey_of kc t s :
  kc_shape kc = KTerm t -> s <> [] -> decode_term_tkey kc (tkey_of kc s) = Ok s.
Proof.
  intros S NE. unfold decode_term_tkey, tkey_of, class_bytes. rewrite S. unfold new_tkey.
  rewrite N.eqb_refl. cbn [negb].
  replace (kc_class kc :: n_tkeyStandardByte :: s ++ [t]) with ([kc_class kc; n_tkeyStandardByte] ++ (s ++ [t]) ++ [])
    by (now rewrite app_nil_r).
  rewrite (slice_mid' [kc_class kc; n_tkeyStandardByte] (s ++ [t]) []);
    [|reflexivity|rewrite !app_length; simpl; lia].
  cbn [res_bind]. rewrite rev_app_distr. cbn [rev app].
  destruct (rev s) eqn:R.
  - exfalso. apply NE. apply (f_equal (@rev N)) in R. now rewrite rev_involutive in R.
  - rewrite N.eqb_refl. now rewrite removelast_last.
Qed.
