(* Proofs.MapLogV: replaying every version's mutation log rebuilds, at every version of any DAG,
   the label of every supervoxel and the split record list (each split logged once). *)
From DV Require Import Base.Prelude Model.Persist Model.MapLog Model.MapLogV Proofs.Persist Proofs.MapLog Proofs.Heads.
Local Open Scope N_scope.

(* one operation with the label given: as Proofs.MapLog.replay_records *)
Lemma replay_records_l twice lab t s o : map_eq t s -> op_ok o = true ->
  map_eq (replay t (records_l twice lab s o)) (live_l lab s o) /\
  (mp_splits t = mp_splits s -> twice = false -> mp_splits (replay t (records_l twice lab s o)) = mp_splits (live_l lab s o)).
Proof.
  intros Hm Hok. destruct o; try exact (replay_records twice t s _ Hm Hok).
  cbn [op_ok] in Hok. apply andb_true_iff in Hok as [H1 H2]. apply negb_true_iff in H1, H2. apply N.eqb_neq in H1, H2.
  cbn [records_l live_l]. rewrite replay_app. unfold replay at 2. cbn [fold_left replay1].
  assert (Hbase : map_eq (set_maps (set_maps (set_map (add_split t (mutid, sv, remain, split)) sv 0) [sv] 0) [split; remain] lab)
                         (add_split (set_map (set_map (set_map s split lab) remain lab) sv 0) (mutid, sv, remain, split))).
  { intro k. rewrite !set_maps_get. cbn [existsb add_split mp_map]. rewrite !set_map_get. cbn [add_split mp_map].
    rewrite Hm.
    destruct (k =? split) eqn:E1; destruct (k =? remain) eqn:E2; destruct (k =? sv) eqn:E3; cbn; try reflexivity;
      try apply N.eqb_eq in E1; try apply N.eqb_eq in E2; try apply N.eqb_eq in E3; subst; congruence. }
  split.
  - destruct twice; cbn [replay fold_left replay1 app]; [|exact Hbase].
    intro k. unfold replay. cbn [fold_left replay1]. rewrite set_map_get. cbn [add_split mp_map].
    rewrite Hbase. cbn [add_split mp_map]. rewrite set_map_get. destruct (k =? sv); reflexivity.
  - intros Hs Htw. subst twice. cbn [replay fold_left replay1 app]. rewrite !set_maps_splits. cbn. now rewrite Hs.
Qed.

(* the replayed family, version by version *)
Lemma vget_vreplay lg v : vget (vreplay lg) v = replay mp_empty (lget lg v).
Proof.
  unfold vget, vreplay, lget.
  rewrite (aget_map_vals (fun l => replay mp_empty l) lg v). destruct (aget v lg); reflexivity.
Qed.

Definition vinv (twice : bool) (st : vst) (lg : vlog) : Prop :=
  forall v, map_eq (replay mp_empty (lget lg v)) (vget st v) /\
            (twice = false -> mp_splits (replay mp_empty (lget lg v)) = mp_splits (vget st v)).

Lemma vinv_step twice ancs st lg v o : vinv twice st lg -> op_ok o = true ->
  vinv twice (fst (vstep twice ancs (st, lg) (v, o))) (snd (vstep twice ancs (st, lg) (v, o))).
Proof.
  intros Hi Hok w. cbn [vstep fst snd]. unfold lget, vget. rewrite !paget_aset.
  destruct (w =? v) eqn:E; [|exact (Hi w)].
  apply N.eqb_eq in E. subst w. fold (lget lg v). fold (vget st v).
  destruct (Hi v) as [Hm Hs]. rewrite replay_app.
  destruct (replay_records_l twice (vmapped st (anc_of ancs v) (sv_of o)) _ (vget st v) o Hm Hok) as [A B].
  split; [exact A|]. intro Htw. apply B; auto.
Qed.

Lemma vinv_run twice ancs ops : forall st lg, vinv twice st lg -> forallb (fun vo => op_ok (snd vo)) ops = true ->
  vinv twice (fst (vrun twice ancs (st, lg) ops)) (snd (vrun twice ancs (st, lg) ops)).
Proof.
  induction ops as [|[v o] r IH]; intros st lg Hi Hok; [exact Hi|].
  cbn [forallb snd] in Hok. apply andb_true_iff in Hok as [Ho Hr].
  unfold vrun. cbn [fold_left]. pose proof (vinv_step twice ancs st lg v o Hi Ho) as H1.
  destruct (vstep twice ancs (st, lg) (v, o)) as [st1 lg1]. now apply IH.
Qed.

Lemma vinv_run' twice ancs ops sl : vinv twice (fst sl) (snd sl) -> forallb (fun vo => op_ok (snd vo)) ops = true ->
  vinv twice (fst (vrun twice ancs sl ops)) (snd (vrun twice ancs sl ops)).
Proof. destruct sl as [st lg]. apply vinv_run. Qed.

Lemma vinv_empty twice : vinv twice [] [].
Proof. intro v. split; [intro k|intro]; reflexivity. Qed.

(* lookups through ANY ancestry agree when the families agree version by version *)
Lemma vmapped_eq a b anc sv : (forall v, map_eq (vget a v) (vget b v)) -> vmapped a anc sv = vmapped b anc sv.
Proof. intro H. induction anc as [|x r IH]; [reflexivity|]. cbn [vmapped]. now rewrite (H x sv), IH. Qed.

Lemma vsplits_eq a b anc : (forall v, mp_splits (vget a v) = mp_splits (vget b v)) -> vsplits a anc = vsplits b anc.
Proof. intro H. unfold vsplits. induction anc as [|x r IH]; [reflexivity|]. cbn [flat_map]. now rewrite (H x), IH. Qed.

(* (3) every DAG (any ancestry table), every history of merges, cleaves and supervoxel splits at any
   versions in any interleaving: what start-up replays answers, at every version (through any
   ancestry), every supervoxel's label and the split record list as the running server did *)
Lemma vmaplog_replay ancs ops : forallb (fun vo => op_ok (snd vo)) ops = true ->
  let '(st, lg) := vrun false ancs ([], []) ops in
  forall anc, (forall sv, vmapped (vreplay lg) anc sv = vmapped st anc sv) /\ vsplits (vreplay lg) anc = vsplits st anc.
Proof.
  intro Hok.
  match goal with |- context [vrun false ancs ?x ops] => pose proof (vinv_run' false ancs ops x (vinv_empty false) Hok) as H end.
  revert H. destruct (vrun false ancs _ ops) as [st lg]. intro H. cbn [fst snd] in H. intro anc. split.
  - intro sv. apply vmapped_eq. intro v. rewrite vget_vreplay. exact (proj1 (H v)).
  - apply vsplits_eq. intro v. rewrite vget_vreplay. exact (proj2 (H v) eq_refl).
Qed.

(* as the code stood (split logged twice) the labels are still rebuilt *)
Lemma vmaplog_replay_mapping ancs ops : forallb (fun vo => op_ok (snd vo)) ops = true ->
  let '(st, lg) := vrun true ancs ([], []) ops in
  forall anc sv, vmapped (vreplay lg) anc sv = vmapped st anc sv.
Proof.
  intro Hok.
  match goal with |- context [vrun true ancs ?x ops] => pose proof (vinv_run' true ancs ops x (vinv_empty true) Hok) as H end.
  revert H. destruct (vrun true ancs _ ops) as [st lg]. intro H. cbn [fst snd] in H. intros anc sv.
  apply vmapped_eq. intro v. rewrite vget_vreplay. exact (proj1 (H v)).
Qed.

(* a chain 1 <- 2 <- 3 with a sibling 4 of 3: merge at 1, split of a merged supervoxel at 2 (label
   looked up at 1), cleave at 3, another split at 4 *)
Definition vx_ancs : list (N * list N) := [(1, [1]); (2, [2; 1]); (3, [3; 2; 1]); (4, [4; 2; 1])].
Definition vx_ops : list (N * mapop) :=
  [(1, OMerge 5 10 [11; 12]); (2, OSvSplit 7 11 21 22); (3, OCleave 8 30 [12]); (4, OSvSplit 9 12 23 24)].
Lemma vmaplog_example :
  forallb (fun vo => op_ok (snd vo)) vx_ops = true /\
  let '(st, lg) := vrun false vx_ancs ([], []) vx_ops in
  map (vmapped st [3; 2; 1]) [11; 12; 21; 22; 23] = [0; 30; 10; 10; 23] /\
  map (vmapped (vreplay lg) [3; 2; 1]) [11; 12; 21; 22; 23] = [0; 30; 10; 10; 23] /\
  map (vmapped st [4; 2; 1]) [11; 12; 21; 23; 24] = [0; 0; 10; 10; 10] /\
  vsplits st [4; 2; 1] = [(9, 12, 23, 24); (7, 11, 21, 22)] /\
  vsplits (vreplay lg) [4; 2; 1] = [(9, 12, 23, 24); (7, 11, 21, 22)] /\
  vsplits st [3; 2; 1] = [(7, 11, 21, 22)] /\ vsplits st [1] = [].
Proof. vm_compute. repeat split. Qed.
