(* Proofs.MapLogV: replaying every version's mutation log rebuilds, at every version of any DAG,
   the label of every supervoxel and the split record list (each split logged once). *)
From DV Require Import Base.Prelude Model.Persist Model.MapLog Model.MapLogV Proofs.Persist Proofs.MapLog Proofs.Heads.
Local Open Scope N_scope.

(* one operation with the label given: as Proofs.MapLog.replay_records *)
Lemma replay_records_l twice lab t s o : map_eq t s -> op_ok o = true ->
  map_eq (replay t (records_l twice lab s o)) (live_l lab s o) /\
  (mp_splits t = mp_splits s -> twice = false -> mp_splits (replay t (records_l twice lab s o)) = mp_splits (live_l lab s o)).
Proof.
  intros Hm Hok. destruct o; try exact (replay_records twice t s _ Hm Hok).
  cbn [op_ok] in Hok. apply andb_true_iff in Hok as [H1 H2]. apply negb_true_iff in H1, H2. apply N.eqb_neq in H1, H2.
  cbn [records_l live_l]. rewrite replay_app. unfold replay at 2. cbn [fold_left replay1].
  assert (Hbase : map_eq (set_maps (set_maps (set_map (add_split t (mutid, sv, remain, split)) sv 0) [sv] 0) [split; remain] lab)
                         (add_split (set_map (set_map (set_map s split lab) remain lab) sv 0) (mutid, sv, remain, split))).
  { intro k. rewrite !set_maps_get. cbn [existsb add_split mp_map]. rewrite !set_map_get. cbn [add_split mp_map].
    rewrite Hm.
    destruct (k =? split) eqn:E1; destruct (k =? remain) eqn:E2; destruct (k =? sv) eqn:E3; cbn; try reflexivity;
      try apply N.eqb_eq in E1; try apply N.eqb_eq in E2; try apply N.eqb_eq in E3; subst; congruence. }
  split.
  - destruct twice; cbn [replay fold_left replay1 app]; [|exact Hbase].
    intro k. unfold replay. cbn [fold_left replay1]. rewrite set_map_get. cbn [add_split mp_map].
    rewrite Hbase. cbn [add_split mp_map]. rewrite set_map_get. destruct (k =? sv); reflexivity.
  - intros Hs Htw. subst twice. cbn [replay fold_left replay1 app]. rewrite !set_maps_splits. cbn. now rewrite Hs.
Qed.

(* the replayed family, version by version *)
Lemma vget_vreplay lg v : vget (vreplay lg) v = replay mp_empty (lget lg v).
Proof.
  unfold vget, vreplay, lget.
  rewrite (aget_map_vals (fun l => replay mp_empty l) lg v). destruct (aget v lg); reflexivity.
Qed.

Definition vinv (twice : bool) (st : vst) (lg : vlog) : Prop :=
  forall v, map_eq (replay mp_empty (lget lg v)) (vget st v) /\
            (twice = false -> mp_splits (replay mp_empty (lget lg v)) = mp_splits (vget st v)).

Lemma vinv_step twice ancs st lg v o : vinv twice st lg -> op_ok o = true ->
  vinv twice (fst (vstep twice ancs (st, lg) (v, o))) (snd (vstep twice ancs (st, lg) (v, o))).
Proof.
  intros Hi Hok w. cbn [vstep fst snd]. unfold lget, vget. rewrite !paget_aset.
  destruct (w =? v) eqn:E; [|exact (Hi w)].
  apply N.eqb_eq in E. subst w. fold (lget lg v). fold (vget st v).
  destruct (Hi v) as [Hm Hs]. rewrite replay_app.
  destruct (replay_records_l twice (vmapped st (anc_of ancs v) (sv_of o)) _ (vget st v) o Hm Hok) as [A B].
  split; [exact A|]. intro Htw. apply B; auto.
Qed.

Lemma vinv_run twice ancs ops : forall st lg, vinv twice st lg -> forallb (fun vo => op_ok (snd vo)) ops = true ->
  vinv twice (fst (vrun twice ancs (st, lg) ops)) (snd (vrun twice ancs (st, lg) ops)).
Proof.
  induction ops as [|[v o] r IH]; intros st lg Hi Hok; [exact Hi|].
  cbn [forallb snd] in Hok. apply andb_true_iff in Hok as [Ho Hr].
  unfold vrun. cbn [fold_left]. pose proof (vinv_step twice ancs st lg v o Hi Ho) as H1.
  destruct (vstep twice ancs (st, lg) (v, o)) as [st1 lg1]. now apply IH.
Qed.

Lemma vinv_run' twice ancs ops sl : vinv twice (fst sl) (snd sl) -> forallb (fun vo => op_ok (snd vo)) ops = true ->
  vinv twice (fst (vrun twice ancs sl ops)) (snd (vrun twice ancs sl ops)).
Proof. destruct sl as [st lg]. apply vinv_run. Qed.

Lemma vinv_empty twice : vinv twice [] [].
Proof. intro v. split; [intro k|intro]; reflexivity. Qed.

(* lookups through ANY ancestry agree when the families agree version by version *)
Lemma vmapped_eq a b anc sv : (forall v, map_eq (vget a v) (vget b v)) -> vmapped a anc sv = vmapped b anc sv.
Proof. intro H. induction anc as [|x r IH]; [reflexivity|]. cbn [vmapped]. now rewrite (H x sv), IH. Qed.

Lemma vsplits_eq a b anc : (forall v, mp_splits (vget a v) = mp_splits (vget b v)) -> vsplits a anc = vsplits b anc.
Proof. intro H. unfold vsplits. induction anc as [|x r IH]; [reflexivity|]. cbn [flat_map]. now rewrite (H x), IH. Qed.

(* (3) every DAG (any ancestry table), every history of merges, cleaves and supervoxel splits at any
   versions in any interleaving: what start-up replays answers, at every version (through any
   ancestry), every supervoxel's label and the split record list as the running server did *)
Lemma vmaplog_replay ancs ops : forallb (fun vo => op_ok (snd vo)) ops = true ->
  let '(st, lg) := vrun false ancs ([], []) ops in
  forall anc, (forall sv, vmapped (vreplay lg) anc sv = vmapped st anc sv) /\ vsplits (vreplay lg) anc = vsplits st anc.
Proof.
  intro Hok.
  match goal with |- context [vrun false ancs ?x ops] => pose proof (vinv_run' false ancs ops x (vinv_empty false) Hok) as H end.
  revert H. destruct (vrun false ancs _ ops) as [st lg]. intro H. cbn [fst snd] in H. intro anc. split.
  - intro sv. apply vmapped_eq. intro v. rewrite vget_vreplay. exact (proj1 (H v)).
  - apply vsplits_eq. intro v. rewrite vget_vreplay. exact (proj2 (H v) eq_refl).
Qed.

(* as the code stood (split logged twice) the labels are still rebuilt *)
Lemma vmaplog_replay_mapping ancs ops : forallb (fun vo => op_ok (snd vo)) ops = true ->
  let '(st, lg) := vrun true ancs ([], []) ops in
  forall anc sv, vmapped (vreplay lg) anc sv = vmapped st anc sv.
Proof.
  intro Hok.
  match goal with |- context [vrun true ancs ?x ops] => pose proof (vinv_run' true ancs ops x (vinv_empty true) Hok) as H end.
  revert H. destruct (vrun true ancs _ ops) as [st lg]. intro H. cbn [fst snd] in H. intros anc sv.
  apply vmapped_eq. intro v. rewrite vget_vreplay. exact (proj1 (H v)).
Qed.

(* a chain 1 <- 2 <- 3 with a sibling 4 of 3: merge at 1, split of a merged supervoxel at 2 (label
   looked up at 1), cleave at 3, another split at 4 *)
Definition vx_ancs : list (N * list N) := [(1, [1]); (2, [2; 1]); (3, [3; 2; 1]); (4, [4; 2; 1])].
Definition vx_ops : list (N * mapop) :=
  [(1, OMerge 5 10 [11; 12]); (2, OSvSplit 7 11 21 22); (3, OCleave 8 30 [12]); (4, OSvSplit 9 12 23 24)].
Lemma vmaplog_example :
  forallb (fun vo => op_ok (snd vo)) vx_ops = true /\
  let '(st, lg) := vrun false vx_ancs ([], []) vx_ops in
  map (vmapped st [3; 2; 1]) [11; 12; 21; 22; 23] = [0; 30; 10; 10; 23] /\
  map (vmapped (vreplay lg) [3; 2; 1]) [11; 12; 21; 22; 23] = [0; 30; 10; 10; 23] /\
  map (vmapped st [4; 2; 1]) [11; 12; 21; 23; 24] = [0; 0; 10; 10; 10] /\
  vsplits st [4; 2; 1] = [(9, 12, 23, 24); (7, 11, 21, 22)] /\
  vsplits (vreplay lg) [4; 2; 1] = [(9, 12, 23, 24); (7, 11, 21, 22)] /\
  vsplits st [3; 2; 1] = [(7, 11, 21, 22)] /\ vsplits st [1] = [].
Proof. vm_compute. repeat split. Qed.

(* ---- any number of restarts between the mutations ---- *)
Lemma live_l_cong lab a b o : map_eq a b -> mp_splits a = mp_splits b -> op_ok o = true ->
  map_eq (live_l lab a o) (live_l lab b o) /\ mp_splits (live_l lab a o) = mp_splits (live_l lab b o).
Proof.
  intros Hm Hs Hok. destruct o; cbn [op_ok] in Hok; try discriminate; cbn [live_l live].
  - split; [intro k; now rewrite !set_maps_get, Hm|now rewrite !set_maps_splits].
  - destruct svs as [|x r]; [discriminate|]. split.
    + intro k. now rewrite !set_map_get, !set_maps_get, Hm.
    + now rewrite !set_map_splits, !set_maps_splits.
  - split.
    + intro k. cbn [add_split mp_map]. now rewrite !set_map_get, Hm.
    + cbn [add_split mp_splits]. rewrite !set_map_splits. now rewrite Hs.
Qed.

Lemma records_l_indep twice lab a b o : op_ok o = true -> records_l twice lab a o = records_l twice lab b o.
Proof. destruct o; cbn [op_ok]; try discriminate; reflexivity. Qed.

Lemma vsame_refl a : vsame a a.
Proof. split; [reflexivity|]. intro v. split; reflexivity. Qed.

Lemma vsame_trans a b c : vsame a b -> vsame b c -> vsame a c.
Proof.
  intros [L1 H1] [L2 H2]. split; [congruence|]. intro v. destruct (H1 v) as [A1 B1], (H2 v) as [A2 B2].
  split; [intro k; now rewrite A1, A2|congruence].
Qed.

Lemma vsame_step twice ancs a b v o : vsame a b -> op_ok o = true ->
  vsame (vstep twice ancs a (v, o)) (vstep twice ancs b (v, o)).
Proof.
  destruct a as [st1 lg1], b as [st2 lg2]. intros [L H] Hok. cbn [fst snd] in L, H. subst lg2.
  assert (Hlab : vmapped st1 (anc_of ancs v) (sv_of o) = vmapped st2 (anc_of ancs v) (sv_of o)).
  { apply vmapped_eq. intro w. exact (proj1 (H w)). }
  cbn [vstep]. rewrite <- Hlab. split; cbn [fst snd].
  - f_equal. f_equal. now apply records_l_indep.
  - intro w. unfold vget. rewrite !paget_aset. destruct (w =? v) eqn:E; [|exact (H w)].
    fold (vget st1 v). fold (vget st2 v). destruct (H v) as [A B].
    destruct (live_l_cong (vmapped st1 (anc_of ancs v) (sv_of o)) _ _ o A B Hok) as [A' B']. split; [exact A'|exact B'].
Qed.

Lemma vsame_run twice ancs ops : forall a b, vsame a b -> forallb (fun vo => op_ok (snd vo)) ops = true ->
  vsame (vrun twice ancs a ops) (vrun twice ancs b ops).
Proof.
  induction ops as [|[v o] r IH]; intros a b H Hok; [exact H|].
  cbn [forallb snd] in Hok. apply andb_true_iff in Hok as [Ho Hr]. unfold vrun. cbn [fold_left].
  apply IH; [|exact Hr]. now apply vsame_step.
Qed.

(* a restart of a state whose logs replay to it is indistinguishable from it, and is such a state *)
Lemma vsame_restart st lg : vinv false st lg -> vsame (vreplay lg, lg) (st, lg) /\ vinv false (vreplay lg) lg.
Proof.
  intro H. split.
  - split; [reflexivity|]. intro v. cbn [fst]. rewrite vget_vreplay. destruct (H v) as [A B]. split; [exact A|now apply B].
  - intro v. rewrite vget_vreplay. split; [intro k|intro]; reflexivity.
Qed.

Lemma vrun_app twice ancs a b sl : vrun twice ancs sl (a ++ b) = vrun twice ancs (vrun twice ancs sl a) b.
Proof. unfold vrun. apply fold_left_app. Qed.

Lemma vsegs_refine ancs segs : forall a b, vsame a b -> vinv false (fst a) (snd a) ->
  forallb (fun ops => forallb (fun vo => op_ok (snd vo)) ops) segs = true ->
  vsame (vseg_go false ancs a segs) (vrun false ancs b (concat segs)).
Proof.
  induction segs as [|ops rest IH]; intros a b H Hi Hok; [exact H|].
  cbn [forallb] in Hok. apply andb_true_iff in Hok as [Ho Hr].
  cbn [concat]. rewrite vrun_app.
  pose proof (vsame_run false ancs ops a b H Ho) as H1.
  pose proof (vinv_run' false ancs ops a Hi Ho) as Hi1.
  destruct rest as [|ops2 rest2].
  - cbn [vseg_go concat]. unfold vrun at 2. cbn [fold_left]. exact H1.
  - change (vseg_go false ancs a (ops :: ops2 :: rest2)) with
      (let '(st, lg) := vrun false ancs a ops in vseg_go false ancs (vreplay lg, lg) (ops2 :: rest2)).
    destruct (vrun false ancs a ops) as [st lg]. cbn [fst snd] in Hi1.
    destruct (vsame_restart st lg Hi1) as [Hs Hi2].
    apply IH; [|exact Hi2|exact Hr]. eapply vsame_trans; [exact Hs|exact H1].
Qed.

(* run s1; restart; run s2; restart; ... is, at every version, the uninterrupted run of s1 ++ s2 ++ ... *)
Lemma vsegs_refine_init ancs segs :
  forallb (fun ops => forallb (fun vo => op_ok (snd vo)) ops) segs = true ->
  vsame (vseg_go false ancs ([], []) segs) (vrun false ancs ([], []) (concat segs)).
Proof. intro H. apply vsegs_refine; [apply vsame_refl|apply vinv_empty|exact H]. Qed.

Lemma vsame_obs a b anc : vsame a b ->
  (forall sv, vmapped (fst a) anc sv = vmapped (fst b) anc sv) /\ vsplits (fst a) anc = vsplits (fst b) anc.
Proof.
  intros [_ H]. split.
  - intro sv. apply vmapped_eq. intro v. exact (proj1 (H v)).
  - apply vsplits_eq. intro v. exact (proj2 (H v)).
Qed.

Definition vx_segs : list (list (N * mapop)) :=
  [[(1, OMerge 5 10 [11; 12]); (2, OSvSplit 7 11 21 22)]; [(3, OCleave 8 30 [12])]; [(4, OSvSplit 9 12 23 24)]].
Lemma vsegs_example :
  forallb (fun ops => forallb (fun vo => op_ok (snd vo)) ops) vx_segs = true /\ concat vx_segs = vx_ops /\
  vsplits (fst (vseg_go false vx_ancs ([], []) vx_segs)) [4; 2; 1] = [(9, 12, 23, 24); (7, 11, 21, 22)] /\
  map (vmapped (fst (vseg_go false vx_ancs ([], []) vx_segs)) [3; 2; 1]) [11; 12; 21; 22; 23] = [0; 30; 10; 10; 23].
Proof. vm_compute. repeat split. Qed.
