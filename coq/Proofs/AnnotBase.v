(* Proofs.AnnotBase — positions, block arithmetic and the element-list primitives of Model.Annot,
   characterised on lists whose positions are pairwise distinct. *)
From DV Require Import Base.Prelude Model.Annot Gen.Consts.
From Coq Require Import Permutation.
Local Open Scope Z_scope.

(* lia after abstracting list lengths (zify otherwise looks inside the filter predicates) *)
Ltac glia := repeat match goal with
                    | |- context [length ?l] => let n := fresh "n" in set (n := length l) in *; clearbody n
                    end; lia.

(* ---------- positions ---------- *)
Lemma pos_eqb_eq a b : pos_eqb a b = true <-> a = b.
Proof.
  destruct a as [[x y] z], b as [[x' y'] z']. unfold pos_eqb, pX, pY, pZ. cbn.
  rewrite !andb_true_iff, !Z.eqb_eq. split.
  - intros [[-> ->] ->]. reflexivity.
  - intro H. inversion H. auto.
Qed.
Lemma pos_eqb_refl a : pos_eqb a a = true.
Proof. apply pos_eqb_eq. reflexivity. Qed.
Lemma pos_eqb_neq a b : pos_eqb a b = false <-> a <> b.
Proof.
  split.
  - intros H E. apply pos_eqb_eq in E. congruence.
  - intro H. destruct (pos_eqb a b) eqn:E; [apply pos_eqb_eq in E; contradiction | reflexivity].
Qed.
Lemma pos_eqb_sym a b : pos_eqb a b = pos_eqb b a.
Proof.
  destruct (pos_eqb a b) eqn:E.
  - apply pos_eqb_eq in E. subst. symmetry. apply pos_eqb_refl.
  - symmetry. apply pos_eqb_neq. apply pos_eqb_neq in E. congruence.
Qed.
Lemma pos_dec (a b : pos) : {a = b} + {a <> b}.
Proof. destruct (pos_eqb a b) eqn:E; [left; now apply pos_eqb_eq | right; now apply pos_eqb_neq]. Qed.

Lemma mem_pos_In p l : mem_pos p l = true <-> In p l.
Proof.
  unfold mem_pos. rewrite existsb_exists. split.
  - intros [x [Hx E]]. apply pos_eqb_eq in E. now subst.
  - intro H. exists p. split; [assumption | apply pos_eqb_refl].
Qed.
Lemma mem_pos_nIn p l : mem_pos p l = false <-> ~ In p l.
Proof.
  rewrite <- mem_pos_In. destruct (mem_pos p l); intuition congruence.
Qed.
Lemma memN_In x l : memN x l = true <-> In x l.
Proof.
  unfold memN. rewrite existsb_exists. split.
  - intros [y [Hy E]]. apply N.eqb_eq in E. now subst.
  - intro H. exists x. split; [assumption | apply N.eqb_refl].
Qed.
Lemma memN_nIn x l : memN x l = false <-> ~ In x l.
Proof.
  rewrite <- memN_In. destruct (memN x l); intuition congruence.
Qed.

(* ---------- Chunk / PointInChunk are floor division / modulo ---------- *)
Lemma neg_div_mod p s : 0 < s -> p < 0 ->
  let b := - p - 1 in
  Z.quot (p - s + 1) s = - (b / s) - 1 /\ Z.rem (p + 1) s = - (b mod s)
  /\ p / s = - (b / s) - 1 /\ p mod s = s - 1 - b mod s.
Proof.
  intros Hs Hp b. assert (Hb : 0 <= b) by (unfold b; lia).
  pose proof (Z.div_mod b s ltac:(lia)) as Hdm. pose proof (Z.mod_pos_bound b s Hs) as Hm.
  repeat split.
  - replace (p - s + 1) with (- (b + 1 * s)) by (unfold b; lia).
    rewrite Z.quot_opp_l by lia. rewrite Z.quot_div_nonneg by lia. rewrite Z.div_add by lia. lia.
  - replace (p + 1) with (- b) by (unfold b; lia).
    rewrite Z.rem_opp_l by lia. rewrite Z.rem_mod_nonneg by lia. reflexivity.
  - symmetry. apply (Z.div_unique p s (- (b / s) - 1) (s - 1 - b mod s)); [lia|]. unfold b in *. lia.
  - symmetry. apply (Z.mod_unique p s (- (b / s) - 1) (s - 1 - b mod s)); [lia|]. unfold b in *. lia.
Qed.
Lemma chunk1_floor p s : 0 < s -> chunk1 p s = p / s.
Proof.
  intro Hs. unfold chunk1. destruct (p <? 0) eqn:E.
  - apply Z.ltb_lt in E. destruct (neg_div_mod p s Hs E) as [H1 [_ [H3 _]]]. now rewrite H1, H3.
  - apply Z.ltb_ge in E. apply Z.quot_div_nonneg; lia.
Qed.
Lemma inchunk1_mod p s : 0 < s -> inchunk1 p s = p mod s.
Proof.
  intro Hs. unfold inchunk1. destruct (p <? 0) eqn:E.
  - apply Z.ltb_lt in E. destruct (neg_div_mod p s Hs E) as [_ [H2 [_ H4]]]. rewrite H2, H4. lia.
  - apply Z.ltb_ge in E. apply Z.rem_mod_nonneg; lia.
Qed.
Lemma chunk1_decomp p s : 0 < s -> p = chunk1 p s * s + inchunk1 p s /\ 0 <= inchunk1 p s < s.
Proof.
  intro Hs. rewrite chunk1_floor, inchunk1_mod by assumption.
  pose proof (Z.div_mod p s ltac:(lia)). pose proof (Z.mod_pos_bound p s Hs). lia.
Qed.
Lemma chunk1_unique p s c q : 0 < s -> p = c * s + q -> 0 <= q < s -> chunk1 p s = c /\ inchunk1 p s = q.
Proof.
  intros Hs E Hq. rewrite chunk1_floor, inchunk1_mod by assumption. split; symmetry.
  - apply (Z.div_unique p s c q); lia.
  - apply (Z.mod_unique p s c q); lia.
Qed.

Definition bs_ok (bs : pos) : Prop := 0 < pX bs /\ 0 < pY bs /\ 0 < pZ bs.

(* ---------- positions of a list ---------- *)
Definition posl (l : list elem) : list pos := map e_pos l.
Definition uniq (l : list elem) : Prop := NoDup (posl l).

Lemma has_pos_true p e : has_pos p e = true <-> e_pos e = p.
Proof. unfold has_pos. rewrite pos_eqb_eq. split; congruence. Qed.
Lemma has_pos_false p e : has_pos p e = false <-> e_pos e <> p.
Proof. unfold has_pos. rewrite pos_eqb_neq. split; congruence. Qed.

Lemma nr_pos e : e_pos (nr e) = e_pos e. Proof. reflexivity. Qed.
Lemma nr_kind e : e_kind (nr e) = e_kind e. Proof. reflexivity. Qed.
Lemma nr_tags e : e_tags (nr e) = e_tags e. Proof. reflexivity. Qed.
Lemma nr_nr e : nr (nr e) = nr e. Proof. reflexivity. Qed.
Lemma posl_map_nr l : posl (map nr l) = posl l.
Proof. unfold posl. rewrite map_map. reflexivity. Qed.
Lemma posl_app a b : posl (a ++ b) = posl a ++ posl b.
Proof. apply map_app. Qed.
Lemma in_posl e l : In e l -> In (e_pos e) (posl l).
Proof. intro H. apply in_map. exact H. Qed.
Lemma posl_in p l : In p (posl l) -> exists e, In e l /\ e_pos e = p.
Proof. intro H. apply in_map_iff in H as [e [E H]]. eauto. Qed.

Lemma uniq_inj l x y : uniq l -> In x l -> In y l -> e_pos x = e_pos y -> x = y.
Proof.
  unfold uniq, posl. induction l as [|a l IH]; cbn; intros ND Hx Hy E; [contradiction|].
  inversion ND as [|? ? Hn ND']; subst.
  destruct Hx as [-> | Hx], Hy as [-> | Hy]; try reflexivity.
  - exfalso. apply Hn. rewrite E. now apply in_map.
  - exfalso. apply Hn. rewrite <- E. now apply in_map.
  - now apply IH.
Qed.

Lemma uniq_filter f l : uniq l -> uniq (filter f l).
Proof.
  unfold uniq, posl. induction l as [|a l IH]; cbn; intro ND; [constructor|].
  inversion ND as [|? ? Hn ND']; subst. destruct (f a); cbn.
  - constructor; [|now apply IH]. intro H. apply Hn. apply in_map_iff in H as [y [E Hy]].
    apply filter_In in Hy as [Hy _]. rewrite <- E. now apply in_map.
  - now apply IH.
Qed.

Lemma uniq_map_same f l : (forall e, e_pos (f e) = e_pos e) -> uniq l -> uniq (map f l).
Proof.
  intros Hf. unfold uniq, posl. rewrite map_map.
  replace (map (fun x => e_pos (f x)) l) with (map e_pos l); [auto|].
  apply map_ext. intro a. symmetry. apply Hf.
Qed.

Lemma uniq_app a b : uniq a -> uniq b -> (forall p, In p (posl a) -> ~ In p (posl b)) -> uniq (a ++ b).
Proof.
  unfold uniq. rewrite posl_app. revert b. induction a as [|x a IH]; cbn; intros b Ha Hb Hd; [assumption|].
  inversion Ha as [|? ? Hn Ha']; subst. constructor.
  - rewrite in_app_iff. intros [H|H]; [contradiction | eapply Hd; [left; reflexivity | exact H]].
  - apply IH; auto.
Qed.

(* two lists with distinct positions and the same members are permutations of each other *)
Lemma uniq_NoDup l : uniq l -> NoDup l.
Proof. unfold uniq, posl. apply NoDup_map_inv. Qed.
Lemma uniq_perm a b : uniq a -> uniq b -> (forall x, In x a <-> In x b) -> Permutation a b.
Proof. intros Ha Hb H. apply NoDup_Permutation; auto using uniq_NoDup. Qed.
Lemma perm_uniq a b : Permutation a b -> uniq a -> uniq b.
Proof. unfold uniq, posl. intros P H. eapply Permutation_NoDup; [apply Permutation_map; exact P | exact H]. Qed.

(* ---------- remove_first / nr_remove_all ---------- *)
Lemma remove_all_In p l x : In x (nr_remove_all p l) <-> In x l /\ e_pos x <> p.
Proof. unfold nr_remove_all. rewrite filter_In, negb_true_iff, has_pos_false. reflexivity. Qed.

Lemma remove_first_none p l : fst (remove_first p l) = None <-> ~ In p (posl l).
Proof.
  induction l as [|a l IH]; cbn; [tauto|].
  destruct (has_pos p a) eqn:E.
  - cbn. split; [discriminate|]. intro H. exfalso. apply H. left. now apply has_pos_true.
  - destruct (remove_first p l) as [d r]. cbn in *. rewrite IH. apply has_pos_false in E. tauto.
Qed.

Lemma remove_first_uniq p l : uniq l ->
  match remove_first p l with
  | (Some d, r) => In d l /\ e_pos d = p /\ (forall x, In x r <-> In x l /\ e_pos x <> p) /\ uniq r
  | (None, r) => r = l /\ ~ In p (posl l)
  end.
Proof.
  unfold uniq. induction l as [|a l IH]; cbn; intro ND; [tauto|].
  apply NoDup_cons_iff in ND as [Hn ND'].
  destruct (has_pos p a) eqn:E.
  - apply has_pos_true in E. subst p. split; [now left|]. split; [reflexivity|]. split; [|exact ND'].
    intro x. split.
    + intro Hx. split; [now right|]. intro Ex. apply Hn. rewrite <- Ex. now apply in_map.
    + intros [[Hx|Hx] Hne]; [subst; congruence | assumption].
  - apply has_pos_false in E. specialize (IH ND'). destruct (remove_first p l) as [[d|] r].
    + destruct IH as [Hd [Hp [Hr Hu]]]. split; [now right|]. split; [exact Hp|]. split.
      * intro x. cbn. rewrite Hr. split.
        -- intros [Hx|[Hx Hne]]; [subst; tauto | tauto].
        -- intros [[Hx|Hx] Hne]; [now left | right; tauto].
      * cbn. apply NoDup_cons_iff. split; [|exact Hu]. intro Hi. apply Hn.
        apply in_map_iff in Hi as [y [Ey Hy]]. apply Hr in Hy. rewrite <- Ey. apply in_map. tauto.
    + destruct IH as [Hrl Hni]. subst r. split; [reflexivity|]. intros [Hx|Hx]; [congruence | contradiction].
Qed.

Lemma filter_id {A} (f : A -> bool) l : (forall x, In x l -> f x = true) -> filter f l = l.
Proof.
  induction l as [|a l IH]; cbn; intro H; [reflexivity|].
  rewrite (H a) by now left. f_equal. apply IH. intros x Hx. apply H. now right.
Qed.
Lemma remove_first_eq_remove_all p l : uniq l -> snd (remove_first p l) = nr_remove_all p l.
Proof.
  unfold uniq, nr_remove_all. induction l as [|a l IH]; cbn; intro ND; [reflexivity|].
  inversion ND as [|? ? Hn ND']; subst.
  destruct (has_pos p a) eqn:E; cbn.
  - apply has_pos_true in E. subst. symmetry. apply filter_id. intros x Hx.
    apply negb_true_iff. apply has_pos_false. intro Ex. apply Hn. rewrite <- Ex. now apply in_map.
  - specialize (IH ND'). destruct (remove_first p l) as [d r]. cbn in *. now rewrite IH.
Qed.

(* ---------- last_at / last_idx ---------- *)
Lemma last_at_some p l y : last_at p l = Some y -> In y l /\ e_pos y = p.
Proof.
  induction l as [|a l IH]; cbn; [discriminate|].
  destruct (last_at p l) as [z|].
  - intro E. inversion E; subst. destruct (IH eq_refl). auto.
  - destruct (has_pos p a) eqn:Ea; [|discriminate]. intro E. inversion E; subst.
    apply has_pos_true in Ea. auto.
Qed.
Lemma last_at_none p l : last_at p l = None <-> ~ In p (posl l).
Proof.
  induction l as [|a l IH]; cbn; [tauto|].
  destruct (last_at p l) as [z|] eqn:El.
  - split; [discriminate|]. intro H. exfalso. apply H. right.
    apply last_at_some in El as [Hin Hp]. rewrite <- Hp. now apply in_map.
  - destruct (has_pos p a) eqn:Ea.
    + apply has_pos_true in Ea. split; [discriminate|]. intro H. exfalso. apply H. now left.
    + apply has_pos_false in Ea. split; [|reflexivity]. intros _ [H|H]; [contradiction|]. now apply IH.
Qed.
Lemma last_at_uniq p l y : uniq l -> In y l -> e_pos y = p -> last_at p l = Some y.
Proof.
  intros U Hy Hp. destruct (last_at p l) as [z|] eqn:E.
  - apply last_at_some in E as [Hz Hpz]. f_equal. eapply uniq_inj; eauto. congruence.
  - apply last_at_none in E. exfalso. apply E. rewrite <- Hp. now apply in_map.
Qed.
Lemma last_at_remove_other p q l : p <> q -> last_at p (nr_remove_all q l) = last_at p l.
Proof.
  intro Hne. unfold nr_remove_all. induction l as [|a l IH]; cbn; [reflexivity|].
  destruct (has_pos q a) eqn:Eq; cbn.
  - rewrite IH. destruct (last_at p l); [reflexivity|].
    apply has_pos_true in Eq. destruct (has_pos p a) eqn:Ep; [|reflexivity].
    apply has_pos_true in Ep. congruence.
  - rewrite IH. reflexivity.
Qed.

Lemma last_idx_some p l i j : last_idx p l i = Some j ->
  (i <= j)%nat /\ exists y, nth_error l (j - i) = Some y /\ e_pos y = p.
Proof.
  revert i. induction l as [|a l IH]; cbn; intro i; [discriminate|].
  destruct (last_idx p l (S i)) as [k|] eqn:E.
  - intro H. inversion H; subst. apply IH in E as [Hle [y [Hn Hp]]]. split; [lia|].
    exists y. split; [|exact Hp]. replace (j - i)%nat with (S (j - S i)) by lia. exact Hn.
  - destruct (has_pos p a) eqn:Ea; [|discriminate]. intro H. inversion H; subst.
    split; [lia|]. exists a. rewrite Nat.sub_diag. split; [reflexivity | now apply has_pos_true].
Qed.
Lemma last_idx_none p l i : last_idx p l i = None <-> ~ In p (posl l).
Proof.
  revert i. induction l as [|a l IH]; cbn; intro i; [tauto|].
  destruct (last_idx p l (S i)) as [j|] eqn:E.
  - split; [discriminate|]. intro H. exfalso. apply H. right.
    apply last_idx_some in E as [_ [y [Hn Hp]]]. apply nth_error_In in Hn. rewrite <- Hp. now apply in_map.
  - apply IH in E. destruct (has_pos p a) eqn:Ea.
    + apply has_pos_true in Ea. split; [discriminate|]. intro H. exfalso. apply H. now left.
    + apply has_pos_false in Ea. split; [|reflexivity]. intros _ [H|H]; [contradiction | now apply E].
Qed.

(* ---------- upd_nth ---------- *)
Lemma upd_nth_length {A} n (a : A) l : length (upd_nth n a l) = length l.
Proof. revert n. induction l as [|x l IH]; intros [|n]; cbn; auto. Qed.
Lemma upd_nth_app {A} n (a : A) l t : (n < length l)%nat -> upd_nth n a (l ++ t) = upd_nth n a l ++ t.
Proof.
  revert n. induction l as [|x l IH]; intros [|n]; cbn; intro H; try lia; [reflexivity|].
  f_equal. apply IH. lia.
Qed.
Lemma upd_nth_posl n e l y : nth_error l n = Some y -> e_pos y = e_pos e -> posl (upd_nth n e l) = posl l.
Proof.
  revert n. induction l as [|x l IH]; intros [|n]; cbn; intros H E; try discriminate.
  - inversion H; subst. now rewrite E.
  - f_equal. now apply IH.
Qed.
Lemma upd_nth_In n e l y x : uniq l -> nth_error l n = Some y -> e_pos y = e_pos e ->
  (In x (upd_nth n e l) <-> x = e \/ (In x l /\ e_pos x <> e_pos e)).
Proof.
  unfold uniq. revert n. induction l as [|a l IH]; intros [|n]; cbn; intros ND H E; try discriminate.
  - inversion H; subst. inversion ND as [|? ? Hn ND']; subst. split.
    + intros [<-|Hx]; [now left|]. right. split; [now right|]. intro Ex. apply Hn. rewrite E, <- Ex. now apply in_map.
    + intros [->|[[<-|Hx] Hne]]; [now left | congruence | now right].
  - inversion ND as [|? ? Hn ND']; subst. specialize (IH n ND' H E). split.
    + intros [<-|Hx].
      * right. split; [now left|]. intro Ex. apply Hn. rewrite Ex, <- E. apply in_map. eapply nth_error_In; eauto.
      * apply IH in Hx. tauto.
    + intros [->|[[<-|Hx] Hne]]; [right; apply IH; now left | now left | right; apply IH; tauto].
Qed.

(* ---------- el_add ---------- *)
Lemma el_add_fold_spec l a : uniq l -> uniq a ->
  forall m t, posl m = posl l -> uniq m ->
  exists m', fold_left (fun acc e => match last_idx (e_pos e) l 0 with
                                    | Some i => upd_nth i e acc
                                    | None => acc ++ [e] end) a (m ++ t)
             = m' ++ t ++ filter (fun e => negb (mem_pos (e_pos e) (posl l))) a
             /\ posl m' = posl l /\ uniq m'
             /\ forall x, In x m' <-> (In x a /\ In (e_pos x) (posl l)) \/ (In x m /\ ~ In (e_pos x) (posl a)).
Proof.
  intros Ul. induction a as [|e a IH]; intros Ua m t Hm Um.
  - exists m. cbn. rewrite app_nil_r. repeat split; auto. cbn. tauto.
  - assert (Ua' : uniq a) by (unfold uniq in *; cbn in Ua; now inversion Ua).
    assert (Hne : ~ In (e_pos e) (posl a)) by (unfold uniq in Ua; cbn in Ua; now inversion Ua).
    cbn [fold_left filter].
    destruct (last_idx (e_pos e) l 0) as [i|] eqn:Ei.
    + pose proof (last_idx_some _ _ _ _ Ei) as [_ [y [Hn Hp]]]. rewrite Nat.sub_0_r in Hn.
      assert (Hin : In (e_pos e) (posl l)) by (rewrite <- Hp; apply in_map; eapply nth_error_In; eauto).
      assert (Hmn : exists y', nth_error m i = Some y' /\ e_pos y' = e_pos e).
      { assert (Hx : nth_error (posl m) i = Some (e_pos e)).
        { rewrite Hm. unfold posl. rewrite nth_error_map, Hn. cbn. now rewrite Hp. }
        unfold posl in Hx. rewrite nth_error_map in Hx. destruct (nth_error m i) as [y'|]; [|discriminate].
        cbn in Hx. exists y'. split; [reflexivity | congruence]. }
      destruct Hmn as [y' [Hn' Hp']].
      assert (Hlt : (i < length m)%nat) by (apply nth_error_Some; congruence).
      rewrite upd_nth_app by exact Hlt.
      assert (Hm1 : posl (upd_nth i e m) = posl l) by (rewrite (upd_nth_posl _ _ _ _ Hn' Hp'); exact Hm).
      assert (Um1 : uniq (upd_nth i e m)) by (unfold uniq; rewrite Hm1; exact Ul).
      destruct (IH Ua' (upd_nth i e m) t Hm1 Um1) as [m' [Hf [Hpm [Hum Hx]]]].
      exists m'. split; [|split; [exact Hpm | split; [exact Hum|]]].
      * rewrite Hf. apply mem_pos_In in Hin. rewrite Hin. reflexivity.
      * intro x. rewrite Hx. rewrite (upd_nth_In _ _ _ _ x Um Hn' Hp'). cbn. split.
        -- intros [[Ha Hl]|[[->|[Hxm Hpe]] Hna]]; [left; tauto | left; tauto | right; split; [tauto|]].
           intros [E|Hi]; [congruence | contradiction].
        -- intros [[[<-|Ha] Hl]|[Hxm Hna]].
           ++ right. split; [now left | exact Hne].
           ++ left. tauto.
           ++ right. split; [right; split; [exact Hxm|] | tauto]. intro E. apply Hna. now left.
    + apply last_idx_none in Ei. rewrite <- app_assoc.
      destruct (IH Ua' m (t ++ [e]) Hm Um) as [m' [Hf [Hpm [Hum Hx]]]].
      exists m'. split; [|split; [exact Hpm | split; [exact Hum|]]].
      * rewrite Hf. apply mem_pos_nIn in Ei. rewrite Ei. cbn. rewrite <- !app_assoc. reflexivity.
      * intro x. rewrite Hx. cbn. split.
        -- intros [[Ha Hl]|[Hxm Hna]]; [left; tauto|]. right. split; [exact Hxm|].
           intros [E|Hi]; [|contradiction]. apply Ei. rewrite <- Hm, E. now apply in_posl.
        -- intros [[[<-|Ha] Hl]|[Hxm Hna]]; [contradiction | left; tauto | right; tauto].
Qed.

Lemma el_add_spec l a : uniq l -> uniq a ->
  uniq (el_add l a) /\ forall x, In x (el_add l a) <-> In x a \/ (In x l /\ ~ In (e_pos x) (posl a)).
Proof.
  intros Ul Ua. unfold el_add.
  destruct (el_add_fold_spec l a Ul Ua l [] eq_refl Ul) as [m' [Hf [Hpm [Hum Hx]]]].
  rewrite app_nil_r in Hf. rewrite Hf. cbn [app]. split.
  - apply uniq_app; [exact Hum | now apply uniq_filter |].
    intros p Hp Hq. rewrite Hpm in Hp. apply posl_in in Hq as [e [He Ep]].
    apply filter_In in He as [_ He]. apply negb_true_iff, mem_pos_nIn in He. congruence.
  - intro x. rewrite in_app_iff, Hx, filter_In, negb_true_iff, mem_pos_nIn. split.
    + intros [[[Ha Hl]|[Hxl Hna]]|[Ha Hnl]]; tauto.
    + intros [Ha|[Hxl Hna]]; [|tauto].
      destruct (in_dec pos_dec (e_pos x) (posl l)); tauto.
Qed.

Lemma el_add_nil_l a : el_add [] a = a.
Proof.
  unfold el_add. cbn. assert (H : forall acc, fold_left (fun acc e => acc ++ [e]) a acc = acc ++ a).
  { induction a as [|e a IH]; intro acc; cbn; [now rewrite app_nil_r|]. rewrite IH, <- app_assoc. reflexivity. }
  apply (H []).
Qed.
Lemma el_add_nil_r l : el_add l [] = l.
Proof. reflexivity. Qed.

(* ---------- relationship rewriting keeps positions, kinds, tags ---------- *)
Lemma del_rel_pos p e : e_pos (del_rel p e) = e_pos e. Proof. reflexivity. Qed.
Lemma mv_rel_pos f t e : e_pos (mv_rel f t e) = e_pos e. Proof. reflexivity. Qed.
Lemma nr_del_rel p e : nr (del_rel p e) = nr e. Proof. reflexivity. Qed.
Lemma nr_mv_rel f t e : nr (mv_rel f t e) = nr e. Proof. reflexivity. Qed.
Lemma del_rel_norefs p e : refs p e = false -> del_rel p e = e.
Proof.
  unfold refs, del_rel, set_rels. intro H. destruct e as [ps k tg rl pr]. cbn in *. f_equal.
  apply filter_id. intros x Hx. apply negb_true_iff.
  destruct (pos_eqb p (snd x)) eqn:E; [|reflexivity].
  assert (existsb (fun r => pos_eqb p (snd r)) rl = true) by (apply existsb_exists; eauto). congruence.
Qed.
Lemma mv_rel_norefs f t e : refs f e = false -> mv_rel f t e = e.
Proof.
  unfold refs, mv_rel, set_rels. intro H. destruct e as [ps k tg rl pr]. cbn in *. f_equal.
  rewrite <- (map_id rl) at 2. apply map_ext_in. intros x Hx.
  destruct (pos_eqb f (snd x)) eqn:E; [|reflexivity].
  assert (existsb (fun r => pos_eqb f (snd r)) rl = true) by (apply existsb_exists; eauto). congruence.
Qed.
Lemma map_norefs (g : elem -> elem) (r : elem -> bool) l :
  (forall e, r e = false -> g e = e) -> existsb r l = false -> map g l = l.
Proof.
  intros Hg H. rewrite <- (map_id l) at 2. apply map_ext_in. intros x Hx. apply Hg.
  destruct (r x) eqn:E; [|reflexivity].
  assert (existsb r l = true) by (apply existsb_exists; eauto). congruence.
Qed.
Lemma repos_other f t e : e_pos e <> f -> repos f t e = e.
Proof. intro H. unfold repos. apply has_pos_false in H. now rewrite H. Qed.
Lemma repos_at f t e : e_pos e = f -> repos f t e = set_pos e t.
Proof. intro H. unfold repos. apply has_pos_true in H. now rewrite H. Qed.
Lemma nr_repos f t e : nr (repos f t e) = repos f t (nr e).
Proof. unfold repos, has_pos. cbn. destruct (pos_eqb f (e_pos e)); reflexivity. Qed.
Lemma del_rel_refs p e : refs p (del_rel p e) = false.
Proof.
  unfold refs, del_rel. cbn. apply not_true_is_false. intro H. apply existsb_exists in H as [x [Hx E]].
  apply filter_In in Hx as [_ Hx]. rewrite E in Hx. discriminate.
Qed.
