(* Proofs.Repo: RepoInv is an inductive invariant of Model.Repo (repaired), error answers leave the
   state alone, and the code as found violated both. *)
From DV Require Import Base.Prelude Gen.RepoFacts Model.Repo Model.RepoInv.
From Coq Require Import String Ascii.
From stdpp Require Import gmap strings.
Local Open Scope string_scope.

(* ------------------------------------------------------------------ strings *)

Lemma append_inj_len a b x y :
  String.length a = String.length b -> a ++ x = b ++ y -> a = b /\ x = y.
Proof.
  revert b. induction a as [|c a IH]; intros [|d b] Hl He; simpl in *; try discriminate.
  - auto.
  - injection He as -> He. injection Hl as Hl. destruct (IH b Hl He) as [-> ->]. auto.
Qed.

Lemma branch_label_inj b1 b2 :
  b1 <> s_master_label -> b2 <> s_master_label -> branch_label b1 = branch_label b2 -> b1 = b2.
Proof.
  unfold branch_label. intros H1 H2.
  destruct (String.eqb_spec b1 ""), (String.eqb_spec b2 ""); subst; auto; intros E; congruence.
Qed.

Lemma head_key_inj R1 R2 b1 b2 :
  String.length R1 = 32%nat -> String.length R2 = 32%nat -> b1 <> s_master_label -> b2 <> s_master_label ->
  head_key R1 b1 = head_key R2 b2 -> R1 = R2 /\ b1 = b2.
Proof.
  unfold head_key. intros L1 L2 H1 H2 E.
  destruct (append_inj_len R1 R2 _ _ (eq_trans L1 (eq_sym L2)) E) as [-> E2].
  split; auto using branch_label_inj.
Qed.

Lemma valid_uuid_len u : valid_uuid u = true -> String.length u = 32%nat.
Proof. unfold valid_uuid. intros H. apply andb_true_iff in H as [H _]. now apply Nat.eqb_eq in H. Qed.

Lemma valid_uuid_nonempty u : valid_uuid u = true -> u <> "".
Proof. intros H ->. discriminate H. Qed.

Lemma eqb_false_ne a b : String.eqb a b = false -> a <> b.
Proof. apply String.eqb_neq. Qed.

(* ------------------------------------------------------------------ the newest node of a branch *)

Lemma newest_fold (f : node -> bool) (l : list (N * node)) : forall acc : option (N * node),
  let res := fold_left (fun (acc : option (N * node)) (x : N * node) =>
    if f (snd x) then
      match acc with
      | Some y => if (fst y <? fst x)%N then Some x else acc
      | None => Some x
      end
    else acc) l acc in
  (forall x, res = Some x -> (acc = Some x \/ (In x l /\ f (snd x) = true))) /\
  (forall x, In x l -> f (snd x) = true -> exists y, res = Some y /\ (fst x <= fst y)%N) /\
  (forall y, acc = Some y -> exists z, res = Some z /\ (fst y <= fst z)%N) /\
  (acc = None -> (forall x, In x l -> f (snd x) = false) -> res = None).
Proof.
  induction l as [|a l IH]; intros acc; simpl.
  - split; [intros x Hx; left; exact Hx|]. split; [intros x []|].
    split; [intros y ->; exists y; split; [reflexivity|lia]|]. intros -> _. reflexivity.
  - destruct (f (snd a)) eqn:Fa.
    + destruct acc as [y|].
      * destruct (fst y <? fst a)%N eqn:E.
        -- apply N.ltb_lt in E. destruct (IH (Some a)) as (A & B & C & D). split; [|split; [|split]].
           ++ intros x Hx. destruct (A x Hx) as [Ex|[Hin Hf]]; [injection Ex as <-|]; right; auto.
           ++ intros x [<-|Hin] Hf; [apply (C a eq_refl)|now apply B].
           ++ intros y' [= <-]. destruct (C a eq_refl) as (z & Ez & Hz). exists z. split; auto. lia.
           ++ discriminate.
        -- apply N.ltb_ge in E. destruct (IH (Some y)) as (A & B & C & D). split; [|split; [|split]].
           ++ intros x Hx. destruct (A x Hx) as [Ex|[Hin Hf]]; [left; exact Ex|right; auto].
           ++ intros x [<-|Hin] Hf; [|now apply B]. destruct (C y eq_refl) as (z & Ez & Hz). exists z. split; auto. lia.
           ++ intros y' [= <-]. apply (C y eq_refl).
           ++ discriminate.
      * destruct (IH (Some a)) as (A & B & C & D). split; [|split; [|split]].
        -- intros x Hx. destruct (A x Hx) as [Ex|[Hin Hf]]; [injection Ex as <-|]; right; auto.
        -- intros x [<-|Hin] Hf; [apply (C a eq_refl)|now apply B].
        -- discriminate.
        -- intros _ Hall. rewrite (Hall a (or_introl eq_refl)) in Fa. discriminate.
    + destruct (IH acc) as (A & B & C & D). split; [|split; [|split]].
      * intros x Hx. destruct (A x Hx) as [Ex|[Hin Hf]]; [left; exact Ex|right; auto].
      * intros x [<-|Hin] Hf; [congruence|now apply B].
      * exact C.
      * intros -> Hall. apply D; auto.
Qed.

Lemma newest_some f r v n : newest f r = Some (v, n) ->
  r_nodes r !! v = Some n /\ f n = true /\ forall w m, r_nodes r !! w = Some m -> f m = true -> (w <= v)%N.
Proof.
  unfold newest. intros H. destruct (newest_fold f (nodes_list r) None) as (A & B & _ & _). simpl in A, B.
  destruct (A _ H) as [E|[Hin Hf]]; [discriminate|].
  split; [now apply elem_of_map_to_list, elem_of_list_In|]. split; auto.
  intros w m Hm Fm. destruct (B (w, m)) as (y & Ey & Hy); auto.
  - now apply elem_of_list_In, elem_of_map_to_list.
  - rewrite H in Ey. injection Ey as <-. exact Hy.
Qed.

Lemma newest_exists f r w m : r_nodes r !! w = Some m -> f m = true -> exists v n, newest f r = Some (v, n).
Proof.
  intros Hm Fm. unfold newest. destruct (newest_fold f (nodes_list r) None) as (_ & B & _ & _).
  destruct (B (w, m)) as ([v n] & Ey & _); auto; [now apply elem_of_list_In, elem_of_map_to_list|eauto].
Qed.

(* the newest node of a branch is what [newest] finds *)
Lemma newest_branch r v n : r_nodes r !! v = Some n -> branch_newest r v n ->
  newest (fun m => String.eqb (n_branch m) (n_branch n)) r = Some (v, n).
Proof.
  intros Hn Hmax. destruct (newest_exists (fun m => String.eqb (n_branch m) (n_branch n)) r v n Hn (String.eqb_refl _)) as (v' & n' & E).
  destruct (newest_some _ _ _ _ E) as (Hn' & Fn' & Hmax'). apply String.eqb_eq in Fn'.
  assert (v' = v).
  { pose proof (Hmax v' n' Hn' Fn'). pose proof (Hmax' v n Hn (String.eqb_refl _)). lia. }
  subst v'. rewrite Hn in Hn'. injection Hn' as <-. exact E.
Qed.

(* ------------------------------------------------------------------ the head cache *)

Lemma prefix_append a b : String.prefix a (a ++ b) = true.
Proof. induction a as [|c a IH]; simpl; [now destruct b|]. destruct (ascii_dec c c); [exact IH|congruence]. Qed.

Lemma prefix_same_length a b x : String.length a = String.length b -> String.prefix a (b ++ x) = true -> a = b.
Proof.
  revert b. induction a as [|c a IH]; intros [|d b] L H; simpl in *; try discriminate; auto.
  destruct (ascii_dec c d) as [->|]; [|discriminate]. f_equal. apply IH; auto.
Qed.

(* a key of the freshly cached heads of r is root ++ label of a branch of r, with its newest node *)
Lemma repo_heads_in r k u : (k, u) ∈ repo_heads r ->
  exists w x v n, r_nodes r !! w = Some x /\ k = head_key (r_root r) (n_branch x) /\
                  newest (fun m => String.eqb (n_branch m) (n_branch x)) r = Some (v, n) /\ u = n_uuid n.
Proof.
  unfold repo_heads, nodes_list. intros H. apply elem_of_list_In, in_flat_map in H as ([w x] & Hin & H).
  apply elem_of_list_In, elem_of_map_to_list in Hin. simpl in *.
  destruct (newest _ r) as [[v n]|] eqn:E; [|destruct H].
  destruct H as [H|[]]. injection H as <- <-. exists w, x, v, n. auto.
Qed.

Lemma cache_heads_own s r v n : (forall w m, r_nodes r !! w = Some m -> n_branch m <> s_master_label) ->
  r_nodes r !! v = Some n -> branch_newest r v n ->
  st_heads (cache_heads s r) !! head_key (r_root r) (n_branch n) = Some (n_uuid n).
Proof.
  intros Hnm Hn Hmax. simpl. apply lookup_union_Some_raw. left.
  pose proof (newest_branch r v n Hn Hmax) as E.
  assert (Hin : (head_key (r_root r) (n_branch n), n_uuid n) ∈ repo_heads r).
  { unfold repo_heads. apply elem_of_list_In, in_flat_map. exists (v, n). split.
    - now apply elem_of_list_In, elem_of_map_to_list.
    - simpl. rewrite E. left. reflexivity. }
  destruct (list_to_map (repo_heads r) !! head_key (r_root r) (n_branch n)) as [u|] eqn:El.
  - apply elem_of_list_to_map_2 in El.
    destruct (repo_heads_in r _ _ El) as (w & x & v' & n' & Hx & Ek & En & ->).
    unfold head_key in Ek. apply append_inj_len in Ek as [_ Ek]; auto.
    apply branch_label_inj in Ek; [|apply (Hnm v n Hn)|apply (Hnm w x Hx)].
    rewrite <- Ek in En. rewrite E in En. now injection En as _ <-.
  - exfalso. apply not_elem_of_list_to_map_2 in El. apply El.
    apply elem_of_list_fmap. exists (head_key (r_root r) (n_branch n), n_uuid n). split; auto.
Qed.

(* keys that do not start with the root of r are untouched *)
Lemma cache_heads_other s r k : String.prefix (r_root r) k = false ->
  st_heads (cache_heads s r) !! k = st_heads s !! k.
Proof.
  intros Hp. simpl. match goal with |- (?m ∪ _) !! _ = _ => destruct (m !! k) as [u|] eqn:El end.
  - apply elem_of_list_to_map_2 in El. destruct (repo_heads_in r _ _ El) as (w & x & v' & n' & _ & Ek & _).
    rewrite Ek in Hp. unfold head_key in Hp. now rewrite prefix_append in Hp.
  - rewrite lookup_union_r by exact El. destruct (st_heads s !! k) as [u|] eqn:E.
    + now apply map_filter_lookup_Some_2.
    + now apply map_filter_lookup_None_2; left.
Qed.

(* ------------------------------------------------------------------ consequences of RepoInv *)

Lemma inv_u2v_node s u v : RepoInv s -> st_u2v s !! u = Some v ->
  exists i R r n, st_roots s !! i = Some R /\ st_repos s !! i = Some r /\ st_repo_of s !! u = Some i /\
                  r_nodes r !! v = Some n /\ n_uuid n = u.
Proof.
  intros I Hu. pose proof (proj1 (inv_bij s I u v) Hu) as Hv.
  destruct (inv_mapped s I v u Hv) as [i Hi].
  destruct (inv_repo_of s I u i Hi) as (R & r & v' & n & HR & Hr & Hu' & Hn).
  rewrite Hu in Hu'. injection Hu' as <-.
  destruct (inv_nodes s I i R r v n HR Hr Hn) as [Hv' _]. rewrite Hv in Hv'. injection Hv' as Hv'.
  exists i, R, r, n. auto.
Qed.

Lemma find_node_spec s u i r v n : find_node s u = Some (i, r, v, n) ->
  st_u2v s !! u = Some v /\ st_repo_of s !! u = Some i /\ st_repos s !! i = Some r /\ r_nodes r !! v = Some n.
Proof.
  unfold find_node. destruct (st_u2v s !! u) as [v'|]; [|discriminate].
  destruct (st_repo_of s !! u) as [i'|]; [|discriminate].
  destruct (st_repos s !! i') as [r'|] eqn:E1; [|discriminate].
  destruct (r_nodes r' !! v') as [n'|] eqn:E2; [|discriminate].
  intros H. injection H as <- <- <- <-. repeat split; auto.
Qed.

Lemma find_node_live s u i r v n : RepoInv s -> find_node s u = Some (i, r, v, n) ->
  exists R, st_roots s !! i = Some R /\ n_uuid n = u.
Proof.
  intros I H. apply find_node_spec in H as (Hu & Hi & Hr & Hn).
  destruct (inv_repo_of s I u i Hi) as (R & r' & v' & n' & HR & Hr' & Hu' & Hn').
  rewrite Hr in Hr'. injection Hr' as <-. rewrite Hu in Hu'. injection Hu' as <-.
  exists R. split; auto.
  destruct (inv_nodes s I i R r v n HR Hr Hn) as [Hv _].
  apply (inv_bij s I) in Hu. rewrite Hu in Hv. now injection Hv.
Qed.

(* a version id belongs to one live repo only *)
Lemma inv_disjoint s i j R R' r r' v n n' : RepoInv s ->
  st_roots s !! i = Some R -> st_repos s !! i = Some r -> r_nodes r !! v = Some n ->
  st_roots s !! j = Some R' -> st_repos s !! j = Some r' -> r_nodes r' !! v = Some n' -> i = j.
Proof.
  intros I HR Hr Hn HR' Hr' Hn'.
  destruct (inv_nodes s I i R r v n HR Hr Hn) as [H1 H2].
  destruct (inv_nodes s I j R' r' v n' HR' Hr' Hn') as [H3 H4].
  rewrite H1 in H3. injection H3 as E. rewrite E in H2. rewrite H2 in H4. now injection H4.
Qed.

Lemma inv_root_eq s i R r : RepoInv s -> st_roots s !! i = Some R -> st_repos s !! i = Some r ->
  r_root r = R /\ repo_wf r.
Proof.
  intros I HR Hr. destruct (inv_live s I i R HR) as (r' & Hr' & E & W).
  rewrite Hr in Hr'. injection Hr' as <-. auto.
Qed.

(* the UUIDs of nodes are in uuidToVersion *)
Lemma inv_node_u2v s i R r v n : RepoInv s ->
  st_roots s !! i = Some R -> st_repos s !! i = Some r -> r_nodes r !! v = Some n ->
  st_u2v s !! n_uuid n = Some v.
Proof.
  intros I HR Hr Hn. apply (inv_bij s I). now destruct (inv_nodes s I i R r v n HR Hr Hn).
Qed.

(* distinct live repos have distinct roots *)
Lemma inv_roots_inj s i j R : RepoInv s -> st_roots s !! i = Some R -> st_roots s !! j = Some R -> i = j.
Proof.
  intros I Hi Hj.
  destruct (inv_live s I i R Hi) as (r & Hr & E & W).
  destruct (inv_live s I j R Hj) as (r' & Hr' & E' & W').
  destruct (wf_root r W) as (n & Hn & Un & _). destruct (wf_root r' W') as (n' & Hn' & Un' & _).
  destruct (inv_nodes s I i R r _ n Hi Hr Hn) as [_ H1].
  destruct (inv_nodes s I j R r' _ n' Hj Hr' Hn') as [_ H2].
  rewrite Un, E in H1. rewrite Un', E' in H2. rewrite H1 in H2. now injection H2.
Qed.

(* ------------------------------------------------------------------ the initial state *)

Lemma inv_init : RepoInv init.
Proof.
  constructor; unfold init; simpl; intros; try (rewrite lookup_empty in *; discriminate); auto.
  split; rewrite lookup_empty; discriminate.
Qed.

(* ------------------------------------------------------------------ in-place node updates *)
(* commit, data instance operations: same node set, same links; locks only grow *)

Definition node_same (n n' : node) : Prop :=
  n_uuid n' = n_uuid n /\ n_parents n' = n_parents n /\ n_children n' = n_children n /\
  n_branch n' = n_branch n /\ (n_locked n = true -> n_locked n' = true).

Definition nodes_same (m m' : gmap N node) : Prop :=
  forall v, option_Forall2 node_same (m !! v) (m' !! v).

Lemma nodes_same_fwd m m' v n : nodes_same m m' -> m !! v = Some n -> exists n', m' !! v = Some n' /\ node_same n n'.
Proof. intros H E. specialize (H v). rewrite E in H. inversion H; subst. eauto. Qed.
Lemma nodes_same_bwd m m' v n' : nodes_same m m' -> m' !! v = Some n' -> exists n, m !! v = Some n /\ node_same n n'.
Proof. intros H E. specialize (H v). rewrite E in H. inversion H; subst. eauto. Qed.

Lemma node_same_refl n : node_same n n.
Proof. repeat split; auto. Qed.

Lemma branch_leaf_same r r' n n' : nodes_same (r_nodes r) (r_nodes r') -> node_same n n' ->
  branch_leaf r' n' -> branch_leaf r n.
Proof.
  intros S (A & B & C & D & E) L c cn Hc Hcn.
  destruct (nodes_same_fwd _ _ _ _ S Hcn) as (cn' & Hcn' & (A' & B' & C' & D' & E')).
  rewrite <- D, <- D'. apply (L c cn'); auto. now rewrite C.
Qed.

Lemma repo_wf_same r r' : repo_wf r -> r_root r' = r_root r -> r_rootv r' = r_rootv r ->
  nodes_same (r_nodes r) (r_nodes r') -> repo_wf r'.
Proof.
  intros W ER EV S. constructor.
  - destruct (wf_root r W) as (n & Hn & U & P).
    destruct (nodes_same_fwd _ _ _ _ S Hn) as (n' & Hn' & (A & B & C & D & E)).
    exists n'. rewrite EV, ER. repeat split; congruence.
  - intros v n' Hn' P. destruct (nodes_same_bwd _ _ _ _ S Hn') as (n & Hn & (A & B & C & D & E)).
    rewrite EV. apply (wf_single_root r W v n Hn). congruence.
  - intros v n' p Hn' Hp. destruct (nodes_same_bwd _ _ _ _ S Hn') as (n & Hn & (A & B & C & D & E)).
    rewrite B in Hp. destruct (wf_parents r W v n p Hn Hp) as (Lt & pn & Hpn & Lk & Ch).
    split; auto. destruct (nodes_same_fwd _ _ _ _ S Hpn) as (pn' & Hpn' & (A' & B' & C' & D' & E')).
    exists pn'. repeat split; auto. now rewrite C'.
  - intros v n' c Hn' Hc. destruct (nodes_same_bwd _ _ _ _ S Hn') as (n & Hn & (A & B & C & D & E)).
    rewrite C in Hc. destruct (wf_children r W v n c Hn Hc) as (cn & Hcn & Pc).
    destruct (nodes_same_fwd _ _ _ _ S Hcn) as (cn' & Hcn' & (A' & B' & C' & D' & E')).
    exists cn'. split; auto. now rewrite B'.
  - intros v n' Hn'. destruct (nodes_same_bwd _ _ _ _ S Hn') as (n & Hn & (A & B & C & D & E)).
    rewrite B, C. apply (wf_nodup r W v n Hn).
  - intros v n' Hn' Hb. destruct (nodes_same_bwd _ _ _ _ S Hn') as (n & Hn & (A & B & C & D & E)).
    rewrite B. apply (wf_named_one_parent r W v n Hn). congruence.
  - intros v n' c1 c2 n1' n2' Hn' Hc1 Hc2 H1 H2 P1 P2 Eb.
    destruct (nodes_same_bwd _ _ _ _ S Hn') as (n & Hn & (A & B & C & D & E)).
    destruct (nodes_same_bwd _ _ _ _ S H1) as (n1 & Hn1 & (A1 & B1 & C1 & D1 & E1)).
    destruct (nodes_same_bwd _ _ _ _ S H2) as (n2 & Hn2 & (A2 & B2 & C2 & D2 & E2)).
    rewrite C in Hc1, Hc2. apply (wf_linear r W v n c1 c2 n1 n2 Hn Hc1 Hc2 Hn1 Hn2); congruence.
  - intros v n' Hn' Hb L w m' Hm' Eb.
    destruct (nodes_same_bwd _ _ _ _ S Hn') as (n & Hn & NS). pose proof NS as (A & B & C & D & E).
    destruct (nodes_same_bwd _ _ _ _ S Hm') as (m & Hm & (A' & B' & C' & D' & E')).
    refine (wf_leaf_newest r W v n Hn _ _ w m Hm _); [congruence|eapply branch_leaf_same; eauto|congruence].
  - intros v n' Hn'. destruct (nodes_same_bwd _ _ _ _ S Hn') as (n & Hn & (A & B & C & D & E)).
    rewrite D. apply (wf_no_master r W v n Hn).
  - rewrite ER. apply (wf_root_len r W).
Qed.

(* a state that differs from s in the nodes' attributes of repo i only (and perhaps in the
   instance id counter) *)
Lemma inv_same s s' i r r' : RepoInv s -> st_repos s !! i = Some r ->
  st_repos s' = <[i := r']> (st_repos s) -> st_repo_of s' = st_repo_of s -> st_roots s' = st_roots s ->
  st_u2v s' = st_u2v s -> st_v2u s' = st_v2u s -> st_heads s' = st_heads s ->
  st_next_v s' = st_next_v s -> st_next_r s' = st_next_r s ->
  r_root r' = r_root r -> r_rootv r' = r_rootv r -> nodes_same (r_nodes r) (r_nodes r') ->
  RepoInv s'.
Proof.
  intros I Hr E1 E2 E3 E4 E5 E6 E7 E8 ER EV S.
  assert (Hlk : forall j rj, st_repos s' !! j = Some rj ->
            (j = i /\ rj = r') \/ (j <> i /\ st_repos s !! j = Some rj)).
  { intros j rj. rewrite E1. destruct (decide (j = i)) as [->|Ne].
    - rewrite lookup_insert. intros [= <-]. auto.
    - rewrite lookup_insert_ne by auto. auto. }
  constructor.
  - intros j R HR. rewrite E3 in HR. destruct (inv_live s I j R HR) as (rj & Hrj & ERj & Wj).
    rewrite E1. destruct (decide (j = i)) as [->|Ne].
    + rewrite lookup_insert. rewrite Hr in Hrj. injection Hrj as <-.
      exists r'. split; [reflexivity|]. split; [congruence|]. eapply repo_wf_same; eauto.
    + rewrite lookup_insert_ne by auto. eauto.
  - intros u v. rewrite E4, E5. apply (inv_bij s I).
  - intros j R rj v n HR Hrj Hn. rewrite E3 in HR. rewrite E5, E2.
    destruct (Hlk j rj Hrj) as [[-> ->]|[Ne Hrj']].
    + destruct (nodes_same_bwd _ _ _ _ S Hn) as (n0 & Hn0 & (A & _)). rewrite A.
      apply (inv_nodes s I i R r v n0 HR Hr Hn0).
    + apply (inv_nodes s I j R rj v n HR Hrj' Hn).
  - intros u j Hj. rewrite E2 in Hj. destruct (inv_repo_of s I u j Hj) as (R & rj & v & n & HR & Hrj & Hu & Hn).
    rewrite E3, E4, E1. destruct (decide (j = i)) as [->|Ne].
    + rewrite Hr in Hrj. injection Hrj as <-.
      destruct (nodes_same_fwd _ _ _ _ S Hn) as (n' & Hn' & _).
      exists R, r', v, n'. rewrite lookup_insert. auto.
    + exists R, rj, v, n. rewrite lookup_insert_ne by auto. auto.
  - intros v u. rewrite E5, E2. apply (inv_mapped s I).
  - intros v u. rewrite E5, E7. apply (inv_next_v s I).
  - intros j rj Hrj. rewrite E8. destruct (Hlk j rj Hrj) as [[-> ->]|[Ne Hrj']].
    + apply (inv_next_r s I i r Hr).
    + apply (inv_next_r s I j rj Hrj').
  - rewrite E4. apply (inv_nil s I).
  - intros j R rj v n HR Hrj Hn Hmax. rewrite E3 in HR. rewrite E6.
    destruct (Hlk j rj Hrj) as [[-> ->]|[Ne Hrj']].
    + destruct (nodes_same_bwd _ _ _ _ S Hn) as (n0 & Hn0 & NS).
      pose proof NS as (A & B & C & D & E). rewrite ER, A, D.
      apply (inv_head_newest s I i R r v n0 HR Hr Hn0).
      intros w m Hm Eb. destruct (nodes_same_fwd _ _ _ _ S Hm) as (m' & Hm' & (_ & _ & _ & D' & _)).
      apply (Hmax w m' Hm'). congruence.
    + apply (inv_head_newest s I j R rj v n HR Hrj' Hn Hmax).
Qed.

(* the earlier reading of the head cache: it points at the one leaf of every named branch *)
Lemma inv_heads s i R r v n : RepoInv s -> st_roots s !! i = Some R -> st_repos s !! i = Some r ->
  r_nodes r !! v = Some n -> n_branch n <> "" -> branch_leaf r n ->
  st_heads s !! head_key (r_root r) (n_branch n) = Some (n_uuid n).
Proof.
  intros I HR Hr Hn Hb L. apply (inv_head_newest s I i R r v n HR Hr Hn).
  destruct (inv_live s I i R HR) as (r' & Hr' & _ & W). rewrite Hr in Hr'. injection Hr' as <-.
  now apply (wf_leaf_newest r W v n Hn Hb L).
Qed.

Lemma alter_as_insert {A} (f : A -> A) (m : gmap N A) i x : m !! i = Some x -> alter f i m = <[i := f x]> m.
Proof.
  intros H. apply map_eq. intros j. destruct (decide (j = i)) as [->|Ne].
  - rewrite lookup_alter, lookup_insert, H. reflexivity.
  - rewrite lookup_alter_ne, lookup_insert_ne by auto. reflexivity.
Qed.

Lemma nodes_same_refl m : nodes_same m m.
Proof. intros v. destruct (m !! v); constructor. apply node_same_refl. Qed.

Lemma nodes_same_lock m v : nodes_same m (alter lock_node v m).
Proof.
  intros w. destruct (decide (w = v)) as [->|Ne].
  - rewrite lookup_alter. destruct (m !! v); constructor. repeat split; auto.
  - rewrite lookup_alter_ne by auto. destruct (m !! w); constructor. apply node_same_refl.
Qed.

(* ------------------------------------------------------------------ commit *)

Lemma inv_commit s u : RepoInv s -> RepoInv (fst (do_commit s u)).
Proof.
  intros I. unfold do_commit. destruct (find_node s u) as [[[[i r] v] n]|] eqn:F; [|exact I].
  destruct (n_locked n); [exact I|]. simpl.
  apply find_node_spec in F as (Hu & Hi & Hr & Hn).
  eapply (inv_same s _ i r (upd_nodes (alter lock_node v) r)); eauto; simpl.
  - now apply alter_as_insert.
  - apply nodes_same_lock.
Qed.

Lemma commit_frame s u : snd (do_commit s u) <> Done tt -> fst (do_commit s u) = s.
Proof.
  unfold do_commit. destruct (find_node s u) as [[[[i r] v] n]|]; auto.
  destruct (n_locked n); simpl; auto. congruence.
Qed.

(* ------------------------------------------------------------------ data instances *)

Lemma inv_upd_data s i r f : RepoInv s -> st_repos s !! i = Some r -> RepoInv (upd_repo s i (upd_data f)).
Proof.
  intros I Hr. eapply (inv_same s _ i r (upd_data f r)); eauto; simpl.
  - now apply alter_as_insert.
  - apply nodes_same_refl.
Qed.

Lemma inv_bump s : RepoInv s -> RepoInv (bump_instance_id s).
Proof. intros I. destruct I. constructor; simpl; auto. Qed.

Lemma inv_new_data s u name : RepoInv s -> RepoInv (fst (do_new_data s u name)).
Proof.
  intros I. apply inv_bump in I. unfold do_new_data.
  destruct (st_repo_of (bump_instance_id s) !! u) as [i|]; [|exact I].
  destruct (st_repos (bump_instance_id s) !! i) as [r|] eqn:Hr; [|exact I].
  destruct (in_list name (r_data r)); [exact I|]. simpl. now apply inv_upd_data with r.
Qed.

Lemma inv_rename_data s u o n p : RepoInv s -> RepoInv (fst (do_rename_data s u o n p)).
Proof.
  intros I. unfold do_rename_data.
  destruct (st_repo_of s !! u) as [i|]; [|exact I].
  destruct (st_repos s !! i) as [r|] eqn:Hr; [|exact I].
  repeat (match goal with |- context [if ?b then _ else _] => destruct b end; try exact I).
  simpl. now apply inv_upd_data with r.
Qed.

Lemma inv_delete_data s u n p : RepoInv s -> RepoInv (fst (do_delete_data s u n p)).
Proof.
  intros I. unfold do_delete_data.
  destruct (st_repo_of s !! u) as [i|]; [|exact I].
  destruct (st_repos s !! i) as [r|] eqn:Hr; [|exact I].
  repeat (match goal with |- context [if ?b then _ else _] => destruct b end; try exact I).
  simpl. now apply inv_upd_data with r.
Qed.

(* ------------------------------------------------------------------ adding one node *)
(* newVersion and merge: one new node, with the next version id and a UUID not in use, joins repo i;
   the old nodes keep their UUIDs.  Everything but the head-cache clause follows. *)

Definition uuids_kept (cv : N) (m m' : gmap N node) : Prop :=
  forall v, v <> cv -> option_Forall2 (fun n n' => n_uuid n' = n_uuid n) (m !! v) (m' !! v).

Lemma inv_add_node s s' i R r r' cu child :
  RepoInv s -> st_roots s !! i = Some R -> st_repos s !! i = Some r ->
  st_u2v s !! cu = None -> cu <> "" ->
  st_repos s' = <[i := r']> (st_repos s) -> st_repo_of s' = <[cu := i]> (st_repo_of s) ->
  st_roots s' = st_roots s -> st_u2v s' = <[cu := st_next_v s]> (st_u2v s) ->
  st_v2u s' = <[st_next_v s := cu]> (st_v2u s) ->
  st_next_v s' = (st_next_v s + 1)%N -> st_next_r s' = st_next_r s ->
  r_root r' = r_root r -> repo_wf r' ->
  r_nodes r' !! st_next_v s = Some child -> n_uuid child = cu ->
  uuids_kept (st_next_v s) (r_nodes r) (r_nodes r') ->
  (forall j Rj rj v n, st_roots s' !! j = Some Rj -> st_repos s' !! j = Some rj ->
      r_nodes rj !! v = Some n -> branch_newest rj v n ->
      st_heads s' !! head_key (r_root rj) (n_branch n) = Some (n_uuid n)) ->
  RepoInv s'.
Proof.
  intros I HR Hr Hcu Hne E1 E2 E3 E4 E5 E6 E7 ER W Hchild Uchild K Hheads.
  set (cv := st_next_v s) in *.
  assert (Hfresh : st_v2u s !! cv = None).
  { destruct (st_v2u s !! cv) as [u|] eqn:E; auto. apply (inv_next_v s I) in E. unfold cv in E. lia. }
  assert (Hlk : forall j rj, st_repos s' !! j = Some rj ->
            (j = i /\ rj = r') \/ (j <> i /\ st_repos s !! j = Some rj)).
  { intros j rj. rewrite E1. destruct (decide (j = i)) as [->|Ne].
    - rewrite lookup_insert. intros [= <-]. auto.
    - rewrite lookup_insert_ne by auto. auto. }
  assert (Hold : forall j Rj rj v n, st_roots s !! j = Some Rj -> st_repos s !! j = Some rj ->
            r_nodes rj !! v = Some n -> v <> cv /\ n_uuid n <> cu).
  { intros j Rj rj v n H1 H2 H3. destruct (inv_nodes s I j Rj rj v n H1 H2 H3) as [Hv _].
    split; [intros ->; congruence|]. intros Eu. apply (inv_bij s I) in Hv. congruence. }
  constructor.
  - intros j Rj HRj. rewrite E3 in HRj. rewrite E1. destruct (decide (j = i)) as [->|Ne].
    + rewrite lookup_insert. exists r'. split; auto. split; auto.
      destruct (inv_root_eq s i R r I HR Hr) as [ERr _]. congruence.
    + rewrite lookup_insert_ne by auto. apply (inv_live s I j Rj HRj).
  - intros u v. rewrite E4, E5. rewrite !lookup_insert_Some. split.
    + intros [[<- <-]|[Ne Hu]]; [auto|]. right. pose proof (proj1 (inv_bij s I u v) Hu) as Hv.
      split; auto. intros <-. congruence.
    + intros [[<- <-]|[Ne Hv]]; [auto|]. right. pose proof (proj2 (inv_bij s I u v) Hv) as Hu.
      split; auto. intros <-. congruence.
  - intros j Rj rj v n HRj Hrj Hn. rewrite E3 in HRj. rewrite E5, E2.
    destruct (Hlk j rj Hrj) as [[-> ->]|[Ne Hrj']].
    + destruct (decide (v = cv)) as [->|Nv].
      * rewrite Hchild in Hn. injection Hn as <-. rewrite Uchild, !lookup_insert. auto.
      * specialize (K v Nv). rewrite Hn in K. inversion K as [n0 n' Eu E0 E'|]; subst.
        symmetry in E0. rewrite HR in HRj. injection HRj as <-.
        destruct (Hold i R r v n0 HR Hr E0) as [_ Nu].
        destruct (inv_nodes s I i R r v n0 HR Hr E0) as [A B].
        rewrite Eu. rewrite !lookup_insert_ne by auto. auto.
    + destruct (Hold j Rj rj v n HRj Hrj' Hn) as [Nv Nu].
      rewrite !lookup_insert_ne by auto. apply (inv_nodes s I j Rj rj v n HRj Hrj' Hn).
  - intros u j Hj. rewrite E2 in Hj. rewrite E3, E4, E1. apply lookup_insert_Some in Hj as [[<- <-]|[Ne Hj]].
    + exists R, r', cv, child. rewrite !lookup_insert. auto.
    + destruct (inv_repo_of s I u j Hj) as (Rj & rj & v & n & HRj & Hrj & Hu & Hn).
      destruct (Hold j Rj rj v n HRj Hrj Hn) as [Nv _].
      destruct (decide (j = i)) as [->|Nj].
      * rewrite Hr in Hrj. injection Hrj as <-. specialize (K v Nv). rewrite Hn in K.
        inversion K as [n0 n' Eu E0 E'|]; subst. symmetry in E'.
        exists Rj, r', v, n'. rewrite lookup_insert, lookup_insert_ne by auto. auto.
      * exists Rj, rj, v, n. rewrite !lookup_insert_ne by auto. auto.
  - intros v u. rewrite E5, E2. intros H. apply lookup_insert_Some in H as [[<- <-]|[Ne H]].
    + rewrite lookup_insert. eauto.
    + destruct (inv_mapped s I v u H) as [j Hj]. destruct (decide (u = cu)) as [->|Nu].
      * rewrite lookup_insert. eauto.
      * rewrite lookup_insert_ne by auto. eauto.
  - intros v u. rewrite E5, E6. intros H. apply lookup_insert_Some in H as [[<- <-]|[Ne H]]; [fold cv; lia|].
    apply (inv_next_v s I) in H. fold cv in H |- *. lia.
  - intros j rj Hrj. rewrite E7. destruct (Hlk j rj Hrj) as [[-> ->]|[Ne Hrj']].
    + apply (inv_next_r s I i r Hr).
    + apply (inv_next_r s I j rj Hrj').
  - rewrite E4. rewrite lookup_insert_ne by auto. apply (inv_nil s I).
  - exact Hheads.
Qed.

(* ------------------------------------------------------------------ newVersion: the repo *)
Section NewVersionRepo.
Variables (r : repo) (v cv : N) (n : node) (cu b : string).
Hypothesis W : repo_wf r.
Hypothesis Hn : r_nodes r !! v = Some n.
Hypothesis Hlocked : n_locked n = true.
Hypothesis Hlt : forall w x, r_nodes r !! w = Some x -> (w < cv)%N.
Hypothesis Hsis : forall c cn, c ∈ n_children n -> r_nodes r !! c = Some cn -> n_branch cn <> b.
Hypothesis Hbm : b <> s_master_label.
Hypothesis Hcase : b = n_branch n \/ forall w x, r_nodes r !! w = Some x -> n_branch x <> b.

Let child := mkNode cu [v] [] b false.
Let nodes' := <[cv := child]> (alter (add_child cv) v (r_nodes r)).
Let r' := upd_nodes (fun m => <[cv := child]> (alter (add_child cv) v m)) r.

Lemma nv_v_ne_cv : v <> cv.
Proof. intros ->. apply Hlt in Hn. lia. Qed.

Lemma nv_child : nodes' !! cv = Some child.
Proof. unfold nodes'. now rewrite lookup_insert. Qed.

Lemma nv_parent : nodes' !! v = Some (add_child cv n).
Proof. unfold nodes'. rewrite lookup_insert_ne by (apply not_eq_sym, nv_v_ne_cv). now rewrite lookup_alter, Hn. Qed.

Lemma nv_other w : w <> cv -> w <> v -> nodes' !! w = r_nodes r !! w.
Proof. intros A B. unfold nodes'. now rewrite lookup_insert_ne, lookup_alter_ne by auto. Qed.

(* every node of the new map but the child is an old node, with at most cv added to its children *)
Lemma nv_old w x : nodes' !! w = Some x -> w <> cv ->
  exists x0, r_nodes r !! w = Some x0 /\ n_uuid x = n_uuid x0 /\ n_parents x = n_parents x0 /\
             n_branch x = n_branch x0 /\ n_locked x = n_locked x0 /\
             ((w <> v /\ x = x0) \/ (w = v /\ x0 = n /\ n_children x = (n_children x0 ++ [cv])%list)).
Proof.
  intros H Ne. destruct (decide (w = v)) as [->|Nv].
  - rewrite nv_parent in H. injection H as <-. exists n. simpl. repeat split; auto.
  - rewrite nv_other in H by auto. exists x. repeat split; auto.
Qed.

Lemma nv_fwd w x0 : r_nodes r !! w = Some x0 ->
  exists x, nodes' !! w = Some x /\ n_uuid x = n_uuid x0 /\ n_parents x = n_parents x0 /\
            n_branch x = n_branch x0 /\ n_locked x = n_locked x0 /\
            (forall c, c ∈ n_children x0 -> c ∈ n_children x).
Proof.
  intros H. pose proof (Hlt _ _ H) as L. assert (w <> cv) by lia.
  destruct (decide (w = v)) as [->|Nv].
  - rewrite Hn in H. injection H as <-. exists (add_child cv n). rewrite nv_parent. simpl.
    repeat split; auto. intros c Hc. apply elem_of_app. auto.
  - exists x0. rewrite nv_other by auto. repeat split; auto.
Qed.

Lemma nv_child_not_old c x : r_nodes r !! c = Some x -> c <> cv.
Proof. intros H ->. apply Hlt in H. lia. Qed.

Lemma wf_new_version : repo_wf r'.
Proof.
  pose proof nv_v_ne_cv as Nvc.
  constructor; unfold r'; simpl; fold nodes'.
  - destruct (wf_root r W) as (n0 & H0 & U0 & P0).
    destruct (nv_fwd _ _ H0) as (x & Hx & A & B & _). exists x. repeat split; congruence.
  - intros w x Hx P. destruct (decide (w = cv)) as [->|Ne].
    + rewrite nv_child in Hx. injection Hx as <-. discriminate P.
    + destruct (nv_old w x Hx Ne) as (x0 & H0 & _ & B & _). apply (wf_single_root r W w x0 H0). congruence.
  - intros w x p Hx Hp. destruct (decide (w = cv)) as [->|Ne].
    + rewrite nv_child in Hx. injection Hx as <-. simpl in Hp. apply elem_of_list_singleton in Hp as ->.
      split; [apply (Hlt _ _ Hn)|]. exists (add_child cv n). rewrite nv_parent. simpl.
      repeat split; auto. apply elem_of_app. right. now apply elem_of_list_singleton.
    + destruct (nv_old w x Hx Ne) as (x0 & H0 & _ & B & _). rewrite B in Hp.
      destruct (wf_parents r W w x0 p H0 Hp) as (Lt & pn & Hpn & Lk & Ch). split; auto.
      destruct (nv_fwd _ _ Hpn) as (pn' & Hpn' & _ & _ & _ & L' & C'). exists pn'. rewrite L'. auto.
  - intros w x c Hx Hc. destruct (decide (w = cv)) as [->|Ne].
    + rewrite nv_child in Hx. injection Hx as <-. simpl in Hc. inversion Hc.
    + destruct (nv_old w x Hx Ne) as (x0 & H0 & _ & _ & _ & _ & [[Nv ->]|(-> & -> & Ec)]).
      * destruct (wf_children r W w x0 c H0 Hc) as (cn & Hcn & Pc).
        destruct (nv_fwd _ _ Hcn) as (cn' & Hcn' & _ & B' & _). exists cn'. rewrite B'. auto.
      * rewrite Ec in Hc. apply elem_of_app in Hc as [Hc|Hc].
        -- destruct (wf_children r W v n c Hn Hc) as (cn & Hcn & Pc).
           destruct (nv_fwd _ _ Hcn) as (cn' & Hcn' & _ & B' & _). exists cn'. rewrite B'. auto.
        -- apply elem_of_list_singleton in Hc as ->. exists child. rewrite nv_child. split; auto.
           simpl. now apply elem_of_list_singleton.
  - intros w x Hx. destruct (decide (w = cv)) as [->|Ne].
    + rewrite nv_child in Hx. injection Hx as <-. simpl. split; [apply NoDup_singleton|apply NoDup_nil_2].
    + destruct (nv_old w x Hx Ne) as (x0 & H0 & _ & B & _ & _ & [[Nv ->]|(-> & -> & Ec)]).
      * apply (wf_nodup r W w x0 H0).
      * destruct (wf_nodup r W v n Hn) as [ND1 ND2]. rewrite B, Ec. split; auto.
        apply NoDup_app. repeat split; auto; [|apply NoDup_singleton].
        intros c Hc Hc'. apply elem_of_list_singleton in Hc' as ->.
        destruct (wf_children r W v n cv Hn Hc) as (cn & Hcn & _). now apply nv_child_not_old in Hcn.
  - intros w x Hx Hb. destruct (decide (w = cv)) as [->|Ne].
    + rewrite nv_child in Hx. injection Hx as <-. simpl. eauto.
    + destruct (nv_old w x Hx Ne) as (x0 & H0 & _ & B & C & _). rewrite B.
      apply (wf_named_one_parent r W w x0 H0). congruence.
  - intros w x c1 c2 n1 n2 Hx Hc1 Hc2 H1 H2 P1 P2 Eb.
    destruct (decide (w = cv)) as [->|Ne].
    { rewrite nv_child in Hx. injection Hx as <-. simpl in Hc1. inversion Hc1. }
    (* a child of an old node that is itself old, seen through the old map *)
    assert (Hback : forall c nc, nodes' !! c = Some nc -> c <> cv ->
              exists nc0, r_nodes r !! c = Some nc0 /\ n_parents nc0 = n_parents nc /\ n_branch nc0 = n_branch nc).
    { intros c nc Hc Nc. destruct (nv_old c nc Hc Nc) as (nc0 & A & _ & B & C & _). exists nc0. auto. }
    destruct (nv_old w x Hx Ne) as (x0 & H0 & _ & _ & _ & _ & [[Nv ->]|(-> & -> & Ec)]).
    + assert (N1 : c1 <> cv).
      { destruct (wf_children r W w x0 c1 H0 Hc1) as (cn & Hcn & _). now apply nv_child_not_old in Hcn. }
      assert (N2 : c2 <> cv).
      { destruct (wf_children r W w x0 c2 H0 Hc2) as (cn & Hcn & _). now apply nv_child_not_old in Hcn. }
      destruct (Hback c1 n1 H1 N1) as (m1 & A1 & B1 & C1). destruct (Hback c2 n2 H2 N2) as (m2 & A2 & B2 & C2).
      apply (wf_linear r W w x0 c1 c2 m1 m2 H0 Hc1 Hc2 A1 A2); congruence.
    + rewrite Ec in Hc1, Hc2. apply elem_of_app in Hc1 as [Hc1|Hc1]; apply elem_of_app in Hc2 as [Hc2|Hc2].
      * assert (N1 : c1 <> cv).
        { destruct (wf_children r W v n c1 Hn Hc1) as (cn & Hcn & _). now apply nv_child_not_old in Hcn. }
        assert (N2 : c2 <> cv).
        { destruct (wf_children r W v n c2 Hn Hc2) as (cn & Hcn & _). now apply nv_child_not_old in Hcn. }
        destruct (Hback c1 n1 H1 N1) as (m1 & A1 & B1 & C1). destruct (Hback c2 n2 H2 N2) as (m2 & A2 & B2 & C2).
        apply (wf_linear r W v n c1 c2 m1 m2 Hn Hc1 Hc2 A1 A2); congruence.
      * apply elem_of_list_singleton in Hc2 as ->. rewrite nv_child in H2. injection H2 as <-. simpl in Eb.
        assert (N1 : c1 <> cv).
        { destruct (wf_children r W v n c1 Hn Hc1) as (cn & Hcn & _). now apply nv_child_not_old in Hcn. }
        destruct (Hback c1 n1 H1 N1) as (m1 & A1 & B1 & C1). exfalso. apply (Hsis c1 m1 Hc1 A1). congruence.
      * apply elem_of_list_singleton in Hc1 as ->. rewrite nv_child in H1. injection H1 as <-. simpl in Eb.
        assert (N2 : c2 <> cv).
        { destruct (wf_children r W v n c2 Hn Hc2) as (cn & Hcn & _). now apply nv_child_not_old in Hcn. }
        destruct (Hback c2 n2 H2 N2) as (m2 & A2 & B2 & C2). exfalso. apply (Hsis c2 m2 Hc2 A2). congruence.
      * apply elem_of_list_singleton in Hc1 as ->. apply elem_of_list_singleton in Hc2 as ->. reflexivity.
  - intros w x Hx Hb L. unfold branch_newest. simpl. fold nodes'. intros w' m Hm Eb.
    destruct (decide (w = cv)) as [->|Ne].
    + destruct (decide (w' = cv)) as [->|Ne']; [lia|].
      destruct (nv_old w' m Hm Ne') as (m0 & H0 & _). pose proof (Hlt _ _ H0). lia.
    + destruct (nv_old w x Hx Ne) as (x0 & H0 & _ & _ & EB & _ & Hch).
      assert (L0 : branch_leaf r x0).
      { intros c cn Hc Hcn. destruct (nv_fwd c cn Hcn) as (cn' & Hcn' & _ & _ & EB' & _).
        rewrite <- EB, <- EB'. apply (L c cn'); auto.
        destruct Hch as [[_ ->]|(_ & _ & ->)]; auto. apply elem_of_app. auto. }
      destruct (decide (w' = cv)) as [->|Ne'].
      * rewrite nv_child in Hm. injection Hm as <-. simpl in Eb. exfalso.
        destruct Hch as [[Nv ->]|(-> & -> & Ech)].
        -- destruct Hcase as [Eq|Hnone]; [|apply (Hnone w x0 H0); congruence].
           assert (Ln : branch_leaf r n) by (intros c cn Hc Hcn; rewrite <- Eq; now apply (Hsis c cn)).
           assert (Hbn : n_branch n <> "") by congruence.
           assert (E1 : n_branch x0 = n_branch n) by congruence.
           pose proof (wf_leaf_newest r W v n Hn Hbn Ln w x0 H0 E1) as Le1.
           assert (Hbx : n_branch x0 <> "") by congruence.
           pose proof (wf_leaf_newest r W w x0 H0 Hbx L0 v n Hn (eq_sym E1)) as Le2.
           apply Nv. lia.
        -- apply (L cv child); [rewrite Ech; apply elem_of_app; right; now apply elem_of_list_singleton|apply nv_child|].
           simpl. congruence.
      * destruct (nv_old w' m Hm Ne') as (m0 & Hm0 & _ & _ & EBm & _).
        refine (wf_leaf_newest r W w x0 H0 _ L0 w' m0 Hm0 _); congruence.
  - intros w x Hx. destruct (decide (w = cv)) as [->|Ne].
    + rewrite nv_child in Hx. injection Hx as <-. exact Hbm.
    + destruct (nv_old w x Hx Ne) as (x0 & H0 & _ & _ & C & _). rewrite C. apply (wf_no_master r W w x0 H0).
  - apply (wf_root_len r W).
Qed.

Lemma nv_uuids_kept : uuids_kept cv (r_nodes r) (r_nodes r').
Proof.
  intros w Ne. unfold r'; simpl; fold nodes'. destruct (decide (w = v)) as [->|Nv].
  - rewrite nv_parent, Hn. constructor. reflexivity.
  - rewrite nv_other by auto. destruct (r_nodes r !! w); constructor. reflexivity.
Qed.

End NewVersionRepo.

Lemma lookup_all_elem (m : gmap N node) vs l c cn :
  lookup_all m vs = Some l -> c ∈ vs -> m !! c = Some cn -> cn ∈ l.
Proof.
  revert l. induction vs as [|a vs IH]; intros l H Hc Hm; [inversion Hc|].
  simpl in H. destruct (m !! a) as [na|] eqn:Ea; [|discriminate].
  destruct (lookup_all m vs) as [l'|]; [|discriminate]. injection H as <-.
  apply elem_of_cons in Hc as [->|Hc].
  - rewrite Ea in Hm. injection Hm as ->. apply elem_of_cons. auto.
  - apply elem_of_cons. right. eapply IH; eauto.
Qed.

Lemma existsb_false_elem {A} (f : A -> bool) l x : existsb f l = false -> x ∈ l -> f x = false.
Proof.
  induction l as [|a l IH]; intros H Hx; [inversion Hx|]. simpl in H. apply orb_false_iff in H as [H1 H2].
  apply elem_of_cons in Hx as [->|Hx]; auto.
Qed.

(* ------------------------------------------------------------------ refreshing the head cache *)

Lemma recache_hit s i r : st_repos s !! i = Some r -> recache s i = cache_heads s r.
Proof. unfold recache. now intros ->. Qed.

Lemma recache_u2v s i : st_u2v (recache s i) = st_u2v s.
Proof. unfold recache. destruct (st_repos s !! i); reflexivity. Qed.
Lemma recache_v2u s i : st_v2u (recache s i) = st_v2u s.
Proof. unfold recache. destruct (st_repos s !! i); reflexivity. Qed.
Lemma recache_repos s i : st_repos (recache s i) = st_repos s.
Proof. unfold recache. destruct (st_repos s !! i); reflexivity. Qed.
Lemma recache_repo_of s i : st_repo_of (recache s i) = st_repo_of s.
Proof. unfold recache. destruct (st_repos s !! i); reflexivity. Qed.
Lemma recache_roots s i : st_roots (recache s i) = st_roots s.
Proof. unfold recache. destruct (st_repos s !! i); reflexivity. Qed.
Lemma recache_next_v s i : st_next_v (recache s i) = st_next_v s.
Proof. unfold recache. destruct (st_repos s !! i); reflexivity. Qed.

(* after the DAG of repo i changed into r' and its heads were cached again, the cache is right for
   every repo *)
Lemma heads_after_recache s s3 i R r r' :
  RepoInv s -> st_roots s !! i = Some R -> st_repos s !! i = Some r ->
  st_repos s3 = <[i := r']> (st_repos s) -> st_roots s3 = st_roots s -> st_heads s3 = st_heads s ->
  r_root r' = r_root r -> repo_wf r' ->
  forall j Rj rj v n, st_roots s3 !! j = Some Rj -> st_repos s3 !! j = Some rj ->
    r_nodes rj !! v = Some n -> branch_newest rj v n ->
    st_heads (cache_heads s3 r') !! head_key (r_root rj) (n_branch n) = Some (n_uuid n).
Proof.
  intros I HR Hr E1 E3 E6 ER W' j Rj rj v n HRj Hrj Hn Hmax.
  rewrite E3 in HRj. rewrite E1 in Hrj. destruct (decide (j = i)) as [->|Nj].
  - rewrite lookup_insert in Hrj. injection Hrj as <-.
    apply (cache_heads_own s3 r' v n); auto. intros w m Hm. apply (wf_no_master r' W' w m Hm).
  - rewrite lookup_insert_ne in Hrj by auto.
    destruct (inv_root_eq s i R r I HR Hr) as [ERr W]. destruct (inv_root_eq s j Rj rj I HRj Hrj) as [ERj Wj].
    rewrite cache_heads_other.
    + rewrite E6. apply (inv_head_newest s I j Rj rj v n HRj Hrj Hn Hmax).
    + destruct (String.prefix (r_root r') (head_key (r_root rj) (n_branch n))) eqn:Hp; auto.
      exfalso. apply Nj. apply (inv_roots_inj s j i Rj I HRj). rewrite <- ERj.
      unfold head_key in Hp. apply prefix_same_length in Hp.
      * congruence.
      * rewrite ER. rewrite (wf_root_len r W), (wf_root_len rj Wj). reflexivity.
Qed.

(* ------------------------------------------------------------------ newVersion: the state *)

Lemma inv_new_version_core s i R r v n cu b :
  RepoInv s -> st_roots s !! i = Some R -> st_repos s !! i = Some r -> r_nodes r !! v = Some n ->
  n_locked n = true -> st_u2v s !! cu = None -> cu <> "" -> b <> s_master_label ->
  (forall c cn, c ∈ n_children n -> r_nodes r !! c = Some cn -> n_branch cn <> b) ->
  (b = n_branch n \/ forall w x, r_nodes r !! w = Some x -> n_branch x <> b) ->
  RepoInv (recache (upd_repo (set_repo_of (fst (new_uuid s cu)) cu i) i
             (upd_nodes (fun m => <[st_next_v s := mkNode cu [v] [] b false]> (alter (add_child (st_next_v s)) v m)))) i).
Proof.
  intros I HR Hr Hn Hlk Hcu Hne Hbm Hsis Hcase.
  destruct (inv_root_eq s i R r I HR Hr) as [ER W].
  set (cv := st_next_v s). set (child := mkNode cu [v] [] b false).
  set (r' := upd_nodes (fun m => <[cv := child]> (alter (add_child cv) v m)) r).
  assert (Hlt : forall w x, r_nodes r !! w = Some x -> (w < cv)%N).
  { intros w x Hx. destruct (inv_nodes s I i R r w x HR Hr Hx) as [Hv _]. apply (inv_next_v s I w _ Hv). }
  pose proof (wf_new_version r v cv n cu b W Hn Hlk Hlt Hsis Hbm Hcase) as W'. fold child in W'. fold r' in W'.
  set (s3 := upd_repo (set_repo_of (fst (new_uuid s cu)) cu i) i
               (upd_nodes (fun m => <[cv := child]> (alter (add_child cv) v m)))).
  assert (E1 : st_repos s3 = <[i := r']> (st_repos s)) by (simpl; now apply alter_as_insert).
  assert (H3 : st_repos s3 !! i = Some r') by (rewrite E1; apply lookup_insert).
  rewrite (recache_hit s3 i r' H3).
  eapply (inv_add_node s _ i R r r' cu child); eauto; simpl; fold cv.
  - unfold r'. simpl. now rewrite lookup_insert.
  - apply (nv_uuids_kept r v cv n cu b Hn Hlt).
  - intros j Rj rj w x HRj Hrj Hx Hmax.
    apply (heads_after_recache s s3 i R r r' I HR Hr E1 eq_refl eq_refl eq_refl W' j Rj rj w x HRj Hrj Hx Hmax).
Qed.

Lemma inv_new_version s parent bname assign fresh :
  RepoInv s -> bname <> s_master_label ->
  (assign = None -> fresh <> "" /\ st_u2v s !! fresh = None) ->
  RepoInv (fst (do_new_version repaired s parent bname assign fresh)).
Proof.
  intros I Hbm Hfresh. unfold do_new_version.
  destruct (find_node s parent) as [[[[i r] v] n]|] eqn:F; [|exact I].
  destruct (find_node_live s parent i r v n I F) as (R & HR & Un).
  apply find_node_spec in F as (Hu & Hi & Hr & Hn).
  destruct (inv_root_eq s i R r I HR Hr) as [ER W].
  destruct (n_locked n) eqn:Hlk; [|exact I]. simpl negb. cbv iota.
  set (br := if String.eqb bname "" || String.eqb bname (n_branch n) then _ else _).
  destruct br as [b|] eqn:Eb; [|exact I]. subst br.
  simpl fx_assign_check. cbv iota. rewrite andb_true_l.
  destruct (assign_refused s assign) eqn:Ea; [exact I|].
  (* the UUID of the child is not in use and not empty *)
  assert (Hcu : st_u2v s !! (match assign with Some a => a | None => fresh end) = None /\
                (match assign with Some a => a | None => fresh end) <> "").
  { destruct assign as [a|]; simpl in Ea.
    - apply orb_false_iff in Ea as [E1 E2]. apply eqb_false_ne in E1.
      apply bool_decide_eq_false in E2. split; auto.
      destruct (st_u2v s !! a); auto. exfalso. apply E2. eauto.
    - destruct (Hfresh eq_refl). auto. }
  destruct Hcu as [Hcu Hne].
  unfold new_uuid. simpl.
  (* what the branch computation guarantees *)
  assert (Hb : b <> s_master_label /\
               (forall c cn, c ∈ n_children n -> r_nodes r !! c = Some cn -> n_branch cn <> b) /\
               (b = n_branch n \/ forall w x, r_nodes r !! w = Some x -> n_branch x <> b)).
  { destruct (String.eqb bname "" || String.eqb bname (n_branch n)) eqn:Ec.
    - destruct (lookup_all (r_nodes r) (n_children n)) as [sis|] eqn:Es; [|discriminate].
      destruct (existsb _ sis) eqn:Ex; [discriminate|]. injection Eb as <-.
      split; [apply (wf_no_master r W v n Hn)|]. split; auto.
      intros c cn Hc Hcn. pose proof (lookup_all_elem _ _ _ _ _ Es Hc Hcn) as Hin.
      pose proof (existsb_false_elem _ _ _ Ex Hin) as Hf. simpl in Hf. now apply eqb_false_ne in Hf.
    - destruct (existsb _ (nodes_list r)) eqn:Ex; [discriminate|]. injection Eb as <-.
      assert (Hall : forall w x, r_nodes r !! w = Some x -> n_branch x <> bname).
      { intros w x Hx. assert (Hin : (w, x) ∈ nodes_list r) by now apply elem_of_map_to_list.
        pose proof (existsb_false_elem _ _ _ Ex Hin) as Hf. simpl in Hf. now apply eqb_false_ne in Hf. }
      split; auto. split; eauto. }
  destruct Hb as (Hb1 & Hb2 & Hb3).
  apply (inv_new_version_core s i R r v n _ b I HR Hr Hn Hlk Hcu Hne Hb1 Hb2 Hb3).
Qed.

Lemma new_version_frame fx s parent bname assign fresh :
  is_done (snd (do_new_version fx s parent bname assign fresh)) = false ->
  fst (do_new_version fx s parent bname assign fresh) = s.
Proof.
  unfold do_new_version. destruct (find_node s parent) as [[[[i r] v] n]|]; auto.
  destruct (negb (n_locked n)); auto.
  match goal with |- context [match ?x with Some _ => _ | None => (s, Fail) end] => destruct x end; auto.
  destruct (fx_assign_check fx && assign_refused s assign); auto.
  unfold new_uuid. simpl. discriminate.
Qed.

(* ------------------------------------------------------------------ merge: the repo *)

Lemma link_notin cv vs (m : gmap N node) w : w ∉ vs -> link_children cv vs m !! w = m !! w.
Proof.
  unfold link_children. revert m. induction vs as [|a vs IH]; intros m H; simpl; auto.
  apply not_elem_of_cons in H as [Na H]. rewrite IH by auto. now rewrite lookup_alter_ne by auto.
Qed.

Lemma link_in cv vs (m : gmap N node) w : NoDup vs -> w ∈ vs ->
  link_children cv vs m !! w = add_child cv <$> m !! w.
Proof.
  unfold link_children. revert m. induction vs as [|a vs IH]; intros m ND H; simpl; [inversion H|].
  apply NoDup_cons in ND as [Na ND]. apply elem_of_cons in H as [->|H].
  - fold (link_children cv vs (alter (add_child cv) a m)). rewrite link_notin by auto. now rewrite lookup_alter.
  - rewrite IH by auto. rewrite lookup_alter_ne; auto. intros ->. contradiction.
Qed.

Lemma validate_parents_spec s r ps vs : validate_parents s r ps = Some vs ->
  length vs = length ps /\
  Forall2 (fun p v => st_u2v s !! p = Some v /\ exists n, r_nodes r !! v = Some n /\ n_locked n = true) ps vs.
Proof.
  revert vs. induction ps as [|p ps IH]; intros vs H; simpl in H.
  - injection H as <-. split; [reflexivity|constructor].
  - destruct (st_u2v s !! p) as [v|] eqn:Eu; [|discriminate].
    destruct (r_nodes r !! v) as [n|] eqn:En; [|discriminate].
    destruct (n_locked n) eqn:El; [|discriminate].
    destruct (validate_parents s r ps) as [vs'|]; [|discriminate]. injection H as <-.
    destruct (IH vs' eq_refl) as [L F]. split; [simpl; congruence|]. constructor; eauto.
Qed.

Section MergeRepo.
Variables (r : repo) (cv : N) (vs : list N) (cu : string).
Hypothesis W : repo_wf r.
Hypothesis Hlt : forall w x, r_nodes r !! w = Some x -> (w < cv)%N.
Hypothesis Hvs : forall v, v ∈ vs -> exists n, r_nodes r !! v = Some n /\ n_locked n = true.
Hypothesis Hnd : NoDup vs.
Hypothesis Hlen : (2 <= length vs)%nat.

Let child := mkNode cu vs [] "" false.
Let nodes' := link_children cv vs (<[cv := child]> (r_nodes r)).
Let r' := upd_nodes (fun m => link_children cv vs (<[cv := child]> m)) r.

Lemma mg_cv_notin : cv ∉ vs.
Proof using All. intros H. destruct (Hvs cv H) as (n & Hn & _). apply Hlt in Hn. lia. Qed.

Lemma mg_child : nodes' !! cv = Some child.
Proof using All. unfold nodes'. rewrite link_notin by apply mg_cv_notin. now rewrite lookup_insert. Qed.

Lemma mg_old w x : nodes' !! w = Some x -> w <> cv ->
  exists x0, r_nodes r !! w = Some x0 /\ n_uuid x = n_uuid x0 /\ n_parents x = n_parents x0 /\
             n_branch x = n_branch x0 /\ n_locked x = n_locked x0 /\
             ((w ∉ vs /\ x = x0) \/ (w ∈ vs /\ n_children x = (n_children x0 ++ [cv])%list)).
Proof using All.
  intros H Ne. unfold nodes' in H. destruct (decide (w ∈ vs)) as [Hin|Hout].
  - rewrite link_in, lookup_insert_ne in H by auto. destruct (r_nodes r !! w) as [x0|]; [|discriminate].
    injection H as <-. exists x0. simpl. repeat split; auto.
  - rewrite link_notin, lookup_insert_ne in H by auto. exists x. repeat split; auto.
Qed.

Lemma mg_fwd w x0 : r_nodes r !! w = Some x0 ->
  exists x, nodes' !! w = Some x /\ n_uuid x = n_uuid x0 /\ n_parents x = n_parents x0 /\
            n_branch x = n_branch x0 /\ n_locked x = n_locked x0 /\
            (forall c, c ∈ n_children x0 -> c ∈ n_children x) /\ (w ∈ vs -> cv ∈ n_children x).
Proof using All.
  intros H. pose proof (Hlt _ _ H) as L. assert (Ne : w <> cv) by lia.
  unfold nodes'. destruct (decide (w ∈ vs)) as [Hin|Hout].
  - rewrite link_in, lookup_insert_ne, H by auto. simpl. exists (add_child cv x0). simpl.
    repeat split; auto; intros; apply elem_of_app; auto. right. now apply elem_of_list_singleton.
  - rewrite link_notin, lookup_insert_ne, H by auto. exists x0. repeat split; auto. contradiction.
Qed.

Lemma mg_key_ne c x : r_nodes r !! c = Some x -> c <> cv.
Proof using All. intros H ->. apply Hlt in H. lia. Qed.

Lemma wf_merge : repo_wf r'.
Proof using All.
  pose proof mg_cv_notin as Ncv.
  assert (Hvs_ne : vs <> []) by (destruct vs; simpl in Hlen; [lia|discriminate]).
  constructor; unfold r'; simpl; fold nodes'.
  - destruct (wf_root r W) as (n0 & H0 & U0 & P0).
    destruct (mg_fwd _ _ H0) as (x & Hx & A & B & _). exists x. repeat split; congruence.
  - intros w x Hx P. destruct (decide (w = cv)) as [->|Ne].
    + rewrite mg_child in Hx. injection Hx as <-. simpl in P. contradiction.
    + destruct (mg_old w x Hx Ne) as (x0 & H0 & _ & B & _). apply (wf_single_root r W w x0 H0). congruence.
  - intros w x p Hx Hp. destruct (decide (w = cv)) as [->|Ne].
    + rewrite mg_child in Hx. injection Hx as <-. simpl in Hp.
      destruct (Hvs p Hp) as (pn & Hpn & Lk). split; [apply (Hlt _ _ Hpn)|].
      destruct (mg_fwd _ _ Hpn) as (pn' & Hpn' & _ & _ & _ & L' & _ & C'). exists pn'. rewrite L'. auto.
    + destruct (mg_old w x Hx Ne) as (x0 & H0 & _ & B & _). rewrite B in Hp.
      destruct (wf_parents r W w x0 p H0 Hp) as (Lt & pn & Hpn & Lk & Ch). split; auto.
      destruct (mg_fwd _ _ Hpn) as (pn' & Hpn' & _ & _ & _ & L' & C' & _). exists pn'. rewrite L'. auto.
  - intros w x c Hx Hc. destruct (decide (w = cv)) as [->|Ne].
    + rewrite mg_child in Hx. injection Hx as <-. simpl in Hc. inversion Hc.
    + destruct (mg_old w x Hx Ne) as (x0 & H0 & _ & _ & _ & _ & [[Nv ->]|(Hin & Ec)]).
      * destruct (wf_children r W w x0 c H0 Hc) as (cn & Hcn & Pc).
        destruct (mg_fwd _ _ Hcn) as (cn' & Hcn' & _ & B' & _). exists cn'. rewrite B'. auto.
      * rewrite Ec in Hc. apply elem_of_app in Hc as [Hc|Hc].
        -- destruct (wf_children r W w x0 c H0 Hc) as (cn & Hcn & Pc).
           destruct (mg_fwd _ _ Hcn) as (cn' & Hcn' & _ & B' & _). exists cn'. rewrite B'. auto.
        -- apply elem_of_list_singleton in Hc as ->. exists child. rewrite mg_child. auto.
  - intros w x Hx. destruct (decide (w = cv)) as [->|Ne].
    + rewrite mg_child in Hx. injection Hx as <-. simpl. split; [exact Hnd|apply NoDup_nil_2].
    + destruct (mg_old w x Hx Ne) as (x0 & H0 & _ & B & _ & _ & [[Nv ->]|(Hin & Ec)]).
      * apply (wf_nodup r W w x0 H0).
      * destruct (wf_nodup r W w x0 H0) as [ND1 ND2]. rewrite B, Ec. split; auto.
        apply NoDup_app. repeat split; auto; [|apply NoDup_singleton].
        intros c Hc Hc'. apply elem_of_list_singleton in Hc' as ->.
        destruct (wf_children r W w x0 cv H0 Hc) as (cn & Hcn & _). now apply mg_key_ne in Hcn.
  - intros w x Hx Hb. destruct (decide (w = cv)) as [->|Ne].
    + rewrite mg_child in Hx. injection Hx as <-. simpl in Hb. contradiction.
    + destruct (mg_old w x Hx Ne) as (x0 & H0 & _ & B & C & _). rewrite B.
      apply (wf_named_one_parent r W w x0 H0). congruence.
  - intros w x c1 c2 n1 n2 Hx Hc1 Hc2 H1 H2 P1 P2 Eb.
    destruct (decide (w = cv)) as [->|Ne].
    { rewrite mg_child in Hx. injection Hx as <-. simpl in Hc1. inversion Hc1. }
    (* the merge child has at least two parents: it is nobody's non-merge child *)
    assert (Hnot : forall c nc, nodes' !! c = Some nc -> n_parents nc = [w] -> c <> cv).
    { intros c nc Hc P ->. rewrite mg_child in Hc. injection Hc as <-. simpl in P. rewrite P in Hlen. simpl in Hlen. lia. }
    pose proof (Hnot c1 n1 H1 P1) as N1. pose proof (Hnot c2 n2 H2 P2) as N2.
    destruct (mg_old c1 n1 H1 N1) as (m1 & A1 & _ & B1 & C1 & _).
    destruct (mg_old c2 n2 H2 N2) as (m2 & A2 & _ & B2 & C2 & _).
    destruct (mg_old w x Hx Ne) as (x0 & H0 & _ & _ & _ & _ & Hch).
    assert (Hold : forall c, c ∈ n_children x -> c <> cv -> c ∈ n_children x0).
    { intros c Hc Nc. destruct Hch as [[_ ->]|[_ Ec]]; auto. rewrite Ec in Hc.
      apply elem_of_app in Hc as [Hc|Hc]; auto. apply elem_of_list_singleton in Hc. contradiction. }
    apply (wf_linear r W w x0 c1 c2 m1 m2 H0); auto; congruence.
  - intros w x Hx Hb L. unfold branch_newest. simpl. fold nodes'. intros w' m Hm Eb.
    destruct (decide (w = cv)) as [->|Ne].
    { rewrite mg_child in Hx. injection Hx as <-. simpl in Hb. contradiction. }
    destruct (mg_old w x Hx Ne) as (x0 & H0 & _ & _ & EB & _ & Hch).
    destruct (decide (w' = cv)) as [->|Ne'].
    { rewrite mg_child in Hm. injection Hm as <-. simpl in Eb. congruence. }
    destruct (mg_old w' m Hm Ne') as (m0 & Hm0 & _ & _ & EBm & _).
    refine (wf_leaf_newest r W w x0 H0 _ _ w' m0 Hm0 _); [congruence| |congruence].
    intros c cn Hc Hcn. destruct (mg_fwd c cn Hcn) as (cn' & Hcn' & _ & _ & EB' & _).
    rewrite <- EB, <- EB'. apply (L c cn'); auto.
    destruct Hch as [[_ ->]|[_ ->]]; auto. apply elem_of_app. auto.
  - intros w x Hx. destruct (decide (w = cv)) as [->|Ne].
    + rewrite mg_child in Hx. injection Hx as <-. simpl. discriminate.
    + destruct (mg_old w x Hx Ne) as (x0 & H0 & _ & _ & C & _). rewrite C. apply (wf_no_master r W w x0 H0).
  - apply (wf_root_len r W).
Qed.

Lemma mg_uuids_kept : uuids_kept cv (r_nodes r) (r_nodes r').
Proof using All.
  intros w Ne. unfold r'; simpl; fold nodes'. destruct (r_nodes r !! w) as [x0|] eqn:E.
  - destruct (mg_fwd _ _ E) as (x & Hx & A & _). rewrite Hx. now constructor.
  - destruct (nodes' !! w) as [x|] eqn:E'; [|constructor].
    destruct (mg_old w x E' Ne) as (x0 & H0 & _). congruence.
Qed.

End MergeRepo.

Lemma Forall2_elem_r {A B} (P : A -> B -> Prop) l k y : Forall2 P l k -> y ∈ k -> exists x, x ∈ l /\ P x y.
Proof.
  induction 1 as [|a b l k Hab F IH]; intros Hy; [inversion Hy|].
  apply elem_of_cons in Hy as [->|Hy].
  - exists a. split; auto. apply elem_of_cons. auto.
  - destruct (IH Hy) as (x & Hx & Px). exists x. split; auto. apply elem_of_cons. auto.
Qed.

(* ------------------------------------------------------------------ merge: the state *)

Lemma inv_merge s ps fresh :
  RepoInv s -> fresh <> "" -> st_u2v s !! fresh = None -> RepoInv (fst (do_merge repaired s ps fresh)).
Proof.
  intros I Hne Hcu. unfold do_merge.
  destruct ps as [|p0 [|p1 rest]]; try exact I.
  destruct (st_repo_of s !! p0) as [i|] eqn:Hi; [|exact I].
  simpl fx_merge_validate. cbv iota.
  destruct (st_repos s !! i) as [r|] eqn:Hr; [|exact I].
  destruct (validate_parents s r (p0 :: p1 :: rest)) as [vs|] eqn:Ev; [|exact I].
  simpl fx_merge_distinct. rewrite andb_true_l.
  destruct (bool_decide (NoDup vs)) eqn:End; [|exact I]. simpl negb. cbv iota.
  apply bool_decide_eq_true in End.
  destruct (inv_repo_of s I p0 i Hi) as (R & r0 & v0 & n0 & HR & Hr0 & _).
  rewrite Hr in Hr0. injection Hr0 as <-.
  destruct (inv_root_eq s i R r I HR Hr) as [ER W].
  destruct (validate_parents_spec _ _ _ _ Ev) as [Hlen F2].
  assert (Hvs : forall v, v ∈ vs -> exists n, r_nodes r !! v = Some n /\ n_locked n = true).
  { intros v Hv. destruct (Forall2_elem_r _ _ _ _ F2 Hv) as (p & _ & _ & Hn). exact Hn. }
  assert (Hlt : forall w x, r_nodes r !! w = Some x -> (w < st_next_v s)%N).
  { intros w x Hx. destruct (inv_nodes s I i R r w x HR Hr Hx) as [Hv _]. apply (inv_next_v s I w _ Hv). }
  assert (Hl2 : (2 <= length vs)%nat) by (rewrite Hlen; simpl; lia).
  unfold new_uuid. simpl.
  set (cv := st_next_v s). set (child := mkNode fresh vs [] "" false).
  set (r' := upd_nodes (fun m => link_children cv vs (<[cv := child]> m)) r).
  pose proof (wf_merge r cv vs fresh W Hlt Hvs End Hl2) as W'.
  pose proof (mg_child r cv vs fresh W Hlt Hvs End Hl2) as MC.
  pose proof (mg_old r cv vs fresh W Hlt Hvs End Hl2) as MO.
  pose proof (mg_fwd r cv vs fresh W Hlt Hvs End Hl2) as MF.
  fold child in MC, MO, MF. fold child in W'. fold r' in W'.
  set (s3 := upd_repo (set_repo_of _ fresh i) i _).
  assert (E1 : st_repos s3 = <[i := r']> (st_repos s)) by (simpl; now apply alter_as_insert).
  assert (H3 : st_repos s3 !! i = Some r') by (rewrite E1; apply lookup_insert).
  rewrite (recache_hit s3 i r' H3).
  eapply (inv_add_node s _ i R r r' fresh child); eauto; simpl; fold cv.
  - apply (mg_uuids_kept r cv vs fresh W Hlt Hvs End Hl2).
  - intros j Rj rj w x HRj Hrj Hx Hmax.
    apply (heads_after_recache s s3 i R r r' I HR Hr E1 eq_refl eq_refl eq_refl W' j Rj rj w x HRj Hrj Hx Hmax).
Qed.

Lemma merge_frame s ps fresh :
  is_done (snd (do_merge repaired s ps fresh)) = false -> fst (do_merge repaired s ps fresh) = s.
Proof.
  unfold do_merge. destruct ps as [|p0 [|p1 rest]]; auto.
  destruct (st_repo_of s !! p0) as [i|]; auto. simpl fx_merge_validate. cbv iota.
  destruct (st_repos s !! i) as [r|]; auto.
  destruct (validate_parents s r (p0 :: p1 :: rest)) as [vs|]; auto.
  destruct (fx_merge_distinct repaired && negb (bool_decide (NoDup vs))); auto.
  unfold new_uuid. simpl. discriminate.
Qed.

(* ------------------------------------------------------------------ new repo *)

Lemma inv_repo_of_none s u : RepoInv s -> st_repo_of s !! u = None -> st_u2v s !! u = None.
Proof.
  intros I H. destruct (st_u2v s !! u) as [v|] eqn:E; auto.
  destruct (inv_u2v_node s u v I E) as (i & _ & _ & _ & _ & _ & Hi & _). congruence.
Qed.

Lemma wf_single u v pass : valid_uuid u = true ->
  repo_wf (mkRepo u v {[ v := mkNode u [] [] "" false ]} [] pass).
Proof.
  intros Hv. constructor; simpl.
  - exists (mkNode u [] [] "" false). rewrite lookup_singleton. auto.
  - intros w n H _. apply lookup_singleton_Some in H as [<- _]. reflexivity.
  - intros w n p H Hp. apply lookup_singleton_Some in H as [_ <-]. inversion Hp.
  - intros w n c H Hc. apply lookup_singleton_Some in H as [_ <-]. inversion Hc.
  - intros w n H. apply lookup_singleton_Some in H as [_ <-]. simpl. split; apply NoDup_nil_2.
  - intros w n H Hb. apply lookup_singleton_Some in H as [_ <-]. simpl in Hb. contradiction.
  - intros w n c1 c2 n1 n2 H Hc. apply lookup_singleton_Some in H as [_ <-]. inversion Hc.
  - intros w n H Hb. apply lookup_singleton_Some in H as [_ <-]. simpl in Hb. contradiction.
  - intros w n H. apply lookup_singleton_Some in H as [_ <-]. simpl. discriminate.
  - now apply valid_uuid_len.
Qed.

Lemma inv_new_repo s assign pass fresh :
  RepoInv s -> (assign = None -> fresh_ok s fresh) ->
  RepoInv (fst (do_new_repo repaired s assign pass fresh)).
Proof.
  intros I Hfresh. unfold do_new_repo.
  match goal with |- context [if ?b then _ else _] => destruct b eqn:Eref end; [exact I|].
  set (u := match assign with Some a => a | None => fresh end).
  assert (Hu : valid_uuid u = true /\ st_u2v s !! u = None).
  { unfold u. destruct assign as [a|].
    - simpl in Eref. apply orb_false_iff in Eref as [E1 E2]. apply negb_false_iff in E1.
      apply bool_decide_eq_false in E2. split; auto. apply inv_repo_of_none; auto.
      destruct (st_repo_of s !! a); auto. exfalso. apply E2. eauto.
    - apply (Hfresh eq_refl). }
  destruct Hu as [Hval Hcu]. pose proof (valid_uuid_nonempty u Hval) as Hne.
  unfold new_uuid. simpl.
  set (v := st_next_v s). set (id := st_next_r s).
  set (r := mkRepo u v {[ v := mkNode u [] [] "" false ]} [] pass).
  assert (Hv : st_v2u s !! v = None).
  { destruct (st_v2u s !! v) as [x|] eqn:E; auto. apply (inv_next_v s I) in E. unfold v in E. lia. }
  assert (Hid : st_repos s !! id = None).
  { destruct (st_repos s !! id) as [x|] eqn:E; auto. apply (inv_next_r s I) in E. unfold id in E. lia. }
  assert (Hidr : st_roots s !! id = None).
  { destruct (st_roots s !! id) as [x|] eqn:E; auto. destruct (inv_live s I id x E) as (r0 & Hr0 & _). congruence. }
  assert (Hold : forall j Rj rj w n, st_roots s !! j = Some Rj -> st_repos s !! j = Some rj ->
            r_nodes rj !! w = Some n -> j <> id /\ w <> v /\ n_uuid n <> u).
  { intros j Rj rj w n H1 H2 H3. destruct (inv_nodes s I j Rj rj w n H1 H2 H3) as [Hw _].
    split; [intros ->; congruence|]. split; [intros ->; congruence|].
    intros Eu. apply (inv_bij s I) in Hw. congruence. }
  constructor; simpl.
  - intros j Rj H. apply lookup_insert_Some in H as [[<- <-]|[Nj H]].
    + exists r. rewrite lookup_insert. split; auto. split; auto. now apply wf_single.
    + rewrite lookup_insert_ne by auto. apply (inv_live s I j Rj H).
  - intros x w. rewrite !lookup_insert_Some. split.
    + intros [[<- <-]|[Ne Hx]]; [auto|]. right. pose proof (proj1 (inv_bij s I x w) Hx) as Hw.
      split; auto. intros <-. congruence.
    + intros [[<- <-]|[Ne Hw]]; [auto|]. right. pose proof (proj2 (inv_bij s I x w) Hw) as Hx.
      split; auto. intros <-. congruence.
  - intros j Rj rj w n HRj Hrj Hn.
    apply lookup_insert_Some in HRj as [[<- <-]|[Nj HRj]].
    + rewrite lookup_insert in Hrj. injection Hrj as <-. simpl in Hn.
      apply lookup_singleton_Some in Hn as [<- <-]. simpl. now rewrite !lookup_insert.
    + rewrite lookup_insert_ne in Hrj by auto.
      destruct (Hold j Rj rj w n HRj Hrj Hn) as (_ & Nw & Nu).
      rewrite !lookup_insert_ne by auto. apply (inv_nodes s I j Rj rj w n HRj Hrj Hn).
  - intros x j Hj. apply lookup_insert_Some in Hj as [[<- <-]|[Nx Hj]].
    + exists u, r, v, (mkNode u [] [] "" false). rewrite !lookup_insert. simpl. now rewrite lookup_singleton.
    + destruct (inv_repo_of s I x j Hj) as (Rj & rj & w & n & HRj & Hrj & Hx & Hn).
      destruct (Hold j Rj rj w n HRj Hrj Hn) as (Nj & Nw & Nu).
      exists Rj, rj, w, n. rewrite !lookup_insert_ne by auto. auto.
  - intros w x H. apply lookup_insert_Some in H as [[<- <-]|[Nw H]].
    + rewrite lookup_insert. eauto.
    + destruct (inv_mapped s I w x H) as [j Hj]. destruct (decide (x = u)) as [->|Nx].
      * rewrite lookup_insert. eauto.
      * rewrite lookup_insert_ne by auto. eauto.
  - intros w x H. apply lookup_insert_Some in H as [[<- <-]|[Nw H]]; [fold v; lia|].
    apply (inv_next_v s I) in H. fold v in H |- *. lia.
  - intros j rj H. apply lookup_insert_Some in H as [[<- <-]|[Nj H]]; [fold id; lia|].
    apply (inv_next_r s I) in H. fold id in H |- *. lia.
  - rewrite lookup_insert_ne by auto. apply (inv_nil s I).
  - intros j Rj rj w n HRj Hrj Hn Hmax.
    apply lookup_insert_Some in HRj as [[<- <-]|[Nj HRj]].
    + rewrite lookup_insert in Hrj. injection Hrj as <-.
      apply (cache_heads_own s r w n); auto.
      intros w' m Hm. simpl in Hm. apply lookup_singleton_Some in Hm as [_ <-]. discriminate.
    + rewrite lookup_insert_ne in Hrj by auto.
      destruct (inv_root_eq s j Rj rj I HRj Hrj) as [ERj Wj].
      etransitivity; [apply (cache_heads_other s r)|apply (inv_head_newest s I j Rj rj w n HRj Hrj Hn Hmax)].
      simpl. destruct (String.prefix u (head_key (r_root rj) (n_branch n))) eqn:Hp; auto. exfalso.
      unfold head_key in Hp. apply prefix_same_length in Hp;
        [|rewrite (valid_uuid_len u Hval), (wf_root_len rj Wj); reflexivity].
      destruct (wf_root rj Wj) as (n0 & Hn0 & Un0 & _).
      destruct (Hold j Rj rj _ n0 HRj Hrj Hn0) as (_ & _ & Nu). congruence.
Qed.

Lemma new_repo_frame fx s assign pass fresh :
  is_done (snd (do_new_repo fx s assign pass fresh)) = false -> fst (do_new_repo fx s assign pass fresh) = s.
Proof.
  unfold do_new_repo. match goal with |- context [if ?b then _ else _] => destruct b end; auto.
  unfold new_uuid. simpl. discriminate.
Qed.

(* ------------------------------------------------------------------ delete repo *)

Definition drop_one (s : state) (v : N) (u : string) : state :=
  mkState (st_repos s) (delete u (st_repo_of s)) (st_roots s) (delete u (st_u2v s))
          (delete v (st_v2u s)) (st_heads s) (st_next_v s) (st_next_r s) (st_next_i s).

Lemma drop_versions_none vs : fold_left (fun acc v =>
    match acc with
    | None => None
    | Some s => match st_v2u s !! v with
                | None => None
                | Some u => Some (drop_one s v u)
                end
    end) vs None = None.
Proof. induction vs; simpl; auto. Qed.

Lemma drop_versions_cons s a vs :
  drop_versions s (a :: vs) =
  match st_v2u s !! a with None => None | Some u => drop_versions (drop_one s a u) vs end.
Proof.
  unfold drop_versions. simpl. destruct (st_v2u s !! a); [reflexivity|]. apply drop_versions_none.
Qed.

Definition maps_bij (s : state) : Prop := forall u v, st_u2v s !! u = Some v <-> st_v2u s !! v = Some u.

Lemma drop_versions_spec vs : forall s, maps_bij s -> NoDup vs -> (forall v, v ∈ vs -> is_Some (st_v2u s !! v)) ->
  exists s', drop_versions s vs = Some s' /\
    st_repos s' = st_repos s /\ st_roots s' = st_roots s /\ st_heads s' = st_heads s /\
    st_next_v s' = st_next_v s /\ st_next_r s' = st_next_r s /\ st_next_i s' = st_next_i s /\
    (forall x y, st_u2v s' !! x = Some y <-> st_u2v s !! x = Some y /\ y ∉ vs) /\
    (forall y x, st_v2u s' !! y = Some x <-> st_v2u s !! y = Some x /\ y ∉ vs) /\
    (forall x j, st_repo_of s' !! x = Some j <->
                 st_repo_of s !! x = Some j /\ ~ exists y, y ∈ vs /\ st_v2u s !! y = Some x).
Proof.
  induction vs as [|a vs IH]; intros s B ND Hall.
  - exists s. unfold drop_versions. simpl.
    split; [reflexivity|]. do 6 (split; [reflexivity|]).
    split; [|split].
    + intros x y. split; [intros H; split; [exact H|intros Hin; inversion Hin]|intros [H _]; exact H].
    + intros y x. split; [intros H; split; [exact H|intros Hin; inversion Hin]|intros [H _]; exact H].
    + intros x j. split; [intros H; split; [exact H|intros (y & Hin & _); inversion Hin]|intros [H _]; exact H].
  - apply NoDup_cons in ND as [Na ND].
    destruct (Hall a) as [ua Ha]; [apply elem_of_cons; auto|].
    rewrite drop_versions_cons, Ha.
    set (s1 := drop_one s a ua).
    assert (B1 : maps_bij s1).
    { intros x y. unfold s1. simpl. rewrite !lookup_delete_Some. split.
      - intros [Nx Hx]. pose proof (proj1 (B x y) Hx) as Hy. split; auto. intros <-. congruence.
      - intros [Ny Hy]. pose proof (proj2 (B x y) Hy) as Hx. split; auto. intros <-.
        apply B in Ha. congruence. }
    assert (Hall1 : forall v, v ∈ vs -> is_Some (st_v2u s1 !! v)).
    { intros v Hv. unfold s1. simpl. rewrite lookup_delete_ne by (intros <-; contradiction).
      apply Hall. apply elem_of_cons. auto. }
    destruct (IH s1 B1 ND Hall1) as (s' & E & E1 & E2 & E3 & E4 & E5 & E6 & Hu & Hv & Hr).
    exists s'. split; auto. unfold s1 in *. simpl in *.
    do 6 (split; [assumption|]).
    split; [|split].
    + intros x y. split.
      * intros H. apply Hu in H as [H Ny]. apply lookup_delete_Some in H as [Nx H]. split; auto.
        intros Hin. apply elem_of_cons in Hin as [->|Hin]; auto. apply B in H. congruence.
      * intros [H Ny]. apply not_elem_of_cons in Ny as [Ny1 Ny2]. apply Hu. split; auto.
        apply lookup_delete_Some. split; auto. intros <-. apply B in Ha. congruence.
    + intros y x. split.
      * intros H. apply Hv in H as [H Ny]. apply lookup_delete_Some in H as [Nx H]. split; auto.
        intros Hin. apply elem_of_cons in Hin as [->|Hin]; auto.
      * intros [H Ny]. apply not_elem_of_cons in Ny as [Ny1 Ny2]. apply Hv. split; auto.
        apply lookup_delete_Some. auto.
    + intros x j. split.
      * intros H. apply Hr in H as [H Nex]. apply lookup_delete_Some in H as [Nx H]. split; auto.
        intros (y & Hin & Hy). apply elem_of_cons in Hin as [->|Hin].
        -- congruence.
        -- apply Nex. exists y. split; auto. apply lookup_delete_Some. split; auto. intros <-. contradiction.
      * intros [H Nex]. apply Hr. split.
        -- apply lookup_delete_Some. split; auto. intros <-. apply Nex. exists a. split; auto. apply elem_of_cons. auto.
        -- intros (y & Hin & Hy). apply lookup_delete_Some in Hy as [_ Hy]. apply Nex. exists y. split; auto.
           apply elem_of_cons. auto.
Qed.

Lemma nodes_keys r v : v ∈ List.map fst (nodes_list r) <-> is_Some (r_nodes r !! v).
Proof.
  unfold nodes_list. rewrite elem_of_list_In, in_map_iff. split.
  - intros ([w n] & <- & Hin). apply elem_of_list_In, elem_of_map_to_list in Hin. simpl. eauto.
  - intros [n Hn]. exists (v, n). split; auto. apply elem_of_list_In, elem_of_map_to_list. exact Hn.
Qed.

Lemma nodes_keys_nodup r : NoDup (List.map fst (nodes_list r)).
Proof. apply NoDup_fst_map_to_list. Qed.

Lemma inv_delete_repo s u pass : RepoInv s ->
  RepoInv (fst (do_delete_repo s u pass)) /\ snd (do_delete_repo s u pass) <> Crash.
Proof.
  intros I. unfold do_delete_repo.
  destruct (st_repo_of s !! u) as [i|] eqn:Hi; [|split; [exact I|discriminate]].
  destruct (st_repos s !! i) as [r|] eqn:Hr; [|split; [exact I|discriminate]].
  destruct (negb (String.eqb (r_root r) u)); [split; [exact I|discriminate]|].
  match goal with |- context [if ?b then _ else _] => destruct b end; [split; [exact I|discriminate]|].
  destruct (inv_repo_of s I u i Hi) as (R & r0 & v0 & n0 & HR & Hr0 & _).
  rewrite Hr in Hr0. injection Hr0 as <-.
  set (s1 := mkState (st_repos s) (st_repo_of s) (delete i (st_roots s)) (st_u2v s) (st_v2u s)
                     (st_heads s) (st_next_v s) (st_next_r s) (st_next_i s)).
  set (vs := List.map fst (nodes_list r)).
  assert (Hall : forall v, v ∈ vs -> is_Some (st_v2u s1 !! v)).
  { intros v Hv. apply nodes_keys in Hv as [n Hn]. simpl.
    destruct (inv_nodes s I i R r v n HR Hr Hn) as [H _]. eauto. }
  destruct (drop_versions_spec vs s1 (inv_bij s I) (nodes_keys_nodup r) Hall)
    as (s2 & E & E1 & E2 & E3 & E4 & E5 & E6 & Hu & Hv & Hro).
  rewrite E. simpl in *. split; [|discriminate].
  (* a node of another live repo is not among the dropped versions *)
  assert (Hother : forall j Rj rj w n, j <> i -> st_roots s !! j = Some Rj -> st_repos s !! j = Some rj ->
             r_nodes rj !! w = Some n -> w ∉ vs).
  { intros j Rj rj w n Nj HRj Hrj Hn Hin. apply nodes_keys in Hin as [n' Hn'].
    apply Nj. apply (inv_disjoint s j i Rj R rj r w n n' I HRj Hrj Hn HR Hr Hn'). }
  constructor.
  - intros j Rj H. rewrite E2 in H. apply lookup_delete_Some in H as [Nj H]. rewrite E1. apply (inv_live s I j Rj H).
  - intros x y. rewrite Hu, Hv. split; intros [H N]; split; auto; now apply (inv_bij s I).
  - intros j Rj rj w n HRj Hrj Hn. rewrite E2 in HRj. apply lookup_delete_Some in HRj as [Nj HRj]. rewrite E1 in Hrj.
    apply not_eq_sym in Nj. destruct (inv_nodes s I j Rj rj w n HRj Hrj Hn) as [A B].
    pose proof (Hother j Rj rj w n Nj HRj Hrj Hn) as Nw. split.
    + apply Hv. auto.
    + apply Hro. split; auto. intros (y & Hy & Hy'). apply Nw.
      pose proof (proj2 (inv_bij s I _ _) Hy') as U1. pose proof (proj2 (inv_bij s I _ _) A) as U2.
      rewrite U1 in U2. now injection U2 as ->.
  - intros x j Hj. apply Hro in Hj as [Hj Nex].
    destruct (inv_repo_of s I x j Hj) as (Rj & rj & w & n & HRj & Hrj & Hx & Hn).
    assert (Nj : j <> i).
    { intros ->. rewrite Hr in Hrj. injection Hrj as <-. apply Nex. exists w. split.
      - apply nodes_keys. eauto.
      - now apply (inv_bij s I). }
    exists Rj, rj, w, n. rewrite E2, E1. repeat split; auto.
    + apply lookup_delete_Some. auto.
    + apply Hu. split; auto. apply (Hother j Rj rj w n Nj HRj Hrj Hn).
  - intros w x H. apply Hv in H as [H Nw]. destruct (inv_mapped s I w x H) as [j Hj].
    exists j. apply Hro. split; auto. intros (y & Hy & Hy'). apply Nw.
    pose proof (proj2 (inv_bij s I _ _) Hy') as U1. pose proof (proj2 (inv_bij s I _ _) H) as U2.
    rewrite U1 in U2. now injection U2 as ->.
  - intros w x H. apply Hv in H as [H _]. rewrite E4. apply (inv_next_v s I w x H).
  - intros j rj H. rewrite E1 in H. rewrite E5. apply (inv_next_r s I j rj H).
  - destruct (st_u2v s2 !! "") as [y|] eqn:E0; auto. apply Hu in E0 as [E0 _].
    rewrite (inv_nil s I) in E0. discriminate.
  - intros j Rj rj w n HRj Hrj Hn Hmax. rewrite E2 in HRj. apply lookup_delete_Some in HRj as [Nj HRj].
    rewrite E1 in Hrj. rewrite E3. apply (inv_head_newest s I j Rj rj w n HRj Hrj Hn Hmax).
Qed.

Lemma delete_repo_frame s u pass : RepoInv s ->
  is_done (snd (do_delete_repo s u pass)) = false -> fst (do_delete_repo s u pass) = s.
Proof.
  intros I. pose proof (inv_delete_repo s u pass I) as [_ NC]. revert NC. unfold do_delete_repo.
  destruct (st_repo_of s !! u) as [i|]; auto.
  destruct (st_repos s !! i) as [r|]; auto.
  destruct (negb (String.eqb (r_root r) u)); auto.
  match goal with |- context [if ?b then _ else _] => destruct b end; auto.
  match goal with |- context [match ?x with Some _ => _ | None => _ end] => destruct x end; simpl.
  - discriminate.
  - congruence.
Qed.

(* ------------------------------------------------------------------ handlers *)

Lemma tag_branch_not_master t : s_tag_prefix ++ t <> s_master_label.
Proof. unfold s_tag_prefix, s_master_label. simpl. discriminate. Qed.
Lemma conflict_branch_not_master t : s_conflict_prefix ++ t <> s_master_label.
Proof. unfold s_conflict_prefix, s_master_label. simpl. discriminate. Qed.
Lemma refused_master b : in_list b l_branch_refused = false -> b <> s_master_label.
Proof. intros H ->. vm_compute in H. discriminate. Qed.

Lemma fresh_ok_parts s f : fresh_ok s f -> f <> "" /\ st_u2v s !! f = None.
Proof. intros [V N]. split; auto. now apply valid_uuid_nonempty. Qed.

Lemma inv_h_commit s x : RepoInv s -> RepoInv (fst (h_commit s x)).
Proof.
  intros I. unfold h_commit. destruct (node_gate s x false); try exact I.
  destruct (locked_uuid s a) as [[|]| | |]; try exact I.
  pose proof (inv_commit s a I). destruct (do_commit s a). exact H.
Qed.

Lemma inv_h_new_version s x a f : RepoInv s -> fresh_ok s f -> RepoInv (fst (h_new_version repaired s x a f)).
Proof.
  intros I Hf. unfold h_new_version. destruct (node_gate s x true); try exact I.
  destruct (parse_assign a); try exact I.
  apply inv_new_version; [exact I|discriminate|intros _; now apply fresh_ok_parts].
Qed.

Lemma inv_h_branch s x b a f : RepoInv s -> fresh_ok s f -> RepoInv (fst (h_branch repaired s x b a f)).
Proof.
  intros I Hf. unfold h_branch. destruct (node_gate s x true); try exact I.
  destruct (parse_assign a); try exact I.
  destruct (in_list b l_branch_refused) eqn:E; [exact I|].
  apply refused_master in E.
  apply inv_new_version; [exact I|exact E|intros _; now apply fresh_ok_parts].
Qed.


Lemma inv_h_tag s x t : RepoInv s -> RepoInv (fst (h_tag repaired s x t)).
Proof.
  intros I. unfold h_tag. destruct (node_gate s x true); try exact I.
  pose proof (inv_new_version s a (s_tag_prefix ++ t) (Some t) "" I (tag_branch_not_master t)) as H.
  destruct (do_new_version repaired s a (s_tag_prefix ++ t) (Some t) "") as [s1 r].
  simpl in H. assert (I1 : RepoInv s1) by (apply H; discriminate).
  destruct r; simpl; auto. now apply inv_commit.
Qed.

Lemma inv_h_merge s x mt ps f : RepoInv s -> fresh_ok s f -> RepoInv (fst (h_merge repaired s x mt ps f)).
Proof.
  intros I Hf. unfold h_merge. destruct (repo_gate s x); try exact I.
  destruct (length ps <? 2)%nat; [exact I|].
  destruct (match_all s ps); try exact I. destruct (negb mt); [exact I|].
  destruct (fresh_ok_parts s f Hf). now apply inv_merge.
Qed.

Lemma inv_h_new_data s x t n : RepoInv s -> RepoInv (fst (h_new_data s x t n)).
Proof.
  intros I. unfold h_new_data. destruct (repo_gate s x); try exact I.
  destruct (locked_uuid s a) as [[|]| | |]; try exact I.
  destruct (negb t); [exact I|]. now apply inv_new_data.
Qed.

(* ---- error answers ---- *)

Lemma frame_bump s : frame (bump_instance_id s) = frame s.
Proof. reflexivity. Qed.

Lemma h_commit_frame s x : is_done (snd (h_commit s x)) = false -> fst (h_commit s x) = s.
Proof.
  unfold h_commit. destruct (node_gate s x false); auto.
  destruct (locked_uuid s a) as [[|]| | |]; auto.
  pose proof (commit_frame s a) as F. destruct (do_commit s a) as [s1 r]. simpl in *.
  destruct r as [[]| | |]; simpl; try discriminate; intros _; apply F; discriminate.
Qed.

Lemma h_new_version_frame s x a f : is_done (snd (h_new_version repaired s x a f)) = false ->
  fst (h_new_version repaired s x a f) = s.
Proof.
  unfold h_new_version. destruct (node_gate s x true); auto.
  destruct (parse_assign a); auto. apply new_version_frame.
Qed.

Lemma h_branch_frame s x b a f : is_done (snd (h_branch repaired s x b a f)) = false ->
  fst (h_branch repaired s x b a f) = s.
Proof.
  unfold h_branch. destruct (node_gate s x true); auto.
  destruct (parse_assign a); auto. destruct (in_list b l_branch_refused); auto.
  apply new_version_frame.
Qed.

Lemma h_tag_frame s x t : is_done (snd (h_tag repaired s x t)) = false -> fst (h_tag repaired s x t) = s.
Proof.
  unfold h_tag. destruct (node_gate s x true); auto.
  pose proof (new_version_frame repaired s a (s_tag_prefix ++ t) (Some t) "") as F.
  destruct (do_new_version repaired s a (s_tag_prefix ++ t) (Some t) "") as [s1 r]. simpl in *.
  destruct r; simpl; try discriminate; intros _; now apply F.
Qed.

Lemma h_merge_frame s x mt ps f : is_done (snd (h_merge repaired s x mt ps f)) = false ->
  fst (h_merge repaired s x mt ps f) = s.
Proof.
  unfold h_merge. destruct (repo_gate s x); auto.
  destruct (length ps <? 2)%nat; auto.
  destruct (match_all s ps); auto. destruct (negb mt); auto. apply merge_frame.
Qed.

Lemma recast_not_done {A B} (o : outcome A) : is_done (@recast A B o) = false.
Proof. destruct o; reflexivity. Qed.

(* ------------------------------------------------------------------ resolve *)

Definition absent (s : state) (F : list string) : Prop :=
  forall f, f ∈ F -> f <> "" /\ st_u2v s !! f = None.

Lemma new_version_u2v_other fx s p b a f x :
  st_u2v s !! x = None -> x <> (match a with Some a' => a' | None => f end) ->
  st_u2v (fst (do_new_version fx s p b a f)) !! x = None.
Proof.
  intros Hx Ne. unfold do_new_version. destruct (find_node s p) as [[[[i r] v] n]|]; auto.
  destruct (negb (n_locked n)); auto.
  match goal with |- context [match ?o with Some _ => _ | None => (s, Fail) end] => destruct o end; auto.
  destruct (fx_assign_check fx && assign_refused s a); auto.
  unfold new_uuid. simpl. rewrite recache_u2v. simpl. now rewrite lookup_insert_ne by auto.
Qed.

Lemma commit_u2v s u : st_u2v (fst (do_commit s u)) = st_u2v s.
Proof.
  unfold do_commit. destruct (find_node s u) as [[[[i r] v] n]|]; auto. destruct (n_locked n); auto.
Qed.

Lemma inv_resolve_extend olds conf : forall s ext,
  RepoInv s -> NoDup (List.map snd conf) -> absent s (List.map snd conf) ->
  RepoInv (fst (resolve_extend repaired s olds ext conf)) /\
  (forall x, st_u2v s !! x = None -> x ∉ List.map snd conf ->
             st_u2v (fst (resolve_extend repaired s olds ext conf)) !! x = None).
Proof.
  induction conf as [|[k f] conf IH]; intros s ext I ND A; simpl.
  - auto.
  - simpl in ND. apply NoDup_cons in ND as [Nf ND].
    assert (A' : absent s (List.map snd conf)).
    { intros g Hg. apply A. simpl. apply elem_of_cons. auto. }
    assert (Hskip : RepoInv (fst (resolve_extend repaired s olds ext conf)) /\
              (forall x, st_u2v s !! x = None -> x ∉ f :: List.map snd conf ->
                         st_u2v (fst (resolve_extend repaired s olds ext conf)) !! x = None)).
    { destruct (IH s ext I ND A') as [I1 U1]. split; auto. intros x Hx Nx.
      apply not_elem_of_cons in Nx as [_ Nx]. auto. }
    destruct (nth_error olds k) as [old|]; [|exact Hskip].
    destruct (extension_of ext old); [exact Hskip|].
    destruct (A f) as [Hne Hcu]; [simpl; apply elem_of_cons; auto|].
    pose proof (inv_new_version s old (s_conflict_prefix ++ old) None f I (conflict_branch_not_master old)
                  (fun _ => conj Hne Hcu)) as I1.
    pose proof (new_version_u2v_other repaired s old (s_conflict_prefix ++ old) None f) as U1.
    destruct (do_new_version repaired s old (s_conflict_prefix ++ old) None f) as [s1 o]. simpl in I1, U1.
    assert (A1 : absent s1 (List.map snd conf)).
    { intros g Hg. destruct (A' g Hg) as [G1 G2]. split; auto. apply U1; auto. intros ->. contradiction. }
    assert (Hgo : forall ext', RepoInv (fst (resolve_extend repaired s1 olds ext' conf)) /\
              (forall x, st_u2v s !! x = None -> x ∉ f :: List.map snd conf ->
                         st_u2v (fst (resolve_extend repaired s1 olds ext' conf)) !! x = None)).
    { intros ext'. destruct (IH s1 ext' I1 ND A1) as [I2 U2]. split; auto. intros x Hx Nx.
      apply not_elem_of_cons in Nx as [Nx1 Nx2]. apply U2; auto. }
    destruct o; apply Hgo.
Qed.

Definition data_fresh (data : list (string * list (nat * string))) : list string :=
  flat_map (fun d => List.map snd (snd d)) data.

Lemma inv_resolve_data u olds data : forall s ext,
  RepoInv s -> NoDup (data_fresh data) -> absent s (data_fresh data) ->
  RepoInv (fst (resolve_data repaired s u olds ext data)) /\
  (forall x, st_u2v s !! x = None -> x ∉ data_fresh data ->
             st_u2v (fst (resolve_data repaired s u olds ext data)) !! x = None).
Proof.
  induction data as [|[name conf] data IH]; intros s ext I ND A; simpl.
  - auto.
  - unfold data_fresh in ND, A. simpl in ND, A. apply NoDup_app in ND as (ND1 & Hdisj & ND2).
    destruct (repo_by_uuid s u) as [r|]; [|auto].
    destruct (in_list name (r_data r)); [|auto].
    assert (A1 : absent s (List.map snd conf)) by (intros g Hg; apply A, elem_of_app; auto).
    destruct (inv_resolve_extend olds conf s ext I ND1 A1) as [I1 U1].
    destruct (resolve_extend repaired s olds ext conf) as [s1 ext1]. simpl in I1, U1.
    assert (A2 : absent s1 (data_fresh data)).
    { intros g Hg. destruct (A g) as [G1 G2]; [apply elem_of_app; auto|]. split; auto.
      apply U1; auto. intros Hin. apply (Hdisj g Hin Hg). }
    destruct (IH s1 ext1 I1 ND2 A2) as [I2 U2]. split; auto.
    intros x Hx Nx. unfold data_fresh in Nx. simpl in Nx. apply not_elem_of_app in Nx as [Nx1 Nx2]. auto.
Qed.

Lemma inv_commit_extensions olds : forall news s, RepoInv s ->
  RepoInv (fst (commit_extensions s olds news)) /\
  st_u2v (fst (commit_extensions s olds news)) = st_u2v s.
Proof.
  induction olds as [|o olds IH]; intros [|n news] s I; simpl; auto.
  destruct (String.eqb o n); [apply IH; auto|].
  pose proof (inv_commit s n I) as I1. pose proof (commit_u2v s n) as U1.
  destruct (do_commit s n) as [s1 [[]| | |]]; simpl in *; auto.
  destruct (IH news s1 I1) as [I2 U2]. split; auto. congruence.
Qed.

Lemma inv_h_resolve s x data ps f : RepoInv s -> oracle_ok s (RResolve x data ps f) ->
  RepoInv (fst (h_resolve repaired s x data ps f)).
Proof.
  intros I [ND FA]. simpl in ND, FA. fold (data_fresh data) in ND, FA.
  unfold h_resolve. destruct (repo_gate s x) as [u| | |]; try exact I.
  destruct data as [|d data']; [exact I|]. set (data := d :: data') in *.
  destruct (length ps <? 2)%nat; [exact I|].
  destruct (match_all s ps) as [olds| | |]; try exact I.
  match goal with |- context [if ?b then _ else _] => destruct b end; [exact I|].
  apply NoDup_app in ND as (ND1 & Hdisj & _).
  assert (A : absent s (data_fresh data)).
  { intros g Hg. rewrite Forall_forall in FA. apply fresh_ok_parts, FA, elem_of_app. auto. }
  destruct (inv_resolve_data u olds data s [] I ND1 A) as [I1 U1].
  destruct (resolve_data repaired s u olds [] data) as [s1 [ext|]]; simpl in I1, U1; [|exact I1].
  match goal with |- context [commit_extensions s1 olds ?n] => set (news := n) end.
  destruct (inv_commit_extensions olds news s1 I1) as [I2 U2].
  destruct (commit_extensions s1 olds news) as [s2 [|]]; simpl in I2, U2; [|exact I2].
  rewrite Forall_forall in FA. destruct (fresh_ok_parts s f) as [Hne Hcu]; [apply FA, elem_of_app; right; now apply elem_of_list_singleton|].
  apply inv_merge; auto. rewrite U2. apply U1; auto.
  intros Hin. apply (Hdisj f Hin). now apply elem_of_list_singleton.
Qed.

(* ------------------------------------------------------------------ every request *)

Lemma oracle_single s r f : fresh_of r = [f] -> oracle_ok s r -> fresh_ok s f.
Proof. intros E [_ F]. rewrite E in F. now inversion F. Qed.

Theorem inv_step s r : RepoInv s -> oracle_ok s r -> RepoInv (fst (step repaired s r)).
Proof.
  intros I O. destruct r; simpl.
  - apply inv_new_repo; auto. intros _. eapply oracle_single; [|exact O]; reflexivity.
  - now apply inv_h_commit.
  - apply inv_h_new_version; auto. eapply oracle_single; [|exact O]; reflexivity.
  - apply inv_h_branch; auto. eapply oracle_single; [|exact O]; reflexivity.
  - now apply inv_h_tag.
  - apply inv_h_merge; auto. eapply oracle_single; [|exact O]; reflexivity.
  - now apply inv_h_resolve.
  - exact I.
  - exact I.
  - exact I.
  - now apply inv_h_new_data.
  - unfold h_rpc. destruct (matching s u); try exact I. now apply inv_rename_data.
  - unfold h_rpc. destruct (matching s u); try exact I. now apply inv_delete_data.
  - unfold h_rpc. destruct (matching s u); try exact I. now apply inv_delete_repo.
Qed.

Theorem inv_run rs : forall s, RepoInv s -> oracles_ok repaired s rs -> RepoInv (run repaired s rs).
Proof.
  induction rs as [|r rs IH]; intros s I O; simpl; auto.
  destruct O as [O1 O2]. apply IH; auto. now apply inv_step.
Qed.

Corollary inv_reachable rs : oracles_ok repaired init rs -> RepoInv (run repaired init rs).
Proof. apply inv_run, inv_init. Qed.

(* ------------------------------------------------------------------ resolve: nothing fails after the checks *)

(* p names a node of repo i whose commit flag is lk *)
Definition node_state (s : state) (p : string) (i : N) (lk : bool) : Prop :=
  exists r v n, st_u2v s !! p = Some v /\ st_repo_of s !! p = Some i /\ st_repos s !! i = Some r /\
                r_nodes r !! v = Some n /\ n_locked n = lk.

Lemma node_state_find s p i lk : node_state s p i lk ->
  exists r v n, find_node s p = Some (i, r, v, n) /\ n_locked n = lk.
Proof.
  intros (r & v & n & H1 & H2 & H3 & H4 & H5). exists r, v, n. unfold find_node.
  now rewrite H1, H2, H3, H4.
Qed.

Lemma node_state_u2v s p i lk : node_state s p i lk -> is_Some (st_u2v s !! p).
Proof. intros (r & v & n & H1 & _). eauto. Qed.

(* the data instances of the repo a UUID belongs to *)
Definition data_of (s : state) (u : string) : option (list string) := option_map r_data (repo_by_uuid s u).

Lemma upd_nodes_data f r : r_data (upd_nodes f r) = r_data r.
Proof. reflexivity. Qed.

(* commit: other nodes keep their state, committed nodes stay committed, data untouched *)
Lemma commit_node_state s u p i lk : RepoInv s -> node_state s p i lk -> (p <> u \/ lk = true) ->
  node_state (fst (do_commit s u)) p i lk.
Proof.
  intros I NS Hcase. unfold do_commit.
  destruct (find_node s u) as [[[[j r] v] n]|] eqn:F; auto. destruct (n_locked n) eqn:Ln; auto. simpl.
  apply find_node_spec in F as (Hu & Hj & Hr & Hn).
  destruct NS as (rp & vp & np & H1 & H2 & H3 & H4 & H5).
  destruct (decide (i = j)) as [->|Nij].
  - rewrite Hr in H3. injection H3 as <-.
    destruct (decide (vp = v)) as [->|Nv].
    + rewrite Hn in H4. injection H4 as <-.
      exists (upd_nodes (alter lock_node v) r), v, (lock_node n). simpl.
      rewrite lookup_alter, Hr. simpl. rewrite lookup_alter, Hn. simpl. repeat split; auto.
      destruct Hcase as [Hc| ->]; [|congruence]. exfalso. apply Hc.
      apply (inv_bij s I) in H1. apply (inv_bij s I) in Hu. congruence.
    + exists (upd_nodes (alter lock_node v) r), vp, np. simpl.
      rewrite lookup_alter, Hr. simpl. rewrite lookup_alter_ne by auto. auto.
  - exists rp, vp, np. simpl. rewrite lookup_alter_ne by auto. auto.
Qed.

Lemma commit_succeeds s u i : RepoInv s -> node_state s u i false ->
  snd (do_commit s u) = Done tt /\ node_state (fst (do_commit s u)) u i true.
Proof.
  intros I NS. destruct (node_state_find s u i false NS) as (r & v & n & F & Ln).
  unfold do_commit. rewrite F, Ln. simpl. split; auto.
  apply find_node_spec in F as (Hu & Hj & Hr & Hn).
  exists (upd_nodes (alter lock_node v) r), v, (lock_node n). simpl.
  rewrite lookup_alter, Hr. simpl. rewrite lookup_alter, Hn. simpl. auto.
Qed.

Lemma commit_data s u x : data_of (fst (do_commit s u)) x = data_of s x.
Proof.
  unfold do_commit. destruct (find_node s u) as [[[[j r] v] n]|] eqn:F; auto. destruct (n_locked n); auto. simpl.
  apply find_node_spec in F as (Hu & Hj & Hr & Hn).
  unfold data_of, repo_by_uuid. simpl. destruct (st_repo_of s !! x) as [k|]; auto.
  destruct (decide (k = j)) as [->|Nk].
  - rewrite lookup_alter, Hr. reflexivity.
  - now rewrite lookup_alter_ne by auto.
Qed.

Lemma commit_repo_of s u : st_repo_of (fst (do_commit s u)) = st_repo_of s.
Proof.
  unfold do_commit. destruct (find_node s u) as [[[[j r] v] n]|]; auto. destruct (n_locked n); auto.
Qed.

(* newVersion with a generated UUID f: the nodes that exist keep their state *)
Lemma new_version_node_state fx s par b f p i lk : RepoInv s -> node_state s p i lk -> p <> f ->
  node_state (fst (do_new_version fx s par b None f)) p i lk.
Proof.
  intros I NS Npf. unfold do_new_version.
  destruct (find_node s par) as [[[[j r] v] n]|] eqn:F; auto. destruct (negb (n_locked n)); auto.
  match goal with |- context [match ?o with Some _ => _ | None => (s, Fail) end] => destruct o as [b'|] end; auto.
  destruct (fx_assign_check fx && assign_refused s None); auto.
  unfold new_uuid. simpl.
  apply find_node_spec in F as (Hu & Hj & Hr & Hn).
  destruct NS as (rp & vp & np & H1 & H2 & H3 & H4 & H5).
  unfold node_state. rewrite recache_u2v, recache_repo_of, recache_repos. simpl.
  set (cv := st_next_v s).
  assert (Nvp : vp <> cv).
  { destruct (inv_repo_of s I p i H2) as (R & r0 & v0 & n0 & HR & Hr0 & Hu0 & Hn0).
    rewrite H3 in Hr0. injection Hr0 as <-. rewrite H1 in Hu0. injection Hu0 as <-.
    destruct (inv_nodes s I i R rp vp n0 HR H3 Hn0) as [Hv _]. apply (inv_next_v s I) in Hv. unfold cv. lia. }
  destruct (decide (i = j)) as [->|Nij].
  - rewrite Hr in H3. injection H3 as <-.
    destruct (decide (vp = v)) as [->|Nv].
    + rewrite Hn in H4. injection H4 as <-.
      eexists _, v, (add_child cv n). rewrite !lookup_insert_ne by auto. rewrite lookup_alter, Hr. simpl.
      split; [exact H1|]. split; [exact H2|]. split; [reflexivity|]. simpl.
      rewrite lookup_insert_ne by auto. rewrite lookup_alter, Hn. simpl. auto.
    + eexists _, vp, np. rewrite !lookup_insert_ne by auto. rewrite lookup_alter, Hr. simpl.
      split; [exact H1|]. split; [exact H2|]. split; [reflexivity|]. simpl.
      rewrite lookup_insert_ne, lookup_alter_ne by auto. auto.
  - exists rp, vp, np. rewrite !lookup_insert_ne by auto. rewrite lookup_alter_ne by auto. auto.
Qed.

(* ... and the new node is an uncommitted node of the parent's repo *)
Lemma new_version_new_node fx s par b f cu i : st_repo_of s !! par = Some i ->
  snd (do_new_version fx s par b None f) = Done cu ->
  cu = f /\ node_state (fst (do_new_version fx s par b None f)) f i false.
Proof.
  intros Hi. unfold do_new_version.
  destruct (find_node s par) as [[[[j r] v] n]|] eqn:F; [|discriminate].
  destruct (negb (n_locked n)); [discriminate|].
  match goal with |- context [match ?o with Some _ => _ | None => (s, Fail) end] => destruct o as [b'|] end; [|discriminate].
  destruct (fx_assign_check fx && assign_refused s None); [discriminate|].
  unfold new_uuid. simpl. intros [= <-]. split; auto.
  apply find_node_spec in F as (Hu & Hj & Hr & Hn). rewrite Hi in Hj. injection Hj as <-.
  unfold node_state. rewrite recache_u2v, recache_repo_of, recache_repos. simpl.
  eexists _, (st_next_v s), _. rewrite !lookup_insert. rewrite lookup_alter, Hr. simpl.
  split; [reflexivity|]. split; [reflexivity|]. split; [reflexivity|]. simpl.
  rewrite lookup_insert. auto.
Qed.

Lemma new_version_data fx s par b f x : x <> f ->
  data_of (fst (do_new_version fx s par b None f)) x = data_of s x.
Proof.
  intros Nx. unfold do_new_version.
  destruct (find_node s par) as [[[[j r] v] n]|] eqn:F; auto. destruct (negb (n_locked n)); auto.
  match goal with |- context [match ?o with Some _ => _ | None => (s, Fail) end] => destruct o as [b'|] end; auto.
  destruct (fx_assign_check fx && assign_refused s None); auto.
  unfold new_uuid. simpl. apply find_node_spec in F as (Hu & Hj & Hr & Hn).
  unfold data_of, repo_by_uuid. rewrite recache_repo_of, recache_repos. simpl. rewrite lookup_insert_ne by auto.
  destruct (st_repo_of s !! x) as [k|]; auto.
  destruct (decide (k = j)) as [->|Nk].
  - rewrite lookup_alter, Hr. reflexivity.
  - now rewrite lookup_alter_ne by auto.
Qed.

(* ---- the extension table ---- *)
Definition ext_pick (ext : list (string * string)) (o : string) : string :=
  match extension_of ext o with Some e => e | None => o end.

Lemma extension_of_in ext o e : extension_of ext o = Some e -> (o, e) ∈ ext.
Proof.
  unfold extension_of. induction ext as [|[a b] ext IH]; simpl; [discriminate|].
  destruct (String.eqb_spec a o) as [->|Ne]; simpl.
  - intros [= <-]. apply elem_of_cons. auto.
  - intros H. apply elem_of_cons. right. auto.
Qed.

Lemma extension_of_none ext o : extension_of ext o = None -> o ∉ List.map fst ext.
Proof.
  unfold extension_of. induction ext as [|[a b] ext IH]; simpl; [intros _ H; inversion H|].
  destruct (String.eqb_spec a o) as [->|Ne]; simpl; [discriminate|].
  intros H Hin. apply elem_of_cons in Hin as [->|Hin]; [congruence|]. now apply IH.
Qed.

Lemma snd_nodup_fst {A B} (l : list (A * B)) a b e :
  NoDup (List.map snd l) -> (a, e) ∈ l -> (b, e) ∈ l -> a = b.
Proof.
  induction l as [|[x y] l IH]; intros ND Ha Hb; [inversion Ha|].
  simpl in ND. apply NoDup_cons in ND as [Ny ND].
  apply elem_of_cons in Ha as [Ea|Ha]; apply elem_of_cons in Hb as [Eb|Hb].
  - congruence.
  - injection Ea as -> ->. exfalso. apply Ny. apply elem_of_list_In, in_map_iff. exists (b, y).
    split; auto. now apply elem_of_list_In.
  - injection Eb as -> ->. exfalso. apply Ny. apply elem_of_list_In, in_map_iff. exists (a, y).
    split; auto. now apply elem_of_list_In.
  - auto.
Qed.

Lemma ext_pick_nodup ext olds : NoDup olds -> NoDup (List.map snd ext) ->
  (forall o e, (o, e) ∈ ext -> e ∉ olds) -> NoDup (List.map (ext_pick ext) olds).
Proof.
  intros ND NDe Hout. induction olds as [|o olds IH]; simpl; [apply NoDup_nil_2|].
  apply NoDup_cons in ND as [No ND].
  assert (Hout' : forall o' e, (o', e) ∈ ext -> e ∉ olds).
  { intros o' e H Hin. apply (Hout o' e H). apply elem_of_cons. auto. }
  apply NoDup_cons. split; [|apply IH; auto].
  intros Hin. apply elem_of_list_In, in_map_iff in Hin as (o' & E & Ho'). apply elem_of_list_In in Ho'.
  unfold ext_pick in E.
  destruct (extension_of ext o') as [e'|] eqn:E1; destruct (extension_of ext o) as [e|] eqn:E2.
  - subst e'. apply extension_of_in in E1, E2. pose proof (snd_nodup_fst ext o' o e NDe E1 E2). congruence.
  - subst e'. apply extension_of_in in E1. apply (Hout o' o E1). apply elem_of_cons. auto.
  - subst o'. apply extension_of_in in E2. apply (Hout o e E2). apply elem_of_cons. auto.
  - congruence.
Qed.

(* ---- the loop invariant of DeleteConflicts ---- *)
Record rs_ok (s0 s : state) (u : string) (i : N) (olds : list string) (ext : list (string * string))
       (F : list string) : Prop := {
  rs_inv : RepoInv s;
  rs_absent : absent s F;
  rs_data : data_of s u = data_of s0 u;
  rs_olds : forall o, o ∈ olds -> node_state s o i true;
  rs_ext : forall o e, (o, e) ∈ ext -> node_state s e i false /\ e ∉ olds /\ e ∉ F;
  rs_ext_snd : NoDup (List.map snd ext);
  rs_ext_fst : NoDup (List.map fst ext)
}.

Lemma rs_weaken s0 s u i olds ext F F' : (forall f, f ∈ F' -> f ∈ F) -> rs_ok s0 s u i olds ext F -> rs_ok s0 s u i olds ext F'.
Proof.
  intros Sub [A B C D E G H]. constructor; auto.
  - intros f Hf. apply B. auto.
  - intros o e Hoe. destruct (E o e Hoe) as (E1 & E2 & E3). repeat split; auto.
Qed.

Lemma rs_extend_step s0 u i olds conf : forall s ext Frest,
  u ∉ (List.map snd conf ++ Frest)%list -> NoDup (List.map snd conf ++ Frest)%list ->
  rs_ok s0 s u i olds ext (List.map snd conf ++ Frest)%list ->
  rs_ok s0 (fst (resolve_extend repaired s olds ext conf)) u i olds
        (snd (resolve_extend repaired s olds ext conf)) Frest.
Proof.
  induction conf as [|[k f] conf IH]; intros s ext Frest Hu ND OK; simpl in *.
  - exact OK.
  - apply NoDup_cons in ND as [Nf ND]. apply not_elem_of_cons in Hu as [Nuf Hu].
    assert (OK' : rs_ok s0 s u i olds ext (List.map snd conf ++ Frest)%list).
    { eapply rs_weaken; [|exact OK]. intros g Hg. apply elem_of_cons. auto. }
    destruct (nth_error olds k) as [old|] eqn:Ek; [|now apply IH].
    destruct (extension_of ext old) eqn:Ex; [now apply IH|].
    assert (Hold : old ∈ olds) by (apply elem_of_list_In; eapply nth_error_In; eauto).
    destruct OK as [I A D O E S1 S2].
    pose proof (O old Hold) as NSold.
    destruct (A f) as [Hne Hcu]; [apply elem_of_cons; auto|].
    pose proof (inv_new_version s old (s_conflict_prefix ++ old) None f I (conflict_branch_not_master old)
                  (fun _ => conj Hne Hcu)) as I1.
    pose proof (new_version_frame repaired s old (s_conflict_prefix ++ old) None f) as Fr.
    pose proof (new_version_new_node repaired s old (s_conflict_prefix ++ old) f) as New.
    pose proof (fun p lk => new_version_node_state repaired s old (s_conflict_prefix ++ old) f p i lk I) as Keep.
    pose proof (new_version_u2v_other repaired s old (s_conflict_prefix ++ old) None f) as U1.
    pose proof (new_version_data repaired s old (s_conflict_prefix ++ old) f u Nuf) as D1.
    destruct (do_new_version repaired s old (s_conflict_prefix ++ old) None f) as [s1 o] eqn:Enw. simpl in *.
    assert (Hne_u2v : forall p lk, node_state s p i lk -> p <> f).
    { intros p lk NS ->. destruct (node_state_u2v _ _ _ _ NS). congruence. }
    destruct o as [cu| | |].
    + (* a deletion node was created *)
      destruct NSold as (ro & vo & no & _ & Hio & _).
      destruct (New cu i Hio eq_refl) as [-> NSf].
      apply IH; auto. constructor; auto.
      * intros g Hg. destruct (A g) as [G1 G2]; [apply elem_of_cons; auto|]. split; auto.
        apply U1; auto. intros ->. contradiction.
      * congruence.
      * intros o' Ho'. apply Keep; eauto.
      * intros o' e Hoe. apply elem_of_cons in Hoe as [[= -> ->]|Hoe].
        -- split; [exact NSf|]. split; [|exact Nf]. intros Hin. apply (Hne_u2v f true (O f Hin)). reflexivity.
        -- destruct (E o' e Hoe) as (E1 & E2 & E3). apply not_elem_of_cons in E3 as [E3 E4].
           split; [apply Keep; eauto|]. split; auto.
      * simpl. apply NoDup_cons. split; auto. intros Hin.
        apply elem_of_list_In, in_map_iff in Hin as ([o' e] & Ee & Hin). simpl in Ee. subst e.
        apply elem_of_list_In in Hin. destruct (E o' f Hin) as (_ & _ & E3). apply E3. apply elem_of_cons. auto.
      * simpl. apply NoDup_cons. split; auto. now apply extension_of_none.
    + rewrite (Fr eq_refl). now apply IH.
    + rewrite (Fr eq_refl). now apply IH.
    + rewrite (Fr eq_refl). now apply IH.
Qed.

Lemma rs_data_step s0 u i olds data : forall s ext Frest,
  u ∉ (data_fresh data ++ Frest)%list -> NoDup (data_fresh data ++ Frest)%list ->
  (exists l, data_of s0 u = Some l /\ forallb (fun nm => in_list nm l) (List.map fst data) = true) ->
  rs_ok s0 s u i olds ext (data_fresh data ++ Frest)%list ->
  exists ext', snd (resolve_data repaired s u olds ext data) = Some ext' /\
               rs_ok s0 (fst (resolve_data repaired s u olds ext data)) u i olds ext' Frest.
Proof.
  induction data as [|[name conf] data IH]; intros s ext Frest Hu ND Hnames OK; simpl in *.
  - exists ext. split; [reflexivity|exact OK].
  - destruct Hnames as (l & Hl & Hall). apply andb_true_iff in Hall as [Hname Hall].
    unfold data_fresh in *. simpl in *. rewrite <- app_assoc in *.
    pose proof (rs_data _ _ _ _ _ _ _ OK) as D. rewrite Hl in D. unfold data_of in D.
    destruct (repo_by_uuid s u) as [r|]; [|discriminate]. simpl in D. injection D as D. rewrite D, Hname.
    pose proof (rs_extend_step s0 u i olds conf s ext _ Hu ND OK) as OK1.
    destruct (resolve_extend repaired s olds ext conf) as [s1 ext1]. simpl in OK1.
    apply IH; eauto.
    + intros Hin. apply Hu. apply elem_of_app. auto.
    + apply NoDup_app in ND as (_ & _ & ND). exact ND.
Qed.

Lemma rs_commit_step i ext : forall l s,
  RepoInv s -> NoDup (List.map (ext_pick ext) l) ->
  (forall o, o ∈ l -> node_state s o i true) ->
  (forall o e, o ∈ l -> extension_of ext o = Some e -> node_state s e i false) ->
  exists s2, commit_extensions s l (List.map (ext_pick ext) l) = (s2, true) /\ RepoInv s2 /\
             (forall n, n ∈ List.map (ext_pick ext) l -> node_state s2 n i true) /\
             (forall p, node_state s p i true -> node_state s2 p i true) /\
             st_u2v s2 = st_u2v s.
Proof.
  induction l as [|o l IH]; intros s I ND Ho He; simpl.
  - exists s. split; [reflexivity|]. split; [exact I|]. split; [intros n Hn; inversion Hn|]. split; auto.
  - simpl in ND. apply NoDup_cons in ND as [Nn ND].
    assert (Ho' : forall o', o' ∈ l -> node_state s o' i true) by (intros; apply Ho, elem_of_cons; auto).
    destruct (String.eqb_spec o (ext_pick ext o)) as [Eq|Ne].
    + destruct (IH s I ND Ho') as (s2 & E & I2 & N2 & K2 & U2).
      { intros o' e Ho'' Hx. apply (He o' e); auto. apply elem_of_cons. auto. }
      exists s2. rewrite E. split; [reflexivity|]. split; [exact I2|]. split; [|split; auto].
      intros n Hn. apply elem_of_cons in Hn as [->|Hn]; auto.
      rewrite <- Eq. apply K2, Ho, elem_of_cons. auto.
    + assert (Hpick : exists e, extension_of ext o = Some e /\ ext_pick ext o = e).
      { unfold ext_pick in *. destruct (extension_of ext o) as [e|]; [eauto|congruence]. }
      destruct Hpick as (e & Ex & Ep). rewrite Ep in *.
      assert (NSe : node_state s e i false) by (apply (He o e); auto; apply elem_of_cons; auto).
      destruct (commit_succeeds s e i I NSe) as [Ed NS1]. pose proof (inv_commit s e I) as I1.
      pose proof (commit_u2v s e) as U1.
      pose proof (fun p lk => commit_node_state s e p i lk I) as Keep.
      destruct (do_commit s e) as [s1 out]. simpl in *. subst out.
      destruct (IH s1 I1 ND) as (s2 & E & I2 & N2 & K2 & U2).
      { intros o' Ho''. apply Keep; [apply Ho'; exact Ho''|right; reflexivity]. }
      { intros o' e' Ho'' Hx. apply Keep; [apply (He o' e'); auto; apply elem_of_cons; auto|]. left.
        intros ->. apply Nn. apply elem_of_list_In, in_map_iff. exists o'. split; [|apply elem_of_list_In; exact Ho''].
        unfold ext_pick. rewrite Hx. reflexivity. }
      exists s2. rewrite E. split; [reflexivity|]. split; [exact I2|]. split; [|split].
      * intros n Hn. apply elem_of_cons in Hn as [->|Hn]; auto.
      * intros p Hp. apply K2, Keep; auto.
      * congruence.
Qed.

Lemma validate_complete s i r : forall l, st_repos s !! i = Some r ->
  (forall n, n ∈ l -> node_state s n i true) ->
  exists vs, validate_parents s r l = Some vs /\ Forall2 (fun n v => st_u2v s !! n = Some v) l vs.
Proof.
  induction l as [|n l IH]; intros Hr Hall; simpl.
  - exists []. split; [reflexivity|constructor].
  - destruct (Hall n) as (r' & v & nd & H1 & H2 & H3 & H4 & H5); [apply elem_of_cons; auto|].
    rewrite Hr in H3. injection H3 as <-. rewrite H1, H4, H5.
    destruct (IH Hr) as (vs & E & F); [intros; apply Hall, elem_of_cons; auto|].
    rewrite E. simpl. exists (v :: vs). split; [reflexivity|]. constructor; auto.
Qed.

Lemma u2v_images_nodup s l vs : RepoInv s -> Forall2 (fun n v => st_u2v s !! n = Some v) l vs ->
  NoDup l -> NoDup vs.
Proof.
  intros I F. induction F as [|n v l vs Hn F IH]; intros ND; [apply NoDup_nil_2|].
  apply NoDup_cons in ND as [Nn ND]. apply NoDup_cons. split; auto.
  intros Hin. apply Nn. destruct (Forall2_elem_r _ _ _ _ F Hin) as (n' & Hn' & E).
  apply (inv_bij s I) in Hn, E. rewrite Hn in E. now injection E as ->.
Qed.

Lemma u2v_image_elem s l vs n v : Forall2 (fun n v => st_u2v s !! n = Some v) l vs ->
  n ∈ l -> st_u2v s !! n = Some v -> v ∈ vs.
Proof.
  intros F. induction F as [|n' v' l vs Hn' F IH]; intros Hin Hn; [inversion Hin|].
  apply elem_of_cons in Hin as [->|Hin].
  - rewrite Hn in Hn'. injection Hn' as <-. apply elem_of_cons. auto.
  - apply elem_of_cons. right. auto.
Qed.

Lemma u2v_preimages_nodup s l vs : Forall2 (fun n v => st_u2v s !! n = Some v) l vs -> NoDup vs -> NoDup l.
Proof.
  intros F. induction F as [|n v l vs Hn F IH]; intros ND; [apply NoDup_nil_2|].
  apply NoDup_cons in ND as [Nv ND]. apply NoDup_cons. split; auto.
  intros Hin. apply Nv. eapply u2v_image_elem; eauto.
Qed.

(* a merge of committed, pairwise distinct nodes of one repo succeeds *)
Lemma merge_succeeds s i l f : RepoInv s -> (2 <= length l)%nat -> NoDup l ->
  (forall n, n ∈ l -> node_state s n i true) -> is_done (snd (do_merge repaired s l f)) = true.
Proof.
  intros I Hlen ND Hall. unfold do_merge.
  destruct l as [|p0 [|p1 rest]]; simpl in Hlen; try lia.
  destruct (Hall p0) as (r & v & nd & H1 & H2 & H3 & H4 & H5); [apply elem_of_cons; auto|].
  rewrite H2. simpl fx_merge_validate. cbv iota. rewrite H3.
  destruct (validate_complete s i r (p0 :: p1 :: rest) H3 Hall) as (vs & E & F). rewrite E.
  pose proof (u2v_images_nodup s _ _ I F ND) as NDv.
  simpl fx_merge_distinct. rewrite andb_true_l. rewrite (bool_decide_eq_true_2 _ NDv). simpl.
  unfold new_uuid. reflexivity.
Qed.

Lemma match_all_length s xs l : match_all s xs = Done l -> length l = length xs.
Proof.
  revert l. induction xs as [|x xs IH]; intros l H; simpl in H.
  - now injection H as <-.
  - destruct (matching s x); try discriminate. simpl in H.
    destruct (match_all s xs) as [l'| | |]; try discriminate. simpl in H. injection H as <-.
    simpl. f_equal. now apply IH.
Qed.

Lemma h_resolve_frame s x data ps f : RepoInv s -> oracle_ok s (RResolve x data ps f) ->
  is_done (snd (h_resolve repaired s x data ps f)) = false -> fst (h_resolve repaired s x data ps f) = s.
Proof.
  intros I [ND FA]. simpl in ND, FA. fold (data_fresh data) in ND, FA.
  unfold h_resolve. destruct (repo_gate s x) as [u| | |]; auto.
  destruct data as [|d data']; auto. set (data := d :: data') in *.
  destruct (length ps <? 2)%nat eqn:Elen; auto.
  destruct (match_all s ps) as [olds| | |] eqn:Em; auto.
  destruct (resolve_prevalidated s u olds (List.map fst data)) eqn:Epre.
  2: { change (fx_resolve_validate repaired && negb false) with true. cbv iota. auto. }
  change (fx_resolve_validate repaired && negb true) with false. cbv iota.
  intros Hfail. exfalso.
  (* what the checks established *)
  unfold resolve_prevalidated in Epre.
  destruct (repo_by_uuid s u) as [ru|] eqn:Eru; [|discriminate].
  destruct olds as [|p0 olds']; [discriminate|]. set (olds := p0 :: olds') in *.
  apply andb_true_iff in Epre as [Hnames Epre].
  destruct (repo_by_uuid s p0) as [r|] eqn:Er0; [|discriminate].
  destruct (validate_parents s r olds) as [vs|] eqn:Ev; [|discriminate].
  apply bool_decide_eq_true in Epre.
  unfold repo_by_uuid in Er0. destruct (st_repo_of s !! p0) as [i|] eqn:Ei; [|discriminate].
  destruct (inv_repo_of s I p0 i Ei) as (R & r' & v0 & n0 & HR & Hr & _).
  rewrite Er0 in Hr. injection Hr as <-.
  destruct (validate_parents_spec s r olds vs Ev) as [Hlen F2].
  assert (F2' : Forall2 (fun n v => st_u2v s !! n = Some v) olds vs).
  { eapply Forall2_impl; [exact F2|]. intros a b [H _]. exact H. }
  assert (NDolds : NoDup olds) by (eapply u2v_preimages_nodup; eauto).
  assert (Holds : forall o, o ∈ olds -> node_state s o i true).
  { intros o Ho. apply elem_of_list_lookup in Ho as [k Hk].
    destruct (Forall2_lookup_l _ _ _ _ _ F2 Hk) as (v & _ & Hu & n & Hn & Hl).
    exists r, v, n. repeat split; auto.
    destruct (inv_nodes s I i R r v n HR Er0 Hn) as [Hv Hro].
    apply (inv_bij s I) in Hu. rewrite Hu in Hv. injection Hv as ->. exact Hro. }
  assert (Hu2v : is_Some (st_u2v s !! u)).
  { unfold repo_by_uuid in Eru. destruct (st_repo_of s !! u) as [iu|] eqn:Eiu; [|discriminate].
    destruct (inv_repo_of s I u iu Eiu) as (_ & _ & vu & _ & _ & _ & Hvu & _). eauto. }
  set (F0 := (data_fresh data ++ [f])%list) in *.
  assert (A0 : absent s F0).
  { intros g Hg. rewrite Forall_forall in FA. apply fresh_ok_parts, FA, Hg. }
  assert (HuF : u ∉ F0).
  { intros Hin. destruct (A0 u Hin) as [_ Hn]. destruct Hu2v. congruence. }
  assert (OK0 : rs_ok s s u i olds [] F0).
  { constructor; auto; simpl; try apply NoDup_nil_2. intros o e H. inversion H. }
  destruct (rs_data_step s u i olds data s [] [f] HuF ND) as (ext & Eext & OK1); auto.
  { exists (r_data ru). unfold data_of. rewrite Eru. auto. }
  destruct (resolve_data repaired s u olds [] data) as [s1 oext]. simpl in Eext, OK1. subst oext.
  destruct OK1 as [I1 A1 D1 O1 E1 S1 S2].
  change (List.map (fun o => match extension_of ext o with Some e => e | None => o end) olds)
    with (List.map (ext_pick ext) olds) in Hfail.
  assert (NDnews : NoDup (List.map (ext_pick ext) olds)).
  { apply ext_pick_nodup; auto. intros o e H. now destruct (E1 o e H) as (_ & ? & _). }
  destruct (rs_commit_step i ext olds s1 I1 NDnews O1) as (s2 & Ec & I2 & N2 & _).
  { intros o e _ Hx. apply extension_of_in in Hx. now destruct (E1 o e Hx). }
  rewrite Ec in Hfail.
  assert (Hl2 : (2 <= length (List.map (ext_pick ext) olds))%nat).
  { rewrite map_length. apply match_all_length in Em. apply Nat.ltb_ge in Elen. lia. }
  rewrite (merge_succeeds s2 i _ f I2 Hl2 NDnews N2) in Hfail. discriminate.
Qed.

(* ------------------------------------------------------------------ the error frame *)

Lemma new_data_frame s u n : is_done (snd (do_new_data s u n)) = false -> frame (fst (do_new_data s u n)) = frame s.
Proof.
  unfold do_new_data. destruct (st_repo_of (bump_instance_id s) !! u) as [i|]; auto.
  destruct (st_repos (bump_instance_id s) !! i) as [r|]; auto.
  destruct (in_list n (r_data r)); auto. simpl. discriminate.
Qed.

Lemma rename_data_frame s u o n p : is_done (snd (do_rename_data s u o n p)) = false -> fst (do_rename_data s u o n p) = s.
Proof.
  unfold do_rename_data. destruct (st_repo_of s !! u) as [i|]; auto.
  destruct (st_repos s !! i) as [r|]; auto.
  repeat (match goal with |- context [if ?b then _ else _] => destruct b end; auto). simpl. discriminate.
Qed.

Lemma delete_data_frame s u n p : is_done (snd (do_delete_data s u n p)) = false -> fst (do_delete_data s u n p) = s.
Proof.
  unfold do_delete_data. destruct (st_repo_of s !! u) as [i|]; auto.
  destruct (st_repos s !! i) as [r|]; auto.
  repeat (match goal with |- context [if ?b then _ else _] => destruct b end; auto). simpl. discriminate.
Qed.

Theorem error_frame s r : RepoInv s -> oracle_ok s r ->
  is_done (snd (step repaired s r)) = false -> frame (fst (step repaired s r)) = frame s.
Proof.
  intros I O. destruct r; simpl.
  - intros H. now rewrite new_repo_frame.
  - intros H. now rewrite h_commit_frame.
  - intros H. now rewrite h_new_version_frame.
  - intros H. now rewrite h_branch_frame.
  - intros H. now rewrite h_tag_frame.
  - intros H. now rewrite h_merge_frame.
  - intros H. now rewrite h_resolve_frame.
  - reflexivity.
  - reflexivity.
  - reflexivity.
  - unfold h_new_data. destruct (repo_gate s u); auto.
    destruct (locked_uuid s a) as [[|]| | |]; auto. destruct (negb type_ok); auto. apply new_data_frame.
  - unfold h_rpc. destruct (matching s u); auto. intros H. now rewrite rename_data_frame.
  - unfold h_rpc. destruct (matching s u); auto. intros H. now rewrite delete_data_frame.
  - unfold h_rpc. destruct (matching s u); auto. intros H. now rewrite delete_repo_frame.
Qed.

(* ------------------------------------------------------------------ what RepoInv means *)

(* the parent relation inside one repo, and its transitive closure *)
Definition parent_of (r : repo) (p v : N) : Prop := exists n, r_nodes r !! v = Some n /\ p ∈ n_parents n.

Lemma wf_acyclic r : repo_wf r -> forall v, ~ tc (parent_of r) v v.
Proof.
  intros W. assert (H : forall a b, tc (parent_of r) a b -> (a < b)%N).
  { induction 1 as [a b (n & Hn & Hp)|a b c (n & Hn & Hp) _ IH].
    - now destruct (wf_parents r W b n a Hn Hp).
    - destruct (wf_parents r W b n a Hn Hp). lia. }
  intros v Hv. apply H in Hv. lia.
Qed.

(* a UUID names one node of one repo *)
Lemma inv_uuid_unique s i j R R' r r' v w n m : RepoInv s ->
  st_roots s !! i = Some R -> st_repos s !! i = Some r -> r_nodes r !! v = Some n ->
  st_roots s !! j = Some R' -> st_repos s !! j = Some r' -> r_nodes r' !! w = Some m ->
  n_uuid n = n_uuid m -> i = j /\ v = w.
Proof.
  intros I HR Hr Hn HR' Hr' Hm E.
  pose proof (inv_node_u2v s i R r v n I HR Hr Hn) as U1.
  pose proof (inv_node_u2v s j R' r' w m I HR' Hr' Hm) as U2.
  destruct (inv_nodes s I i R r v n HR Hr Hn) as [_ O1].
  destruct (inv_nodes s I j R' r' w m HR' Hr' Hm) as [_ O2].
  rewrite E in U1, O1. split; congruence.
Qed.

(* a named branch has one head: two nodes of the branch that no child continues are the same node *)
Lemma inv_one_head s i R r v w n m : RepoInv s ->
  st_roots s !! i = Some R -> st_repos s !! i = Some r ->
  r_nodes r !! v = Some n -> r_nodes r !! w = Some m ->
  n_branch n <> "" -> n_branch m = n_branch n -> branch_leaf r n -> branch_leaf r m -> v = w.
Proof.
  intros I HR Hr Hn Hm Hb Eb Ln Lm.
  pose proof (inv_heads s i R r v n I HR Hr Hn Hb Ln) as H1.
  assert (Hb' : n_branch m <> "") by congruence.
  pose proof (inv_heads s i R r w m I HR Hr Hm Hb' Lm) as H2.
  rewrite Eb, H1 in H2. injection H2 as E.
  now destruct (inv_uuid_unique s i i R R r r v w n m I HR Hr Hn HR Hr Hm E).
Qed.

(* ------------------------------------------------------------------ the code as found *)

Definition fresh_okb (s : state) (f : string) : bool :=
  valid_uuid f && bool_decide (st_u2v s !! f = None).
Definition oracle_okb (s : state) (r : req) : bool :=
  bool_decide (NoDup (fresh_of r)) && forallb (fresh_okb s) (fresh_of r).
Fixpoint oracles_okb (fx : fixes) (s : state) (rs : list req) : bool :=
  match rs with
  | [] => true
  | r :: rest => oracle_okb s r && oracles_okb fx (fst (step fx s r)) rest
  end.

Lemma oracle_okb_ok s r : oracle_okb s r = true -> oracle_ok s r.
Proof.
  unfold oracle_okb, oracle_ok. intros H. apply andb_true_iff in H as [H1 H2].
  apply bool_decide_eq_true in H1. split; auto. apply Forall_forall. intros f Hf.
  rewrite forallb_forall in H2. specialize (H2 f (proj1 (elem_of_list_In _ _) Hf)).
  unfold fresh_okb in H2. apply andb_true_iff in H2 as [A B]. apply bool_decide_eq_true in B. split; auto.
Qed.

Lemma oracles_okb_ok fx rs : forall s, oracles_okb fx s rs = true -> oracles_ok fx s rs.
Proof.
  induction rs as [|r rs IH]; intros s H; simpl in *; auto.
  apply andb_true_iff in H as [H1 H2]. split; [now apply oracle_okb_ok|now apply IH].
Qed.

(* a sequence of requests, each with a correct UUID oracle, whose last request is answered with an
   error although it changed the state *)
Definition frame_violated (fx : fixes) (rs : list req) (r : req) : Prop :=
  oracles_ok fx init (rs ++ [r])%list /\
  is_done (snd (step fx (run fx init rs) r)) = false /\
  frame (fst (step fx (run fx init rs) r)) <> frame (run fx init rs).

Definition U (s : string) : string := s.
Definition u1 := "00000000000000000000000000000001".
Definition u2 := "00000000000000000000000000000002".
Definition u3 := "00000000000000000000000000000003".
Definition u4 := "00000000000000000000000000000004".
Definition u5 := "00000000000000000000000000000005".
Definition u6 := "00000000000000000000000000000006".

(* a repo whose committed root has a committed branch a (u2) and an open branch b (u3) *)
Definition prelude : list req :=
  [RNewRepo None "" u1; RCommit (U u1); RBranch (U u1) "a" "" u2; RBranch (U u1) "b" "" u3; RCommit (U u2)].

Definition only_merge_unvalidated := mkFixes false true true true true true.
Definition only_merge_undistinct := mkFixes true false true true true true.
Definition only_assign_unchecked := mkFixes true true false true true true.
Definition only_tag_unguarded := mkFixes true true true false true true.
Definition only_root_unvalidated := mkFixes true true true true false true.
Definition only_resolve_unvalidated := mkFixes true true true true true false.

(* 1. a refused merge (parent b is not committed) leaves its child in the DAG *)
Lemma merge_orphan_refuted :
  frame_violated only_merge_unvalidated prelude (RMerge (U u2) true [U u2; U u3] u4).
Proof.
  split; [apply oracles_okb_ok; vm_compute; reflexivity|]. split; [vm_compute; reflexivity|].
  intros H. apply (f_equal (fun fr => snd (fst fr))) in H. vm_compute in H. discriminate.
Qed.

(* ... and when the bad parent comes first the orphan is a second root *)
Lemma merge_second_root_refuted :
  oracles_ok only_merge_unvalidated init (prelude ++ [RMerge (U u3) true [U u3; U u2] u4])%list /\
  ~ RepoInv (run only_merge_unvalidated init (prelude ++ [RMerge (U u3) true [U u3; U u2] u4])).
Proof.
  split; [apply oracles_okb_ok; vm_compute; reflexivity|]. intros I.
  set (s := run _ _ _) in *.
  destruct (inv_live s I 1%N u1) as (r & Hr & _ & W); [vm_compute; reflexivity|].
  vm_compute in Hr. injection Hr as <-.
  pose proof (wf_single_root _ W 4%N (mkNode u4 [] [] "" false)) as H.
  assert (E : 4%N = 1%N) by (apply H; vm_compute; reflexivity). discriminate.
Qed.

(* 2. a parent listed twice is accepted: the DAG gets a double edge *)
Lemma repeated_parent_refuted :
  oracles_ok only_merge_undistinct init (prelude ++ [RMerge (U u2) true [U u2; U u2] u4])%list /\
  ~ RepoInv (run only_merge_undistinct init (prelude ++ [RMerge (U u2) true [U u2; U u2] u4])).
Proof.
  split; [apply oracles_okb_ok; vm_compute; reflexivity|]. intros I.
  set (s := run _ _ _) in *.
  destruct (inv_live s I 1%N u1) as (r & Hr & _ & W); [vm_compute; reflexivity|].
  vm_compute in Hr. injection Hr as <-.
  destruct (wf_nodup _ W 4%N (mkNode u4 [2%N; 2%N] [] "" false)) as [H _]; [vm_compute; reflexivity|].
  apply NoDup_cons in H as [H _]. apply H. apply elem_of_cons. auto.
Qed.

(* 3. a tag that is the UUID of an existing node creates a second node with that UUID *)
Lemma duplicate_uuid_refuted :
  oracles_ok only_assign_unchecked init (prelude ++ [RTag (U u2) u1])%list /\
  ~ RepoInv (run only_assign_unchecked init (prelude ++ [RTag (U u2) u1])).
Proof.
  split; [apply oracles_okb_ok; vm_compute; reflexivity|]. intros I.
  set (s := run _ _ _) in *.
  (* version 1 still maps to u1, but u1 now maps to version 4 *)
  assert (H : st_u2v s !! u1 = Some 1%N) by (apply (inv_bij s I); vm_compute; reflexivity).
  vm_compute in H. discriminate.
Qed.

(* ... and the empty tag creates a node whose UUID is NilUUID *)
Lemma empty_uuid_refuted :
  oracles_ok only_assign_unchecked init (prelude ++ [RTag (U u2) ""])%list /\
  ~ RepoInv (run only_assign_unchecked init (prelude ++ [RTag (U u2) ""])).
Proof.
  split; [apply oracles_okb_ok; vm_compute; reflexivity|]. intros I.
  pose proof (inv_nil _ I) as H. vm_compute in H. discriminate.
Qed.

(* 4. POST tag on the open node u3 naming the open node u4: refused, yet u4 is now committed *)
Lemma tag_commits_on_error_refuted :
  frame_violated only_tag_unguarded (prelude ++ [RNewVersion (U u2) "" u4])%list (RTag (U u3) u4).
Proof.
  split; [apply oracles_okb_ok; vm_compute; reflexivity|]. split; [vm_compute; reflexivity|].
  intros H. apply (f_equal (fun fr => (fst (fst (fst (fst (fst (fst (fst fr))))))))) in H.
  apply (f_equal (fun m => match m !! 1%N with
                           | Some r => option_map n_locked (r_nodes r !! 4%N)
                           | None => None end)) in H.
  vm_compute in H. discriminate.
Qed.

(* 5. roots "xa" and "xab": caching the heads of the first repo drops every key that starts with "xa",
      the second repo's included, and its branch "bmaster" is cached under the key of the second
      repo's master *)
Definition collide : list req :=
  [RNewRepo (Some "xa") "" u1; RCommit (U "xa"); RNewVersion (U "xa") "" u2;
   RNewRepo (Some "xab") "" u3; RCommit (U u2); RBranch (U u2) "bmaster" "" u4].
Lemma head_key_collision_refuted :
  oracles_ok only_root_unvalidated init collide /\
  matching (run only_root_unvalidated init collide) (U "xab:master") = Done u4 /\
  st_repo_of (run only_root_unvalidated init collide) !! u4 = Some 1%N /\
  st_repo_of (run only_root_unvalidated init collide) !! "xab" = Some 2%N.
Proof. split; [apply oracles_okb_ok; vm_compute; reflexivity|]. vm_compute. auto. Qed.

(* 6. resolve: the first data instance has a conflict in parent u3, the second does not exist *)
Lemma resolve_partial_refuted :
  frame_violated only_resolve_unvalidated
    (prelude ++ [RNewData (U u3) true "d1"; RCommit (U u3)])%list
    (RResolve (U u1) [("d1", [(1%nat, u5)]); ("nosuchdata", [])] [U u2; U u3] u6).
Proof.
  split; [apply oracles_okb_ok; vm_compute; reflexivity|]. split; [vm_compute; reflexivity|].
  intros H. apply (f_equal (fun fr => snd (fst fr))) in H. vm_compute in H. discriminate.
Qed.

(* the repaired code refuses all of these (and, by error_frame, leaves the state as it was) *)
Lemma repaired_refuses_witnesses :
  snd (step repaired (run repaired init prelude) (RMerge (U u2) true [U u2; U u3] u4)) = Fail /\
  snd (step repaired (run repaired init prelude) (RMerge (U u2) true [U u2; U u2] u4)) = Fail /\
  snd (step repaired (run repaired init prelude) (RTag (U u2) u1)) = Fail /\
  snd (step repaired (run repaired init prelude) (RTag (U u2) "")) = Fail /\
  snd (step repaired init (RNewRepo (Some "xa") "" u1)) = Fail.
Proof. vm_compute. repeat split. Qed.

(* ------------------------------------------------------------------ the fuel is enough *)
(* the ancestry walk visits strictly decreasing version ids of one repo: it cannot take more steps
   than the repo has nodes *)

Lemma path_bound (m : gmap N node) (acc : list N) :
  NoDup acc -> (forall x, x ∈ acc -> is_Some (m !! x)) -> (length acc <= size m)%nat.
Proof.
  intros ND Hin. unfold size, map_size.
  rewrite <- (map_length fst (map_to_list m)).
  apply submseteq_length, NoDup_submseteq; auto.
  intros x Hx. destruct (Hin x Hx) as [n Hn].
  apply elem_of_list_In, in_map_iff. exists (x, n). split; auto. apply elem_of_list_In, elem_of_map_to_list. exact Hn.
Qed.

Lemma lookup_all_spec (m : gmap N node) vs l : lookup_all m vs = Some l ->
  forall x, x ∈ l -> exists v, v ∈ vs /\ m !! v = Some x.
Proof.
  revert l. induction vs as [|a vs IH]; intros l H x Hx; simpl in H.
  - injection H as <-. inversion Hx.
  - destruct (m !! a) as [na|] eqn:Ea; [|discriminate].
    destruct (lookup_all m vs) as [l'|]; [|discriminate]. injection H as <-.
    apply elem_of_cons in Hx as [->|Hx].
    + exists a. split; auto. apply elem_of_cons. auto.
    + destruct (IH l' eq_refl x Hx) as (v & Hv & Hm). exists v. split; auto. apply elem_of_cons. auto.
Qed.

Section Fuel.
Variable r : repo.
Hypothesis W : repo_wf r.

Lemma ascend_no_hang : forall fuel acc v n,
  r_nodes r !! v = Some n -> NoDup acc -> (forall x, x ∈ acc -> (v < x)%N /\ is_Some (r_nodes r !! x)) ->
  (size (r_nodes r) < fuel + length acc)%nat ->
  ascend fuel (r_nodes r) n <> Hang.
Proof.
  induction fuel as [|fuel IH]; intros acc v n Hn ND Hacc Hf.
  - exfalso. assert (length acc <= size (r_nodes r))%nat by (apply path_bound; auto; intros x Hx; now apply Hacc).
    simpl in Hf. lia.
  - simpl. destruct (lookup_all (r_nodes r) (n_parents n)) as [ps|] eqn:Eps; [|discriminate].
    destruct (List.rev ps) as [|lastp rinit] eqn:Er; [discriminate|].
    assert (Hp : lastp ∈ ps).
    { apply elem_of_list_In, in_rev. rewrite Er. left. auto. }
    destruct (lookup_all_spec _ _ _ Eps lastp Hp) as (vp & Hvp & Hmp).
    destruct (wf_parents r W v n vp Hn Hvp) as [Lt _].
    assert (Hrec : ascend fuel (r_nodes r) lastp <> Hang).
    { apply (IH (acc ++ [v])%list vp lastp Hmp).
      - apply NoDup_app. repeat split; auto; [|apply NoDup_singleton].
        intros x Hx Hx'. apply elem_of_list_singleton in Hx' as ->. destruct (Hacc v Hx). lia.
      - intros x Hx. apply elem_of_app in Hx as [Hx|Hx].
        + destruct (Hacc x Hx). split; auto. lia.
        + apply elem_of_list_singleton in Hx as ->. split; eauto.
      - rewrite app_length. simpl. lia. }
    destruct (ascend fuel (r_nodes r) lastp); simpl; try discriminate. congruence.
Qed.

Lemma ancestry_no_hang name : ancestry r name <> Hang.
Proof.
  unfold ancestry. destruct (newest _ r) as [[v0 n0]|] eqn:En; [|discriminate].
  destruct (newest_some _ _ _ _ En) as (Hv0 & _ & _).
  apply (ascend_no_hang (S (size (r_nodes r))) [] v0 n0 Hv0 (NoDup_nil_2)).
  - intros x Hx. inversion Hx.
  - simpl. lia.
Qed.

End Fuel.

Lemma obind_no_hang {A B} (x : outcome A) (f : A -> outcome B) :
  x <> Hang -> (forall a, x = Done a -> f a <> Hang) -> obind x f <> Hang.
Proof. destruct x; simpl; auto; congruence. Qed.

Lemma of_opt_no_hang {A} (x : option A) : of_opt x <> Hang.
Proof. destruct x; discriminate. Qed.

Lemma repo_by_uuid_wf s u r : RepoInv s -> repo_by_uuid s u = Some r -> repo_wf r.
Proof.
  intros I H. unfold repo_by_uuid in H. destruct (st_repo_of s !! u) as [i|] eqn:Ei; [|discriminate].
  destruct (inv_repo_of s I u i Ei) as (R & r' & _ & _ & HR & Hr & _). rewrite H in Hr. injection Hr as <-.
  now destruct (inv_root_eq s i R r I HR H).
Qed.

Lemma the_only_repo_wf s r : RepoInv s -> the_only_repo s = Done r -> repo_wf r.
Proof.
  intros I. unfold the_only_repo. destruct (map_to_list (st_roots s)) as [|[i R] [|]] eqn:E; try discriminate.
  assert (HR : st_roots s !! i = Some R) by (apply elem_of_map_to_list; rewrite E; apply elem_of_cons; auto).
  destruct (st_repos s !! i) as [r'|] eqn:Hr; [|discriminate]. simpl. intros [= <-].
  now destruct (inv_root_eq s i R r' I HR Hr).
Qed.

Lemma gbv_no_hang s u name : RepoInv s -> get_branch_version s u name <> Hang.
Proof.
  intros I. unfold get_branch_version. apply obind_no_hang.
  - destruct (String.eqb u ""); [|apply of_opt_no_hang].
    unfold the_only_repo. destruct (map_to_list (st_roots s)) as [|[i R] [|]]; try discriminate. apply of_opt_no_hang.
  - intros r Hr. assert (W : repo_wf r).
    { destruct (String.eqb u ""); [now apply (the_only_repo_wf s)|].
      destruct (repo_by_uuid s u) eqn:E; [|discriminate]. injection Hr as <-. now apply (repo_by_uuid_wf s u). }
    apply obind_no_hang.
    + destruct (split_on "~" name) as [|nm [|k [|]]]; try apply of_opt_no_hang.
      apply obind_no_hang; [now apply ancestry_no_hang|].
      intros anc _. destruct (atoi k) as [z|]; [|discriminate].
      destruct (z <? 0)%Z; [discriminate|apply of_opt_no_hang].
    + intros bu _. destruct (st_u2v s !! bu); discriminate.
Qed.

Lemma matching_no_hang s x : RepoInv s -> matching s x <> Hang.
Proof.
  intros I. unfold matching.
  assert (P : forall p b, match prefix_matches s p with
                          | [(u, _)] => if String.eqb b "" then Done u else get_branch_version s u b
                          | _ => Fail end <> Hang).
  { intros p b. destruct (prefix_matches s p) as [|[u v] [|]]; try discriminate.
    destruct (String.eqb b ""); [discriminate|now apply gbv_no_hang]. }
  destruct (split_on ":" x) as [|a [|b [|]]]; try discriminate; auto.
  destruct (String.eqb a ""); auto. now apply gbv_no_hang.
Qed.

Lemma match_all_no_hang s xs : RepoInv s -> match_all s xs <> Hang.
Proof.
  intros I. induction xs as [|x xs IH]; simpl; [discriminate|].
  apply obind_no_hang; [now apply matching_no_hang|]. intros u _.
  apply obind_no_hang; [exact IH|intros l _; discriminate].
Qed.

Lemma node_gate_no_hang s x b : RepoInv s -> node_gate s x b <> Hang.
Proof.
  intros I. unfold node_gate. apply obind_no_hang; [now apply matching_no_hang|]. intros u _.
  apply obind_no_hang.
  - unfold locked_uuid. destruct (find_node s u) as [[[[? ?] ?] ?]|]; discriminate.
  - intros lk _. destruct (lk && negb b); discriminate.
Qed.

Lemma recast_hang {A B} (o : outcome A) : o <> Hang -> @recast A B o <> Hang.
Proof. destruct o; simpl; auto; discriminate. Qed.

Lemma do_new_version_no_hang fx s p b a f : snd (do_new_version fx s p b a f) <> Hang.
Proof.
  unfold do_new_version. destruct (find_node s p) as [[[[i r] v] n]|]; [|discriminate].
  destruct (negb (n_locked n)); [discriminate|].
  match goal with |- context [match ?o with Some _ => _ | None => (s, Fail) end] => destruct o end; [|discriminate].
  destruct (fx_assign_check fx && assign_refused s a); [discriminate|]. unfold new_uuid. simpl. discriminate.
Qed.

Lemma do_merge_no_hang fx s ps f : snd (do_merge fx s ps f) <> Hang.
Proof.
  unfold do_merge. destruct ps as [|p0 [|p1 rest]]; try discriminate.
  destruct (st_repo_of s !! p0) as [i|]; [|discriminate].
  remember (p0 :: p1 :: rest) as ps eqn:Eps. clear Eps.
  destruct (fx_merge_validate fx).
  - destruct (st_repos s !! i) as [r|]; [|discriminate].
    destruct (validate_parents s r ps) as [vs|]; [|discriminate].
    destruct (fx_merge_distinct fx && negb (bool_decide (NoDup vs))); [discriminate|].
    unfold new_uuid. simpl. discriminate.
  - unfold new_uuid. simpl.
    match goal with |- context [merge_link ?a ?b ?c ?d] => destruct (merge_link a b c d) as [s4 [|]] end; discriminate.
Qed.

Lemma do_commit_no_hang s u : snd (do_commit s u) <> Hang.
Proof.
  unfold do_commit. destruct (find_node s u) as [[[[i r] v] n]|]; [|discriminate].
  destruct (n_locked n); discriminate.
Qed.

(* no request makes the repaired code loop on a state that satisfies the invariant *)
Theorem step_no_hang s r : RepoInv s -> snd (step repaired s r) <> Hang.
Proof.
  intros I. destruct r; simpl.
  - unfold do_new_repo. match goal with |- context [if ?b then _ else _] => destruct b end; [discriminate|].
    unfold new_uuid. simpl. discriminate.
  - unfold h_commit. pose proof (node_gate_no_hang s u false I) as G.
    destruct (node_gate s u false) as [a| | |]; simpl; try discriminate; [|congruence].
    unfold locked_uuid. destruct (find_node s a) as [[[[? ?] ?] n]|]; [|discriminate].
    destruct (n_locked n); [discriminate|].
    pose proof (do_commit_no_hang s a). destruct (do_commit s a) as [s1 [[]| | |]]; simpl in *; congruence.
  - unfold h_new_version. pose proof (node_gate_no_hang s u true I) as G.
    destruct (node_gate s u true) as [a| | |]; simpl; try discriminate; [|congruence].
    unfold parse_assign. destruct (String.eqb assign ""); [apply do_new_version_no_hang|].
    destruct (valid_uuid assign); [apply do_new_version_no_hang|discriminate].
  - unfold h_branch. pose proof (node_gate_no_hang s u true I) as G.
    destruct (node_gate s u true) as [a| | |]; simpl; try discriminate; [|congruence].
    unfold parse_assign. destruct (String.eqb assign ""); [|destruct (valid_uuid assign); [|discriminate]];
      (match goal with |- context [if ?b then _ else _] => destruct b end;
       [discriminate|apply do_new_version_no_hang]).
  - unfold h_tag. pose proof (node_gate_no_hang s u true I) as G.
    destruct (node_gate s u true) as [a| | |]; simpl; try discriminate; [|congruence].
    pose proof (do_new_version_no_hang repaired s a (s_tag_prefix ++ tag) (Some tag) "") as H.
    destruct (do_new_version repaired s a (s_tag_prefix ++ tag) (Some tag) "") as [s1 [c| | |]]; simpl in *; congruence.
  - unfold h_merge, repo_gate. pose proof (matching_no_hang s u I) as G.
    destruct (matching s u) as [a| | |]; simpl; try discriminate; [|congruence].
    destruct (length parents <? 2)%nat; [discriminate|].
    pose proof (match_all_no_hang s parents I) as M.
    destruct (match_all s parents) as [ps| | |]; simpl; try discriminate; [|congruence].
    destruct (negb mtype_ok); [discriminate|apply do_merge_no_hang].
  - unfold h_resolve, repo_gate. pose proof (matching_no_hang s u I) as G.
    destruct (matching s u) as [a| | |]; simpl; try discriminate; [|congruence].
    destruct data as [|d data']; [discriminate|].
    destruct (length parents <? 2)%nat; [discriminate|].
    pose proof (match_all_no_hang s parents I) as M.
    destruct (match_all s parents) as [ps| | |]; try discriminate; [|simpl; congruence].
    match goal with |- context [if ?b then _ else _] => destruct b end; [discriminate|].
    destruct (resolve_data repaired s a ps [] (d :: data')) as [s1 [ext|]]; [|discriminate].
    match goal with |- context [commit_extensions ?a ?b ?c] => destruct (commit_extensions a b c) as [s2 [|]] end;
      [apply do_merge_no_hang|discriminate].
  - apply node_gate_no_hang, I.
  - apply node_gate_no_hang, I.
  - apply matching_no_hang, I.
  - unfold h_new_data, repo_gate. pose proof (matching_no_hang s u I) as G.
    destruct (matching s u) as [a| | |]; simpl; try discriminate; [|congruence].
    unfold locked_uuid. destruct (find_node s a) as [[[[? ?] ?] n]|]; [|discriminate].
    destruct (n_locked n); [discriminate|]. destruct (negb type_ok); [discriminate|].
    unfold do_new_data. destruct (st_repo_of _ !! a) as [i0|]; [|discriminate].
    destruct (st_repos _ !! i0) as [r0|]; [|discriminate]. destruct (in_list name (r_data r0)); discriminate.
  - unfold h_rpc. pose proof (matching_no_hang s u I) as G.
    destruct (matching s u) as [a| | |]; simpl; try discriminate; [|congruence].
    unfold do_rename_data. destruct (st_repo_of s !! a) as [i|]; [|discriminate].
    destruct (st_repos s !! i) as [r|]; [|discriminate].
    repeat (match goal with |- context [if ?b then _ else _] => destruct b end; try discriminate).
  - unfold h_rpc. pose proof (matching_no_hang s u I) as G.
    destruct (matching s u) as [a| | |]; simpl; try discriminate; [|congruence].
    unfold do_delete_data. destruct (st_repo_of s !! a) as [i|]; [|discriminate].
    destruct (st_repos s !! i) as [r|]; [|discriminate].
    repeat (match goal with |- context [if ?b then _ else _] => destruct b end; try discriminate).
  - unfold h_rpc. pose proof (matching_no_hang s u I) as G.
    destruct (matching s u) as [a| | |]; simpl; try discriminate; [|congruence].
    unfold do_delete_repo. destruct (st_repo_of s !! a) as [i|]; [|discriminate].
    destruct (st_repos s !! i) as [r|]; [|discriminate].
    repeat (match goal with |- context [if ?b then _ else _] => destruct b end; try discriminate).
    match goal with |- context [drop_versions ?a ?b] => destruct (drop_versions a b) end; discriminate.
Qed.

(* ------------------------------------------------------------------ one child per branch *)

(* newversion on a node that already has a child on its branch (whatever created that child:
   newversion, a branch request with the parent's own branch name, or -- on master -- a merge, whose
   node carries the empty branch name) is refused: branches never fork through newversion *)
Lemma newversion_sister_refused fx s p a f i r v n c cn :
  find_node s p = Some (i, r, v, n) -> c ∈ n_children n -> r_nodes r !! c = Some cn ->
  n_branch cn = n_branch n -> snd (do_new_version fx s p "" a f) = Fail.
Proof.
  intros F Hc Hcn Eb. unfold do_new_version. rewrite F.
  destruct (negb (n_locked n)); [reflexivity|]. simpl.
  destruct (lookup_all (r_nodes r) (n_children n)) as [sis|] eqn:Es; [|reflexivity].
  pose proof (lookup_all_elem _ _ _ _ _ Es Hc Hcn) as Hin.
  assert (Hex : existsb (fun sn => String.eqb (n_branch sn) (n_branch n)) sis = true).
  { apply existsb_exists. exists cn. split; [now apply elem_of_list_In|]. rewrite Eb. apply String.eqb_refl. }
  rewrite Hex. reflexivity.
Qed.

(* the DAG of the C02 driver: V = u2 on master with master child U = u4, W = u3 on branch "side" *)
Definition c02dag : list req :=
  [RNewRepo None "" u1; RCommit (U u1); RNewVersion (U u1) "" u2; RCommit (U u2);
   RBranch (U u1) "side" "" u3; RCommit (U u3); RNewVersion (U u2) "" u4].

(* a second newversion on V is refused; the merge [V, W] is accepted and its node (branch "", i.e. the
   default branch) is a second child of V on that branch; newversion on V stays refused.  The head of
   the default branch is its newest node: U before the merge, the merge node after it, and
   root:master, root:master~0, root:master~1 are the same function of the DAG on every call *)
Lemma master_after_merge_example :
  let s0 := run repaired init c02dag in
  let s1 := fst (step repaired s0 (RMerge (U u2) true [U u2; U u3] u5)) in
  snd (step repaired s0 (RNewVersion (U u2) "" u5)) = Fail /\
  snd (step repaired s0 (RMerge (U u2) true [U u2; U u3] u5)) = Done u5 /\
  snd (step repaired s1 (RNewVersion (U u2) "" u6)) = Fail /\
  matching s0 (U (u1 ++ ":master")) = Done u4 /\
  matching s1 (U (u1 ++ ":master")) = Done u5 /\
  matching s1 (U (u1 ++ ":master~0")) = Done u5 /\
  matching s1 (U (u1 ++ ":master~1")) = Done u2.
Proof. vm_compute. repeat split. Qed.
