(* Proofs.Repo: RepoInv is an inductive invariant of Model.Repo (repaired), error answers leave the
   state alone, and the code as found violated both. *)
From DV Require Import Base.Prelude Model.Repo Model.RepoInv.
From Coq Require Import String Ascii.
From stdpp Require Import gmap strings.
Local Open Scope string_scope.

(* ------------------------------------------------------------------ strings *)

Lemma append_inj_len a b x y :
  String.length a = String.length b -> a ++ x = b ++ y -> a = b /\ x = y.
Proof.
  revert b. induction a as [|c a IH]; intros [|d b] Hl He; simpl in *; try discriminate.
  - auto.
  - injection He as -> He. injection Hl as Hl. destruct (IH b Hl He) as [-> ->]. auto.
Qed.

Lemma branch_label_inj b1 b2 :
  b1 <> "master" -> b2 <> "master" -> branch_label b1 = branch_label b2 -> b1 = b2.
Proof.
  unfold branch_label. intros H1 H2.
  destruct (String.eqb_spec b1 ""), (String.eqb_spec b2 ""); subst; auto; intros E; congruence.
Qed.

Lemma head_key_inj R1 R2 b1 b2 :
  String.length R1 = 32%nat -> String.length R2 = 32%nat -> b1 <> "master" -> b2 <> "master" ->
  head_key R1 b1 = head_key R2 b2 -> R1 = R2 /\ b1 = b2.
Proof.
  unfold head_key. intros L1 L2 H1 H2 E.
  destruct (append_inj_len R1 R2 _ _ (eq_trans L1 (eq_sym L2)) E) as [-> E2].
  split; auto using branch_label_inj.
Qed.

Lemma valid_uuid_len u : valid_uuid u = true -> String.length u = 32%nat.
Proof. unfold valid_uuid. intros H. apply andb_true_iff in H as [H _]. now apply Nat.eqb_eq in H. Qed.

Lemma valid_uuid_nonempty u : valid_uuid u = true -> u <> "".
Proof. intros H ->. discriminate H. Qed.

Lemma eqb_false_ne a b : String.eqb a b = false -> a <> b.
Proof. apply String.eqb_neq. Qed.

(* ------------------------------------------------------------------ consequences of RepoInv *)

Lemma inv_u2v_node s u v : RepoInv s -> st_u2v s !! u = Some v ->
  exists i R r n, st_roots s !! i = Some R /\ st_repos s !! i = Some r /\ st_repo_of s !! u = Some i /\
                  r_nodes r !! v = Some n /\ n_uuid n = u.
Proof.
  intros I Hu. pose proof (proj1 (inv_bij s I u v) Hu) as Hv.
  destruct (inv_mapped s I v u Hv) as [i Hi].
  destruct (inv_repo_of s I u i Hi) as (R & r & v' & n & HR & Hr & Hu' & Hn).
  rewrite Hu in Hu'. injection Hu' as <-.
  destruct (inv_nodes s I i R r v n HR Hr Hn) as [Hv' _]. rewrite Hv in Hv'. injection Hv' as Hv'.
  exists i, R, r, n. auto.
Qed.

Lemma find_node_spec s u i r v n : find_node s u = Some (i, r, v, n) ->
  st_u2v s !! u = Some v /\ st_repo_of s !! u = Some i /\ st_repos s !! i = Some r /\ r_nodes r !! v = Some n.
Proof.
  unfold find_node. destruct (st_u2v s !! u) as [v'|]; [|discriminate].
  destruct (st_repo_of s !! u) as [i'|]; [|discriminate].
  destruct (st_repos s !! i') as [r'|] eqn:E1; [|discriminate].
  destruct (r_nodes r' !! v') as [n'|] eqn:E2; [|discriminate].
  intros H. injection H as <- <- <- <-. repeat split; auto.
Qed.

Lemma find_node_live s u i r v n : RepoInv s -> find_node s u = Some (i, r, v, n) ->
  exists R, st_roots s !! i = Some R /\ n_uuid n = u.
Proof.
  intros I H. apply find_node_spec in H as (Hu & Hi & Hr & Hn).
  destruct (inv_repo_of s I u i Hi) as (R & r' & v' & n' & HR & Hr' & Hu' & Hn').
  rewrite Hr in Hr'. injection Hr' as <-. rewrite Hu in Hu'. injection Hu' as <-.
  exists R. split; auto.
  destruct (inv_nodes s I i R r v n HR Hr Hn) as [Hv _].
  apply (inv_bij s I) in Hu. rewrite Hu in Hv. now injection Hv.
Qed.

(* a version id belongs to one live repo only *)
Lemma inv_disjoint s i j R R' r r' v n n' : RepoInv s ->
  st_roots s !! i = Some R -> st_repos s !! i = Some r -> r_nodes r !! v = Some n ->
  st_roots s !! j = Some R' -> st_repos s !! j = Some r' -> r_nodes r' !! v = Some n' -> i = j.
Proof.
  intros I HR Hr Hn HR' Hr' Hn'.
  destruct (inv_nodes s I i R r v n HR Hr Hn) as [H1 H2].
  destruct (inv_nodes s I j R' r' v n' HR' Hr' Hn') as [H3 H4].
  rewrite H1 in H3. injection H3 as E. rewrite E in H2. rewrite H2 in H4. now injection H4.
Qed.

Lemma inv_root_eq s i R r : RepoInv s -> st_roots s !! i = Some R -> st_repos s !! i = Some r ->
  r_root r = R /\ repo_wf r.
Proof.
  intros I HR Hr. destruct (inv_live s I i R HR) as (r' & Hr' & E & W).
  rewrite Hr in Hr'. injection Hr' as <-. auto.
Qed.

(* the UUIDs of nodes are in uuidToVersion *)
Lemma inv_node_u2v s i R r v n : RepoInv s ->
  st_roots s !! i = Some R -> st_repos s !! i = Some r -> r_nodes r !! v = Some n ->
  st_u2v s !! n_uuid n = Some v.
Proof.
  intros I HR Hr Hn. apply (inv_bij s I). now destruct (inv_nodes s I i R r v n HR Hr Hn).
Qed.

(* distinct live repos have distinct roots *)
Lemma inv_roots_inj s i j R : RepoInv s -> st_roots s !! i = Some R -> st_roots s !! j = Some R -> i = j.
Proof.
  intros I Hi Hj.
  destruct (inv_live s I i R Hi) as (r & Hr & E & W).
  destruct (inv_live s I j R Hj) as (r' & Hr' & E' & W').
  destruct (wf_root r W) as (n & Hn & Un & _). destruct (wf_root r' W') as (n' & Hn' & Un' & _).
  destruct (inv_nodes s I i R r _ n Hi Hr Hn) as [_ H1].
  destruct (inv_nodes s I j R r' _ n' Hj Hr' Hn') as [_ H2].
  rewrite Un, E in H1. rewrite Un', E' in H2. rewrite H1 in H2. now injection H2.
Qed.

(* ------------------------------------------------------------------ the initial state *)

Lemma inv_init : RepoInv init.
Proof.
  constructor; unfold init; simpl; intros; try (rewrite lookup_empty in *; discriminate); auto.
  split; rewrite lookup_empty; discriminate.
Qed.

(* ------------------------------------------------------------------ in-place node updates *)
(* commit, data instance operations: same node set, same links; locks only grow *)

Definition node_same (n n' : node) : Prop :=
  n_uuid n' = n_uuid n /\ n_parents n' = n_parents n /\ n_children n' = n_children n /\
  n_branch n' = n_branch n /\ (n_locked n = true -> n_locked n' = true).

Definition nodes_same (m m' : gmap N node) : Prop :=
  forall v, option_Forall2 node_same (m !! v) (m' !! v).

Lemma nodes_same_fwd m m' v n : nodes_same m m' -> m !! v = Some n -> exists n', m' !! v = Some n' /\ node_same n n'.
Proof. intros H E. specialize (H v). rewrite E in H. inversion H; subst. eauto. Qed.
Lemma nodes_same_bwd m m' v n' : nodes_same m m' -> m' !! v = Some n' -> exists n, m !! v = Some n /\ node_same n n'.
Proof. intros H E. specialize (H v). rewrite E in H. inversion H; subst. eauto. Qed.

Lemma node_same_refl n : node_same n n.
Proof. repeat split; auto. Qed.

Lemma repo_wf_same r r' : repo_wf r -> r_root r' = r_root r -> r_rootv r' = r_rootv r ->
  nodes_same (r_nodes r) (r_nodes r') -> repo_wf r'.
Proof.
  intros W ER EV S. constructor.
  - destruct (wf_root r W) as (n & Hn & U & P).
    destruct (nodes_same_fwd _ _ _ _ S Hn) as (n' & Hn' & (A & B & C & D & E)).
    exists n'. rewrite EV, ER. repeat split; congruence.
  - intros v n' Hn' P. destruct (nodes_same_bwd _ _ _ _ S Hn') as (n & Hn & (A & B & C & D & E)).
    rewrite EV. apply (wf_single_root r W v n Hn). congruence.
  - intros v n' p Hn' Hp. destruct (nodes_same_bwd _ _ _ _ S Hn') as (n & Hn & (A & B & C & D & E)).
    rewrite B in Hp. destruct (wf_parents r W v n p Hn Hp) as (Lt & pn & Hpn & Lk & Ch).
    split; auto. destruct (nodes_same_fwd _ _ _ _ S Hpn) as (pn' & Hpn' & (A' & B' & C' & D' & E')).
    exists pn'. repeat split; auto. now rewrite C'.
  - intros v n' c Hn' Hc. destruct (nodes_same_bwd _ _ _ _ S Hn') as (n & Hn & (A & B & C & D & E)).
    rewrite C in Hc. destruct (wf_children r W v n c Hn Hc) as (cn & Hcn & Pc).
    destruct (nodes_same_fwd _ _ _ _ S Hcn) as (cn' & Hcn' & (A' & B' & C' & D' & E')).
    exists cn'. split; auto. now rewrite B'.
  - intros v n' Hn'. destruct (nodes_same_bwd _ _ _ _ S Hn') as (n & Hn & (A & B & C & D & E)).
    rewrite B, C. apply (wf_nodup r W v n Hn).
  - intros v n' Hn' Hb. destruct (nodes_same_bwd _ _ _ _ S Hn') as (n & Hn & (A & B & C & D & E)).
    rewrite B. apply (wf_named_one_parent r W v n Hn). congruence.
  - intros v n' c1 c2 n1' n2' Hn' Hc1 Hc2 H1 H2 P1 P2 Eb.
    destruct (nodes_same_bwd _ _ _ _ S Hn') as (n & Hn & (A & B & C & D & E)).
    destruct (nodes_same_bwd _ _ _ _ S H1) as (n1 & Hn1 & (A1 & B1 & C1 & D1 & E1)).
    destruct (nodes_same_bwd _ _ _ _ S H2) as (n2 & Hn2 & (A2 & B2 & C2 & D2 & E2)).
    rewrite C in Hc1, Hc2. apply (wf_linear r W v n c1 c2 n1 n2 Hn Hc1 Hc2 Hn1 Hn2); congruence.
  - intros v n' Hn'. destruct (nodes_same_bwd _ _ _ _ S Hn') as (n & Hn & (A & B & C & D & E)).
    rewrite D. apply (wf_no_master r W v n Hn).
  - rewrite ER. apply (wf_root_len r W).
Qed.

Lemma branch_leaf_same r r' n n' : nodes_same (r_nodes r) (r_nodes r') -> node_same n n' ->
  branch_leaf r' n' -> branch_leaf r n.
Proof.
  intros S (A & B & C & D & E) L c cn Hc Hcn.
  destruct (nodes_same_fwd _ _ _ _ S Hcn) as (cn' & Hcn' & (A' & B' & C' & D' & E')).
  rewrite <- D, <- D'. apply (L c cn'); auto. now rewrite C.
Qed.

(* a state that differs from s in the nodes' attributes of repo i only (and perhaps in the
   instance id counter) *)
Lemma inv_same s s' i r r' : RepoInv s -> st_repos s !! i = Some r ->
  st_repos s' = <[i := r']> (st_repos s) -> st_repo_of s' = st_repo_of s -> st_roots s' = st_roots s ->
  st_u2v s' = st_u2v s -> st_v2u s' = st_v2u s -> st_heads s' = st_heads s ->
  st_next_v s' = st_next_v s -> st_next_r s' = st_next_r s ->
  r_root r' = r_root r -> r_rootv r' = r_rootv r -> nodes_same (r_nodes r) (r_nodes r') ->
  RepoInv s'.
Proof.
  intros I Hr E1 E2 E3 E4 E5 E6 E7 E8 ER EV S.
  assert (Hlk : forall j rj, st_repos s' !! j = Some rj ->
            (j = i /\ rj = r') \/ (j <> i /\ st_repos s !! j = Some rj)).
  { intros j rj. rewrite E1. destruct (decide (j = i)) as [->|Ne].
    - rewrite lookup_insert. intros [= <-]. auto.
    - rewrite lookup_insert_ne by auto. auto. }
  constructor.
  - intros j R HR. rewrite E3 in HR. destruct (inv_live s I j R HR) as (rj & Hrj & ERj & Wj).
    rewrite E1. destruct (decide (j = i)) as [->|Ne].
    + rewrite lookup_insert. rewrite Hr in Hrj. injection Hrj as <-.
      exists r'. split; [reflexivity|]. split; [congruence|]. eapply repo_wf_same; eauto.
    + rewrite lookup_insert_ne by auto. eauto.
  - intros u v. rewrite E4, E5. apply (inv_bij s I).
  - intros j R rj v n HR Hrj Hn. rewrite E3 in HR. rewrite E5, E2.
    destruct (Hlk j rj Hrj) as [[-> ->]|[Ne Hrj']].
    + destruct (nodes_same_bwd _ _ _ _ S Hn) as (n0 & Hn0 & (A & _)). rewrite A.
      apply (inv_nodes s I i R r v n0 HR Hr Hn0).
    + apply (inv_nodes s I j R rj v n HR Hrj' Hn).
  - intros u j Hj. rewrite E2 in Hj. destruct (inv_repo_of s I u j Hj) as (R & rj & v & n & HR & Hrj & Hu & Hn).
    rewrite E3, E4, E1. destruct (decide (j = i)) as [->|Ne].
    + rewrite Hr in Hrj. injection Hrj as <-.
      destruct (nodes_same_fwd _ _ _ _ S Hn) as (n' & Hn' & _).
      exists R, r', v, n'. rewrite lookup_insert. auto.
    + exists R, rj, v, n. rewrite lookup_insert_ne by auto. auto.
  - intros v u. rewrite E5, E2. apply (inv_mapped s I).
  - intros v u. rewrite E5, E7. apply (inv_next_v s I).
  - intros j rj Hrj. rewrite E8. destruct (Hlk j rj Hrj) as [[-> ->]|[Ne Hrj']].
    + apply (inv_next_r s I i r Hr).
    + apply (inv_next_r s I j rj Hrj').
  - rewrite E4. apply (inv_nil s I).
  - intros j R rj v n HR Hrj Hn Hb L. rewrite E3 in HR. rewrite E6.
    destruct (Hlk j rj Hrj) as [[-> ->]|[Ne Hrj']].
    + destruct (nodes_same_bwd _ _ _ _ S Hn) as (n0 & Hn0 & NS).
      pose proof NS as (A & B & C & D & E). rewrite ER, A, D.
      apply (inv_heads s I i R r v n0 HR Hr Hn0); [congruence|].
      eapply branch_leaf_same; eauto.
    + apply (inv_heads s I j R rj v n HR Hrj' Hn Hb L).
Qed.

Lemma alter_as_insert {A} (f : A -> A) (m : gmap N A) i x : m !! i = Some x -> alter f i m = <[i := f x]> m.
Proof.
  intros H. apply map_eq. intros j. destruct (decide (j = i)) as [->|Ne].
  - rewrite lookup_alter, lookup_insert, H. reflexivity.
  - rewrite lookup_alter_ne, lookup_insert_ne by auto. reflexivity.
Qed.

Lemma nodes_same_refl m : nodes_same m m.
Proof. intros v. destruct (m !! v); constructor. apply node_same_refl. Qed.

Lemma nodes_same_lock m v : nodes_same m (alter lock_node v m).
Proof.
  intros w. destruct (decide (w = v)) as [->|Ne].
  - rewrite lookup_alter. destruct (m !! v); constructor. repeat split; auto.
  - rewrite lookup_alter_ne by auto. destruct (m !! w); constructor. apply node_same_refl.
Qed.

(* ------------------------------------------------------------------ commit *)

Lemma inv_commit s u : RepoInv s -> RepoInv (fst (do_commit s u)).
Proof.
  intros I. unfold do_commit. destruct (find_node s u) as [[[[i r] v] n]|] eqn:F; [|exact I].
  destruct (n_locked n); [exact I|]. simpl.
  apply find_node_spec in F as (Hu & Hi & Hr & Hn).
  eapply (inv_same s _ i r (upd_nodes (alter lock_node v) r)); eauto; simpl.
  - now apply alter_as_insert.
  - apply nodes_same_lock.
Qed.

Lemma commit_frame s u : snd (do_commit s u) <> Done tt -> fst (do_commit s u) = s.
Proof.
  unfold do_commit. destruct (find_node s u) as [[[[i r] v] n]|]; auto.
  destruct (n_locked n); simpl; auto. congruence.
Qed.

(* ------------------------------------------------------------------ data instances *)

Lemma inv_upd_data s i r f : RepoInv s -> st_repos s !! i = Some r -> RepoInv (upd_repo s i (upd_data f)).
Proof.
  intros I Hr. eapply (inv_same s _ i r (upd_data f r)); eauto; simpl.
  - now apply alter_as_insert.
  - apply nodes_same_refl.
Qed.

Lemma inv_bump s : RepoInv s -> RepoInv (bump_instance_id s).
Proof. intros I. destruct I. constructor; simpl; auto. Qed.

Lemma inv_new_data s u name : RepoInv s -> RepoInv (fst (do_new_data s u name)).
Proof.
  intros I. apply inv_bump in I. unfold do_new_data.
  destruct (st_repo_of (bump_instance_id s) !! u) as [i|]; [|exact I].
  destruct (st_repos (bump_instance_id s) !! i) as [r|] eqn:Hr; [|exact I].
  destruct (in_list name (r_data r)); [exact I|]. simpl. now apply inv_upd_data with r.
Qed.

Lemma inv_rename_data s u o n p : RepoInv s -> RepoInv (fst (do_rename_data s u o n p)).
Proof.
  intros I. unfold do_rename_data.
  destruct (st_repo_of s !! u) as [i|]; [|exact I].
  destruct (st_repos s !! i) as [r|] eqn:Hr; [|exact I].
  repeat (match goal with |- context [if ?b then _ else _] => destruct b end; try exact I).
  simpl. now apply inv_upd_data with r.
Qed.

Lemma inv_delete_data s u n p : RepoInv s -> RepoInv (fst (do_delete_data s u n p)).
Proof.
  intros I. unfold do_delete_data.
  destruct (st_repo_of s !! u) as [i|]; [|exact I].
  destruct (st_repos s !! i) as [r|] eqn:Hr; [|exact I].
  repeat (match goal with |- context [if ?b then _ else _] => destruct b end; try exact I).
  simpl. now apply inv_upd_data with r.
Qed.
