(* Proofs.NJBase: association lists, id-sorted annotation maps, sort.Search on sorted id lists. *)
From DV Require Import Base.Prelude Model.NJ.
From Coq Require Import Sorted Permutation.
From Coq Require Import ZifyN ZifyNat ZifyBool.
Ltac Zify.zify_post_hook ::= Z.div_mod_to_equations.
Local Open Scope N_scope.

(* ---------- association lists ---------- *)
Section AssocLemmas.
Context {K V : Type} (keqb : K -> K -> bool).
Hypothesis keqb_eq : forall a b, keqb a b = true <-> a = b.

Lemma keqb_refl k : keqb k k = true.
Proof. now apply keqb_eq. Qed.
Lemma keqb_neq a b : a <> b -> keqb a b = false.
Proof. intro H. destruct (keqb a b) eqn:E; [apply keqb_eq in E; contradiction | reflexivity]. Qed.
Lemma keqb_false a b : keqb a b = false -> a <> b.
Proof. intros E H. apply keqb_eq in H. congruence. Qed.

Lemma aget_aset_same k (v : V) m : aget keqb k (aset keqb k v m) = Some v.
Proof.
  induction m as [|[k' v'] r IH]; simpl.
  - now rewrite keqb_refl.
  - destruct (keqb k k') eqn:E; simpl; [now rewrite keqb_refl | now rewrite E].
Qed.
Lemma aget_aset_other k k' (v : V) m : k <> k' -> aget keqb k (aset keqb k' v m) = aget keqb k m.
Proof.
  intro N. induction m as [|[k2 v2] r IH]; simpl.
  - now rewrite (keqb_neq _ _ N).
  - destruct (keqb k' k2) eqn:E; simpl.
    + apply keqb_eq in E; subst k2. now rewrite !(keqb_neq _ _ N).
    + destruct (keqb k k2); [reflexivity | exact IH].
Qed.
Lemma aget_adel_same k (m : list (K * V)) : aget keqb k (adel keqb k m) = None.
Proof.
  induction m as [|[k' v'] r IH]; simpl; [reflexivity|].
  destruct (keqb k k') eqn:E; simpl; [exact IH | now rewrite E].
Qed.
Lemma aget_adel_other k k' (m : list (K * V)) : k <> k' -> aget keqb k (adel keqb k' m) = aget keqb k m.
Proof.
  intro N. induction m as [|[k2 v2] r IH]; simpl; [reflexivity|].
  destruct (keqb k' k2) eqn:E; simpl.
  - apply keqb_eq in E; subst k2. now rewrite (keqb_neq _ _ N).
  - destruct (keqb k k2); [reflexivity | exact IH].
Qed.

Lemma aget_None_notin k (m : list (K * V)) : aget keqb k m = None <-> ~ In k (map fst m).
Proof.
  induction m as [|[k' v'] r IH]; simpl; [tauto|].
  destruct (keqb k k') eqn:E.
  - apply keqb_eq in E; subst. split; [discriminate | intro H; exfalso; apply H; now left].
  - apply keqb_false in E. rewrite IH. split; [intros H [H1|H1]; [congruence | contradiction] | tauto].
Qed.
Lemma aget_Some_in k v (m : list (K * V)) : aget keqb k m = Some v -> In (k, v) m.
Proof.
  induction m as [|[k' v'] r IH]; simpl; [discriminate|].
  destruct (keqb k k') eqn:E.
  - apply keqb_eq in E; subst. intro H; inversion H; subst; now left.
  - intro H; right; auto.
Qed.
Lemma in_aget_nodup k v (m : list (K * V)) : NoDup (map fst m) -> In (k, v) m -> aget keqb k m = Some v.
Proof.
  induction m as [|[k' v'] r IH]; simpl; [tauto|].
  intros ND [H|H].
  - inversion H; subst. now rewrite keqb_refl.
  - inversion ND; subst. destruct (keqb k k') eqn:E.
    + apply keqb_eq in E; subst. exfalso. apply H2. now apply (in_map fst) in H.
    + auto.
Qed.

Lemma in_keys_aset k k' (v : V) m : In k (map fst (aset keqb k' v m)) <-> k = k' \/ In k (map fst m).
Proof.
  induction m as [|[k2 v2] r IH]; simpl.
  - intuition.
  - destruct (keqb k' k2) eqn:E; simpl.
    + apply keqb_eq in E; subst. intuition.
    + rewrite IH. intuition.
Qed.
Lemma nodup_aset k (v : V) m : NoDup (map fst m) -> NoDup (map fst (aset keqb k v m)).
Proof.
  induction m as [|[k2 v2] r IH]; simpl; intro ND.
  - constructor; [tauto | constructor].
  - inversion ND; subst. destruct (keqb k k2) eqn:E; simpl.
    + apply keqb_eq in E; subst. now constructor.
    + constructor; [|auto]. rewrite in_keys_aset. intros [H|H]; [subst; now rewrite keqb_refl in E | contradiction].
Qed.
Lemma in_keys_adel k k' (m : list (K * V)) : In k (map fst (adel keqb k' m)) -> In k (map fst m).
Proof.
  induction m as [|[k2 v2] r IH]; simpl; [tauto|].
  destruct (keqb k' k2); simpl; intuition.
Qed.
Lemma nodup_adel k (m : list (K * V)) : NoDup (map fst m) -> NoDup (map fst (adel keqb k m)).
Proof.
  induction m as [|[k2 v2] r IH]; simpl; intro ND; [constructor|].
  inversion ND; subst. destruct (keqb k k2); simpl; [auto|].
  constructor; [|auto]. intro H; apply H1. eapply in_keys_adel; eauto.
Qed.
End AssocLemmas.

Lemma Neqb_eq' : forall a b : N, N.eqb a b = true <-> a = b.
Proof. intros; apply N.eqb_eq. Qed.

(* ---------- annotation maps sorted by id ---------- *)
Definition nsorted (m : ndata) : Prop := StronglySorted N.lt (map fst m).
Definition idsorted (l : list N) : Prop := StronglySorted N.lt l.

(* the set operations the id slice must implement *)
Fixpoint sins (b : N) (l : list N) : list N :=
  match l with
  | [] => [b]
  | x :: r => if b <? x then b :: l else if b =? x then l else x :: sins b r
  end.
Fixpoint sdel (b : N) (l : list N) : list N :=
  match l with
  | [] => []
  | x :: r => if b =? x then r else x :: sdel b r
  end.

Lemma keys_nset id v m : map fst (nset id v m) = sins id (map fst m).
Proof.
  induction m as [|[k v'] r IH]; simpl; [reflexivity|].
  destruct (id <? k); [reflexivity|]. destruct (id =? k) eqn:E; simpl.
  - apply N.eqb_eq in E. now subst.
  - now rewrite IH.
Qed.
Lemma keys_ndel id m : map fst (ndel id m) = sdel id (map fst m).
Proof.
  induction m as [|[k v'] r IH]; simpl; [reflexivity|].
  destruct (id =? k); simpl; [reflexivity | now rewrite IH].
Qed.

Lemma in_sins x b l : In x (sins b l) <-> x = b \/ In x l.
Proof.
  induction l as [|y r IH]; simpl; [intuition|].
  destruct (b <? y); simpl; [intuition|].
  destruct (b =? y) eqn:E; simpl.
  - apply N.eqb_eq in E; subst. intuition.
  - rewrite IH. intuition.
Qed.
Lemma sins_sorted b l : idsorted l -> idsorted (sins b l).
Proof.
  unfold idsorted. induction l as [|y r IH]; simpl; intro S.
  - repeat constructor.
  - inversion S as [|? ? S' F]; subst.
    destruct (b <? y) eqn:E1.
    + apply N.ltb_lt in E1. constructor; [exact S|]. constructor; [exact E1|].
      eapply Forall_impl; [|exact F]. intros; lia.
    + destruct (b =? y) eqn:E2; [exact S|].
      apply N.ltb_ge in E1. apply N.eqb_neq in E2.
      constructor; [auto|]. apply Forall_forall. intros x Hx. apply in_sins in Hx as [-> |Hx]; [lia|].
      rewrite Forall_forall in F. auto.
Qed.
Lemma in_sdel x b l : In x (sdel b l) -> In x l.
Proof.
  induction l as [|y r IH]; simpl; [tauto|]. destruct (b =? y); simpl; intuition.
Qed.
Lemma sdel_sorted b l : idsorted l -> idsorted (sdel b l).
Proof.
  unfold idsorted. induction l as [|y r IH]; simpl; intro S; [constructor|].
  inversion S as [|? ? S' F]; subst. destruct (b =? y); [exact S'|].
  constructor; [auto|]. apply Forall_forall. intros x Hx. apply in_sdel in Hx.
  rewrite Forall_forall in F. auto.
Qed.

Lemma nset_sorted id v m : nsorted m -> nsorted (nset id v m).
Proof. unfold nsorted. rewrite keys_nset. apply sins_sorted. Qed.
Lemma ndel_sorted id m : nsorted m -> nsorted (ndel id m).
Proof. unfold nsorted. rewrite keys_ndel. apply sdel_sorted. Qed.

Lemma nget_notin id m : ~ In id (map fst m) -> nget id m = None.
Proof.
  induction m as [|[k v] r IH]; simpl; [reflexivity|]. intro H.
  destruct (id =? k) eqn:E; [apply N.eqb_eq in E; subst; exfalso; apply H; now left|].
  apply IH. tauto.
Qed.
Lemma nget_in_sorted m : nsorted m -> forall p, In p m -> nget (fst p) m = Some (snd p).
Proof.
  unfold nsorted. induction m as [|[k v] r IH]; simpl; intros S p H; [contradiction|].
  destruct H as [H|H].
  - subst p; simpl. now rewrite N.eqb_refl.
  - inversion S as [|? ? S' F]; subst.
    destruct (fst p =? k) eqn:E.
    + apply N.eqb_eq in E. rewrite Forall_forall in F.
      assert (k < fst p) by (apply F; now apply in_map). lia.
    + auto.
Qed.

Lemma nget_nset_same id v m : nget id (nset id v m) = Some v.
Proof.
  induction m as [|[k v'] r IH]; simpl; [now rewrite N.eqb_refl|].
  destruct (id <? k) eqn:E1; simpl; [now rewrite N.eqb_refl|].
  destruct (id =? k) eqn:E2; simpl; [now rewrite N.eqb_refl | now rewrite E2].
Qed.
Lemma nget_nset_other id id' v m : id <> id' -> nget id (nset id' v m) = nget id m.
Proof.
  intro Hn. induction m as [|[k v'] r IH]; simpl.
  - apply N.eqb_neq in Hn. now rewrite Hn.
  - destruct (id' <? k) eqn:E1; simpl.
    + apply N.eqb_neq in Hn. now rewrite Hn.
    + destruct (id' =? k) eqn:E2; simpl.
      * apply N.eqb_eq in E2; subst k. apply N.eqb_neq in Hn. now rewrite !Hn.
      * destruct (id =? k); [reflexivity | exact IH].
Qed.

(* appending a larger key *)
Lemma nset_append id v m : Forall (fun p => fst p < id) m -> nset id v m = m ++ [(id, v)].
Proof.
  induction m as [|[k v'] r IH]; simpl; intro F; [reflexivity|].
  inversion F; subst; simpl in *.
  replace (id <? k) with false by (symmetry; apply N.ltb_ge; lia).
  replace (id =? k) with false by (symmetry; apply N.eqb_neq; lia).
  now rewrite IH.
Qed.
Lemma fold_nset_sorted_gen (pre suf : ndata) :
  nsorted (pre ++ suf) ->
  fold_left (fun acc p => nset (fst p) (snd p) acc) suf pre = pre ++ suf.
Proof.
  revert pre. induction suf as [|[k v] r IH]; intros pre S; simpl.
  - now rewrite app_nil_r.
  - rewrite nset_append.
    + rewrite IH; rewrite <- app_assoc; [reflexivity | exact S].
    + unfold nsorted in S. rewrite map_app in S. simpl in S.
      clear IH. induction pre as [|[k' v'] pre IHp]; [constructor|].
      simpl in S. inversion S as [|? ? S' F]; subst. constructor.
      * simpl. rewrite Forall_forall in F. apply F. apply in_or_app. right. now left.
      * auto.
Qed.
Lemma fold_nset_sorted d : nsorted d -> fold_left (fun acc p => nset (fst p) (snd p) acc) d [] = d.
Proof. intro S. now apply (fold_nset_sorted_gen [] d). Qed.

Lemma isort_ins_sorted_head x l : Forall (fun y => x < y) l -> isort_ins x l = x :: l.
Proof.
  destruct l as [|y r]; simpl; [reflexivity|]. intro F. inversion F; subst.
  replace (x <=? y) with true by (symmetry; apply N.leb_le; lia). reflexivity.
Qed.
Lemma sort_ids_sorted l : idsorted l -> sort_ids l = l.
Proof.
  unfold idsorted, sort_ids. induction l as [|x r IH]; simpl; intro S; [reflexivity|].
  inversion S; subst. rewrite IH by assumption. now apply isort_ins_sorted_head.
Qed.

(* ---------- sort.Search ---------- *)
Lemma search_loop_spec (f : nat -> res bool) (n k : nat) :
  (forall x, (x < k)%nat -> f x = Ok false) ->
  (forall x, (k <= x < n)%nat -> f x = Ok true) ->
  forall fuel i j, (i <= k <= j)%nat -> (j <= n)%nat -> (j - i < fuel)%nat ->
  search_loop fuel f i j = Ok k.
Proof.
  intros Hlo Hhi. induction fuel as [|fuel IH]; intros i j Hk Hj Hf; [lia|].
  simpl. destruct (Nat.ltb i j) eqn:E.
  - apply Nat.ltb_lt in E.
    assert (Hh : (i <= Nat.div2 (i + j) < j)%nat).
    { rewrite Nat.div2_div. split; [apply Nat.div_le_lower_bound | apply Nat.div_lt_upper_bound]; lia. }
    destruct (Nat.lt_ge_cases (Nat.div2 (i + j)) k) as [Hlt|Hge].
    + rewrite (Hlo _ Hlt). apply IH; lia.
    + rewrite Hhi by lia. apply IH; lia.
  - apply Nat.ltb_ge in E. f_equal. lia.
Qed.
Lemma go_search_spec (f : nat -> res bool) (n k : nat) :
  (k <= n)%nat ->
  (forall x, (x < k)%nat -> f x = Ok false) ->
  (forall x, (k <= x < n)%nat -> f x = Ok true) ->
  go_search n f = Ok k.
Proof. intros Hk Hlo Hhi. unfold go_search. eapply search_loop_spec; eauto; lia. Qed.

(* a threshold predicate splits a sorted list *)
Definition mono (p : N -> bool) : Prop := forall x y, x < y -> p x = true -> p y = true.

Lemma split_sorted (p : N -> bool) l : idsorted l -> mono p ->
  exists lo hi, l = lo ++ hi /\ Forall (fun x => p x = false) lo /\ Forall (fun x => p x = true) hi.
Proof.
  unfold idsorted. intros S M. induction l as [|a r IH].
  - exists [], []. repeat split; constructor.
  - inversion S as [|? ? S' F]; subst. destruct (p a) eqn:E.
    + exists [], (a :: r). repeat split; [constructor|]. constructor; [exact E|].
      eapply Forall_impl; [|exact F]. intros y Hy. eapply M; eauto.
    + destruct (IH S') as (lo & hi & -> & Flo & Fhi).
      exists (a :: lo), hi. repeat split; [constructor; assumption | assumption].
Qed.

Lemma search_split (p : N -> bool) lo hi :
  Forall (fun x => p x = false) lo -> Forall (fun x => p x = true) hi ->
  go_search (length (lo ++ hi)) (ids_pred (lo ++ hi) p) = Ok (length lo).
Proof.
  intros Flo Fhi. apply go_search_spec.
  - rewrite app_length. lia.
  - intros x Hx. unfold ids_pred. rewrite nth_error_app1 by exact Hx.
    destruct (nth_error lo x) eqn:E; [|apply nth_error_None in E; lia].
    apply nth_error_In in E. rewrite Forall_forall in Flo. now rewrite Flo.
  - intros x Hx. unfold ids_pred. rewrite app_length in Hx. rewrite nth_error_app2 by lia.
    destruct (nth_error hi (x - length lo)) eqn:E; [|apply nth_error_None in E; lia].
    apply nth_error_In in E. rewrite Forall_forall in Fhi. now rewrite Fhi.
Qed.

Lemma mono_geb b : mono (fun x => b <=? x).
Proof. intros x y H E. apply N.leb_le in E. apply N.leb_le. lia. Qed.
Lemma mono_gtb b : mono (fun x => b <? x).
Proof. intros x y H E. apply N.ltb_lt in E. apply N.ltb_lt. lia. Qed.

Lemma sins_app_lo b lo hi : Forall (fun x => (b <=? x) = false) lo -> sins b (lo ++ hi) = lo ++ sins b hi.
Proof.
  induction lo as [|x r IH]; simpl; intro F; [reflexivity|]. inversion F as [|? ? Hx F']; subst.
  apply N.leb_gt in Hx.
  replace (b <? x) with false by (symmetry; apply N.ltb_ge; lia).
  replace (b =? x) with false by (symmetry; apply N.eqb_neq; lia).
  now rewrite IH.
Qed.
Lemma sdel_app_lo b lo hi : Forall (fun x => (b <=? x) = false) lo -> sdel b (lo ++ hi) = lo ++ sdel b hi.
Proof.
  induction lo as [|x r IH]; simpl; intro F; [reflexivity|]. inversion F as [|? ? Hx F']; subst.
  apply N.leb_gt in Hx.
  replace (b =? x) with false by (symmetry; apply N.eqb_neq; lia).
  now rewrite IH.
Qed.
Lemma sdel_absent b l : Forall (fun x => b < x) l -> sdel b l = l.
Proof.
  induction l as [|x r IH]; simpl; intro F; [reflexivity|]. inversion F; subst.
  replace (b =? x) with false by (symmetry; apply N.eqb_neq; lia). now rewrite IH.
Qed.

Lemma firstn_app_len {A} (a b : list A) : firstn (length a) (a ++ b) = a.
Proof. rewrite firstn_app, Nat.sub_diag, firstn_all. simpl. now rewrite app_nil_r. Qed.
Lemma skipn_app_len {A} (a b : list A) : skipn (length a) (a ++ b) = b.
Proof. rewrite skipn_app, Nat.sub_diag, skipn_all. reflexivity. Qed.
Lemma nth_error_app_len {A} (a b : list A) : nth_error (a ++ b) (length a) = nth_error b 0.
Proof. rewrite nth_error_app2 by lia. now rewrite Nat.sub_diag. Qed.

(* addBodyID implements set insertion on a sorted slice *)
Lemma addBodyID_sorted ids b : idsorted ids -> addBodyID ids b = Ok (sins b ids).
Proof.
  intro S. destruct (split_sorted (fun x => b <=? x) ids S (mono_geb b)) as (lo & hi & -> & Flo & Fhi).
  unfold addBodyID. rewrite (search_split (fun x => b <=? x) lo hi Flo Fhi). simpl.
  rewrite nth_error_app_len, firstn_app_len, skipn_app_len, (sins_app_lo _ _ _ Flo).
  destruct hi as [|x r]; simpl; [reflexivity|].
  inversion Fhi as [|? ? Hx _]; subst. apply N.leb_le in Hx.
  destruct (x =? b) eqn:E.
  - apply N.eqb_eq in E; subst x. rewrite N.ltb_irrefl, N.eqb_refl. reflexivity.
  - apply N.eqb_neq in E. replace (b <? x) with true by (symmetry; apply N.ltb_lt; lia). reflexivity.
Qed.

(* the repaired deleteBodyID implements set removal *)
Lemma StronglySorted_app_inv_r {A} (R : A -> A -> Prop) (a b : list A) :
  StronglySorted R (a ++ b) -> StronglySorted R b.
Proof. induction a as [|x a IH]; simpl; intro H; [exact H|]. inversion H; auto. Qed.

Lemma skipn_S_app_len {A} (a : list A) x r : skipn (S (length a)) (a ++ x :: r) = r.
Proof. induction a; simpl; auto. Qed.

Lemma deleteBodyID_sorted V ids b : v_del V = true -> idsorted ids -> deleteBodyID V ids b = Ok (sdel b ids).
Proof.
  intros HV HS. destruct (split_sorted (fun x => b <=? x) ids HS (mono_geb b)) as (lo & hi & E & Flo & Fhi).
  subst ids. unfold deleteBodyID. rewrite HV, (search_split (fun x => b <=? x) lo hi Flo Fhi).
  cbn [res_bind].
  rewrite nth_error_app_len, firstn_app_len, (sdel_app_lo _ _ _ Flo).
  destruct hi as [|x r]; cbn [nth_error sdel]; [reflexivity|].
  destruct (x =? b) eqn:E.
  - apply N.eqb_eq in E; subst x. rewrite N.eqb_refl. now rewrite skipn_S_app_len.
  - apply N.eqb_neq in E. inversion Fhi as [|? ? Hx _]; subst. apply N.leb_le in Hx.
    replace (b =? x) with false by (symmetry; apply N.eqb_neq; lia).
    f_equal. f_equal. cbn [sdel]. f_equal. symmetry. apply sdel_absent.
    unfold idsorted in HS. apply StronglySorted_app_inv_r in HS.
    inversion HS as [|? ? _ F]; subst. eapply Forall_impl; [|exact F]. intros; lia.
Qed.

(* the two searches of GetKeysInRange select the numeric range *)
Definition in_range (lo hi x : N) : bool := (lo <=? x) && (x <=? hi).

Lemma filter_all_false {A} (f : A -> bool) l : Forall (fun x => f x = false) l -> filter f l = [].
Proof. induction 1 as [|x r Hx _ IH]; simpl; [reflexivity | now rewrite Hx]. Qed.
Lemma filter_all_true {A} (f : A -> bool) l : Forall (fun x => f x = true) l -> filter f l = l.
Proof. induction 1 as [|x r Hx _ IH]; simpl; [reflexivity | now rewrite Hx, IH]. Qed.

Lemma mem_range_sorted ids lo hi : idsorted ids -> mem_range ids lo hi = Ok (filter (in_range lo hi) ids).
Proof.
  intro S.
  destruct (split_sorted (fun x => lo <=? x) ids S (mono_geb lo)) as (a & b & E & Fa & Fb).
  unfold mem_range. subst ids. rewrite (search_split (fun x => lo <=? x) a b Fa Fb). simpl.
  rewrite skipn_app_len.
  assert (Sb : idsorted b) by (unfold idsorted in *; now apply StronglySorted_app_inv_r in S).
  destruct (split_sorted (fun x => hi <? x) b Sb (mono_gtb hi)) as (c & d & E & Fc & Fd). subst b.
  assert (Fac : Forall (fun x => (hi <? x) = false) (a ++ c) \/ c = []).
  { destruct c as [|c0 c']; [now right|left]. apply Forall_app. split; [|exact Fc].
    inversion Fc as [|? ? Hc0 _]; subst. apply N.ltb_ge in Hc0.
    apply Forall_forall. intros x Hx. apply N.ltb_ge.
    unfold idsorted in S. clear - S Hx Hc0 Fa. induction a as [|a0 a' IH]; [contradiction|].
    simpl in S. inversion S as [|? ? S' F]; subst. inversion Fa; subst. destruct Hx as [-> |Hx].
    - rewrite Forall_forall in F. assert (x < c0) by (apply F; apply in_or_app; right; now left). lia.
    - auto. }
  rewrite filter_app.
  rewrite (filter_all_false (in_range lo hi) a) by (eapply Forall_impl; [|exact Fa]; intros x Hx; unfold in_range; now rewrite Hx).
  simpl. rewrite filter_app.
  rewrite (filter_all_false (in_range lo hi) d) by (eapply Forall_impl; [|exact Fd]; intros x Hx; unfold in_range; apply N.ltb_lt in Hx; replace (x <=? hi) with false by (symmetry; apply N.leb_gt; lia); apply andb_false_r).
  rewrite app_nil_r.
  assert (Fcr : filter (in_range lo hi) c = c).
  { apply filter_all_true. apply Forall_forall. intros x Hx. unfold in_range.
    rewrite Forall_forall in Fb, Fc. rewrite (Fb x) by (apply in_or_app; now left).
    specialize (Fc x Hx). apply N.ltb_ge in Fc. simpl. apply N.leb_le. lia. }
  rewrite Fcr.
  destruct Fac as [Fac| ->].
  - rewrite app_assoc, (search_split (fun x => hi <? x) (a ++ c) d Fac Fd). simpl.
    rewrite app_length. replace (length a + length c - length a)%nat with (length c) by lia.
    now rewrite firstn_app_len.
  - simpl.
    (* no element is <= hi among b = d; the second search may land anywhere at or before |a| *)
    destruct (split_sorted (fun x => hi <? x) (a ++ d) S (mono_gtb hi)) as (e & g & E & Fe & Fg).
    rewrite E, (search_split (fun x => hi <? x) e g Fe Fg). simpl.
    assert (length e <= length a)%nat.
    { destruct (Nat.le_gt_cases (length e) (length a)) as [H|H]; [exact H|exfalso].
      assert (Hn : nth_error (a ++ d) (length a) = nth_error (e ++ g) (length a)) by now rewrite E.
      rewrite nth_error_app_len, nth_error_app1 in Hn by exact H.
      destruct d as [|d0 d']. { rewrite app_nil_r in E. apply (f_equal (@length N)) in E. rewrite app_length in E. lia. }
      simpl in Hn. symmetry in Hn. apply nth_error_In in Hn.
      rewrite Forall_forall in Fe. specialize (Fe _ Hn). inversion Fd; subst. congruence. }
    replace (length e - length a)%nat with 0%nat by lia. reflexivity.
Qed.
