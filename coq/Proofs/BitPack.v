(* Proofs.BitPack: structural lemmas over the sweeps of Base.BitPack.
   Main results: [pack_bits] (the packed bytes read as a bit string are the concatenated
   k-bit fields) and [get_pack] (getPackedValue at field i of a packed run returns field i),
   for every width 1..9 and any number of fields filling whole bytes. *)
From DV Require Import Base.Prelude Base.BitPack Proofs.BitPackSweep Gen.Consts.
From Coq Require Import ZifyN ZifyNat ZifyBool.
Ltac Zify.zify_post_hook ::= Z.div_mod_to_equations.
Local Open Scope N_scope.

(* ---- nseq / nth_N ---- *)

Lemma nseq_from_eq n s : nseq_from n s = map (fun i => s + N.of_nat i) (seq 0 n).
Proof.
  revert s. induction n as [|n IH]; intro s; [reflexivity|].
  cbn [nseq_from seq map]. rewrite IH. f_equal; [lia|].
  rewrite <- seq_shift, map_map. apply map_ext. intro i. lia.
Qed.

Lemma nseq_eq n : nseq n = map N.of_nat (seq 0 (N.to_nat n)).
Proof. unfold nseq. rewrite nseq_from_eq. apply map_ext. intro i. lia. Qed.

Lemma In_nseq x n : In x (nseq n) <-> x < n.
Proof.
  rewrite nseq_eq. rewrite in_map_iff. split.
  - intros [i [E Hi]]. apply in_seq in Hi. lia.
  - intro H. exists (N.to_nat x). split; [lia|]. apply in_seq. lia.
Qed.

Lemma nth_error_seq' s n i : (i < n)%nat -> nth_error (seq s n) i = Some (s + i)%nat.
Proof.
  revert s i. induction n as [|n IH]; intros s i H; [lia|].
  destruct i; simpl; [f_equal; lia|]. rewrite IH by lia. f_equal. lia.
Qed.

Lemma nseq_length n : length (nseq n) = N.to_nat n.
Proof. rewrite nseq_eq. now rewrite map_length, seq_length. Qed.

Lemma nth_N_nseq n i : i < n -> nth_N (nseq n) i = Some i.
Proof.
  intro H. rewrite nseq_eq. unfold nth_N. rewrite nth_error_map, nth_error_seq' by lia.
  simpl. f_equal. lia.
Qed.

Lemma nth_N_app_l {A} (l r : list A) i : (N.to_nat i < length l)%nat -> nth_N (l ++ r) i = nth_N l i.
Proof. intro H. unfold nth_N. now apply nth_error_app1. Qed.

Lemma nth_N_app_r {A} (l r : list A) i :
  nth_N (l ++ r) (N.of_nat (length l) + i) = nth_N r i.
Proof.
  unfold nth_N. rewrite nth_error_app2 by lia. f_equal. lia.
Qed.

Lemma nth_N_map {A B} (f : A -> B) l i : nth_N (map f l) i = option_map f (nth_N l i).
Proof. unfold nth_N. apply nth_error_map. Qed.

Lemma nth_N_Some_lt {A} (l : list A) i a : nth_N l i = Some a -> (N.to_nat i < length l)%nat.
Proof. unfold nth_N. intro H. apply nth_error_Some. congruence. Qed.

Lemma nth_N_lt_Some {A} (l : list A) i : (N.to_nat i < length l)%nat -> exists a, nth_N l i = Some a.
Proof.
  unfold nth_N. intro H. destruct (nth_error l (N.to_nat i)) eqn:E; [eauto|].
  apply nth_error_None in E. lia.
Qed.

(* ---- lifting the sweeps ---- *)

Lemma mask_some h : h < 8 -> exists m, nth_N t_leftBitMask h = Some m.
Proof. intro H. apply nth_N_lt_Some. simpl. lia. Qed.

Lemma get1_spec k h b0 m :
  1 <= k -> h + k <= 8 -> b0 < 256 -> nth_N t_leftBitMask h = Some m ->
  get1 m b0 h k = bits_val (firstn (N.to_nat k) (skipn (N.to_nat h) (byte_bits b0))).
Proof.
  intros Hk Hh Hb Hm.
  pose proof sweep_get1_true as S. unfold sweep_get1 in S.
  rewrite forallb_forall in S.
  assert (Ik : In k [1;2;3;4;5;6;7;8]).
  { assert (k = 1 \/ k = 2 \/ k = 3 \/ k = 4 \/ k = 5 \/ k = 6 \/ k = 7 \/ k = 8) by lia.
    simpl. intuition. }
  specialize (S k Ik). rewrite forallb_forall in S.
  specialize (S h (proj2 (In_nseq h 8) ltac:(lia))). rewrite forallb_forall in S.
  specialize (S b0 (proj2 (In_nseq b0 256) Hb)).
  unfold get1_ok in S. rewrite Hm in S.
  replace (h + k <=? 8) with true in S by (symmetry; apply N.leb_le; lia).
  simpl in S. now apply N.eqb_eq in S.
Qed.

Lemma sweep_get2_all k : 1 <= k <= 9 -> sweep_get2 k = true.
Proof.
  intro H.
  assert (k = 1 \/ k = 2 \/ k = 3 \/ k = 4 \/ k = 5 \/ k = 6 \/ k = 7 \/ k = 8 \/ k = 9) as E by lia.
  destruct E as [E|[E|[E|[E|[E|[E|[E|[E|E]]]]]]]]; subst k.
  - exact sweep_get2_1. - exact sweep_get2_2. - exact sweep_get2_3.
  - exact sweep_get2_4. - exact sweep_get2_5. - exact sweep_get2_6.
  - exact sweep_get2_7. - exact sweep_get2_8. - exact sweep_get2_9.
Qed.

Lemma get2_spec k h b0 b1 m :
  1 <= k <= 9 -> h < 8 -> 8 < h + k -> b0 < 256 -> b1 < 256 -> nth_N t_leftBitMask h = Some m ->
  get2 m b0 b1 h k =
  bits_val (firstn (N.to_nat k) (skipn (N.to_nat h) (byte_bits b0 ++ byte_bits b1))).
Proof.
  intros Hk Hh Hs Hb0 Hb1 Hm.
  pose proof (sweep_get2_all k Hk) as S. unfold sweep_get2 in S.
  rewrite forallb_forall in S.
  specialize (S h (proj2 (In_nseq h 8) Hh)). rewrite forallb_forall in S.
  specialize (S b0 (proj2 (In_nseq b0 256) Hb0)). rewrite forallb_forall in S.
  specialize (S b1 (proj2 (In_nseq b1 256) Hb1)).
  unfold get2_ok in S. rewrite Hm in S.
  replace (h + k <=? 8) with false in S by (symmetry; apply N.leb_gt; lia).
  simpl in S. now apply N.eqb_eq in S.
Qed.

Lemma list_eqb_bool_eq a b : bools_eqb a b = true -> a = b.
Proof.
  apply list_eqb_eq. intros x y. destruct x, y; simpl; split; congruence.
Qed.

Lemma wst_invb_inv s : wst_invb s = true -> wst_inv s.
Proof.
  unfold wst_invb, wst_inv. rewrite !andb_true_iff.
  intros [[[H1 H2] H3] H4]. repeat split.
  - now apply N.ltb_lt. - now apply N.ltb_lt. - now apply N.eqb_eq.
  - now apply bytes_okb_ok.
Qed.

Lemma put_spec0 k h c v :
  1 <= k <= 9 -> h < 8 -> c < 2 ^ h -> v < 2 ^ k ->
  let cur := N.shiftl c (8 - h) in
  let s' := put k v {| w_done := []; w_cur := cur; w_head := h |} in
  wst_bits s' = firstn (N.to_nat h) (byte_bits cur) ++ to_bits (N.to_nat k) v /\ wst_inv s'.
Proof.
  intros Hk Hh Hc Hv.
  pose proof sweep_put_true as S. rewrite forallb_forall in S.
  assert (Ik : In k [1;2;3;4;5;6;7;8;9]).
  { assert (k = 1 \/ k = 2 \/ k = 3 \/ k = 4 \/ k = 5 \/ k = 6 \/ k = 7 \/ k = 8 \/ k = 9) by lia.
    simpl. intuition. }
  specialize (S k Ik). unfold sweep_put in S. rewrite forallb_forall in S.
  specialize (S h (proj2 (In_nseq h 8) Hh)). rewrite forallb_forall in S.
  specialize (S c (proj2 (In_nseq c _) Hc)). rewrite forallb_forall in S.
  specialize (S v (proj2 (In_nseq v _) Hv)).
  unfold put_ok in S. apply andb_true_iff in S as [S1 S2].
  split; [now apply list_eqb_bool_eq | now apply wst_invb_inv].
Qed.

(* put only conses onto the completed bytes *)
Lemma put_done k v d c h :
  let s := put k v {| w_done := []; w_cur := c; w_head := h |} in
  put k v {| w_done := d; w_cur := c; w_head := h |} =
  {| w_done := w_done s ++ d; w_cur := w_cur s; w_head := w_head s |}.
Proof.
  unfold put; cbn [w_done w_cur w_head].
  destruct (h + k <=? 8); [destruct (h + k =? 8) | destruct (h + k =? 16)]; reflexivity.
Qed.

(* ---- bit strings ---- *)

Lemma to_bits_length k v : length (to_bits k v) = k.
Proof. induction k; simpl; congruence. Qed.

Lemma byte_bits_length b : length (byte_bits b) = 8%nat.
Proof. apply to_bits_length. Qed.

Lemma bytes_bits_length l : length (bytes_bits l) = (8 * length l)%nat.
Proof.
  induction l as [|b l IH]; [reflexivity|].
  unfold bytes_bits in *. cbn [flat_map]. rewrite app_length, byte_bits_length, IH. simpl. lia.
Qed.

Lemma bytes_bits_app a b : bytes_bits (a ++ b) = bytes_bits a ++ bytes_bits b.
Proof. unfold bytes_bits. apply flat_map_app. Qed.

Lemma to_bits_mod k v : to_bits k (v mod 2 ^ N.of_nat k) = to_bits k v.
Proof.
  assert (G : forall j, (j <= k)%nat -> to_bits j (v mod 2 ^ N.of_nat k) = to_bits j v).
  { induction j as [|j IH]; intro Hj; [reflexivity|].
    cbn [to_bits]. rewrite IH by lia. f_equal.
    apply N.mod_pow2_bits_low. lia. }
  apply G. lia.
Qed.

Lemma bits_val_to_bits_acc k v a :
  fold_left (fun a (b : bool) => 2 * a + (if b then 1 else 0)) (to_bits k v) a
  = a * 2 ^ N.of_nat k + v mod 2 ^ N.of_nat k.
Proof.
  revert a. induction k as [|k IH]; intro a.
  - simpl. rewrite N.mod_1_r. lia.
  - cbn [to_bits fold_left]. rewrite IH.
    rewrite Nat2N.inj_succ, N.pow_succ_r'.
    rewrite (N.mul_comm 2 (2 ^ N.of_nat k)).
    rewrite N.mod_mul_r by (try apply N.pow_nonzero; lia).
    pose proof (N.testbit_spec' v (N.of_nat k)) as T.
    destruct (N.testbit v (N.of_nat k)); simpl N.b2n in T; rewrite <- T; lia.
Qed.

Lemma bits_val_to_bits k v : v < 2 ^ N.of_nat k -> bits_val (to_bits k v) = v.
Proof.
  intro H. unfold bits_val. rewrite bits_val_to_bits_acc, N.mod_small by lia. lia.
Qed.

Lemma flat_map_to_bits_length k l : length (flat_map (to_bits k) l) = (k * length l)%nat.
Proof.
  induction l as [|v l IH]; cbn [flat_map length]; [lia|].
  rewrite app_length, to_bits_length, IH. lia.
Qed.

(* ---- writing: one step, the fold, a whole run ---- *)

Lemma put_step k v s :
  1 <= k <= 9 -> v < 2 ^ k -> wst_inv s ->
  wst_bits (put k v s) = wst_bits s ++ to_bits (N.to_nat k) v /\ wst_inv (put k v s).
Proof.
  intros Hk Hv [Hh [Hc [Hm Hd]]]. destruct s as [d c h]. cbn [w_done w_cur w_head] in *.
  set (c' := c / 2 ^ (8 - h)).
  assert (P : 2 ^ (8 - h) <> 0) by (apply N.pow_nonzero; lia).
  assert (Ec : N.shiftl c' (8 - h) = c).
  { rewrite N.shiftl_mul_pow2. unfold c'.
    pose proof (N.div_mod c (2 ^ (8 - h)) P). rewrite Hm in H. lia. }
  assert (Hc' : c' < 2 ^ h).
  { unfold c'. apply N.div_lt_upper_bound; [exact P|].
    rewrite <- N.pow_add_r. replace (8 - h + h) with 8 by lia. exact Hc. }
  destruct (put_spec0 k h c' v Hk Hh Hc' Hv) as [B I]. rewrite Ec in B, I.
  rewrite put_done. set (s0 := put k v {| w_done := []; w_cur := c; w_head := h |}) in *.
  destruct I as [I1 [I2 [I3 I4]]].
  split.
  - unfold wst_bits in *. cbn [w_done w_cur w_head] in *.
    rewrite rev_app_distr, bytes_bits_app, <- app_assoc, B. rewrite app_assoc. reflexivity.
  - unfold wst_inv. cbn [w_done w_cur w_head]. repeat split; try assumption.
    unfold bytes_ok in *. apply Forall_app. split; assumption.
Qed.

Lemma fold_put k idxs : forall s,
  1 <= k <= 9 -> Forall (fun v => v < 2 ^ k) idxs -> wst_inv s ->
  wst_bits (fold_left (fun s v => put k v s) idxs s)
    = wst_bits s ++ flat_map (to_bits (N.to_nat k)) idxs
  /\ wst_inv (fold_left (fun s v => put k v s) idxs s).
Proof.
  induction idxs as [|v idxs IH]; intros s Hk Hf Hi.
  - simpl. rewrite app_nil_r. split; [reflexivity|assumption].
  - inversion Hf as [|? ? Hv Hf']; subst.
    destruct (put_step k v s Hk Hv Hi) as [B I].
    cbn [fold_left flat_map]. destruct (IH (put k v s) Hk Hf' I) as [B' I'].
    split; [|exact I']. rewrite B', B, <- app_assoc. reflexivity.
Qed.

Lemma wst_bits_length s :
  wst_inv s -> length (wst_bits s) = (8 * length (w_done s) + N.to_nat (w_head s))%nat.
Proof.
  intros [Hh _]. unfold wst_bits.
  rewrite app_length, bytes_bits_length, rev_length, firstn_length, byte_bits_length. lia.
Qed.

(* a run of fields that fills whole bytes: the packed bytes, read as bits, are the fields *)
Lemma pack_spec k idxs :
  1 <= k <= 9 -> Forall (fun v => v < 2 ^ k) idxs ->
  ((N.to_nat k * length idxs) mod 8 = 0)%nat ->
  bytes_bits (pack k idxs) = flat_map (to_bits (N.to_nat k)) idxs /\ bytes_ok (pack k idxs).
Proof.
  intros Hk Hf Hm. unfold pack.
  assert (I0 : wst_inv w_init).
  { unfold wst_inv, w_init; cbn. repeat split; try lia. constructor. }
  destruct (fold_put k idxs w_init Hk Hf I0) as [B I].
  set (s := fold_left (fun s v => put k v s) idxs w_init) in *.
  pose proof (wst_bits_length s I) as L. rewrite B in L.
  unfold wst_bits at 1 in L. cbn in L. rewrite flat_map_to_bits_length in L.
  destruct I as [I1 [I2 [I3 I4]]].
  assert (H0 : w_head s = 0) by lia.
  unfold w_finish. rewrite H0. cbn [N.eqb].
  split.
  - unfold wst_bits in B. rewrite H0 in B. cbn in B. rewrite app_nil_r in B. exact B.
  - unfold bytes_ok. apply Forall_rev. exact I4.
Qed.

Lemma pack_length k idxs :
  1 <= k <= 9 -> Forall (fun v => v < 2 ^ k) idxs ->
  ((N.to_nat k * length idxs) mod 8 = 0)%nat ->
  (8 * length (pack k idxs) = N.to_nat k * length idxs)%nat.
Proof.
  intros Hk Hf Hm. destruct (pack_spec k idxs Hk Hf Hm) as [B _].
  rewrite <- bytes_bits_length, B. apply flat_map_to_bits_length.
Qed.

(* ---- reading ---- *)

Lemma firstn_skipn_app {A} h k (a b : list A) :
  (h + k <= length a)%nat -> firstn k (skipn h (a ++ b)) = firstn k (skipn h a).
Proof.
  intro H. rewrite skipn_app. replace (h - length a)%nat with 0%nat by lia. cbn [skipn].
  rewrite firstn_app, skipn_length. replace (k - (length a - h))%nat with 0%nat by lia.
  cbn [firstn]. now rewrite app_nil_r.
Qed.

Lemma skipn_app_exact {A} (a b : list A) h : skipn (length a + h) (a ++ b) = skipn h b.
Proof.
  rewrite skipn_app. rewrite skipn_all2 by lia. replace (length a + h - length a)%nat with h by lia.
  reflexivity.
Qed.

Lemma get_packed_bits pre l post p k :
  bytes_ok l -> 1 <= k <= 9 -> (N.to_nat p + N.to_nat k <= 8 * length l)%nat ->
  get_packed (pre ++ l ++ post) (8 * N.of_nat (length pre) + p) k
  = Ok (bits_val (firstn (N.to_nat k) (skipn (N.to_nat p) (bytes_bits l)))).
Proof.
  intros Hl Hk Hp. unfold get_packed.
  set (q := p / 8). set (h := p mod 8).
  assert (Eq : (8 * N.of_nat (length pre) + p) / 8 = N.of_nat (length pre) + q) by (unfold q; lia).
  assert (Eh : (8 * N.of_nat (length pre) + p) mod 8 = h) by (unfold h; lia).
  rewrite Eq, Eh.
  assert (Hq : (N.to_nat q < length l)%nat) by (unfold q; lia).
  destruct (nth_N_lt_Some l q Hq) as [b0 Eb0].
  destruct (nth_error_split l (N.to_nat q) Eb0) as [l1 [l2 [El Hl1]]].
  rewrite nth_N_app_r. rewrite nth_N_app_l by exact Hq. rewrite Eb0.
  assert (Hh : h < 8) by (unfold h; lia).
  destruct (mask_some h Hh) as [m Em]. rewrite Em.
  assert (Hb0 : b0 < 256).
  { unfold bytes_ok in Hl. rewrite Forall_forall in Hl. apply Hl. rewrite El. apply in_elt. }
  assert (Es : skipn (N.to_nat p) (bytes_bits l) = skipn (N.to_nat h) (byte_bits b0 ++ bytes_bits l2)).
  { rewrite El, bytes_bits_app.
    replace (N.to_nat p) with (length (bytes_bits l1) + N.to_nat h)%nat
      by (rewrite bytes_bits_length, Hl1; unfold q, h; lia).
    rewrite skipn_app_exact. reflexivity. }
  rewrite Es.
  destruct (h + k <=? 8) eqn:C.
  - apply N.leb_le in C. f_equal.
    rewrite firstn_skipn_app by (rewrite byte_bits_length; lia).
    apply get1_spec; try assumption; lia.
  - apply N.leb_gt in C.
    destruct l2 as [|b1 l3].
    { exfalso. rewrite El, app_length in Hp. cbn [length] in Hp. unfold h, q in *. lia. }
    replace (N.of_nat (length pre) + q + 1) with (N.of_nat (length pre) + (q + 1)) by lia.
    rewrite nth_N_app_r.
    assert (Eb1 : nth_N (l ++ post) (q + 1) = Some b1).
    { unfold nth_N. rewrite El, <- app_assoc.
      replace (N.to_nat (q + 1)) with (length l1 + 1)%nat by lia.
      rewrite nth_error_app2 by lia. replace (length l1 + 1 - length l1)%nat with 1%nat by lia.
      reflexivity. }
    rewrite Eb1.
    replace (16 <? h + k) with false by (symmetry; apply N.ltb_ge; lia).
    f_equal.
    assert (Hb1 : b1 < 256).
    { unfold bytes_ok in Hl. rewrite Forall_forall in Hl. apply Hl. rewrite El.
      apply in_or_app. right. right. left. reflexivity. }
    change (bytes_bits (b1 :: l3)) with (byte_bits b1 ++ bytes_bits l3).
    rewrite app_assoc.
    rewrite firstn_skipn_app by (rewrite app_length, !byte_bits_length; lia).
    apply get2_spec; try assumption; lia.
Qed.

(* ---- round trip: field i of a packed run ---- *)

Lemma skipn_flat_map_uniform {A B} (f : A -> list B) k l i :
  (forall a, length (f a) = k) -> skipn (i * k) (flat_map f l) = flat_map f (skipn i l).
Proof.
  intro Hf. revert l. induction i as [|i IH]; intro l; [reflexivity|].
  destruct l as [|a l]; [now rewrite skipn_nil|].
  cbn [flat_map skipn]. replace (S i * k)%nat with (length (f a) + i * k)%nat by (rewrite Hf; lia).
  rewrite skipn_app_exact. apply IH.
Qed.

Lemma get_pack pre post k idxs i v :
  1 <= k <= 9 -> Forall (fun v => v < 2 ^ k) idxs ->
  ((N.to_nat k * length idxs) mod 8 = 0)%nat ->
  nth_error idxs i = Some v ->
  get_packed (pre ++ pack k idxs ++ post) (8 * N.of_nat (length pre) + N.of_nat i * k) k = Ok v.
Proof.
  intros Hk Hf Hm Hi.
  destruct (pack_spec k idxs Hk Hf Hm) as [B O].
  pose proof (pack_length k idxs Hk Hf Hm) as L.
  assert (Hlt : (i < length idxs)%nat) by (apply nth_error_Some; congruence).
  rewrite get_packed_bits; [|exact O|exact Hk|].
  2:{ rewrite L. replace (N.to_nat (N.of_nat i * k)) with (i * N.to_nat k)%nat by lia. nia. }
  f_equal. rewrite B.
  replace (N.to_nat (N.of_nat i * k)) with (i * N.to_nat k)%nat by lia.
  rewrite (skipn_flat_map_uniform _ (N.to_nat k)) by (intro; apply to_bits_length).
  destruct (nth_error_split idxs i Hi) as [l1 [l2 [El Hl1]]].
  rewrite El. rewrite skipn_app. rewrite skipn_all2 by lia.
  replace (i - length l1)%nat with 0%nat by lia. cbn [skipn app flat_map].
  rewrite firstn_app, to_bits_length. replace (N.to_nat k - N.to_nat k)%nat with 0%nat by lia.
  cbn [firstn]. rewrite app_nil_r. rewrite firstn_all2 by (rewrite to_bits_length; lia).
  apply bits_val_to_bits.
  rewrite Forall_forall in Hf. rewrite N2Nat.id. apply Hf. rewrite El. apply in_elt.
Qed.

(* bitsFor: n values fit in bits_for n bits; at most 9 bits for up to 512 values *)
Lemma bits_for_bound n : 2 <= n -> n <= 2 ^ bits_for n.
Proof.
  intro H. unfold bits_for. replace (n <? 2) with false by (symmetry; apply N.ltb_ge; lia).
  pose proof (N.size_gt (n - 1)). lia.
Qed.

Lemma bits_for_range n : 2 <= n <= 512 -> 1 <= bits_for n <= 9.
Proof.
  intro H. unfold bits_for. replace (n <? 2) with false by (symmetry; apply N.ltb_ge; lia).
  split.
  - destruct (n - 1) eqn:E; [lia|]. simpl. lia.
  - destruct (N.eq_dec (n - 1) 0) as [E|E]; [rewrite E; simpl; lia|].
    rewrite N.size_log2 by exact E.
    assert (N.log2 (n - 1) < 9) by (apply N.log2_lt_pow2; simpl; lia). lia.
Qed.
