(* Proofs.AnnotViews — the membership form of [Views] used inside the proofs, and its
   equivalence with the permutation form stated in Model.Annot. *)
From DV Require Import Base.Prelude Model.Annot Gen.Consts Proofs.AnnotBase Proofs.AnnotStore.
From Coq Require Import Permutation.
Local Open Scope Z_scope.

Definition is_bview (bs : pos) (G : list elem) (b : pos) (l : list elem) : Prop :=
  uniq l /\ forall x, In x l <-> In x G /\ blockOf bs (e_pos x) = b.
Definition is_nview (P : elem -> Prop) (G : list elem) (l : list elem) : Prop :=
  uniq l /\ forall x, In x l <-> exists e, In e G /\ x = nr e /\ P e.

Record ViewsI (bs : pos) (G : list elem) (s : state) : Prop := mkViewsI {
  vi_uniq : uniq G;
  vi_tags : forall e, In e G -> NoDup (e_tags e);
  vi_block : forall b, is_bview bs G b (bget (blk s) b);
  vi_tag : forall t, is_nview (fun e => In t (e_tags e)) G (nget (tgs s) t);
  vi_label : forall l, l <> 0%N -> is_nview (fun e => body s (e_pos e) = l) G (nget (lbl s) l);
  vi_label0 : nget (lbl s) 0%N = [];
  vi_count : forall i l, l <> 0%N -> cget (cnt s) (i, l) = count_idx i (nget (lbl s) l)
}.

Lemma in_block_true bs b e : in_block bs b e = true <-> blockOf bs (e_pos e) = b.
Proof. unfold in_block. apply pos_eqb_eq. Qed.
Lemma has_tag_true t e : has_tag t e = true <-> In t (e_tags e).
Proof. unfold has_tag. apply memN_In. Qed.
Lemma on_body_true bd l e : on_body bd l e = true <-> bd (e_pos e) = l.
Proof. unfold on_body. apply N.eqb_eq. Qed.

Lemma uniq_map_nr l : uniq l -> uniq (map nr l).
Proof. unfold uniq. now rewrite posl_map_nr. Qed.

Lemma bview_perm bs G b l : uniq G -> (is_bview bs G b l <-> Permutation l (filter (in_block bs b) G)).
Proof.
  intro UG. split.
  - intros [U H]. apply uniq_perm; [exact U | now apply uniq_filter |].
    intro x. rewrite H, filter_In, in_block_true. reflexivity.
  - intro P. split.
    + eapply perm_uniq; [apply Permutation_sym; exact P | now apply uniq_filter].
    + intro x. rewrite <- in_block_true, <- filter_In. split; apply Permutation_in; [exact P | now apply Permutation_sym].
Qed.

Lemma nview_perm (f : elem -> bool) (P : elem -> Prop) G l : (forall e, f e = true <-> P e) -> uniq G ->
  (is_nview P G l <-> Permutation l (map nr (filter f G))).
Proof.
  intros Hf UG. split.
  - intros [U H]. apply uniq_perm; [exact U | apply uniq_map_nr; now apply uniq_filter |].
    intro x. rewrite H, in_map_iff. split.
    + intros [e [He [-> Pe]]]. exists e. split; [reflexivity|]. apply filter_In. split; [exact He | now apply Hf].
    + intros [e [<- He]]. apply filter_In in He as [He Fe]. exists e. split; [exact He|]. split; [reflexivity | now apply Hf].
  - intro Pm. split.
    + eapply perm_uniq; [apply Permutation_sym; exact Pm | apply uniq_map_nr; now apply uniq_filter].
    + intro x. split.
      * intro Hx. apply (Permutation_in _ Pm) in Hx. apply in_map_iff in Hx as [e [<- He]].
        apply filter_In in He as [He Fe]. exists e. split; [exact He|]. split; [reflexivity | now apply Hf].
      * intros [e [He [-> Pe]]]. apply (Permutation_in _ (Permutation_sym Pm)). apply in_map_iff. exists e.
        split; [reflexivity|]. apply filter_In. split; [exact He | now apply Hf].
Qed.

Theorem views_iff bs G s : Views bs G s <-> ViewsI bs G s.
Proof.
  split.
  - intros [H1 H2 H3 H4 H5 H6 H7]. constructor; auto.
    + intro b. apply bview_perm; auto.
    + intro t. apply (nview_perm (has_tag t)); auto. intro e. apply has_tag_true.
    + intros l Hl. apply (nview_perm (on_body (body s) l)); auto. intro e. apply on_body_true.
    + intros i l Hl. rewrite H7 by exact Hl. rewrite (count_idx_perm i _ _ (H5 l Hl)), count_idx_map_nr. reflexivity.
  - intros [H1 H2 H3 H4 H5 H6 H7]. constructor; auto.
    + intro b. apply bview_perm; auto.
    + intro t. apply (nview_perm (has_tag t) (fun e => In t (e_tags e))); auto. intro e. apply has_tag_true.
    + intros l Hl. apply (nview_perm (on_body (body s) l) (fun e => body s (e_pos e) = l)); auto. intro e. apply on_body_true.
    + intros i l Hl. rewrite H7 by exact Hl.
      assert (P : Permutation (nget (lbl s) l) (map nr (filter (on_body (body s) l) G))).
      { apply (nview_perm (on_body (body s) l) (fun e => body s (e_pos e) = l)); auto. intro e. apply on_body_true. }
      rewrite (count_idx_perm i _ _ P), count_idx_map_nr. reflexivity.
Qed.

(* counts follow the label lists whenever every list change is matched by its delta *)
Lemma count_step (c : cmap) (lb lb' : amap N) (d : delta) :
  (forall i l, l <> 0%N -> cget c (i, l) = count_idx i (nget lb l)) ->
  (forall i l, l <> 0%N -> count_idx i (nget lb' l) = count_idx i (nget lb l) + dcount i l (fst d) - dcount i l (snd d)) ->
  forall i l, l <> 0%N -> cget (sz_apply c d) (i, l) = count_idx i (nget lb' l).
Proof.
  intros Hc Hd i l Hl. rewrite sz_apply_get.
  - rewrite Hc, Hd by exact Hl. reflexivity.
  - rewrite Hc by exact Hl. apply count_idx_nonneg.
  - rewrite Hc by exact Hl. rewrite <- Hd by exact Hl. apply count_idx_nonneg.
Qed.

(* an element of G is found in the view of its own block / body / tags *)
Lemma bview_in bs G s x : ViewsI bs G s -> In x G -> In x (bget (blk s) (blockOf bs (e_pos x))).
Proof. intros V Hx. apply (vi_block _ _ _ V). auto. Qed.
Lemma views_pos_block bs G s b x : ViewsI bs G s -> In x (bget (blk s) b) -> In x G /\ blockOf bs (e_pos x) = b.
Proof. intros V Hx. now apply (vi_block _ _ _ V). Qed.

Lemma in_posb_true p G : in_posb p G = true <-> In p (posl G).
Proof.
  unfold in_posb. rewrite existsb_exists. split.
  - intros [x [Hx E]]. apply has_pos_true in E. subst. now apply in_posl.
  - intro H. apply posl_in in H as [e [He Ep]]. exists e. split; [exact He | now apply has_pos_true].
Qed.
Lemma in_posb_false p G : in_posb p G = false <-> ~ In p (posl G).
Proof. rewrite <- in_posb_true. destruct (in_posb p G); intuition congruence. Qed.
Lemma existsb_has_pos p l : existsb (has_pos p) l = true <-> In p (posl l).
Proof. apply in_posb_true. Qed.

(* ---------- the request validation, as propositions ---------- *)
Lemma nodup_posb_true l : nodup_posb l = true <-> NoDup l.
Proof.
  induction l as [|p l IH]; cbn; [split; [constructor | reflexivity]|].
  rewrite andb_true_iff, negb_true_iff, mem_pos_nIn, IH, NoDup_cons_iff. reflexivity.
Qed.
Lemma nodup_Nb_true l : nodup_Nb l = true <-> NoDup l.
Proof.
  induction l as [|p l IH]; cbn; [split; [constructor | reflexivity]|].
  rewrite andb_true_iff, negb_true_iff, memN_nIn, IH, NoDup_cons_iff. reflexivity.
Qed.
Lemma elems_ok_true es : elems_ok es = true -> uniq es /\ (forall e, In e es -> NoDup (e_tags e)).
Proof.
  unfold elems_ok. rewrite andb_true_iff, nodup_posb_true, forallb_forall. intros [H1 H2]. split; [exact H1|].
  intros e He. apply nodup_Nb_true. exact (H2 e He).
Qed.
Lemma find_has_pos_none p l : find (has_pos p) l = None <-> ~ In p (posl l).
Proof.
  induction l as [|a l IH]; cbn; [tauto|]. destruct (has_pos p a) eqn:E.
  - apply has_pos_true in E. split; [discriminate | tauto].
  - apply has_pos_false in E. rewrite IH. tauto.
Qed.
Lemma find_has_pos_uniq p l m : uniq l -> In m l -> e_pos m = p -> find (has_pos p) l = Some m.
Proof.
  intros U Hm Hp. destruct (find (has_pos p) l) as [y|] eqn:E.
  - apply find_some in E as [Hy Ey]. apply has_pos_true in Ey. f_equal. apply (uniq_inj l y m U Hy Hm). congruence.
  - apply find_has_pos_none in E. exfalso. apply E. rewrite <- Hp. now apply in_posl.
Qed.
