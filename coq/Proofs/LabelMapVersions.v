(* Proofs.LabelMapVersions: the versioned machine — vmap.value is "nearest ancestor that wrote",
   operations at one version are invisible at versions that do not descend from it, and the
   flat consistency lifts to every version. *)
From DV Require Import Base.Prelude Model.Index Model.LabelMap Proofs.Index Proofs.LabelMap.
From Coq Require Import ZifyN ZifyNat ZifyBool.
Local Open Scope N_scope.

(* ---------- resolve ---------- *)
Lemma resolve_aset_other {V} a v (x : V) c : ~ In v a -> resolve a (aset N.eqb v x c) = resolve a c.
Proof.
  induction a as [|u r IH]; simpl; intro H; [reflexivity|].
  rewrite aget_aset_N. destruct (u =? v) eqn:E; [apply N.eqb_eq in E; subst; tauto|].
  rewrite IH; [reflexivity | tauto].
Qed.

Lemma resolve_aset_self {V} v r (x : V) c : resolve (v :: r) (aset N.eqb v x c) = Some x.
Proof. simpl. now rewrite aget_aset_N, N.eqb_refl. Qed.

(* ---------- getDistFromRoot ---------- *)
Lemma dist_none a v : ~ In v a -> aget N.eqb v (dist_from_root a) = None.
Proof.
  induction a as [|u r IH]; simpl; intro H; [reflexivity|].
  destruct (v =? u) eqn:E; [apply N.eqb_eq in E; subst; tauto | apply IH; tauto].
Qed.

Lemma dist_bound a v d : aget N.eqb v (dist_from_root a) = Some d -> d <= N.of_nat (length a).
Proof.
  induction a as [|u r IH]; simpl; [discriminate|].
  destruct (v =? u).
  - intro H; inversion H; subst. lia.
  - intro H. specialize (IH H). lia.
Qed.

(* ---------- vmap.value ---------- *)
Definition vstep (dist : list (N * N)) (best : N * (N * bool)) (e : N * N) : N * (N * bool) :=
  match aget N.eqb (fst e) dist with
  | Some d => if fst best <? d then (d, (snd e, true)) else best
  | None => best
  end.

Lemma vmap_value_fold dist vm : vmap_value dist vm = snd (fold_left (vstep dist) vm (0, (0, false))).
Proof. reflexivity. Qed.

Lemma fold_vstep_ext d1 d2 vm : forall best,
  (forall e, In e vm -> aget N.eqb (fst e) d1 = aget N.eqb (fst e) d2) ->
  fold_left (vstep d1) vm best = fold_left (vstep d2) vm best.
Proof.
  induction vm as [|e r IH]; intros best H; simpl; [reflexivity|].
  unfold vstep at 2 4. rewrite (H e (or_introl eq_refl)). apply IH. intros; apply H; now right.
Qed.

Lemma fold_vstep_top dist D vm : forall best,
  fst best = D -> (forall e d, In e vm -> aget N.eqb (fst e) dist = Some d -> d <= D) ->
  fold_left (vstep dist) vm best = best.
Proof.
  induction vm as [|e r IH]; intros best Hb H; simpl; [reflexivity|].
  assert (vstep dist best e = best) as E.
  { unfold vstep. destruct (aget N.eqb (fst e) dist) as [d|] eqn:A; [|reflexivity].
    specialize (H e d (or_introl eq_refl) A). destruct (fst best <? d) eqn:L; [|reflexivity].
    apply N.ltb_lt in L. lia. }
  rewrite E. apply IH; [exact Hb|]. intros; eapply H; [right|]; eassumption.
Qed.

Lemma fold_vstep_hit dist v D vm : forall best x,
  aget N.eqb v dist = Some D ->
  (forall u d, u <> v -> aget N.eqb u dist = Some d -> d < D) ->
  fst best < D -> aget N.eqb v vm = Some x ->
  fold_left (vstep dist) vm best = (D, (x, true)).
Proof.
  induction vm as [|e r IH]; intros best x Hv Hlt Hb Hx; simpl in *; [discriminate|].
  destruct e as [u y]; simpl in *. destruct (v =? u) eqn:E.
  - apply N.eqb_eq in E; subst u. inversion Hx; subst y.
    unfold vstep at 2; simpl. rewrite Hv. apply N.ltb_lt in Hb. rewrite Hb.
    apply (fold_vstep_top dist D); [reflexivity|].
    intros e d _ A. destruct (N.eq_dec (fst e) v) as [Ev|Ev]; [rewrite Ev, Hv in A; inversion A; lia|].
    specialize (Hlt (fst e) d Ev A). lia.
  - apply IH; try assumption. unfold vstep; simpl.
    destruct (aget N.eqb u dist) as [d|] eqn:A; [|exact Hb].
    assert (u <> v) as Huv by (intro; subst; now rewrite N.eqb_refl in E).
    specialize (Hlt u d Huv A). destruct (fst best <? d); simpl; lia.
Qed.

Theorem vmap_value_resolve a vm : NoDup a ->
  vmap_value (dist_from_root a) vm = match resolve a vm with Some x => (x, true) | None => (0, false) end.
Proof.
  induction a as [|v r IH]; intro ND.
  - rewrite vmap_value_fold. simpl.
    rewrite (fold_vstep_top [] 0 vm (0, (0, false))); [reflexivity | reflexivity | intros; discriminate].
  - inversion ND as [|? ? Hn ND']; subst. simpl resolve.
    destruct (aget N.eqb v vm) as [x|] eqn:A.
    + rewrite vmap_value_fold.
      rewrite (fold_vstep_hit (dist_from_root (v :: r)) v (N.of_nat (length (v :: r))) vm (0, (0, false)) x).
      * reflexivity.
      * simpl. now rewrite N.eqb_refl.
      * intros u' d' Hu H. simpl in H. rewrite (N_eqb_neq u' v Hu) in H. apply dist_bound in H. simpl length. lia.
      * simpl. lia.
      * exact A.
    + rewrite <- (IH ND'). rewrite !vmap_value_fold. f_equal.
      apply fold_vstep_ext. intros e He. simpl.
      destruct (fst e =? v) eqn:E; [|reflexivity].
      apply N.eqb_eq in E. exfalso.
      apply (proj1 (aget_None_notin N.eqb N.eqb_eq v vm)) in A. apply A.
      apply in_map_iff. exists e. split; [exact E | exact He].
Qed.

(* writing at a version outside the ancestry does not change what the vmap resolves to *)
Lemma vmap_value_aset_other a v x vm : NoDup a -> ~ In v a ->
  vmap_value (dist_from_root a) (aset N.eqb v x vm) = vmap_value (dist_from_root a) vm.
Proof. intros ND H. rewrite !vmap_value_resolve by assumption. now rewrite resolve_aset_other. Qed.

(* ---------- well-formed versioned states ---------- *)
Record MWf (s : mstate) : Prop := {
  w_anc : forall u, NoDup (anc s u);
  w_self : forall u, exists r, anc s u = u :: r;
  w_blocks : NoDup (map fst (m_blocks s));
  w_map : NoDup (map fst (m_map s));
  w_idx : NoDup (map fst (m_idx s));
}.

Lemma mwf_init : MWf m_init.
Proof.
  split.
  - intro u. unfold anc; simpl. repeat constructor. simpl; tauto.
  - intro u. now exists [].
  - constructor.
  - constructor.
  - constructor.
Qed.

(* ---------- lookups in a view ---------- *)
Lemma aget_filter_map {V W} (g : V -> option W) (m : list (N * V)) k :
  NoDup (map fst m) ->
  aget N.eqb k (filter_map (fun kc => match g (snd kc) with Some x => Some (fst kc, x) | None => None end) m)
  = match aget N.eqb k m with Some c => g c | None => None end.
Proof.
  induction m as [|[k' c] r IH]; simpl; intro ND; [reflexivity|].
  inversion ND as [|? ? Hn ND']; subst.
  destruct (k =? k') eqn:E.
  - apply N.eqb_eq in E; subst k'. destruct (g c) as [x|] eqn:G; simpl.
    + now rewrite N.eqb_refl.
    + rewrite (IH ND'). destruct (aget N.eqb k r) eqn:A; [|reflexivity].
      exfalso. apply Hn. apply (aget_Some_in N.eqb N.eqb_eq) in A. apply in_map_iff. now exists (k, v).
  - destruct (g c); simpl; [rewrite E|]; apply (IH ND').
Qed.

Definition vox_at (s : mstate) (v b : N) : option (list N) :=
  match aget N.eqb b (m_blocks s) with Some c => resolve (anc s v) c | None => None end.
Definition map_at (s : mstate) (v sv : N) : option N :=
  match aget N.eqb sv (m_map s) with Some c => resolve (anc s v) c | None => None end.
Definition idx_at (s : mstate) (v l : N) : option index :=
  match aget N.eqb l (m_idx s) with
  | Some c => match resolve (anc s v) c with Some (Some i) => Some i | _ => None end
  | None => None
  end.

Lemma view_vox s v b : MWf s -> aget N.eqb b (f_vox (view s v)) = vox_at s v b.
Proof. intro W. unfold view, vox_at; simpl. apply (aget_filter_map (resolve (anc s v))). apply (w_blocks s W). Qed.

Lemma view_map s v sv : MWf s -> aget N.eqb sv (f_map (view s v)) = map_at s v sv.
Proof.
  intro W. unfold view, map_at; simpl. pose proof (w_anc s W v) as NDa.
  rewrite <- (aget_filter_map (resolve (anc s v)) (m_map s) sv (w_map s W)).
  f_equal. clear - NDa. induction (m_map s) as [|kc r IH]; simpl; [reflexivity|].
  rewrite (vmap_value_resolve (anc s v) (snd kc) NDa).
  destruct (resolve (anc s v) (snd kc)); simpl; now rewrite IH.
Qed.

Lemma view_idx s v l : MWf s -> aget N.eqb l (f_idx (view s v)) = idx_at s v l.
Proof.
  intro W. unfold view, idx_at; simpl.
  rewrite <- (aget_filter_map (fun c => match resolve (anc s v) c with Some (Some i) => Some i | _ => None end)
                              (m_idx s) l (w_idx s W)).
  f_equal. clear. induction (m_idx s) as [|kc r IH]; simpl; [reflexivity|].
  destruct (resolve (anc s v) (snd kc)) as [[i|]|]; simpl; now rewrite IH.
Qed.

(* ---------- writing a flat state back at a version ---------- *)
Definition cell {V} (k : N) (m : list (N * vcell V)) : vcell V :=
  match aget N.eqb k m with Some c => c | None => [] end.

Lemma resolve_nil {V} a : resolve a (@nil (N * V)) = None.
Proof. induction a; simpl; auto. Qed.

Lemma cell_vput {V} v k (x : V) m k' :
  cell k' (vput v k x m) = if k' =? k then aset N.eqb v x (cell k m) else cell k' m.
Proof. unfold cell, vput. rewrite aget_aset_N. now destruct (k' =? k). Qed.

Lemma nodup_vput {V} v k (x : V) m : NoDup (map fst m) -> NoDup (map fst (vput v k x m)).
Proof. apply (nodup_aset N.eqb N.eqb_eq). Qed.

Section FoldPut.
  Context {V W : Type} (inj : W -> V) (v : N).
  Definition put_all (l : list (N * W)) (m : list (N * vcell V)) : list (N * vcell V) :=
    fold_right (fun kx m => vput v (fst kx) (inj (snd kx)) m) m l.

  Lemma nodup_put_all l m : NoDup (map fst m) -> NoDup (map fst (put_all l m)).
  Proof. induction l; simpl; intro H; [exact H | apply nodup_vput; auto]. Qed.

  Lemma resolve_put_all_other a l m k : ~ In v a -> resolve a (cell k (put_all l m)) = resolve a (cell k m).
  Proof.
    intro H. induction l as [|kx r IH]; simpl; [reflexivity|].
    rewrite cell_vput. destruct (k =? fst kx) eqn:E; [|exact IH].
    apply N.eqb_eq in E; subst. rewrite resolve_aset_other by assumption. exact IH.
  Qed.

  Lemma resolve_put_all_self r l m k :
    resolve (v :: r) (cell k (put_all l m)) =
    match aget N.eqb k l with Some x => Some (inj x) | None => resolve (v :: r) (cell k m) end.
  Proof.
    induction l as [|[k0 x0] l IH]; simpl put_all; simpl aget; [reflexivity|].
    rewrite cell_vput. simpl fst; simpl snd. destruct (k =? k0) eqn:E.
    - apply N.eqb_eq in E; subst. apply resolve_aset_self.
    - exact IH.
  Qed.
End FoldPut.

(* tombstones for the index keys that disappeared *)
Definition tomb_all (v : N) (new old : list (N * index)) (m : list (N * vcell (option index))) :=
  fold_right (fun kx m => if ahas N.eqb (fst kx) new then m else vput v (fst kx) None m) m old.

Lemma nodup_tomb_all v new old m : NoDup (map fst m) -> NoDup (map fst (tomb_all v new old m)).
Proof.
  induction old as [|kx r IH]; simpl; intro H; [exact H|].
  destruct (ahas N.eqb (fst kx) new); [auto | apply nodup_vput; auto].
Qed.

Lemma resolve_tomb_other a v new old m k : ~ In v a ->
  resolve a (cell k (tomb_all v new old m)) = resolve a (cell k m).
Proof.
  intro H. induction old as [|kx r IH]; simpl; [reflexivity|].
  destruct (ahas N.eqb (fst kx) new); [exact IH|].
  rewrite cell_vput. destruct (k =? fst kx) eqn:E; [|exact IH].
  apply N.eqb_eq in E; subst. rewrite resolve_aset_other by assumption. exact IH.
Qed.

Lemma resolve_tomb_self v r new old m k :
  resolve (v :: r) (cell k (tomb_all v new old m)) =
  if ahas N.eqb k old && negb (ahas N.eqb k new) then Some None else resolve (v :: r) (cell k m).
Proof.
  induction old as [|[k0 x0] old IH]; simpl tomb_all; [reflexivity|]. simpl fst.
  unfold ahas at 2. simpl aget. destruct (k =? k0) eqn:E.
  - apply N.eqb_eq in E; subst k0. cbv iota. rewrite andb_true_l.
    destruct (ahas N.eqb k new) eqn:A; cbv iota; cbn [negb].
    + rewrite IH. cbn [negb]. now rewrite andb_false_r.
    + rewrite cell_vput, N.eqb_refl. apply resolve_aset_self.
  - fold (ahas N.eqb k old). destruct (ahas N.eqb k0 new); [exact IH|].
    rewrite cell_vput, E. exact IH.
Qed.

Lemma vox_at_cell s v b : vox_at s v b = resolve (anc s v) (cell b (m_blocks s)).
Proof. unfold vox_at, cell. destruct (aget N.eqb b (m_blocks s)); [reflexivity | now rewrite resolve_nil]. Qed.
Lemma map_at_cell s v k : map_at s v k = resolve (anc s v) (cell k (m_map s)).
Proof. unfold map_at, cell. destruct (aget N.eqb k (m_map s)); [reflexivity | now rewrite resolve_nil]. Qed.
Lemma idx_at_cell s v l :
  idx_at s v l = match resolve (anc s v) (cell l (m_idx s)) with Some (Some i) => Some i | _ => None end.
Proof. unfold idx_at, cell. destruct (aget N.eqb l (m_idx s)); [reflexivity | now rewrite resolve_nil]. Qed.

Lemma write_back_eq s v old new :
  write_back s v old new =
  {| m_anc := m_anc s;
     m_blocks := put_all (fun x => x) v (f_vox new) (m_blocks s);
     m_map := put_all (fun x => x) v (f_map new) (m_map s);
     m_idx := put_all Some v (f_idx new) (tomb_all v (f_idx new) (f_idx old) (m_idx s)) |}.
Proof. reflexivity. Qed.

Lemma write_back_wf s v old new : MWf s -> MWf (write_back s v old new).
Proof.
  intro W. rewrite write_back_eq. split; simpl.
  - apply (w_anc s W).
  - apply (w_self s W).
  - apply nodup_put_all, (w_blocks s W).
  - apply nodup_put_all, (w_map s W).
  - apply nodup_put_all, nodup_tomb_all, (w_idx s W).
Qed.

(* the version written to sees exactly the new flat state (lookups) *)
Theorem view_write_back s v new :
  MWf s ->
  (forall k, aget N.eqb k (f_vox new) = None -> aget N.eqb k (f_vox (view s v)) = None) ->
  (forall k, aget N.eqb k (f_map new) = None -> aget N.eqb k (f_map (view s v)) = None) ->
  let s' := write_back s v (view s v) new in
  forall k, aget N.eqb k (f_vox (view s' v)) = aget N.eqb k (f_vox new) /\
            aget N.eqb k (f_map (view s' v)) = aget N.eqb k (f_map new) /\
            aget N.eqb k (f_idx (view s' v)) = aget N.eqb k (f_idx new).
Proof.
  intros W Hv Hm. remember (view s v) as old eqn:Hold. intros s' k.
  pose proof (write_back_wf s v old new W) as W'. fold s' in W'.
  destruct (w_self s W v) as [r Hr].
  assert (anc s' v = v :: r) as Hr' by (unfold s'; rewrite write_back_eq; exact Hr).
  rewrite (view_vox s' v k W'), (view_map s' v k W'), (view_idx s' v k W').
  rewrite vox_at_cell, map_at_cell, idx_at_cell, Hr'.
  unfold s'; rewrite write_back_eq; simpl m_blocks; simpl m_map; simpl m_idx.
  rewrite !resolve_put_all_self, resolve_tomb_self. repeat split.
  - destruct (aget N.eqb k (f_vox new)) eqn:A; [reflexivity|].
    rewrite <- Hr, <- vox_at_cell, <- (view_vox s v k W), <- Hold. now apply Hv.
  - destruct (aget N.eqb k (f_map new)) eqn:A; [reflexivity|].
    rewrite <- Hr, <- map_at_cell, <- (view_map s v k W), <- Hold. now apply Hm.
  - destruct (aget N.eqb k (f_idx new)) eqn:A; [reflexivity|].
    unfold ahas at 2. rewrite A. cbn [negb]. rewrite andb_true_r.
    destruct (ahas N.eqb k (f_idx old)) eqn:B; cbv iota; [reflexivity|].
    pose proof (view_idx s v k W) as E. rewrite idx_at_cell, Hr, <- Hold in E. rewrite <- E.
    unfold ahas in B. now destruct (aget N.eqb k (f_idx old)).
Qed.

(* ---------- isolation ---------- *)
Lemma filter_map_vput_other {V W} (g : vcell V -> option W) v k (x : V) m :
  (forall c, g (aset N.eqb v x c) = g c) -> g [] = None ->
  filter_map (fun kc => match g (snd kc) with Some y => Some (fst kc, y) | None => None end) (vput v k x m)
  = filter_map (fun kc => match g (snd kc) with Some y => Some (fst kc, y) | None => None end) m.
Proof.
  intros H1 H0. unfold vput, cell. induction m as [|[k' c] r IH]; simpl.
  - change [(v, x)] with (aset N.eqb v x (@nil (N * V))). now rewrite H1, H0.
  - destruct (k =? k') eqn:E; simpl.
    + now rewrite H1.
    + rewrite IH. reflexivity.
Qed.

Lemma filter_map_ext {A B} (f g : A -> option B) l : (forall x, f x = g x) -> filter_map f l = filter_map g l.
Proof. intro H. induction l as [|a r IH]; simpl; [reflexivity|]. rewrite H, IH. reflexivity. Qed.

Lemma filter_map_put_all_other {V W U} (inj : W -> V) (g : vcell V -> option U) v l m :
  (forall x c, g (aset N.eqb v (inj x) c) = g c) -> g [] = None ->
  filter_map (fun kc => match g (snd kc) with Some y => Some (fst kc, y) | None => None end) (put_all inj v l m)
  = filter_map (fun kc => match g (snd kc) with Some y => Some (fst kc, y) | None => None end) m.
Proof.
  intros H1 H0. induction l as [|kx r IH]; simpl; [reflexivity|].
  rewrite filter_map_vput_other; [exact IH | apply H1 | exact H0].
Qed.

Lemma filter_map_tomb_all_other {U} (g : vcell (option index) -> option U) v new old m :
  (forall c, g (aset N.eqb v None c) = g c) -> g [] = None ->
  filter_map (fun kc => match g (snd kc) with Some y => Some (fst kc, y) | None => None end) (tomb_all v new old m)
  = filter_map (fun kc => match g (snd kc) with Some y => Some (fst kc, y) | None => None end) m.
Proof.
  intros H1 H0. induction old as [|kx r IH]; simpl; [reflexivity|].
  destruct (ahas N.eqb (fst kx) new); [exact IH|].
  rewrite filter_map_vput_other; [exact IH | apply H1 | exact H0].
Qed.

(* an operation stored at v is invisible at every version whose ancestry does not contain v *)
Theorem view_isolated s v old new u :
  MWf s -> ~ In v (anc s u) -> view (write_back s v old new) u = view s u.
Proof.
  intros W Hv. rewrite write_back_eq. unfold view. simpl m_blocks; simpl m_map; simpl m_idx.
  change (anc {| m_anc := m_anc s; m_blocks := put_all (fun x => x) v (f_vox new) (m_blocks s);
                 m_map := put_all (fun x => x) v (f_map new) (m_map s);
                 m_idx := put_all Some v (f_idx new) (tomb_all v (f_idx new) (f_idx old) (m_idx s)) |} u)
    with (anc s u).
  pose proof (w_anc s W u) as NDa. set (a := anc s u) in *. f_equal.
  - apply (filter_map_put_all_other (fun x => x) (resolve a)).
    + intros x c. now apply resolve_aset_other.
    + apply resolve_nil.
  - set (g := fun c : vcell N => let r := vmap_value (dist_from_root a) c in if snd r then Some (fst r) else None).
    rewrite (filter_map_ext _ (fun kc => match g (snd kc) with Some y => Some (fst kc, y) | None => None end)).
    2: { intro kc. unfold g. simpl. now destruct (snd (vmap_value (dist_from_root a) (snd kc))). }
    rewrite (filter_map_ext (fun kc : N * vcell N => let r := vmap_value (dist_from_root a) (snd kc) in
                                                     if snd r then Some (fst kc, fst r) else None)
                            (fun kc => match g (snd kc) with Some y => Some (fst kc, y) | None => None end)).
    2: { intro kc. unfold g. simpl. now destruct (snd (vmap_value (dist_from_root a) (snd kc))). }
    apply (filter_map_put_all_other (fun x => x) g).
    + intros x c. unfold g. now rewrite vmap_value_aset_other.
    + reflexivity.
  - set (g := fun c : vcell (option index) => match resolve a c with Some (Some x) => Some x | _ => None end).
    rewrite (filter_map_ext _ (fun kc => match g (snd kc) with Some y => Some (fst kc, y) | None => None end)).
    2: { intro kc. unfold g. now destruct (resolve a (snd kc)) as [[?|]|]. }
    rewrite (filter_map_ext (fun kc : N * vcell (option index) =>
                               match resolve a (snd kc) with Some (Some x) => Some (fst kc, x) | _ => None end)
                            (fun kc => match g (snd kc) with Some y => Some (fst kc, y) | None => None end)).
    2: { intro kc. unfold g. now destruct (resolve a (snd kc)) as [[?|]|]. }
    rewrite (filter_map_put_all_other Some g).
    + apply (filter_map_tomb_all_other g).
      * intro c. unfold g. now rewrite resolve_aset_other.
      * unfold g. now rewrite resolve_nil.
    + intros x c. unfold g. now rewrite resolve_aset_other.
    + unfold g. now rewrite resolve_nil.
Qed.

Theorem version_isolation fx s v o s' u :
  MWf s -> mstep fx s (MData v o) = Ok s' -> ~ In v (anc s u) -> view s' u = view s u.
Proof.
  intros W H Hu. simpl in H.
  destruct (fstep fx _ (view s v) o) as [new| |]; try discriminate.
  apply Ok_inj in H. subst s'. now apply view_isolated.
Qed.

(* ---------- lifting flat consistency ---------- *)
Definition feqv (a b : fstate) : Prop :=
  forall k, aget N.eqb k (f_vox a) = aget N.eqb k (f_vox b) /\
            aget N.eqb k (f_map a) = aget N.eqb k (f_map b) /\
            aget N.eqb k (f_idx a) = aget N.eqb k (f_idx b).

Lemma consistent_feqv a b : feqv a b -> Consistent b -> Consistent a.
Proof.
  intros E C.
  assert (forall b' s, vcount a b' s = vcount b b' s) as Hv.
  { intros b' s. unfold vcount. now rewrite (proj1 (E b')). }
  assert (forall s, mapped (f_map a) s = mapped (f_map b) s) as Hm.
  { intro s. unfold mapped. now rewrite (proj1 (proj2 (E s))). }
  assert (forall l, get_idx a l = get_idx b l) as Hi.
  { intro l. unfold get_idx. now rewrite (proj2 (proj2 (E l))). }
  split.
  - intros l b' s. unfold icnt. rewrite Hi, Hv, Hm. apply (c_cnt b C).
  - rewrite Hi. apply (c_zero b C).
  - intros l i. rewrite Hi. apply (c_wf b C).
Qed.

Definition MConsistent (s : mstate) : Prop := forall u, Consistent (view s u).

(* a version nobody descends from *)
Definition leaf (s : mstate) (v : N) : Prop := forall u, u <> v -> ~ In v (anc s u).

(* what aggregateBlockChanges resolves a supervoxel to, once mapLabel is repaired *)
Lemma map_label_fixed fx s v sv :
  MWf s -> fx_maplabel fx = true -> fst (map_label fx s v sv) = mapped (f_map (view s v)) sv.
Proof.
  intros W F. unfold map_label, mapped. rewrite (view_map s v sv W). unfold map_at.
  destruct (aget N.eqb sv (m_map s)) as [vm|]; [|reflexivity].
  rewrite (vmap_value_resolve (anc s v) vm (w_anc s W v)).
  destruct (resolve (anc s v) vm); simpl; [reflexivity | now rewrite F].
Qed.

Theorem consistent_mstep_data fx s v o s' :
  MWf s -> MConsistent s -> leaf s v ->
  (forall new, fstep fx (fun sv => fst (map_label fx s v sv)) (view s v) o = Ok new ->
               Consistent new /\
               (forall k, aget N.eqb k (f_vox new) = None -> aget N.eqb k (f_vox (view s v)) = None) /\
               (forall k, aget N.eqb k (f_map new) = None -> aget N.eqb k (f_map (view s v)) = None)) ->
  mstep fx s (MData v o) = Ok s' -> MWf s' /\ MConsistent s'.
Proof.
  intros W MC L Hstep H. simpl in H.
  destruct (fstep fx _ (view s v) o) as [new| |] eqn:E; try discriminate.
  apply Ok_inj in H. subst s'. destruct (Hstep new eq_refl) as (Cn & Gv & Gm).
  split; [now apply write_back_wf|]. intro u.
  destruct (N.eq_dec u v) as [->|Hu].
  - apply (consistent_feqv _ new); [|exact Cn]. intro k.
    apply (view_write_back s v new W Gv Gm k).
  - rewrite view_isolated; [apply MC | exact W | now apply L].
Qed.

(* ---------- a new version starts as a copy of its parent ---------- *)
Definition fresh_version (s : mstate) (c : N) : Prop :=
  (forall k cl, aget N.eqb k (m_blocks s) = Some cl -> aget N.eqb c cl = None) /\
  (forall k cl, aget N.eqb k (m_map s) = Some cl -> aget N.eqb c cl = None) /\
  (forall k cl, aget N.eqb k (m_idx s) = Some cl -> aget N.eqb c cl = None).

Theorem newversion_view fx s p c s' :
  MWf s -> fresh_version s c -> mstep fx s (MNewVersion p c) = Ok s' ->
  MWf s' /\ (forall u, u <> c -> view s' u = view s u) /\ feqv (view s' c) (view s p).
Proof.
  intros W (Fb & Fm & Fi) H. simpl in H.
  destruct (ahas N.eqb c (m_anc s) || memN c (anc s p)) eqn:G; [discriminate|].
  apply Ok_inj in H. subst s'. apply orb_false_iff in G as [G1 G2].
  set (s' := {| m_anc := aset N.eqb c (c :: anc s p) (m_anc s); m_blocks := m_blocks s;
                m_map := m_map s; m_idx := m_idx s |}).
  assert (forall u, u <> c -> anc s' u = anc s u) as Ha.
  { intros u Hu. unfold anc, s'; simpl. rewrite aget_aset_N. now rewrite (N_eqb_neq u c Hu). }
  assert (anc s' c = c :: anc s p) as Hc.
  { unfold anc at 1, s'; simpl. now rewrite aget_aset_N, N.eqb_refl. }
  assert (MWf s') as W'.
  { split.
    - intro u. destruct (N.eq_dec u c) as [->|Hu].
      + rewrite Hc. constructor; [|apply (w_anc s W)]. intro Hin. apply memN_In in Hin. congruence.
      + rewrite (Ha u Hu). apply (w_anc s W).
    - intro u. destruct (N.eq_dec u c) as [->|Hu]; [rewrite Hc; eauto | rewrite (Ha u Hu); apply (w_self s W)].
    - apply (w_blocks s W).
    - apply (w_map s W).
    - apply (w_idx s W). }
  split; [exact W'|]. split.
  - intros u Hu. unfold view. rewrite (Ha u Hu). reflexivity.
  - intro k. rewrite (view_vox s' c k W'), (view_map s' c k W'), (view_idx s' c k W').
    rewrite (view_vox s p k W), (view_map s p k W), (view_idx s p k W).
    unfold vox_at, map_at, idx_at. rewrite Hc. simpl m_blocks; simpl m_map; simpl m_idx. repeat split.
    + destruct (aget N.eqb k (m_blocks s)) as [cl|] eqn:A; [|reflexivity]. simpl. now rewrite (Fb k cl A).
    + destruct (aget N.eqb k (m_map s)) as [cl|] eqn:A; [|reflexivity]. simpl. now rewrite (Fm k cl A).
    + destruct (aget N.eqb k (m_idx s)) as [cl|] eqn:A; [|reflexivity]. simpl. now rewrite (Fi k cl A).
Qed.

Theorem consistent_mstep_newversion fx s p c s' :
  MWf s -> MConsistent s -> fresh_version s c -> mstep fx s (MNewVersion p c) = Ok s' ->
  MWf s' /\ MConsistent s'.
Proof.
  intros W MC F H. destruct (newversion_view fx s p c s' W F H) as (W' & Hu & Hc).
  split; [exact W'|]. intro u. destruct (N.eq_dec u c) as [->|Hn].
  - apply (consistent_feqv _ (view s p) Hc). apply MC.
  - rewrite (Hu u Hn). apply MC.
Qed.

Theorem mconsistent_init : MWf m_init /\ MConsistent m_init.
Proof. split; [apply mwf_init|]. intro u. apply consistent_init. Qed.

(* ---------- the whole machine ---------- *)
Lemma agg_labels_ext f g svc : (forall s, f s = g s) -> agg_labels f svc = agg_labels g svc.
Proof.
  intro H. unfold agg_labels. generalize (@nil (N * list N)) as ls.
  induction svc as [|sb r IH]; intro ls; simpl; [reflexivity|]. rewrite H. apply IH.
Qed.

Lemma fstep_ext fx f g st o : (forall s, f s = g s) -> fstep fx f st o = fstep fx g st o.
Proof.
  intro H. destruct o; simpl; try reflexivity; unfold f_write, apply_label_changes;
    now rewrite (agg_labels_ext f g _ H).
Qed.

Definition MInv (n : nat) (s : mstate) : Prop := MWf s /\ forall u, Inv n (view s u).

Lemma sized_feqv n a b : feqv a b -> Sized n b -> Sized n a.
Proof. intros E S k arr. rewrite (proj1 (E k)). apply S. Qed.

Theorem machine_step fx n s v o s' :
  fx_maplabel fx = true -> N.of_nat n < 2 ^ 31 ->
  MInv n s -> leaf s v -> op_guard fx n (view s v) o ->
  mstep fx s (MData v o) = Ok s' -> MInv n s'.
Proof.
  intros F Hn [W I] L G H. simpl in H.
  rewrite (fstep_ext fx _ (mapped (f_map (view s v))) (view s v) o (fun sv => map_label_fixed fx s v sv W F)) in H.
  destruct (fstep fx (mapped (f_map (view s v))) (view s v) o) as [new| |] eqn:E; try discriminate.
  apply Ok_inj in H. subst s'.
  destruct (consistent_step fx n (view s v) o new Hn (I v) G E) as [Cn Sn].
  destruct (fstep_grows fx _ (view s v) o new E) as [Gv Gm].
  split; [now apply write_back_wf|]. intro u.
  destruct (N.eq_dec u v) as [->|Hu].
  - assert (feqv (view (write_back s v (view s v) new) v) new) as Q
        by (intro k; apply (view_write_back s v new W Gv Gm k)).
    split; [apply (consistent_feqv _ new Q Cn) | apply (sized_feqv n _ new Q Sn)].
  - rewrite view_isolated; [apply I | exact W | now apply L].
Qed.

Theorem machine_newversion fx n s p c s' :
  MInv n s -> fresh_version s c -> mstep fx s (MNewVersion p c) = Ok s' -> MInv n s'.
Proof.
  intros [W I] F H. destruct (newversion_view fx s p c s' W F H) as (W' & Hu & Hc).
  split; [exact W'|]. intro u. destruct (N.eq_dec u c) as [->|Hn].
  - destruct (I p) as [Cp Sp]. split; [apply (consistent_feqv _ (view s p) Hc Cp) | apply (sized_feqv n _ (view s p) Hc Sp)].
  - rewrite (Hu u Hn). apply I.
Qed.

(* every state reachable by requests that respect the documented contracts *)
Inductive reach (fx : fixes) (n : nat) : mstate -> Prop :=
| reach_init : reach fx n m_init
| reach_data s v o s' :
    reach fx n s -> leaf s v -> op_guard fx n (view s v) o -> mstep fx s (MData v o) = Ok s' -> reach fx n s'
| reach_new s p c s' :
    reach fx n s -> fresh_version s c -> mstep fx s (MNewVersion p c) = Ok s' -> reach fx n s'.

Theorem reach_inv fx n s :
  fx_maplabel fx = true -> N.of_nat n < 2 ^ 31 -> reach fx n s -> MInv n s.
Proof.
  intros F Hn R. induction R.
  - split; [apply mwf_init|]. intro u. split; [apply consistent_init | intros b a H; discriminate].
  - eapply machine_step; eauto.
  - eapply machine_newversion; eauto.
Qed.
